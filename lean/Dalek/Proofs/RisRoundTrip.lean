/-
`DECODE ∘ ENCODE`: the encoding of a point of the even subgroup decodes to the representative of its coset
`Q + E[4]` selected by ENCODE (`x* ≥ 0`, `x* y* ≥ 0`).  Hence ENCODE is injective on cosets.
-/
import Dalek.Proofs.RisBatchModel

namespace Dalek.Proofs.Ris

open Dalek.IR Dalek.Spec Dalek.Gen Dalek.Proofs Dalek.Model
open Dalek.Edwards
open Dalek.Bridge (Ed ERep Rep Canon edParams edParams_d)
open Dalek.FieldFacts (d sqrtM1)

/-! ## DECODE of an `s` with `s² (1 + σ) = 1 − σ` -/

/-- If `s ≠ 0` satisfies `s²(1+σ) = 1−σ` for the ordinate `σ` of a curve point `(x*, σ)` with `x* ≠ 0`, `x* ≥ 0`,
then `step_2` accepts `s` and returns `(x*, σ)`. -/
theorem dec_of_sel {s σ xs : Fp} (hs : s ^ 2 * (1 + σ) = 1 - σ) (hσ : 1 + σ ≠ 0) (hc : onCurve d xs σ)
    (hxs0 : xs ≠ 0) (hxsnn : ¬ fpIsNeg xs) (hs0 : s ≠ 0) :
    (decI s).1 = 1 ∧ decX s = xs ∧ decY s = σ := by
  unfold Dalek.Edwards.onCurve at hc
  have hu2 : (1 + s ^ 2) * (1 + σ) = 2 := by linear_combination hs
  have hu1 : (1 - s ^ 2) * (1 + σ) = 2 * σ := by linear_combination -hs
  have hvdef : decV s = -d * (1 - s ^ 2) ^ 2 - (1 + s ^ 2) ^ 2 := rfl
  have hv : decV s * (1 + σ) ^ 2 = -4 * (1 + d * σ ^ 2) := by
    rw [hvdef]
    linear_combination (-d * ((1 - s ^ 2) * (1 + σ) + 2 * σ)) * hu1 - ((1 + s ^ 2) * (1 + σ) + 2) * hu2
  have hcur : xs ^ 2 * (-(1 + d * σ ^ 2)) = s ^ 2 * (1 + σ) ^ 2 := by
    linear_combination hc - (1 + σ) * hs
  -- the radicand is the square of `4 s / (x* (1+σ))`
  have hrad : decV s * (1 + s ^ 2) ^ 2 * (xs * (1 + σ)) ^ 2 = (4 * s) ^ 2 := by
    have h1 : decV s * (1 + s ^ 2) ^ 2 * (xs * (1 + σ)) ^ 2 * (1 + σ) ^ 2
        = (4 * s) ^ 2 * (1 + σ) ^ 2 := by
      linear_combination (xs ^ 2 * ((1 + s ^ 2) * (1 + σ)) ^ 2) * hv
        + ((-4 * (1 + d * σ ^ 2)) * xs ^ 2 * ((1 + s ^ 2) * (1 + σ) + 2)) * hu2
        + 16 * hcur
    exact mul_right_cancel₀ (pow_ne_zero 2 hσ) h1
  have hden : xs * (1 + σ) ≠ 0 := mul_ne_zero hxs0 hσ
  have h4 : (4 : Fp) ≠ 0 := by
    rw [show (4 : Fp) = 2 * 2 by ring]
    exact mul_ne_zero Dalek.FieldFacts.two_ne_zero_p Dalek.FieldFacts.two_ne_zero_p
  have hrad0 : decV s * (1 + s ^ 2) ^ 2 ≠ 0 := by
    intro h; rw [h, zero_mul] at hrad
    exact pow_ne_zero 2 (mul_ne_zero h4 hs0) hrad.symm
  have hsq : IsSquare (1 / (decV s * (1 + s ^ 2) ^ 2)) := by
    rw [one_div, isSquare_inv]
    refine ⟨4 * s / (xs * (1 + σ)), ?_⟩
    rw [div_mul_div_comm, eq_div_iff (mul_ne_zero hden hden)]
    linear_combination hrad
  have hok : (decI s).1 = 1 := ((sqrtRatioFp_spec 1 _).2.2.1 hrad0 hsq).1
  obtain ⟨hI, hx, hy⟩ := dec_facts hok
  obtain ⟨hv0, hu20, -⟩ := dec_ne_zero hok
  refine ⟨hok, ?_, ?_⟩
  · -- x
    have hx2 : decX s ^ 2 = xs ^ 2 := by
      apply mul_right_cancel₀ hv0
      rw [hx]
      apply mul_right_cancel₀ (pow_ne_zero 2 hσ)
      linear_combination (-xs ^ 2) * hv - 4 * hcur
    have := fpAbs_eq_of_sq_eq hx2 hxsnn
    rwa [fpAbs_of_not_neg (show ¬ fpIsNeg (decX s) from not_fpIsNeg_fpAbs _)] at this
  · -- y
    apply mul_right_cancel₀ hu20
    rw [hy]
    apply mul_right_cancel₀ hσ
    linear_combination hu1 - σ * hu2

/-! ## The selected representative lies in the coset -/

theorem selY_sq_ne_zero {x y : Fp} (hc : onCurve d x y) (hxy : x * y ≠ 0) :
    (1 + selY x y) * (1 - selY x y) ≠ 0 := by
  have hw0 := (encW_ne_zero_iff hc).2 hxy
  have hrot := curve_rot hc
  have hy2 : 1 - y ^ 2 ≠ 0 := by
    intro h'; apply hw0; unfold encW; rw [h']; ring
  rw [selY_sq]
  split
  · intro h
    have : (1 - y ^ 2) * (1 + x ^ 2) = 0 := by rw [h, mul_zero]
    rw [hrot] at this
    have h3 : (-1 - d) * (x * y) ^ 2 = 0 := by linear_combination this
    rcases mul_eq_zero.1 h3 with h' | h'
    · exact d_ne_neg_one (by linear_combination -h')
    · exact hxy ((pow_eq_zero_iff two_ne_zero).1 h')
  · exact hy2

/-- the representative `(x*, y*)` selected by ENCODE is `P + T4` for a `T4 ∈ E[4]`, and `x* y* ≥ 0` -/
theorem sel_in_coset (P : Ed) (hxy : P.x * P.y ≠ 0) :
    ∃ T4 : Ed, IsE4 T4 ∧ (P + T4).x = fpAbs (selX1 P.x P.y) ∧ (P + T4).y = selY P.x P.y ∧
      ¬ fpIsNeg ((P + T4).x * (P + T4).y) := by
  have hi := Dalek.FieldFacts.sqrtM1_sq
  by_cases hr : fpIsNeg (P.x * P.y)
  · have hx1 : selX1 P.x P.y = sqrtM1 * P.y := by unfold selX1; rw [if_pos hr]
    have hy1 : selY1 P.x P.y = sqrtM1 * P.x := by unfold selY1; rw [if_pos hr]
    have hprod : ¬ fpIsNeg (sqrtM1 * P.y * (sqrtM1 * P.x)) := by
      have : sqrtM1 * P.y * (sqrtM1 * P.x) = -(P.x * P.y) := by linear_combination (P.x * P.y) * hi
      rw [this, fpIsNeg_neg hxy]; exact not_not.2 hr
    unfold selY; rw [hx1, hy1]
    by_cases hn : fpIsNeg (sqrtM1 * P.y)
    · obtain ⟨h1, h2⟩ := add_neg_tors4 P
      refine ⟨-tors4, Or.inr (Or.inr (Or.inr rfl)), ?_, ?_, ?_⟩
      · rw [h1, fpAbs_of_neg hn]
      · rw [h2, if_pos hn]
      · rw [h1, h2, neg_mul_neg]; exact hprod
    · obtain ⟨h1, h2⟩ := add_tors4 P
      refine ⟨tors4, Or.inr (Or.inr (Or.inl rfl)), ?_, ?_, ?_⟩
      · rw [h1, fpAbs_of_not_neg hn]
      · rw [h2, if_neg hn]
      · rw [h1, h2]; exact hprod
  · have hx1 : selX1 P.x P.y = P.x := by unfold selX1; rw [if_neg hr]
    have hy1 : selY1 P.x P.y = P.y := by unfold selY1; rw [if_neg hr]
    unfold selY; rw [hx1, hy1]
    by_cases hn : fpIsNeg P.x
    · obtain ⟨h1, h2⟩ := add_tors2 P
      refine ⟨tors2, Or.inr (Or.inl rfl), ?_, ?_, ?_⟩
      · rw [h1, fpAbs_of_neg hn]
      · rw [h2, if_pos hn]
      · rw [h1, h2, neg_mul_neg]; exact hr
    · refine ⟨0, Or.inl rfl, ?_, ?_, ?_⟩
      · rw [add_zero, fpAbs_of_not_neg hn]
      · rw [add_zero, if_neg hn]
      · rw [add_zero]; exact hr

theorem isE4_of_mul_eq_zero (P : Ed) (h : P.x * P.y = 0) : IsE4 P := by
  have hon : -P.x ^ 2 + P.y ^ 2 = 1 + d * P.x ^ 2 * P.y ^ 2 := P.on
  rcases mul_eq_zero.1 h with h0 | h0
  · rw [h0] at hon
    have hy : (P.y - 1) * (P.y + 1) = 0 := by linear_combination hon
    rcases mul_eq_zero.1 hy with h' | h'
    · left; ext
      · exact h0
      · show P.y = 1; linear_combination h'
    · right; left; ext
      · exact h0
      · show P.y = -1; linear_combination h'
  · rw [h0] at hon
    have hx2 : (P.x - sqrtM1) * (P.x + sqrtM1) = 0 := by
      linear_combination (-1 : Fp) * hon - Dalek.FieldFacts.sqrtM1_sq
    rcases mul_eq_zero.1 hx2 with h' | h'
    · right; right; left; ext
      · show P.x = sqrtM1; linear_combination h'
      · exact h0
    · right; right; right; ext
      · show P.x = -sqrtM1; linear_combination h'
      · exact h0

theorem isE4_neg {T : Ed} (h : IsE4 T) : IsE4 (-T) := by
  rw [isE4_iff] at h ⊢; rw [smul_neg, h, neg_zero]

/-- `step_2` accepts `s = 0` and returns the identity -/
theorem dec_identity {s : Fp} (hs0 : s = 0) : (decI s).1 = 1 ∧ decX s = 0 ∧ decY s = 1 := by
  have hm := magic_sq
  have hrad : decV s * (1 + s ^ 2) ^ 2 = -1 - d := by
    have hvdef : decV s = -d * (1 - s ^ 2) ^ 2 - (1 + s ^ 2) ^ 2 := rfl
    rw [hvdef, hs0]; ring
  have hrad0 : decV s * (1 + s ^ 2) ^ 2 ≠ 0 := by
    rw [hrad]; intro h; exact d_ne_neg_one (by linear_combination -h)
  have hsq : IsSquare (1 / (decV s * (1 + s ^ 2) ^ 2)) := by
    rw [hrad]
    refine ⟨invSqrtAmD, ?_⟩
    rw [div_eq_iff (by intro h; exact d_ne_neg_one (by linear_combination -h))]
    linear_combination -hm
  have hok : (decI s).1 = 1 := ((sqrtRatioFp_spec 1 _).2.2.1 hrad0 hsq).1
  exact ⟨hok, dec_zero hs0 hok⟩

/-- **`DECODE ∘ ENCODE` in the field.**  For a valid extended point of `P` with `(1−y²)x²y²` a square (every point
of the even subgroup), `step_2` accepts the `s` computed by `compress` (which is non-negative), passes the `t ≥ 0`
and `y ≠ 0` checks, and returns the point `P + T4` of the same coset (`T4 ∈ E[4]`). -/
theorem dec_enc {P : Ed} {X Y Z T : Fp} (hP : RepExt P X Y Z T) (hsq : IsSquare (encW P.x P.y)) :
    ∃ T4 : Ed, IsE4 T4 ∧ (decI (encS X Y Z T)).1 = 1 ∧ decX (encS X Y Z T) = (P + T4).x ∧
      decY (encS X Y Z T) = (P + T4).y ∧ ¬ fpIsNeg (decT (encS X Y Z T)) ∧ decY (encS X Y Z T) ≠ 0 := by
  obtain ⟨hX, hY, hTT⟩ := repExt_coords hP
  by_cases hxy : P.x * P.y = 0
  · have hs0 : encS X Y Z T = 0 :=
      encS_of_mul_eq_zero Z T (by rw [hX, hY]; linear_combination (Z ^ 2) * hxy)
    obtain ⟨hok, hx, hy⟩ := dec_identity hs0
    refine ⟨-P, isE4_neg (isE4_of_mul_eq_zero P hxy), hok, ?_, ?_, ?_, ?_⟩
    · rw [hx, add_neg_cancel]; rfl
    · rw [hy, add_neg_cancel]; rfl
    · unfold decT; rw [hx, zero_mul]; exact not_fpIsNeg_zero
    · rw [hy]; exact one_ne_zero
  · have hc : onCurve d P.x P.y := P.on
    have e1 := encS_sq hP.1 hc ((encW_ne_zero_iff hc).2 hxy) hsq
    rw [← hX, ← hY, ← hTT] at e1
    have hσ := one_add_selY_ne_zero hc hxy
    have hσ2 := selY_sq_ne_zero hc hxy
    obtain ⟨T4, hT4, hqx, hqy, hqt⟩ := sel_in_coset P hxy
    obtain ⟨hxy', -, -⟩ := coset_data hT4 rfl hxy hsq
    have hcq : onCurve d (P + T4).x (P + T4).y := (P + T4).on
    have hs0 : encS X Y Z T ≠ 0 := by
      intro h0
      rw [h0] at e1
      apply hσ2
      have : 1 - selY P.x P.y = 0 := by linear_combination -e1
      rw [this, mul_zero]
    have hxs0 : (P + T4).x ≠ 0 := left_ne_zero_of_mul hxy'
    have hxsnn : ¬ fpIsNeg (P + T4).x := by rw [hqx]; exact not_fpIsNeg_fpAbs _
    rw [← hqy] at e1 hσ
    obtain ⟨hok, hx, hy⟩ := dec_of_sel e1 hσ hcq hxs0 hxsnn hs0
    refine ⟨T4, hT4, hok, hx, hy, ?_, ?_⟩
    · unfold decT; rw [hx, hy]; exact hqt
    · rw [hy]; exact right_ne_zero_of_mul hxy'

/-! ## On the executable specification -/

theorem isNeg_sEncS (x y z t : Nat) : isNeg (sEncS x y z t) = false := by
  unfold sEncS; exact Bridge.isNeg_fabs _

/-- **`DECODE ∘ ENCODE`**: the encoding of (any extended representation of) a point `Q` of the even subgroup is
accepted by DECODE, which returns a canonical point of the coset `Q + E[4]`. -/
theorem decode_encodeExt_sq {x y z t : Nat} {Q : Ed} (h : RepExt Q (x : Fp) (y : Fp) (z : Fp) (t : Fp))
    (hsq : IsSquare (encW Q.x Q.y)) :
    ∃ (p : Pt) (T4 : Ed), Ristretto.decode (Ristretto.encodeExt x y z t) = some p ∧ 4 • T4 = 0 ∧
      Rep p (Q + T4) ∧ Canon p := by
  obtain ⟨T4, hT4, hok, hx, hy, ht, hy0⟩ := dec_enc h hsq
  rw [encodeExt_unfold]
  rw [← cast_sEncS] at hok hx hy ht hy0
  have hn := sEncS_lt x y z t
  have hneg := isNeg_sEncS x y z t
  generalize sEncS x y z t = n at *
  refine ⟨⟨sDecX n, sDecY n⟩, T4, ?_, (isE4_iff T4).1 hT4, ⟨by rw [← hx]; exact cast_sDecX n,
    by rw [← hy]; exact cast_sDecY n⟩, ⟨sDecX_lt n, sDecY_lt n⟩⟩
  rw [decode_unfold]
  have hlen : (feToBytes n).length = 32 := Bridge.feToBytes_length n
  have hle : leToNat (feToBytes n) = n := by rw [Bridge.leToNat_feToBytes, Nat.mod_eq_of_lt hn]
  rw [hle]
  have c1 : ((feToBytes n).length != 32) = false := by rw [hlen]; rfl
  have c2 : decide (n ≥ P) = false := by rw [decide_eq_false_iff_not]; omega
  have c3 : (sqrtRatioM1 1 (sDecW n)).1 = true := by
    rw [decI_cast, sqrtRatioFp_cast] at hok
    dsimp only at hok
    exact c2f_eq_one_iff.1 hok
  have c4 : isNeg (fmul (sDecX n) (sDecY n)) = false := by
    rw [← Bool.not_eq_true, isNeg_eq_fp, Bridge.cast_fmul, cast_sDecX, cast_sDecY]; exact ht
  have c5 : (sDecY n == 0) = false := by
    rw [beq_eq_false_iff_ne]
    intro h0; apply hy0; rw [← cast_sDecY, h0]; exact Nat.cast_zero
  simp only [c1, c2, hneg, c3, c4, c5, Bool.or_self, Bool.not_true, Bool.false_eq_true, if_false]

theorem decode_encodeExt {x y z t : Nat} {Q : Ed} (h : RepExt Q (x : Fp) (y : Fp) (z : Fp) (t : Fp))
    (heven : ∃ R : Ed, Q = 2 • R) :
    ∃ (p : Pt) (T4 : Ed), Ristretto.decode (Ristretto.encodeExt x y z t) = some p ∧ 4 • T4 = 0 ∧
      Rep p (Q + T4) ∧ Canon p := by
  obtain ⟨R, rfl⟩ := heven
  exact decode_encodeExt_sq h (isSquare_encW_even R)

/-- **ENCODE is injective on cosets**: two points (with square `w`) with the same encoding differ by an element of
`E[4]` (different elements of the group encode differently). -/
theorem encodeExt_injective_sq {x y z t x' y' z' t' : Nat} {Q Q' : Ed}
    (h : RepExt Q (x : Fp) (y : Fp) (z : Fp) (t : Fp)) (h' : RepExt Q' (x' : Fp) (y' : Fp) (z' : Fp) (t' : Fp))
    (hsq : IsSquare (encW Q.x Q.y)) (hsq' : IsSquare (encW Q'.x Q'.y))
    (henc : Ristretto.encodeExt x y z t = Ristretto.encodeExt x' y' z' t') :
    ∃ T4 : Ed, 4 • T4 = 0 ∧ Q' = Q + T4 := by
  obtain ⟨p, T, hd, hT, hp, hcp⟩ := decode_encodeExt_sq h hsq
  obtain ⟨p', T', hd', hT', hp', hcp'⟩ := decode_encodeExt_sq h' hsq'
  rw [henc, hd'] at hd
  have hpp : p' = p := Option.some.inj hd
  subst hpp
  have hQ : Q + T = Q' + T' := by
    ext
    · rw [← hp.1, ← hp'.1]
    · rw [← hp.2, ← hp'.2]
  refine ⟨T - T', by rw [smul_sub, hT, hT', sub_zero], ?_⟩
  rw [← add_sub_assoc, hQ, add_sub_cancel_right]

theorem encodeExt_injective {x y z t x' y' z' t' : Nat} {Q Q' : Ed}
    (h : RepExt Q (x : Fp) (y : Fp) (z : Fp) (t : Fp)) (h' : RepExt Q' (x' : Fp) (y' : Fp) (z' : Fp) (t' : Fp))
    (heven : ∃ R : Ed, Q = 2 • R) (heven' : ∃ R : Ed, Q' = 2 • R)
    (henc : Ristretto.encodeExt x y z t = Ristretto.encodeExt x' y' z' t') :
    ∃ T4 : Ed, 4 • T4 = 0 ∧ Q' = Q + T4 := by
  obtain ⟨R, rfl⟩ := heven
  obtain ⟨R', rfl⟩ := heven'
  exact encodeExt_injective_sq h h' (isSquare_encW_even R) (isSquare_encW_even R') henc

/-- decoded points have a square `w = (1−y²)x²y²` (`1 − y² = (2s/(1+s²))²`) -/
theorem dec_encW_square {s : Fp} (hok : (decI s).1 = 1) : IsSquare (encW (decX s) (decY s)) := by
  obtain ⟨-, -, hy⟩ := dec_facts hok
  obtain ⟨-, hu2, -⟩ := dec_ne_zero hok
  refine ⟨2 * s * decX s * decY s / (1 + s ^ 2), ?_⟩
  rw [div_mul_div_comm, eq_div_iff (mul_ne_zero hu2 hu2)]
  unfold encW
  linear_combination (-(decX s ^ 2 * decY s ^ 2) * (decY s * (1 + s ^ 2) + (1 - s ^ 2))) * hy

end Dalek.Proofs.Ris

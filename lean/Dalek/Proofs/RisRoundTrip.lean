/-
`DECODE ∘ ENCODE`: the encoding of a point of the even subgroup decodes to the representative of its coset
`Q + E[4]` selected by ENCODE (`x* ≥ 0`, `x* y* ≥ 0`).  Hence ENCODE is injective on cosets.
-/
import Dalek.Proofs.RisBatchModel

namespace Dalek.Proofs.Ris

open Dalek.IR Dalek.Spec Dalek.Gen Dalek.Proofs Dalek.Model
open Dalek.Edwards
open Dalek.Bridge (Ed ERep Rep Canon edParams edParams_d)
open Dalek.FieldFacts (d sqrtM1)

/-! ## DECODE of an `s` with `s² (1 + σ) = 1 − σ` -/

/-- If `s ≠ 0` satisfies `s²(1+σ) = 1−σ` for the ordinate `σ` of a curve point `(x*, σ)` with `x* ≠ 0`, `x* ≥ 0`,
then `step_2` accepts `s` and returns `(x*, σ)`. -/
theorem dec_of_sel {s σ xs : Fp} (hs : s ^ 2 * (1 + σ) = 1 - σ) (hσ : 1 + σ ≠ 0) (hc : onCurve d xs σ)
    (hxs0 : xs ≠ 0) (hxsnn : ¬ fpIsNeg xs) (hs0 : s ≠ 0) :
    (decI s).1 = 1 ∧ decX s = xs ∧ decY s = σ := by
  unfold Dalek.Edwards.onCurve at hc
  have hu2 : (1 + s ^ 2) * (1 + σ) = 2 := by linear_combination hs
  have hu1 : (1 - s ^ 2) * (1 + σ) = 2 * σ := by linear_combination -hs
  have hvdef : decV s = -d * (1 - s ^ 2) ^ 2 - (1 + s ^ 2) ^ 2 := rfl
  have hv : decV s * (1 + σ) ^ 2 = -4 * (1 + d * σ ^ 2) := by
    rw [hvdef]
    linear_combination (-d * ((1 - s ^ 2) * (1 + σ) + 2 * σ)) * hu1 - ((1 + s ^ 2) * (1 + σ) + 2) * hu2
  have hcur : xs ^ 2 * (-(1 + d * σ ^ 2)) = s ^ 2 * (1 + σ) ^ 2 := by
    linear_combination hc + (1 + σ) * hs
  -- the radicand is the square of `4 s / (x* (1+σ))`
  have hrad : decV s * (1 + s ^ 2) ^ 2 * (xs * (1 + σ)) ^ 2 = (4 * s) ^ 2 := by
    have h1 : decV s * (1 + s ^ 2) ^ 2 * (xs * (1 + σ)) ^ 2 * (1 + σ) ^ 2
        = (4 * s) ^ 2 * (1 + σ) ^ 2 := by
      linear_combination (xs ^ 2 * ((1 + s ^ 2) * (1 + σ)) ^ 2) * hv
        + (decV s * xs ^ 2 * (1 + σ) ^ 2 * ((1 + s ^ 2) * (1 + σ) + 2) * 0
          + (-4 * (1 + d * σ ^ 2)) * xs ^ 2 * ((1 + s ^ 2) * (1 + σ) + 2)) * hu2
        + 16 * hcur
    exact mul_right_cancel₀ (pow_ne_zero 2 hσ) h1
  have hden : xs * (1 + σ) ≠ 0 := mul_ne_zero hxs0 hσ
  have h4 : (4 : Fp) ≠ 0 := by
    rw [show (4 : Fp) = 2 * 2 by ring]
    exact mul_ne_zero Dalek.FieldFacts.two_ne_zero_p Dalek.FieldFacts.two_ne_zero_p
  have hrad0 : decV s * (1 + s ^ 2) ^ 2 ≠ 0 := by
    intro h; rw [h, zero_mul] at hrad
    exact pow_ne_zero 2 (mul_ne_zero h4 hs0) hrad.symm
  have hsq : IsSquare (1 / (decV s * (1 + s ^ 2) ^ 2)) := by
    rw [one_div, isSquare_inv]
    refine ⟨4 * s / (xs * (1 + σ)), ?_⟩
    rw [div_mul_div_comm, eq_div_iff (mul_ne_zero hden hden)]
    linear_combination hrad
  have hok : (decI s).1 = 1 := ((sqrtRatioFp_spec 1 _).2.2.1 hrad0 hsq).1
  obtain ⟨hI, hx, hy⟩ := dec_facts hok
  obtain ⟨hv0, hu20, -⟩ := dec_ne_zero hok
  refine ⟨hok, ?_, ?_⟩
  · -- x
    have hx2 : decX s ^ 2 = xs ^ 2 := by
      apply mul_right_cancel₀ hv0
      rw [hx]
      apply mul_right_cancel₀ (pow_ne_zero 2 hσ)
      linear_combination (-xs ^ 2) * hv - 4 * hcur
    have := fpAbs_eq_of_sq_eq hx2 hxsnn
    rwa [fpAbs_of_not_neg (show ¬ fpIsNeg (decX s) from not_fpIsNeg_fpAbs _)] at this
  · -- y
    apply mul_right_cancel₀ hu20
    rw [hy]
    apply mul_right_cancel₀ hσ
    linear_combination hu1 - σ * hu2

end Dalek.Proofs.Ris

import Dalek.Proofs.LimbTac
import Dalek.Gen.Norm.Field26
/-! Functional correctness of the translated serial-u32 field kernels in `ZMod p`, for ALL integer inputs
(bounds are not needed for these identities; they are needed, and proved separately by the analyser,
for "the Rust arithmetic does not overflow, so it computes these integer functions"). -/
namespace Dalek.Proofs.Field26
open Dalek Dalek.Gen.Norm.Field26

abbrev P : Nat := 2 ^ 255 - 19

/-- value of a 10-limb radix-2^25.5 vector: limb `i` has weight `2^⌈25.5 i⌉` -/
def rep26 (l : List Int) : Int :=
  l.getD 0 0 + 2 ^ 26 * l.getD 1 0 + 2 ^ 51 * l.getD 2 0 + 2 ^ 77 * l.getD 3 0 + 2 ^ 102 * l.getD 4 0
    + 2 ^ 128 * l.getD 5 0 + 2 ^ 153 * l.getD 6 0 + 2 ^ 179 * l.getD 7 0 + 2 ^ 204 * l.getD 8 0
    + 2 ^ 230 * l.getD 9 0

/-- The normaliser has already removed every `as u32`/`as u64` cast that the interval analysis proves
to be lossless; should a masked value survive under a cast, the `emod_emod_pow` instances collapse
`(x % 2^32) % 2^26`-style towers (25/26-bit masks under 32/64-bit casts). -/
macro "limb_finish" : tactic =>
  `(tactic| (simp only [rep26, List.getD_cons_zero, List.getD_cons_succ,
               emod_emod_pow _ (show 25 ≤ 32 by norm_num), emod_emod_pow _ (show 26 ≤ 32 by norm_num),
               emod_emod_pow _ (show 25 ≤ 64 by norm_num), emod_emod_pow _ (show 26 ≤ 64 by norm_num)] at *
             limb_push
             simp only [*]
             ring_nf
             try reduce_mod_char))

theorem add_correct (x0 x1 x2 x3 x4 x5 x6 x7 x8 x9 y0 y1 y2 y3 y4 y5 y6 y7 y8 y9 : Int) :
    ((rep26 (add_fn x0 x1 x2 x3 x4 x5 x6 x7 x8 x9 y0 y1 y2 y3 y4 y5 y6 y7 y8 y9) : Int) : ZMod P)
      = ((rep26 [x0, x1, x2, x3, x4, x5, x6, x7, x8, x9] : Int) : ZMod P)
        + ((rep26 [y0, y1, y2, y3, y4, y5, y6, y7, y8, y9] : Int) : ZMod P) := by
  limb_lets add_fn
  cast_eqs (ZMod P)
  limb_finish

theorem sub_correct (x0 x1 x2 x3 x4 x5 x6 x7 x8 x9 y0 y1 y2 y3 y4 y5 y6 y7 y8 y9 : Int) :
    ((rep26 (sub_fn x0 x1 x2 x3 x4 x5 x6 x7 x8 x9 y0 y1 y2 y3 y4 y5 y6 y7 y8 y9) : Int) : ZMod P)
      = ((rep26 [x0, x1, x2, x3, x4, x5, x6, x7, x8, x9] : Int) : ZMod P)
        - ((rep26 [y0, y1, y2, y3, y4, y5, y6, y7, y8, y9] : Int) : ZMod P) := by
  limb_lets sub_fn
  cast_eqs (ZMod P)
  limb_finish

theorem neg_correct (x0 x1 x2 x3 x4 x5 x6 x7 x8 x9 : Int) :
    ((rep26 (neg_fn x0 x1 x2 x3 x4 x5 x6 x7 x8 x9) : Int) : ZMod P)
      = - ((rep26 [x0, x1, x2, x3, x4, x5, x6, x7, x8, x9] : Int) : ZMod P) := by
  limb_lets neg_fn
  cast_eqs (ZMod P)
  limb_finish

/-- `reduce` of ten u64 words preserves the value -/
theorem reduce_correct (x0 x1 x2 x3 x4 x5 x6 x7 x8 x9 : Int) :
    ((rep26 (reduce_fn x0 x1 x2 x3 x4 x5 x6 x7 x8 x9) : Int) : ZMod P)
      = ((rep26 [x0, x1, x2, x3, x4, x5, x6, x7, x8, x9] : Int) : ZMod P) := by
  limb_lets reduce_fn
  cast_eqs (ZMod P)
  limb_finish

/-- the ten pre-reduction coefficients of the square already represent `x^2` -/
theorem square_inner_correct (x0 x1 x2 x3 x4 x5 x6 x7 x8 x9 : Int) :
    ((rep26 (square_inner_fn x0 x1 x2 x3 x4 x5 x6 x7 x8 x9) : Int) : ZMod P)
      = ((rep26 [x0, x1, x2, x3, x4, x5, x6, x7, x8, x9] : Int) : ZMod P) ^ 2 := by
  limb_lets square_inner_fn
  cast_eqs (ZMod P)
  limb_finish

theorem square_correct (x0 x1 x2 x3 x4 x5 x6 x7 x8 x9 : Int) :
    ((rep26 (square_fn x0 x1 x2 x3 x4 x5 x6 x7 x8 x9) : Int) : ZMod P)
      = ((rep26 [x0, x1, x2, x3, x4, x5, x6, x7, x8, x9] : Int) : ZMod P) ^ 2 := by
  limb_lets square_fn
  cast_eqs (ZMod P)
  limb_finish

theorem square2_correct (x0 x1 x2 x3 x4 x5 x6 x7 x8 x9 : Int) :
    ((rep26 (square2_fn x0 x1 x2 x3 x4 x5 x6 x7 x8 x9) : Int) : ZMod P)
      = 2 * ((rep26 [x0, x1, x2, x3, x4, x5, x6, x7, x8, x9] : Int) : ZMod P) ^ 2 := by
  limb_lets square2_fn
  cast_eqs (ZMod P)
  limb_finish

theorem pow2k_body_correct (x0 x1 x2 x3 x4 x5 x6 x7 x8 x9 : Int) :
    ((rep26 (pow2k_body_fn x0 x1 x2 x3 x4 x5 x6 x7 x8 x9) : Int) : ZMod P)
      = ((rep26 [x0, x1, x2, x3, x4, x5, x6, x7, x8, x9] : Int) : ZMod P) ^ 2 := by
  limb_lets pow2k_body_fn
  cast_eqs (ZMod P)
  limb_finish

theorem mul_correct (x0 x1 x2 x3 x4 x5 x6 x7 x8 x9 y0 y1 y2 y3 y4 y5 y6 y7 y8 y9 : Int) :
    ((rep26 (mul_fn x0 x1 x2 x3 x4 x5 x6 x7 x8 x9 y0 y1 y2 y3 y4 y5 y6 y7 y8 y9) : Int) : ZMod P)
      = ((rep26 [x0, x1, x2, x3, x4, x5, x6, x7, x8, x9] : Int) : ZMod P)
        * ((rep26 [y0, y1, y2, y3, y4, y5, y6, y7, y8, y9] : Int) : ZMod P) := by
  limb_lets mul_fn
  cast_eqs (ZMod P)
  limb_finish

end Dalek.Proofs.Field26

import Dalek.Proofs.Avx2Field.Defs
import Dalek.Proofs.Avx2Field.Small
import Dalek.Proofs.Avx2Field.Perm
import Dalek.Proofs.Avx2Field.MulConsts
import Dalek.Proofs.Avx2Field.Square
import Dalek.Proofs.Avx2Field.Mul
/-! Lane-level functional correctness of the translated AVX2 vector field kernels (`Dalek.Gen.Avx2Field`, regenerated
from `curve25519-dalek/src/backend/vector/avx2/field.rs`) in `ZMod (2^255-19)`, for ALL integer inputs of the shallow
functions `*_fn` produced by the analyser/normaliser.  (Bounds are needed, and proved by the analyser, only for "the
u32/u64 lane arithmetic does not wrap, so it computes these integer functions".)

* `Defs`      : `Lane`, `lane`, `laneVal`, `lane64`, `laneVal64`, `elem51`, `val51`, the proof macros
* `Small`     : `new`, `split`, `negate_lazy`, `diff_sum`, `reduce`, `neg`, `add`
* `Perm`      : `conditional_select/assign`, the ten shuffles, the eight blends
* `MulConsts` : `mul_consts`, `reduce64`
* `Square`    : `square_and_negate_D`
* `Mul`       : `mul` -/

/-
Byte-level plumbing of the Montgomery ladder model: `Scalar::bits_le().rev().skip(1)` is `Spec.bitsBE · 255`
of the little-endian value, and the x25519 byte function of the model is RFC 7748 `X25519`.
-/
import Dalek.Proofs.MontLadder
import Dalek.Proofs.Bridge.Bytes
import Dalek.Proofs.Bridge.Scalar
import Mathlib.Tactic.IntervalCases

namespace Dalek.Proofs.Mont
open Dalek.IR Dalek.Spec Dalek.Model Dalek.Bridge Dalek.Model.Ladder

theorem bitsBE_eq (k n : Nat) :
    bitsBE k n = ((List.range n).map (fun t => (k >>> t) % 2 == 1)).reverse := by
  induction n with
  | zero => rfl
  | succ n ih => rw [bitsBE, ih, List.range_succ, List.map_append, List.reverse_append]; rfl

theorem byte_bit : ∀ n, n < 256 → ∀ j, j < 8 → ((n >>> j) &&& 1 = 1 ↔ n / 2 ^ j % 2 = 1) := by
  decide +kernel

theorem u8_bit (x : UInt8) (j : Nat) (hj : j < 8) :
    (((x >>> UInt8.ofNat j) &&& 1) == 1) = (x.toNat / 2 ^ j % 2 == 1) := by
  have hj' : (UInt8.ofNat j).toNat % 8 = j := by
    rw [UInt8.toNat_ofNat']; omega
  have h1 : (1 : UInt8).toNat = 1 := by decide
  rw [Bool.eq_iff_iff, beq_iff_eq, beq_iff_eq, ← UInt8.toNat_inj, UInt8.toNat_and, UInt8.toNat_shiftRight, hj', h1]
  exact byte_bit _ (UInt8.toNat_lt x) j hj

/-- bit `i` of a little-endian byte string, as read by `Scalar::bits_le` -/
theorem scalar_bit (bytes : List UInt8) (i : Nat) (hi : i / 8 < bytes.length) :
    (((bytes.getD (i >>> 3) 0 >>> UInt8.ofNat (i &&& 7)) &&& 1) == 1) = ((leToNat bytes >>> i) % 2 == 1) := by
  have e3 : i >>> 3 = i / 8 := by rw [Nat.shiftRight_eq_div_pow]
  have e7 : i &&& 7 = i % 8 := Nat.and_two_pow_sub_one_eq_mod i 3
  rw [e3, e7, u8_bit _ _ (Nat.mod_lt _ (by norm_num)), getD_toNat bytes _ hi, Nat.shiftRight_eq_div_pow]
  congr 1
  have hi8 : i = 8 * (i / 8) + i % 8 := by omega
  have e : (2 : Nat) ^ i = 256 ^ (i / 8) * 2 ^ (i % 8) := by
    conv_lhs => rw [hi8, Nat.pow_add, Nat.pow_mul]
  rw [e, ← Nat.div_div_eq_div_mul]
  generalize leToNat bytes / 256 ^ (i / 8) = m
  have hr : i % 8 < 8 := Nat.mod_lt _ (by norm_num)
  generalize i % 8 = r at hr
  interval_cases r <;> omega

/-- `scalar.bits_le().rev().skip(1)` = bits 254 … 0 of the integer value, most significant first -/
theorem scalarBits_eq (bytes : List UInt8) (hlen : bytes.length = 32) :
    (scalarBitsLE bytes).reverse.drop 1 = bitsBE (leToNat bytes) 255 := by
  have h : scalarBitsLE bytes = (List.range 256).map (fun t => (leToNat bytes >>> t) % 2 == 1) := by
    unfold scalarBitsLE
    apply List.map_congr_left
    intro i hi
    rw [List.mem_range] at hi
    exact scalar_bit bytes i (by omega)
  rw [h, bitsBE_eq, List.drop_reverse, List.length_map, List.length_range, ← List.map_take, List.take_range]
  rfl

/-- `&MontgomeryPoint * &Scalar` of the model is `Spec.montMul` -/
theorem montMul_eq (u sc : List UInt8) (hlen : sc.length = 32) : Ladder.montMul u sc = Spec.montMul u sc := by
  unfold Ladder.montMul Spec.montMul montMulBitsBE
  rw [scalarBits_eq sc hlen, mulBitsBE_nat _ (feFromBytes_lt u)]

end Dalek.Proofs.Mont

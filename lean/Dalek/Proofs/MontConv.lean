/-
Montgomery ↔ Edwards conversions of the model (`EdwardsPoint::to_montgomery`, `MontgomeryPoint::to_edwards`):
agreement with `Spec.toMontgomery` / `Spec.toEdwards`, the birational-map identities, and the
characterisation of the failure set of `to_edwards` (`u = −1` or `u` on the twist).
-/
import Dalek.Proofs.MontField
import Dalek.Proofs.SpecBridge
import Mathlib.Tactic.FieldSimp
import Mathlib.Tactic.LinearCombination

namespace Dalek.Proofs.Mont
open Dalek.IR Dalek.Spec Dalek.Model Dalek.Bridge Dalek.Model.Ladder

/-! ### number-theoretic facts about `A = 486662` in `GF(2^255 − 19)` -/

/-- Euler's criterion, negative direction -/
theorem not_isSquare_of_pow {a : Fp} (h : a ^ (P / 2) = -1) : ¬ IsSquare a := by
  have ha : a ≠ 0 := by
    rintro rfl
    rw [zero_pow (by norm_num)] at h
    exact Dalek.FieldFacts.neg_one_ne_one_p (by rw [← h]; simp at h ⊢)
  rw [ZMod.euler_criterion P ha, h]
  exact Dalek.FieldFacts.neg_one_ne_one_p

theorem pow_half_of_powMod {a : Nat} (h : Dalek.Primes.powMod a (P / 2) P = P - 1) : ((a : Nat) : Fp) ^ (P / 2) = -1 :=
  Dalek.FieldFacts.zmod_pow_eq_neg_one_of_powMod Dalek.FieldFacts.p_pos h

/-- `2` is not a square (`p ≡ 5 mod 8`) -/
theorem two_not_isSquare : ¬ IsSquare (2 : Fp) := by
  have := not_isSquare_of_pow (pow_half_of_powMod (a := 2) (by decide +kernel))
  simpa using this

/-- `A − 2 = 486660` is not a square: `u = −1` is on the twist -/
theorem A_sub_two_not_isSquare : ¬ IsSquare (486660 : Fp) := by
  have := not_isSquare_of_pow (pow_half_of_powMod (a := 486660) (by decide +kernel))
  simpa using this

/-- `A² − 4` is not a square: `u² + A u + 1` has no root -/
theorem A_sq_sub_four_not_isSquare : ¬ IsSquare ((486662 : Fp) ^ 2 - 4) := by
  have := not_isSquare_of_pow (pow_half_of_powMod (a := 486662 ^ 2 - 4) (by decide +kernel))
  have e : ((486662 ^ 2 - 4 : Nat) : Fp) = (486662 : Fp) ^ 2 - 4 := by norm_num
  rwa [e] at this

/-- a square root of `−(A + 2) = −486664` -/
def sqrtNegAp2 : Nat := 6853475219497561581579357271197624642482790079785650197046958215289687604742

theorem sqrtNegAp2_sq : ((sqrtNegAp2 : Nat) : Fp) ^ 2 = -486664 := by
  rw [eq_neg_iff_add_eq_zero]
  have h : ((sqrtNegAp2 ^ 2 + 486664 : Nat) : Fp) = 0 :=
    Dalek.FieldFacts.natCast_eq_zero_of_mod (by decide +kernel)
  simpa using h

theorem quad_ne_zero (u : Fp) : u ^ 2 + 486662 * u + 1 ≠ 0 := by
  intro h
  apply A_sq_sub_four_not_isSquare
  refine ⟨2 * u + 486662, ?_⟩
  linear_combination (-4 : Fp) * h

/-! ### `to_montgomery` -/

theorem mont_u_eq {Y Z : Fp} (hZ : Z ≠ 0) : (Z + Y) * (Z - Y)⁻¹ = (1 + Y * Z⁻¹) * (1 - Y * Z⁻¹)⁻¹ := by
  by_cases h : Z - Y = 0
  · have hy : Y = Z := (sub_eq_zero.1 h).symm
    rw [h, hy, mul_inv_cancel₀ hZ]; simp
  · have h' : 1 - Y * Z⁻¹ ≠ 0 := by
      intro h0; apply h
      have : Y * Z⁻¹ * Z = 1 * Z := by rw [show Y * Z⁻¹ = 1 by linear_combination -h0]
      rw [mul_assoc, inv_mul_cancel₀ hZ, mul_one, one_mul] at this
      rw [this, sub_self]
    field_simp

/-- The model of `EdwardsPoint::to_montgomery` (translated item + `as_bytes`) is `Spec.toMontgomery` of the
affine point, for every extended point with `Z ≠ 0`. -/
theorem edToMontgomery_eq (e : EPt) (hZ : (e.Z : Fp) ≠ 0) :
    edToMontgomery e = feToBytes (Spec.toMontgomery e.toAffine) := by
  unfold edToMontgomery
  rw [to_montgomery_nat]
  show feToBytes (fmul (fadd e.Z e.Y) (finv (fsub e.Z e.Y))) = _
  refine congrArg feToBytes ?_
  apply eq_of_cast_eq (fmul_lt _ _) (fmul_lt _ _)
  simp only [EPt.toAffine, cast_fmul, cast_fadd, cast_fsub, cast_finv, Nat.cast_one]
  exact mont_u_eq hZ

/-- value of `to_montgomery` in the field, in terms of the represented group element: `u = (1+y)/(1−y)` -/
theorem edToMontgomery_val {e : EPt} {Q : Ed} (h : ERep e Q) :
    ((feFromBytes (edToMontgomery e) : Nat) : Fp) = (1 + Q.y) / (1 - Q.y) := by
  obtain ⟨hZ, -, hy, -⟩ := h
  rw [edToMontgomery_eq e hZ, feFromBytes_feToBytes, cast_mod_P]
  simp only [Spec.toMontgomery, EPt.toAffine, cast_fmul, cast_fadd, cast_fsub, cast_finv, Nat.cast_one]
  rw [hy, div_eq_mul_inv, div_eq_mul_inv]

/-! ### `to_edwards` -/

theorem toEdwards_eq (u : List UInt8) (sign : Bool) :
    Ladder.toEdwards u sign = Spec.toEdwards (feFromBytes u) sign := by
  unfold Ladder.toEdwards Spec.toEdwards
  rw [to_edwards_nat]
  simp only [List.getD_cons_zero, List.getD_cons_succ, Nat.mod_eq_of_lt (feFromBytes_lt u)]
  by_cases h : feFromBytes u = P - 1
  · simp [h, b2n]
  · simp [b2n]

/-- the `y` computed by `to_edwards` -/
def yOfU (u : Nat) : Nat := fmul (fsub (u % P) 1) (finv (fadd (u % P) 1))

theorem toEdwards_unfold (u : Nat) (s : Bool) :
    Spec.toEdwards u s = if u % P = P - 1 then none else decompress (setSignBit (feToBytes (yOfU u)) s) := rfl

theorem cast_eq_neg_one_iff (u : Nat) : (u : Fp) = -1 ↔ u % P = P - 1 := by
  have h : ((P - 1 : Nat) : Fp) = -1 := Dalek.FieldFacts.natCast_pred_eq_neg_one (by norm_num)
  rw [← h, cast_eq_iff, Nat.mod_eq_of_lt (show P - 1 < P by norm_num)]

theorem cast_yOfU (u : Nat) : ((yOfU u : Nat) : Fp) = ((u : Fp) - 1) / ((u : Fp) + 1) := by
  simp only [yOfU, cast_fmul, cast_fsub, cast_finv, cast_fadd, cast_mod_P, Nat.cast_one, div_eq_mul_inv]

theorem feFromBytes_yBytes (u : Nat) (s : Bool) :
    feFromBytes (setSignBit (feToBytes (yOfU u)) s) = yOfU u := by
  have hl : (feToBytes (yOfU u)).length = 32 := natToLe_length _ _
  rw [feFromBytes_setSignBit hl (leToNat_feToBytes_lt_255 _), feFromBytes_feToBytes]
  exact Nat.mod_eq_of_lt (fmul_lt _ _)

/-- **Soundness of `to_edwards`**: a returned point is a canonical point of the curve whose image under
`to_montgomery` is `u` again (the birational map is inverted), and whose sign is the requested one unless
`x = 0`. -/
theorem toEdwards_some {u : Nat} {s : Bool} {p : Pt} (h : Spec.toEdwards u s = some p) :
    onCurve p = true ∧ Canon p ∧ Spec.toMontgomery p = u % P ∧ (p.x ≠ 0 → isNeg p.x = s) := by
  rw [toEdwards_unfold] at h
  by_cases hu : u % P = P - 1
  · rw [if_pos hu] at h; cases h
  rw [if_neg hu] at h
  obtain ⟨h1, h2, h3, h4, -⟩ := decompress_some h
  have hy : p.y = yOfU u := by
    have := feFromBytes_yBytes u s
    unfold feFromBytes at this; rw [h3, this]
  refine ⟨h1, h2, ?_, ?_⟩
  · apply eq_of_cast_eq (fmul_lt _ _) (Nat.mod_lt _ P_pos)
    have hu1 : (u : Fp) + 1 ≠ 0 := by
      intro h0; apply hu; rw [← cast_eq_neg_one_iff]; linear_combination h0
    simp only [cast_fmul, cast_fadd, cast_fsub, cast_finv, Nat.cast_one, hy, cast_yOfU, cast_mod_P]
    have h2' : (2 : Fp) ≠ 0 := Dalek.FieldFacts.two_ne_zero_p
    have e1 : 1 + ((u : Fp) - 1) / ((u : Fp) + 1) = 2 * u / (u + 1) := by field_simp; ring
    have e2 : 1 - ((u : Fp) - 1) / ((u : Fp) + 1) = 2 / (u + 1) := by field_simp; ring
    rw [e1, e2]
    field_simp
  · intro hx
    have hl : (feToBytes (yOfU u)).length = 32 := natToLe_length _ _
    rw [h4 hx, signBit_setSignBit hl (leToNat_feToBytes_lt_255 _)]

/-- the rational function behind decompression of `y = (u−1)/(u+1)`: `(y²−1)/(d y²+1) = −(A+2)·u/(u²+Au+1)` -/
theorem ratio_identity {u : Fp} (hu : u + 1 ≠ 0) :
    (((u - 1) / (u + 1)) ^ 2 - 1) / (Dalek.FieldFacts.d * ((u - 1) / (u + 1)) ^ 2 + 1) =
      -486664 * u / (u ^ 2 + 486662 * u + 1) := by
  have hq := quad_ne_zero u
  have hd := Dalek.FieldFacts.d_mul
  have hden : Dalek.FieldFacts.d * ((u - 1) / (u + 1)) ^ 2 + 1 ≠ 0 := dyy_add_one_ne_zero _
  rw [div_eq_div_iff hden hq]
  have key : (121666 : Fp) * (Dalek.FieldFacts.d * (u - 1) ^ 2 + (u + 1) ^ 2) = u ^ 2 + 486662 * u + 1 := by
    linear_combination (u - 1) ^ 2 * hd
  field_simp
  linear_combination (4 * u) * key

/-- **Failure set of `to_edwards`**: `None` exactly for `u = −1` and for `u` on the twist
(`u³ + A u² + u` a non-square); both sign choices behave alike. -/
theorem toEdwards_eq_none_iff (u : Nat) (s : Bool) :
    Spec.toEdwards u s = none ↔
      ((u : Fp) = -1 ∨ ¬ IsSquare ((u : Fp) ^ 3 + 486662 * (u : Fp) ^ 2 + (u : Fp))) := by
  rw [toEdwards_unfold]
  by_cases hu : u % P = P - 1
  · rw [if_pos hu]; simp [(cast_eq_neg_one_iff u).2 hu]
  rw [if_neg hu]
  have hu' : (u : Fp) ≠ -1 := fun h => hu ((cast_eq_neg_one_iff u).1 h)
  have hu1 : (u : Fp) + 1 ≠ 0 := fun h0 => hu' (by linear_combination h0)
  have hq := quad_ne_zero (u : Fp)
  rw [decompress_none_iff, feFromBytes_yBytes]
  simp only [hu', false_or]
  apply not_congr
  -- ∃ x on the curve with this y  ↔  the ratio is a square  ↔  u(u²+Au+1) is a square
  have hb : feFromBytes (setSignBit (feToBytes (yOfU u)) s) = yOfU u := feFromBytes_yBytes u s
  have hiff : ∀ x : Nat, onCurve ⟨x, yOfU u⟩ = true ↔
      (x : Fp) ^ 2 = -486664 * (u : Fp) / ((u : Fp) ^ 2 + 486662 * u + 1) := by
    intro x
    rw [onCurve_iff, edParams_d, onCurve_iff_ratio]
    simp only [cast_yOfU]
    rw [← ratio_identity hu1, eq_div_iff (dyy_add_one_ne_zero _)]
  have hs := sqrtNegAp2_sq
  have hs0 : ((sqrtNegAp2 : Nat) : Fp) ≠ 0 := by
    intro h0; rw [h0] at hs
    have h4 : ((486664 : Nat) : Fp) ≠ 0 := Dalek.FieldFacts.natCast_ne_zero_of_mod (by decide +kernel)
    apply h4; have : (486664 : Fp) = 0 := by linear_combination hs
    simpa using this
  generalize ((sqrtNegAp2 : Nat) : Fp) = r at hs hs0
  constructor
  · rintro ⟨x, hx⟩
    rw [hiff, eq_div_iff hq] at hx
    have hc : (r⁻¹) ^ 2 * (-486664) = 1 := by rw [← hs]; field_simp
    refine ⟨(x : Fp) * ((u : Fp) ^ 2 + 486662 * u + 1) * r⁻¹, ?_⟩
    linear_combination (-((u : Fp) * ((u : Fp) ^ 2 + 486662 * u + 1))) * hc
      - (((u : Fp) ^ 2 + 486662 * u + 1) * (r⁻¹) ^ 2) * hx
  · rintro ⟨w, hw⟩
    refine ⟨(w * r / ((u : Fp) ^ 2 + 486662 * u + 1)).val, ?_⟩
    rw [hiff, ZMod.natCast_zmod_val, div_pow, div_eq_div_iff (pow_ne_zero 2 hq) hq]
    linear_combination ((u : Fp) * ((u : Fp) ^ 2 + 486662 * u + 1) ^ 2) * hs
      - (((u : Fp) ^ 2 + 486662 * u + 1) * r ^ 2) * hw

end Dalek.Proofs.Mont

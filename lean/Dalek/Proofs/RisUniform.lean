/-
`from_uniform_bytes`: the images of the Elligator map are valid extended points (`map_valid`), so the translated
Edwards addition of two of them is the affine addition of the specification.
-/
import Dalek.Proofs.RisSpec
import Dalek.Proofs.RisAlgebra
import Dalek.Props.C03.Formulas

namespace Dalek.Proofs.Ris

open Dalek.IR Dalek.Spec Dalek.Gen Dalek.Proofs Dalek.Model
open Dalek.Edwards
open Dalek.Bridge (Ed ERep Rep Canon)
open Dalek.FieldFacts (d sqrtM1)

/-- casts of the four coordinates of `Spec.Ristretto.mapExt` -/
theorem cast_mapExt (t : Nat) :
    (((Ristretto.mapExt t).1 : Nat) : Fp) = mapW0 t * mapW3 t ∧
    (((Ristretto.mapExt t).2.1 : Nat) : Fp) = mapW2 t * mapW1 t ∧
    (((Ristretto.mapExt t).2.2.1 : Nat) : Fp) = mapW1 t * mapW3 t ∧
    (((Ristretto.mapExt t).2.2.2 : Nat) : Fp) = mapW0 t * mapW2 t := by
  have hW0 : ((fmul (fmul 2 (sMapS t)) (sMapV t) : Nat) : Fp) = mapW0 t := by
    unfold mapW0
    rw [Bridge.cast_fmul, Bridge.cast_fmul, cast_sMapS, cast_sMapV, cast_two]; ring
  have hW1 : ((fmul (sMapN t) Ristretto.SQRT_AD_MINUS_ONE : Nat) : Fp) = mapW1 t := by
    unfold mapW1; rw [Bridge.cast_fmul, cast_sMapN, cast_SQRT_AD_MINUS_ONE]
  have hW2 : ((fsub 1 (fsq (sMapS t)) : Nat) : Fp) = mapW2 t := by
    unfold mapW2; rw [Bridge.cast_fsub, Bridge.cast_fsq, cast_sMapS, Nat.cast_one]
  have hW3 : ((fadd 1 (fsq (sMapS t)) : Nat) : Fp) = mapW3 t := by
    unfold mapW3; rw [Bridge.cast_fadd, Bridge.cast_fsq, cast_sMapS, Nat.cast_one]
  rw [mapExt_unfold]
  dsimp only
  refine ⟨?_, ?_, ?_, ?_⟩
  · rw [Bridge.cast_fmul, hW0, hW3]
  · rw [Bridge.cast_fmul, hW2, hW1]
  · rw [Bridge.cast_fmul, hW1, hW3]
  · rw [Bridge.cast_fmul, hW0, hW2]

theorem mapExt_lt (t : Nat) :
    (Ristretto.mapExt t).1 < P ∧ (Ristretto.mapExt t).2.1 < P ∧ (Ristretto.mapExt t).2.2.1 < P ∧
      (Ristretto.mapExt t).2.2.2 < P := by
  rw [mapExt_unfold]
  exact ⟨Bridge.fmul_lt _ _, Bridge.fmul_lt _ _, Bridge.fmul_lt _ _, Bridge.fmul_lt _ _⟩

/-- extended point of a quadruple -/
def toEPt (p : RistrettoDalek.RPt) : EPt := ⟨p.1, p.2.1, p.2.2.1, p.2.2.2⟩

/-- **MAP is valid**: the output of RFC 9496 MAP / `elligator_ristretto_flavor` denotes a point of the curve. -/
theorem mapExt_valid (t : Nat) : ∃ Q : Ed, ERep (toEPt (Ristretto.mapExt t)) Q := by
  obtain ⟨Q, hQ⟩ := map_valid (t : Fp)
  obtain ⟨h1, h2, h3, h4⟩ := cast_mapExt t
  refine ⟨Q, ?_⟩
  unfold ERep toEPt
  dsimp only
  rw [h1, h2, h3, h4]
  exact hQ.as_extended

theorem map_eq_toAffine (t : Nat) : Ristretto.map t = (toEPt (Ristretto.mapExt t)).toAffine := by
  kernel_rfl

/-- the translated Edwards addition, run by the model on canonical valid points, represents the sum -/
theorem edwardsAdd_erep {p q : RistrettoDalek.RPt} {Q R : Ed}
    (hp : p.1 < P ∧ p.2.1 < P ∧ p.2.2.1 < P ∧ p.2.2.2 < P)
    (hq : q.1 < P ∧ q.2.1 < P ∧ q.2.2.1 < P ∧ q.2.2.2 < P)
    (hP : ERep (toEPt p) Q) (hQ : ERep (toEPt q) R) :
    ERep (toEPt (RistrettoDalek.edwardsAdd p q)) (Q + R) := by
  obtain ⟨X, Y, Z, T, hrun, hrep⟩ := Dalek.Props.C03.add_spec hP hQ
  unfold RistrettoDalek.edwardsAdd
  rw [run_nat_eq _ _ (by
    simp only [List.mem_cons, List.not_mem_nil, or_false]
    rintro n (h | h | h | h | h | h | h | h) <;> rw [h]
    exacts [hp.1, hp.2.1, hp.2.2.1, hp.2.2.2, hq.1, hq.2.1, hq.2.2.1, hq.2.2.2])]
  simp only [List.map_cons, List.map_nil]
  unfold toEPt at hrun
  dsimp only at hrun
  rw [hrun]
  unfold ERep toEPt RistrettoDalek.toRPt
  simp only [List.map_cons, List.map_nil, List.getD_cons_zero, List.getD_cons_succ, ZMod.natCast_zmod_val]
  exact hrep

theorem getD_map_val_lt (l : List Fp) (i : Nat) : (l.map ZMod.val).getD i 0 < P := by
  rw [List.getD_eq_getElem?_getD]
  cases h : (l.map ZMod.val)[i]? with
  | none => exact Bridge.P_pos
  | some x =>
    obtain ⟨z, -, hz⟩ := List.mem_map.1 (List.mem_of_getElem? h)
    rw [Option.getD_some, ← hz]; exact ZMod.val_lt z

/-- the outputs of the translated Edwards addition run by the model are canonical -/
theorem edwardsAdd_lt {p q : RistrettoDalek.RPt}
    (hp : p.1 < P ∧ p.2.1 < P ∧ p.2.2.1 < P ∧ p.2.2.2 < P)
    (hq : q.1 < P ∧ q.2.1 < P ∧ q.2.2.1 < P ∧ q.2.2.2 < P) :
    (RistrettoDalek.edwardsAdd p q).1 < P ∧ (RistrettoDalek.edwardsAdd p q).2.1 < P ∧
      (RistrettoDalek.edwardsAdd p q).2.2.1 < P ∧ (RistrettoDalek.edwardsAdd p q).2.2.2 < P := by
  unfold RistrettoDalek.edwardsAdd
  rw [run_nat_eq _ _ (by
    simp only [List.mem_cons, List.not_mem_nil, or_false]
    rintro n (h | h | h | h | h | h | h | h) <;> rw [h]
    exacts [hp.1, hp.2.1, hp.2.2.1, hp.2.2.2, hq.1, hq.2.1, hq.2.2.1, hq.2.2.2])]
  generalize AProg.run zmodOps AlgEdwards.add _ = l
  unfold RistrettoDalek.toRPt
  dsimp only
  exact ⟨getD_map_val_lt l 0, getD_map_val_lt l 1, getD_map_val_lt l 2, getD_map_val_lt l 3⟩

end Dalek.Proofs.Ris

/-
Membership in the even subgroup `2E`: a curve point whose ordinate is `y = (1 − s²)/(1 + s²)` for an `s` with
`v(s) = −d(1−s²)² − (1+s²)²` a square is the double of a curve point (explicit halving).  This covers the points
returned by DECODE and by MAP (Elligator), so every reachable `RistrettoPoint` is in `2E`.
-/
import Dalek.Proofs.RisRoundTrip

namespace Dalek.Proofs.Ris

open Dalek.IR Dalek.Spec Dalek.Proofs
open Dalek.Edwards
open Dalek.Bridge (Ed edParams edParams_d)
open Dalek.FieldFacts (d sqrtM1)

/-- in a finite prime field the product of two non-squares is a square -/
theorem isSquare_mul_of_not_isSquare {a b : Fp} (ha : ¬ IsSquare a) (hb : ¬ IsSquare b) : IsSquare (a * b) := by
  have ha0 : a ≠ 0 := by rintro rfl; exact ha ⟨0, by simp⟩
  have hb0 : b ≠ 0 := by rintro rfl; exact hb ⟨0, by simp⟩
  rw [ZMod.euler_criterion (2 ^ 255 - 19) ha0] at ha
  rw [ZMod.euler_criterion (2 ^ 255 - 19) hb0] at hb
  rw [ZMod.euler_criterion (2 ^ 255 - 19) (mul_ne_zero ha0 hb0), mul_pow]
  rcases ZMod.pow_div_two_eq_neg_one_or_one (2 ^ 255 - 19) ha0 with h | h
  · exact absurd h ha
  rcases ZMod.pow_div_two_eq_neg_one_or_one (2 ^ 255 - 19) hb0 with h' | h'
  · exact absurd h' hb
  rw [h, h']; ring

/-- `-1/d` is not a square: if `A₁ A₂ d = −1` then one of `A₁`, `A₂` is a square -/
theorem isSquare_or_of_mul_d {A₁ A₂ : Fp} (h : A₁ * A₂ * d = -1) : IsSquare A₁ ∨ IsSquare A₂ := by
  by_contra hne
  rw [not_or] at hne
  obtain ⟨z, hz⟩ := isSquare_mul_of_not_isSquare hne.1 hne.2
  have hz0 : z ≠ 0 := by
    rintro rfl
    rw [hz, mul_zero, zero_mul] at h
    exact one_ne_zero (α := Fp) (by linear_combination h)
  apply neg_d_not_isSquare
  refine ⟨z⁻¹, ?_⟩
  rw [hz] at h
  field_simp
  linear_combination -h

/-- core of the halving construction: from a square root `A = a²` of the quadratic `A = κ(1+A)(1−dA)`,
`κ = m² s²`, a curve point `R = (a, b)` with `y(2R) (1+s²) = 1 − s²` -/
theorem half_core {s a : Fp} (hs0 : s ≠ 0)
    (hA : a * a = invSqrtAmD ^ 2 * s ^ 2 * (1 + a * a) * (1 - d * (a * a))) :
    ∃ R : Ed, (2 • R).y * (1 + s ^ 2) = 1 - s ^ 2 := by
  have hm := magic_sq
  have hm0 := magic_ne_zero
  have hκ0 : invSqrtAmD ^ 2 * s ^ 2 ≠ 0 := mul_ne_zero (pow_ne_zero _ hm0) (pow_ne_zero _ hs0)
  have ha0 : a ≠ 0 := by
    rintro rfl
    apply hκ0; linear_combination -hA
  have h1dA : 1 - d * (a * a) ≠ 0 := by
    have := one_sub_d_sq_ne_zero a
    intro h; apply this; linear_combination h
  have h1A : 1 + a * a ≠ 0 := by
    intro h
    rw [h, mul_zero, zero_mul] at hA
    exact ha0 (mul_self_eq_zero.1 hA)
  have hden : invSqrtAmD * s * (1 - d * (a * a)) ≠ 0 := mul_ne_zero (mul_ne_zero hm0 hs0) h1dA
  obtain ⟨b, hb⟩ : ∃ b, b * (invSqrtAmD * s * (1 - d * (a * a))) = a := ⟨a / _, div_mul_cancel₀ _ hden⟩
  have hb2 : b ^ 2 * (1 - d * (a * a)) = 1 + a * a := by
    apply mul_right_cancel₀ (mul_ne_zero hκ0 h1dA)
    linear_combination (b * (invSqrtAmD * s * (1 - d * (a * a))) + a) * hb + hA
  have hcurve : Dalek.Edwards.onCurve edParams.d a b := by
    unfold Dalek.Edwards.onCurve; rw [edParams_d]
    linear_combination hb2
  have hb1 : 1 - b ^ 2 = s ^ 2 * (1 + a * a) := by
    apply mul_right_cancel₀ (mul_ne_zero h1dA (pow_ne_zero 2 hm0))
    linear_combination (a * a) * hm - (invSqrtAmD ^ 2) * hb2 + hA
  refine ⟨⟨a, b, hcurve⟩, ?_⟩
  have hY := EdPoint.two_nsmul_y (⟨a, b, hcurve⟩ : Ed)
  have hdn := (EdPoint.add_den_ne_zero (⟨a, b, hcurve⟩ : Ed) ⟨a, b, hcurve⟩).2
  rw [edParams_d] at hY hdn
  dsimp only at hY hdn
  have hd2 : 1 - d * a ^ 2 * b ^ 2 ≠ 0 := by intro h'; apply hdn; linear_combination h'
  have hY' : (2 • (⟨a, b, hcurve⟩ : Ed)).y * (1 - d * a ^ 2 * b ^ 2) = b ^ 2 + a ^ 2 := by
    rw [hY, div_mul_cancel₀ _ hd2]
  generalize (2 • (⟨a, b, hcurve⟩ : Ed)).y = Y at hY'
  apply mul_right_cancel₀ h1A
  have hc' : -a ^ 2 + b ^ 2 = 1 + d * a ^ 2 * b ^ 2 := by linear_combination hb2
  linear_combination hY' - (Y + 1) * hb1 - Y * hc'

/-- **Halving.**  A curve point `P` with `y (1 + s²) = 1 − s²` and `−d(1−s²)² − (1+s²)²` a square is a double. -/
theorem even_of_s {P : Ed} {s : Fp} (hy : P.y * (1 + s ^ 2) = 1 - s ^ 2)
    (hv : IsSquare (-d * (1 - s ^ 2) ^ 2 - (1 + s ^ 2) ^ 2)) : ∃ R : Ed, P = 2 • R := by
  have hm := magic_sq
  have hm0 := magic_ne_zero
  have hd0 := Dalek.FieldFacts.d_ne_zero
  have h2 := Dalek.FieldFacts.two_ne_zero_p
  have hPon : -P.x ^ 2 + P.y ^ 2 = 1 + d * P.x ^ 2 * P.y ^ 2 := P.on
  have hu2 : 1 + s ^ 2 ≠ 0 := by
    intro h
    rw [h, mul_zero] at hy
    apply h2; linear_combination h - hy
  by_cases hs0 : s = 0
  · -- the identity
    refine ⟨0, ?_⟩
    rw [smul_zero]
    have hy1 : P.y = 1 := by rw [hs0] at hy; linear_combination hy
    have hx0 : P.x = 0 := by
      rw [hy1] at hPon
      have : P.x ^ 2 * (1 + d) = 0 := by linear_combination -hPon
      rcases mul_eq_zero.1 this with h' | h'
      · exact (pow_eq_zero_iff two_ne_zero).1 h'
      · exact absurd (by linear_combination h') d_ne_neg_one
    ext
    · exact hx0
    · exact hy1
  obtain ⟨r, hr⟩ := hv
  have hκ0 : invSqrtAmD ^ 2 * s ^ 2 ≠ 0 := mul_ne_zero (pow_ne_zero _ hm0) (pow_ne_zero _ hs0)
  have hD0 : 2 * (invSqrtAmD ^ 2 * s ^ 2) * d ≠ 0 := mul_ne_zero (mul_ne_zero h2 hκ0) hd0
  -- discriminant `β² + 4κ²d = (r m)²`
  have hdisc : (1 - invSqrtAmD ^ 2 * s ^ 2 * (1 - d)) ^ 2 + 4 * (invSqrtAmD ^ 2 * s ^ 2) ^ 2 * d
      = (r * invSqrtAmD) ^ 2 := by
    linear_combination (invSqrtAmD ^ 2) * hr - (1 + s ^ 4 * invSqrtAmD ^ 2 * (1 + d)) * hm
  -- the two roots
  obtain ⟨A₁, hA₁⟩ : ∃ A, A * (2 * (invSqrtAmD ^ 2 * s ^ 2) * d) =
      r * invSqrtAmD - (1 - invSqrtAmD ^ 2 * s ^ 2 * (1 - d)) := ⟨_ / _, div_mul_cancel₀ _ hD0⟩
  obtain ⟨A₂, hA₂⟩ : ∃ A, A * (2 * (invSqrtAmD ^ 2 * s ^ 2) * d) =
      -(r * invSqrtAmD) - (1 - invSqrtAmD ^ 2 * s ^ 2 * (1 - d)) := ⟨_ / _, div_mul_cancel₀ _ hD0⟩
  have hprod : A₁ * A₂ * d = -1 := by
    apply mul_right_cancel₀ (pow_ne_zero 2 hD0)
    linear_combination (d * A₂ * (2 * (invSqrtAmD ^ 2 * s ^ 2) * d)) * hA₁
      + (d * (r * invSqrtAmD - (1 - invSqrtAmD ^ 2 * s ^ 2 * (1 - d)))) * hA₂ + d * hdisc
  -- either root gives a half
  have hroot : ∀ A : Fp, (A * (2 * (invSqrtAmD ^ 2 * s ^ 2) * d) + (1 - invSqrtAmD ^ 2 * s ^ 2 * (1 - d))) ^ 2
      = (r * invSqrtAmD) ^ 2 → A = invSqrtAmD ^ 2 * s ^ 2 * (1 + A) * (1 - d * A) := by
    intro A h
    apply mul_right_cancel₀ hD0
    apply mul_left_cancel₀ h2
    linear_combination h - hdisc
  have hhalf : ∃ R : Ed, (2 • R).y * (1 + s ^ 2) = 1 - s ^ 2 := by
    rcases isSquare_or_of_mul_d hprod with ⟨a, ha⟩ | ⟨a, ha⟩
    · refine half_core (a := a) hs0 ?_
      rw [← ha]; exact hroot A₁ (by rw [hA₁]; ring)
    · refine half_core (a := a) hs0 ?_
      rw [← ha]; exact hroot A₂ (by rw [hA₂]; ring)
  obtain ⟨R, hR⟩ := hhalf
  -- same `y`, hence `x = ±x`
  have hyeq : P.y = (2 • R).y := by
    apply mul_right_cancel₀ hu2; rw [hy, hR]
  have hRon : -(2 • R).x ^ 2 + (2 • R).y ^ 2 = 1 + d * (2 • R).x ^ 2 * (2 • R).y ^ 2 := (2 • R).on
  have hx2 : P.x ^ 2 = (2 • R).x ^ 2 := by
    have hne := Bridge.dyy_add_one_ne_zero P.y
    apply mul_right_cancel₀ hne
    rw [← hyeq] at hRon
    linear_combination hRon - hPon
  rcases sq_eq_cases hx2 with hx | hx
  · exact ⟨R, by ext; exact hx; exact hyeq⟩
  · refine ⟨-R, ?_⟩
    rw [smul_neg]
    ext
    · rw [EdPoint.neg_x]; exact hx
    · rw [EdPoint.neg_y]; exact hyeq

/-! ## DECODE returns points of the even subgroup -/

theorem dec_even {s : Fp} (hok : (decI s).1 = 1) {P : Ed} (hy : P.y = decY s) : ∃ R : Ed, P = 2 • R := by
  obtain ⟨hI, -, hyy⟩ := dec_facts hok
  obtain ⟨hv0, hu2, hI0⟩ := dec_ne_zero hok
  refine even_of_s (s := s) (by rw [hy]; exact hyy) ?_
  have hvdef : decV s = -d * (1 - s ^ 2) ^ 2 - (1 + s ^ 2) ^ 2 := rfl
  rw [← hvdef]
  refine ⟨((decI s).2 * (1 + s ^ 2))⁻¹, ?_⟩
  have hne : (decI s).2 * (1 + s ^ 2) ≠ 0 := mul_ne_zero hI0 hu2
  field_simp
  linear_combination hI

/-! ## MAP returns points of the even subgroup -/

/-- in every branch of MAP: `s = 0`, or `v ≠ 0` and `N²(d+1) = v²((1+s²)² + d(1−s²)²)` -/
theorem map_K (t : Fp) :
    mapS t = 0 ∨ (mapV t ≠ 0 ∧ mapN t ^ 2 * (d + 1) =
      mapV t ^ 2 * ((1 + mapS t ^ 2) ^ 2 + d * (1 - mapS t ^ 2) ^ 2)) := by
  have hc6 : zmodOps.const 6 = 1 - d ^ 2 := const_ONE_MINUS_EDWARDS_D_SQUARED
  have hc7 : zmodOps.const 7 = (d - 1) ^ 2 := const_EDWARDS_D_MINUS_ONE_SQUARED
  have hd1 : d - 1 ≠ 0 := sub_ne_zero.2 d_ne_one
  have hd1' : d + 1 ≠ 0 := fun h => d_ne_neg_one (by linear_combination h)
  have hUdef : mapU t = (mapR t + 1) * (1 - d ^ 2) := by unfold mapU; rw [hc6]
  have hVdef : mapV t = (-1 - d * mapR t) * (mapR t + d) := rfl
  have hNdef : mapN t = mapC t * (mapR t - 1) * (d - 1) ^ 2 - mapV t := by unfold mapN; rw [hc7]
  have hRdef : mapR t = sqrtM1 * t ^ 2 := rfl
  have hSq : mapSq t = sqrtRatioFp (mapU t) (mapV t) := rfl
  have hu_v : mapU t = 0 → mapV t ≠ 0 := by
    intro hu hv
    rw [hUdef] at hu; rw [hVdef] at hv
    have hr : mapR t = -1 := by
      rcases mul_eq_zero.1 hu with h | h
      · linear_combination h
      · exfalso
        have : (1 - d) * (1 + d) = 0 := by linear_combination h
        rcases mul_eq_zero.1 this with h' | h'
        · exact hd1 (by linear_combination -h')
        · exact hd1' (by linear_combination h')
    rw [hr] at hv
    have : (d - 1) ^ 2 = 0 := by linear_combination hv
    exact hd1 ((pow_eq_zero_iff two_ne_zero).1 this)
  rcases sqrtRatioFp_flag (mapU t) (mapV t) with h0 | h1
  · have hflag : ¬ (mapSq t).1 ≠ 0 := by rw [hSq, h0]; exact not_not.2 rfl
    have hS : mapS t = fpNegAbs ((mapSq t).2 * t) := by unfold mapS; rw [if_neg hflag]
    have hC : mapC t = mapR t := by unfold mapC; rw [if_neg hflag]
    have hnot : ¬ (mapU t = 0 ∨ (mapV t ≠ 0 ∧ IsSquare (mapU t / mapV t))) := by
      rw [← sqrtRatioFp_ok_iff, h0]; exact zero_ne_one
    have hu : mapU t ≠ 0 := fun h => hnot (Or.inl h)
    by_cases hv : mapV t = 0
    · left
      rw [hS, hSq, (sqrtRatioFp_spec _ _).2.1 hv hu, zero_mul]; exact fpNegAbs_zero
    · right
      refine ⟨hv, ?_⟩
      have hns : ¬ IsSquare (mapU t / mapV t) := fun h => hnot (Or.inr ⟨hv, h⟩)
      have h4 := ((sqrtRatioFp_spec (mapU t) (mapV t)).2.2.2 hv hns).2
      rw [← hSq] at h4
      have hs : mapS t ^ 2 * mapV t = mapR t * mapU t := by
        rw [hS, fpNegAbs_sq, hRdef]; linear_combination (t ^ 2) * h4
      have hid := map_identity_nonsq (mapR t)
      rw [hNdef, hC]
      rw [hUdef] at hs
      rw [hVdef] at hs ⊢
      generalize mapR t = r at hs hid ⊢
      generalize mapS t = s at hs ⊢
      linear_combination hid - ((2 * ((-1 - d * r) * (r + d)) + s ^ 2 * ((-1 - d * r) * (r + d))
        + r * ((r + 1) * (1 - d ^ 2))) - d * (2 * ((-1 - d * r) * (r + d)) - s ^ 2 * ((-1 - d * r) * (r + d))
        - r * ((r + 1) * (1 - d ^ 2)))) * hs
  · right
    have hflag : (mapSq t).1 ≠ 0 := by rw [hSq, h1]; exact one_ne_zero
    have hS : mapS t = (mapSq t).2 := by unfold mapS; rw [if_pos hflag]
    have hC : mapC t = -1 := by unfold mapC; rw [if_pos hflag]
    have hs : mapS t ^ 2 * mapV t = mapU t := by rw [hS, hSq]; exact sqrtRatioFp_ok h1
    have hv : mapV t ≠ 0 := by
      intro hv
      refine hu_v ?_ hv
      rw [← hs, hv, mul_zero]
    refine ⟨hv, ?_⟩
    have hid := map_identity_sq (mapR t)
    rw [hNdef, hC]
    rw [hUdef] at hs
    rw [hVdef] at hs ⊢
    generalize mapR t = r at hs hid ⊢
    generalize mapS t = s at hs ⊢
    linear_combination hid - ((2 * ((-1 - d * r) * (r + d)) + s ^ 2 * ((-1 - d * r) * (r + d))
      + (r + 1) * (1 - d ^ 2)) - d * (2 * ((-1 - d * r) * (r + d)) - s ^ 2 * ((-1 - d * r) * (r + d))
      - (r + 1) * (1 - d ^ 2))) * hs

/-- **MAP lands in the even subgroup.** -/
theorem map_even (t : Fp) {Q : Ed} (hQ : RepCompleted Q (mapW0 t) (mapW2 t) (mapW1 t) (mapW3 t)) :
    ∃ R : Ed, Q = 2 • R := by
  have hm := magic_sq
  have hm0 := magic_ne_zero
  obtain ⟨-, hw3, -, hy⟩ := hQ
  have hw3' : 1 + mapS t ^ 2 ≠ 0 := hw3
  have hyy : Q.y * (1 + mapS t ^ 2) = 1 - mapS t ^ 2 := by
    rw [hy]; unfold mapW2 mapW3; rw [div_mul_cancel₀ _ hw3']
  refine even_of_s hyy ?_
  rcases map_K t with h0 | ⟨hv, hK⟩
  · rw [h0]
    refine ⟨invSqrtAmD⁻¹, ?_⟩
    field_simp
    linear_combination hm
  · refine ⟨mapN t / (invSqrtAmD * mapV t), ?_⟩
    rw [div_mul_div_comm, eq_div_iff (mul_ne_zero (mul_ne_zero hm0 hv) (mul_ne_zero hm0 hv))]
    linear_combination (mapN t ^ 2) * hm + (invSqrtAmD ^ 2) * hK

/-- MAP on the executable specification: a valid extended point of the even subgroup -/
theorem mapExt_valid_even (t : Nat) :
    ∃ Q R : Ed, Dalek.Bridge.ERep (toEPt (Ristretto.mapExt t)) Q ∧ Q = 2 • R := by
  obtain ⟨Q, hQ⟩ := map_valid (t : Fp)
  obtain ⟨R, hR⟩ := map_even (t : Fp) hQ
  obtain ⟨h1, h2, h3, h4⟩ := cast_mapExt t
  refine ⟨Q, R, ?_, hR⟩
  unfold Dalek.Bridge.ERep toEPt
  dsimp only
  rw [h1, h2, h3, h4]
  exact hQ.as_extended

end Dalek.Proofs.Ris

import Dalek.IR.Tactics
import Mathlib.Tactic.Ring
import Mathlib.Tactic.LinearCombination
import Mathlib.Tactic.ReduceModChar
import Mathlib.Data.ZMod.Basic
/-! `limb_ring`: functional correctness of a normalised kernel (`*_fn`, produced by tools/GenNorm.lean)
in a commutative ring `R` of positive characteristic, for ALL integer inputs.

Method: keep the SSA `let`s (no exponential inlining), turn each into an equation, cast the equations
to `R`, replace `x % 2^k` by `x - 2^k * (x / 2^k)` (the quotients stay opaque atoms), substitute, and
finish with `ring_nf; reduce_mod_char`.  Normalising, so renaming / reordering / re-association of the
source does not matter. -/

namespace Dalek

theorem emod_cast {R : Type*} [CommRing R] (x : Int) (k : Nat) :
    ((x % 2 ^ k : Int) : R) = (x : R) - 2 ^ k * ((x / 2 ^ k : Int) : R) := by
  have h := Int.emod_add_mul_ediv x (2 ^ k)
  have h2 : ((x % 2 ^ k + 2 ^ k * (x / 2 ^ k) : Int) : R) = (x : R) := by rw [h]
  push_cast at h2
  linear_combination h2

theorem emod_emod_pow (x : Int) {j k : Nat} (h : j ≤ k) : (x % 2 ^ k) % 2 ^ j = x % 2 ^ j :=
  Int.emod_emod_of_dvd x (pow_dvd_pow 2 h)

end Dalek

/-- `limb_lets f` : unfold the shallow kernel `f`, name its lets, turn them into equations `hL_i`. -/
macro "limb_lets " f:ident : tactic =>
  `(tactic| (unfold $f; extract_lets; lets_to_eqs))

/-- push the casts through the equations and the goal, eliminating `%` -/
macro "limb_push" : tactic =>
  `(tactic| simp only [Int.cast_add, Int.cast_mul, Int.cast_sub, Int.cast_neg, Dalek.emod_cast, Int.cast_pow,
      Int.cast_ofNat, Int.cast_one, Int.cast_zero, Int.cast_natCast, List.getD_cons_zero, List.getD_cons_succ,
      List.getD_nil] at *)

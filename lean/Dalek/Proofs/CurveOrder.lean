/-
**The group of the Ed25519 curve has exactly `8·ℓ` points** (`card_Ed`), by an elementary argument
(no Hasse bound, no point counting):

* upper bound: a point of the curve is determined by its `y`-coordinate and the parity ("sign") of its
  `x`-coordinate (`x² (d y² + 1) = y² − 1` with `d y² + 1 ≠ 0` because `d` is a non-square and `−1` is a square;
  `p` is odd so `x` and `−x` have different parities unless `x = 0`), hence `#E ≤ 2p`;
* lower structure: the basepoint `B` has order `ℓ` (prime), the point `T₈ = EIGHT_TORSION[1]` has order `8`,
  the group is commutative and `gcd(8, ℓ) = 1`, so `B + T₈` has order `8ℓ` and `8ℓ ∣ #E` (Lagrange);
* arithmetic: `2p < 2·(8ℓ)`, hence `#E = 8ℓ`.

Corollaries (second half of the file; the subgroup structure is in `CurveOrder/Structure.lean`):
`eight_L_nsmul`, `clear_cofactor_in_prime_subgroup`, `isAddCyclic_Ed`.
-/
import Dalek.Proofs.Bridge.Edwards
import Dalek.Proofs.Bridge.Order
import Dalek.Proofs.Primes
import Mathlib.GroupTheory.OrderOfElement
import Mathlib.GroupTheory.Index
import Mathlib.SetTheory.Cardinal.Finite
import Mathlib.Data.ZMod.QuotientGroup

namespace Dalek.CurveOrder

open Dalek.Spec Dalek.Bridge
open Dalek.Edwards (EdPoint)

/-! ## Finiteness -/

/-- the coordinates of a curve point -/
def coords (Q : Ed) : Fp × Fp := (Q.x, Q.y)

theorem coords_injective : Function.Injective coords := fun _ _ h =>
  EdPoint.ext (congrArg Prod.fst h) (congrArg Prod.snd h)

instance instFiniteEd : Finite Ed := Finite.of_injective coords coords_injective

/-! ## Upper bound: `#E ≤ 2p` -/

/-- `y` and the parity of the canonical representative of `x` (this is the information in the 32-byte
compressed encoding of a point) -/
def ySign (Q : Ed) : Fp × Bool := (Q.y, decide (Q.x.val % 2 = 1))

/-- for `x ≠ 0`, `x` and `−x` have canonical representatives of different parities (`p` is odd) -/
theorem val_neg_parity {x : Fp} (hx : x ≠ 0) : ¬ ((-x).val % 2 = 1 ↔ x.val % 2 = 1) := by
  have hlt := ZMod.val_lt x
  have hpos : 0 < x.val := Nat.pos_of_ne_zero (fun h => hx ((ZMod.val_eq_zero x).1 h))
  have hneg : (-x).val = P - x.val := by rw [ZMod.neg_val, if_neg hx]
  have hP := P_odd
  rw [hneg]; omega

/-- two curve points with the same `y` have `x' = ± x` -/
theorem x_eq_or_eq_neg {Q R : Ed} (hy : Q.y = R.y) : Q.x = R.x ∨ Q.x = -R.x := by
  have hQ := (onCurve_iff_ratio Q.x Q.y).1 (by have := Q.on; rwa [edParams_d] at this)
  have hR := (onCurve_iff_ratio R.x R.y).1 (by have := R.on; rwa [edParams_d] at this)
  rw [hy] at hQ
  have hne := dyy_add_one_ne_zero R.y
  have h : (Q.x - R.x) * (Q.x + R.x) * (Dalek.FieldFacts.d * R.y ^ 2 + 1) = 0 := by
    linear_combination hQ - hR
  rcases mul_eq_zero.1 h with h' | h'
  · rcases mul_eq_zero.1 h' with h'' | h''
    · left; linear_combination h''
    · right; linear_combination h''
  · exact absurd h' hne

/-- **A curve point is determined by `y` and the sign of `x`.** -/
theorem ySign_injective : Function.Injective ySign := by
  intro Q R h
  have hy : Q.y = R.y := congrArg Prod.fst h
  have hs : decide (Q.x.val % 2 = 1) = decide (R.x.val % 2 = 1) := congrArg Prod.snd h
  have hs' : Q.x.val % 2 = 1 ↔ R.x.val % 2 = 1 := by simpa using hs
  refine EdPoint.ext ?_ hy
  rcases x_eq_or_eq_neg hy with hx | hx
  · exact hx
  · by_cases h0 : R.x = 0
    · rw [hx, h0, neg_zero]
    · exfalso
      rw [hx] at hs'
      exact val_neg_parity h0 hs'

/-- `#E ≤ 2p` -/
theorem card_Ed_le : Nat.card Ed ≤ 2 * P := by
  have h := Nat.card_le_card_of_injective ySign ySign_injective
  have hb : Nat.card Bool = 2 := by rw [Nat.card_eq_fintype_card, Fintype.card_bool]
  rw [Nat.card_prod, Nat.card_zmod, hb] at h
  omega

/-! ## A point of order `8` -/

/-- `EIGHT_TORSION[1]` of the specification -/
def T8pt : Pt := eightTorsion.getD 1 Pt.zero

theorem onCurve_T8pt : onCurve T8pt = true := by decide +kernel

theorem canon_T8pt : Canon T8pt := by decide +kernel

/-- `EIGHT_TORSION[1]` as an element of the group -/
def T8 : Ed := toEd T8pt onCurve_T8pt

theorem rep_T8 : Rep T8pt T8 := rep_toEd _ _

theorem eight_nsmul_T8 : 8 • T8 = 0 :=
  (smul_eq_zero_iff onCurve_T8pt 8).1 (by decide +kernel)

theorem four_nsmul_T8_ne_zero : 4 • T8 ≠ 0 := by
  intro h
  have := (smul_eq_zero_iff onCurve_T8pt 4).2 h
  revert this
  decide +kernel

/-- **`T₈` has order exactly `8`.** -/
theorem addOrderOf_T8 : addOrderOf T8 = 8 := by
  have e8 : (8 : Nat) = 2 ^ (2 + 1) := by norm_num
  rw [e8]
  exact addOrderOf_eq_prime_pow (by simpa using four_nsmul_T8_ne_zero) (by simpa using eight_nsmul_T8)

theorem prime_L : Nat.Prime L := Dalek.Primes.prime_l

theorem coprime_L_8 : Nat.Coprime L 8 := by
  have : Nat.Coprime L 2 := (Nat.coprime_primes prime_L Nat.prime_two).2 (by norm_num)
  exact Nat.Coprime.pow_right 3 this

/-- `B + T₈` has order `8ℓ` -/
theorem addOrderOf_Bpt_add_T8 : addOrderOf (Bpt + T8) = 8 * L := by
  have h := (AddCommute.all Bpt T8).addOrderOf_add_eq_mul_addOrderOf_of_coprime
    (by rw [addOrderOf_Bpt, addOrderOf_T8]; exact coprime_L_8)
  rw [h, addOrderOf_Bpt, addOrderOf_T8, Nat.mul_comm]

/-! ## The order of the group -/

theorem two_P_lt : 2 * P < 2 * (8 * L) := by norm_num [P, L]

/-- **THEOREM: the Ed25519 curve has exactly `8·ℓ` rational points.** -/
theorem card_Ed : Nat.card Ed = 8 * L := by
  have hdvd : 8 * L ∣ Nat.card Ed := by
    rw [← addOrderOf_Bpt_add_T8]; exact addOrderOf_dvd_natCard _
  obtain ⟨k, hk⟩ := hdvd
  have hle := card_Ed_le
  have hlt := two_P_lt
  have hpos : 0 < Nat.card Ed := Nat.card_pos
  rw [hk] at hle hpos ⊢
  have hk1 : k = 1 := by
    rcases k with _ | _ | k
    · simp at hpos
    · rfl
    · exfalso
      have : 8 * L * 2 ≤ 8 * L * (k + 1 + 1) := Nat.mul_le_mul_left _ (by omega)
      omega
  rw [hk1, Nat.mul_one]

/-- the same with `Fintype.card`, for any `Fintype` instance -/
theorem fintype_card_Ed [Fintype Ed] : Fintype.card Ed = 8 * L := by
  rw [← Nat.card_eq_fintype_card, card_Ed]

/-! ## First corollaries -/

/-- **Every point is annihilated by `8ℓ`.** -/
theorem eight_L_nsmul (Q : Ed) : (8 * L) • Q = 0 := by
  rw [← card_Ed]; exact card_nsmul_eq_zero'

/-- **Clearing the cofactor lands in the `ℓ`-torsion**: `ℓ·(8·Q) = 0` for every point. -/
theorem clear_cofactor_in_prime_subgroup (Q : Ed) : L • (8 • Q) = 0 := by
  rw [← mul_nsmul, Nat.mul_comm]; exact eight_L_nsmul Q

/-- `8·(ℓ·Q) = 0` for every point. -/
theorem L_nsmul_small_order (Q : Ed) : 8 • (L • Q) = 0 := by
  rw [← mul_nsmul]; exact eight_L_nsmul Q

/-- The group of the curve is cyclic (generated by `B + T₈`). -/
theorem isAddCyclic_Ed : IsAddCyclic Ed :=
  isAddCyclic_of_addOrderOf_eq_card (Bpt + T8) (by rw [addOrderOf_Bpt_add_T8, card_Ed])

/-- the generator -/
theorem zmultiples_Bpt_add_T8 : AddSubgroup.zmultiples (Bpt + T8) = ⊤ := by
  apply AddSubgroup.eq_top_of_card_eq
  rw [Nat.card_zmultiples, addOrderOf_Bpt_add_T8, card_Ed]

/-! ## Axiom audit -/

/-- info: 'Dalek.CurveOrder.card_Ed' depends on axioms: [propext, Classical.choice, Quot.sound] -/
#guard_msgs in #print axioms card_Ed

/-- info: 'Dalek.CurveOrder.eight_L_nsmul' depends on axioms: [propext, Classical.choice, Quot.sound] -/
#guard_msgs in #print axioms eight_L_nsmul

/-- info: 'Dalek.CurveOrder.ySign_injective' depends on axioms: [propext, Classical.choice, Quot.sound] -/
#guard_msgs in #print axioms ySign_injective

end Dalek.CurveOrder

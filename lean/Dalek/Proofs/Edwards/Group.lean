/-
The points of the twisted Edwards curve `-x^2 + y^2 = 1 + d x^2 y^2` (d non-square, -1 a square,
char ≠ 2) form a commutative group under the complete addition law.
-/
import Dalek.Proofs.Edwards.AssocCertX
import Dalek.Proofs.Edwards.AssocCertY
import Mathlib.Algebra.Group.Defs

namespace Dalek.Edwards

variable {K : Type*} [Field K]

/-- x-coordinate of the Edwards sum of `(x1,y1)` and `(x2,y2)`. -/
def addX (d x1 y1 x2 y2 : K) : K := (x1 * y2 + y1 * x2) / (1 + d * x1 * x2 * y1 * y2)
/-- y-coordinate of the Edwards sum of `(x1,y1)` and `(x2,y2)`. -/
def addY (d x1 y1 x2 y2 : K) : K := (y1 * y2 + x1 * x2) / (1 - d * x1 * x2 * y1 * y2)

/-! ### Associativity on raw coordinates (any field, any `d`, denominators assumed nonzero) -/

section raw
variable {d x1 y1 x2 y2 x3 y3 : K}

private theorem addX_eq_frac : addX d x1 y1 x2 y2
    = xn x1 1 y1 1 x2 1 y2 1 / xd d x1 1 y1 1 x2 1 y2 1 := by
  simp only [addX, xn, xd]; congr 1 <;> ring

private theorem addY_eq_frac : addY d x1 y1 x2 y2
    = yn x1 1 y1 1 x2 1 y2 1 / yd d x1 1 y1 1 x2 1 y2 1 := by
  simp only [addY, yn, yd]; congr 1 <;> ring

private theorem xd_base_ne_zero (p : 1 + d * x1 * x2 * y1 * y2 ≠ 0) :
    xd d x1 1 y1 1 x2 1 y2 1 ≠ 0 := by
  intro h; apply p; rw [← h]; simp only [xd]; ring

private theorem yd_base_ne_zero (m : 1 - d * x1 * x2 * y1 * y2 ≠ 0) :
    yd d x1 1 y1 1 x2 1 y2 1 ≠ 0 := by
  intro h; apply m; rw [← h]; simp only [yd]; ring

/-- Associativity of the addition law, x-coordinate, under nonvanishing denominators. -/
theorem assoc_x_raw (h1 : onCurve d x1 y1) (h2 : onCurve d x2 y2) (h3 : onCurve d x3 y3)
    (p12 : 1 + d * x1 * x2 * y1 * y2 ≠ 0) (m12 : 1 - d * x1 * x2 * y1 * y2 ≠ 0)
    (p23 : 1 + d * x2 * x3 * y2 * y3 ≠ 0) (m23 : 1 - d * x2 * x3 * y2 * y3 ≠ 0)
    (pL : 1 + d * addX d x1 y1 x2 y2 * x3 * addY d x1 y1 x2 y2 * y3 ≠ 0)
    (pR : 1 + d * x1 * addX d x2 y2 x3 y3 * y1 * addY d x2 y2 x3 y3 ≠ 0) :
    addX d (addX d x1 y1 x2 y2) (addY d x1 y1 x2 y2) x3 y3
      = addX d x1 y1 (addX d x2 y2 x3 y3) (addY d x2 y2 x3 y3) := by
  have a12 := xd_base_ne_zero p12
  have b12 := yd_base_ne_zero m12
  have a23 := xd_base_ne_zero p23
  have b23 := yd_base_ne_zero m23
  rw [addX_eq_frac (x1 := x1), addY_eq_frac (x1 := x1)] at pL ⊢
  rw [addX_eq_frac (x1 := x2), addY_eq_frac (x1 := x2)] at pR ⊢
  have L := add_x_frac d (xn x1 1 y1 1 x2 1 y2 1) _ (yn x1 1 y1 1 x2 1 y2 1) _ x3 1 y3 1 a12 b12 one_ne_zero one_ne_zero
  have R := add_x_frac d x1 1 y1 1 (xn x2 1 y2 1 x3 1 y3 1) _ (yn x2 1 y2 1 x3 1 y3 1) _ one_ne_zero one_ne_zero a23 b23
  have Ld := xd_ne_zero d (xn x1 1 y1 1 x2 1 y2 1) _ (yn x1 1 y1 1 x2 1 y2 1) _ x3 1 y3 1 a12 b12 one_ne_zero one_ne_zero
  have Rd := xd_ne_zero d x1 1 y1 1 (xn x2 1 y2 1 x3 1 y3 1) _ (yn x2 1 y2 1 x3 1 y3 1) _ one_ne_zero one_ne_zero a23 b23
  simp only [div_one] at L R Ld Rd
  rw [addX, addX, L, R, div_eq_div_iff (Ld pL) (Rd pR)]
  have cert := assoc_x_cert d x1 y1 x2 y2 x3 y3
  rw [E_eq_zero h1, E_eq_zero h2, E_eq_zero h3] at cert
  simp only [mul_zero, add_zero] at cert
  exact sub_eq_zero.mp cert

/-- Associativity of the addition law, y-coordinate, under nonvanishing denominators. -/
theorem assoc_y_raw (h1 : onCurve d x1 y1) (h2 : onCurve d x2 y2) (h3 : onCurve d x3 y3)
    (p12 : 1 + d * x1 * x2 * y1 * y2 ≠ 0) (m12 : 1 - d * x1 * x2 * y1 * y2 ≠ 0)
    (p23 : 1 + d * x2 * x3 * y2 * y3 ≠ 0) (m23 : 1 - d * x2 * x3 * y2 * y3 ≠ 0)
    (mL : 1 - d * addX d x1 y1 x2 y2 * x3 * addY d x1 y1 x2 y2 * y3 ≠ 0)
    (mR : 1 - d * x1 * addX d x2 y2 x3 y3 * y1 * addY d x2 y2 x3 y3 ≠ 0) :
    addY d (addX d x1 y1 x2 y2) (addY d x1 y1 x2 y2) x3 y3
      = addY d x1 y1 (addX d x2 y2 x3 y3) (addY d x2 y2 x3 y3) := by
  have a12 := xd_base_ne_zero p12
  have b12 := yd_base_ne_zero m12
  have a23 := xd_base_ne_zero p23
  have b23 := yd_base_ne_zero m23
  rw [addX_eq_frac (x1 := x1), addY_eq_frac (x1 := x1)] at mL ⊢
  rw [addX_eq_frac (x1 := x2), addY_eq_frac (x1 := x2)] at mR ⊢
  have L := add_y_frac d (xn x1 1 y1 1 x2 1 y2 1) _ (yn x1 1 y1 1 x2 1 y2 1) _ x3 1 y3 1 a12 b12 one_ne_zero one_ne_zero
  have R := add_y_frac d x1 1 y1 1 (xn x2 1 y2 1 x3 1 y3 1) _ (yn x2 1 y2 1 x3 1 y3 1) _ one_ne_zero one_ne_zero a23 b23
  have Ld := yd_ne_zero d (xn x1 1 y1 1 x2 1 y2 1) _ (yn x1 1 y1 1 x2 1 y2 1) _ x3 1 y3 1 a12 b12 one_ne_zero one_ne_zero
  have Rd := yd_ne_zero d x1 1 y1 1 (xn x2 1 y2 1 x3 1 y3 1) _ (yn x2 1 y2 1 x3 1 y3 1) _ one_ne_zero one_ne_zero a23 b23
  simp only [div_one] at L R Ld Rd
  rw [addY, addY, L, R, div_eq_div_iff (Ld mL) (Rd mR)]
  have cert := assoc_y_cert d x1 y1 x2 y2 x3 y3
  rw [E_eq_zero h1, E_eq_zero h2, E_eq_zero h3] at cert
  simp only [mul_zero, add_zero] at cert
  exact sub_eq_zero.mp cert

end raw

/-! ### The group -/

namespace EdPoint

variable {c : EdParams K}

/-- The neutral element `(0, 1)`. -/
protected def zero : EdPoint c := ⟨0, 1, by unfold onCurve; ring⟩

/-- Negation `(x, y) ↦ (-x, y)`. -/
protected def neg (P : EdPoint c) : EdPoint c :=
  ⟨-P.x, P.y, by have := P.on; unfold onCurve at *; linear_combination this⟩

/-- The complete Edwards addition law. -/
protected def add (P Q : EdPoint c) : EdPoint c :=
  ⟨addX c.d P.x P.y Q.x Q.y, addY c.d P.x P.y Q.x Q.y, closure c P.on Q.on⟩

instance : Zero (EdPoint c) := ⟨EdPoint.zero⟩
instance : Neg (EdPoint c) := ⟨EdPoint.neg⟩
instance : Add (EdPoint c) := ⟨EdPoint.add⟩

@[simp] theorem zero_x : (0 : EdPoint c).x = 0 := rfl
@[simp] theorem zero_y : (0 : EdPoint c).y = 1 := rfl
@[simp] theorem neg_x (P : EdPoint c) : (-P).x = -P.x := rfl
@[simp] theorem neg_y (P : EdPoint c) : (-P).y = P.y := rfl
theorem add_x (P Q : EdPoint c) :
    (P + Q).x = (P.x * Q.y + P.y * Q.x) / (1 + c.d * P.x * Q.x * P.y * Q.y) := rfl
theorem add_y (P Q : EdPoint c) :
    (P + Q).y = (P.y * Q.y + P.x * Q.x) / (1 - c.d * P.x * Q.x * P.y * Q.y) := rfl
theorem add_x' (P Q : EdPoint c) : (P + Q).x = addX c.d P.x P.y Q.x Q.y := rfl
theorem add_y' (P Q : EdPoint c) : (P + Q).y = addY c.d P.x P.y Q.x Q.y := rfl

/-- Both denominators of `P + Q` are nonzero. -/
theorem add_den_ne_zero (P Q : EdPoint c) :
    1 + c.d * P.x * Q.x * P.y * Q.y ≠ 0 ∧ 1 - c.d * P.x * Q.x * P.y * Q.y ≠ 0 :=
  complete c P.on Q.on

protected theorem add_comm' (P Q : EdPoint c) : P + Q = Q + P := by
  ext
  · rw [add_x, add_x]; congr 1 <;> ring
  · rw [add_y, add_y]; congr 1 <;> ring

protected theorem zero_add' (P : EdPoint c) : 0 + P = P := by
  ext
  · rw [add_x]; simp
  · rw [add_y]; simp

protected theorem add_zero' (P : EdPoint c) : P + 0 = P := by
  rw [EdPoint.add_comm', EdPoint.zero_add']

protected theorem neg_add_cancel' (P : EdPoint c) : -P + P = 0 := by
  ext
  · rw [add_x, zero_x, div_eq_zero_iff]; left; simp only [neg_x, neg_y]; ring
  · rw [add_y, zero_y, div_eq_one_iff_eq (add_den_ne_zero (-P) P).2]
    have := P.on; unfold onCurve at this
    simp only [neg_x, neg_y]; linear_combination this

/-- Associativity of the Edwards addition law. -/
protected theorem add_assoc' (P Q R : EdPoint c) : P + Q + R = P + (Q + R) := by
  have hPQ := add_den_ne_zero P Q
  have hQR := add_den_ne_zero Q R
  have hL := add_den_ne_zero (P + Q) R
  have hR := add_den_ne_zero P (Q + R)
  ext
  · exact assoc_x_raw P.on Q.on R.on hPQ.1 hPQ.2 hQR.1 hQR.2 hL.1 hR.1
  · exact assoc_y_raw P.on Q.on R.on hPQ.1 hPQ.2 hQR.1 hQR.2 hL.2 hR.2

/-- The points of a complete twisted Edwards curve (a = -1) form a commutative group. -/
instance instAddCommGroup : AddCommGroup (EdPoint c) where
  add := (· + ·)
  add_assoc := EdPoint.add_assoc'
  zero := 0
  zero_add := EdPoint.zero_add'
  add_zero := EdPoint.add_zero'
  nsmul := nsmulRec
  neg := Neg.neg
  zsmul := zsmulRec
  neg_add_cancel := EdPoint.neg_add_cancel'
  add_comm := EdPoint.add_comm'

/-- Doubling in explicit coordinates. -/
theorem two_nsmul_x (P : EdPoint c) :
    (2 • P).x = (2 * P.x * P.y) / (1 + c.d * P.x ^ 2 * P.y ^ 2) := by
  rw [two_nsmul, add_x]; congr 1 <;> ring

theorem two_nsmul_y (P : EdPoint c) :
    (2 • P).y = (P.y ^ 2 + P.x ^ 2) / (1 - c.d * P.x ^ 2 * P.y ^ 2) := by
  rw [two_nsmul, add_y]; congr 1 <;> ring

end EdPoint

end Dalek.Edwards

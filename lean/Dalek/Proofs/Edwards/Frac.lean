/-
Numerator/denominator form of the Edwards addition law on pairs of fractions.
`P = (an/ad, bn/bd)`, `Q = (cn/cd, en/ed)`; `P + Q = (xn/xd, yn/yd)`.
These are exactly the "structurally built" numerators/denominators that the stored
associativity certificate (/verif/data/edwards_assoc_cofactors.json, produced by
/verif/notes/probes/p10_assoc_certificate.py, function `addND`) refers to.
-/
import Dalek.Proofs.Edwards.Basic

namespace Dalek.Edwards

variable {K : Type*} [Field K]

/-- The curve polynomial `E(x,y) = -x^2 + y^2 - 1 - d x^2 y^2`. -/
def E (d x y : K) : K := -x^2 + y^2 - 1 - d*x^2*y^2

theorem E_eq_zero {d x y : K} (h : onCurve d x y) : E d x y = 0 := by
  unfold onCurve at h; unfold E; linear_combination h

def xn (an ad bn bd cn cd en ed : K) : K := an*en*bd*cd + bn*cn*ad*ed
def xd (d an ad bn bd cn cd en ed : K) : K := ad*cd*bd*ed + d*an*cn*bn*en
def yn (an ad bn bd cn cd en ed : K) : K := bn*en*ad*cd + an*cn*bd*ed
def yd (d an ad bn bd cn cd en ed : K) : K := ad*cd*bd*ed - d*an*cn*bn*en

section
variable (d an ad bn bd cn cd en ed : K)
  (had : ad ≠ 0) (hbd : bd ≠ 0) (hcd : cd ≠ 0) (hed : ed ≠ 0)
include had hbd hcd hed

theorem xn_eq : xn an ad bn bd cn cd en ed
    = (ad*cd*bd*ed) * ((an/ad)*(en/ed) + (bn/bd)*(cn/cd)) := by
  unfold xn; field_simp

theorem yn_eq : yn an ad bn bd cn cd en ed
    = (ad*cd*bd*ed) * ((bn/bd)*(en/ed) + (an/ad)*(cn/cd)) := by
  unfold yn; field_simp

theorem xd_eq : xd d an ad bn bd cn cd en ed
    = (ad*cd*bd*ed) * (1 + d*(an/ad)*(cn/cd)*(bn/bd)*(en/ed)) := by
  unfold xd; field_simp

theorem yd_eq : yd d an ad bn bd cn cd en ed
    = (ad*cd*bd*ed) * (1 - d*(an/ad)*(cn/cd)*(bn/bd)*(en/ed)) := by
  unfold yd; field_simp

theorem den_prod_ne_zero : ad*cd*bd*ed ≠ 0 :=
  mul_ne_zero (mul_ne_zero (mul_ne_zero had hcd) hbd) hed

/-- x-coordinate of the sum of two fraction pairs. -/
theorem add_x_frac :
    ((an/ad)*(en/ed) + (bn/bd)*(cn/cd)) / (1 + d*(an/ad)*(cn/cd)*(bn/bd)*(en/ed))
      = xn an ad bn bd cn cd en ed / xd d an ad bn bd cn cd en ed := by
  rw [xn_eq an ad bn bd cn cd en ed had hbd hcd hed, xd_eq d an ad bn bd cn cd en ed had hbd hcd hed,
    mul_div_mul_left _ _ (den_prod_ne_zero ad bd cd ed had hbd hcd hed)]

/-- y-coordinate of the sum of two fraction pairs. -/
theorem add_y_frac :
    ((bn/bd)*(en/ed) + (an/ad)*(cn/cd)) / (1 - d*(an/ad)*(cn/cd)*(bn/bd)*(en/ed))
      = yn an ad bn bd cn cd en ed / yd d an ad bn bd cn cd en ed := by
  rw [yn_eq an ad bn bd cn cd en ed had hbd hcd hed, yd_eq d an ad bn bd cn cd en ed had hbd hcd hed,
    mul_div_mul_left _ _ (den_prod_ne_zero ad bd cd ed had hbd hcd hed)]

theorem xd_ne_zero (h : 1 + d*(an/ad)*(cn/cd)*(bn/bd)*(en/ed) ≠ 0) :
    xd d an ad bn bd cn cd en ed ≠ 0 := by
  rw [xd_eq d an ad bn bd cn cd en ed had hbd hcd hed]
  exact mul_ne_zero (den_prod_ne_zero ad bd cd ed had hbd hcd hed) h

theorem yd_ne_zero (h : 1 - d*(an/ad)*(cn/cd)*(bn/bd)*(en/ed) ≠ 0) :
    yd d an ad bn bd cn cd en ed ≠ 0 := by
  rw [yd_eq d an ad bn bd cn cd en ed had hbd hcd hed]
  exact mul_ne_zero (den_prod_ne_zero ad bd cd ed had hbd hcd hed) h

end

end Dalek.Edwards

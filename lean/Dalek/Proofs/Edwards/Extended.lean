/-
Projective / extended / completed coordinate systems used by curve25519-dalek
(`backend/serial/curve_models/mod.rs`) and the refinement of the affine group law by
the dalek formulas: mixed additions (`EdwardsPoint ± ProjectiveNielsPoint`,
`EdwardsPoint ± AffineNielsPoint`), the unified `add-2008-hwcd-3` formula, doubling
(`ProjectivePoint::double`) and the conversions out of `CompletedPoint`.
-/
import Dalek.Proofs.Edwards.Group

namespace Dalek.Edwards

variable {K : Type*} [Field K] {c : EdParams K}

/-- `(X : Y : Z)` (ℙ², dalek `ProjectivePoint`) represents the affine point `P`. -/
def RepProj (P : EdPoint c) (X Y Z : K) : Prop :=
  Z ≠ 0 ∧ P.x = X / Z ∧ P.y = Y / Z

/-- `(X : Y : Z : T)` (extended coordinates, dalek `EdwardsPoint`) represents `P`. -/
def RepExt (P : EdPoint c) (X Y Z T : K) : Prop :=
  Z ≠ 0 ∧ P.x = X / Z ∧ P.y = Y / Z ∧ X * Y = Z * T

/-- `((X : Z), (Y : T))` (ℙ¹ × ℙ¹, dalek `CompletedPoint`) represents `P`. -/
def RepCompleted (P : EdPoint c) (X Y Z T : K) : Prop :=
  Z ≠ 0 ∧ T ≠ 0 ∧ P.x = X / Z ∧ P.y = Y / T

theorem RepExt.toProj {P : EdPoint c} {X Y Z T : K} (h : RepExt P X Y Z T) : RepProj P X Y Z :=
  ⟨h.1, h.2.1, h.2.2.1⟩

/-- `T = X*Y/Z` in extended coordinates. -/
theorem RepExt.T_eq {P : EdPoint c} {X Y Z T : K} (h : RepExt P X Y Z T) : T = X * Y / Z := by
  obtain ⟨hZ, -, -, hT⟩ := h
  field_simp; linear_combination -hT

/-- The neutral element is `(0 : 1 : 1 : 0)`. -/
theorem repExt_zero : RepExt (0 : EdPoint c) 0 1 1 0 := by
  refine ⟨one_ne_zero, ?_, ?_, ?_⟩ <;> simp

/-- Affine coordinates as extended coordinates. -/
theorem repExt_affine (P : EdPoint c) : RepExt P P.x P.y 1 (P.x * P.y) := by
  refine ⟨one_ne_zero, ?_, ?_, ?_⟩ <;> simp

/-- Negation in extended coordinates. -/
theorem RepExt.neg {P : EdPoint c} {X Y Z T : K} (h : RepExt P X Y Z T) :
    RepExt (-P) (-X) Y Z (-T) := by
  obtain ⟨hZ, hx, hy, hT⟩ := h
  refine ⟨hZ, ?_, ?_, ?_⟩
  · rw [EdPoint.neg_x, hx, neg_div]
  · rw [EdPoint.neg_y, hy]
  · linear_combination -hT

/-- `CompletedPoint::as_projective`. -/
theorem RepCompleted.as_projective {P : EdPoint c} {X Y Z T : K} (h : RepCompleted P X Y Z T) :
    RepProj P (X * T) (Y * Z) (Z * T) := by
  obtain ⟨hZ, hT, hx, hy⟩ := h
  refine ⟨mul_ne_zero hZ hT, ?_, ?_⟩
  · rw [hx]; field_simp
  · rw [hy]; field_simp

/-- `CompletedPoint::as_extended`. -/
theorem RepCompleted.as_extended {P : EdPoint c} {X Y Z T : K} (h : RepCompleted P X Y Z T) :
    RepExt P (X * T) (Y * Z) (Z * T) (X * Y) := by
  obtain ⟨hZ, hT, hx, hy⟩ := h
  refine ⟨mul_ne_zero hZ hT, ?_, ?_, by ring⟩
  · rw [hx]; field_simp
  · rw [hy]; field_simp

/-- `ProjectivePoint::as_extended`. -/
theorem RepProj.as_extended {P : EdPoint c} {X Y Z : K} (h : RepProj P X Y Z) :
    RepExt P (X * Z) (Y * Z) (Z ^ 2) (X * Y) := by
  obtain ⟨hZ, hx, hy⟩ := h
  refine ⟨pow_ne_zero 2 hZ, ?_, ?_, by ring⟩
  · rw [hx]; field_simp
  · rw [hy]; field_simp

/-! ### Addition -/

/-- Field-level core of the mixed addition (cf. probe p5): the dalek
`EdwardsPoint + ProjectiveNielsPoint` output, as a completed point, has the affine sum
as its value, and its two denominators are `2 Z1 Z2 (1 ± d x1 x2 y1 y2)`. -/
theorem add_pniels_raw (d X1 Y1 Z1 T1 X2 Y2 Z2 T2 : K) (h2 : (2 : K) ≠ 0)
    (hZ1 : Z1 ≠ 0) (hZ2 : Z2 ≠ 0) (hT1 : X1 * Y1 = Z1 * T1) (hT2 : X2 * Y2 = Z2 * T2)
    (hden1 : 1 + d * (X1/Z1) * (X2/Z2) * (Y1/Z1) * (Y2/Z2) ≠ 0)
    (hden2 : 1 - d * (X1/Z1) * (X2/Z2) * (Y1/Z1) * (Y2/Z2) ≠ 0) :
    let PP := (Y1 + X1) * (Y2 + X2)
    let MM := (Y1 - X1) * (Y2 - X2)
    let TT2d := T1 * (T2 * (2 * d))
    let ZZ := Z1 * Z2
    let ZZ2 := ZZ + ZZ
    ZZ2 + TT2d ≠ 0 ∧ ZZ2 - TT2d ≠ 0 ∧
    addX d (X1/Z1) (Y1/Z1) (X2/Z2) (Y2/Z2) = (PP - MM) / (ZZ2 + TT2d) ∧
    addY d (X1/Z1) (Y1/Z1) (X2/Z2) (Y2/Z2) = (PP + MM) / (ZZ2 - TT2d) := by
  intro PP MM TT2d ZZ ZZ2
  have hT1' : T1 = X1 * Y1 / Z1 := by field_simp; linear_combination -hT1
  have hT2' : T2 = X2 * Y2 / Z2 := by field_simp; linear_combination -hT2
  have e1 : ZZ2 + TT2d = 2 * Z1 * Z2 * (1 + d * (X1/Z1) * (X2/Z2) * (Y1/Z1) * (Y2/Z2)) := by
    simp only [ZZ2, ZZ, TT2d, hT1', hT2']; field_simp; ring
  have e2 : ZZ2 - TT2d = 2 * Z1 * Z2 * (1 - d * (X1/Z1) * (X2/Z2) * (Y1/Z1) * (Y2/Z2)) := by
    simp only [ZZ2, ZZ, TT2d, hT1', hT2']; field_simp; ring
  have hz : 2 * Z1 * Z2 ≠ 0 := mul_ne_zero (mul_ne_zero h2 hZ1) hZ2
  refine ⟨?_, ?_, ?_, ?_⟩
  · rw [e1]; exact mul_ne_zero hz hden1
  · rw [e2]; exact mul_ne_zero hz hden2
  · rw [e1, addX]; simp only [PP, MM]; field_simp; ring
  · rw [e2, addY]; simp only [PP, MM]; field_simp; ring

/-- dalek `&EdwardsPoint + &ProjectiveNielsPoint` (the Niels point being
`(Y2+X2, Y2-X2, Z2, 2d·T2)`) computes the group law. -/
theorem add_projectiveNiels {P Q : EdPoint c} {X1 Y1 Z1 T1 X2 Y2 Z2 T2 : K}
    (hP : RepExt P X1 Y1 Z1 T1) (hQ : RepExt Q X2 Y2 Z2 T2) :
    let PP := (Y1 + X1) * (Y2 + X2)
    let MM := (Y1 - X1) * (Y2 - X2)
    let TT2d := T1 * (T2 * (2 * c.d))
    let ZZ := Z1 * Z2
    let ZZ2 := ZZ + ZZ
    RepCompleted (P + Q) (PP - MM) (PP + MM) (ZZ2 + TT2d) (ZZ2 - TT2d) := by
  intro PP MM TT2d ZZ ZZ2
  obtain ⟨hZ1, hx1, hy1, hT1⟩ := hP
  obtain ⟨hZ2, hx2, hy2, hT2⟩ := hQ
  have hd := EdPoint.add_den_ne_zero P Q
  rw [hx1, hy1, hx2, hy2] at hd
  obtain ⟨a, b, ex, ey⟩ := add_pniels_raw c.d X1 Y1 Z1 T1 X2 Y2 Z2 T2 c.two_ne_zero
    hZ1 hZ2 hT1 hT2 hd.1 hd.2
  refine ⟨a, b, ?_, ?_⟩
  · rw [EdPoint.add_x', hx1, hy1, hx2, hy2]; exact ex
  · rw [EdPoint.add_y', hx1, hy1, hx2, hy2]; exact ey

/-- dalek `&EdwardsPoint - &ProjectiveNielsPoint`. -/
theorem sub_projectiveNiels {P Q : EdPoint c} {X1 Y1 Z1 T1 X2 Y2 Z2 T2 : K}
    (hP : RepExt P X1 Y1 Z1 T1) (hQ : RepExt Q X2 Y2 Z2 T2) :
    let PM := (Y1 + X1) * (Y2 - X2)
    let MP := (Y1 - X1) * (Y2 + X2)
    let TT2d := T1 * (T2 * (2 * c.d))
    let ZZ := Z1 * Z2
    let ZZ2 := ZZ + ZZ
    RepCompleted (P - Q) (PM - MP) (PM + MP) (ZZ2 - TT2d) (ZZ2 + TT2d) := by
  intro PM MP TT2d ZZ ZZ2
  have h := add_projectiveNiels hP hQ.neg
  rw [sub_eq_add_neg]
  simp only at h
  convert h using 1 <;> simp only [PM, MP, TT2d, ZZ2, ZZ] <;> ring

/-- dalek `&EdwardsPoint + &AffineNielsPoint` (the Niels point being
`(y2+x2, y2-x2, 2d·x2·y2)`). -/
theorem add_affineNiels {P Q : EdPoint c} {X1 Y1 Z1 T1 : K} (hP : RepExt P X1 Y1 Z1 T1) :
    let PP := (Y1 + X1) * (Q.y + Q.x)
    let MM := (Y1 - X1) * (Q.y - Q.x)
    let Txy2d := T1 * (Q.x * Q.y * (2 * c.d))
    let Z2 := Z1 + Z1
    RepCompleted (P + Q) (PP - MM) (PP + MM) (Z2 + Txy2d) (Z2 - Txy2d) := by
  intro PP MM Txy2d Z2
  have h := add_projectiveNiels hP (repExt_affine Q)
  simp only [mul_one] at h
  exact h

/-- dalek `&EdwardsPoint - &AffineNielsPoint`. -/
theorem sub_affineNiels {P Q : EdPoint c} {X1 Y1 Z1 T1 : K} (hP : RepExt P X1 Y1 Z1 T1) :
    let PM := (Y1 + X1) * (Q.y - Q.x)
    let MP := (Y1 - X1) * (Q.y + Q.x)
    let Txy2d := T1 * (Q.x * Q.y * (2 * c.d))
    let Z2 := Z1 + Z1
    RepCompleted (P - Q) (PM - MP) (PM + MP) (Z2 - Txy2d) (Z2 + Txy2d) := by
  intro PM MP Txy2d Z2
  have h := sub_projectiveNiels hP (repExt_affine Q)
  simp only [mul_one] at h
  exact h

/-- The unified extended-coordinates addition `add-2008-hwcd-3` (a = -1, `k = 2d`)
computes the group law, with `Z3 ≠ 0` and a consistent `T3`. -/
theorem add_hwcd3 {P Q : EdPoint c} {X1 Y1 Z1 T1 X2 Y2 Z2 T2 : K}
    (hP : RepExt P X1 Y1 Z1 T1) (hQ : RepExt Q X2 Y2 Z2 T2) :
    let A := (Y1 - X1) * (Y2 - X2)
    let B := (Y1 + X1) * (Y2 + X2)
    let C := T1 * (2 * c.d) * T2
    let D := 2 * Z1 * Z2
    let E := B - A
    let F := D - C
    let G := D + C
    let H := B + A
    RepExt (P + Q) (E * F) (G * H) (F * G) (E * H) := by
  intro A B C D E F G H
  have h := (add_projectiveNiels hP hQ).as_extended
  convert h using 1 <;> simp only [A, B, C, D, E, F, G, H] <;> ring

/-! ### Doubling -/

/-- dalek `ProjectivePoint::double` computes `P + P` (as a completed point). -/
theorem double_projective {P : EdPoint c} {X Y Z : K} (hP : RepProj P X Y Z) :
    let XX := X ^ 2
    let YY := Y ^ 2
    let ZZ2 := 2 * Z ^ 2
    let X_plus_Y_sq := (X + Y) ^ 2
    let YY_plus_XX := YY + XX
    let YY_minus_XX := YY - XX
    RepCompleted (P + P) (X_plus_Y_sq - YY_plus_XX) YY_plus_XX YY_minus_XX (ZZ2 - YY_minus_XX) := by
  intro XX YY ZZ2 X_plus_Y_sq YY_plus_XX YY_minus_XX
  obtain ⟨hZ, hx, hy⟩ := hP
  have hd := EdPoint.add_den_ne_zero P P
  have hon := P.on
  unfold onCurve at hon
  rw [hx, hy] at hd hon
  have hZ2 : Z ^ 2 ≠ 0 := pow_ne_zero 2 hZ
  -- the curve equation in projective form
  have hcurve : (Y ^ 2 - X ^ 2) = Z ^ 2 * (1 + c.d * (X / Z) * (X / Z) * (Y / Z) * (Y / Z)) := by
    have : -(X / Z) ^ 2 + (Y / Z) ^ 2 = (Y ^ 2 - X ^ 2) / Z ^ 2 := by field_simp; ring
    rw [this] at hon
    rw [div_eq_iff hZ2] at hon
    linear_combination hon
  have e1 : YY_minus_XX = Z ^ 2 * (1 + c.d * (X / Z) * (X / Z) * (Y / Z) * (Y / Z)) := hcurve
  have e2 : ZZ2 - YY_minus_XX = Z ^ 2 * (1 - c.d * (X / Z) * (X / Z) * (Y / Z) * (Y / Z)) := by
    simp only [ZZ2, YY_minus_XX, YY, XX]; linear_combination -hcurve
  refine ⟨?_, ?_, ?_, ?_⟩
  · rw [e1]; exact mul_ne_zero hZ2 hd.1
  · rw [e2]; exact mul_ne_zero hZ2 hd.2
  · rw [e1, EdPoint.add_x, hx, hy]; simp only [X_plus_Y_sq, YY_plus_XX, YY, XX]
    field_simp; ring
  · rw [e2, EdPoint.add_y, hx, hy]; simp only [YY_plus_XX, YY, XX]
    field_simp

/-- Same, stated for `2 • P`. -/
theorem double_projective_nsmul {P : EdPoint c} {X Y Z : K} (hP : RepProj P X Y Z) :
    RepCompleted (2 • P) ((X + Y) ^ 2 - (Y ^ 2 + X ^ 2)) (Y ^ 2 + X ^ 2) (Y ^ 2 - X ^ 2)
      (2 * Z ^ 2 - (Y ^ 2 - X ^ 2)) := by
  rw [two_nsmul]; exact double_projective hP

end Dalek.Edwards

/-
Twisted Edwards curve `-x^2 + y^2 = 1 + d x^2 y^2` (a = -1) over an arbitrary field:
definitions, completeness of the addition law (denominators never vanish), closure.

Completeness follows Bernstein–Birkner–Joye–Lange–Peters, "Twisted Edwards curves", Thm 3.3
(specialised to a = -1 = i^2, d a non-square).
-/
import Mathlib.Tactic.Ring
import Mathlib.Tactic.FieldSimp
import Mathlib.Tactic.LinearCombination
import Mathlib.Algebra.Field.Basic
import Mathlib.Algebra.Group.Even

namespace Dalek.Edwards

variable {K : Type*} [Field K]

/-- Parameters of a complete twisted Edwards curve with `a = -1`. -/
structure EdParams (K : Type*) [Field K] where
  d : K
  d_nonsquare : ¬ IsSquare d
  neg_one_square : IsSquare (-1 : K)
  two_ne_zero : (2 : K) ≠ 0

/-- The affine curve equation `-x^2 + y^2 = 1 + d x^2 y^2`. -/
def onCurve (d x y : K) : Prop := -x^2 + y^2 = 1 + d * x^2 * y^2

/-- An affine point of the curve. -/
structure EdPoint (c : EdParams K) where
  x : K
  y : K
  on : onCurve c.d x y

@[ext] theorem EdPoint.ext {c : EdParams K} {P Q : EdPoint c} (hx : P.x = Q.x) (hy : P.y = Q.y) :
    P = Q := by
  cases P; cases Q; simp only at hx hy; subst hx; subst hy; rfl

/-! ### Completeness -/

/-- If `A^2 = d * B^2` with `B ≠ 0` then `d` is a square. -/
theorem isSquare_of_sq_eq_mul_sq {d A B : K} (hB : B ≠ 0) (h : A ^ 2 = d * B ^ 2) : IsSquare d := by
  refine ⟨A / B, ?_⟩
  field_simp
  linear_combination -h

/-- Core of the completeness argument: if `ε = d x1 x2 y1 y2` satisfies `ε^2 = 1`
(i.e. `ε = ±1`), both points being on the curve, then `d` is a square. -/
theorem isSquare_d_of_eps {d i x1 y1 x2 y2 ε : K} (hi : -1 = i * i) (h2 : (2 : K) ≠ 0)
    (h1 : onCurve d x1 y1) (h2c : onCurve d x2 y2)
    (hε : ε = d * x1 * x2 * y1 * y2) (hε2 : ε * ε = 1) : IsSquare d := by
  unfold onCurve at h1 h2c
  -- all coordinates are nonzero
  have hne : d * x1 * x2 * y1 * y2 ≠ 0 := by
    rw [← hε]; intro h0; rw [h0] at hε2; simp at hε2
  have hx1 : x1 ≠ 0 := fun h => hne (by rw [h]; ring)
  have hy1 : y1 ≠ 0 := fun h => hne (by rw [h]; ring)
  have hy2 : y2 ≠ 0 := fun h => hne (by rw [h]; ring)
  -- (i x1 ± ε y1)^2 = d (x1 y1 (i x2 ± y2))^2
  have key1 : (i * x1 + ε * y1) ^ 2 = d * (x1 * y1 * (i * x2 + y2)) ^ 2 := by
    subst hε
    linear_combination (-(x1 ^ 2)) * hi + h1 - (d * x1 ^ 2 * y1 ^ 2) * h2c
      + (y1 ^ 2 - 1) * hε2 + (d * x1 ^ 2 * y1 ^ 2 * x2 ^ 2) * hi
  have key2 : (i * x1 - ε * y1) ^ 2 = d * (x1 * y1 * (i * x2 - y2)) ^ 2 := by
    subst hε
    linear_combination (-(x1 ^ 2)) * hi + h1 - (d * x1 ^ 2 * y1 ^ 2) * h2c
      + (y1 ^ 2 - 1) * hε2 + (d * x1 ^ 2 * y1 ^ 2 * x2 ^ 2) * hi
  by_cases hp : i * x2 + y2 = 0
  · have hm : i * x2 - y2 ≠ 0 := by
      intro hm
      have : 2 * y2 = 0 := by linear_combination hp - hm
      rcases mul_eq_zero.mp this with h | h
      · exact h2 h
      · exact hy2 h
    exact isSquare_of_sq_eq_mul_sq (mul_ne_zero (mul_ne_zero hx1 hy1) hm) key2
  · exact isSquare_of_sq_eq_mul_sq (mul_ne_zero (mul_ne_zero hx1 hy1) hp) key1

variable (c : EdParams K)

/-- Completeness, `+` denominator. -/
theorem den_pos_ne_zero {x1 y1 x2 y2 : K} (h1 : onCurve c.d x1 y1) (h2 : onCurve c.d x2 y2) :
    1 + c.d * x1 * x2 * y1 * y2 ≠ 0 := by
  intro h
  obtain ⟨i, hi⟩ := c.neg_one_square
  refine c.d_nonsquare (isSquare_d_of_eps (ε := c.d * x1 * x2 * y1 * y2) hi c.two_ne_zero h1 h2 rfl ?_)
  have : c.d * x1 * x2 * y1 * y2 = -1 := by linear_combination h
  rw [this]; ring

/-- Completeness, `-` denominator. -/
theorem den_neg_ne_zero {x1 y1 x2 y2 : K} (h1 : onCurve c.d x1 y1) (h2 : onCurve c.d x2 y2) :
    1 - c.d * x1 * x2 * y1 * y2 ≠ 0 := by
  intro h
  obtain ⟨i, hi⟩ := c.neg_one_square
  refine c.d_nonsquare (isSquare_d_of_eps (ε := c.d * x1 * x2 * y1 * y2) hi c.two_ne_zero h1 h2 rfl ?_)
  have : c.d * x1 * x2 * y1 * y2 = 1 := by linear_combination -h
  rw [this]; ring

/-- Completeness of the Edwards addition law: both denominators are nonzero. -/
theorem complete {x1 y1 x2 y2 : K} (h1 : onCurve c.d x1 y1) (h2 : onCurve c.d x2 y2) :
    1 + c.d * x1 * x2 * y1 * y2 ≠ 0 ∧ 1 - c.d * x1 * x2 * y1 * y2 ≠ 0 :=
  ⟨den_pos_ne_zero c h1 h2, den_neg_ne_zero c h1 h2⟩

/-! ### Closure -/

/-- A pair of fractions is on the curve as soon as the cleared-denominator equation holds. -/
theorem onCurve_div {d xn xd yn yd : K} (hxd : xd ≠ 0) (hyd : yd ≠ 0)
    (h : -xn ^ 2 * yd ^ 2 + yn ^ 2 * xd ^ 2 - xd ^ 2 * yd ^ 2 - d * xn ^ 2 * yn ^ 2 = 0) :
    onCurve d (xn / xd) (yn / yd) := by
  unfold onCurve
  field_simp
  linear_combination h

/-- Closure of the addition law, given nonvanishing denominators (pure algebra, any `d`). -/
theorem closure_of_den_ne_zero {d x1 y1 x2 y2 : K} (h1 : onCurve d x1 y1) (h2 : onCurve d x2 y2)
    (hp : 1 + d * x1 * x2 * y1 * y2 ≠ 0) (hm : 1 - d * x1 * x2 * y1 * y2 ≠ 0) :
    onCurve d ((x1 * y2 + y1 * x2) / (1 + d * x1 * x2 * y1 * y2))
      ((y1 * y2 + x1 * x2) / (1 - d * x1 * x2 * y1 * y2)) := by
  unfold onCurve at h1 h2
  have e1 : -x1 ^ 2 + y1 ^ 2 - 1 - d * x1 ^ 2 * y1 ^ 2 = 0 := by linear_combination h1
  have e2 : -x2 ^ 2 + y2 ^ 2 - 1 - d * x2 ^ 2 * y2 ^ 2 = 0 := by linear_combination h2
  -- cleared-denominator identity with the stored cofactors
  have key : -(x1 * y2 + y1 * x2) ^ 2 * (1 - d * x1 * x2 * y1 * y2) ^ 2
      + (y1 * y2 + x1 * x2) ^ 2 * (1 + d * x1 * x2 * y1 * y2) ^ 2
      - (1 + d * x1 * x2 * y1 * y2) ^ 2 * (1 - d * x1 * x2 * y1 * y2) ^ 2
      - d * (x1 * y2 + y1 * x2) ^ 2 * (y1 * y2 + x1 * x2) ^ 2 = 0 := by
    linear_combination
      (d^3*x1^2*x2^4*y1^2*y2^4 - d^2*x1^2*x2^4*y2^4 + d^2*x2^4*y1^2*y2^4 - d^2*x2^4*y2^4 - d*x1^2*x2^4*y2^2 + d*x1^2*x2^2*y2^4 + d*x2^4*y1^2*y2^2 - 2*d*x2^4*y2^4 - d*x2^2*y1^2*y2^4 - 2*d*x2^2*y2^2 - 2*x2^4*y2^2 + x2^4 + 2*x2^2*y2^4 - 4*x2^2*y2^2 + y2^4) * e1
      + (d*x1^4*x2^2*y2^2 + 2*d*x1^2*x2^2*y2^2 + d*x2^2*y1^4*y2^2 - 2*d*x2^2*y1^2*y2^2 + d*x2^2*y2^2 + 2*x1^2*x2^2*y2^2 - x1^2*x2^2 + x1^2*y2^2 - 2*x2^2*y1^2*y2^2 + x2^2*y1^2 + 2*x2^2*y2^2 - x2^2 - y1^2*y2^2 + y2^2 + 1) * e2
  exact onCurve_div hp hm key

/-- Closure: the sum of two curve points is on the curve. -/
theorem closure {x1 y1 x2 y2 : K} (h1 : onCurve c.d x1 y1) (h2 : onCurve c.d x2 y2) :
    onCurve c.d ((x1 * y2 + y1 * x2) / (1 + c.d * x1 * x2 * y1 * y2))
      ((y1 * y2 + x1 * x2) / (1 - c.d * x1 * x2 * y1 * y2)) :=
  closure_of_den_ne_zero h1 h2 (den_pos_ne_zero c h1 h2) (den_neg_ne_zero c h1 h2)

end Dalek.Edwards

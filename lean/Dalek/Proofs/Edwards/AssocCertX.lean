/-
GENERATED from /verif/data/edwards_assoc_cofactors.json (coordinate `x`); see
/verif/notes/probes/p10_assoc_certificate.py.  Polynomial identity
  Lnum * Rden - Rnum * Lden = q1 * E1 + q2 * E2 + q3 * E3
for the x-coordinates of `(P1+P2)+P3` (L) and `P1+(P2+P3)` (R), valid in any field.
-/
import Dalek.Proofs.Edwards.Frac

namespace Dalek.Edwards

variable {K : Type*} [Field K]

set_option maxHeartbeats 4000000 in
theorem assoc_x_cert (d x1 y1 x2 y2 x3 y3 : K) :
    (xn (xn x1 1 y1 1 x2 1 y2 1) (xd d x1 1 y1 1 x2 1 y2 1) (yn x1 1 y1 1 x2 1 y2 1) (yd d x1 1 y1 1 x2 1 y2 1) x3 1 y3 1) * (xd d x1 1 y1 1 (xn x2 1 y2 1 x3 1 y3 1) (xd d x2 1 y2 1 x3 1 y3 1) (yn x2 1 y2 1 x3 1 y3 1) (yd d x2 1 y2 1 x3 1 y3 1)) - (xn x1 1 y1 1 (xn x2 1 y2 1 x3 1 y3 1) (xd d x2 1 y2 1 x3 1 y3 1) (yn x2 1 y2 1 x3 1 y3 1) (yd d x2 1 y2 1 x3 1 y3 1)) * (xd d (xn x1 1 y1 1 x2 1 y2 1) (xd d x1 1 y1 1 x2 1 y2 1) (yn x1 1 y1 1 x2 1 y2 1) (yd d x1 1 y1 1 x2 1 y2 1) x3 1 y3 1)
    = (-d^2*x1*x2^4*x3^2*y2^3*y3 - d^2*x1*x2^3*x3*y2^4*y3^2 + d^2*x2^4*x3*y1*y2^3*y3^2 + d^2*x2^3*x3^2*y1*y2^4*y3 - d*x1*x2^4*x3^2*y2*y3 - d*x1*x2^3*x3^3*y2^2 - d*x1*x2^3*x3*y2^2 + d*x1*x2^2*y2^3*y3^3 - d*x1*x2^2*y2^3*y3 + d*x1*x2*x3*y2^4*y3^2 + d*x2^4*x3*y1*y2*y3^2 + d*x2^3*y1*y2^2*y3^3 - d*x2^3*y1*y2^2*y3 - d*x2^2*x3^3*y1*y2^3 - d*x2^2*x3*y1*y2^3 - d*x2*x3^2*y1*y2^4*y3) * E d x1 y1
    + (d^2*x1^2*x2^2*x3^3*y1*y2*y3^2 - d^2*x1^2*x2*x3^2*y1*y2^2*y3^3 - d^2*x1*x2^2*x3^2*y1^2*y2*y3^3 + d^2*x1*x2*x3^3*y1^2*y2^2*y3^2 + d*x1^3*x2^2*x3^2*y2*y3 + d*x1^3*x2*x3^3*y3^2 + d*x1^3*x2*x3*y2^2*y3^2 + d*x1^3*x3^2*y2*y3^3 - d*x1^2*x2^2*x3*y1*y2*y3^2 - d*x1^2*x2*x3^2*y1*y2^2*y3 + d*x1^2*x2*x3^2*y1*y3^3 + d*x1^2*x3^3*y1*y2*y3^2 - d*x1*x2^2*x3^2*y1^2*y2*y3 + d*x1*x2^2*x3^2*y2*y3 - d*x1*x2*x3^3*y1^2*y3^2 + d*x1*x2*x3^3*y3^2 - d*x1*x2*x3*y1^2*y2^2*y3^2 + d*x1*x2*x3*y2^2*y3^2 - d*x1*x3^2*y1^2*y2*y3^3 + d*x1*x3^2*y2*y3^3 + d*x2^2*x3*y1^3*y2*y3^2 - d*x2^2*x3*y1*y2*y3^2 + d*x2*x3^2*y1^3*y2^2*y3 - d*x2*x3^2*y1^3*y3^3 - d*x2*x3^2*y1*y2^2*y3 + d*x2*x3^2*y1*y3^3 - d*x3^3*y1^3*y2*y3^2 + d*x3^3*y1*y2*y3^2 + x1^3*x2*x3^3 - x1^3*x2*x3*y3^2 + x1^3*x2*x3 + x1^3*x3^2*y2*y3 - x1^3*y2*y3^3 + x1^3*y2*y3 + x1^2*x2*x3^2*y1*y3 - x1^2*x2*y1*y3^3 + x1^2*x2*y1*y3 + x1^2*x3^3*y1*y2 - x1^2*x3*y1*y2*y3^2 + x1^2*x3*y1*y2 - x1*x2*x3^3*y1^2 + x1*x2*x3^3 + x1*x2*x3*y1^2*y3^2 - x1*x2*x3*y1^2 - x1*x2*x3*y3^2 + x1*x2*x3 - x1*x3^2*y1^2*y2*y3 + x1*x3^2*y2*y3 + x1*y1^2*y2*y3^3 - x1*y1^2*y2*y3 - x1*y2*y3^3 + x1*y2*y3 - x2*x3^2*y1^3*y3 + x2*x3^2*y1*y3 + x2*y1^3*y3^3 - x2*y1^3*y3 - x2*y1*y3^3 + x2*y1*y3 - x3^3*y1^3*y2 + x3^3*y1*y2 + x3*y1^3*y2*y3^2 - x3*y1^3*y2 - x3*y1*y2*y3^2 + x3*y1*y2) * E d x2 y2
    + (-d*x1^2*x2^2*x3*y1*y2 + d*x1^2*x2*y1*y2^2*y3 + d*x1*x2^2*y1^2*y2*y3 - d*x1*x2*x3*y1^2*y2^2 - x1^3*x2^3*x3 - x1^3*x2^2*y2*y3 + x1^3*x2*x3*y2^2 - x1^3*x2*x3 + x1^3*y2^3*y3 - x1^3*y2*y3 - x1^2*x2^3*y1*y3 - x1^2*x2^2*x3*y1*y2 + x1^2*x2*y1*y2^2*y3 - x1^2*x2*y1*y3 + x1^2*x3*y1*y2^3 - x1^2*x3*y1*y2 + x1*x2^3*x3*y1^2 - x1*x2^3*x3 + x1*x2^2*y1^2*y2*y3 - x1*x2^2*y2*y3 - x1*x2*x3*y1^2*y2^2 + x1*x2*x3*y1^2 + x1*x2*x3*y2^2 - x1*x2*x3 - x1*y1^2*y2^3*y3 + x1*y1^2*y2*y3 + x1*y2^3*y3 - x1*y2*y3 + x2^3*y1^3*y3 - x2^3*y1*y3 + x2^2*x3*y1^3*y2 - x2^2*x3*y1*y2 - x2*y1^3*y2^2*y3 + x2*y1^3*y3 + x2*y1*y2^2*y3 - x2*y1*y3 - x3*y1^3*y2^3 + x3*y1^3*y2 + x3*y1*y2^3 - x3*y1*y2) * E d x3 y3 := by
  simp only [xn, xd, yn, yd, E]; ring

end Dalek.Edwards

/-
Lemmas about the translated `edwards.rs` formulas that involve the exponent chain (`invert`,
`sqrt_ratio_i` inlined): `compress`, `to_montgomery`, `as_affine_niels`, `decompress::step_1/2`, and
the sign facts needed for decompression.  Property theorems: `Props/C03/Formulas.lean`.
-/
import Dalek.Proofs.AlgFieldLemmas
import Dalek.Proofs.AlgCurveLemmas
import Dalek.Gen.AlgEdwardsSh

namespace Dalek.Proofs

open Dalek.IR Dalek.Spec Dalek.Gen
open Dalek.Edwards
open Dalek.Bridge (Ed edParams edParams_d)
open Dalek.FieldFacts (d sqrtM1)

/-! ## Shallow twins as field functions -/

/-- `EdwardsPoint::compress` (field part): `(Y · Z⁻¹, is_negative(X · Z⁻¹))`. -/
theorem compress_sh_eq (X Y Z T : Fp) :
    AlgEdwards.compress_sh zmodOps X Y Z T = [Y * Z⁻¹, c2f (fpIsNeg (X * Z⁻¹))] := by
  rw [← Dalek.FieldFacts.pow_inv_exponent Z]
  alg_lets AlgEdwards.compress_sh
  ring_nf

/-- `EdwardsPoint::to_montgomery` (field part): `(Z + Y) · (Z − Y)⁻¹`. -/
theorem to_montgomery_sh_eq (X Y Z T : Fp) :
    AlgEdwards.to_montgomery_sh zmodOps X Y Z T = [(Z + Y) * (Z - Y)⁻¹] := by
  generalize hw : Z - Y = w
  rw [← Dalek.FieldFacts.pow_inv_exponent w]
  alg_lets AlgEdwards.to_montgomery_sh [hw]
  ring_nf

/-- `EdwardsPoint::as_affine_niels`: `(y + x, y − x, 2d·x·y)` with `x = X·Z⁻¹`, `y = Y·Z⁻¹`. -/
theorem as_affine_niels_sh_eq (X Y Z T : Fp) :
    AlgEdwards.as_affine_niels_sh zmodOps X Y Z T =
      [Y * Z⁻¹ + X * Z⁻¹, Y * Z⁻¹ - X * Z⁻¹, X * Z⁻¹ * (Y * Z⁻¹) * (2 * d)] := by
  rw [← Dalek.FieldFacts.pow_inv_exponent Z]
  alg_lets AlgEdwards.as_affine_niels_sh
  ring_nf

/-- `decompress::step_1`: `(is_valid, X, Y, Z) = (ok, r, y, 1)` with
`(ok, r) = sqrt_ratio_i(y² − 1, d y² + 1)`. -/
theorem decompress_step_1_sh_eq (y : Fp) :
    AlgEdwards.decompress_step_1_sh zmodOps y =
      [(sqrtRatioFp (y ^ 2 - 1) (d * y ^ 2 + 1)).1, (sqrtRatioFp (y ^ 2 - 1) (d * y ^ 2 + 1)).2, y, 1] := by
  generalize hu : y ^ 2 - 1 = u
  generalize hv : d * y ^ 2 + 1 = v
  alg_lets AlgEdwards.decompress_step_1_sh [hu, hv]
  simp only [sqrtRatioFp, sqrtCand]
  ring_nf

/-- `decompress::step_2`: conditional negation of `X` by the sign bit, `T = X·Y`. -/
theorem decompress_step_2_sh_eq (X Y Z s : Fp) :
    AlgEdwards.decompress_step_2_sh zmodOps X Y Z s =
      [if s = 0 then X else -X, Y, Z, (if s = 0 then X else -X) * Y] := by
  simp only [AlgEdwards.decompress_step_2_sh, zmodOps_neg, zmodOps_csel, zmodOps_mul]

/-! ## Signs -/

/-- For `x ≠ 0`, exactly one of `x`, `-x` is negative (`p` is odd). -/
theorem fpIsNeg_neg {x : Fp} (hx : x ≠ 0) : fpIsNeg (-x) ↔ ¬ fpIsNeg x := by
  unfold fpIsNeg
  have hlt := ZMod.val_lt x
  have hpos : 0 < x.val := Nat.pos_of_ne_zero (fun h => hx ((ZMod.val_eq_zero x).1 h))
  have hneg : (-x).val = P - x.val := by
    rw [ZMod.neg_val, if_neg hx]
  have key : ∀ p n : Nat, p % 2 = 1 → n < p → 0 < n → ((p - n) % 2 = 1 ↔ ¬ n % 2 = 1) := by
    intro p n h1 h2 h3; omega
  rw [hneg]; exact key P x.val Bridge.P_odd hlt hpos

theorem not_fpIsNeg_zero : ¬ fpIsNeg (0 : Fp) := by
  unfold fpIsNeg; rw [ZMod.val_zero]; decide

/-! ## The decompression equation -/

/-- A `y` is the ordinate of a curve point iff `(y² − 1)/(d y² + 1)` is a square. -/
theorem exists_onCurve_iff (y : Fp) :
    (∃ x, onCurve d x y) ↔ IsSquare ((y ^ 2 - 1) / (d * y ^ 2 + 1)) := by
  have hv := Bridge.dyy_add_one_ne_zero y
  constructor
  · rintro ⟨x, hx⟩
    refine ⟨x, ?_⟩
    rw [Bridge.onCurve_iff_ratio] at hx
    rw [div_eq_iff hv, ← hx]; ring
  · rintro ⟨x, hx⟩
    refine ⟨x, ?_⟩
    rw [Bridge.onCurve_iff_ratio]
    rw [div_eq_iff hv] at hx
    rw [hx]; ring

/-- The flag of `decompress::step_1` is set iff `y` is the ordinate of a curve point. -/
theorem decompress_flag_iff (y : Fp) :
    (sqrtRatioFp (y ^ 2 - 1) (d * y ^ 2 + 1)).1 = 1 ↔ ∃ x, onCurve d x y := by
  have hv := Bridge.dyy_add_one_ne_zero y
  rw [sqrtRatioFp_ok_iff, exists_onCurve_iff]
  constructor
  · rintro (h | ⟨-, h⟩)
    · rw [h, zero_div]; exact ⟨0, by ring⟩
    · exact h
  · intro h; exact Or.inr ⟨hv, h⟩

/-- When the flag is set, the returned root is the abscissa of a curve point with ordinate `y`. -/
theorem decompress_root_onCurve {y : Fp} (h : (sqrtRatioFp (y ^ 2 - 1) (d * y ^ 2 + 1)).1 = 1) :
    onCurve d (sqrtRatioFp (y ^ 2 - 1) (d * y ^ 2 + 1)).2 y := by
  rw [Bridge.onCurve_iff_ratio]; exact sqrtRatioFp_ok h

/-- info: 'Dalek.Proofs.to_montgomery_sh_eq' depends on axioms: [propext, Classical.choice, Quot.sound] -/
#guard_msgs in #print axioms to_montgomery_sh_eq

/-- info: 'Dalek.Proofs.decompress_step_1_sh_eq' depends on axioms: [propext, Classical.choice, Quot.sound] -/
#guard_msgs in #print axioms decompress_step_1_sh_eq

/-- info: 'Dalek.Proofs.compress_sh_eq' depends on axioms: [propext, Classical.choice, Quot.sound] -/
#guard_msgs in #print axioms compress_sh_eq

/-- info: 'Dalek.Proofs.as_affine_niels_sh_eq' depends on axioms: [propext, Classical.choice, Quot.sound] -/
#guard_msgs in #print axioms as_affine_niels_sh_eq

end Dalek.Proofs

import Dalek.Proofs.Field51
import Dalek.IR.LimbSound
import Dalek.Gen.Norm.Field51.from_bytes
import Dalek.Gen.Norm.Field51.as_bytes
import Dalek.Model.FieldBytes
import Dalek.Spec.Field
/-!
# Byte codecs of the serial-u64 field backend: integer-level correctness of the normalised kernels

Helper lemmas for `Dalek/Props/C01/Bytes51.lean`.

* generic facts on little-endian byte lists (`leVal`, `leValZ`, `natToLeN`; link to `Dalek.Spec.leToNat/natToLe`);
* `from_bytes_fn_eq` / `from_bytes_fn_val`: on bytes in `[0,255]` the five limbs are the five 51-bit digits of
  `N % 2^255`, `N` the little-endian value of the 32 bytes (one `omega` call per limb);
* `as_bytes_fn_eq_model`: the generated normal form equals the hand model `asBytesModel51` (normalising proof:
  inline all `let`s on both sides, `ring_nf` per output byte);
* `asBytesModel51_val`: for limbs in `[0, 2^54)` the 32 output bytes are in `[0,255]` and their little-endian
  value is `(Σ a_i 2^(51 i)) % p` (staged `omega`: weak reduction, carry bit of `h+19`, carry chain, packing).

No script refers to SSA numbers or to the order of the generated `let`s.
-/
set_option linter.unusedVariables false
set_option linter.unusedTactic false
set_option linter.unreachableTactic false
set_option linter.unusedSimpArgs false
namespace Dalek.Proofs.Bytes51
open Dalek Dalek.IR Dalek.Model.FieldBytes Dalek.Proofs.Field51

/-! ### little-endian lists -/

theorem toZ_cons (x : Nat) (xs : List Nat) : toZ (x :: xs) = (x : Int) :: toZ xs := rfl
theorem toZ_nil : toZ [] = [] := rfl

theorem leValZ_toZ : ∀ l : List Nat, leValZ (toZ l) = (leVal l : Int)
  | [] => rfl
  | b :: bs => by
      rw [toZ_cons, leValZ, leVal, leValZ_toZ bs]; push_cast; rfl

theorem getD_toZ (l : List Nat) (i : Nat) : (toZ l).getD i 0 = ((l.getD i 0 : Nat) : Int) := by
  induction l generalizing i with
  | nil => simp [Dalek.IR.toZ]
  | cons a l ih =>
    cases i with
    | zero => simp [Dalek.IR.toZ]
    | succ i => simpa [Dalek.IR.toZ] using ih i

theorem rep51_toZ (l : List Nat) : rep51 (toZ l) = (val51N l : Int) := by
  simp only [rep51, val51N, getD_toZ]; push_cast; rfl

/-- every entry is a byte -/
def AllBytes (l : List Nat) : Prop := ∀ b ∈ l, b ≤ 255

theorem envIn_bytes : ∀ (n : Nat) (l : List Nat), EnvIn l (Dalek.Model.Contracts.bytes n) ↔ (l.length = n ∧ AllBytes l)
  | 0, [] => by simp [EnvIn, Dalek.Model.Contracts.bytes, Dalek.Model.Contracts.rep, AllBytes]
  | 0, _ :: _ => by simp [EnvIn, Dalek.Model.Contracts.bytes, Dalek.Model.Contracts.rep]
  | n + 1, [] => by simp [EnvIn, Dalek.Model.Contracts.bytes, Dalek.Model.Contracts.rep, List.replicate_succ]
  | n + 1, b :: bs => by
      have ih := envIn_bytes n bs
      simp only [Dalek.Model.Contracts.bytes, Dalek.Model.Contracts.rep] at ih
      simp only [Dalek.Model.Contracts.bytes, Dalek.Model.Contracts.rep, List.replicate_succ, EnvIn,
        Itv.mem, Dalek.Model.Contracts.ub, AllBytes, List.length_cons, List.mem_cons, forall_eq_or_imp]
      simp
      tauto

theorem leVal_lt : ∀ l : List Nat, AllBytes l → leVal l < 256 ^ l.length
  | [], _ => by simp [leVal]
  | b :: bs, h => by
      have hb : b ≤ 255 := h b (by simp)
      have ih := leVal_lt bs (fun x hx => h x (by simp [hx]))
      simp only [leVal, List.length_cons, pow_succ]
      omega

theorem natToLeN_leVal : ∀ l : List Nat, AllBytes l → natToLeN (leVal l) l.length = l
  | [], _ => rfl
  | b :: bs, h => by
      have hb : b ≤ 255 := h b (by simp)
      have ih := natToLeN_leVal bs (fun x hx => h x (by simp [hx]))
      simp only [leVal, List.length_cons, natToLeN]
      have h1 : (b + 256 * leVal bs) % 256 = b := by omega
      have h2 : (b + 256 * leVal bs) / 256 = leVal bs := by omega
      rw [h1, h2, ih]

theorem natToLeN_length : ∀ (k n : Nat), (natToLeN n k).length = k
  | 0, _ => rfl
  | k + 1, n => by simp [natToLeN, natToLeN_length k]

theorem natToLeN_allBytes : ∀ (k n : Nat), AllBytes (natToLeN n k)
  | 0, _ => by simp [natToLeN, AllBytes]
  | k + 1, n => by
      intro b hb
      simp only [natToLeN, List.mem_cons] at hb
      rcases hb with rfl | hb
      · omega
      · exact natToLeN_allBytes k _ b hb

theorem leVal_natToLeN : ∀ (k n : Nat), leVal (natToLeN n k) = n % 256 ^ k
  | 0, n => by simp [natToLeN, leVal, Nat.mod_one]
  | k + 1, n => by
      simp only [natToLeN, leVal, leVal_natToLeN k]
      rw [pow_succ, Nat.mul_comm (256 ^ k) 256, Nat.mod_mul]

/-- a byte list is determined by its length and its little-endian value -/
theorem eq_natToLeN_of_leVal {l : List Nat} {n k : Nat} (hl : l.length = k) (hb : AllBytes l) (hv : leVal l = n) :
    l = natToLeN n k := by
  rw [← hv, ← hl, natToLeN_leVal l hb]

/-- link to the executable specification (`List UInt8`) -/
theorem map_ofNat_natToLeN : ∀ (k n : Nat), (natToLeN n k).map UInt8.ofNat = Dalek.Spec.natToLe n k
  | 0, _ => rfl
  | k + 1, n => by simp [natToLeN, Dalek.Spec.natToLe, map_ofNat_natToLeN k]

theorem leToNat_map_ofNat : ∀ l : List Nat, AllBytes l → Dalek.Spec.leToNat (l.map UInt8.ofNat) = leVal l
  | [], _ => rfl
  | b :: bs, h => by
      have hb : b ≤ 255 := h b (by simp)
      have ih := leToNat_map_ofNat bs (fun x hx => h x (by simp [hx]))
      simp only [List.map_cons, Dalek.Spec.leToNat, leVal, ih]
      have : (UInt8.ofNat b).toNat = b := by
        simp only [UInt8.toNat_ofNat']; omega
      rw [this]

theorem leVal_map_toNat : ∀ l : List UInt8, leVal (l.map UInt8.toNat) = Dalek.Spec.leToNat l
  | [] => rfl
  | b :: bs => by simp [leVal, Dalek.Spec.leToNat, leVal_map_toNat bs]

theorem allBytes_map_toNat (l : List UInt8) : AllBytes (l.map UInt8.toNat) := by
  intro b hb
  simp only [List.mem_map] at hb
  obtain ⟨u, _, rfl⟩ := hb
  have := u.toNat_lt
  omega


theorem natToLeN_getD : ∀ (k n i : Nat), i < k → (natToLeN n k).getD i 0 = n / 256 ^ i % 256
  | k + 1, n, 0, _ => by simp [natToLeN]
  | k + 1, n, i + 1, h => by
      simp only [natToLeN, List.getD_cons_succ]
      rw [natToLeN_getD k (n / 256) i (by omega), Nat.div_div_eq_div_mul, pow_succ, Nat.mul_comm]

theorem envIn_length : ∀ {xs : List Nat} {ts : List Itv}, EnvIn xs ts → xs.length = ts.length
  | [], [], _ => rfl
  | _ :: xs, _ :: ts, h => by
      simp only [EnvIn] at h
      simp [envIn_length h.2]
  | [], _ :: _, h => by simp [EnvIn] at h
  | _ :: _, [], h => by simp [EnvIn] at h

theorem exists_of_length_succ {α : Type} {l : List α} {n : Nat} (h : l.length = n + 1) :
    ∃ a t, l = a :: t ∧ t.length = n := by
  cases l with
  | nil => simp at h
  | cons a t => exact ⟨a, t, rfl, by simpa using h⟩

theorem list_eq_of_length_5 {α : Type} {l : List α} (hl : l.length = 5) : ∃ a0 a1 a2 a3 a4, l = [a0, a1, a2, a3, a4] := by
  obtain ⟨a0, t0, rfl, hl0⟩ := exists_of_length_succ hl
  obtain ⟨a1, t1, rfl, hl1⟩ := exists_of_length_succ hl0
  obtain ⟨a2, t2, rfl, hl2⟩ := exists_of_length_succ hl1
  obtain ⟨a3, t3, rfl, hl3⟩ := exists_of_length_succ hl2
  obtain ⟨a4, t4, rfl, hl4⟩ := exists_of_length_succ hl3
  obtain rfl := List.length_eq_zero_iff.mp hl4
  exact ⟨a0, a1, a2, a3, a4, rfl⟩

theorem list_eq_of_length_32 {α : Type} {l : List α} (hl : l.length = 32) :
    ∃ b0 b1 b2 b3 b4 b5 b6 b7 b8 b9 b10 b11 b12 b13 b14 b15 b16 b17 b18 b19 b20 b21 b22 b23 b24 b25 b26 b27 b28 b29 b30 b31, l = [b0, b1, b2, b3, b4, b5, b6, b7, b8, b9, b10, b11, b12, b13, b14, b15, b16, b17, b18, b19, b20, b21, b22, b23, b24, b25, b26, b27, b28, b29, b30, b31] := by
  obtain ⟨b0, t0, rfl, hl0⟩ := exists_of_length_succ hl
  obtain ⟨b1, t1, rfl, hl1⟩ := exists_of_length_succ hl0
  obtain ⟨b2, t2, rfl, hl2⟩ := exists_of_length_succ hl1
  obtain ⟨b3, t3, rfl, hl3⟩ := exists_of_length_succ hl2
  obtain ⟨b4, t4, rfl, hl4⟩ := exists_of_length_succ hl3
  obtain ⟨b5, t5, rfl, hl5⟩ := exists_of_length_succ hl4
  obtain ⟨b6, t6, rfl, hl6⟩ := exists_of_length_succ hl5
  obtain ⟨b7, t7, rfl, hl7⟩ := exists_of_length_succ hl6
  obtain ⟨b8, t8, rfl, hl8⟩ := exists_of_length_succ hl7
  obtain ⟨b9, t9, rfl, hl9⟩ := exists_of_length_succ hl8
  obtain ⟨b10, t10, rfl, hl10⟩ := exists_of_length_succ hl9
  obtain ⟨b11, t11, rfl, hl11⟩ := exists_of_length_succ hl10
  obtain ⟨b12, t12, rfl, hl12⟩ := exists_of_length_succ hl11
  obtain ⟨b13, t13, rfl, hl13⟩ := exists_of_length_succ hl12
  obtain ⟨b14, t14, rfl, hl14⟩ := exists_of_length_succ hl13
  obtain ⟨b15, t15, rfl, hl15⟩ := exists_of_length_succ hl14
  obtain ⟨b16, t16, rfl, hl16⟩ := exists_of_length_succ hl15
  obtain ⟨b17, t17, rfl, hl17⟩ := exists_of_length_succ hl16
  obtain ⟨b18, t18, rfl, hl18⟩ := exists_of_length_succ hl17
  obtain ⟨b19, t19, rfl, hl19⟩ := exists_of_length_succ hl18
  obtain ⟨b20, t20, rfl, hl20⟩ := exists_of_length_succ hl19
  obtain ⟨b21, t21, rfl, hl21⟩ := exists_of_length_succ hl20
  obtain ⟨b22, t22, rfl, hl22⟩ := exists_of_length_succ hl21
  obtain ⟨b23, t23, rfl, hl23⟩ := exists_of_length_succ hl22
  obtain ⟨b24, t24, rfl, hl24⟩ := exists_of_length_succ hl23
  obtain ⟨b25, t25, rfl, hl25⟩ := exists_of_length_succ hl24
  obtain ⟨b26, t26, rfl, hl26⟩ := exists_of_length_succ hl25
  obtain ⟨b27, t27, rfl, hl27⟩ := exists_of_length_succ hl26
  obtain ⟨b28, t28, rfl, hl28⟩ := exists_of_length_succ hl27
  obtain ⟨b29, t29, rfl, hl29⟩ := exists_of_length_succ hl28
  obtain ⟨b30, t30, rfl, hl30⟩ := exists_of_length_succ hl29
  obtain ⟨b31, t31, rfl, hl31⟩ := exists_of_length_succ hl30
  obtain rfl := List.length_eq_zero_iff.mp hl31
  exact ⟨b0, b1, b2, b3, b4, b5, b6, b7, b8, b9, b10, b11, b12, b13, b14, b15, b16, b17, b18, b19, b20, b21, b22, b23, b24, b25, b26, b27, b28, b29, b30, b31, rfl⟩

/-! ### `from_bytes` -/
open Dalek.Gen.Norm.Field51

set_option maxHeartbeats 4000000 in
/-- the five limbs are the 51-bit digits of the little-endian value (one `omega` per limb) -/
theorem from_bytes_fn_eq (x0 x1 x2 x3 x4 x5 x6 x7 x8 x9 x10 x11 x12 x13 x14 x15 x16 x17 x18 x19 x20 x21 x22 x23 x24 x25 x26 x27 x28 x29 x30 x31 : Int)
    (h0 : 0 ≤ x0 ∧ x0 ≤ 255) (h1 : 0 ≤ x1 ∧ x1 ≤ 255) (h2 : 0 ≤ x2 ∧ x2 ≤ 255) (h3 : 0 ≤ x3 ∧ x3 ≤ 255) (h4 : 0 ≤ x4 ∧ x4 ≤ 255) (h5 : 0 ≤ x5 ∧ x5 ≤ 255) (h6 : 0 ≤ x6 ∧ x6 ≤ 255) (h7 : 0 ≤ x7 ∧ x7 ≤ 255) (h8 : 0 ≤ x8 ∧ x8 ≤ 255) (h9 : 0 ≤ x9 ∧ x9 ≤ 255) (h10 : 0 ≤ x10 ∧ x10 ≤ 255) (h11 : 0 ≤ x11 ∧ x11 ≤ 255) (h12 : 0 ≤ x12 ∧ x12 ≤ 255) (h13 : 0 ≤ x13 ∧ x13 ≤ 255) (h14 : 0 ≤ x14 ∧ x14 ≤ 255) (h15 : 0 ≤ x15 ∧ x15 ≤ 255) (h16 : 0 ≤ x16 ∧ x16 ≤ 255) (h17 : 0 ≤ x17 ∧ x17 ≤ 255) (h18 : 0 ≤ x18 ∧ x18 ≤ 255) (h19 : 0 ≤ x19 ∧ x19 ≤ 255) (h20 : 0 ≤ x20 ∧ x20 ≤ 255) (h21 : 0 ≤ x21 ∧ x21 ≤ 255) (h22 : 0 ≤ x22 ∧ x22 ≤ 255) (h23 : 0 ≤ x23 ∧ x23 ≤ 255) (h24 : 0 ≤ x24 ∧ x24 ≤ 255) (h25 : 0 ≤ x25 ∧ x25 ≤ 255) (h26 : 0 ≤ x26 ∧ x26 ≤ 255) (h27 : 0 ≤ x27 ∧ x27 ≤ 255) (h28 : 0 ≤ x28 ∧ x28 ≤ 255) (h29 : 0 ≤ x29 ∧ x29 ≤ 255) (h30 : 0 ≤ x30 ∧ x30 ≤ 255) (h31 : 0 ≤ x31 ∧ x31 ≤ 255) :
    from_bytes_fn x0 x1 x2 x3 x4 x5 x6 x7 x8 x9 x10 x11 x12 x13 x14 x15 x16 x17 x18 x19 x20 x21 x22 x23 x24 x25 x26 x27 x28 x29 x30 x31
      = [leValZ [x0, x1, x2, x3, x4, x5, x6, x7, x8, x9, x10, x11, x12, x13, x14, x15, x16, x17, x18, x19, x20, x21, x22, x23, x24, x25, x26, x27, x28, x29, x30, x31] % 2 ^ 51,
         leValZ [x0, x1, x2, x3, x4, x5, x6, x7, x8, x9, x10, x11, x12, x13, x14, x15, x16, x17, x18, x19, x20, x21, x22, x23, x24, x25, x26, x27, x28, x29, x30, x31] / 2 ^ 51 % 2 ^ 51,
         leValZ [x0, x1, x2, x3, x4, x5, x6, x7, x8, x9, x10, x11, x12, x13, x14, x15, x16, x17, x18, x19, x20, x21, x22, x23, x24, x25, x26, x27, x28, x29, x30, x31] / 2 ^ 102 % 2 ^ 51,
         leValZ [x0, x1, x2, x3, x4, x5, x6, x7, x8, x9, x10, x11, x12, x13, x14, x15, x16, x17, x18, x19, x20, x21, x22, x23, x24, x25, x26, x27, x28, x29, x30, x31] / 2 ^ 153 % 2 ^ 51,
         leValZ [x0, x1, x2, x3, x4, x5, x6, x7, x8, x9, x10, x11, x12, x13, x14, x15, x16, x17, x18, x19, x20, x21, x22, x23, x24, x25, x26, x27, x28, x29, x30, x31] / 2 ^ 204 % 2 ^ 51] := by
  unfold from_bytes_fn
  simp only [leValZ, List.cons.injEq, and_true]
  refine ⟨?_, ?_, ?_, ?_, ?_⟩ <;> omega

theorem digits51 (N : Int) :
    N % 2 ^ 51 + 2 ^ 51 * (N / 2 ^ 51 % 2 ^ 51) + 2 ^ 102 * (N / 2 ^ 102 % 2 ^ 51) + 2 ^ 153 * (N / 2 ^ 153 % 2 ^ 51)
      + 2 ^ 204 * (N / 2 ^ 204 % 2 ^ 51) = N % 2 ^ 255 := by
  omega

theorem from_bytes_fn_val (x0 x1 x2 x3 x4 x5 x6 x7 x8 x9 x10 x11 x12 x13 x14 x15 x16 x17 x18 x19 x20 x21 x22 x23 x24 x25 x26 x27 x28 x29 x30 x31 : Int)
    (h0 : 0 ≤ x0 ∧ x0 ≤ 255) (h1 : 0 ≤ x1 ∧ x1 ≤ 255) (h2 : 0 ≤ x2 ∧ x2 ≤ 255) (h3 : 0 ≤ x3 ∧ x3 ≤ 255) (h4 : 0 ≤ x4 ∧ x4 ≤ 255) (h5 : 0 ≤ x5 ∧ x5 ≤ 255) (h6 : 0 ≤ x6 ∧ x6 ≤ 255) (h7 : 0 ≤ x7 ∧ x7 ≤ 255) (h8 : 0 ≤ x8 ∧ x8 ≤ 255) (h9 : 0 ≤ x9 ∧ x9 ≤ 255) (h10 : 0 ≤ x10 ∧ x10 ≤ 255) (h11 : 0 ≤ x11 ∧ x11 ≤ 255) (h12 : 0 ≤ x12 ∧ x12 ≤ 255) (h13 : 0 ≤ x13 ∧ x13 ≤ 255) (h14 : 0 ≤ x14 ∧ x14 ≤ 255) (h15 : 0 ≤ x15 ∧ x15 ≤ 255) (h16 : 0 ≤ x16 ∧ x16 ≤ 255) (h17 : 0 ≤ x17 ∧ x17 ≤ 255) (h18 : 0 ≤ x18 ∧ x18 ≤ 255) (h19 : 0 ≤ x19 ∧ x19 ≤ 255) (h20 : 0 ≤ x20 ∧ x20 ≤ 255) (h21 : 0 ≤ x21 ∧ x21 ≤ 255) (h22 : 0 ≤ x22 ∧ x22 ≤ 255) (h23 : 0 ≤ x23 ∧ x23 ≤ 255) (h24 : 0 ≤ x24 ∧ x24 ≤ 255) (h25 : 0 ≤ x25 ∧ x25 ≤ 255) (h26 : 0 ≤ x26 ∧ x26 ≤ 255) (h27 : 0 ≤ x27 ∧ x27 ≤ 255) (h28 : 0 ≤ x28 ∧ x28 ≤ 255) (h29 : 0 ≤ x29 ∧ x29 ≤ 255) (h30 : 0 ≤ x30 ∧ x30 ≤ 255) (h31 : 0 ≤ x31 ∧ x31 ≤ 255) :
    rep51 (from_bytes_fn x0 x1 x2 x3 x4 x5 x6 x7 x8 x9 x10 x11 x12 x13 x14 x15 x16 x17 x18 x19 x20 x21 x22 x23 x24 x25 x26 x27 x28 x29 x30 x31) = leValZ [x0, x1, x2, x3, x4, x5, x6, x7, x8, x9, x10, x11, x12, x13, x14, x15, x16, x17, x18, x19, x20, x21, x22, x23, x24, x25, x26, x27, x28, x29, x30, x31] % 2 ^ 255 := by
  rw [from_bytes_fn_eq x0 x1 x2 x3 x4 x5 x6 x7 x8 x9 x10 x11 x12 x13 x14 x15 x16 x17 x18 x19 x20 x21 x22 x23 x24 x25 x26 x27 x28 x29 x30 x31 h0 h1 h2 h3 h4 h5 h6 h7 h8 h9 h10 h11 h12 h13 h14 h15 h16 h17 h18 h19 h20 h21 h22 h23 h24 h25 h26 h27 h28 h29 h30 h31]
  simp only [rep51, List.getD_cons_zero, List.getD_cons_succ]
  exact digits51 _

/-! ### `as_bytes` -/

set_option maxHeartbeats 4000000 in
/-- the generated normal form and the hand model are the same integer function -/
theorem as_bytes_fn_eq_model (a0 a1 a2 a3 a4 : Int) :
    as_bytes_fn a0 a1 a2 a3 a4 = asBytesModel51 a0 a1 a2 a3 a4 := by
  unfold as_bytes_fn asBytesModel51 pack51
  simp only [List.cons.injEq, and_true, pow_zero, Int.ediv_one]
  repeat' apply And.intro
  all_goals ring_nf

/-- weak reduction: limbs `< 2^51 + 2^12`, value changed by a multiple of `p` -/
theorem reduce51_abs (a0 a1 a2 a3 a4 l0 l1 l2 l3 l4 : Int)
    (b0 : 0 ≤ a0 ∧ a0 < 2 ^ 54) (b1 : 0 ≤ a1 ∧ a1 < 2 ^ 54) (b2 : 0 ≤ a2 ∧ a2 < 2 ^ 54) (b3 : 0 ≤ a3 ∧ a3 < 2 ^ 54)
    (b4 : 0 ≤ a4 ∧ a4 < 2 ^ 54)
    (e0 : l0 = a0 % 2 ^ 51 + 19 * (a4 / 2 ^ 51)) (e1 : l1 = a1 % 2 ^ 51 + a0 / 2 ^ 51)
    (e2 : l2 = a2 % 2 ^ 51 + a1 / 2 ^ 51) (e3 : l3 = a3 % 2 ^ 51 + a2 / 2 ^ 51)
    (e4 : l4 = a4 % 2 ^ 51 + a3 / 2 ^ 51) :
    (0 ≤ l0 ∧ l0 < 2 ^ 51 + 2 ^ 12) ∧ (0 ≤ l1 ∧ l1 < 2 ^ 51 + 2 ^ 12) ∧ (0 ≤ l2 ∧ l2 < 2 ^ 51 + 2 ^ 12) ∧
    (0 ≤ l3 ∧ l3 < 2 ^ 51 + 2 ^ 12) ∧ (0 ≤ l4 ∧ l4 < 2 ^ 51 + 2 ^ 12) ∧
    l0 + 2 ^ 51 * l1 + 2 ^ 102 * l2 + 2 ^ 153 * l3 + 2 ^ 204 * l4
      = a0 + 2 ^ 51 * a1 + 2 ^ 102 * a2 + 2 ^ 153 * a3 + 2 ^ 204 * a4 - (2 ^ 255 - 19) * (a4 / 2 ^ 51) := by
  omega

/-- the arithmetic heart of the canonical reduction: `q` is the carry bit of `H + 19`, `c` the dropped carry -/
theorem canon_abs (F H R c q : Int) (key : H + 19 = 2 ^ 255 * q + R) (rb : 0 ≤ R ∧ R < 2 ^ 255)
    (tel : F + 2 ^ 255 * c = H + 19 * q) (Fb : 0 ≤ F ∧ F < 2 ^ 255) (Hb : 0 ≤ H ∧ H < 2 ^ 255 + 2 ^ 250)
    (hq : 0 ≤ q ∧ q ≤ 1) : F = H - (2 ^ 255 - 19) * q ∧ F < 2 ^ 255 - 19 := by
  have hq' : q = 0 ∨ q = 1 := by omega
  rcases hq' with rfl | rfl
  · have hc : c = 0 := by omega
    subst hc; omega
  · have hc : c = 1 := by omega
    subst hc; omega

/-- `F = h - p k` with `0 ≤ F < p` is `h mod p` -/
theorem mod_abs (F h k : Int) (e : F = h - (2 ^ 255 - 19) * k) (b : 0 ≤ F ∧ F < 2 ^ 255 - 19) :
    F = h % (2 ^ 255 - 19) := by
  omega

/-- canonical reduction of weakly reduced limbs -/
theorem canon51 (l0 l1 l2 l3 l4 q0 q1 q2 q3 q t0 t1 t2 t3 t4 f0 f1 f2 f3 f4 : Int)
    (b0 : 0 ≤ l0 ∧ l0 < 2 ^ 51 + 2 ^ 12) (b1 : 0 ≤ l1 ∧ l1 < 2 ^ 51 + 2 ^ 12) (b2 : 0 ≤ l2 ∧ l2 < 2 ^ 51 + 2 ^ 12)
    (b3 : 0 ≤ l3 ∧ l3 < 2 ^ 51 + 2 ^ 12) (b4 : 0 ≤ l4 ∧ l4 < 2 ^ 51 + 2 ^ 12)
    (eq0 : q0 = (l0 + 19) / 2 ^ 51) (eq1 : q1 = (l1 + q0) / 2 ^ 51) (eq2 : q2 = (l2 + q1) / 2 ^ 51)
    (eq3 : q3 = (l3 + q2) / 2 ^ 51) (eq4 : q = (l4 + q3) / 2 ^ 51)
    (et0 : t0 = l0 + 19 * q) (et1 : t1 = l1 + t0 / 2 ^ 51) (et2 : t2 = l2 + t1 / 2 ^ 51)
    (et3 : t3 = l3 + t2 / 2 ^ 51) (et4 : t4 = l4 + t3 / 2 ^ 51)
    (ef0 : f0 = t0 % 2 ^ 51) (ef1 : f1 = t1 % 2 ^ 51) (ef2 : f2 = t2 % 2 ^ 51) (ef3 : f3 = t3 % 2 ^ 51)
    (ef4 : f4 = t4 % 2 ^ 51) :
    (0 ≤ f0 ∧ f0 < 2 ^ 51) ∧ (0 ≤ f1 ∧ f1 < 2 ^ 51) ∧ (0 ≤ f2 ∧ f2 < 2 ^ 51) ∧ (0 ≤ f3 ∧ f3 < 2 ^ 51) ∧
    (0 ≤ f4 ∧ f4 < 2 ^ 51) ∧ (0 ≤ q ∧ q ≤ 1) ∧
    f0 + 2 ^ 51 * f1 + 2 ^ 102 * f2 + 2 ^ 153 * f3 + 2 ^ 204 * f4
      = l0 + 2 ^ 51 * l1 + 2 ^ 102 * l2 + 2 ^ 153 * l3 + 2 ^ 204 * l4 - (2 ^ 255 - 19) * q ∧
    0 ≤ f0 + 2 ^ 51 * f1 + 2 ^ 102 * f2 + 2 ^ 153 * f3 + 2 ^ 204 * f4 ∧
    f0 + 2 ^ 51 * f1 + 2 ^ 102 * f2 + 2 ^ 153 * f3 + 2 ^ 204 * f4 < 2 ^ 255 - 19 := by
  have hq : 0 ≤ q0 ∧ q0 ≤ 1 ∧ 0 ≤ q1 ∧ q1 ≤ 1 ∧ 0 ≤ q2 ∧ q2 ≤ 1 ∧ 0 ≤ q3 ∧ q3 ≤ 1 ∧ 0 ≤ q ∧ q ≤ 1 := by omega
  have key : l0 + 2 ^ 51 * l1 + 2 ^ 102 * l2 + 2 ^ 153 * l3 + 2 ^ 204 * l4 + 19
      = 2 ^ 255 * q + ((l0 + 19) % 2 ^ 51 + 2 ^ 51 * ((l1 + q0) % 2 ^ 51) + 2 ^ 102 * ((l2 + q1) % 2 ^ 51)
          + 2 ^ 153 * ((l3 + q2) % 2 ^ 51) + 2 ^ 204 * ((l4 + q3) % 2 ^ 51)) := by omega
  have rb : 0 ≤ ((l0 + 19) % 2 ^ 51 + 2 ^ 51 * ((l1 + q0) % 2 ^ 51) + 2 ^ 102 * ((l2 + q1) % 2 ^ 51)
          + 2 ^ 153 * ((l3 + q2) % 2 ^ 51) + 2 ^ 204 * ((l4 + q3) % 2 ^ 51)) ∧
      ((l0 + 19) % 2 ^ 51 + 2 ^ 51 * ((l1 + q0) % 2 ^ 51) + 2 ^ 102 * ((l2 + q1) % 2 ^ 51)
          + 2 ^ 153 * ((l3 + q2) % 2 ^ 51) + 2 ^ 204 * ((l4 + q3) % 2 ^ 51)) < 2 ^ 255 := by omega
  have tel : f0 + 2 ^ 51 * f1 + 2 ^ 102 * f2 + 2 ^ 153 * f3 + 2 ^ 204 * f4 + 2 ^ 255 * (t4 / 2 ^ 51)
      = l0 + 2 ^ 51 * l1 + 2 ^ 102 * l2 + 2 ^ 153 * l3 + 2 ^ 204 * l4 + 19 * q := by omega
  have fb : (0 ≤ f0 ∧ f0 < 2 ^ 51) ∧ (0 ≤ f1 ∧ f1 < 2 ^ 51) ∧ (0 ≤ f2 ∧ f2 < 2 ^ 51) ∧ (0 ≤ f3 ∧ f3 < 2 ^ 51) ∧
    (0 ≤ f4 ∧ f4 < 2 ^ 51) := by omega
  have hb : l0 + 2 ^ 51 * l1 + 2 ^ 102 * l2 + 2 ^ 153 * l3 + 2 ^ 204 * l4 < 2 ^ 255 + 2 ^ 250 := by omega
  have Hb : 0 ≤ l0 + 2 ^ 51 * l1 + 2 ^ 102 * l2 + 2 ^ 153 * l3 + 2 ^ 204 * l4 := by omega
  have Fb : 0 ≤ f0 + 2 ^ 51 * f1 + 2 ^ 102 * f2 + 2 ^ 153 * f3 + 2 ^ 204 * f4 ∧
      f0 + 2 ^ 51 * f1 + 2 ^ 102 * f2 + 2 ^ 153 * f3 + 2 ^ 204 * f4 < 2 ^ 255 := by omega
  have fin := canon_abs _ _ _ _ _ key rb tel Fb ⟨Hb, hb⟩ ⟨hq.2.2.2.2.2.2.2.2.1, hq.2.2.2.2.2.2.2.2.2⟩
  exact ⟨fb.1, fb.2.1, fb.2.2.1, fb.2.2.2.1, fb.2.2.2.2, ⟨hq.2.2.2.2.2.2.2.2.1, hq.2.2.2.2.2.2.2.2.2⟩, fin.1, Fb.1, fin.2⟩


/-- packing: the little-endian value of the 32 bytes is the value of the five 51-bit limbs -/
theorem pack51_val (f0 f1 f2 f3 f4 : Int)
    (b0 : 0 ≤ f0 ∧ f0 < 2 ^ 51) (b1 : 0 ≤ f1 ∧ f1 < 2 ^ 51) (b2 : 0 ≤ f2 ∧ f2 < 2 ^ 51) (b3 : 0 ≤ f3 ∧ f3 < 2 ^ 51)
    (b4 : 0 ≤ f4 ∧ f4 < 2 ^ 51) :
    leValZ (pack51 f0 f1 f2 f3 f4) = f0 + 2 ^ 51 * f1 + 2 ^ 102 * f2 + 2 ^ 153 * f3 + 2 ^ 204 * f4 := by
  simp only [pack51, leValZ]
  omega

theorem pack51_bytes (f0 f1 f2 f3 f4 : Int)
    (b0 : 0 ≤ f0 ∧ f0 < 2 ^ 51) (b1 : 0 ≤ f1 ∧ f1 < 2 ^ 51) (b2 : 0 ≤ f2 ∧ f2 < 2 ^ 51) (b3 : 0 ≤ f3 ∧ f3 < 2 ^ 51)
    (b4 : 0 ≤ f4 ∧ f4 < 2 ^ 51) :
    ∀ b ∈ pack51 f0 f1 f2 f3 f4, 0 ≤ b ∧ b ≤ 255 := by
  intro b hb
  simp only [pack51, List.mem_cons, List.not_mem_nil, or_false] at hb
  rcases hb with rfl|rfl|rfl|rfl|rfl|rfl|rfl|rfl|rfl|rfl|rfl|rfl|rfl|rfl|rfl|rfl|rfl|rfl|rfl|rfl|rfl|rfl|rfl|rfl|rfl|rfl|rfl|rfl|rfl|rfl|rfl|rfl <;> omega

/-- **the hand model computes the canonical encoding**: for limbs in `[0, 2^54)` every output is a byte and the
little-endian value of the output is `(Σ a_i 2^(51 i)) mod p` -/
theorem asBytesModel51_val (a0 a1 a2 a3 a4 : Int)
    (b0 : 0 ≤ a0 ∧ a0 < 2 ^ 54) (b1 : 0 ≤ a1 ∧ a1 < 2 ^ 54) (b2 : 0 ≤ a2 ∧ a2 < 2 ^ 54) (b3 : 0 ≤ a3 ∧ a3 < 2 ^ 54)
    (b4 : 0 ≤ a4 ∧ a4 < 2 ^ 54) :
    (∀ b ∈ asBytesModel51 a0 a1 a2 a3 a4, 0 ≤ b ∧ b ≤ 255) ∧
    leValZ (asBytesModel51 a0 a1 a2 a3 a4) = rep51 [a0, a1, a2, a3, a4] % (2 ^ 255 - 19) := by
  unfold asBytesModel51
  extract_lets l0 l1 l2 l3 l4 q0 q1 q2 q3 q t0 t1 t2 t3 t4 f0 f1 f2 f3 f4
  obtain ⟨bl0, bl1, bl2, bl3, bl4, hH⟩ :=
    reduce51_abs a0 a1 a2 a3 a4 l0 l1 l2 l3 l4 b0 b1 b2 b3 b4 rfl rfl rfl rfl rfl
  obtain ⟨bf0, bf1, bf2, bf3, bf4, hq, hF, hF0, hFp⟩ :=
    canon51 l0 l1 l2 l3 l4 q0 q1 q2 q3 q t0 t1 t2 t3 t4 f0 f1 f2 f3 f4 bl0 bl1 bl2 bl3 bl4
      rfl rfl rfl rfl rfl rfl rfl rfl rfl rfl rfl rfl rfl rfl rfl
  refine ⟨pack51_bytes f0 f1 f2 f3 f4 bf0 bf1 bf2 bf3 bf4, ?_⟩
  rw [pack51_val f0 f1 f2 f3 f4 bf0 bf1 bf2 bf3 bf4]
  simp only [rep51, List.getD_cons_zero, List.getD_cons_succ]
  exact mod_abs _ _ (a4 / 2 ^ 51 + q) (by rw [hF, hH]; ring) ⟨hF0, hFp⟩

/-- the same for the generated normal form -/
theorem as_bytes_fn_val (a0 a1 a2 a3 a4 : Int)
    (b0 : 0 ≤ a0 ∧ a0 < 2 ^ 54) (b1 : 0 ≤ a1 ∧ a1 < 2 ^ 54) (b2 : 0 ≤ a2 ∧ a2 < 2 ^ 54) (b3 : 0 ≤ a3 ∧ a3 < 2 ^ 54)
    (b4 : 0 ≤ a4 ∧ a4 < 2 ^ 54) :
    leValZ (as_bytes_fn a0 a1 a2 a3 a4) = rep51 [a0, a1, a2, a3, a4] % (2 ^ 255 - 19) := by
  rw [as_bytes_fn_eq_model]
  exact (asBytesModel51_val a0 a1 a2 a3 a4 b0 b1 b2 b3 b4).2

end Dalek.Proofs.Bytes51

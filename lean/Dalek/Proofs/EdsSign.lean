/-
Structure of the Ed25519 signing functions of the executable specification (`rawSignWith`, `signWith`,
`signPhWith`, `publicKeyWith`) in terms of the group `Ed`, and the completeness argument
("an honestly produced signature verifies") through the bridge:
`[S]B - [k]A = [r + k·a]B - [k][a]B = [r]B`.

SHA-512 is used only through `sha512_length`.
-/
import Dalek.Proofs.EdsVerify

namespace Dalek.Eds

open Dalek.Spec Dalek.Spec.Ed25519 Dalek.Bridge

attribute [local irreducible] decompress

/-! ## Structure of a raw signature -/

/-- The nonce `r = H(dom ‖ prefix ‖ M) mod ℓ`. -/
def nonceOf (dom pre msg : List UInt8) : Nat := hashToScalar (dom ++ pre ++ msg)

/-- The challenge `k = H(dom ‖ R ‖ A ‖ M) mod ℓ`. -/
def challengeOf (dom R vk msg : List UInt8) : Nat := hashToScalar (dom ++ R ++ vk ++ msg)

theorem rawSign_eq (dom : List UInt8) (a : Nat) (pre msg vk : List UInt8) :
    rawSignWith Ops.spec dom a pre msg vk =
      encodeEd (nonceOf dom pre msg • Bpt) ++
        natToLe ((nonceOf dom pre msg +
          challengeOf dom (encodeEd (nonceOf dom pre msg • Bpt)) vk msg * a) % L) 32 := by
  unfold rawSignWith nonceOf challengeOf
  simp only [mulBase_spec]

theorem rawSignWith_congr {ops : Ops} (hc : OpsCorrect ops) (dom : List UInt8) (a : Nat)
    (pre msg vk : List UInt8) :
    rawSignWith ops dom a pre msg vk = rawSignWith Ops.spec dom a pre msg vk := by
  unfold rawSignWith
  simp only [hc.mulBase]

theorem L_lt_256_32 : L < 256 ^ 32 := by norm_num

theorem leToNat_natToLe_mod_L (n : Nat) : leToNat (natToLe (n % L) 32) = n % L := by
  rw [leToNat_natToLe, Nat.mod_eq_of_lt (Nat.lt_trans (Nat.mod_lt _ L_pos) L_lt_256_32)]

theorem rawSign_length (dom : List UInt8) (a : Nat) (pre msg vk : List UInt8) :
    (rawSignWith Ops.spec dom a pre msg vk).length = 64 := by
  rw [rawSign_eq, List.length_append, encodeEd_length, natToLe_length]

theorem rawSign_take (dom : List UInt8) (a : Nat) (pre msg vk : List UInt8) :
    (rawSignWith Ops.spec dom a pre msg vk).take 32 = encodeEd (nonceOf dom pre msg • Bpt) := by
  rw [rawSign_eq, List.take_left' (encodeEd_length _)]

theorem rawSign_drop (dom : List UInt8) (a : Nat) (pre msg vk : List UInt8) :
    (rawSignWith Ops.spec dom a pre msg vk).drop 32 =
      natToLe ((nonceOf dom pre msg +
          challengeOf dom (encodeEd (nonceOf dom pre msg • Bpt)) vk msg * a) % L) 32 := by
  rw [rawSign_eq, List.drop_left' (encodeEd_length _)]

/-- The `S` half of a raw signature is canonical. -/
theorem rawSign_S_canonical (dom : List UInt8) (a : Nat) (pre msg vk : List UInt8) :
    leToNat ((rawSignWith Ops.spec dom a pre msg vk).drop 32) < L := by
  rw [rawSign_drop, leToNat_natToLe_mod_L]; exact Nat.mod_lt _ L_pos

/-! ## Completeness -/

/-- The group computation behind completeness: `[(r + k·a) mod ℓ]B - [k]([a]B) = [r]B`. -/
theorem honest_equation (r k a : Nat) :
    ((r + k * a) % L) • Bpt - k • (a • Bpt) = r • Bpt := by
  rw [mod_L_nsmul_Bpt, add_nsmul, mul_comm k a, mul_nsmul, add_sub_cancel_right]

/-- **Completeness of the core**: a raw signature made with secret scalar `a`, any prefix and domain
separation string, for the public key bytes `compress([a]B)`, passes the (non-strict) verification core in
both `check_scalar` modes. -/
theorem rawSign_verifies (legacy : Bool) (dom : List UInt8) (a : Nat) (pre msg : List UInt8) :
    verifyCoreWith Ops.spec legacy false dom (Ops.spec.mulBase a) msg
      (rawSignWith Ops.spec dom a pre msg (Ops.spec.mulBase a)) = true := by
  rw [verifyCore_iff]
  refine ⟨a • Bpt, leToNat ((rawSignWith Ops.spec dom a pre msg (Ops.spec.mulBase a)).drop 32),
    ?_, ?_, (fun h => absurd h Bool.false_ne_true), ?_⟩
  · rw [mulBase_spec, decodeEd_encodeEd]
  · exact checkScalar_iff.2 ⟨by
      cases legacy
      · exact (scalarOk_false _).2 (rawSign_S_canonical _ _ _ _ _)
      · exact scalarOk_legacy_of_canonical (rawSign_S_canonical _ _ _ _ _), rfl⟩
  · rw [rawSign_take, rawSign_drop, leToNat_natToLe_mod_L]
    exact congrArg encodeEd (honest_equation _ _ _)

/-- **Completeness of the strict core**, under the two side conditions that make `R = [r]B` and
`A = [a]B` points of order `ℓ` (not of small order). -/
theorem rawSign_verifies_strict (legacy : Bool) (dom : List UInt8) (a : Nat) (pre msg : List UInt8)
    (ha : a % L ≠ 0) (hr : nonceOf dom pre msg % L ≠ 0) :
    verifyCoreWith Ops.spec legacy true dom (Ops.spec.mulBase a) msg
      (rawSignWith Ops.spec dom a pre msg (Ops.spec.mulBase a)) = true := by
  rw [verifyCore_iff]
  refine ⟨a • Bpt, leToNat ((rawSignWith Ops.spec dom a pre msg (Ops.spec.mulBase a)).drop 32),
    ?_, ?_, (fun _ => ⟨nonceOf dom pre msg • Bpt, ?_, ?_, ?_⟩), ?_⟩
  · rw [mulBase_spec, decodeEd_encodeEd]
  · exact checkScalar_iff.2 ⟨by
      cases legacy
      · exact (scalarOk_false _).2 (rawSign_S_canonical _ _ _ _ _)
      · exact scalarOk_legacy_of_canonical (rawSign_S_canonical _ _ _ _ _), rfl⟩
  · rw [rawSign_take, decodeEd_encodeEd]
  · exact eight_nsmul_Bpt_ne_zero hr
  · exact eight_nsmul_Bpt_ne_zero ha
  · rw [rawSign_take, rawSign_drop, leToNat_natToLe_mod_L]
    exact congrArg encodeEd (honest_equation _ _ _)

/-! ## Clamping -/

theorem byte_and_f8_eq : ∀ n, n < 256 → n &&& 248 = n - n % 8 := by decide +kernel
theorem byte_clamp_hi_eq : ∀ n, n < 256 → (n &&& 127) ||| 64 = n % 64 + 64 := by decide +kernel

/-- **Exact value of the clamped integer** (RFC 8032 §5.1.5 step 2 / RFC 7748 `decodeScalar25519`): clear
the three low bits, clear bit 255, set bit 254. -/
theorem clampedNat_eq {b : List UInt8} (hlen : b.length = 32) :
    clampedNat b = 2 ^ 254 + leToNat b % 2 ^ 254 - leToNat b % 8 := by
  unfold clampedNat clampInteger
  have h1 := leToNat_modifyNth (fun x => x &&& 0xf8) 0 b (by omega)
  have h2 := leToNat_modifyNth (fun x => (x &&& 0x7f) ||| 0x40) 31
    (modifyNth (fun x => x &&& 0xf8) 0 b) (by simp; omega)
  rw [modifyNth_getD_ne _ 0 31 _ _ (by decide)] at h2
  have g0 := getD_toNat b 0 (by omega)
  have g31 := getD_toNat b 31 (by omega)
  have hlt := leToNat_lt b
  rw [hlen] at hlt
  simp only [UInt8.toNat_and, UInt8.toNat_or] at h1 h2
  have c0 := byte_and_f8_eq _ (UInt8.toNat_lt (b.getD 0 0))
  have c31 := byte_clamp_hi_eq _ (UInt8.toNat_lt (b.getD 31 0))
  have k1 : (0xf8 : UInt8).toNat = 248 := rfl
  have k2 : (0x7f : UInt8).toNat = 127 := rfl
  have k3 : (0x40 : UInt8).toNat = 64 := rfl
  rw [k1] at h1
  rw [k2, k3] at h2
  rw [c0] at h1
  rw [c31] at h2
  simp only [Nat.pow_zero, Nat.div_one, Nat.one_mul] at g0 h1
  rw [g0] at h1
  rw [g31] at h2
  generalize leToNat b = x at *
  generalize leToNat (modifyNth (fun x => x &&& 0xf8) 0 b) = y at *
  generalize leToNat (modifyNth (fun x => (x &&& 0x7f) ||| 0x40) 31 (modifyNth (fun x => x &&& 0xf8) 0 b)) = z at *
  have e31 : (256:Nat)^31 = 2^248 := by norm_num
  rw [e31] at h2
  omega
/-! ## Key expansion -/

theorem expandSeed_fst (seed : List UInt8) : (expandSeed seed).1 = clampedNat ((sha512 seed).take 32) := rfl
theorem expandSeed_snd (seed : List UInt8) : (expandSeed seed).2 = (sha512 seed).drop 32 := rfl

/-- The secret scalar is a clamped integer: a multiple of 8 in `[2^254, 2^255)`. -/
theorem expandSeed_clamped (seed : List UInt8) :
    (expandSeed seed).1 % 8 = 0 ∧ 2 ^ 254 ≤ (expandSeed seed).1 ∧ (expandSeed seed).1 < 2 ^ 255 :=
  clampedNat_spec (by rw [List.length_take, sha512_length]; rfl)

/-- `clamped_nonzero_mod_l`: the secret scalar is not a multiple of `ℓ`, so the public key `[a]B` has
order exactly `ℓ`. -/
theorem expandSeed_mod_L_ne_zero (seed : List UInt8) : (expandSeed seed).1 % L ≠ 0 := by
  obtain ⟨h1, h2, h3⟩ := expandSeed_clamped seed
  exact clamped_mod_L_ne_zero h1 h2 h3

theorem publicKeyWith_congr {ops : Ops} (hc : OpsCorrect ops) (seed : List UInt8) :
    publicKeyWith ops seed = publicKey seed := hc.mulBase _

theorem publicKey_eq (seed : List UInt8) : publicKey seed = encodeEd ((expandSeed seed).1 • Bpt) :=
  mulBase_spec _

theorem signWith_eq (ops : Ops) (seed msg : List UInt8) :
    signWith ops seed msg =
      rawSignWith ops [] (expandSeed seed).1 (expandSeed seed).2 msg (ops.mulBase (expandSeed seed).1) := rfl

theorem signWith_congr {ops : Ops} (hc : OpsCorrect ops) (seed msg : List UInt8) :
    signWith ops seed msg = sign seed msg := by
  show signWith ops seed msg = signWith Ops.spec seed msg
  rw [signWith_eq, signWith_eq, hc.mulBase, rawSignWith_congr hc]

theorem signPhWith_eq (ops : Ops) (seed msg : List UInt8) (ctx : Option (List UInt8)) :
    signPhWith ops seed msg ctx =
      if (ctx.getD []).length > 255 then none
      else some (rawSignWith ops (dom2 1 (ctx.getD [])) (expandSeed seed).1 (expandSeed seed).2 (sha512 msg)
        (ops.mulBase (expandSeed seed).1)) := rfl

theorem signPhWith_congr {ops : Ops} (hc : OpsCorrect ops) (seed msg : List UInt8)
    (ctx : Option (List UInt8)) : signPhWith ops seed msg ctx = signPh seed msg ctx := by
  show signPhWith ops seed msg ctx = signPhWith Ops.spec seed msg ctx
  rw [signPhWith_eq, signPhWith_eq, hc.mulBase, rawSignWith_congr hc]

/-! ## `from_keypair_bytes` -/

/-- Model of `SigningKey::from_keypair_bytes` (signing.rs:136-146) on 64 bytes `sk ‖ pk`: the expression
evaluated by the model driver's op `eds.from_keypair` (`Dalek/Driver/Ops.lean`), which the correspondence
run compares with the Rust function: `VerifyingKey::try_from(pk)` must succeed, and the bytes of the
derived key must equal `pk`.  Returns the accepted public key bytes. -/
def fromKeypairWith (ops : Ops) (b : List UInt8) : Option (List UInt8) :=
  if (decompress (b.drop 32)).isNone then none
  else if publicKeyWith ops (b.take 32) == b.drop 32 then some (b.drop 32) else none

theorem fromKeypairWith_congr {ops : Ops} (hc : OpsCorrect ops) (b : List UInt8) :
    fromKeypairWith ops b = fromKeypairWith Ops.spec b := by
  unfold fromKeypairWith
  rw [publicKeyWith_congr hc]

theorem fromKeypair_iff (b vk : List UInt8) :
    fromKeypairWith Ops.spec b = some vk ↔ vk = b.drop 32 ∧ b.drop 32 = publicKey (b.take 32) := by
  unfold fromKeypairWith
  by_cases h : publicKey (b.take 32) = b.drop 32
  · have hd : decompress (b.drop 32) = some (ofEd ((expandSeed (b.take 32)).1 • Bpt)) := by
      rw [← h, publicKey_eq, decompress_encodeEd]
    have hb : (publicKeyWith Ops.spec (b.take 32) == b.drop 32) = true := beq_iff_eq.2 h
    rw [hd, hb]
    simp only [Option.isNone_some, Bool.false_eq_true, if_false, if_true, Option.some.injEq]
    exact ⟨fun e => ⟨e.symm, h.symm⟩, fun e => e.1.symm⟩
  · have hb : (publicKeyWith Ops.spec (b.take 32) == b.drop 32) = false := by
      cases hh : (publicKeyWith Ops.spec (b.take 32) == b.drop 32)
      · rfl
      · exact absurd (beq_iff_eq.1 hh) h
    rw [hb]
    simp only [Bool.false_eq_true, if_false, ite_self]
    exact ⟨fun e => (by cases e), fun e => absurd e.2.symm h⟩

end Dalek.Eds

/-
Helpers for property C16 about `Dalek.Model.Serde`: the native validity rule `validate` per type
(reduced to the decode specifications through the bridge library), the bincode codec, and the JSON codec
at the level of byte lists (on top of `SerdeJson` / `SerdeJsonArray`).
-/
import Dalek.Proofs.SerdeJsonArray
import Dalek.Proofs.SerdeRistretto
import Dalek.Proofs.SpecBridge
import Mathlib.Tactic.NormNum

namespace Dalek.Proofs.Serde
open Dalek.Spec Dalek.Model.Serde Dalek.Bridge

/-! ## The native validity rule -/

/-- Types whose native decoder accepts every byte string of the right length
(`CompressedEdwardsY`, `CompressedRistretto`, `MontgomeryPoint`, `SigningKey` (seed),
`ed25519::Signature`, `x25519::PublicKey`, `x25519::StaticSecret`). -/
def Plain : Ty → Bool
  | .cedwards | .cristretto | .montgomery | .sk | .sig | .xpub | .xstatic => true
  | _ => false

/-- `v` is the canonical native byte string of a valid value of type `ty`: the native decoder accepts it
and re-encoding gives it back. -/
def Valid (ty : Ty) (v : List UInt8) : Prop := validate ty v = some v

theorem validate_length {ty : Ty} {b v : List UInt8} (h : validate ty b = some v) :
    b.length = ty.len := by
  unfold validate at h
  by_cases hl : (b.length != ty.len) = true
  · rw [if_pos hl] at h; cases h
  · simpa using hl

/-- the per-type part of `validate` -/
def rule : Ty → List UInt8 → Option (List UInt8)
  | .scalar, b => if isCanonicalScalar b then some b else none
  | .edwards, b => (decompress b).map compress
  | .ristretto, b => (Ristretto.decode b).map Ristretto.encode
  | .vk, b => (decompress b).map fun _ => b
  | _, b => some b

theorem validate_eq (ty : Ty) (b : List UInt8) :
    validate ty b = if b.length != ty.len then none else rule ty b := by
  unfold validate
  cases ty <;> rfl

theorem validate_of_length {ty : Ty} {b : List UInt8} (hl : b.length = ty.len) :
    validate ty b = rule ty b := by
  rw [validate_eq]
  have : (b.length != ty.len) = false := by simp [hl]
  rw [this]; rfl

theorem validate_bad_length {ty : Ty} {b : List UInt8} (hl : b.length ≠ ty.len) :
    validate ty b = none := by
  rw [validate_eq]
  have : (b.length != ty.len) = true := by simp [hl]
  rw [this]; rfl

theorem validate_scalar {b v : List UInt8} :
    validate .scalar b = some v ↔ isCanonicalScalar b = true ∧ v = b := by
  constructor
  · intro h
    have hl := validate_length h
    rw [validate_of_length hl] at h
    simp only [rule] at h
    by_cases hc : isCanonicalScalar b = true
    · rw [if_pos hc] at h; exact ⟨hc, (Option.some.inj h).symm⟩
    · rw [if_neg hc] at h; cases h
  · rintro ⟨hc, rfl⟩
    have hl : v.length = Ty.scalar.len := ((isCanonicalScalar_iff v).1 hc).1
    rw [validate_of_length hl]
    simp [rule, hc]

theorem validate_edwards {b v : List UInt8} :
    validate .edwards b = some v ↔ b.length = 32 ∧ ∃ p, decompress b = some p ∧ v = compress p := by
  constructor
  · intro h
    have hl := validate_length h
    rw [validate_of_length hl] at h
    simp only [rule, Option.map_eq_some_iff] at h
    obtain ⟨p, hp, rfl⟩ := h
    exact ⟨hl, p, hp, rfl⟩
  · rintro ⟨hl, p, hp, rfl⟩
    rw [validate_of_length (ty := .edwards) hl]
    simp [rule, hp]

theorem validate_vk {b v : List UInt8} :
    validate .vk b = some v ↔ b.length = 32 ∧ (decompress b).isSome = true ∧ v = b := by
  constructor
  · intro h
    have hl := validate_length h
    rw [validate_of_length hl] at h
    simp only [rule, Option.map_eq_some_iff] at h
    obtain ⟨p, hp, rfl⟩ := h
    exact ⟨hl, by simp [hp], rfl⟩
  · rintro ⟨hl, hp, rfl⟩
    rw [validate_of_length (ty := .vk) hl]
    obtain ⟨p, hp⟩ := Option.isSome_iff_exists.1 hp
    simp [rule, hp]

theorem decode_length {b : List UInt8} {p : Pt} (h : Ristretto.decode b = some p) : b.length = 32 := by
  unfold Ristretto.decode at h
  by_cases hl : b.length = 32
  · exact hl
  · have : (b.length != 32) = true := by simpa using hl
    simp [this] at h

theorem validate_ristretto {b v : List UInt8} :
    validate .ristretto b = some v ↔ ∃ p, Ristretto.decode b = some p ∧ v = Ristretto.encode p := by
  constructor
  · intro h
    have hl := validate_length h
    rw [validate_of_length hl] at h
    simp only [rule, Option.map_eq_some_iff] at h
    obtain ⟨p, hp, rfl⟩ := h
    exact ⟨p, hp, rfl⟩
  · rintro ⟨p, hp, rfl⟩
    rw [validate_of_length (ty := .ristretto) (decode_length hp)]
    simp [rule, hp]

theorem validate_plain {ty : Ty} (hty : Plain ty = true) {b v : List UInt8} :
    validate ty b = some v ↔ b.length = ty.len ∧ v = b := by
  constructor
  · intro h
    have hl := validate_length h
    rw [validate_of_length hl] at h
    cases ty <;> simp [Plain] at hty <;> exact ⟨hl, (Option.some.inj h).symm⟩
  · rintro ⟨hl, rfl⟩
    rw [validate_of_length hl]
    cases ty <;> simp [Plain] at hty <;> rfl

/-- With the RFC 9496 round trip (`ristretto_encode_decode`): the Ristretto rule returns its input. -/
theorem validate_ristretto_eq {b v : List UInt8} :
    validate .ristretto b = some v ↔ (Ristretto.decode b).isSome = true ∧ v = b := by
  rw [validate_ristretto]
  constructor
  · rintro ⟨p, hp, rfl⟩
    exact ⟨by simp [hp], ristretto_encode_decode hp⟩
  · rintro ⟨hp, rfl⟩
    obtain ⟨p, hp⟩ := Option.isSome_iff_exists.1 hp
    exact ⟨p, hp, (ristretto_encode_decode hp).symm⟩

/-! ### `Valid` per type -/

theorem valid_scalar {v : List UInt8} : Valid .scalar v ↔ isCanonicalScalar v = true := by
  unfold Valid; rw [validate_scalar]; simp

/-- the valid `EdwardsPoint` values are the encodings `compress p` of the canonical curve points -/
theorem valid_edwards {v : List UInt8} :
    Valid .edwards v ↔ ∃ p, onCurve p = true ∧ Canon p ∧ v = compress p := by
  unfold Valid; rw [validate_edwards]
  constructor
  · rintro ⟨-, p, hp, hv⟩
    obtain ⟨h1, h2, -⟩ := decompress_some hp
    exact ⟨p, h1, h2, hv⟩
  · rintro ⟨p, h1, h2, rfl⟩
    exact ⟨compress_length p, p, decompress_compress h1 h2, rfl⟩

/-- `VerifyingKey::from_bytes`: 32 bytes that decompress (the key keeps the bytes as given) -/
theorem valid_vk {v : List UInt8} : Valid .vk v ↔ v.length = 32 ∧ (decompress v).isSome = true := by
  unfold Valid; rw [validate_vk]; simp

/-- the valid `RistrettoPoint` byte strings are those RFC 9496 DECODE accepts -/
theorem valid_ristretto {v : List UInt8} :
    Valid .ristretto v ↔ (Ristretto.decode v).isSome = true := by
  unfold Valid; rw [validate_ristretto_eq]; simp

theorem valid_plain {ty : Ty} (hty : Plain ty = true) {v : List UInt8} :
    Valid ty v ↔ v.length = ty.len := by
  unfold Valid; rw [validate_plain hty]; simp

theorem Valid.length {ty : Ty} {v : List UInt8} (h : Valid ty v) : v.length = ty.len :=
  validate_length h

/-- The result of the native rule is a valid value. -/
theorem validate_valid {ty : Ty} {b v : List UInt8}
    (h : validate ty b = some v) : Valid ty v := by
  cases ty with
  | ristretto => obtain ⟨hp, rfl⟩ := validate_ristretto_eq.1 h; exact valid_ristretto.2 hp
  | scalar => obtain ⟨hc, rfl⟩ := validate_scalar.1 h; exact valid_scalar.2 hc
  | edwards =>
    obtain ⟨-, p, hp, rfl⟩ := validate_edwards.1 h
    obtain ⟨h1, h2, -⟩ := decompress_some hp
    exact valid_edwards.2 ⟨p, h1, h2, rfl⟩
  | vk => obtain ⟨hl, hp, rfl⟩ := validate_vk.1 h; exact valid_vk.2 ⟨hl, hp⟩
  | cedwards => obtain ⟨hl, rfl⟩ := (validate_plain (ty := .cedwards) rfl).1 h; exact (valid_plain (ty := .cedwards) rfl).2 hl
  | cristretto => obtain ⟨hl, rfl⟩ := (validate_plain (ty := .cristretto) rfl).1 h; exact (valid_plain (ty := .cristretto) rfl).2 hl
  | montgomery => obtain ⟨hl, rfl⟩ := (validate_plain (ty := .montgomery) rfl).1 h; exact (valid_plain (ty := .montgomery) rfl).2 hl
  | sk => obtain ⟨hl, rfl⟩ := (validate_plain (ty := .sk) rfl).1 h; exact (valid_plain (ty := .sk) rfl).2 hl
  | sig => obtain ⟨hl, rfl⟩ := (validate_plain (ty := .sig) rfl).1 h; exact (valid_plain (ty := .sig) rfl).2 hl
  | xpub => obtain ⟨hl, rfl⟩ := (validate_plain (ty := .xpub) rfl).1 h; exact (valid_plain (ty := .xpub) rfl).2 hl
  | xstatic => obtain ⟨hl, rfl⟩ := (validate_plain (ty := .xstatic) rfl).1 h; exact (valid_plain (ty := .xstatic) rfl).2 hl

/-- For every type except `edwards` (whose decoder also accepts non-canonical encodings and whose value is
re-encoded) the native rule returns its input unchanged. -/
theorem validate_eq_input {ty : Ty} (h1 : ty ≠ .edwards) {b v : List UInt8}
    (h : validate ty b = some v) : v = b := by
  cases ty with
  | ristretto => exact (validate_ristretto_eq.1 h).2
  | edwards => exact absurd rfl h1
  | scalar => exact (validate_scalar.1 h).2
  | vk => exact (validate_vk.1 h).2.2
  | cedwards => exact ((validate_plain (ty := .cedwards) rfl).1 h).2
  | cristretto => exact ((validate_plain (ty := .cristretto) rfl).1 h).2
  | montgomery => exact ((validate_plain (ty := .montgomery) rfl).1 h).2
  | sk => exact ((validate_plain (ty := .sk) rfl).1 h).2
  | sig => exact ((validate_plain (ty := .sig) rfl).1 h).2
  | xpub => exact ((validate_plain (ty := .xpub) rfl).1 h).2
  | xstatic => exact ((validate_plain (ty := .xstatic) rfl).1 h).2

/-- A 32-byte string is a CANONICAL Edwards encoding: the 255-bit `y` is reduced and it is not the
"negative zero" (`x = 0` with bit 255 set).  `decompress` (dalek, like RFC 8032 libraries in the
non-strict mode) also accepts the non-canonical ones. -/
def CanonicalEdwardsEncoding (b : List UInt8) : Prop :=
  leToNat b % 2 ^ 255 < P ∧ ∀ p, decompress b = some p → ¬ (p.x = 0 ∧ signBit b = true)

/-- On canonical encodings the Edwards rule returns its input unchanged. -/
theorem validate_edwards_canonical {b v : List UInt8} (h : validate .edwards b = some v)
    (hc : CanonicalEdwardsEncoding b) : v = b := by
  obtain ⟨hl, p, hp, rfl⟩ := validate_edwards.1 h
  exact compress_decompress hl hc.1 hp (hc.2 p hp)

/-- The valid `EdwardsPoint` byte strings are canonical encodings. -/
theorem Valid.canonicalEdwards {v : List UInt8} (h : Valid .edwards v) : CanonicalEdwardsEncoding v := by
  obtain ⟨p, h1, h2, rfl⟩ := valid_edwards.1 h
  constructor
  · unfold compress
    rw [leToNat_setSignBit (feToBytes_length _) (leToNat_feToBytes_lt_255 _), leToNat_feToBytes]
    have := Nat.mod_lt p.y P_pos
    have hP := P_lt_255
    cases isNeg p.x
    · simp only [Bool.false_eq_true, if_false, Nat.add_zero]
      rw [Nat.mod_eq_of_lt (by omega)]; exact this
    · simp only [if_true, Nat.add_mod_right]
      rw [Nat.mod_eq_of_lt (by omega)]; exact this
  · intro q hq
    rw [decompress_compress h1 h2] at hq
    cases hq
    rintro ⟨hx, hs⟩
    rw [signBit_compress, hx, isNeg_zero] at hs
    cases hs

/-! ## bincode -/

theorem bincodeSer_plain {ty : Ty} (hty : ty.bytesStyle = false) (v : List UInt8) :
    bincodeSer ty v = v := by
  unfold bincodeSer; simp [hty]

theorem bincodeSer_bytes {ty : Ty} (hty : ty.bytesStyle = true) (v : List UInt8) :
    bincodeSer ty v = natToLe v.length 8 ++ v := by
  unfold bincodeSer; simp [hty]

theorem bytesStyle_len {ty : Ty} (hty : ty.bytesStyle = true) : ty.len = 32 := by
  cases ty <;> simp [Ty.bytesStyle] at hty <;> rfl

theorem bincodeDe_plain_eq {ty : Ty} (hty : ty.bytesStyle = false) (x : List UInt8) :
    bincodeDe ty x =
      if x.length < ty.len then .err else ofOption (validate ty (x.take ty.len)) := by
  unfold bincodeDe; rw [hty]; rfl

theorem bincodeDe_bytes_eq {ty : Ty} (hty : ty.bytesStyle = true) (x : List UInt8) :
    bincodeDe ty x =
      if x.length < 8 then .err
      else if (x.drop 8).length < leToNat (x.take 8) then .err
      else ofOption (validate ty ((x.drop 8).take (leToNat (x.take 8)))) := by
  unfold bincodeDe; rw [hty]; rfl

/-- **Evaluation of `bincodeDe`** on the serialisation of `b` (of the right length) followed by
arbitrary trailing bytes. -/
theorem bincodeDe_ser_append (ty : Ty) {b : List UInt8} (hl : b.length = ty.len) (t : List UInt8) :
    bincodeDe ty (bincodeSer ty b ++ t) = ofOption (validate ty b) := by
  cases hty : ty.bytesStyle
  · rw [bincodeSer_plain hty, bincodeDe_plain_eq hty]
    have h1 : ¬ (b ++ t).length < ty.len := by simp [hl]
    rw [if_neg h1, ← hl, List.take_left]
  · have hl' : b.length = 32 := by rw [hl, bytesStyle_len hty]
    rw [bincodeSer_bytes hty, bincodeDe_bytes_eq hty, hl', List.append_assoc]
    have h8 : (natToLe 32 8).length = 8 := natToLe_length _ _
    have h1 : ¬ (natToLe 32 8 ++ (b ++ t)).length < 8 := by rw [List.length_append, h8]; omega
    have h2 : List.take 8 (natToLe 32 8 ++ (b ++ t)) = natToLe 32 8 := List.take_left' h8
    have h3 : List.drop 8 (natToLe 32 8 ++ (b ++ t)) = b ++ t := List.drop_left' h8
    have h4 : leToNat (natToLe 32 8) = 32 := by rw [leToNat_natToLe]; norm_num
    rw [if_neg h1, h2, h3, h4]
    have h5 : ¬ (b ++ t).length < 32 := by simp [hl']
    rw [if_neg h5, ← hl', List.take_left]

theorem ofOption_eq_ok {o : Option (List UInt8)} {v : List UInt8} :
    ofOption o = .ok v ↔ o = some v := by
  cases o <;> simp [ofOption]

theorem ofOption_ne_skip (o : Option (List UInt8)) : ofOption o ≠ .skip := by
  cases o <;> simp [ofOption]

/-- **Inversion of `bincodeDe`**: the accepted inputs are exactly the serialisations of byte strings that
pass the native rule, followed by arbitrary bytes. -/
theorem bincodeDe_ok_iff {ty : Ty} {x v : List UInt8} :
    bincodeDe ty x = .ok v ↔ ∃ b t, x = bincodeSer ty b ++ t ∧ validate ty b = some v := by
  constructor
  · intro h
    cases hty : ty.bytesStyle
    · rw [bincodeDe_plain_eq hty] at h
      by_cases h1 : x.length < ty.len
      · rw [if_pos h1] at h; cases h
      · rw [if_neg h1] at h
        refine ⟨x.take ty.len, x.drop ty.len, ?_, ofOption_eq_ok.1 h⟩
        rw [bincodeSer_plain hty, List.take_append_drop]
    · rw [bincodeDe_bytes_eq hty] at h
      by_cases h1 : x.length < 8
      · rw [if_pos h1] at h; cases h
      · rw [if_neg h1] at h
        by_cases h2 : (x.drop 8).length < leToNat (x.take 8)
        · rw [if_pos h2] at h; cases h
        · rw [if_neg h2] at h
          have hv := ofOption_eq_ok.1 h
          have hl := validate_length hv
          rw [bytesStyle_len hty] at hl
          have hn : leToNat (x.take 8) = 32 := by
            rw [List.length_take] at hl; omega
          rw [hn] at hv
          refine ⟨(x.drop 8).take 32, (x.drop 8).drop 32, ?_, hv⟩
          have hl8 : (x.take 8).length = 8 := by rw [List.length_take]; omega
          have h8 : x.take 8 = natToLe 32 8 := by
            rw [← natToLe_leToNat (x.take 8), hn, hl8]
          rw [bincodeSer_bytes hty, List.length_take, List.append_assoc, List.take_append_drop]
          have : min 32 (x.drop 8).length = 32 := by omega
          rw [this, ← h8, List.take_append_drop]
  · rintro ⟨b, t, rfl, hv⟩
    rw [bincodeDe_ser_append ty (validate_length hv), hv]; rfl

theorem bincodeDe_ne_skip (ty : Ty) (x : List UInt8) : bincodeDe ty x ≠ .skip := by
  cases hty : ty.bytesStyle
  · rw [bincodeDe_plain_eq hty]
    split
    · simp
    · exact ofOption_ne_skip _
  · rw [bincodeDe_bytes_eq hty]
    split
    · simp
    · split
      · simp
      · exact ofOption_ne_skip _

/-- Short input is rejected (tuple types: fewer than `len` bytes). -/
theorem bincodeDe_short_plain {ty : Ty} (hty : ty.bytesStyle = false) {x : List UInt8}
    (h : x.length < ty.len) : bincodeDe ty x = .err := by
  rw [bincodeDe_plain_eq hty, if_pos h]

/-- Short input is rejected (`serialize_bytes` types: fewer than `8 + 32` bytes). -/
theorem bincodeDe_short_bytes {ty : Ty} (hty : ty.bytesStyle = true) {x : List UInt8}
    (h : x.length < 40) : bincodeDe ty x = .err := by
  cases hd : bincodeDe ty x with
  | err => rfl
  | skip => exact absurd hd (bincodeDe_ne_skip ty x)
  | ok v =>
    exfalso
    obtain ⟨b, t, rfl, hv⟩ := bincodeDe_ok_iff.1 hd
    have hl := validate_length hv
    rw [bytesStyle_len hty] at hl
    rw [bincodeSer_bytes hty] at h
    simp [hl] at h
    omega

/-! ## JSON at the level of byte lists -/

/-- `x` is a JSON array of the bytes `b` in canonical decimal notation, with optional whitespace
wherever JSON allows it: `ws [ ws n₀ (ws , ws nᵢ)* ws ] ws`. -/
def IsJsonArrayOf (b x : List UInt8) : Prop :=
  ∃ b0 bs w0 w1 pads w2 w3, b = b0 :: bs ∧ AllWs w0 ∧ AllWs w1 ∧ AllWs w2 ∧ AllWs w3 ∧ PadsWs pads ∧
    pads.length = bs.length ∧
    x = arrayText w0 w1 (natToDec b0.toNat) pads (bs.map fun c => natToDec c.toNat) w2 w3

theorem intercalate_eq_restText (x : List UInt8) (xs : List (List UInt8)) :
    intercalateBytes 0x2c (x :: xs) = x ++ restText (xs.map fun _ => ([], [])) xs := by
  induction xs generalizing x with
  | nil => simp [intercalateBytes, restText]
  | cons y ys ih =>
    rw [intercalateBytes, ih y]
    · simp [restText]
    · intro h; cases h

theorem jsonSer_cons (ty : Ty) (b0 : UInt8) (bs : List UInt8) :
    jsonSer ty (b0 :: bs) =
      arrayText [] [] (natToDec b0.toNat) (bs.map fun _ => ([], []))
        (bs.map fun c => natToDec c.toNat) [] [] := by
  unfold jsonSer arrayText
  rw [List.map_cons, intercalate_eq_restText, List.map_map]
  simp only [List.nil_append, List.cons_append, List.append_assoc]
  rfl

theorem jsonSer_nil (ty : Ty) : jsonSer ty [] = [0x5b, 0x5d] := by
  simp [jsonSer, intercalateBytes]

theorem jsonSer_isJsonArrayOf (ty : Ty) {b : List UInt8} (hb : b ≠ []) :
    IsJsonArrayOf b (jsonSer ty b) := by
  obtain ⟨b0, bs, rfl⟩ := List.exists_cons_of_ne_nil hb
  refine ⟨b0, bs, [], [], bs.map fun _ => ([], []), [], [], rfl, allWs_nil, allWs_nil, allWs_nil,
    allWs_nil, ?_, by simp, ?_⟩
  · intro p hp
    simp only [List.mem_map] at hp
    obtain ⟨_, -, rfl⟩ := hp
    exact ⟨allWs_nil, allWs_nil⟩
  · rw [jsonSer_cons]

/-- **Evaluation of `jsonDe` on JSON arrays of bytes**: exactly `ty.len` elements are required, then the
native rule decides. -/
theorem jsonDe_of_isJsonArrayOf (ty : Ty) {b x : List UInt8} (h : IsJsonArrayOf b x) :
    jsonDe ty x = if b.length = ty.len then ofOption (validate ty b) else .err := by
  obtain ⟨b0, bs, w0, w1, pads, w2, w3, rfl, h0, h1, h2, h3, hp, hlen, rfl⟩ := h
  rw [jsonDe_arrayText ty h0 h1 h2 h3 hp (by simpa using hlen) (isDigits_natToDec (UInt8.toNat_lt b0))]
  · have hmap : ((natToDec b0.toNat) :: bs.map fun c => natToDec c.toNat).map tokByte = b0 :: bs := by
      rw [List.map_cons, tokByte_natToDec, List.map_map]
      congr 1
      conv => rhs; rw [← List.map_id bs]
      apply List.map_congr_left
      intro c _
      exact tokByte_natToDec c
    have hall : ∀ t ∈ natToDec b0.toNat :: bs.map fun c => natToDec c.toNat, TokOK t := by
      intro t ht
      rcases List.mem_cons.1 ht with rfl | ht
      · exact tokOK_natToDec (UInt8.toNat_lt b0)
      · simp only [List.mem_map] at ht
        obtain ⟨c, -, rfl⟩ := ht
        exact tokOK_natToDec (UInt8.toNat_lt c)
    rw [hmap]
    simp only [List.length_map, List.length_cons]
    by_cases hl : bs.length + 1 = ty.len
    · rw [if_pos ⟨hl, hall⟩, if_pos hl]
    · rw [if_neg (fun h => hl h.1), if_neg hl]
  · intro t ht
    simp only [List.mem_map] at ht
    obtain ⟨c, -, rfl⟩ := ht
    exact isDigits_natToDec (UInt8.toNat_lt c)

/-- `jsonDe` on the compact serialisation of ANY byte list. -/
theorem jsonDe_ser (ty : Ty) (b : List UInt8) :
    jsonDe ty (jsonSer ty b) = if b.length = ty.len then ofOption (validate ty b) else .err := by
  by_cases hb : b = []
  · subst hb
    obtain ⟨n, hn⟩ := ty_len_pos ty
    have : ¬ ([] : List UInt8).length = ty.len := by rw [hn]; simp
    rw [if_neg this, jsonSer_nil]
    exact jsonDe_empty_array ty (w0 := []) (w1 := []) allWs_nil allWs_nil []
  · exact jsonDe_of_isJsonArrayOf ty (jsonSer_isJsonArrayOf ty hb)

/-- **The language accepted by `jsonDe`.** -/
theorem jsonDe_ok_iff {ty : Ty} {x v : List UInt8} :
    jsonDe ty x = .ok v ↔
      (∃ b, IsJsonArrayOf b x ∧ validate ty b = some v) ∨
      (ty.bytesStyle = true ∧ ∃ b, IsJsonStringOf b x ∧ validate ty b = some v) := by
  constructor
  · intro h
    rcases jsonDe_ok_inv h with ⟨w0, w1, t0, pads, toks, w2, w3, h0, h1, h2, h3, hp, hlen, -, htoks, rfl, hv⟩ | h
    · left
      refine ⟨(t0 :: toks).map tokByte, ⟨tokByte t0, toks.map tokByte, w0, w1, pads, w2, w3, rfl, h0, h1,
        h2, h3, hp, by simpa using hlen, ?_⟩, hv⟩
      have e0 : natToDec (tokByte t0).toNat = t0 :=
        natToDec_tokByte (htoks t0 (by simp)).1 (htoks t0 (by simp)).2
      have e1 : (toks.map tokByte).map (fun c => natToDec c.toNat) = toks := by
        rw [List.map_map]
        conv => rhs; rw [← List.map_id toks]
        apply List.map_congr_left
        intro t ht
        exact natToDec_tokByte (htoks t (List.mem_cons_of_mem _ ht)).1
          (htoks t (List.mem_cons_of_mem _ ht)).2
      rw [e0, e1]
    · right; exact h
  · rintro (⟨b, hb, hv⟩ | ⟨hty, b, hb, hv⟩)
    · rw [jsonDe_of_isJsonArrayOf ty hb, if_pos (validate_length hv), hv]; rfl
    · rw [jsonDe_string hty hb, hv]; rfl

/-- `skip` (input outside the modelled fragment) is answered only for the `deserialize_bytes` types on a
JSON string containing a `\u` escape. -/
theorem jsonDe_skip_inv {ty : Ty} {x : List UInt8} (h : jsonDe ty x = .skip) :
    ty.bytesStyle = true ∧ ∃ w0 body, AllWs w0 ∧ x = w0 ++ 0x22 :: body ∧
      readRawString body [] = some none := by
  obtain ⟨w0, h0, hx, -⟩ := skipWs_spec x
  unfold jsonDe at h
  cases hk : skipWs x with
  | nil => rw [hk] at h; simp at h
  | cons c body =>
    rw [hk] at h hx
    by_cases hc : c = 0x5b
    · subst hc
      exfalso
      simp only [beq_self_eq_true, if_true] at h
      cases hre : readElems ty.len true body with
      | none => rw [hre] at h; simp at h
      | some q =>
        obtain ⟨bytes, rest⟩ := q
        rw [hre] at h
        simp only at h
        cases hval : validate ty bytes with
        | none => rw [hval] at h; simp at h
        | some native =>
          rw [hval] at h
          simp only at h
          split at h <;> cases h
    · have hc' : (c == 0x5b) = false := by simpa using hc
      simp only [hc', Bool.false_eq_true, if_false] at h
      by_cases hq : (c == 0x22 && ty.bytesStyle) = true
      · rw [if_pos hq] at h
        simp only [Bool.and_eq_true, beq_iff_eq] at hq
        obtain ⟨rfl, hbs⟩ := hq
        refine ⟨hbs, w0, body, h0, hx, ?_⟩
        cases hrs : readRawString body [] with
        | none => rw [hrs] at h; simp at h
        | some o =>
          cases o with
          | none => rfl
          | some q =>
            exfalso
            obtain ⟨b, rest⟩ := q
            rw [hrs] at h
            simp only at h
            cases hval : validate ty b with
            | none => rw [hval] at h; simp at h
            | some native =>
              rw [hval] at h
              simp only at h
              split at h <;> cases h
      · rw [if_neg hq] at h; cases h

end Dalek.Proofs.Serde

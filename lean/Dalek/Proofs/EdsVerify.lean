/-
Characterisation of the verification core of the executable specification (`verifyCoreWith`, the body of
ed25519-dalek `verify`, `verify_strict`, `verify_prehashed`, `verify_prehashed_strict`) and of one entry of
the batch model (`batchItemWith`), in terms of the group `Ed`.

Technical note.  The definitions `match` on `decompress vk` for a symbolic `vk`.  Neither the elaborator nor
the kernel may be led to evaluate that term (`decompress` is square-and-multiply arithmetic on 255-bit
literals; weak-head normalising it symbolically does not terminate in practice), and the kernel unfolds
matchers eagerly.  The unfolding equations are therefore produced at the level of functions
(`@f = fun … => body`, proof `Eq.refl`, where both sides meet syntactically after one δ-step) by the small
command `defn_eq`, and used by rewriting; `decompress` is locally irreducible for the elaborator.
-/
import Dalek.Proofs.Eds

open Lean Elab Command Meta in
/-- `defn_eq c as thm` adds the theorem `thm : @c = <definition body of c>` with proof `Eq.refl @c`
(checked by the kernel like any other declaration). -/
elab "defn_eq " id:ident " as " thm:ident : command => do
  let c ← liftCoreM <| realizeGlobalConstNoOverloadWithInfo id
  let info ← getConstInfo c
  let lhs := Lean.mkConst c (info.levelParams.map mkLevelParam)
  let some rhs := info.value? | throwError "no value"
  let ty := info.type
  let u ← liftTermElabM <| getLevel ty
  let stmt := mkApp3 (Lean.mkConst ``Eq [u]) ty lhs rhs
  let prf := mkApp2 (Lean.mkConst ``Eq.refl [u]) ty lhs
  let ns ← getCurrNamespace
  liftCoreM <| addDecl <| Declaration.thmDecl
    { name := ns ++ thm.getId, levelParams := info.levelParams, type := stmt, value := prf }

namespace Dalek.Eds

open Dalek.Spec Dalek.Spec.Ed25519 Dalek.Bridge

attribute [local irreducible] decompress

defn_eq verifyCoreWith as verifyCoreWith_def
defn_eq batchItemWith as batchItemWith_def

/-! ## SHA-512: only the digest length is used -/

theorem sha512_length (m : List UInt8) : (sha512 m).length = 64 := by
  simp [sha512, Sha512.stateToBytes, Sha512.wordToBytes]

/-! ## `check_scalar` -/

theorem checkScalar_false_iff {S : List UInt8} {s : Nat} :
    checkScalar false S = some s ↔ leToNat S < L ∧ s = leToNat S := by
  unfold checkScalar
  simp only [Bool.false_eq_true, if_false]
  by_cases h : leToNat S < L
  · rw [if_pos h, Option.some.injEq]; exact ⟨fun e => ⟨h, e.symm⟩, fun e => e.2.symm⟩
  · rw [if_neg h]; exact ⟨fun e => (by cases e), fun e => absurd e.1 h⟩

theorem checkScalar_true_iff {S : List UInt8} {s : Nat} :
    checkScalar true S = some s ↔ (S.getD 31 0) &&& 224 = 0 ∧ s = leToNat S := by
  unfold checkScalar
  simp only [if_true]
  by_cases h : (S.getD 31 0) &&& 224 = 0
  · rw [if_neg (by rw [bne_iff_ne]; exact not_not.2 h), Option.some.injEq]
    exact ⟨fun e => ⟨h, e.symm⟩, fun e => e.2.symm⟩
  · rw [if_pos (by rw [bne_iff_ne]; exact h)]; exact ⟨fun e => (by cases e), fun e => absurd e.1 h⟩

/-- The acceptance condition of `check_scalar` as a proposition: canonical (`< ℓ`) by default, top three
bits of byte 31 clear under `legacy_compatibility`. -/
def ScalarOk (legacy : Bool) (S : List UInt8) : Prop :=
  if legacy then (S.getD 31 0) &&& 224 = 0 else leToNat S < L

theorem scalarOk_false (S : List UInt8) : ScalarOk false S ↔ leToNat S < L := by simp [ScalarOk]
theorem scalarOk_true (S : List UInt8) : ScalarOk true S ↔ (S.getD 31 0) &&& 224 = 0 := by
  simp [ScalarOk]

theorem checkScalar_iff {legacy : Bool} {S : List UInt8} {s : Nat} :
    checkScalar legacy S = some s ↔ ScalarOk legacy S ∧ s = leToNat S := by
  cases legacy
  · rw [checkScalar_false_iff, scalarOk_false]
  · rw [checkScalar_true_iff, scalarOk_true]

theorem byte_and_224 : ∀ n, n < 256 → ((n &&& 224 = 0) ↔ n < 32) := by decide +kernel

theorem and_224_iff (x : UInt8) : x &&& 224 = 0 ↔ x.toNat < 32 := by
  rw [← UInt8.toNat_inj, UInt8.toNat_and]
  have h1 : (224 : UInt8).toNat = 224 := rfl
  have h2 : (0 : UInt8).toNat = 0 := rfl
  rw [h1, h2, byte_and_224 _ (UInt8.toNat_lt _)]

/-- For a 32-byte string the legacy check `S[31] & 0xE0 = 0` says exactly `S < 2^253`. -/
theorem top3_iff {S : List UInt8} (hlen : S.length = 32) :
    (S.getD 31 0) &&& 224 = 0 ↔ leToNat S < 2 ^ 253 := by
  have h := getD_toNat S 31 (by omega)
  have hlt := leToNat_lt S
  rw [hlen] at hlt
  rw [and_224_iff, h]
  have e : (256:Nat)^32 = 256^31 * 256 := by norm_num
  have e2 : (2:Nat)^253 = 256^31 * 32 := by norm_num
  have hq : leToNat S / 256 ^ 31 < 256 := by
    rw [Nat.div_lt_iff_lt_mul (by norm_num), Nat.mul_comm, ← e]; exact hlt
  rw [Nat.mod_eq_of_lt hq, e2, Nat.div_lt_iff_lt_mul (by norm_num), Nat.mul_comm]

/-- A value below `2^253` (in particular a canonical scalar) passes the legacy check, whatever the length
of the byte string. -/
theorem top3_of_lt {S : List UInt8} (h : leToNat S < 2 ^ 253) : (S.getD 31 0) &&& 224 = 0 := by
  rw [and_224_iff]
  by_cases hlen : 31 < S.length
  · rw [getD_toNat S 31 hlen]
    have e2 : (2:Nat)^253 = 256^31 * 32 := by norm_num
    have : leToNat S / 256 ^ 31 < 32 := by
      rw [Nat.div_lt_iff_lt_mul (by norm_num), Nat.mul_comm, ← e2]; exact h
    omega
  · rw [List.getD_eq_getElem?_getD, List.getElem?_eq_none (by omega)]; decide

theorem scalarOk_legacy_of_canonical {S : List UInt8} (h : leToNat S < L) : ScalarOk true S :=
  (scalarOk_true S).2 (top3_of_lt (Nat.lt_trans h L_lt_253))

/-! ## The verification core -/

/-- Any correct `Ops` gives the same verification function as the specification `Ops`. -/
theorem verifyCoreWith_congr {ops : Ops} (hc : OpsCorrect ops) (legacy strict : Bool)
    (dom vk m sig : List UInt8) :
    verifyCoreWith ops legacy strict dom vk m sig = verifyCoreWith Ops.spec legacy strict dom vk m sig := by
  rw [show verifyCoreWith ops legacy strict dom vk m sig = _ from
    congrFun (congrFun (congrFun (congrFun (congrFun (congrFun (congrFun verifyCoreWith_def ops) legacy) strict) dom) vk) m) sig,
    show verifyCoreWith Ops.spec legacy strict dom vk m sig = _ from
    congrFun (congrFun (congrFun (congrFun (congrFun (congrFun (congrFun verifyCoreWith_def Ops.spec) legacy) strict) dom) vk) m) sig]
  cases hA : decompress vk with
  | none => rfl
  | some A =>
    obtain ⟨hAon, hAc, -⟩ := decompress_some hA
    simp only
    cases checkScalar legacy (sig.drop 32) with
    | none => rfl
    | some s =>
      simp only
      rw [hc.dsm _ _ _ hAon hAc, hc.smallOrder _ hAon hAc]
      cases hR : decompress (sig.take 32) with
      | none => rfl
      | some R =>
        obtain ⟨hRon, hRc, -⟩ := decompress_some hR
        simp only
        rw [hc.smallOrder _ hRon hRc]

/-- **The verification core, stated outright.**  `verifyCoreWith … dom vk m sig` (with `R = sig[0..32]`,
`S = sig[32..]`) accepts iff
* `vk` decodes to a point `A`,
* `S` passes `check_scalar` (value `s`),
* in strict mode: `R` decodes to a point `R'`, and neither `R'` nor `A` has small order,
* the canonical encoding of `[s]B - [k]A`, `k = H(dom ‖ R ‖ vk ‖ m) mod ℓ`, equals `R` **as bytes**. -/
theorem verifyCore_iff (legacy strict : Bool) (dom vk m sig : List UInt8) :
    verifyCoreWith Ops.spec legacy strict dom vk m sig = true ↔
      ∃ A s, decodeEd vk = some A ∧ checkScalar legacy (sig.drop 32) = some s ∧
        (strict = true → ∃ R, decodeEd (sig.take 32) = some R ∧ 8 • R ≠ 0 ∧ 8 • A ≠ 0) ∧
        encodeEd (s • Bpt - hashToScalar (dom ++ sig.take 32 ++ vk ++ m) • A) = sig.take 32 := by
  rw [show verifyCoreWith Ops.spec legacy strict dom vk m sig = _ from
    congrFun (congrFun (congrFun (congrFun (congrFun (congrFun (congrFun verifyCoreWith_def Ops.spec) legacy) strict) dom) vk) m) sig]
  cases hA : decompress vk with
  | none =>
    have : decodeEd vk = none := decodeEd_eq_none_iff.2 hA
    simp [this]
  | some A =>
    obtain ⟨hAon, hAc, -⟩ := decompress_some hA
    have hdA := decodeEd_of_decompress hA
    simp only [hdA, Option.some.injEq]
    cases hs : checkScalar legacy (sig.drop 32) with
    | none => simp
    | some s =>
      simp only [Option.some.injEq, dsm_spec _ hAon]
      cases strict with
      | false =>
        simp only [Bool.false_eq_true, if_false, Bool.not_true, false_imp_iff, true_and]
        constructor
        · intro h; exact ⟨_, _, rfl, rfl, beq_iff_eq.1 h⟩
        · rintro ⟨_, _, rfl, rfl, h⟩; exact beq_iff_eq.2 h
      | true =>
        simp only [if_true, true_imp_iff]
        cases hR : decompress (sig.take 32) with
        | none =>
          have : decodeEd (sig.take 32) = none := decodeEd_eq_none_iff.2 hR
          simp [this]
        | some R =>
          obtain ⟨hRon, hRc, -⟩ := decompress_some hR
          have hdR := decodeEd_of_decompress hR
          simp only [hdR, Option.some.injEq]
          have e1 := smallOrder_spec hRon
          have e2 := smallOrder_spec hAon
          constructor
          · intro h
            split at h
            · cases h
            · rename_i hso
              simp only [Bool.not_not, Bool.or_eq_true, not_or, Bool.not_eq_true] at hso
              refine ⟨_, _, rfl, rfl, ⟨_, rfl, ?_, ?_⟩, beq_iff_eq.1 h⟩
              · intro h8; rw [e1.2 h8] at hso; cases hso.1
              · intro h8; rw [e2.2 h8] at hso; cases hso.2
          · rintro ⟨_, _, rfl, rfl, ⟨_, rfl, h1, h2⟩, h⟩
            have f1 : Ops.spec.smallOrder R = false := by
              cases hh : Ops.spec.smallOrder R
              · rfl
              · exact absurd (e1.1 hh) h1
            have f2 : Ops.spec.smallOrder A = false := by
              cases hh : Ops.spec.smallOrder A
              · rfl
              · exact absurd (e2.1 hh) h2
            simp only [f1, f2, Bool.or_self, Bool.not_false, Bool.not_true, Bool.false_eq_true, if_false]
            exact beq_iff_eq.2 h

/-! ## One entry of the batch model -/

theorem batchItemWith_congr {ops : Ops} (hc : OpsCorrect ops) (legacy : Bool) (msg sig vk : List UInt8) :
    batchItemWith ops legacy msg sig vk = batchItemWith Ops.spec legacy msg sig vk := by
  rw [show batchItemWith ops legacy msg sig vk = _ from
    congrFun (congrFun (congrFun (congrFun (congrFun batchItemWith_def ops) legacy) msg) sig) vk,
    show batchItemWith Ops.spec legacy msg sig vk = _ from
    congrFun (congrFun (congrFun (congrFun (congrFun batchItemWith_def Ops.spec) legacy) msg) sig) vk]
  cases hA : decompress vk with
  | none => rfl
  | some A =>
    obtain ⟨hAon, hAc, -⟩ := decompress_some hA
    cases checkScalar legacy (sig.drop 32) with
    | none => rfl
    | some s =>
      cases decompress (sig.take 32) with
      | none => rfl
      | some R =>
        simp only
        rw [hc.dsm _ _ _ hAon hAc]

/-- `batchItemWith` returns `none` (malformed entry ⇒ the batch is an error) exactly when the key does not
decode, `S` fails `check_scalar`, or `R` does not decode. -/
theorem batchItem_eq_none_iff (legacy : Bool) (msg sig vk : List UInt8) :
    batchItemWith Ops.spec legacy msg sig vk = none ↔
      decodeEd vk = none ∨ checkScalar legacy (sig.drop 32) = none ∨ decodeEd (sig.take 32) = none := by
  rw [show batchItemWith Ops.spec legacy msg sig vk = _ from
    congrFun (congrFun (congrFun (congrFun (congrFun batchItemWith_def Ops.spec) legacy) msg) sig) vk]
  rw [decodeEd_eq_none_iff, decodeEd_eq_none_iff]
  cases decompress vk with
  | none => simp
  | some A =>
    cases checkScalar legacy (sig.drop 32) with
    | none => simp
    | some s =>
      cases decompress (sig.take 32) with
      | none => simp
      | some R => simp

/-- **One batch equation.**  The entry is well formed and its equation holds iff key, `S` and `R` decode
(to `A`, `s`, `R'`) and `[s]B - R' - [k]A = 0` in the group, `k = H(R ‖ vk ‖ msg) mod ℓ` (`R` enters the
hash as the given bytes, the equation as the decoded point). -/
theorem batchItem_eq_some_true_iff (legacy : Bool) (msg sig vk : List UInt8) :
    batchItemWith Ops.spec legacy msg sig vk = some true ↔
      ∃ A s R, decodeEd vk = some A ∧ checkScalar legacy (sig.drop 32) = some s ∧
        decodeEd (sig.take 32) = some R ∧
        s • Bpt - R - hashToScalar (sig.take 32 ++ vk ++ msg) • A = 0 := by
  rw [show batchItemWith Ops.spec legacy msg sig vk = _ from
    congrFun (congrFun (congrFun (congrFun (congrFun batchItemWith_def Ops.spec) legacy) msg) sig) vk]
  cases hA : decompress vk with
  | none =>
    have : decodeEd vk = none := decodeEd_eq_none_iff.2 hA
    simp [this]
  | some A =>
    obtain ⟨hAon, hAc, -⟩ := decompress_some hA
    have hdA := decodeEd_of_decompress hA
    cases hs : checkScalar legacy (sig.drop 32) with
    | none => simp
    | some s =>
      cases hR : decompress (sig.take 32) with
      | none =>
        have : decodeEd (sig.take 32) = none := decodeEd_eq_none_iff.2 hR
        simp [this]
      | some R =>
        obtain ⟨hRon, hRc, -⟩ := decompress_some hR
        have hdR := decodeEd_of_decompress hR
        simp only [hdA, hdR, Option.some.injEq, dsm_spec _ hAon, compress_eq_encodeEd hRon hRc,
          beq_iff_eq, encodeEd_injective.eq_iff]
        constructor
        · intro h
          refine ⟨_, _, _, rfl, rfl, rfl, ?_⟩
          rw [sub_right_comm, h, sub_self]
        · rintro ⟨_, _, _, rfl, rfl, rfl, h⟩
          rw [sub_right_comm, sub_eq_zero] at h
          exact h

/-! ## The batch model -/

theorem verifyBatchWith_congr {ops : Ops} (hc : OpsCorrect ops) (legacy : Bool)
    (msgs sigs vks : List (List UInt8)) :
    verifyBatchWith ops legacy msgs sigs vks = verifyBatchWith Ops.spec legacy msgs sigs vks := by
  unfold verifyBatchWith
  simp only [batchItemWith_congr hc]

/-- The batch model accepts iff the three lists have the same length and every entry's equation holds. -/
theorem verifyBatch_iff (legacy : Bool) (msgs sigs vks : List (List UInt8)) :
    verifyBatchWith Ops.spec legacy msgs sigs vks = true ↔
      msgs.length = sigs.length ∧ sigs.length = vks.length ∧
        ∀ x ∈ msgs.zip (sigs.zip vks), batchItemWith Ops.spec legacy x.1 x.2.1 x.2.2 = some true := by
  unfold verifyBatchWith
  by_cases h1 : msgs.length = sigs.length
  · by_cases h2 : sigs.length = vks.length
    · simp only [h1, h2, bne_self_eq_false, Bool.or_self, Bool.false_eq_true, if_false, true_and,
        List.all_eq_true, List.mem_map, beq_iff_eq]
      constructor
      · intro h x hx; exact h _ ⟨x, hx, rfl⟩
      · rintro h _ ⟨x, hx, rfl⟩; exact h x hx
    · have : (sigs.length != vks.length) = true := bne_iff_ne.2 h2
      simp [this, h2]
  · have : (msgs.length != sigs.length) = true := bne_iff_ne.2 h1
    simp [this, h1]

/-! ## Single verification versus one batch equation -/

/-- **Link between single and batch verification.**  Ordinary (non-strict) verification accepts iff the
batch equation of the entry holds **and** the `R` bytes are the canonical encoding of a point.  (Single
verification compares `R` as bytes; the batch equation uses the decoded point, so it cannot see a
non-canonical encoding.) -/
theorem verify_iff_batchItem (legacy : Bool) (msg sig vk : List UInt8) :
    verifyCoreWith Ops.spec legacy false [] vk msg sig = true ↔
      batchItemWith Ops.spec legacy msg sig vk = some true ∧ IsCanonicalEnc (sig.take 32) := by
  rw [verifyCore_iff, batchItem_eq_some_true_iff]
  simp only [List.nil_append, Bool.false_eq_true, false_imp_iff, true_and]
  constructor
  · rintro ⟨A, s, hA, hs, he⟩
    refine ⟨⟨A, s, s • Bpt - hashToScalar (List.take 32 sig ++ vk ++ msg) • A, hA, hs, ?_, ?_⟩,
      ⟨_, he⟩⟩
    · rw [← he, decodeEd_encodeEd, he]
    · abel
  · rintro ⟨⟨A, s, R, hA, hs, hR, he⟩, ⟨Q, hQ⟩⟩
    refine ⟨A, s, hA, hs, ?_⟩
    rw [← hQ, decodeEd_encodeEd] at hR
    have hQR : Q = R := Option.some.inj hR
    rw [sub_right_comm, sub_eq_zero] at he
    rw [he, ← hQR]
    exact hQ

end Dalek.Eds

import Dalek.Proofs.Scalar29.Montgomery
import Dalek.Proofs.Primes
/-! # Scalar29: compositions `montgomery_reduce ∘ mul_internal` (shallow-function level), `montgomery_square`,
`from_montgomery`, and the arithmetic in `ZMod l` with `R = 2^261` -/
set_option exponentiation.threshold 600
set_option maxRecDepth 100000

namespace Dalek.Proofs.Scalar29
open Dalek.IR Dalek.Gen.Norm.Scalar29 Dalek.Gen.Consts
open Dalek.Proofs.Scalar52 (Lim ell ell_eq ell_eqZ toZ_cons toZ_nil)

/-- apply a 17-argument function to a 17-element list -/
def ap17 (f : Int → Int → Int → Int → Int → Int → Int → Int → Int → Int → Int → Int → Int → Int → Int → Int → Int → List Int) : List Int → List Int
  | [z0, z1, z2, z3, z4, z5, z6, z7, z8, z9, z10, z11, z12, z13, z14, z15, z16] => f z0 z1 z2 z3 z4 z5 z6 z7 z8 z9 z10 z11 z12 z13 z14 z15 z16
  | _ => []

/-- apply a 9-argument function to a 9-element list -/
def ap9 (f : Int → Int → Int → Int → Int → Int → Int → Int → Int → List Int) : List Int → List Int
  | [a0, a1, a2, a3, a4, a5, a6, a7, a8] => f a0 a1 a2 a3 a4 a5 a6 a7 a8
  | _ => []

/-- `mul_internal(·, RR)` with the literal limbs of `constants::RR` -/
def mulRR (c0 c1 c2 c3 c4 c5 c6 c7 c8 : Int) : List Int := mul_internal_fn c0 c1 c2 c3 c4 c5 c6 c7 c8 190815506 504634135 361594685 339687255 426956673 70249340 485410621 504909086 328813
/-- `mul_internal(·, R)` with the literal limbs of `constants::R` -/
def mulR (c0 c1 c2 c3 c4 c5 c6 c7 c8 : Int) : List Int := mul_internal_fn c0 c1 c2 c3 c4 c5 c6 c7 c8 290322925 442594051 259787148 377041255 536700270 536870911 536870911 536870911 1048575

theorem RR_literal : toZ U32.RR = [190815506, 504634135, 361594685, 339687255, 426956673, 70249340, 485410621, 504909086, 328813] := rfl
theorem R_literal : toZ U32.R = [290322925, 442594051, 259787148, 377041255, 536700270, 536870911, 536870911, 536870911, 1048575] := rfl

/-! ## structural equalities (by `rfl`) -/

/-- `montgomery_reduce` with the standard first factor and a parameter for the final `carry as u32` -/
def mrStd (top : Int → Int) (z0 z1 z2 z3 z4 z5 z6 z7 z8 z9 z10 z11 z12 z13 z14 z15 z16 : Int) : List Int :=
  mrTail z0 z1 z2 z3 z4 z5 z6 z7 z8 z9 z10 z11 z12 z13 z14 z15 z16 ((((z0 % 2 ^ 32) * 307527195) % 2 ^ 32) % 2 ^ 29) top

theorem mrStd_spec (top : Int → Int) (htop : ∀ c : Int, 0 ≤ c → c < 2 ^ 29 → top c = c) (z0 z1 z2 z3 z4 z5 z6 z7 z8 z9 z10 z11 z12 z13 z14 z15 z16 : Int)
    (hz : Lim W1 [z0, z1, z2, z3, z4, z5, z6, z7, z8, z9, z10, z11, z12, z13, z14, z15, z16])
    (hN : repZ [z0, z1, z2, z3, z4, z5, z6, z7, z8, z9, z10, z11, z12, z13, z14, z15, z16] < 2 ^ 261 * ell) :
    ∃ o0 o1 o2 o3 o4 o5 o6 o7 o8, mrStd top z0 z1 z2 z3 z4 z5 z6 z7 z8 z9 z10 z11 z12 z13 z14 z15 z16 = [o0, o1, o2, o3, o4, o5, o6, o7, o8] ∧
      Lim (2 ^ 29) [o0, o1, o2, o3, o4, o5, o6, o7, o8] ∧
      (0 ≤ repZ [o0, o1, o2, o3, o4, o5, o6, o7, o8] ∧ repZ [o0, o1, o2, o3, o4, o5, o6, o7, o8] < ell) ∧
      (ell : Int) ∣ repZ [o0, o1, o2, o3, o4, o5, o6, o7, o8] * 2 ^ 261 - repZ [z0, z1, z2, z3, z4, z5, z6, z7, z8, z9, z10, z11, z12, z13, z14, z15, z16] :=
  mrTail_spec _ _ _ _ _ _ _ _ _ _ _ _ _ _ _ _ _ _ top htop rfl hz hN

/-- in `montgomery_square` the translator knows that the last carry fits in a `u32` (no truncation emitted) -/
theorem montgomery_square_fn_eq (a0 a1 a2 a3 a4 a5 a6 a7 a8 : Int) :
    montgomery_square_fn a0 a1 a2 a3 a4 a5 a6 a7 a8 = ap17 (mrStd (fun c => c)) (square_internal_fn a0 a1 a2 a3 a4 a5 a6 a7 a8) := rfl

/-- in `from_montgomery` the translator knows `limbs[0] < 2^32` and drops the first `as u32`, and it knows that
the last carry fits in a `u32` -/
theorem from_montgomery_fn_eq (a0 a1 a2 a3 a4 a5 a6 a7 a8 : Int) :
    from_montgomery_fn a0 a1 a2 a3 a4 a5 a6 a7 a8
      = mrTail a0 a1 a2 a3 a4 a5 a6 a7 a8 0 0 0 0 0 0 0 0 (((a0 * 307527195) % 2 ^ 32) % 2 ^ 29) (fun c => c) := rfl

/-! ## arithmetic in `ZMod l` -/

theorem two_pow_ne_zero : ((2 : ZMod ell) ^ 261) ≠ 0 := by
  apply pow_ne_zero
  have h : ((2 : Nat) : ZMod ell) ≠ 0 := by
    rw [Ne, ZMod.natCast_eq_zero_iff]
    exact Nat.not_dvd_of_pos_of_lt (by norm_num) (by norm_num [ell])
  exact_mod_cast h

theorem zmod_of_dvd {o N : Int} (h : (ell : Int) ∣ o * 2 ^ 261 - N) :
    (o : ZMod ell) * 2 ^ 261 = (N : ZMod ell) := by
  have := (ZMod.intCast_eq_intCast_iff_dvd_sub N (o * 2 ^ 261) ell).2 h
  rw [this]; push_cast; ring

theorem eq_emod_of_zmod {o X : Int} (h0 : 0 ≤ o) (h1 : o < ell) (h : (o : ZMod ell) = (X : ZMod ell)) :
    o = X % ell := by
  have := (ZMod.intCast_eq_intCast_iff' o X ell).1 h
  rwa [Int.emod_eq_of_lt h0 h1] at this

theorem repZ_RR : repZ [190815506, 504634135, 361594685, 339687255, 426956673, 70249340, 485410621, 504909086, 328813] = (((2 ^ 261) ^ 2 % ell : Nat) : Int) := by
  rw [← val29_RR, ← repZ_toZ, RR_literal]

theorem repZ_R : repZ [290322925, 442594051, 259787148, 377041255, 536700270, 536870911, 536870911, 536870911, 1048575] = ((2 ^ 261 % ell : Nat) : Int) := by
  rw [← val29_R, ← repZ_toZ, R_literal]

theorem RR_zmod : ((repZ [190815506, 504634135, 361594685, 339687255, 426956673, 70249340, 485410621, 504909086, 328813] : Int) : ZMod ell) = (2 ^ 261) ^ 2 := by
  rw [repZ_RR, Int.cast_natCast, ZMod.natCast_mod]; push_cast; rfl

theorem R_zmod : ((repZ [290322925, 442594051, 259787148, 377041255, 536700270, 536870911, 536870911, 536870911, 1048575] : Int) : ZMod ell) = 2 ^ 261 := by
  rw [repZ_R, Int.cast_natCast, ZMod.natCast_mod]; push_cast; rfl

theorem RR_lim_lit : Lim (2 ^ 29) [190815506, 504634135, 361594685, 339687255, 426956673, 70249340, 485410621, 504909086, 328813] := by simp only [Lim]; norm_num
theorem R_lim_lit : Lim (2 ^ 29) [290322925, 442594051, 259787148, 377041255, 536700270, 536870911, 536870911, 536870911, 1048575] := by simp only [Lim]; norm_num

theorem RR_canon : (0 : Int) ≤ repZ [190815506, 504634135, 361594685, 339687255, 426956673, 70249340, 485410621, 504909086, 328813] ∧ repZ [190815506, 504634135, 361594685, 339687255, 426956673, 70249340, 485410621, 504909086, 328813] < ell := by
  rw [repZ_RR]
  exact ⟨Int.natCast_nonneg _, by exact_mod_cast Nat.mod_lt _ (by norm_num [ell])⟩

theorem R_canon : (0 : Int) ≤ repZ [290322925, 442594051, 259787148, 377041255, 536700270, 536870911, 536870911, 536870911, 1048575] ∧ repZ [290322925, 442594051, 259787148, 377041255, 536700270, 536870911, 536870911, 536870911, 1048575] < ell := by
  rw [repZ_R]
  exact ⟨Int.natCast_nonneg _, by exact_mod_cast Nat.mod_lt _ (by norm_num [ell])⟩

theorem mul_lt_of_lt_pow {A B : Int} (hA : A < 2 ^ 261) (hB0 : 0 ≤ B) (hB : B < ell) :
    A * B < 2 ^ 261 * ell := by
  rcases hB0.eq_or_lt with h | h
  · rw [← h]; norm_num [ell]
  · exact Int.mul_lt_mul hA (le_of_lt hB) h (by norm_num)

/-! ## `montgomery_reduce ∘ mul_internal` -/

/-- `montgomery_reduce(mul_internal(a, b))` for `a·b < 2^261·l`: canonical `o` with `o·2^261 = a·b` in `ZMod l` -/
theorem mr_mi_spec (a0 a1 a2 a3 a4 a5 a6 a7 a8 b0 b1 b2 b3 b4 b5 b6 b7 b8 : Int)
    (ha : Lim (2 ^ 29) [a0, a1, a2, a3, a4, a5, a6, a7, a8]) (hb : Lim (2 ^ 29) [b0, b1, b2, b3, b4, b5, b6, b7, b8])
    (hab : repZ [a0, a1, a2, a3, a4, a5, a6, a7, a8] * repZ [b0, b1, b2, b3, b4, b5, b6, b7, b8] < 2 ^ 261 * ell) :
    ∃ o0 o1 o2 o3 o4 o5 o6 o7 o8, ap17 montgomery_reduce_fn (mul_internal_fn a0 a1 a2 a3 a4 a5 a6 a7 a8 b0 b1 b2 b3 b4 b5 b6 b7 b8) = [o0, o1, o2, o3, o4, o5, o6, o7, o8] ∧
      Lim (2 ^ 29) [o0, o1, o2, o3, o4, o5, o6, o7, o8] ∧ (0 ≤ repZ [o0, o1, o2, o3, o4, o5, o6, o7, o8] ∧ repZ [o0, o1, o2, o3, o4, o5, o6, o7, o8] < ell) ∧
      ((repZ [o0, o1, o2, o3, o4, o5, o6, o7, o8] : Int) : ZMod ell) * 2 ^ 261
        = ((repZ [a0, a1, a2, a3, a4, a5, a6, a7, a8] : Int) : ZMod ell) * ((repZ [b0, b1, b2, b3, b4, b5, b6, b7, b8] : Int) : ZMod ell) := by
  obtain ⟨z0, z1, z2, z3, z4, z5, z6, z7, z8, z9, z10, z11, z12, z13, z14, z15, z16, hz, hzl, hzv⟩ := mul_internal_fn_spec a0 a1 a2 a3 a4 a5 a6 a7 a8 b0 b1 b2 b3 b4 b5 b6 b7 b8 ha hb
  rw [hz]
  obtain ⟨o0, o1, o2, o3, o4, o5, o6, o7, o8, he, hl, hc, hd⟩ := montgomery_reduce_fn_spec z0 z1 z2 z3 z4 z5 z6 z7 z8 z9 z10 z11 z12 z13 z14 z15 z16 hzl (by rw [hzv]; exact hab)
  refine ⟨o0, o1, o2, o3, o4, o5, o6, o7, o8, he, hl, hc, ?_⟩
  rw [zmod_of_dvd hd, hzv]; push_cast; rfl

/-- `montgomery_reduce(mul_internal(c, RR))`: canonical representative of `c·2^261` (any 29-bit limbs `c`) -/
theorem mr_mulRR_spec (c0 c1 c2 c3 c4 c5 c6 c7 c8 : Int) (hc : Lim (2 ^ 29) [c0, c1, c2, c3, c4, c5, c6, c7, c8]) :
    ∃ o0 o1 o2 o3 o4 o5 o6 o7 o8, ap17 montgomery_reduce_fn (mulRR c0 c1 c2 c3 c4 c5 c6 c7 c8) = [o0, o1, o2, o3, o4, o5, o6, o7, o8] ∧
      Lim (2 ^ 29) [o0, o1, o2, o3, o4, o5, o6, o7, o8] ∧ (0 ≤ repZ [o0, o1, o2, o3, o4, o5, o6, o7, o8] ∧ repZ [o0, o1, o2, o3, o4, o5, o6, o7, o8] < ell) ∧
      ((repZ [o0, o1, o2, o3, o4, o5, o6, o7, o8] : Int) : ZMod ell) = ((repZ [c0, c1, c2, c3, c4, c5, c6, c7, c8] : Int) : ZMod ell) * 2 ^ 261 := by
  obtain ⟨_, hC⟩ := repZ9_bd c0 c1 c2 c3 c4 c5 c6 c7 c8 hc
  obtain ⟨o0, o1, o2, o3, o4, o5, o6, o7, o8, he, hl, hcan, hv⟩ := mr_mi_spec c0 c1 c2 c3 c4 c5 c6 c7 c8 _ _ _ _ _ _ _ _ _ hc RR_lim_lit
    (mul_lt_of_lt_pow hC RR_canon.1 RR_canon.2)
  refine ⟨o0, o1, o2, o3, o4, o5, o6, o7, o8, he, hl, hcan, ?_⟩
  rw [RR_zmod] at hv
  apply mul_right_cancel₀ two_pow_ne_zero
  rw [hv]; ring

/-- `montgomery_reduce(mul_internal(c, R))`: the canonical representative of `c` (any 29-bit limbs `c`) -/
theorem mr_mulR_spec (c0 c1 c2 c3 c4 c5 c6 c7 c8 : Int) (hc : Lim (2 ^ 29) [c0, c1, c2, c3, c4, c5, c6, c7, c8]) :
    ∃ o0 o1 o2 o3 o4 o5 o6 o7 o8, ap17 montgomery_reduce_fn (mulR c0 c1 c2 c3 c4 c5 c6 c7 c8) = [o0, o1, o2, o3, o4, o5, o6, o7, o8] ∧
      Lim (2 ^ 29) [o0, o1, o2, o3, o4, o5, o6, o7, o8] ∧ (0 ≤ repZ [o0, o1, o2, o3, o4, o5, o6, o7, o8] ∧ repZ [o0, o1, o2, o3, o4, o5, o6, o7, o8] < ell) ∧
      ((repZ [o0, o1, o2, o3, o4, o5, o6, o7, o8] : Int) : ZMod ell) = ((repZ [c0, c1, c2, c3, c4, c5, c6, c7, c8] : Int) : ZMod ell) := by
  obtain ⟨_, hC⟩ := repZ9_bd c0 c1 c2 c3 c4 c5 c6 c7 c8 hc
  obtain ⟨o0, o1, o2, o3, o4, o5, o6, o7, o8, he, hl, hcan, hv⟩ := mr_mi_spec c0 c1 c2 c3 c4 c5 c6 c7 c8 _ _ _ _ _ _ _ _ _ hc R_lim_lit
    (mul_lt_of_lt_pow hC R_canon.1 R_canon.2)
  refine ⟨o0, o1, o2, o3, o4, o5, o6, o7, o8, he, hl, hcan, ?_⟩
  rw [R_zmod] at hv
  exact mul_right_cancel₀ two_pow_ne_zero hv

/-! ## registered composed kernels -/

theorem montgomery_square_fn_spec (a0 a1 a2 a3 a4 a5 a6 a7 a8 : Int) (ha : Lim (2 ^ 29) [a0, a1, a2, a3, a4, a5, a6, a7, a8])
    (hab : repZ [a0, a1, a2, a3, a4, a5, a6, a7, a8] * repZ [a0, a1, a2, a3, a4, a5, a6, a7, a8] < 2 ^ 261 * ell) :
    ∃ o0 o1 o2 o3 o4 o5 o6 o7 o8, montgomery_square_fn a0 a1 a2 a3 a4 a5 a6 a7 a8 = [o0, o1, o2, o3, o4, o5, o6, o7, o8] ∧
      Lim (2 ^ 29) [o0, o1, o2, o3, o4, o5, o6, o7, o8] ∧ (0 ≤ repZ [o0, o1, o2, o3, o4, o5, o6, o7, o8] ∧ repZ [o0, o1, o2, o3, o4, o5, o6, o7, o8] < ell) ∧
      ((repZ [o0, o1, o2, o3, o4, o5, o6, o7, o8] : Int) : ZMod ell) * 2 ^ 261
        = ((repZ [a0, a1, a2, a3, a4, a5, a6, a7, a8] : Int) : ZMod ell) * ((repZ [a0, a1, a2, a3, a4, a5, a6, a7, a8] : Int) : ZMod ell) := by
  rw [montgomery_square_fn_eq, square_internal_fn_eq]
  obtain ⟨z0, z1, z2, z3, z4, z5, z6, z7, z8, z9, z10, z11, z12, z13, z14, z15, z16, hz, hzl, hzv⟩ := school_spec a0 a1 a2 a3 a4 a5 a6 a7 a8 a0 a1 a2 a3 a4 a5 a6 a7 a8 ha ha
  rw [hz]
  obtain ⟨o0, o1, o2, o3, o4, o5, o6, o7, o8, he, hl, hc, hd⟩ := mrStd_spec (fun c => c) (fun _ _ _ => rfl) z0 z1 z2 z3 z4 z5 z6 z7 z8 z9 z10 z11 z12 z13 z14 z15 z16 hzl (by rw [hzv]; exact hab)
  refine ⟨o0, o1, o2, o3, o4, o5, o6, o7, o8, he, hl, hc, ?_⟩
  rw [zmod_of_dvd hd, hzv]; push_cast; rfl

theorem from_montgomery_fn_spec (a0 a1 a2 a3 a4 a5 a6 a7 a8 : Int) (ha : Lim (2 ^ 29) [a0, a1, a2, a3, a4, a5, a6, a7, a8]) :
    ∃ o0 o1 o2 o3 o4 o5 o6 o7 o8, from_montgomery_fn a0 a1 a2 a3 a4 a5 a6 a7 a8 = [o0, o1, o2, o3, o4, o5, o6, o7, o8] ∧
      Lim (2 ^ 29) [o0, o1, o2, o3, o4, o5, o6, o7, o8] ∧ (0 ≤ repZ [o0, o1, o2, o3, o4, o5, o6, o7, o8] ∧ repZ [o0, o1, o2, o3, o4, o5, o6, o7, o8] < ell) ∧
      ((repZ [o0, o1, o2, o3, o4, o5, o6, o7, o8] : Int) : ZMod ell) * 2 ^ 261 = ((repZ [a0, a1, a2, a3, a4, a5, a6, a7, a8] : Int) : ZMod ell) := by
  rw [from_montgomery_fn_eq]
  obtain ⟨hA0, hA⟩ := repZ9_bd a0 a1 a2 a3 a4 a5 a6 a7 a8 ha
  have hrep : repZ [a0, a1, a2, a3, a4, a5, a6, a7, a8, 0, 0, 0, 0, 0, 0, 0, 0] = repZ [a0, a1, a2, a3, a4, a5, a6, a7, a8] := by simp only [repZ]; ring
  obtain ⟨o0, o1, o2, o3, o4, o5, o6, o7, o8, he, hl, hcan, hd⟩ := mrTail_spec a0 a1 a2 a3 a4 a5 a6 a7 a8 0 0 0 0 0 0 0 0 (((a0 * 307527195) % 2 ^ 32) % 2 ^ 29) (fun c => c)
    (fun _ _ _ => rfl)
    (by simp only [Lim] at ha; rw [Int.emod_eq_of_lt ha.1.1 (by omega)])
    (by simp only [Lim, W1, and_true] at ha ⊢; omega)
    (by rw [hrep]; have : (0:Int) < ell := by norm_num [ell]
        nlinarith)
  refine ⟨o0, o1, o2, o3, o4, o5, o6, o7, o8, he, hl, hcan, ?_⟩
  rw [zmod_of_dvd hd, hrep]

end Dalek.Proofs.Scalar29

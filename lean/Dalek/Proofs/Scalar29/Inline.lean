import Dalek.IR.Limb
import Mathlib.Tactic.NormNum
/-!
# Sequential composition ("inlining") of LimbIR programs

The translator inlines callees: the body of a composed item is the concatenation of the bodies of its callees, with
the callee's variables replaced by atoms of the caller (`.v j` or, for constant arguments, `.c n`), constant
sub-expressions folded, and statements whose value became a constant dropped.  `chk` re-does this substitution and
compares it with the actual composed body (a decidable check, run by `decide +kernel`); `chk_sound` shows that then
the checked semantics of the composed body is the composition of the checked semantics of the parts.
`Prog.evalW_of_evalC`: a run without panic returns the wrapping result.
-/
namespace Dalek.IR

/-! ## no panic ⇒ the wrapping semantics agrees -/

theorem chk_eq_some {w v r : Nat} : chk w v = some r ↔ v < 2 ^ w ∧ r = v := by
  unfold chk; split <;> simp_all [eq_comm]

theorem E.evalW_of_evalC (env : List Nat) : ∀ (e : E) (x : Nat), e.evalC env = some x → e.evalW env = x := by
  intro e
  induction e with
  | v i => intro x h; simp only [E.evalC] at h; simp [E.evalW, List.getD_eq_getElem?_getD, h]
  | c n => intro x h; simp only [E.evalC, Option.some.injEq] at h; simp [E.evalW, h]
  | add w a b iha ihb =>
    intro r h
    simp only [E.evalC, Option.bind_eq_bind, Option.bind_eq_some_iff] at h
    obtain ⟨x, hx, y, hy, h⟩ := h
    obtain ⟨hlt, rfl⟩ := chk_eq_some.1 h
    simp [E.evalW, iha x hx, ihb y hy, Nat.mod_eq_of_lt hlt]
  | sub w a b iha ihb =>
    intro r h
    simp only [E.evalC, Option.bind_eq_bind, Option.bind_eq_some_iff] at h
    obtain ⟨x, hx, y, hy, h⟩ := h
    split at h
    · rename_i hyx
      obtain ⟨hlt, rfl⟩ := chk_eq_some.1 h
      simp only [E.evalW, iha x hx, ihb y hy]
      have h2 : 0 < 2 ^ w := Nat.pow_pos (by norm_num)
      have hm := Nat.mod_lt y h2
      have hd := Nat.div_add_mod y (2 ^ w)
      have : x + (2 ^ w - y % 2 ^ w) = (x - y) + 2 ^ w * (y / 2 ^ w + 1) := by
        rw [Nat.mul_add, Nat.mul_one]; omega
      rw [this, Nat.add_mul_mod_self_left, Nat.mod_eq_of_lt hlt]
    · simp at h
  | mul w a b iha ihb =>
    intro r h
    simp only [E.evalC, Option.bind_eq_bind, Option.bind_eq_some_iff] at h
    obtain ⟨x, hx, y, hy, h⟩ := h
    obtain ⟨hlt, rfl⟩ := chk_eq_some.1 h
    simp [E.evalW, iha x hx, ihb y hy, Nat.mod_eq_of_lt hlt]
  | wadd w a b iha ihb =>
    intro r h
    simp only [E.evalC, Option.bind_eq_bind, Option.bind_eq_some_iff, Option.some.injEq] at h
    obtain ⟨x, hx, y, hy, rfl⟩ := h
    simp [E.evalW, iha x hx, ihb y hy]
  | wsub w a b iha ihb =>
    intro r h
    simp only [E.evalC, Option.bind_eq_bind, Option.bind_eq_some_iff, Option.some.injEq] at h
    obtain ⟨x, hx, y, hy, rfl⟩ := h
    simp [E.evalW, iha x hx, ihb y hy]
  | wmul w a b iha ihb =>
    intro r h
    simp only [E.evalC, Option.bind_eq_bind, Option.bind_eq_some_iff, Option.some.injEq] at h
    obtain ⟨x, hx, y, hy, rfl⟩ := h
    simp [E.evalW, iha x hx, ihb y hy]
  | shr a k iha =>
    intro r h
    simp only [E.evalC, Option.bind_eq_bind, Option.bind_eq_some_iff, Option.some.injEq] at h
    obtain ⟨x, hx, rfl⟩ := h
    simp [E.evalW, iha x hx]
  | shl w a k iha =>
    intro r h
    simp only [E.evalC, Option.bind_eq_bind, Option.bind_eq_some_iff, Option.some.injEq] at h
    obtain ⟨x, hx, rfl⟩ := h
    simp [E.evalW, iha x hx]
  | band a b iha ihb =>
    intro r h
    simp only [E.evalC, Option.bind_eq_bind, Option.bind_eq_some_iff, Option.some.injEq] at h
    obtain ⟨x, hx, y, hy, rfl⟩ := h
    simp [E.evalW, iha x hx, ihb y hy]
  | bor a b iha ihb =>
    intro r h
    simp only [E.evalC, Option.bind_eq_bind, Option.bind_eq_some_iff, Option.some.injEq] at h
    obtain ⟨x, hx, y, hy, rfl⟩ := h
    simp [E.evalW, iha x hx, ihb y hy]
  | bxor a b iha ihb =>
    intro r h
    simp only [E.evalC, Option.bind_eq_bind, Option.bind_eq_some_iff, Option.some.injEq] at h
    obtain ⟨x, hx, y, hy, rfl⟩ := h
    simp [E.evalW, iha x hx, ihb y hy]
  | cast w a iha =>
    intro r h
    simp only [E.evalC, Option.bind_eq_bind, Option.bind_eq_some_iff, Option.some.injEq] at h
    obtain ⟨x, hx, rfl⟩ := h
    simp [E.evalW, iha x hx]
  | sel c a b ihc iha ihb =>
    intro r h
    simp only [E.evalC, Option.bind_eq_bind, Option.bind_eq_some_iff] at h
    obtain ⟨z, hz, x, hx, y, hy, h⟩ := h
    split at h
    · simp only [Option.some.injEq] at h
      subst h
      simp [E.evalW, ihc z hz, iha x hx, ihb y hy]
    · simp at h

theorem runW_of_runC : ∀ (ss : List S) (env env' : List Nat), runC ss env = some env' → runW ss env = env'
  | [], env, env', h => by simp only [runC, Option.some.injEq] at h; simp [runW, h]
  | s :: ss, env, env', h => by
    simp only [runC, Option.bind_eq_bind, Option.bind_eq_some_iff] at h
    obtain ⟨env1, h1, h2⟩ := h
    have : s.stepW env = env1 := by
      cases s with
      | set e =>
        simp only [S.stepC, Option.bind_eq_bind, Option.bind_eq_some_iff, Option.some.injEq] at h1
        obtain ⟨x, hx, rfl⟩ := h1
        simp [S.stepW, E.evalW_of_evalC env e x hx]
      | assertLt e n =>
        simp only [S.stepC, Option.bind_eq_bind, Option.bind_eq_some_iff] at h1
        obtain ⟨x, hx, h1⟩ := h1
        split at h1
        · simp only [Option.some.injEq] at h1; simp [S.stepW, h1]
        · simp at h1
    simp only [runW, this]
    exact runW_of_runC ss env1 env' h2

/-- a debug-build run that does not panic returns the release-build result -/
theorem Prog.evalW_of_evalC (p : Prog) (ins out : List Nat) (h : p.evalC ins = some out) : p.evalW ins = out := by
  unfold Prog.evalC at h
  split at h
  · simp only [Option.map_eq_some_iff] at h
    obtain ⟨env, h1, rfl⟩ := h
    simp [Prog.evalW, runW_of_runC _ _ _ h1]
  · simp at h

namespace Inline

/-- an expression that panics in every environment (default for out-of-scope variables) -/
def bad : E := .sub 1 (.c 0) (.c 1)

theorem bad_evalC (env : List Nat) : bad.evalC env = none := by
  simp [bad, E.evalC]

/-- rebuild a unary node; fold it if the child is a constant and the node evaluates -/
def fold1 (f : E → E) (a : E) : E :=
  match a with
  | .c _ => (match (f a).evalC [] with | some n => .c n | none => f a)
  | _ => f a

def fold2 (f : E → E → E) (a b : E) : E :=
  match a, b with
  | .c _, .c _ => (match (f a b).evalC [] with | some n => .c n | none => f a b)
  | _, _ => f a b

def fold3 (f : E → E → E → E) (a b c : E) : E :=
  match a, b, c with
  | .c _, .c _, .c _ => (match (f a b c).evalC [] with | some n => .c n | none => f a b c)
  | _, _, _ => f a b c

theorem fold1_evalC (f : E → E) (hf : ∀ x env, (f (.c x)).evalC env = (f (.c x)).evalC []) (a : E) (env : List Nat) :
    (fold1 f a).evalC env = (f a).evalC env := by
  unfold fold1
  split
  · rename_i x
    split
    · rename_i n h; rw [hf x env, h]; rfl
    · rfl
  · rfl

theorem fold2_evalC (f : E → E → E)
    (hf : ∀ x y env, (f (.c x) (.c y)).evalC env = (f (.c x) (.c y)).evalC []) (a b : E) (env : List Nat) :
    (fold2 f a b).evalC env = (f a b).evalC env := by
  unfold fold2
  split
  · rename_i x y
    split
    · rename_i n h; rw [hf x y env, h]; rfl
    · rfl
  · rfl

theorem fold3_evalC (f : E → E → E → E)
    (hf : ∀ x y z env, (f (.c x) (.c y) (.c z)).evalC env = (f (.c x) (.c y) (.c z)).evalC []) (a b c : E)
    (env : List Nat) : (fold3 f a b c).evalC env = (f a b c).evalC env := by
  unfold fold3
  split
  · rename_i x y z
    split
    · rename_i n h; rw [hf x y z env, h]; rfl
    · rfl
  · rfl

/-- substitute atoms for variables and fold constants bottom-up (what the translator does when it inlines) -/
def pe (σ : List E) : E → E
  | .v i => σ.getD i bad
  | .c n => .c n
  | .add w a b => fold2 (.add w) (pe σ a) (pe σ b)
  | .sub w a b => fold2 (.sub w) (pe σ a) (pe σ b)
  | .mul w a b => fold2 (.mul w) (pe σ a) (pe σ b)
  | .wadd w a b => fold2 (.wadd w) (pe σ a) (pe σ b)
  | .wsub w a b => fold2 (.wsub w) (pe σ a) (pe σ b)
  | .wmul w a b => fold2 (.wmul w) (pe σ a) (pe σ b)
  | .shr a k => fold1 (fun a => .shr a k) (pe σ a)
  | .shl w a k => fold1 (fun a => .shl w a k) (pe σ a)
  | .band a b => fold2 .band (pe σ a) (pe σ b)
  | .bor a b => fold2 .bor (pe σ a) (pe σ b)
  | .bxor a b => fold2 .bxor (pe σ a) (pe σ b)
  | .cast w a => fold1 (.cast w) (pe σ a)
  | .sel c a b => fold3 .sel (pe σ c) (pe σ a) (pe σ b)

/-- the atoms `σ` evaluate in `env1` to the entries of `env2` (and panic outside the range of `env2`) -/
def Agree (σ : List E) (env1 env2 : List Nat) : Prop := ∀ i, (σ.getD i bad).evalC env1 = env2[i]?

theorem pe_sound (σ : List E) (env1 env2 : List Nat) (h : Agree σ env1 env2) :
    ∀ e : E, (pe σ e).evalC env1 = e.evalC env2 := by
  intro e
  induction e with
  | v i => simpa [pe, E.evalC] using h i
  | c n => rfl
  | add w a b iha ihb => rw [pe, fold2_evalC _ (fun _ _ _ => rfl)]; simp only [E.evalC, iha, ihb]
  | sub w a b iha ihb => rw [pe, fold2_evalC _ (fun _ _ _ => rfl)]; simp only [E.evalC, iha, ihb]
  | mul w a b iha ihb => rw [pe, fold2_evalC _ (fun _ _ _ => rfl)]; simp only [E.evalC, iha, ihb]
  | wadd w a b iha ihb => rw [pe, fold2_evalC _ (fun _ _ _ => rfl)]; simp only [E.evalC, iha, ihb]
  | wsub w a b iha ihb => rw [pe, fold2_evalC _ (fun _ _ _ => rfl)]; simp only [E.evalC, iha, ihb]
  | wmul w a b iha ihb => rw [pe, fold2_evalC _ (fun _ _ _ => rfl)]; simp only [E.evalC, iha, ihb]
  | shr a k iha => rw [pe, fold1_evalC _ (fun _ _ => rfl)]; simp only [E.evalC, iha]
  | shl w a k iha => rw [pe, fold1_evalC _ (fun _ _ => rfl)]; simp only [E.evalC, iha]
  | band a b iha ihb => rw [pe, fold2_evalC _ (fun _ _ _ => rfl)]; simp only [E.evalC, iha, ihb]
  | bor a b iha ihb => rw [pe, fold2_evalC _ (fun _ _ _ => rfl)]; simp only [E.evalC, iha, ihb]
  | bxor a b iha ihb => rw [pe, fold2_evalC _ (fun _ _ _ => rfl)]; simp only [E.evalC, iha, ihb]
  | cast w a iha => rw [pe, fold1_evalC _ (fun _ _ => rfl)]; simp only [E.evalC, iha]
  | sel c a b ihc iha ihb => rw [pe, fold3_evalC _ (fun _ _ _ _ => rfl)]; simp only [E.evalC, ihc, iha, ihb]

/-! ## the check -/

/-- `σ` is a list of atoms, valid in `env1`, whose values are the entries of `env2` -/
def Inv (env1 : List Nat) : List E → List Nat → Prop
  | [], [] => True
  | a :: σ, x :: env2 => (a = .c x ∨ ∃ j, a = .v j ∧ env1[j]? = some x) ∧ Inv env1 σ env2
  | _, _ => False

theorem Inv_length {env1 : List Nat} : ∀ {σ : List E} {env2 : List Nat}, Inv env1 σ env2 → σ.length = env2.length
  | [], [], _ => rfl
  | _ :: σ, _ :: env2, h => by simp [Inv_length (σ := σ) (env2 := env2) h.2]
  | [], _ :: _, h => h.elim
  | _ :: _, [], h => h.elim

theorem Inv_mono {env1 : List Nat} (ys : List Nat) :
    ∀ {σ : List E} {env2 : List Nat}, Inv env1 σ env2 → Inv (env1 ++ ys) σ env2
  | [], [], _ => trivial
  | a :: σ, x :: env2, h => by
    refine ⟨?_, Inv_mono ys h.2⟩
    rcases h.1 with h1 | ⟨j, hj, hx⟩
    · exact Or.inl h1
    · refine Or.inr ⟨j, hj, ?_⟩
      have hlt : j < env1.length := by
        rcases List.getElem?_eq_some_iff.1 hx with ⟨hlt, _⟩; exact hlt
      rw [List.getElem?_append_left hlt]; exact hx
  | [], _ :: _, h => h.elim
  | _ :: _, [], h => h.elim

theorem Inv_append {env1 : List Nat} :
    ∀ {σ : List E} {env2 : List Nat} {τ : List E} {env3 : List Nat},
      Inv env1 σ env2 → Inv env1 τ env3 → Inv env1 (σ ++ τ) (env2 ++ env3)
  | [], [], _, _, _, h2 => by simpa using h2
  | a :: σ, x :: env2, _, _, h1, h2 => ⟨h1.1, Inv_append h1.2 h2⟩
  | [], _ :: _, _, _, h, _ => h.elim
  | _ :: _, [], _, _, h, _ => h.elim

theorem Inv_getD {env1 : List Nat} :
    ∀ {σ : List E} {env2 : List Nat}, Inv env1 σ env2 → ∀ i, i < σ.length →
      (σ.getD i bad = .c (env2.getD i 0) ∨ ∃ j, σ.getD i bad = .v j ∧ env1[j]? = some (env2.getD i 0))
  | [], [], _, i, hi => by simp at hi
  | a :: σ, x :: env2, h, 0, _ => by simpa using h.1
  | a :: σ, x :: env2, h, i + 1, hi => by
    have := Inv_getD h.2 i (by simpa using hi)
    simpa using this
  | [], _ :: _, h, _, _ => h.elim
  | _ :: _, [], h, _, _ => h.elim

theorem Agree_of_Inv {env1 : List Nat} {σ : List E} {env2 : List Nat} (h : Inv env1 σ env2) : Agree σ env1 env2 := by
  intro i
  by_cases hi : i < σ.length
  · have hi2 : i < env2.length := by rw [← Inv_length h]; exact hi
    have hx : env2[i]? = some (env2.getD i 0) := by
      rw [List.getD_eq_getElem?_getD, List.getElem?_eq_getElem hi2]; rfl
    rw [hx]
    rcases Inv_getD h i hi with h1 | ⟨j, hj, hv⟩
    · rw [h1]; rfl
    · rw [hj]; simpa [E.evalC] using hv
  · have hi' : σ.length ≤ i := Nat.le_of_not_lt hi
    have hi2 : env2.length ≤ i := by rw [← Inv_length h]; exact hi'
    have : σ.getD i bad = bad := by simp [List.getD_eq_getElem?_getD, List.getElem?_eq_none hi']
    rw [this, bad_evalC, List.getElem?_eq_none hi2]

def asConst : E → Option Nat
  | .c n => some n
  | _ => none

theorem asConst_eq_some {e : E} {n : Nat} (h : asConst e = some n) : e = .c n := by
  cases e <;> simp_all [asConst]

/-- replay the body `b2` of a callee, with substitution `σ`, against the remaining body `comp` of the caller whose
environment currently has `n` entries; returns the final substitution, the new environment size and what is left of
`comp` -/
def chk : List E → Nat → List S → List S → Option (List E × Nat × List S)
  | σ, n, [], comp => some (σ, n, comp)
  | σ, n, .set e :: b2, comp =>
    match asConst (pe σ e) with
    | some c => chk (σ ++ [.c c]) n b2 comp
    | none =>
      match comp with
      | .set e'' :: comp' => if e'' = pe σ e then chk (σ ++ [.v n]) (n + 1) b2 comp' else none
      | _ => none
  | σ, n, .assertLt e k :: b2, comp =>
    match comp with
    | .assertLt e'' k' :: comp' => if e'' = pe σ e ∧ k' = k then chk σ n b2 comp' else none
    | _ => none

theorem chk_sound : ∀ (b2 : List S) (σ : List E) (n : Nat) (comp : List S) (σ' : List E) (n' : Nat) (rest : List S)
    (env1 env2 env2' : List Nat),
    chk σ n b2 comp = some (σ', n', rest) → Inv env1 σ env2 → env1.length = n → runC b2 env2 = some env2' →
    ∃ used ys, comp = used ++ rest ∧ runC used env1 = some (env1 ++ ys) ∧ Inv (env1 ++ ys) σ' env2' ∧
      (env1 ++ ys).length = n' := by
  intro b2
  induction b2 with
  | nil =>
    intro σ n comp σ' n' rest env1 env2 env2' h hinv hlen hrun
    simp only [chk, Option.some.injEq, Prod.mk.injEq] at h
    obtain ⟨rfl, rfl, rfl⟩ := h
    simp only [runC, Option.some.injEq] at hrun
    subst hrun
    exact ⟨[], [], by simp, by simp [runC], by simpa using hinv, by simpa using hlen⟩
  | cons s b2 ih =>
    intro σ n comp σ' n' rest env1 env2 env2' h hinv hlen hrun
    simp only [runC, Option.bind_eq_bind, Option.bind_eq_some_iff] at hrun
    obtain ⟨env2a, hstep, hrun⟩ := hrun
    have hag := Agree_of_Inv hinv
    cases s with
    | set e =>
      simp only [S.stepC, Option.bind_eq_bind, Option.bind_eq_some_iff, Option.some.injEq] at hstep
      obtain ⟨x, hx, rfl⟩ := hstep
      have hpe : (pe σ e).evalC env1 = some x := by rw [pe_sound σ env1 env2 hag e]; exact hx
      simp only [chk] at h
      split at h
      · rename_i c hc
        have hcx : c = x := by
          have := asConst_eq_some hc
          rw [this] at hpe
          simpa [E.evalC] using hpe
        subst hcx
        exact ih _ _ _ _ _ _ env1 _ _ h (Inv_append hinv (show Inv env1 [.c c] [c] from ⟨Or.inl rfl, trivial⟩)) hlen hrun
      · split at h
        · rename_i e'' comp'
          split at h
          · rename_i he
            subst he
            have hinv' : Inv (env1 ++ [x]) (σ ++ [.v n]) (env2 ++ [x]) := by
              refine Inv_append (Inv_mono [x] hinv) (show Inv (env1 ++ [x]) [.v n] [x] from ⟨Or.inr ⟨n, rfl, ?_⟩, trivial⟩)
              rw [← hlen]; simp
            obtain ⟨used, ys, hcomp, hr, hi, hl⟩ := ih _ _ _ _ _ _ (env1 ++ [x]) _ _ h hinv' (by simp [hlen]) hrun
            refine ⟨.set (pe σ e) :: used, [x] ++ ys, by simp [hcomp], ?_, by simpa using hi, by simpa using hl⟩
            simp only [runC, S.stepC, hpe, Option.bind_eq_bind, Option.bind_some]
            simpa using hr
          · simp at h
        · simp at h
    | assertLt e k =>
      simp only [S.stepC, Option.bind_eq_bind, Option.bind_eq_some_iff] at hstep
      obtain ⟨x, hx, hstep⟩ := hstep
      have hpe : (pe σ e).evalC env1 = some x := by rw [pe_sound σ env1 env2 hag e]; exact hx
      split at hstep
      · rename_i hxk
        simp only [Option.some.injEq] at hstep
        subst hstep
        simp only [chk] at h
        split at h
        · rename_i e'' k' comp'
          split at h
          · rename_i he
            obtain ⟨he, hk⟩ := he
            subst he; subst hk
            obtain ⟨used, ys, hcomp, hr, hi, hl⟩ := ih _ _ _ _ _ _ env1 _ _ h hinv hlen hrun
            refine ⟨.assertLt (pe σ e) k' :: used, ys, by simp [hcomp], ?_, hi, hl⟩
            simp only [runC, S.stepC, hpe, Option.bind_eq_bind, Option.bind_some, hxk, if_true]
            exact hr
          · simp at h
        · simp at h
      · simp at hstep

/-! ## program level -/

/-- inline a call of `P` with argument atoms `args` into the body `comp` of a caller whose environment has `n`
entries; returns the atoms of the results, the new environment size and the rest of `comp` -/
def inl (P : Prog) (args : List E) (n : Nat) (comp : List S) : Option (List E × Nat × List S) :=
  if args.length = P.nIn then
    match chk args n P.body comp with
    | some (σ', n', rest) =>
      if P.outs.all (fun i => decide (i < σ'.length)) then some (P.outs.map (fun i => σ'.getD i bad), n', rest)
      else none
    | none => none
  else none

theorem Inv_pick {env1 : List Nat} {σ' : List E} {env2' : List Nat} (h : Inv env1 σ' env2') :
    ∀ outs : List Nat, (∀ i ∈ outs, i < σ'.length) →
      Inv env1 (outs.map (fun i => σ'.getD i bad)) (pick env2' outs)
  | [], _ => trivial
  | i :: outs, hi => by
    refine ⟨?_, Inv_pick h outs (fun j hj => hi j (List.mem_cons_of_mem _ hj))⟩
    exact Inv_getD h i (hi i (List.mem_cons_self))

theorem inl_sound (P : Prog) (args : List E) (n : Nat) (comp : List S) (outs : List E) (n' : Nat) (rest : List S)
    (env1 ins out : List Nat)
    (h : inl P args n comp = some (outs, n', rest)) (hinv : Inv env1 args ins) (hlen : env1.length = n)
    (hP : P.evalC ins = some out) :
    ∃ used ys, comp = used ++ rest ∧ runC used env1 = some (env1 ++ ys) ∧ Inv (env1 ++ ys) outs out ∧
      (env1 ++ ys).length = n' := by
  unfold inl at h
  split at h
  · split at h
    · rename_i σ' n1 rest1 hchk
      split at h
      · rename_i hall
        simp only [Option.some.injEq, Prod.mk.injEq] at h
        obtain ⟨rfl, rfl, rfl⟩ := h
        unfold Prog.evalC at hP
        split at hP
        · simp only [Option.map_eq_some_iff] at hP
          obtain ⟨env2', hrun, rfl⟩ := hP
          obtain ⟨used, ys, hc, hr, hi, hl⟩ := chk_sound _ _ _ _ _ _ _ env1 ins env2' hchk hinv hlen hrun
          refine ⟨used, ys, hc, hr, Inv_pick hi _ ?_, hl⟩
          intro i hi'
          have := List.all_eq_true.1 hall i hi'
          simpa using this
        · simp at hP
      · simp at h
    · simp at h
  · simp at h

theorem Inv_init_aux : ∀ (suf pre : List Nat), Inv (pre ++ suf) ((List.range' pre.length suf.length).map E.v) suf
  | [], _ => trivial
  | x :: suf, pre => by
    refine ⟨Or.inr ⟨pre.length, rfl, by simp⟩, ?_⟩
    have := Inv_init_aux suf (pre ++ [x])
    simpa [List.append_assoc] using this

/-- the inputs of the caller -/
theorem Inv_init (ins : List Nat) : Inv ins ((List.range ins.length).map E.v) ins := by
  have := Inv_init_aux ins []
  simpa [List.range_eq_range'] using this

theorem pick_of_Inv {env1 : List Nat} : ∀ (outs : List Nat) (out : List Nat), Inv env1 (outs.map E.v) out → pick env1 outs = out
  | [], [], _ => rfl
  | i :: outs, x :: out, h => by
    have h1 : env1.getD i 0 = x := by
      rcases h.1 with h1 | ⟨j, hj, hx⟩
      · cases h1
      · cases hj; simp [List.getD_eq_getElem?_getD, hx]
    have h2 := pick_of_Inv outs out h.2
    simp only [pick, List.map_cons] at h2 ⊢
    rw [h1, h2]
  | [], _ :: _, h => h.elim
  | _ :: _, [], h => h.elim

/-- the whole body of `C` has been replayed: its checked run returns `out` -/
theorem comp_final (C : Prog) (ins envF out : List Nat) (hlen : ins.length = C.nIn)
    (hrun : runC C.body ins = some envF) (hinv : Inv envF (C.outs.map E.v) out) : C.evalC ins = some out := by
  simp [Prog.evalC, hlen, hrun, pick_of_Inv _ _ hinv]

theorem runC_append : ∀ (b1 b2 : List S) (env env1 : List Nat), runC b1 env = some env1 →
    runC (b1 ++ b2) env = runC b2 env1
  | [], b2, env, env1, h => by simp only [runC, Option.some.injEq] at h; simp [h]
  | s :: b1, b2, env, env1, h => by
    simp only [runC, Option.bind_eq_bind, Option.bind_eq_some_iff] at h
    obtain ⟨e1, h1, h2⟩ := h
    simp only [List.cons_append, runC, h1, Option.bind_eq_bind, Option.bind_some]
    exact runC_append b1 b2 e1 env1 h2

/-! ## pipelines: a composed item is a sequence of calls, each applied to the previous result followed by
constant arguments -/

/-- checked semantics of the pipeline -/
def pipeC : List (Prog × List Nat) → List Nat → Option (List Nat)
  | [], x => some x
  | (P, cs) :: rest, x => (P.evalC (x ++ cs)).bind (pipeC rest)

/-- replay the pipeline against a body -/
def pipeChk : List (Prog × List Nat) → List E → Nat → List S → Option (List E × List S)
  | [], σ, _, comp => some (σ, comp)
  | (P, cs) :: rest, σ, n, comp =>
    match inl P (σ ++ cs.map E.c) n comp with
    | some (o, n', r) => pipeChk rest o n' r
    | none => none

theorem Inv_consts (env1 : List Nat) : ∀ cs : List Nat, Inv env1 (cs.map E.c) cs
  | [] => trivial
  | _ :: cs => ⟨Or.inl rfl, Inv_consts env1 cs⟩

theorem pipe_sound : ∀ (stages : List (Prog × List Nat)) (σ : List E) (n : Nat) (comp : List S) (σF : List E)
    (restF : List S) (env1 x out : List Nat),
    pipeChk stages σ n comp = some (σF, restF) → Inv env1 σ x → env1.length = n → pipeC stages x = some out →
    ∃ used ys, comp = used ++ restF ∧ runC used env1 = some (env1 ++ ys) ∧ Inv (env1 ++ ys) σF out := by
  intro stages
  induction stages with
  | nil =>
    intro σ n comp σF restF env1 x out h hinv _ hp
    simp only [pipeChk, Option.some.injEq, Prod.mk.injEq] at h
    obtain ⟨rfl, rfl⟩ := h
    simp only [pipeC, Option.some.injEq] at hp
    subst hp
    exact ⟨[], [], by simp, by simp [runC], by simpa using hinv⟩
  | cons st stages ih =>
    intro σ n comp σF restF env1 x out h hinv hlen hp
    obtain ⟨P, cs⟩ := st
    simp only [pipeC, Option.bind_eq_some_iff] at hp
    obtain ⟨y, hP, hp⟩ := hp
    simp only [pipeChk] at h
    split at h
    · rename_i o n' r hinl
      obtain ⟨used1, ys1, hc1, hr1, hi1, hl1⟩ :=
        inl_sound P _ n comp o n' r env1 (x ++ cs) y hinl (Inv_append hinv (Inv_consts env1 cs)) hlen hP
      obtain ⟨used2, ys2, hc2, hr2, hi2⟩ := ih o n' r σF restF (env1 ++ ys1) y out h hi1 hl1 hp
      refine ⟨used1 ++ used2, ys1 ++ ys2, by simp [hc1, hc2], ?_, by simpa using hi2⟩
      rw [runC_append used1 used2 env1 _ hr1]
      simpa using hr2
    · simp at h

/-- **a composed item is the pipeline of its callees**: if replaying the pipeline consumes the whole body of `C`
and ends in the outputs of `C`, then a non-panicking run of the pipeline is a non-panicking run of `C` with the same
result, in the debug and in the release build -/
theorem pipe_prog (C : Prog) (stages : List (Prog × List Nat))
    (h : pipeChk stages ((List.range C.nIn).map E.v) C.nIn C.body = some (C.outs.map E.v, []))
    (ins out : List Nat) (hlen : ins.length = C.nIn) (hp : pipeC stages ins = some out) :
    C.evalC ins = some out ∧ C.evalW ins = out := by
  have hinv : Inv ins ((List.range C.nIn).map E.v) ins := by rw [← hlen]; exact Inv_init ins
  obtain ⟨used, ys, hc, hr, hi⟩ := pipe_sound stages _ _ _ _ _ ins ins out h hinv hlen hp
  have hC : C.evalC ins = some out := by
    apply comp_final C ins (ins ++ ys) out hlen _ hi
    rw [hc]; simpa using hr
  exact ⟨hC, Prog.evalW_of_evalC C ins out hC⟩

theorem pipeC_two (P1 P2 : Prog) (cs : List Nat) (x y out : List Nat)
    (h1 : P1.evalC (x ++ cs) = some y) (h2 : P2.evalC y = some out) :
    pipeC [(P1, cs), (P2, [])] x = some out := by
  simp [pipeC, h1, h2]

theorem pipeC_two_nil (P1 P2 : Prog) (x y out : List Nat)
    (h1 : P1.evalC x = some y) (h2 : P2.evalC y = some out) :
    pipeC [(P1, []), (P2, [])] x = some out := by
  simp [pipeC, h1, h2]

theorem pipeC_append : ∀ (s1 s2 : List (Prog × List Nat)) (x y out : List Nat),
    pipeC s1 x = some y → pipeC s2 y = some out → pipeC (s1 ++ s2) x = some out
  | [], s2, x, y, out, h1, h2 => by
    simp only [pipeC, Option.some.injEq] at h1; subst h1; simpa using h2
  | (P, cs) :: s1, s2, x, y, out, h1, h2 => by
    simp only [pipeC, Option.bind_eq_some_iff] at h1
    obtain ⟨z, hz, h1⟩ := h1
    simp only [List.cons_append, pipeC, hz, Option.bind_some]
    exact pipeC_append s1 s2 z y out h1 h2

/-! ## scripts: general data flow (every call takes earlier values, selected by index, and constants) -/

/-- an argument of a call: `inl i` = the `i`-th value computed so far (the inputs come first), `inr c` = a constant -/
abbrev Arg := Nat ⊕ Nat

def selV (V : List Nat) : Arg → Nat
  | .inl i => V.getD i 0
  | .inr c => c

def selE (σ : List E) : Arg → E
  | .inl i => σ.getD i bad
  | .inr c => .c c

def argOK (n : Nat) : Arg → Bool
  | .inl i => decide (i < n)
  | .inr _ => true

/-- checked semantics of a script: the list of all values (inputs, then the outputs of each call in turn) -/
def scriptC : List (Prog × List Arg) → List Nat → Option (List Nat)
  | [], V => some V
  | (P, as) :: rest, V => (P.evalC (as.map (selV V))).bind (fun out => scriptC rest (V ++ out))

/-- replay the script against a body -/
def scriptChk : List (Prog × List Arg) → List E → Nat → List S → Option (List E × List S)
  | [], σ, _, comp => some (σ, comp)
  | (P, as) :: rest, σ, n, comp =>
    if as.all (argOK σ.length) then
      match inl P (as.map (selE σ)) n comp with
      | some (o, n', r) => scriptChk rest (σ ++ o) n' r
      | none => none
    else none

theorem Inv_sel {env1 : List Nat} {σ : List E} {V : List Nat} (h : Inv env1 σ V) :
    ∀ as : List Arg, (∀ a ∈ as, argOK σ.length a = true) → Inv env1 (as.map (selE σ)) (as.map (selV V))
  | [], _ => trivial
  | a :: as, hok => by
    refine ⟨?_, Inv_sel h as (fun b hb => hok b (List.mem_cons_of_mem _ hb))⟩
    cases a with
    | inl i =>
      have : i < σ.length := by simpa [argOK] using hok (.inl i) List.mem_cons_self
      exact Inv_getD h i this
    | inr c => exact Or.inl rfl

theorem script_sound : ∀ (stages : List (Prog × List Arg)) (σ : List E) (n : Nat) (comp : List S) (σF : List E)
    (restF : List S) (env1 V VF : List Nat),
    scriptChk stages σ n comp = some (σF, restF) → Inv env1 σ V → env1.length = n → scriptC stages V = some VF →
    ∃ used ys, comp = used ++ restF ∧ runC used env1 = some (env1 ++ ys) ∧ Inv (env1 ++ ys) σF VF := by
  intro stages
  induction stages with
  | nil =>
    intro σ n comp σF restF env1 V VF h hinv _ hp
    simp only [scriptChk, Option.some.injEq, Prod.mk.injEq] at h
    obtain ⟨rfl, rfl⟩ := h
    simp only [scriptC, Option.some.injEq] at hp
    subst hp
    exact ⟨[], [], by simp, by simp [runC], by simpa using hinv⟩
  | cons st stages ih =>
    intro σ n comp σF restF env1 V VF h hinv hlen hp
    obtain ⟨P, as⟩ := st
    simp only [scriptC, Option.bind_eq_some_iff] at hp
    obtain ⟨y, hP, hp⟩ := hp
    simp only [scriptChk] at h
    split at h
    · rename_i hok
      split at h
      · rename_i o n' r hinl
        have hargs := Inv_sel hinv as (fun a ha => List.all_eq_true.1 hok a ha)
        obtain ⟨used1, ys1, hc1, hr1, hi1, hl1⟩ := inl_sound P _ n comp o n' r env1 _ y hinl hargs hlen hP
        have hinv' : Inv (env1 ++ ys1) (σ ++ o) (V ++ y) := Inv_append (Inv_mono ys1 hinv) hi1
        obtain ⟨used2, ys2, hc2, hr2, hi2⟩ := ih _ n' r σF restF (env1 ++ ys1) _ VF h hinv' hl1 hp
        refine ⟨used1 ++ used2, ys1 ++ ys2, by simp [hc1, hc2], ?_, by simpa using hi2⟩
        rw [runC_append used1 used2 env1 _ hr1]
        simpa using hr2
      · simp at h
    · simp at h

/-- **a composed item is the script of its callees**: `osel` selects the results among all values -/
theorem script_prog (C : Prog) (stages : List (Prog × List Arg)) (σF : List E) (osel : List Nat)
    (h : scriptChk stages ((List.range C.nIn).map E.v) C.nIn C.body = some (σF, []))
    (hout : C.outs.map E.v = osel.map (fun i => σF.getD i bad)) (hsel : osel.all (fun i => decide (i < σF.length)) = true)
    (ins VF : List Nat) (hlen : ins.length = C.nIn) (hp : scriptC stages ins = some VF) :
    C.evalC ins = some (pick VF osel) ∧ C.evalW ins = pick VF osel := by
  have hinv : Inv ins ((List.range C.nIn).map E.v) ins := by rw [← hlen]; exact Inv_init ins
  obtain ⟨used, ys, hc, hr, hi⟩ := script_sound stages _ _ _ _ _ ins ins VF h hinv hlen hp
  have hC : C.evalC ins = some (pick VF osel) := by
    apply comp_final C ins (ins ++ ys) _ hlen
    · rw [hc]; simpa using hr
    · rw [hout]
      exact Inv_pick hi osel (fun i hi' => by simpa using List.all_eq_true.1 hsel i hi')
  exact ⟨hC, Prog.evalW_of_evalC C ins _ hC⟩

/-- the decidable check of `script_prog` in one piece -/
def scriptOK (C : Prog) (stages : List (Prog × List Arg)) (osel : List Nat) : Bool :=
  match scriptChk stages ((List.range C.nIn).map E.v) C.nIn C.body with
  | some (σF, []) =>
    osel.all (fun i => decide (i < σF.length)) && decide (C.outs.map E.v = osel.map (fun i => σF.getD i bad))
  | _ => false

theorem script_prog' (C : Prog) (stages : List (Prog × List Arg)) (osel : List Nat)
    (h : scriptOK C stages osel = true)
    (ins VF : List Nat) (hlen : ins.length = C.nIn) (hp : scriptC stages ins = some VF) :
    C.evalC ins = some (pick VF osel) ∧ C.evalW ins = pick VF osel := by
  unfold scriptOK at h
  split at h
  · rename_i σF hchk
    simp only [Bool.and_eq_true, decide_eq_true_eq] at h
    exact script_prog C stages σF osel hchk h.2 h.1 ins VF hlen hp
  · simp at h

theorem scriptC_cons (P : Prog) (as : List Arg) (rest : List (Prog × List Arg)) (V out VF : List Nat)
    (h1 : P.evalC (as.map (selV V)) = some out) (h2 : scriptC rest (V ++ out) = some VF) :
    scriptC ((P, as) :: rest) V = some VF := by
  simp [scriptC, h1, h2]

end Inline

end Dalek.IR

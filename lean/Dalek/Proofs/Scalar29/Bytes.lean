import Dalek.Proofs.Scalar29.Compose
import Dalek.Model.FieldBytes
/-! # Scalar29: the byte codecs `from_bytes` and `as_bytes` -/
set_option exponentiation.threshold 600
set_option maxRecDepth 100000

namespace Dalek.Proofs.Scalar29
open Dalek.IR Dalek.Gen.Norm.Scalar29 Dalek.Gen.Consts Dalek.Model.FieldBytes
open Dalek.Proofs.Scalar52 (Lim toZ_cons toZ_nil)

/-- little-endian `u32` from four bytes, in the shape produced by the translator -/
def word32 (b0 b1 b2 b3 : Int) : Int := ((((0 + b0 * 1) + b1 * 256) + b2 * 65536) + b3 * 16777216)

theorem word32_bd {b0 b1 b2 b3 : Int} (h : Lim 256 [b0, b1, b2, b3]) :
    0 ≤ word32 b0 b1 b2 b3 ∧ word32 b0 b1 b2 b3 < 2 ^ 32 := by
  simp only [Lim, word32] at *
  omega

theorem Lim_split4 {B : Int} {a0 a1 a2 a3 : Int} {rest : List Int}
    (h : Lim B (a0 :: a1 :: a2 :: a3 :: rest)) : Lim B [a0, a1, a2, a3] ∧ Lim B rest := by
  simp only [Lim] at h ⊢
  exact ⟨⟨h.1, h.2.1, h.2.2.1, h.2.2.2.1, trivial⟩, h.2.2.2.2⟩

/-- the nine limbs of `from_bytes` as functions of the eight words -/
def limbs8 (w0 w1 w2 w3 w4 w5 w6 w7 : Int) : List Int :=
  [w0 % 2 ^ 29,
   ((w0 / 2 ^ 29) + ((w1 * 8) % 2 ^ 32)) % 2 ^ 29,
   ((w1 / 2 ^ 26) + ((w2 * 64) % 2 ^ 32)) % 2 ^ 29,
   ((w2 / 2 ^ 23) + ((w3 * 512) % 2 ^ 32)) % 2 ^ 29,
   ((w3 / 2 ^ 20) + ((w4 * 4096) % 2 ^ 32)) % 2 ^ 29,
   ((w4 / 2 ^ 17) + ((w5 * 32768) % 2 ^ 32)) % 2 ^ 29,
   ((w5 / 2 ^ 14) + ((w6 * 262144) % 2 ^ 32)) % 2 ^ 29,
   ((w6 / 2 ^ 11) + ((w7 * 2097152) % 2 ^ 32)) % 2 ^ 29,
   w7 / 2 ^ 8]

theorem from_bytes_fn_eq (x0 x1 x2 x3 x4 x5 x6 x7 x8 x9 x10 x11 x12 x13 x14 x15 x16 x17 x18 x19 x20 x21 x22 x23 x24 x25 x26 x27 x28 x29 x30 x31 : Int) :
    from_bytes_fn x0 x1 x2 x3 x4 x5 x6 x7 x8 x9 x10 x11 x12 x13 x14 x15 x16 x17 x18 x19 x20 x21 x22 x23 x24 x25 x26 x27 x28 x29 x30 x31 = limbs8 (word32 x0 x1 x2 x3) (word32 x4 x5 x6 x7) (word32 x8 x9 x10 x11) (word32 x12 x13 x14 x15) (word32 x16 x17 x18 x19) (word32 x20 x21 x22 x23) (word32 x24 x25 x26 x27) (word32 x28 x29 x30 x31) := rfl

theorem limbs8_spec (w0 w1 w2 w3 w4 w5 w6 w7 : Int)
    (h0 : 0 ≤ w0 ∧ w0 < 2 ^ 32)
    (h1 : 0 ≤ w1 ∧ w1 < 2 ^ 32)
    (h2 : 0 ≤ w2 ∧ w2 < 2 ^ 32)
    (h3 : 0 ≤ w3 ∧ w3 < 2 ^ 32)
    (h4 : 0 ≤ w4 ∧ w4 < 2 ^ 32)
    (h5 : 0 ≤ w5 ∧ w5 < 2 ^ 32)
    (h6 : 0 ≤ w6 ∧ w6 < 2 ^ 32)
    (h7 : 0 ≤ w7 ∧ w7 < 2 ^ 32) :
    ∃ o0 o1 o2 o3 o4 o5 o6 o7 o8, limbs8 w0 w1 w2 w3 w4 w5 w6 w7 = [o0, o1, o2, o3, o4, o5, o6, o7, o8] ∧ Lim (2 ^ 29) [o0, o1, o2, o3, o4, o5, o6, o7] ∧
      (0 ≤ o8 ∧ o8 < 2 ^ 24) ∧
      repZ [o0, o1, o2, o3, o4, o5, o6, o7, o8] = w0 + 2 ^ 32 * w1 + 2 ^ 64 * w2 + 2 ^ 96 * w3 + 2 ^ 128 * w4 + 2 ^ 160 * w5 + 2 ^ 192 * w6 + 2 ^ 224 * w7 := by
  refine ⟨_, _, _, _, _, _, _, _, _, rfl, ?_, ?_, ?_⟩
  · simp only [Lim, and_true]; omega
  · omega
  · simp only [repZ]; omega

theorem leValZ32_words (x0 x1 x2 x3 x4 x5 x6 x7 x8 x9 x10 x11 x12 x13 x14 x15 x16 x17 x18 x19 x20 x21 x22 x23 x24 x25 x26 x27 x28 x29 x30 x31 : Int) :
    leValZ [x0, x1, x2, x3, x4, x5, x6, x7, x8, x9, x10, x11, x12, x13, x14, x15, x16, x17, x18, x19, x20, x21, x22, x23, x24, x25, x26, x27, x28, x29, x30, x31] = word32 x0 x1 x2 x3 + 2 ^ 32 * word32 x4 x5 x6 x7 + 2 ^ 64 * word32 x8 x9 x10 x11 + 2 ^ 96 * word32 x12 x13 x14 x15 + 2 ^ 128 * word32 x16 x17 x18 x19 + 2 ^ 160 * word32 x20 x21 x22 x23 + 2 ^ 192 * word32 x24 x25 x26 x27 + 2 ^ 224 * word32 x28 x29 x30 x31 := by
  simp only [leValZ, word32]; ring

theorem from_bytes_fn_spec (x0 x1 x2 x3 x4 x5 x6 x7 x8 x9 x10 x11 x12 x13 x14 x15 x16 x17 x18 x19 x20 x21 x22 x23 x24 x25 x26 x27 x28 x29 x30 x31 : Int) (h : Lim 256 [x0, x1, x2, x3, x4, x5, x6, x7, x8, x9, x10, x11, x12, x13, x14, x15, x16, x17, x18, x19, x20, x21, x22, x23, x24, x25, x26, x27, x28, x29, x30, x31]) :
    ∃ o0 o1 o2 o3 o4 o5 o6 o7 o8, from_bytes_fn x0 x1 x2 x3 x4 x5 x6 x7 x8 x9 x10 x11 x12 x13 x14 x15 x16 x17 x18 x19 x20 x21 x22 x23 x24 x25 x26 x27 x28 x29 x30 x31 = [o0, o1, o2, o3, o4, o5, o6, o7, o8] ∧ Lim (2 ^ 29) [o0, o1, o2, o3, o4, o5, o6, o7] ∧
      (0 ≤ o8 ∧ o8 < 2 ^ 24) ∧ repZ [o0, o1, o2, o3, o4, o5, o6, o7, o8] = leValZ [x0, x1, x2, x3, x4, x5, x6, x7, x8, x9, x10, x11, x12, x13, x14, x15, x16, x17, x18, x19, x20, x21, x22, x23, x24, x25, x26, x27, x28, x29, x30, x31] := by
  obtain ⟨hb0, h⟩ := Lim_split4 h
  obtain ⟨hb1, h⟩ := Lim_split4 h
  obtain ⟨hb2, h⟩ := Lim_split4 h
  obtain ⟨hb3, h⟩ := Lim_split4 h
  obtain ⟨hb4, h⟩ := Lim_split4 h
  obtain ⟨hb5, h⟩ := Lim_split4 h
  obtain ⟨hb6, h⟩ := Lim_split4 h
  obtain ⟨hb7, h⟩ := Lim_split4 h
  rw [from_bytes_fn_eq, leValZ32_words]
  exact limbs8_spec _ _ _ _ _ _ _ _ (word32_bd hb0) (word32_bd hb1) (word32_bd hb2) (word32_bd hb3) (word32_bd hb4) (word32_bd hb5) (word32_bd hb6) (word32_bd hb7)

/-! ## `as_bytes` -/

theorem as_bytes_fn_spec (a0 a1 a2 a3 a4 a5 a6 a7 a8 : Int) (ha : Lim (2 ^ 29) [a0, a1, a2, a3, a4, a5, a6, a7]) (h8 : 0 ≤ a8 ∧ a8 < 2 ^ 24) :
    leValZ (as_bytes_fn a0 a1 a2 a3 a4 a5 a6 a7 a8) = repZ [a0, a1, a2, a3, a4, a5, a6, a7, a8] := by
  unfold as_bytes_fn
  simp only [leValZ, repZ, Lim] at *
  omega

theorem top_limb_lt_of_lt (a0 a1 a2 a3 a4 a5 a6 a7 a8 : Int) (ha : Lim (2 ^ 29) [a0, a1, a2, a3, a4, a5, a6, a7])
    (h : repZ [a0, a1, a2, a3, a4, a5, a6, a7, a8] < 2 ^ 256) : a8 < 2 ^ 24 := by
  simp only [Lim, repZ] at *
  omega

end Dalek.Proofs.Scalar29

import Dalek.Proofs.Scalar52.Basic
import Dalek.Gen.Norm.Scalar29
/-!
# Scalar29: radix-2^29 values, constants, `sub` and `add` of the translated serial-u32 scalar kernels

Same method as `Dalek/Proofs/Scalar52/Basic.lean`: the generated shallow function is shown BY `rfl` to be a
hand-named let-chain (ending in the generated `sub_fn` where `Scalar29::sub` is inlined); the value statements are
linear integer arithmetic, one limb at a time, with the final case analysis in a limb-free lemma (`sub_final`).
-/
set_option exponentiation.threshold 600
set_option maxRecDepth 100000

namespace Dalek.Proofs.Scalar29
open Dalek.IR Dalek.Gen.Norm.Scalar29 Dalek.Gen.Consts
open Dalek.Proofs.Scalar52 (Lim ell ell_eq ell_eqZ toZ_cons toZ_nil lim_of_envIn)

/-- value of a little-endian radix-2^29 limb vector (any length) -/
def val29 : List Nat → Nat
  | [] => 0
  | x :: xs => x + 2 ^ 29 * val29 xs

/-- the same over `Int` -/
def repZ : List Int → Int
  | [] => 0
  | x :: xs => x + 2 ^ 29 * repZ xs

theorem repZ_toZ : ∀ l : List Nat, repZ (toZ l) = (val29 l : Int)
  | [] => rfl
  | x :: xs => by
    rw [toZ_cons, repZ, val29, repZ_toZ xs]; push_cast; rfl

/-- inputs inside `rep n Scalar29.lim` are `< 2^29` -/
theorem lim29_of_envIn {n : Nat} {xs : List Nat} (h : EnvIn xs (Dalek.Model.Contracts.rep n Dalek.Model.Contracts.Scalar29.lim)) :
    Lim (2 ^ 29) (toZ xs) :=
  lim_of_envIn _ _ (by norm_num) n xs h

/-- the `montgomery_reduce` input bound `9·(2^29-1)^2`, plus one -/
abbrev W1 : Int := 2594073375701729290

theorem limW_of_envIn {n : Nat} {xs : List Nat} (h : EnvIn xs (Dalek.Model.Contracts.rep n Dalek.Model.Contracts.Scalar29.wide)) :
    Lim W1 (toZ xs) :=
  lim_of_envIn _ _ (by norm_num [W1]) n xs h

/-- converse: a `Nat` vector of the right length whose `Int` image is in `[0, h]` satisfies `rep n (ub h)` -/
theorem envIn_of_lim (h : Nat) :
    ∀ (n : Nat) (xs : List Nat), xs.length = n → Lim ((h : Int) + 1) (toZ xs) →
      EnvIn xs (Dalek.Model.Contracts.rep n (Dalek.Model.Contracts.ub h))
  | 0, [], _, _ => trivial
  | 0, _ :: _, hl, _ => by simp at hl
  | n + 1, [], hl, _ => by simp at hl
  | n + 1, x :: xs, hl, hx => by
    rw [toZ_cons] at hx
    simp only [Dalek.Model.Contracts.rep, List.replicate_succ, EnvIn]
    refine ⟨⟨Nat.zero_le _, ?_, ?_⟩, envIn_of_lim h n xs (by simpa using hl) hx.2⟩
    · have := hx.1.2
      simp only [Dalek.Model.Contracts.ub]
      omega
    · simp [Dalek.Model.Contracts.ub]

/-! ## the constants (facts about the REGENERATED literals) -/

theorem val29_L : val29 U32.L = ell := by decide +kernel
theorem val29_R : val29 U32.R = 2 ^ 261 % ell := by decide +kernel
theorem val29_RR : val29 U32.RR = (2 ^ 261) ^ 2 % ell := by decide +kernel
theorem lfactor_spec : U32.LFACTOR * U32.L.getD 0 0 % 2 ^ 29 = 2 ^ 29 - 1 := by decide +kernel

theorem repZ9_bd (a0 a1 a2 a3 a4 a5 a6 a7 a8 : Int) (h : Lim (2 ^ 29) [a0, a1, a2, a3, a4, a5, a6, a7, a8]) :
    0 ≤ repZ [a0, a1, a2, a3, a4, a5, a6, a7, a8] ∧ repZ [a0, a1, a2, a3, a4, a5, a6, a7, a8] < 2 ^ 261 := by
  simp only [Lim, repZ] at *
  omega

/-! ## `sub` -/

/-- one limb of the borrow chain `borrow = a[i].wrapping_sub(b[i] + (borrow >> 31))` -/
theorem sub_limb (a b c w : Int) (ha0 : 0 ≤ a) (ha : a < 2 ^ 29) (hb0 : 0 ≤ b) (hb : b < 2 ^ 29)
    (hc0 : 0 ≤ c) (hc : c ≤ 1) (hw : w = (a - (b + c)) % 2 ^ 32) :
    0 ≤ w / 2 ^ 31 ∧ w / 2 ^ 31 ≤ 1 ∧ w % 2 ^ 29 + b + c = a + 2 ^ 29 * (w / 2 ^ 31) := by
  omega

/-- limb-free end of the argument -/
theorem sub_final (A B D O m k : Int) (hA : 0 ≤ A ∧ A < 2 ^ 261) (hB : 0 ≤ B ∧ B < 2 ^ 261)
    (hD : 0 ≤ D ∧ D < 2 ^ 261) (hO : 0 ≤ O ∧ O < 2 ^ 261) (hm : 0 ≤ m ∧ m ≤ 1)
    (hd : D + B = A + 2 ^ 261 * m)
    (ho : O + 2 ^ 261 * k = D + (if m = 0 then 0 else (ell : Int))) :
    O = (A - B + (if A < B then (ell : Int) else 0)) % 2 ^ 261 := by
  rw [ell_eqZ] at *
  split_ifs with hlt <;> split_ifs at ho with hm0 <;> omega

/-- `sub_fn` is the borrow chain followed by the conditional addition of the literal `L`
(structural equality, checked by `rfl`). -/
theorem sub_fn_eq (a0 a1 a2 a3 a4 a5 a6 a7 a8 b0 b1 b2 b3 b4 b5 b6 b7 b8 : Int) : sub_fn a0 a1 a2 a3 a4 a5 a6 a7 a8 b0 b1 b2 b3 b4 b5 b6 b7 b8 =
    (
let w0 := (a0 - (b0 + 0)) % 2 ^ 32
     let w1 := (a1 - (b1 + w0 / 2 ^ 31)) % 2 ^ 32
     let w2 := (a2 - (b2 + w1 / 2 ^ 31)) % 2 ^ 32
     let w3 := (a3 - (b3 + w2 / 2 ^ 31)) % 2 ^ 32
     let w4 := (a4 - (b4 + w3 / 2 ^ 31)) % 2 ^ 32
     let w5 := (a5 - (b5 + w4 / 2 ^ 31)) % 2 ^ 32
     let w6 := (a6 - (b6 + w5 / 2 ^ 31)) % 2 ^ 32
     let w7 := (a7 - (b7 + w6 / 2 ^ 31)) % 2 ^ 32
     let w8 := (a8 - (b8 + w7 / 2 ^ 31)) % 2 ^ 32
     let m := w8 / 2 ^ 31
     let t0 := (0 + w0 % 2 ^ 29) + (if m = 0 then 0 else 485872621)
     let t1 := (t0 / 2 ^ 29 + w1 % 2 ^ 29) + (if m = 0 then 0 else 9640146)
     let t2 := (t1 / 2 ^ 29 + w2 % 2 ^ 29) + (if m = 0 then 0 else 501691798)
     let t3 := (t2 / 2 ^ 29 + w3 % 2 ^ 29) + (if m = 0 then 0 else 502512965)
     let t4 := (t3 / 2 ^ 29 + w4 % 2 ^ 29) + (if m = 0 then 0 else 333)
     let t5 := (t4 / 2 ^ 29 + w5 % 2 ^ 29) + (if m = 0 then 0 else 0)
     let t6 := (t5 / 2 ^ 29 + w6 % 2 ^ 29) + (if m = 0 then 0 else 0)
     let t7 := (t6 / 2 ^ 29 + w7 % 2 ^ 29) + (if m = 0 then 0 else 0)
     let t8 := (t7 / 2 ^ 29 + w8 % 2 ^ 29) + (if m = 0 then 0 else 1048576)
     [t0 % 2 ^ 29, t1 % 2 ^ 29, t2 % 2 ^ 29, t3 % 2 ^ 29, t4 % 2 ^ 29, t5 % 2 ^ 29, t6 % 2 ^ 29, t7 % 2 ^ 29, t8 % 2 ^ 29]) := rfl

/-- `sub` on arbitrary 29-bit limb vectors: `a - b`, plus `l` if that is negative, modulo `2^261`. -/
theorem sub_fn_spec (a0 a1 a2 a3 a4 a5 a6 a7 a8 b0 b1 b2 b3 b4 b5 b6 b7 b8 : Int)
    (ha : Lim (2 ^ 29) [a0, a1, a2, a3, a4, a5, a6, a7, a8]) (hb : Lim (2 ^ 29) [b0, b1, b2, b3, b4, b5, b6, b7, b8]) :
    ∃ o0 o1 o2 o3 o4 o5 o6 o7 o8, sub_fn a0 a1 a2 a3 a4 a5 a6 a7 a8 b0 b1 b2 b3 b4 b5 b6 b7 b8 = [o0, o1, o2, o3, o4, o5, o6, o7, o8] ∧
      Lim (2 ^ 29) [o0, o1, o2, o3, o4, o5, o6, o7, o8] ∧
      repZ [o0, o1, o2, o3, o4, o5, o6, o7, o8] = (repZ [a0, a1, a2, a3, a4, a5, a6, a7, a8] - repZ [b0, b1, b2, b3, b4, b5, b6, b7, b8]
        + (if repZ [a0, a1, a2, a3, a4, a5, a6, a7, a8] < repZ [b0, b1, b2, b3, b4, b5, b6, b7, b8] then (ell : Int) else 0)) % 2 ^ 261 := by
  rw [sub_fn_eq]
  extract_lets w0 w1 w2 w3 w4 w5 w6 w7 w8 m t0 t1 t2 t3 t4 t5 t6 t7 t8
  have hlo : Lim (2 ^ 29) [t0 % 2 ^ 29, t1 % 2 ^ 29, t2 % 2 ^ 29, t3 % 2 ^ 29, t4 % 2 ^ 29, t5 % 2 ^ 29, t6 % 2 ^ 29, t7 % 2 ^ 29, t8 % 2 ^ 29] := by simp only [Lim, and_true]; omega
  have hld : Lim (2 ^ 29) [w0 % 2 ^ 29, w1 % 2 ^ 29, w2 % 2 ^ 29, w3 % 2 ^ 29, w4 % 2 ^ 29, w5 % 2 ^ 29, w6 % 2 ^ 29, w7 % 2 ^ 29, w8 % 2 ^ 29] := by simp only [Lim, and_true]; omega
  refine ⟨_, _, _, _, _, _, _, _, _, rfl, hlo, ?_⟩
  have hA := repZ9_bd a0 a1 a2 a3 a4 a5 a6 a7 a8 ha
  have hB := repZ9_bd b0 b1 b2 b3 b4 b5 b6 b7 b8 hb
  have hD := repZ9_bd _ _ _ _ _ _ _ _ _ hld
  have hO := repZ9_bd _ _ _ _ _ _ _ _ _ hlo
  have hm : 0 ≤ m ∧ m ≤ 1 ∧ repZ [w0 % 2 ^ 29, w1 % 2 ^ 29, w2 % 2 ^ 29, w3 % 2 ^ 29, w4 % 2 ^ 29, w5 % 2 ^ 29, w6 % 2 ^ 29, w7 % 2 ^ 29, w8 % 2 ^ 29] + repZ [b0, b1, b2, b3, b4, b5, b6, b7, b8] = repZ [a0, a1, a2, a3, a4, a5, a6, a7, a8] + 2 ^ 261 * m := by
    simp only [Lim, repZ] at ha hb ⊢
    obtain ⟨h0a, h0b, h0⟩ := sub_limb a0 b0 0 w0 (by omega) (by omega) (by omega) (by omega) (by omega) (by omega) rfl
    obtain ⟨h1a, h1b, h1⟩ := sub_limb a1 b1 _ w1 (by omega) (by omega) (by omega) (by omega) h0a h0b rfl
    obtain ⟨h2a, h2b, h2⟩ := sub_limb a2 b2 _ w2 (by omega) (by omega) (by omega) (by omega) h1a h1b rfl
    obtain ⟨h3a, h3b, h3⟩ := sub_limb a3 b3 _ w3 (by omega) (by omega) (by omega) (by omega) h2a h2b rfl
    obtain ⟨h4a, h4b, h4⟩ := sub_limb a4 b4 _ w4 (by omega) (by omega) (by omega) (by omega) h3a h3b rfl
    obtain ⟨h5a, h5b, h5⟩ := sub_limb a5 b5 _ w5 (by omega) (by omega) (by omega) (by omega) h4a h4b rfl
    obtain ⟨h6a, h6b, h6⟩ := sub_limb a6 b6 _ w6 (by omega) (by omega) (by omega) (by omega) h5a h5b rfl
    obtain ⟨h7a, h7b, h7⟩ := sub_limb a7 b7 _ w7 (by omega) (by omega) (by omega) (by omega) h6a h6b rfl
    obtain ⟨h8a, h8b, h8⟩ := sub_limb a8 b8 _ w8 (by omega) (by omega) (by omega) (by omega) h7a h7b rfl
    have hmdef : m = w8 / 2 ^ 31 := rfl
    clear_value w0 w1 w2 w3 w4 w5 w6 w7 w8 m
    clear hlo hld hA hB hD hO
    omega
  have ho : repZ [t0 % 2 ^ 29, t1 % 2 ^ 29, t2 % 2 ^ 29, t3 % 2 ^ 29, t4 % 2 ^ 29, t5 % 2 ^ 29, t6 % 2 ^ 29, t7 % 2 ^ 29, t8 % 2 ^ 29] + 2 ^ 261 * (t8 / 2 ^ 29)
      = repZ [w0 % 2 ^ 29, w1 % 2 ^ 29, w2 % 2 ^ 29, w3 % 2 ^ 29, w4 % 2 ^ 29, w5 % 2 ^ 29, w6 % 2 ^ 29, w7 % 2 ^ 29, w8 % 2 ^ 29] + (if m = 0 then 0 else (ell : Int)) := by
    rw [ell_eqZ]
    simp only [repZ]
    clear hlo hld hA hB hD hO hm
    by_cases hm0 : m = 0
    · simp only [hm0, if_true, t0, t1, t2, t3, t4, t5, t6, t7, t8]; omega
    · simp only [hm0, if_false, t0, t1, t2, t3, t4, t5, t6, t7, t8]; omega
  exact sub_final _ _ _ _ m (t8 / 2 ^ 29) hA hB hD hO ⟨hm.1, hm.2.1⟩ hm.2.2 ho

theorem L_literal : toZ U32.L = [485872621, 9640146, 501691798, 502512965, 333, 0, 0, 0, 1048576] := rfl

theorem repZ_L : repZ [485872621, 9640146, 501691798, 502512965, 333, 0, 0, 0, 1048576] = (ell : Int) := by
  rw [ell_eqZ]; simp only [repZ]; norm_num

/-- `sub(r, L)` for `r < 2l`: the canonical representative `r mod l`
(the tail of `add` and of `montgomery_reduce`). -/
theorem sub_fn_L_spec (r0 r1 r2 r3 r4 r5 r6 r7 r8 : Int) (hr : Lim (2 ^ 29) [r0, r1, r2, r3, r4, r5, r6, r7, r8])
    (h2 : repZ [r0, r1, r2, r3, r4, r5, r6, r7, r8] < 2 * ell) :
    ∃ o0 o1 o2 o3 o4 o5 o6 o7 o8, sub_fn r0 r1 r2 r3 r4 r5 r6 r7 r8 485872621 9640146 501691798 502512965 333 0 0 0 1048576
        = [o0, o1, o2, o3, o4, o5, o6, o7, o8] ∧ Lim (2 ^ 29) [o0, o1, o2, o3, o4, o5, o6, o7, o8] ∧
      repZ [o0, o1, o2, o3, o4, o5, o6, o7, o8] = repZ [r0, r1, r2, r3, r4, r5, r6, r7, r8] % ell := by
  obtain ⟨o0, o1, o2, o3, o4, o5, o6, o7, o8, he, hl, hv⟩ := sub_fn_spec r0 r1 r2 r3 r4 r5 r6 r7 r8 485872621 9640146 501691798 502512965 333 0 0 0 1048576 hr (by simp only [Lim]; norm_num)
  refine ⟨o0, o1, o2, o3, o4, o5, o6, o7, o8, he, hl, ?_⟩
  rw [hv, repZ_L]
  have h0 := (repZ9_bd r0 r1 r2 r3 r4 r5 r6 r7 r8 hr).1
  generalize repZ [r0, r1, r2, r3, r4, r5, r6, r7, r8] = R at *
  rw [ell_eqZ] at *
  split_ifs <;> omega

/-- `sub` on canonical inputs is subtraction modulo `l`. -/
theorem sub_fn_canon (a0 a1 a2 a3 a4 a5 a6 a7 a8 b0 b1 b2 b3 b4 b5 b6 b7 b8 : Int)
    (ha : Lim (2 ^ 29) [a0, a1, a2, a3, a4, a5, a6, a7, a8]) (hb : Lim (2 ^ 29) [b0, b1, b2, b3, b4, b5, b6, b7, b8])
    (hal : repZ [a0, a1, a2, a3, a4, a5, a6, a7, a8] < ell) (hbl : repZ [b0, b1, b2, b3, b4, b5, b6, b7, b8] < ell) :
    ∃ o0 o1 o2 o3 o4 o5 o6 o7 o8, sub_fn a0 a1 a2 a3 a4 a5 a6 a7 a8 b0 b1 b2 b3 b4 b5 b6 b7 b8 = [o0, o1, o2, o3, o4, o5, o6, o7, o8] ∧
      Lim (2 ^ 29) [o0, o1, o2, o3, o4, o5, o6, o7, o8] ∧
      repZ [o0, o1, o2, o3, o4, o5, o6, o7, o8] = (repZ [a0, a1, a2, a3, a4, a5, a6, a7, a8] - repZ [b0, b1, b2, b3, b4, b5, b6, b7, b8]) % ell := by
  obtain ⟨o0, o1, o2, o3, o4, o5, o6, o7, o8, he, hl, hv⟩ := sub_fn_spec a0 a1 a2 a3 a4 a5 a6 a7 a8 b0 b1 b2 b3 b4 b5 b6 b7 b8 ha hb
  refine ⟨o0, o1, o2, o3, o4, o5, o6, o7, o8, he, hl, ?_⟩
  rw [hv]
  have h0 := (repZ9_bd a0 a1 a2 a3 a4 a5 a6 a7 a8 ha).1
  have h1 := (repZ9_bd b0 b1 b2 b3 b4 b5 b6 b7 b8 hb).1
  generalize repZ [a0, a1, a2, a3, a4, a5, a6, a7, a8] = A at *
  generalize repZ [b0, b1, b2, b3, b4, b5, b6, b7, b8] = B at *
  rw [ell_eqZ] at *
  split_ifs <;> omega

/-! ## `add` -/

/-- `add_fn` is the carry chain followed by `sub(·, L)` (structural equality, by `rfl`). -/
theorem add_fn_eq (a0 a1 a2 a3 a4 a5 a6 a7 a8 b0 b1 b2 b3 b4 b5 b6 b7 b8 : Int) :
    add_fn a0 a1 a2 a3 a4 a5 a6 a7 a8 b0 b1 b2 b3 b4 b5 b6 b7 b8 =
      (
let s0 := (a0 + b0) + 0
       let s1 := (a1 + b1) + s0 / 2 ^ 29
       let s2 := (a2 + b2) + s1 / 2 ^ 29
       let s3 := (a3 + b3) + s2 / 2 ^ 29
       let s4 := (a4 + b4) + s3 / 2 ^ 29
       let s5 := (a5 + b5) + s4 / 2 ^ 29
       let s6 := (a6 + b6) + s5 / 2 ^ 29
       let s7 := (a7 + b7) + s6 / 2 ^ 29
       let s8 := (a8 + b8) + s7 / 2 ^ 29
       sub_fn (s0 % 2 ^ 29) (s1 % 2 ^ 29) (s2 % 2 ^ 29) (s3 % 2 ^ 29) (s4 % 2 ^ 29) (s5 % 2 ^ 29) (s6 % 2 ^ 29) (s7 % 2 ^ 29) (s8 % 2 ^ 29)
         485872621 9640146 501691798 502512965 333 0 0 0 1048576) := rfl

theorem add_fn_spec (a0 a1 a2 a3 a4 a5 a6 a7 a8 b0 b1 b2 b3 b4 b5 b6 b7 b8 : Int)
    (ha : Lim (2 ^ 29) [a0, a1, a2, a3, a4, a5, a6, a7, a8]) (hb : Lim (2 ^ 29) [b0, b1, b2, b3, b4, b5, b6, b7, b8])
    (hal : repZ [a0, a1, a2, a3, a4, a5, a6, a7, a8] < ell) (hbl : repZ [b0, b1, b2, b3, b4, b5, b6, b7, b8] < ell) :
    ∃ o0 o1 o2 o3 o4 o5 o6 o7 o8, add_fn a0 a1 a2 a3 a4 a5 a6 a7 a8 b0 b1 b2 b3 b4 b5 b6 b7 b8 = [o0, o1, o2, o3, o4, o5, o6, o7, o8] ∧
      Lim (2 ^ 29) [o0, o1, o2, o3, o4, o5, o6, o7, o8] ∧
      repZ [o0, o1, o2, o3, o4, o5, o6, o7, o8] = (repZ [a0, a1, a2, a3, a4, a5, a6, a7, a8] + repZ [b0, b1, b2, b3, b4, b5, b6, b7, b8]) % ell := by
  rw [add_fn_eq]
  extract_lets s0 s1 s2 s3 s4 s5 s6 s7 s8
  have hs : repZ [s0 % 2 ^ 29, s1 % 2 ^ 29, s2 % 2 ^ 29, s3 % 2 ^ 29, s4 % 2 ^ 29, s5 % 2 ^ 29, s6 % 2 ^ 29, s7 % 2 ^ 29, s8 % 2 ^ 29]
      = repZ [a0, a1, a2, a3, a4, a5, a6, a7, a8] + repZ [b0, b1, b2, b3, b4, b5, b6, b7, b8] := by
    simp only [Lim, repZ] at *
    rw [ell_eqZ] at *
    have e0 : s0 = (a0 + b0) + 0 := rfl
    have e1 : s1 = (a1 + b1) + s0 / 2 ^ 29 := rfl
    have e2 : s2 = (a2 + b2) + s1 / 2 ^ 29 := rfl
    have e3 : s3 = (a3 + b3) + s2 / 2 ^ 29 := rfl
    have e4 : s4 = (a4 + b4) + s3 / 2 ^ 29 := rfl
    have e5 : s5 = (a5 + b5) + s4 / 2 ^ 29 := rfl
    have e6 : s6 = (a6 + b6) + s5 / 2 ^ 29 := rfl
    have e7 : s7 = (a7 + b7) + s6 / 2 ^ 29 := rfl
    have e8 : s8 = (a8 + b8) + s7 / 2 ^ 29 := rfl
    clear_value s0 s1 s2 s3 s4 s5 s6 s7 s8
    omega
  obtain ⟨o0, o1, o2, o3, o4, o5, o6, o7, o8, he, hl, hv⟩ := sub_fn_L_spec (s0 % 2 ^ 29) (s1 % 2 ^ 29) (s2 % 2 ^ 29) (s3 % 2 ^ 29) (s4 % 2 ^ 29) (s5 % 2 ^ 29) (s6 % 2 ^ 29) (s7 % 2 ^ 29) (s8 % 2 ^ 29)
    (by simp only [Lim, and_true]; omega) (by rw [hs]; omega)
  exact ⟨o0, o1, o2, o3, o4, o5, o6, o7, o8, he, hl, by rw [hv, hs]⟩

end Dalek.Proofs.Scalar29

import Dalek.Proofs.Scalar52.Basic
import Dalek.Gen.Norm.Scalar29
/-!
# Scalar29: radix-2^29 values, constants, `sub` and `add` of the translated serial-u32 scalar kernels

Same method as `Dalek/Proofs/Scalar52/Basic.lean`: the generated shallow function is shown BY `rfl` to be a
hand-named let-chain (ending in the generated `sub_fn` where `Scalar29::sub` is inlined); the value statements are
linear integer arithmetic, one limb at a time, with the final case analysis in a limb-free lemma (`sub_final`).
-/
set_option exponentiation.threshold 600
set_option maxRecDepth 100000

namespace Dalek.Proofs.Scalar29
open Dalek.IR Dalek.Gen.Norm.Scalar29 Dalek.Gen.Consts
open Dalek.Proofs.Scalar52 (Lim ell ell_eq ell_eqZ toZ_cons toZ_nil lim_of_envIn)

/-- value of a little-endian radix-2^29 limb vector (any length) -/
def val29 : List Nat → Nat
  | [] => 0
  | x :: xs => x + 2 ^ 29 * val29 xs

/-- the same over `Int` -/
def repZ : List Int → Int
  | [] => 0
  | x :: xs => x + 2 ^ 29 * repZ xs

theorem repZ_toZ : ∀ l : List Nat, repZ (toZ l) = (val29 l : Int)
  | [] => rfl
  | x :: xs => by
    rw [toZ_cons, repZ, val29, repZ_toZ xs]; push_cast; rfl

/-- inputs inside `rep n Scalar29.lim` are `< 2^29` -/
theorem lim29_of_envIn {n : Nat} {xs : List Nat} (h : EnvIn xs (Dalek.Model.Contracts.rep n Dalek.Model.Contracts.Scalar29.lim)) :
    Lim (2 ^ 29) (toZ xs) :=
  lim_of_envIn _ _ (by norm_num) n xs h

/-- the `montgomery_reduce` input bound `9·(2^29-1)^2`, plus one -/
abbrev W1 : Int := 2594073375701729290

theorem limW_of_envIn {n : Nat} {xs : List Nat} (h : EnvIn xs (Dalek.Model.Contracts.rep n Dalek.Model.Contracts.Scalar29.wide)) :
    Lim W1 (toZ xs) :=
  lim_of_envIn _ _ (by norm_num [W1]) n xs h

/-- converse: a `Nat` vector of the right length whose `Int` image is in `[0, h]` satisfies `rep n (ub h)` -/
theorem envIn_of_lim (h : Nat) :
    ∀ (n : Nat) (xs : List Nat), xs.length = n → Lim ((h : Int) + 1) (toZ xs) →
      EnvIn xs (Dalek.Model.Contracts.rep n (Dalek.Model.Contracts.ub h))
  | 0, [], _, _ => trivial
  | 0, _ :: _, hl, _ => by simp at hl
  | n + 1, [], hl, _ => by simp at hl
  | n + 1, x :: xs, hl, hx => by
    rw [toZ_cons] at hx
    simp only [Dalek.Model.Contracts.rep, List.replicate_succ, EnvIn]
    refine ⟨⟨Nat.zero_le _, ?_, ?_⟩, envIn_of_lim h n xs (by simpa using hl) hx.2⟩
    · have := hx.1.2
      simp only [Dalek.Model.Contracts.ub]
      omega
    · simp [Dalek.Model.Contracts.ub]

/-! ## the constants (facts about the REGENERATED literals) -/

theorem val29_L : val29 U32.L = ell := by decide +kernel
theorem val29_R : val29 U32.R = 2 ^ 261 % ell := by decide +kernel
theorem val29_RR : val29 U32.RR = (2 ^ 261) ^ 2 % ell := by decide +kernel
theorem lfactor_spec : U32.LFACTOR * U32.L.getD 0 0 % 2 ^ 29 = 2 ^ 29 - 1 := by decide +kernel

theorem repZ9_bd (a0 a1 a2 a3 a4 a5 a6 a7 a8 : Int) (h : Lim (2 ^ 29) [a0, a1, a2, a3, a4, a5, a6, a7, a8]) :
    0 ≤ repZ [a0, a1, a2, a3, a4, a5, a6, a7, a8] ∧ repZ [a0, a1, a2, a3, a4, a5, a6, a7, a8] < 2 ^ 261 := by
  simp only [Lim, repZ] at *
  omega

/-! ## `sub` -/

/-- one limb of the borrow chain `borrow = a[i].wrapping_sub(b[i] + (borrow >> 31))` -/
theorem sub_limb (a b c w : Int) (ha0 : 0 ≤ a) (ha : a < 2 ^ 29) (hb0 : 0 ≤ b) (hb : b < 2 ^ 29)
    (hc0 : 0 ≤ c) (hc : c ≤ 1) (hw : w = (a - (b + c)) % 2 ^ 32) :
    0 ≤ w / 2 ^ 31 ∧ w / 2 ^ 31 ≤ 1 ∧ w % 2 ^ 29 + b + c = a + 2 ^ 29 * (w / 2 ^ 31) := by
  omega

/-- limb-free end of the argument -/
theorem sub_final (A B D O m k : Int) (hA : 0 ≤ A ∧ A < 2 ^ 261) (hB : 0 ≤ B ∧ B < 2 ^ 261)
    (hD : 0 ≤ D ∧ D < 2 ^ 261) (hO : 0 ≤ O ∧ O < 2 ^ 261) (hm : 0 ≤ m ∧ m ≤ 1)
    (hd : D + B = A + 2 ^ 261 * m)
    (ho : O + 2 ^ 261 * k = D + (if m = 0 then 0 else (ell : Int))) :
    O = (A - B + (if A < B then (ell : Int) else 0)) % 2 ^ 261 := by
  rw [ell_eqZ] at *
  split_ifs with hlt <;> split_ifs at ho with hm0 <;> omega

/-- `sub_fn` is the borrow chain followed by the conditional addition of the literal `L`
(structural equality, checked by `rfl`). -/
theorem sub_fn_eq (a0 a1 a2 a3 a4 a5 a6 a7 a8 b0 b1 b2 b3 b4 b5 b6 b7 b8 : Int) : sub_fn a0 a1 a2 a3 a4 a5 a6 a7 a8 b0 b1 b2 b3 b4 b5 b6 b7 b8 =
    (
let w0 := (a0 - (b0 + 0)) % 2 ^ 32
     let w1 := (a1 - (b1 + w0 / 2 ^ 31)) % 2 ^ 32
     let w2 := (a2 - (b2 + w1 / 2 ^ 31)) % 2 ^ 32
     let w3 := (a3 - (b3 + w2 / 2 ^ 31)) % 2 ^ 32
     let w4 := (a4 - (b4 + w3 / 2 ^ 31)) % 2 ^ 32
     let w5 := (a5 - (b5 + w4 / 2 ^ 31)) % 2 ^ 32
     let w6 := (a6 - (b6 + w5 / 2 ^ 31)) % 2 ^ 32
     let w7 := (a7 - (b7 + w6 / 2 ^ 31)) % 2 ^ 32
     let w8 := (a8 - (b8 + w7 / 2 ^ 31)) % 2 ^ 32
     let m := w8 / 2 ^ 31
     let t0 := (0 + w0 % 2 ^ 29) + (if m = 0 then 0 else 485872621)
     let t1 := (t0 / 2 ^ 29 + w1 % 2 ^ 29) + (if m = 0 then 0 else 9640146)
     let t2 := (t1 / 2 ^ 29 + w2 % 2 ^ 29) + (if m = 0 then 0 else 501691798)
     let t3 := (t2 / 2 ^ 29 + w3 % 2 ^ 29) + (if m = 0 then 0 else 502512965)
     let t4 := (t3 / 2 ^ 29 + w4 % 2 ^ 29) + (if m = 0 then 0 else 333)
     let t5 := (t4 / 2 ^ 29 + w5 % 2 ^ 29) + (if m = 0 then 0 else 0)
     let t6 := (t5 / 2 ^ 29 + w6 % 2 ^ 29) + (if m = 0 then 0 else 0)
     let t7 := (t6 / 2 ^ 29 + w7 % 2 ^ 29) + (if m = 0 then 0 else 0)
     let t8 := (t7 / 2 ^ 29 + w8 % 2 ^ 29) + (if m = 0 then 0 else 1048576)
     [t0 % 2 ^ 29, t1 % 2 ^ 29, t2 % 2 ^ 29, t3 % 2 ^ 29, t4 % 2 ^ 29, t5 % 2 ^ 29, t6 % 2 ^ 29, t7 % 2 ^ 29, t8 % 2 ^ 29]) := rfl

theorem sub_core (a0 a1 a2 a3 a4 a5 a6 a7 a8 b0 b1 b2 b3 b4 b5 b6 b7 b8 w0 w1 w2 w3 w4 w5 w6 w7 w8 m t0 t1 t2 t3 t4 t5 t6 t7 t8 : Int)
    (ha : Lim (2 ^ 29) [a0, a1, a2, a3, a4, a5, a6, a7, a8]) (hb : Lim (2 ^ 29) [b0, b1, b2, b3, b4, b5, b6, b7, b8])
    (hw0 : w0 = (a0 - (b0 + 0)) % 2 ^ 32)
    (hw1 : w1 = (a1 - (b1 + w0 / 2 ^ 31)) % 2 ^ 32)
    (hw2 : w2 = (a2 - (b2 + w1 / 2 ^ 31)) % 2 ^ 32)
    (hw3 : w3 = (a3 - (b3 + w2 / 2 ^ 31)) % 2 ^ 32)
    (hw4 : w4 = (a4 - (b4 + w3 / 2 ^ 31)) % 2 ^ 32)
    (hw5 : w5 = (a5 - (b5 + w4 / 2 ^ 31)) % 2 ^ 32)
    (hw6 : w6 = (a6 - (b6 + w5 / 2 ^ 31)) % 2 ^ 32)
    (hw7 : w7 = (a7 - (b7 + w6 / 2 ^ 31)) % 2 ^ 32)
    (hw8 : w8 = (a8 - (b8 + w7 / 2 ^ 31)) % 2 ^ 32)
    (hmdef : m = w8 / 2 ^ 31)
    (E0 : t0 = (0 + w0 % 2 ^ 29) + (if m = 0 then 0 else 485872621))
    (E1 : t1 = (t0 / 2 ^ 29 + w1 % 2 ^ 29) + (if m = 0 then 0 else 9640146))
    (E2 : t2 = (t1 / 2 ^ 29 + w2 % 2 ^ 29) + (if m = 0 then 0 else 501691798))
    (E3 : t3 = (t2 / 2 ^ 29 + w3 % 2 ^ 29) + (if m = 0 then 0 else 502512965))
    (E4 : t4 = (t3 / 2 ^ 29 + w4 % 2 ^ 29) + (if m = 0 then 0 else 333))
    (E5 : t5 = (t4 / 2 ^ 29 + w5 % 2 ^ 29) + (if m = 0 then 0 else 0))
    (E6 : t6 = (t5 / 2 ^ 29 + w6 % 2 ^ 29) + (if m = 0 then 0 else 0))
    (E7 : t7 = (t6 / 2 ^ 29 + w7 % 2 ^ 29) + (if m = 0 then 0 else 0))
    (E8 : t8 = (t7 / 2 ^ 29 + w8 % 2 ^ 29) + (if m = 0 then 0 else 1048576)) :
    Lim (2 ^ 29) [t0 % 2 ^ 29, t1 % 2 ^ 29, t2 % 2 ^ 29, t3 % 2 ^ 29, t4 % 2 ^ 29, t5 % 2 ^ 29, t6 % 2 ^ 29, t7 % 2 ^ 29, t8 % 2 ^ 29] ∧
    repZ [t0 % 2 ^ 29, t1 % 2 ^ 29, t2 % 2 ^ 29, t3 % 2 ^ 29, t4 % 2 ^ 29, t5 % 2 ^ 29, t6 % 2 ^ 29, t7 % 2 ^ 29, t8 % 2 ^ 29] = (repZ [a0, a1, a2, a3, a4, a5, a6, a7, a8] - repZ [b0, b1, b2, b3, b4, b5, b6, b7, b8]
        + (if repZ [a0, a1, a2, a3, a4, a5, a6, a7, a8] < repZ [b0, b1, b2, b3, b4, b5, b6, b7, b8] then (ell : Int) else 0)) % 2 ^ 261 := by
  have hlo : Lim (2 ^ 29) [t0 % 2 ^ 29, t1 % 2 ^ 29, t2 % 2 ^ 29, t3 % 2 ^ 29, t4 % 2 ^ 29, t5 % 2 ^ 29, t6 % 2 ^ 29, t7 % 2 ^ 29, t8 % 2 ^ 29] := by simp only [Lim, and_true]; omega
  have hld : Lim (2 ^ 29) [w0 % 2 ^ 29, w1 % 2 ^ 29, w2 % 2 ^ 29, w3 % 2 ^ 29, w4 % 2 ^ 29, w5 % 2 ^ 29, w6 % 2 ^ 29, w7 % 2 ^ 29, w8 % 2 ^ 29] := by simp only [Lim, and_true]; omega
  refine ⟨hlo, ?_⟩
  have hA := repZ9_bd a0 a1 a2 a3 a4 a5 a6 a7 a8 ha
  have hB := repZ9_bd b0 b1 b2 b3 b4 b5 b6 b7 b8 hb
  have hD := repZ9_bd _ _ _ _ _ _ _ _ _ hld
  have hO := repZ9_bd _ _ _ _ _ _ _ _ _ hlo
  have hm : 0 ≤ m ∧ m ≤ 1 ∧
      repZ [w0 % 2 ^ 29, w1 % 2 ^ 29, w2 % 2 ^ 29, w3 % 2 ^ 29, w4 % 2 ^ 29, w5 % 2 ^ 29, w6 % 2 ^ 29, w7 % 2 ^ 29, w8 % 2 ^ 29] + repZ [b0, b1, b2, b3, b4, b5, b6, b7, b8] = repZ [a0, a1, a2, a3, a4, a5, a6, a7, a8] + 2 ^ 261 * m := by
    clear hlo hld hA hB hD hO E0 E1 E2 E3 E4 E5 E6 E7 E8
    simp only [Lim, repZ] at ha hb ⊢
    obtain ⟨h0a, h0b, h0⟩ := sub_limb a0 b0 0 w0 (by omega) (by omega) (by omega) (by omega) (by omega) (by omega) (by rw [hw0])
    obtain ⟨h1a, h1b, h1⟩ := sub_limb a1 b1 _ w1 (by omega) (by omega) (by omega) (by omega) h0a h0b hw1
    obtain ⟨h2a, h2b, h2⟩ := sub_limb a2 b2 _ w2 (by omega) (by omega) (by omega) (by omega) h1a h1b hw2
    obtain ⟨h3a, h3b, h3⟩ := sub_limb a3 b3 _ w3 (by omega) (by omega) (by omega) (by omega) h2a h2b hw3
    obtain ⟨h4a, h4b, h4⟩ := sub_limb a4 b4 _ w4 (by omega) (by omega) (by omega) (by omega) h3a h3b hw4
    obtain ⟨h5a, h5b, h5⟩ := sub_limb a5 b5 _ w5 (by omega) (by omega) (by omega) (by omega) h4a h4b hw5
    obtain ⟨h6a, h6b, h6⟩ := sub_limb a6 b6 _ w6 (by omega) (by omega) (by omega) (by omega) h5a h5b hw6
    obtain ⟨h7a, h7b, h7⟩ := sub_limb a7 b7 _ w7 (by omega) (by omega) (by omega) (by omega) h6a h6b hw7
    obtain ⟨h8a, h8b, h8⟩ := sub_limb a8 b8 _ w8 (by omega) (by omega) (by omega) (by omega) h7a h7b hw8
    rw [hmdef]
    refine ⟨h8a, h8b, ?_⟩
    linear_combination 1 * h0 + 2 ^ 29 * h1 + 2 ^ 58 * h2 + 2 ^ 87 * h3 + 2 ^ 116 * h4 + 2 ^ 145 * h5 + 2 ^ 174 * h6 + 2 ^ 203 * h7 + 2 ^ 232 * h8
  have ho : repZ [t0 % 2 ^ 29, t1 % 2 ^ 29, t2 % 2 ^ 29, t3 % 2 ^ 29, t4 % 2 ^ 29, t5 % 2 ^ 29, t6 % 2 ^ 29, t7 % 2 ^ 29, t8 % 2 ^ 29] + 2 ^ 261 * (t8 / 2 ^ 29)
      = repZ [w0 % 2 ^ 29, w1 % 2 ^ 29, w2 % 2 ^ 29, w3 % 2 ^ 29, w4 % 2 ^ 29, w5 % 2 ^ 29, w6 % 2 ^ 29, w7 % 2 ^ 29, w8 % 2 ^ 29] + (if m = 0 then 0 else (ell : Int)) := by
    rw [ell_eqZ]
    simp only [repZ]
    have D0 := Int.emod_add_mul_ediv t0 (2 ^ 29)
    have D1 := Int.emod_add_mul_ediv t1 (2 ^ 29)
    have D2 := Int.emod_add_mul_ediv t2 (2 ^ 29)
    have D3 := Int.emod_add_mul_ediv t3 (2 ^ 29)
    have D4 := Int.emod_add_mul_ediv t4 (2 ^ 29)
    have D5 := Int.emod_add_mul_ediv t5 (2 ^ 29)
    have D6 := Int.emod_add_mul_ediv t6 (2 ^ 29)
    have D7 := Int.emod_add_mul_ediv t7 (2 ^ 29)
    have D8 := Int.emod_add_mul_ediv t8 (2 ^ 29)
    by_cases hm0 : m = 0
    · simp only [if_pos hm0] at E0 E1 E2 E3 E4 E5 E6 E7 E8 ⊢
      linear_combination 1 * (D0 + E0) + 2 ^ 29 * (D1 + E1) + 2 ^ 58 * (D2 + E2) + 2 ^ 87 * (D3 + E3) + 2 ^ 116 * (D4 + E4) + 2 ^ 145 * (D5 + E5) + 2 ^ 174 * (D6 + E6) + 2 ^ 203 * (D7 + E7) + 2 ^ 232 * (D8 + E8)
    · simp only [if_neg hm0] at E0 E1 E2 E3 E4 E5 E6 E7 E8 ⊢
      linear_combination 1 * (D0 + E0) + 2 ^ 29 * (D1 + E1) + 2 ^ 58 * (D2 + E2) + 2 ^ 87 * (D3 + E3) + 2 ^ 116 * (D4 + E4) + 2 ^ 145 * (D5 + E5) + 2 ^ 174 * (D6 + E6) + 2 ^ 203 * (D7 + E7) + 2 ^ 232 * (D8 + E8)
  exact sub_final _ _ _ _ m (t8 / 2 ^ 29) hA hB hD hO ⟨hm.1, hm.2.1⟩ hm.2.2 ho

/-- `sub` on arbitrary 29-bit limb vectors: `a - b`, plus `l` if that is negative, modulo `2^261`. -/
theorem sub_fn_spec (a0 a1 a2 a3 a4 a5 a6 a7 a8 b0 b1 b2 b3 b4 b5 b6 b7 b8 : Int)
    (ha : Lim (2 ^ 29) [a0, a1, a2, a3, a4, a5, a6, a7, a8]) (hb : Lim (2 ^ 29) [b0, b1, b2, b3, b4, b5, b6, b7, b8]) :
    ∃ o0 o1 o2 o3 o4 o5 o6 o7 o8, sub_fn a0 a1 a2 a3 a4 a5 a6 a7 a8 b0 b1 b2 b3 b4 b5 b6 b7 b8 = [o0, o1, o2, o3, o4, o5, o6, o7, o8] ∧
      Lim (2 ^ 29) [o0, o1, o2, o3, o4, o5, o6, o7, o8] ∧
      repZ [o0, o1, o2, o3, o4, o5, o6, o7, o8] = (repZ [a0, a1, a2, a3, a4, a5, a6, a7, a8] - repZ [b0, b1, b2, b3, b4, b5, b6, b7, b8]
        + (if repZ [a0, a1, a2, a3, a4, a5, a6, a7, a8] < repZ [b0, b1, b2, b3, b4, b5, b6, b7, b8] then (ell : Int) else 0)) % 2 ^ 261 := by
  rw [sub_fn_eq]
  extract_lets w0 w1 w2 w3 w4 w5 w6 w7 w8 m t0 t1 t2 t3 t4 t5 t6 t7 t8
  exact ⟨_, _, _, _, _, _, _, _, _, rfl, sub_core a0 a1 a2 a3 a4 a5 a6 a7 a8 b0 b1 b2 b3 b4 b5 b6 b7 b8 w0 w1 w2 w3 w4 w5 w6 w7 w8 m t0 t1 t2 t3 t4 t5 t6 t7 t8 ha hb
    rfl rfl rfl rfl rfl rfl rfl rfl rfl rfl rfl rfl rfl rfl rfl rfl rfl rfl rfl⟩

theorem L_literal : toZ U32.L = [485872621, 9640146, 501691798, 502512965, 333, 0, 0, 0, 1048576] := rfl

theorem repZ_L : repZ [485872621, 9640146, 501691798, 502512965, 333, 0, 0, 0, 1048576] = (ell : Int) := by
  rw [ell_eqZ]; simp only [repZ]; norm_num

/-- `sub(r, L)` for `r < 2l`: the canonical representative `r mod l`
(the tail of `add` and of `montgomery_reduce`). -/
theorem sub_fn_L_spec (r0 r1 r2 r3 r4 r5 r6 r7 r8 : Int) (hr : Lim (2 ^ 29) [r0, r1, r2, r3, r4, r5, r6, r7, r8])
    (h2 : repZ [r0, r1, r2, r3, r4, r5, r6, r7, r8] < 2 * ell) :
    ∃ o0 o1 o2 o3 o4 o5 o6 o7 o8, sub_fn r0 r1 r2 r3 r4 r5 r6 r7 r8 485872621 9640146 501691798 502512965 333 0 0 0 1048576
        = [o0, o1, o2, o3, o4, o5, o6, o7, o8] ∧ Lim (2 ^ 29) [o0, o1, o2, o3, o4, o5, o6, o7, o8] ∧
      repZ [o0, o1, o2, o3, o4, o5, o6, o7, o8] = repZ [r0, r1, r2, r3, r4, r5, r6, r7, r8] % ell := by
  obtain ⟨o0, o1, o2, o3, o4, o5, o6, o7, o8, he, hl, hv⟩ := sub_fn_spec r0 r1 r2 r3 r4 r5 r6 r7 r8 485872621 9640146 501691798 502512965 333 0 0 0 1048576 hr (by simp only [Lim]; norm_num)
  refine ⟨o0, o1, o2, o3, o4, o5, o6, o7, o8, he, hl, ?_⟩
  rw [hv, repZ_L]
  have h0 := (repZ9_bd r0 r1 r2 r3 r4 r5 r6 r7 r8 hr).1
  generalize repZ [r0, r1, r2, r3, r4, r5, r6, r7, r8] = R at *
  rw [ell_eqZ] at *
  split_ifs <;> omega

/-- `sub` on canonical inputs is subtraction modulo `l`. -/
theorem sub_fn_canon (a0 a1 a2 a3 a4 a5 a6 a7 a8 b0 b1 b2 b3 b4 b5 b6 b7 b8 : Int)
    (ha : Lim (2 ^ 29) [a0, a1, a2, a3, a4, a5, a6, a7, a8]) (hb : Lim (2 ^ 29) [b0, b1, b2, b3, b4, b5, b6, b7, b8])
    (hal : repZ [a0, a1, a2, a3, a4, a5, a6, a7, a8] < ell) (hbl : repZ [b0, b1, b2, b3, b4, b5, b6, b7, b8] < ell) :
    ∃ o0 o1 o2 o3 o4 o5 o6 o7 o8, sub_fn a0 a1 a2 a3 a4 a5 a6 a7 a8 b0 b1 b2 b3 b4 b5 b6 b7 b8 = [o0, o1, o2, o3, o4, o5, o6, o7, o8] ∧
      Lim (2 ^ 29) [o0, o1, o2, o3, o4, o5, o6, o7, o8] ∧
      repZ [o0, o1, o2, o3, o4, o5, o6, o7, o8] = (repZ [a0, a1, a2, a3, a4, a5, a6, a7, a8] - repZ [b0, b1, b2, b3, b4, b5, b6, b7, b8]) % ell := by
  obtain ⟨o0, o1, o2, o3, o4, o5, o6, o7, o8, he, hl, hv⟩ := sub_fn_spec a0 a1 a2 a3 a4 a5 a6 a7 a8 b0 b1 b2 b3 b4 b5 b6 b7 b8 ha hb
  refine ⟨o0, o1, o2, o3, o4, o5, o6, o7, o8, he, hl, ?_⟩
  rw [hv]
  have h0 := (repZ9_bd a0 a1 a2 a3 a4 a5 a6 a7 a8 ha).1
  have h1 := (repZ9_bd b0 b1 b2 b3 b4 b5 b6 b7 b8 hb).1
  generalize repZ [a0, a1, a2, a3, a4, a5, a6, a7, a8] = A at *
  generalize repZ [b0, b1, b2, b3, b4, b5, b6, b7, b8] = B at *
  rw [ell_eqZ] at *
  split_ifs <;> omega

/-! ## `add` -/

/-- `add_fn` is the carry chain followed by `sub(·, L)` (structural equality, by `rfl`). -/
theorem add_fn_eq (a0 a1 a2 a3 a4 a5 a6 a7 a8 b0 b1 b2 b3 b4 b5 b6 b7 b8 : Int) :
    add_fn a0 a1 a2 a3 a4 a5 a6 a7 a8 b0 b1 b2 b3 b4 b5 b6 b7 b8 =
      (
let s0 := (a0 + b0) + 0
       let s1 := (a1 + b1) + s0 / 2 ^ 29
       let s2 := (a2 + b2) + s1 / 2 ^ 29
       let s3 := (a3 + b3) + s2 / 2 ^ 29
       let s4 := (a4 + b4) + s3 / 2 ^ 29
       let s5 := (a5 + b5) + s4 / 2 ^ 29
       let s6 := (a6 + b6) + s5 / 2 ^ 29
       let s7 := (a7 + b7) + s6 / 2 ^ 29
       let s8 := (a8 + b8) + s7 / 2 ^ 29
       sub_fn (s0 % 2 ^ 29) (s1 % 2 ^ 29) (s2 % 2 ^ 29) (s3 % 2 ^ 29) (s4 % 2 ^ 29) (s5 % 2 ^ 29) (s6 % 2 ^ 29) (s7 % 2 ^ 29) (s8 % 2 ^ 29)
         485872621 9640146 501691798 502512965 333 0 0 0 1048576) := rfl

theorem add_core (a0 a1 a2 a3 a4 a5 a6 a7 a8 b0 b1 b2 b3 b4 b5 b6 b7 b8 s0 s1 s2 s3 s4 s5 s6 s7 s8 : Int)
    (ha : Lim (2 ^ 29) [a0, a1, a2, a3, a4, a5, a6, a7, a8]) (hb : Lim (2 ^ 29) [b0, b1, b2, b3, b4, b5, b6, b7, b8])
    (hal : repZ [a0, a1, a2, a3, a4, a5, a6, a7, a8] < ell) (hbl : repZ [b0, b1, b2, b3, b4, b5, b6, b7, b8] < ell)
    (e0 : s0 = (a0 + b0) + 0)
    (e1 : s1 = (a1 + b1) + s0 / 2 ^ 29)
    (e2 : s2 = (a2 + b2) + s1 / 2 ^ 29)
    (e3 : s3 = (a3 + b3) + s2 / 2 ^ 29)
    (e4 : s4 = (a4 + b4) + s3 / 2 ^ 29)
    (e5 : s5 = (a5 + b5) + s4 / 2 ^ 29)
    (e6 : s6 = (a6 + b6) + s5 / 2 ^ 29)
    (e7 : s7 = (a7 + b7) + s6 / 2 ^ 29)
    (e8 : s8 = (a8 + b8) + s7 / 2 ^ 29) :
    Lim (2 ^ 29) [s0 % 2 ^ 29, s1 % 2 ^ 29, s2 % 2 ^ 29, s3 % 2 ^ 29, s4 % 2 ^ 29, s5 % 2 ^ 29, s6 % 2 ^ 29, s7 % 2 ^ 29, s8 % 2 ^ 29] ∧
    repZ [s0 % 2 ^ 29, s1 % 2 ^ 29, s2 % 2 ^ 29, s3 % 2 ^ 29, s4 % 2 ^ 29, s5 % 2 ^ 29, s6 % 2 ^ 29, s7 % 2 ^ 29, s8 % 2 ^ 29] = repZ [a0, a1, a2, a3, a4, a5, a6, a7, a8] + repZ [b0, b1, b2, b3, b4, b5, b6, b7, b8] := by
  have hls : Lim (2 ^ 29) [s0 % 2 ^ 29, s1 % 2 ^ 29, s2 % 2 ^ 29, s3 % 2 ^ 29, s4 % 2 ^ 29, s5 % 2 ^ 29, s6 % 2 ^ 29, s7 % 2 ^ 29, s8 % 2 ^ 29] := by simp only [Lim, and_true]; omega
  refine ⟨hls, ?_⟩
  have hS := repZ9_bd _ _ _ _ _ _ _ _ _ hls
  have hA := repZ9_bd a0 a1 a2 a3 a4 a5 a6 a7 a8 ha
  have hB := repZ9_bd b0 b1 b2 b3 b4 b5 b6 b7 b8 hb
  have key : repZ [s0 % 2 ^ 29, s1 % 2 ^ 29, s2 % 2 ^ 29, s3 % 2 ^ 29, s4 % 2 ^ 29, s5 % 2 ^ 29, s6 % 2 ^ 29, s7 % 2 ^ 29, s8 % 2 ^ 29] + 2 ^ 261 * (s8 / 2 ^ 29)
      = repZ [a0, a1, a2, a3, a4, a5, a6, a7, a8] + repZ [b0, b1, b2, b3, b4, b5, b6, b7, b8] := by
    simp only [repZ]
    have D0 := Int.emod_add_mul_ediv s0 (2 ^ 29)
    have D1 := Int.emod_add_mul_ediv s1 (2 ^ 29)
    have D2 := Int.emod_add_mul_ediv s2 (2 ^ 29)
    have D3 := Int.emod_add_mul_ediv s3 (2 ^ 29)
    have D4 := Int.emod_add_mul_ediv s4 (2 ^ 29)
    have D5 := Int.emod_add_mul_ediv s5 (2 ^ 29)
    have D6 := Int.emod_add_mul_ediv s6 (2 ^ 29)
    have D7 := Int.emod_add_mul_ediv s7 (2 ^ 29)
    have D8 := Int.emod_add_mul_ediv s8 (2 ^ 29)
    linear_combination 1 * (D0 + e0) + 2 ^ 29 * (D1 + e1) + 2 ^ 58 * (D2 + e2) + 2 ^ 87 * (D3 + e3) + 2 ^ 116 * (D4 + e4) + 2 ^ 145 * (D5 + e5) + 2 ^ 174 * (D6 + e6) + 2 ^ 203 * (D7 + e7) + 2 ^ 232 * (D8 + e8)
  generalize repZ [s0 % 2 ^ 29, s1 % 2 ^ 29, s2 % 2 ^ 29, s3 % 2 ^ 29, s4 % 2 ^ 29, s5 % 2 ^ 29, s6 % 2 ^ 29, s7 % 2 ^ 29, s8 % 2 ^ 29] = S at *
  generalize repZ [a0, a1, a2, a3, a4, a5, a6, a7, a8] = A at *
  generalize repZ [b0, b1, b2, b3, b4, b5, b6, b7, b8] = B at *
  generalize s8 / 2 ^ 29 = k at *
  rw [ell_eqZ] at *
  omega

theorem add_fn_spec (a0 a1 a2 a3 a4 a5 a6 a7 a8 b0 b1 b2 b3 b4 b5 b6 b7 b8 : Int)
    (ha : Lim (2 ^ 29) [a0, a1, a2, a3, a4, a5, a6, a7, a8]) (hb : Lim (2 ^ 29) [b0, b1, b2, b3, b4, b5, b6, b7, b8])
    (hal : repZ [a0, a1, a2, a3, a4, a5, a6, a7, a8] < ell) (hbl : repZ [b0, b1, b2, b3, b4, b5, b6, b7, b8] < ell) :
    ∃ o0 o1 o2 o3 o4 o5 o6 o7 o8, add_fn a0 a1 a2 a3 a4 a5 a6 a7 a8 b0 b1 b2 b3 b4 b5 b6 b7 b8 = [o0, o1, o2, o3, o4, o5, o6, o7, o8] ∧
      Lim (2 ^ 29) [o0, o1, o2, o3, o4, o5, o6, o7, o8] ∧
      repZ [o0, o1, o2, o3, o4, o5, o6, o7, o8] = (repZ [a0, a1, a2, a3, a4, a5, a6, a7, a8] + repZ [b0, b1, b2, b3, b4, b5, b6, b7, b8]) % ell := by
  rw [add_fn_eq]
  extract_lets s0 s1 s2 s3 s4 s5 s6 s7 s8
  obtain ⟨hls, hs⟩ := add_core a0 a1 a2 a3 a4 a5 a6 a7 a8 b0 b1 b2 b3 b4 b5 b6 b7 b8 s0 s1 s2 s3 s4 s5 s6 s7 s8 ha hb hal hbl rfl rfl rfl rfl rfl rfl rfl rfl rfl
  obtain ⟨o0, o1, o2, o3, o4, o5, o6, o7, o8, he, hl, hv⟩ := sub_fn_L_spec _ _ _ _ _ _ _ _ _ hls (by rw [hs]; omega)
  exact ⟨o0, o1, o2, o3, o4, o5, o6, o7, o8, he, hl, by rw [hv, hs]⟩

end Dalek.Proofs.Scalar29

import Dalek.Proofs.Scalar29.Glue
import Dalek.Gen.Scalar29
/-! # Scalar29: the limb-extraction prefix of `from_bytes_wide`

`from_bytes_wide` is `add(montgomery_mul(hi, RR), montgomery_mul(lo, R))` applied to the eighteen limbs `lo, hi` cut
out of the 64 input bytes.  That first part is not a separate function of the source; it is isolated here as the
program `widePrefix` (the first 82 statements of the translated `from_bytes_wide`), analysed by the normaliser INSIDE
the kernel (`widePrefix_norm_ok`), and specified.  That the rest of `from_bytes_wide` is the inlined sequence of its
callees applied to these limbs is checked in `Dalek/Props/C02/Scalar29Composed.lean` (`from_bytes_wide_is_script`). -/
set_option exponentiation.threshold 600
set_option maxRecDepth 100000

namespace Dalek.Proofs.Scalar29
open Dalek.IR Dalek.Gen.Consts Dalek.Model.FieldBytes Dalek.Model.Contracts
open Dalek.Proofs.Scalar52 (Lim toZ_cons toZ_nil)

/-- the statements of `from_bytes_wide` that assemble the sixteen words and cut them into `lo[0..9]`, `hi[0..9]` -/
def widePrefix : Prog := ⟨64, Dalek.Gen.Scalar29.from_bytes_wide.body.take 82, List.range' 128 18⟩

def widePrefixNorm : Option (NProg × List Itv) := Prog.norm widePrefix (bytes 64)

theorem widePrefixNorm_isSome : widePrefixNorm.isSome = true := by decide +kernel

def widePrefix_nprog : NProg := (widePrefixNorm.get widePrefixNorm_isSome).1
def widePrefix_post : List Itv := (widePrefixNorm.get widePrefixNorm_isSome).2

theorem widePrefix_norm_ok : Prog.norm widePrefix (bytes 64) = some (widePrefix_nprog, widePrefix_post) := by
  show widePrefixNorm = some ((widePrefixNorm.get widePrefixNorm_isSome).1, (widePrefixNorm.get widePrefixNorm_isSome).2)
  simp

theorem widePrefix_post_le : itvsLe widePrefix_post (rep 18 (ub (2 ^ 29 - 1))) = true := by decide +kernel

/-- the eighteen limbs as functions of the sixteen words -/
def limbs16 (w0 w1 w2 w3 w4 w5 w6 w7 w8 w9 w10 w11 w12 w13 w14 w15 : Int) : List Int :=
  [w0 % 2 ^ 29,
   ((w0 / 2 ^ 29) + ((w1 * 8) % 2 ^ 32)) % 2 ^ 29,
   ((w1 / 2 ^ 26) + ((w2 * 64) % 2 ^ 32)) % 2 ^ 29,
   ((w2 / 2 ^ 23) + ((w3 * 512) % 2 ^ 32)) % 2 ^ 29,
   ((w3 / 2 ^ 20) + ((w4 * 4096) % 2 ^ 32)) % 2 ^ 29,
   ((w4 / 2 ^ 17) + ((w5 * 32768) % 2 ^ 32)) % 2 ^ 29,
   ((w5 / 2 ^ 14) + ((w6 * 262144) % 2 ^ 32)) % 2 ^ 29,
   ((w6 / 2 ^ 11) + ((w7 * 2097152) % 2 ^ 32)) % 2 ^ 29,
   ((w7 / 2 ^ 8) + ((w8 * 16777216) % 2 ^ 32)) % 2 ^ 29,
   ((w8 / 2 ^ 5) + ((w9 * 134217728) % 2 ^ 32)) % 2 ^ 29,
   (w9 / 2 ^ 2) % 2 ^ 29,
   ((w9 / 2 ^ 31) + ((w10 * 2) % 2 ^ 32)) % 2 ^ 29,
   ((w10 / 2 ^ 28) + ((w11 * 16) % 2 ^ 32)) % 2 ^ 29,
   ((w11 / 2 ^ 25) + ((w12 * 128) % 2 ^ 32)) % 2 ^ 29,
   ((w12 / 2 ^ 22) + ((w13 * 1024) % 2 ^ 32)) % 2 ^ 29,
   ((w13 / 2 ^ 19) + ((w14 * 8192) % 2 ^ 32)) % 2 ^ 29,
   ((w14 / 2 ^ 16) + ((w15 * 65536) % 2 ^ 32)) % 2 ^ 29,
   w15 / 2 ^ 13]

theorem widePrefix_fn_ok (x0 x1 x2 x3 x4 x5 x6 x7 x8 x9 x10 x11 x12 x13 x14 x15 x16 x17 x18 x19 x20 x21 x22 x23 x24 x25 x26 x27 x28 x29 x30 x31 x32 x33 x34 x35 x36 x37 x38 x39 x40 x41 x42 x43 x44 x45 x46 x47 x48 x49 x50 x51 x52 x53 x54 x55 x56 x57 x58 x59 x60 x61 x62 x63 : Int) :
    widePrefix_nprog.evalZ [x0, x1, x2, x3, x4, x5, x6, x7, x8, x9, x10, x11, x12, x13, x14, x15, x16, x17, x18, x19, x20, x21, x22, x23, x24, x25, x26, x27, x28, x29, x30, x31, x32, x33, x34, x35, x36, x37, x38, x39, x40, x41, x42, x43, x44, x45, x46, x47, x48, x49, x50, x51, x52, x53, x54, x55, x56, x57, x58, x59, x60, x61, x62, x63] = limbs16 (word32 x0 x1 x2 x3) (word32 x4 x5 x6 x7) (word32 x8 x9 x10 x11) (word32 x12 x13 x14 x15) (word32 x16 x17 x18 x19) (word32 x20 x21 x22 x23) (word32 x24 x25 x26 x27) (word32 x28 x29 x30 x31) (word32 x32 x33 x34 x35) (word32 x36 x37 x38 x39) (word32 x40 x41 x42 x43) (word32 x44 x45 x46 x47) (word32 x48 x49 x50 x51) (word32 x52 x53 x54 x55) (word32 x56 x57 x58 x59) (word32 x60 x61 x62 x63) := by
  kernel_rfl

theorem limbs16_spec (w0 w1 w2 w3 w4 w5 w6 w7 w8 w9 w10 w11 w12 w13 w14 w15 : Int)
    (h0 : 0 ≤ w0 ∧ w0 < 2 ^ 32)
    (h1 : 0 ≤ w1 ∧ w1 < 2 ^ 32)
    (h2 : 0 ≤ w2 ∧ w2 < 2 ^ 32)
    (h3 : 0 ≤ w3 ∧ w3 < 2 ^ 32)
    (h4 : 0 ≤ w4 ∧ w4 < 2 ^ 32)
    (h5 : 0 ≤ w5 ∧ w5 < 2 ^ 32)
    (h6 : 0 ≤ w6 ∧ w6 < 2 ^ 32)
    (h7 : 0 ≤ w7 ∧ w7 < 2 ^ 32)
    (h8 : 0 ≤ w8 ∧ w8 < 2 ^ 32)
    (h9 : 0 ≤ w9 ∧ w9 < 2 ^ 32)
    (h10 : 0 ≤ w10 ∧ w10 < 2 ^ 32)
    (h11 : 0 ≤ w11 ∧ w11 < 2 ^ 32)
    (h12 : 0 ≤ w12 ∧ w12 < 2 ^ 32)
    (h13 : 0 ≤ w13 ∧ w13 < 2 ^ 32)
    (h14 : 0 ≤ w14 ∧ w14 < 2 ^ 32)
    (h15 : 0 ≤ w15 ∧ w15 < 2 ^ 32) :
    ∃ p0 p1 p2 p3 p4 p5 p6 p7 p8 q0 q1 q2 q3 q4 q5 q6 q7 q8, limbs16 w0 w1 w2 w3 w4 w5 w6 w7 w8 w9 w10 w11 w12 w13 w14 w15 = [p0, p1, p2, p3, p4, p5, p6, p7, p8, q0, q1, q2, q3, q4, q5, q6, q7, q8] ∧
      Lim (2 ^ 29) [p0, p1, p2, p3, p4, p5, p6, p7, p8] ∧ Lim (2 ^ 29) [q0, q1, q2, q3, q4, q5, q6, q7, q8] ∧
      repZ [p0, p1, p2, p3, p4, p5, p6, p7, p8] + 2 ^ 261 * repZ [q0, q1, q2, q3, q4, q5, q6, q7, q8] = w0 + 2 ^ 32 * w1 + 2 ^ 64 * w2 + 2 ^ 96 * w3 + 2 ^ 128 * w4 + 2 ^ 160 * w5 + 2 ^ 192 * w6 + 2 ^ 224 * w7 + 2 ^ 256 * w8 + 2 ^ 288 * w9 + 2 ^ 320 * w10 + 2 ^ 352 * w11 + 2 ^ 384 * w12 + 2 ^ 416 * w13 + 2 ^ 448 * w14 + 2 ^ 480 * w15 := by
  refine ⟨_, _, _, _, _, _, _, _, _, _, _, _, _, _, _, _, _, _, rfl, ?_, ?_, ?_⟩
  · simp only [Lim, and_true]; omega
  · simp only [Lim, and_true]; omega
  · simp only [repZ]; omega

theorem leValZ64_words (x0 x1 x2 x3 x4 x5 x6 x7 x8 x9 x10 x11 x12 x13 x14 x15 x16 x17 x18 x19 x20 x21 x22 x23 x24 x25 x26 x27 x28 x29 x30 x31 x32 x33 x34 x35 x36 x37 x38 x39 x40 x41 x42 x43 x44 x45 x46 x47 x48 x49 x50 x51 x52 x53 x54 x55 x56 x57 x58 x59 x60 x61 x62 x63 : Int) :
    leValZ [x0, x1, x2, x3, x4, x5, x6, x7, x8, x9, x10, x11, x12, x13, x14, x15, x16, x17, x18, x19, x20, x21, x22, x23, x24, x25, x26, x27, x28, x29, x30, x31, x32, x33, x34, x35, x36, x37, x38, x39, x40, x41, x42, x43, x44, x45, x46, x47, x48, x49, x50, x51, x52, x53, x54, x55, x56, x57, x58, x59, x60, x61, x62, x63] = word32 x0 x1 x2 x3 + 2 ^ 32 * word32 x4 x5 x6 x7 + 2 ^ 64 * word32 x8 x9 x10 x11 + 2 ^ 96 * word32 x12 x13 x14 x15 + 2 ^ 128 * word32 x16 x17 x18 x19 + 2 ^ 160 * word32 x20 x21 x22 x23 + 2 ^ 192 * word32 x24 x25 x26 x27 + 2 ^ 224 * word32 x28 x29 x30 x31 + 2 ^ 256 * word32 x32 x33 x34 x35 + 2 ^ 288 * word32 x36 x37 x38 x39 + 2 ^ 320 * word32 x40 x41 x42 x43 + 2 ^ 352 * word32 x44 x45 x46 x47 + 2 ^ 384 * word32 x48 x49 x50 x51 + 2 ^ 416 * word32 x52 x53 x54 x55 + 2 ^ 448 * word32 x56 x57 x58 x59 + 2 ^ 480 * word32 x60 x61 x62 x63 := by
  simp only [leValZ, word32]; ring

theorem widePrefix_fn_spec (x0 x1 x2 x3 x4 x5 x6 x7 x8 x9 x10 x11 x12 x13 x14 x15 x16 x17 x18 x19 x20 x21 x22 x23 x24 x25 x26 x27 x28 x29 x30 x31 x32 x33 x34 x35 x36 x37 x38 x39 x40 x41 x42 x43 x44 x45 x46 x47 x48 x49 x50 x51 x52 x53 x54 x55 x56 x57 x58 x59 x60 x61 x62 x63 : Int) (h : Lim 256 [x0, x1, x2, x3, x4, x5, x6, x7, x8, x9, x10, x11, x12, x13, x14, x15, x16, x17, x18, x19, x20, x21, x22, x23, x24, x25, x26, x27, x28, x29, x30, x31, x32, x33, x34, x35, x36, x37, x38, x39, x40, x41, x42, x43, x44, x45, x46, x47, x48, x49, x50, x51, x52, x53, x54, x55, x56, x57, x58, x59, x60, x61, x62, x63]) :
    ∃ p0 p1 p2 p3 p4 p5 p6 p7 p8 q0 q1 q2 q3 q4 q5 q6 q7 q8, widePrefix_nprog.evalZ [x0, x1, x2, x3, x4, x5, x6, x7, x8, x9, x10, x11, x12, x13, x14, x15, x16, x17, x18, x19, x20, x21, x22, x23, x24, x25, x26, x27, x28, x29, x30, x31, x32, x33, x34, x35, x36, x37, x38, x39, x40, x41, x42, x43, x44, x45, x46, x47, x48, x49, x50, x51, x52, x53, x54, x55, x56, x57, x58, x59, x60, x61, x62, x63] = [p0, p1, p2, p3, p4, p5, p6, p7, p8, q0, q1, q2, q3, q4, q5, q6, q7, q8] ∧
      Lim (2 ^ 29) [p0, p1, p2, p3, p4, p5, p6, p7, p8] ∧ Lim (2 ^ 29) [q0, q1, q2, q3, q4, q5, q6, q7, q8] ∧
      repZ [p0, p1, p2, p3, p4, p5, p6, p7, p8] + 2 ^ 261 * repZ [q0, q1, q2, q3, q4, q5, q6, q7, q8] = leValZ [x0, x1, x2, x3, x4, x5, x6, x7, x8, x9, x10, x11, x12, x13, x14, x15, x16, x17, x18, x19, x20, x21, x22, x23, x24, x25, x26, x27, x28, x29, x30, x31, x32, x33, x34, x35, x36, x37, x38, x39, x40, x41, x42, x43, x44, x45, x46, x47, x48, x49, x50, x51, x52, x53, x54, x55, x56, x57, x58, x59, x60, x61, x62, x63] := by
  obtain ⟨hb0, h⟩ := Lim_split4 h
  obtain ⟨hb1, h⟩ := Lim_split4 h
  obtain ⟨hb2, h⟩ := Lim_split4 h
  obtain ⟨hb3, h⟩ := Lim_split4 h
  obtain ⟨hb4, h⟩ := Lim_split4 h
  obtain ⟨hb5, h⟩ := Lim_split4 h
  obtain ⟨hb6, h⟩ := Lim_split4 h
  obtain ⟨hb7, h⟩ := Lim_split4 h
  obtain ⟨hb8, h⟩ := Lim_split4 h
  obtain ⟨hb9, h⟩ := Lim_split4 h
  obtain ⟨hb10, h⟩ := Lim_split4 h
  obtain ⟨hb11, h⟩ := Lim_split4 h
  obtain ⟨hb12, h⟩ := Lim_split4 h
  obtain ⟨hb13, h⟩ := Lim_split4 h
  obtain ⟨hb14, h⟩ := Lim_split4 h
  obtain ⟨hb15, h⟩ := Lim_split4 h
  rw [widePrefix_fn_ok, leValZ64_words]
  exact limbs16_spec _ _ _ _ _ _ _ _ _ _ _ _ _ _ _ _ (word32_bd hb0) (word32_bd hb1) (word32_bd hb2) (word32_bd hb3) (word32_bd hb4) (word32_bd hb5) (word32_bd hb6) (word32_bd hb7) (word32_bd hb8) (word32_bd hb9) (word32_bd hb10) (word32_bd hb11) (word32_bd hb12) (word32_bd hb13) (word32_bd hb14) (word32_bd hb15)

end Dalek.Proofs.Scalar29

import Dalek.Proofs.Scalar29.Mul
/-! # Scalar29: `montgomery_reduce` divides by `R = 2^261` modulo `l` and returns the canonical representative -/
set_option exponentiation.threshold 600
set_option maxRecDepth 100000

namespace Dalek.Proofs.Scalar29
open Dalek.IR Dalek.Gen.Norm.Scalar29 Dalek.Gen.Consts
open Dalek.Proofs.Scalar52 (Lim ell ell_eq ell_eqZ toZ_cons toZ_nil)

/-- `part1`: with `p = (sum · LFACTOR mod 2^32) mod 2^29`, `sum + p·L[0]` is divisible by `2^29` -/
theorem part1_div (s : Int) :
    (s + ((((s % 2 ^ 32) * 307527195) % 2 ^ 32) % 2 ^ 29) * 485872621) % 2 ^ 29 = 0 := by
  omega

theorem part1_step (s n c : Int) (hn : n = (((s % 2 ^ 32) * 307527195) % 2 ^ 32) % 2 ^ 29)
    (hc : c = (s + n * 485872621) / 2 ^ 29) :
    (0 ≤ n ∧ n < 2 ^ 29) ∧ s + n * 485872621 = 2 ^ 29 * c := by
  have d := part1_div s
  rw [← hn] at d
  omega

theorem part2_step (s c : Int) (hc : c = s / 2 ^ 29) : s = (s % 2 ^ 32) % 2 ^ 29 + 2 ^ 29 * c := by
  omega

theorem repZ17_nonneg (z0 z1 z2 z3 z4 z5 z6 z7 z8 z9 z10 z11 z12 z13 z14 z15 z16 : Int) (h : Lim W1 [z0, z1, z2, z3, z4, z5, z6, z7, z8, z9, z10, z11, z12, z13, z14, z15, z16]) : 0 ≤ repZ [z0, z1, z2, z3, z4, z5, z6, z7, z8, z9, z10, z11, z12, z13, z14, z15, z16] := by
  simp only [Lim, repZ] at *
  omega

theorem lt_two_ell (R N n : Int) (h : 2 ^ 261 * R = N + n * ell) (hN0 : 0 ≤ N) (hN : N < 2 ^ 261 * ell)
    (hn0 : 0 ≤ n) (hn : n < 2 ^ 261) : 0 ≤ R ∧ R < 2 * ell := by
  rw [ell_eqZ] at *
  omega

theorem top_limb_bd (r0 r1 r2 r3 r4 r5 r6 r7 r8 : Int) (hr : Lim (2 ^ 29) [r0, r1, r2, r3, r4, r5, r6, r7])
    (h0 : 0 ≤ repZ [r0, r1, r2, r3, r4, r5, r6, r7, r8]) (h : repZ [r0, r1, r2, r3, r4, r5, r6, r7, r8] < 2 * ell) : 0 ≤ r8 ∧ r8 < 2 ^ 29 := by
  simp only [Lim, repZ] at *
  rw [ell_eqZ] at h
  omega

/-- nine `part1` steps (the first Montgomery factor `n0` is a parameter), eight `part2` steps, the final
`carry as u32` (parameter `top`) and `sub(·, L)` -/
def mrTail (z0 z1 z2 z3 z4 z5 z6 z7 z8 z9 z10 z11 z12 z13 z14 z15 z16 n0 : Int) (top : Int → Int) : List Int :=
  let c0 := (z0 + n0 * 485872621) / 2 ^ 29
  let s1 := (c0 + z1) + n0 * 9640146
  let n1 := (((s1 % 2 ^ 32) * 307527195) % 2 ^ 32) % 2 ^ 29
  let c1 := (s1 + n1 * 485872621) / 2 ^ 29
  let s2 := ((c1 + z2) + n0 * 501691798) + n1 * 9640146
  let n2 := (((s2 % 2 ^ 32) * 307527195) % 2 ^ 32) % 2 ^ 29
  let c2 := (s2 + n2 * 485872621) / 2 ^ 29
  let s3 := (((c2 + z3) + n0 * 502512965) + n1 * 501691798) + n2 * 9640146
  let n3 := (((s3 % 2 ^ 32) * 307527195) % 2 ^ 32) % 2 ^ 29
  let c3 := (s3 + n3 * 485872621) / 2 ^ 29
  let s4 := ((((c3 + z4) + n0 * 333) + n1 * 502512965) + n2 * 501691798) + n3 * 9640146
  let n4 := (((s4 % 2 ^ 32) * 307527195) % 2 ^ 32) % 2 ^ 29
  let c4 := (s4 + n4 * 485872621) / 2 ^ 29
  let s5 := ((((c4 + z5) + n1 * 333) + n2 * 502512965) + n3 * 501691798) + n4 * 9640146
  let n5 := (((s5 % 2 ^ 32) * 307527195) % 2 ^ 32) % 2 ^ 29
  let c5 := (s5 + n5 * 485872621) / 2 ^ 29
  let s6 := ((((c5 + z6) + n2 * 333) + n3 * 502512965) + n4 * 501691798) + n5 * 9640146
  let n6 := (((s6 % 2 ^ 32) * 307527195) % 2 ^ 32) % 2 ^ 29
  let c6 := (s6 + n6 * 485872621) / 2 ^ 29
  let s7 := ((((c6 + z7) + n3 * 333) + n4 * 502512965) + n5 * 501691798) + n6 * 9640146
  let n7 := (((s7 % 2 ^ 32) * 307527195) % 2 ^ 32) % 2 ^ 29
  let c7 := (s7 + n7 * 485872621) / 2 ^ 29
  let s8 := (((((c7 + z8) + n0 * 1048576) + n4 * 333) + n5 * 502512965) + n6 * 501691798) + n7 * 9640146
  let n8 := (((s8 % 2 ^ 32) * 307527195) % 2 ^ 32) % 2 ^ 29
  let c8 := (s8 + n8 * 485872621) / 2 ^ 29
  let s9 := (((((c8 + z9) + n1 * 1048576) + n5 * 333) + n6 * 502512965) + n7 * 501691798) + n8 * 9640146
  let c9 := s9 / 2 ^ 29
  let s10 := ((((c9 + z10) + n2 * 1048576) + n6 * 333) + n7 * 502512965) + n8 * 501691798
  let c10 := s10 / 2 ^ 29
  let s11 := (((c10 + z11) + n3 * 1048576) + n7 * 333) + n8 * 502512965
  let c11 := s11 / 2 ^ 29
  let s12 := ((c11 + z12) + n4 * 1048576) + n8 * 333
  let c12 := s12 / 2 ^ 29
  let s13 := (c12 + z13) + n5 * 1048576
  let c13 := s13 / 2 ^ 29
  let s14 := (c13 + z14) + n6 * 1048576
  let c14 := s14 / 2 ^ 29
  let s15 := (c14 + z15) + n7 * 1048576
  let c15 := s15 / 2 ^ 29
  let s16 := (c15 + z16) + n8 * 1048576
  let c16 := s16 / 2 ^ 29
  sub_fn ((s9 % 2 ^ 32) % 2 ^ 29) ((s10 % 2 ^ 32) % 2 ^ 29) ((s11 % 2 ^ 32) % 2 ^ 29) ((s12 % 2 ^ 32) % 2 ^ 29) ((s13 % 2 ^ 32) % 2 ^ 29) ((s14 % 2 ^ 32) % 2 ^ 29) ((s15 % 2 ^ 32) % 2 ^ 29) ((s16 % 2 ^ 32) % 2 ^ 29) (top c16)
    485872621 9640146 501691798 502512965 333 0 0 0 1048576

/-- `montgomery_reduce_fn` has this shape (structural equality, by `rfl`). -/
theorem montgomery_reduce_fn_eq (z0 z1 z2 z3 z4 z5 z6 z7 z8 z9 z10 z11 z12 z13 z14 z15 z16 : Int) :
    montgomery_reduce_fn z0 z1 z2 z3 z4 z5 z6 z7 z8 z9 z10 z11 z12 z13 z14 z15 z16 =
      mrTail z0 z1 z2 z3 z4 z5 z6 z7 z8 z9 z10 z11 z12 z13 z14 z15 z16 ((((z0 % 2 ^ 32) * 307527195) % 2 ^ 32) % 2 ^ 29) (fun c => c % 2 ^ 32) := rfl

set_option maxHeartbeats 1000000 in
/-- the arithmetic core: the intermediate `r = (N + n·l) / 2^261` -/
theorem montgomery_core (z0 z1 z2 z3 z4 z5 z6 z7 z8 z9 z10 z11 z12 z13 z14 z15 z16 : Int)
    (n0 c0 s1 n1 c1 s2 n2 c2 s3 n3 c3 s4 n4 c4 s5 n5 c5 s6 n6 c6 s7 n7 c7 s8 n8 c8 s9 c9 s10 c10 s11 c11 s12 c12 s13 c13 s14 c14 s15 c15 s16 c16 : Int)
    (hz : Lim W1 [z0, z1, z2, z3, z4, z5, z6, z7, z8, z9, z10, z11, z12, z13, z14, z15, z16])
    (hN : repZ [z0, z1, z2, z3, z4, z5, z6, z7, z8, z9, z10, z11, z12, z13, z14, z15, z16] < 2 ^ 261 * ell)
    (hn0 : n0 = (((z0 % 2 ^ 32) * 307527195) % 2 ^ 32) % 2 ^ 29)
    (hc0 : c0 = (z0 + n0 * 485872621) / 2 ^ 29)
    (hs1 : s1 = (c0 + z1) + n0 * 9640146)
    (hn1 : n1 = (((s1 % 2 ^ 32) * 307527195) % 2 ^ 32) % 2 ^ 29)
    (hc1 : c1 = (s1 + n1 * 485872621) / 2 ^ 29)
    (hs2 : s2 = ((c1 + z2) + n0 * 501691798) + n1 * 9640146)
    (hn2 : n2 = (((s2 % 2 ^ 32) * 307527195) % 2 ^ 32) % 2 ^ 29)
    (hc2 : c2 = (s2 + n2 * 485872621) / 2 ^ 29)
    (hs3 : s3 = (((c2 + z3) + n0 * 502512965) + n1 * 501691798) + n2 * 9640146)
    (hn3 : n3 = (((s3 % 2 ^ 32) * 307527195) % 2 ^ 32) % 2 ^ 29)
    (hc3 : c3 = (s3 + n3 * 485872621) / 2 ^ 29)
    (hs4 : s4 = ((((c3 + z4) + n0 * 333) + n1 * 502512965) + n2 * 501691798) + n3 * 9640146)
    (hn4 : n4 = (((s4 % 2 ^ 32) * 307527195) % 2 ^ 32) % 2 ^ 29)
    (hc4 : c4 = (s4 + n4 * 485872621) / 2 ^ 29)
    (hs5 : s5 = ((((c4 + z5) + n1 * 333) + n2 * 502512965) + n3 * 501691798) + n4 * 9640146)
    (hn5 : n5 = (((s5 % 2 ^ 32) * 307527195) % 2 ^ 32) % 2 ^ 29)
    (hc5 : c5 = (s5 + n5 * 485872621) / 2 ^ 29)
    (hs6 : s6 = ((((c5 + z6) + n2 * 333) + n3 * 502512965) + n4 * 501691798) + n5 * 9640146)
    (hn6 : n6 = (((s6 % 2 ^ 32) * 307527195) % 2 ^ 32) % 2 ^ 29)
    (hc6 : c6 = (s6 + n6 * 485872621) / 2 ^ 29)
    (hs7 : s7 = ((((c6 + z7) + n3 * 333) + n4 * 502512965) + n5 * 501691798) + n6 * 9640146)
    (hn7 : n7 = (((s7 % 2 ^ 32) * 307527195) % 2 ^ 32) % 2 ^ 29)
    (hc7 : c7 = (s7 + n7 * 485872621) / 2 ^ 29)
    (hs8 : s8 = (((((c7 + z8) + n0 * 1048576) + n4 * 333) + n5 * 502512965) + n6 * 501691798) + n7 * 9640146)
    (hn8 : n8 = (((s8 % 2 ^ 32) * 307527195) % 2 ^ 32) % 2 ^ 29)
    (hc8 : c8 = (s8 + n8 * 485872621) / 2 ^ 29)
    (hs9 : s9 = (((((c8 + z9) + n1 * 1048576) + n5 * 333) + n6 * 502512965) + n7 * 501691798) + n8 * 9640146)
    (hc9 : c9 = s9 / 2 ^ 29)
    (hs10 : s10 = ((((c9 + z10) + n2 * 1048576) + n6 * 333) + n7 * 502512965) + n8 * 501691798)
    (hc10 : c10 = s10 / 2 ^ 29)
    (hs11 : s11 = (((c10 + z11) + n3 * 1048576) + n7 * 333) + n8 * 502512965)
    (hc11 : c11 = s11 / 2 ^ 29)
    (hs12 : s12 = ((c11 + z12) + n4 * 1048576) + n8 * 333)
    (hc12 : c12 = s12 / 2 ^ 29)
    (hs13 : s13 = (c12 + z13) + n5 * 1048576)
    (hc13 : c13 = s13 / 2 ^ 29)
    (hs14 : s14 = (c13 + z14) + n6 * 1048576)
    (hc14 : c14 = s14 / 2 ^ 29)
    (hs15 : s15 = (c14 + z15) + n7 * 1048576)
    (hc15 : c15 = s15 / 2 ^ 29)
    (hs16 : s16 = (c15 + z16) + n8 * 1048576)
    (hc16 : c16 = s16 / 2 ^ 29) :
    Lim (2 ^ 29) [(s9 % 2 ^ 32) % 2 ^ 29, (s10 % 2 ^ 32) % 2 ^ 29, (s11 % 2 ^ 32) % 2 ^ 29, (s12 % 2 ^ 32) % 2 ^ 29, (s13 % 2 ^ 32) % 2 ^ 29, (s14 % 2 ^ 32) % 2 ^ 29, (s15 % 2 ^ 32) % 2 ^ 29, (s16 % 2 ^ 32) % 2 ^ 29, c16] ∧
    repZ [(s9 % 2 ^ 32) % 2 ^ 29, (s10 % 2 ^ 32) % 2 ^ 29, (s11 % 2 ^ 32) % 2 ^ 29, (s12 % 2 ^ 32) % 2 ^ 29, (s13 % 2 ^ 32) % 2 ^ 29, (s14 % 2 ^ 32) % 2 ^ 29, (s15 % 2 ^ 32) % 2 ^ 29, (s16 % 2 ^ 32) % 2 ^ 29, c16] < 2 * ell ∧
    2 ^ 261 * repZ [(s9 % 2 ^ 32) % 2 ^ 29, (s10 % 2 ^ 32) % 2 ^ 29, (s11 % 2 ^ 32) % 2 ^ 29, (s12 % 2 ^ 32) % 2 ^ 29, (s13 % 2 ^ 32) % 2 ^ 29, (s14 % 2 ^ 32) % 2 ^ 29, (s15 % 2 ^ 32) % 2 ^ 29, (s16 % 2 ^ 32) % 2 ^ 29, c16]
      = repZ [z0, z1, z2, z3, z4, z5, z6, z7, z8, z9, z10, z11, z12, z13, z14, z15, z16] + repZ [n0, n1, n2, n3, n4, n5, n6, n7, n8] * ell := by
  obtain ⟨b0, e0⟩ := part1_step z0 n0 c0 hn0 hc0
  obtain ⟨b1, e1⟩ := part1_step s1 n1 c1 hn1 hc1
  obtain ⟨b2, e2⟩ := part1_step s2 n2 c2 hn2 hc2
  obtain ⟨b3, e3⟩ := part1_step s3 n3 c3 hn3 hc3
  obtain ⟨b4, e4⟩ := part1_step s4 n4 c4 hn4 hc4
  obtain ⟨b5, e5⟩ := part1_step s5 n5 c5 hn5 hc5
  obtain ⟨b6, e6⟩ := part1_step s6 n6 c6 hn6 hc6
  obtain ⟨b7, e7⟩ := part1_step s7 n7 c7 hn7 hc7
  obtain ⟨b8, e8⟩ := part1_step s8 n8 c8 hn8 hc8
  have e9 := part2_step s9 c9 hc9
  have e10 := part2_step s10 c10 hc10
  have e11 := part2_step s11 c11 hc11
  have e12 := part2_step s12 c12 hc12
  have e13 := part2_step s13 c13 hc13
  have e14 := part2_step s14 c14 hc14
  have e15 := part2_step s15 c15 hc15
  have e16 := part2_step s16 c16 hc16
  have hN0 := repZ17_nonneg z0 z1 z2 z3 z4 z5 z6 z7 z8 z9 z10 z11 z12 z13 z14 z15 z16 hz
  clear hn0 hc0 hn1 hc1 hn2 hc2 hn3 hc3 hn4 hc4 hn5 hc5 hn6 hc6 hn7 hc7 hn8 hc8 hc9 hc10 hc11 hc12 hc13 hc14 hc15 hc16 hz
  have key : 2 ^ 261 * repZ [(s9 % 2 ^ 32) % 2 ^ 29, (s10 % 2 ^ 32) % 2 ^ 29, (s11 % 2 ^ 32) % 2 ^ 29, (s12 % 2 ^ 32) % 2 ^ 29, (s13 % 2 ^ 32) % 2 ^ 29, (s14 % 2 ^ 32) % 2 ^ 29, (s15 % 2 ^ 32) % 2 ^ 29, (s16 % 2 ^ 32) % 2 ^ 29, c16]
      = repZ [z0, z1, z2, z3, z4, z5, z6, z7, z8, z9, z10, z11, z12, z13, z14, z15, z16] + repZ [n0, n1, n2, n3, n4, n5, n6, n7, n8] * ell := by
    rw [ell_eqZ]
    simp only [repZ]
    linear_combination (-1 : Int) * e0 - 2 ^ 29 * (e1 - hs1) - 2 ^ 58 * (e2 - hs2) - 2 ^ 87 * (e3 - hs3) - 2 ^ 116 * (e4 - hs4) - 2 ^ 145 * (e5 - hs5) - 2 ^ 174 * (e6 - hs6) - 2 ^ 203 * (e7 - hs7) - 2 ^ 232 * (e8 - hs8) - 2 ^ 261 * (e9 - hs9) - 2 ^ 290 * (e10 - hs10) - 2 ^ 319 * (e11 - hs11) - 2 ^ 348 * (e12 - hs12) - 2 ^ 377 * (e13 - hs13) - 2 ^ 406 * (e14 - hs14) - 2 ^ 435 * (e15 - hs15) - 2 ^ 464 * (e16 - hs16)
  obtain ⟨hn', hn⟩ := repZ9_bd n0 n1 n2 n3 n4 n5 n6 n7 n8 (by simp only [Lim, and_true]; exact ⟨b0, b1, b2, b3, b4, b5, b6, b7, b8⟩)
  obtain ⟨hR0, h2l⟩ := lt_two_ell _ _ _ key hN0 hN hn' hn
  refine ⟨?_, h2l, key⟩
  have hlr : Lim (2 ^ 29) [(s9 % 2 ^ 32) % 2 ^ 29, (s10 % 2 ^ 32) % 2 ^ 29, (s11 % 2 ^ 32) % 2 ^ 29, (s12 % 2 ^ 32) % 2 ^ 29, (s13 % 2 ^ 32) % 2 ^ 29, (s14 % 2 ^ 32) % 2 ^ 29, (s15 % 2 ^ 32) % 2 ^ 29, (s16 % 2 ^ 32) % 2 ^ 29] := by
    simp only [Lim, and_true]
    clear key h2l hR0 hN hN0 e0 e1 e2 e3 e4 e5 e6 e7 e8 e9 e10 e11 e12 e13 e14 e15 e16
    omega
  have ht := top_limb_bd _ _ _ _ _ _ _ _ c16 hlr hR0 h2l
  simp only [Lim, and_true] at hlr ⊢
  exact ⟨hlr.1, hlr.2.1, hlr.2.2.1, hlr.2.2.2.1, hlr.2.2.2.2.1, hlr.2.2.2.2.2.1, hlr.2.2.2.2.2.2.1, hlr.2.2.2.2.2.2.2, ht⟩

/-- `montgomery_reduce` (with the first factor given): canonical output `o` with `o·2^261 ≡ N (mod l)` -/
theorem mrTail_spec (z0 z1 z2 z3 z4 z5 z6 z7 z8 z9 z10 z11 z12 z13 z14 z15 z16 n0 : Int) (top : Int → Int)
    (htop : ∀ c : Int, 0 ≤ c → c < 2 ^ 29 → top c = c)
    (hn0 : n0 = (((z0 % 2 ^ 32) * 307527195) % 2 ^ 32) % 2 ^ 29)
    (hz : Lim W1 [z0, z1, z2, z3, z4, z5, z6, z7, z8, z9, z10, z11, z12, z13, z14, z15, z16])
    (hN : repZ [z0, z1, z2, z3, z4, z5, z6, z7, z8, z9, z10, z11, z12, z13, z14, z15, z16] < 2 ^ 261 * ell) :
    ∃ o0 o1 o2 o3 o4 o5 o6 o7 o8, mrTail z0 z1 z2 z3 z4 z5 z6 z7 z8 z9 z10 z11 z12 z13 z14 z15 z16 n0 top = [o0, o1, o2, o3, o4, o5, o6, o7, o8] ∧
      Lim (2 ^ 29) [o0, o1, o2, o3, o4, o5, o6, o7, o8] ∧
      (0 ≤ repZ [o0, o1, o2, o3, o4, o5, o6, o7, o8] ∧ repZ [o0, o1, o2, o3, o4, o5, o6, o7, o8] < ell) ∧
      (ell : Int) ∣ repZ [o0, o1, o2, o3, o4, o5, o6, o7, o8] * 2 ^ 261 - repZ [z0, z1, z2, z3, z4, z5, z6, z7, z8, z9, z10, z11, z12, z13, z14, z15, z16] := by
  unfold mrTail
  extract_lets c0 s1 n1 c1 s2 n2 c2 s3 n3 c3 s4 n4 c4 s5 n5 c5 s6 n6 c6 s7 n7 c7 s8 n8 c8 s9 c9 s10 c10 s11 c11 s12 c12 s13 c13 s14 c14 s15 c15 s16 c16
  obtain ⟨hl, h2l, key⟩ := montgomery_core z0 z1 z2 z3 z4 z5 z6 z7 z8 z9 z10 z11 z12 z13 z14 z15 z16 n0 c0 s1 n1 c1 s2 n2 c2 s3 n3 c3 s4 n4 c4 s5 n5 c5 s6 n6 c6 s7 n7 c7 s8 n8 c8 s9 c9 s10 c10 s11 c11 s12 c12 s13 c13 s14 c14 s15 c15 s16 c16 hz hN hn0
    rfl rfl rfl rfl rfl rfl rfl rfl rfl rfl rfl rfl rfl rfl rfl rfl rfl rfl rfl rfl rfl rfl rfl rfl rfl rfl rfl rfl rfl rfl rfl rfl rfl rfl rfl rfl rfl rfl rfl rfl rfl
  have hc16 : top c16 = c16 := by
    simp only [Lim, and_true] at hl
    exact htop c16 hl.2.2.2.2.2.2.2.2.1 hl.2.2.2.2.2.2.2.2.2
  rw [hc16]
  obtain ⟨o0, o1, o2, o3, o4, o5, o6, o7, o8, he, hlo, hv⟩ := sub_fn_L_spec _ _ _ _ _ _ _ _ _ hl h2l
  refine ⟨o0, o1, o2, o3, o4, o5, o6, o7, o8, he, hlo, ?_, ?_⟩
  · rw [hv]
    exact ⟨Int.emod_nonneg _ (by norm_num [ell]), Int.emod_lt_of_pos _ (by norm_num [ell])⟩
  · rw [hv]
    generalize repZ [(s9 % 2 ^ 32) % 2 ^ 29, (s10 % 2 ^ 32) % 2 ^ 29, (s11 % 2 ^ 32) % 2 ^ 29, (s12 % 2 ^ 32) % 2 ^ 29, (s13 % 2 ^ 32) % 2 ^ 29, (s14 % 2 ^ 32) % 2 ^ 29, (s15 % 2 ^ 32) % 2 ^ 29, (s16 % 2 ^ 32) % 2 ^ 29, c16] = R at *
    have h1 := Int.emod_add_mul_ediv R ell
    exact ⟨repZ [n0, n1, n2, n3, n4, n5, n6, n7, n8] - 2 ^ 261 * (R / ell), by linear_combination (2 : Int) ^ 261 * h1 + key⟩

theorem montgomery_reduce_fn_spec (z0 z1 z2 z3 z4 z5 z6 z7 z8 z9 z10 z11 z12 z13 z14 z15 z16 : Int)
    (hz : Lim W1 [z0, z1, z2, z3, z4, z5, z6, z7, z8, z9, z10, z11, z12, z13, z14, z15, z16])
    (hN : repZ [z0, z1, z2, z3, z4, z5, z6, z7, z8, z9, z10, z11, z12, z13, z14, z15, z16] < 2 ^ 261 * ell) :
    ∃ o0 o1 o2 o3 o4 o5 o6 o7 o8, montgomery_reduce_fn z0 z1 z2 z3 z4 z5 z6 z7 z8 z9 z10 z11 z12 z13 z14 z15 z16 = [o0, o1, o2, o3, o4, o5, o6, o7, o8] ∧
      Lim (2 ^ 29) [o0, o1, o2, o3, o4, o5, o6, o7, o8] ∧
      (0 ≤ repZ [o0, o1, o2, o3, o4, o5, o6, o7, o8] ∧ repZ [o0, o1, o2, o3, o4, o5, o6, o7, o8] < ell) ∧
      (ell : Int) ∣ repZ [o0, o1, o2, o3, o4, o5, o6, o7, o8] * 2 ^ 261 - repZ [z0, z1, z2, z3, z4, z5, z6, z7, z8, z9, z10, z11, z12, z13, z14, z15, z16] := by
  rw [montgomery_reduce_fn_eq]
  exact mrTail_spec _ _ _ _ _ _ _ _ _ _ _ _ _ _ _ _ _ _ (fun c => c % 2 ^ 32)
    (fun c h0 h1 => Int.emod_eq_of_lt h0 (by omega)) rfl hz hN

end Dalek.Proofs.Scalar29

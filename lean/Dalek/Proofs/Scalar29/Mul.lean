import Dalek.Proofs.Scalar29.Basic
import Mathlib.Data.ZMod.Basic
/-! # Scalar29: `mul_internal` (one-level Karatsuba with `wrapping_sub`) and `square_internal` compute the nine-by-nine
schoolbook coefficients, each within the `montgomery_reduce` input contract.

The normal form of `mul_internal` keeps `% 2^64` around the eight middle coefficients (the interval analyser cannot see
that the Karatsuba differences do not wrap).  Each of them is shown to be the true coefficient: equal in `ZMod (2^64)`
by `ring` after erasing every `% 2^64`, and the coefficient is in `[0, 2^64)`. -/
set_option exponentiation.threshold 600
set_option maxRecDepth 100000

namespace Dalek.Proofs.Scalar29
open Dalek.IR Dalek.Gen.Norm.Scalar29 Dalek.Gen.Consts
open Dalek.Proofs.Scalar52 (Lim ell ell_eq ell_eqZ toZ_cons toZ_nil)

theorem mul_bd {x y : Int} (hx : 0 ≤ x ∧ x < 2 ^ 29) (hy : 0 ≤ y ∧ y < 2 ^ 29) :
    0 ≤ x * y ∧ x * y ≤ 288230375077969921 := by
  refine ⟨Int.mul_nonneg hx.1 hy.1, ?_⟩
  have h1 : x ≤ 536870911 := by omega
  have h2 : y ≤ 536870911 := by omega
  calc x * y ≤ 536870911 * 536870911 := Int.mul_le_mul h1 h2 hy.1 (by norm_num)
    _ = 288230375077969921 := by norm_num

theorem emod_cast64 (x : Int) : ((x % 2 ^ 64 : Int) : ZMod (2 ^ 64)) = (x : ZMod (2 ^ 64)) := by
  have h := ZMod.intCast_mod x (2 ^ 64)
  rw [Nat.cast_pow, Nat.cast_ofNat] at h
  exact h

/-- a `u64`-wrapped expression equals the true value `c` if they agree modulo `2^64` and `c` is a `u64` -/
theorem wrap_eq {E c : Int} (h0 : 0 ≤ c) (h1 : c < 2 ^ 64)
    (hz : ((E : Int) : ZMod (2 ^ 64)) = ((c : Int) : ZMod (2 ^ 64))) : E % 2 ^ 64 = c := by
  have h := (ZMod.intCast_eq_intCast_iff' E c (2 ^ 64)).1 hz
  rw [Nat.cast_pow, Nat.cast_ofNat] at h
  rw [h]
  exact Int.emod_eq_of_lt h0 h1

/-- the seventeen schoolbook coefficients -/
def school (a0 a1 a2 a3 a4 a5 a6 a7 a8 b0 b1 b2 b3 b4 b5 b6 b7 b8 : Int) : List Int :=
  [a0 * b0,
   a0 * b1 + a1 * b0,
   a0 * b2 + a1 * b1 + a2 * b0,
   a0 * b3 + a1 * b2 + a2 * b1 + a3 * b0,
   a0 * b4 + a1 * b3 + a2 * b2 + a3 * b1 + a4 * b0,
   a0 * b5 + a1 * b4 + a2 * b3 + a3 * b2 + a4 * b1 + a5 * b0,
   a0 * b6 + a1 * b5 + a2 * b4 + a3 * b3 + a4 * b2 + a5 * b1 + a6 * b0,
   a0 * b7 + a1 * b6 + a2 * b5 + a3 * b4 + a4 * b3 + a5 * b2 + a6 * b1 + a7 * b0,
   a0 * b8 + a1 * b7 + a2 * b6 + a3 * b5 + a4 * b4 + a5 * b3 + a6 * b2 + a7 * b1 + a8 * b0,
   a1 * b8 + a2 * b7 + a3 * b6 + a4 * b5 + a5 * b4 + a6 * b3 + a7 * b2 + a8 * b1,
   a2 * b8 + a3 * b7 + a4 * b6 + a5 * b5 + a6 * b4 + a7 * b3 + a8 * b2,
   a3 * b8 + a4 * b7 + a5 * b6 + a6 * b5 + a7 * b4 + a8 * b3,
   a4 * b8 + a5 * b7 + a6 * b6 + a7 * b5 + a8 * b4,
   a5 * b8 + a6 * b7 + a7 * b6 + a8 * b5,
   a6 * b8 + a7 * b7 + a8 * b6,
   a7 * b8 + a8 * b7,
   a8 * b8]

/-- erase the wrapping: push the cast to `ZMod (2^64)` through and finish by `ring` -/
macro "wrap_ring" : tactic =>
  `(tactic| (simp only [Int.cast_add, Int.cast_sub, Int.cast_mul, emod_cast64]; ring))

set_option maxHeartbeats 1000000 in
theorem mul_internal_fn_eq_school (a0 a1 a2 a3 a4 a5 a6 a7 a8 b0 b1 b2 b3 b4 b5 b6 b7 b8 : Int)
    (ha : Lim (2 ^ 29) [a0, a1, a2, a3, a4, a5, a6, a7, a8]) (hb : Lim (2 ^ 29) [b0, b1, b2, b3, b4, b5, b6, b7, b8]) :
    mul_internal_fn a0 a1 a2 a3 a4 a5 a6 a7 a8 b0 b1 b2 b3 b4 b5 b6 b7 b8 = school a0 a1 a2 a3 a4 a5 a6 a7 a8 b0 b1 b2 b3 b4 b5 b6 b7 b8 := by
  simp only [Lim, and_true] at ha hb
  obtain ⟨ha0, ha1, ha2, ha3, ha4, ha5, ha6, ha7, ha8⟩ := ha
  obtain ⟨hb0, hb1, hb2, hb3, hb4, hb5, hb6, hb7, hb8⟩ := hb
  have := mul_bd ha0 hb0; have := mul_bd ha0 hb1; have := mul_bd ha0 hb2; have := mul_bd ha0 hb3; have := mul_bd ha0 hb4; have := mul_bd ha0 hb5; have := mul_bd ha0 hb6; have := mul_bd ha0 hb7; have := mul_bd ha0 hb8
  have := mul_bd ha1 hb0; have := mul_bd ha1 hb1; have := mul_bd ha1 hb2; have := mul_bd ha1 hb3; have := mul_bd ha1 hb4; have := mul_bd ha1 hb5; have := mul_bd ha1 hb6; have := mul_bd ha1 hb7; have := mul_bd ha1 hb8
  have := mul_bd ha2 hb0; have := mul_bd ha2 hb1; have := mul_bd ha2 hb2; have := mul_bd ha2 hb3; have := mul_bd ha2 hb4; have := mul_bd ha2 hb5; have := mul_bd ha2 hb6; have := mul_bd ha2 hb7; have := mul_bd ha2 hb8
  have := mul_bd ha3 hb0; have := mul_bd ha3 hb1; have := mul_bd ha3 hb2; have := mul_bd ha3 hb3; have := mul_bd ha3 hb4; have := mul_bd ha3 hb5; have := mul_bd ha3 hb6; have := mul_bd ha3 hb7; have := mul_bd ha3 hb8
  have := mul_bd ha4 hb0; have := mul_bd ha4 hb1; have := mul_bd ha4 hb2; have := mul_bd ha4 hb3; have := mul_bd ha4 hb4; have := mul_bd ha4 hb5; have := mul_bd ha4 hb6; have := mul_bd ha4 hb7; have := mul_bd ha4 hb8
  have := mul_bd ha5 hb0; have := mul_bd ha5 hb1; have := mul_bd ha5 hb2; have := mul_bd ha5 hb3; have := mul_bd ha5 hb4; have := mul_bd ha5 hb5; have := mul_bd ha5 hb6; have := mul_bd ha5 hb7; have := mul_bd ha5 hb8
  have := mul_bd ha6 hb0; have := mul_bd ha6 hb1; have := mul_bd ha6 hb2; have := mul_bd ha6 hb3; have := mul_bd ha6 hb4; have := mul_bd ha6 hb5; have := mul_bd ha6 hb6; have := mul_bd ha6 hb7; have := mul_bd ha6 hb8
  have := mul_bd ha7 hb0; have := mul_bd ha7 hb1; have := mul_bd ha7 hb2; have := mul_bd ha7 hb3; have := mul_bd ha7 hb4; have := mul_bd ha7 hb5; have := mul_bd ha7 hb6; have := mul_bd ha7 hb7; have := mul_bd ha7 hb8
  have := mul_bd ha8 hb0; have := mul_bd ha8 hb1; have := mul_bd ha8 hb2; have := mul_bd ha8 hb3; have := mul_bd ha8 hb4; have := mul_bd ha8 hb5; have := mul_bd ha8 hb6; have := mul_bd ha8 hb7; have := mul_bd ha8 hb8
  simp only [mul_internal_fn, school, List.cons.injEq, and_true]
  and_intros
  all_goals first
    | rfl
    | trivial
    | (refine wrap_eq ?h0 ?h1 ?hz
       case h0 => omega
       case h1 => omega
       case hz => wrap_ring)

theorem school_spec (a0 a1 a2 a3 a4 a5 a6 a7 a8 b0 b1 b2 b3 b4 b5 b6 b7 b8 : Int)
    (ha : Lim (2 ^ 29) [a0, a1, a2, a3, a4, a5, a6, a7, a8]) (hb : Lim (2 ^ 29) [b0, b1, b2, b3, b4, b5, b6, b7, b8]) :
    ∃ z0 z1 z2 z3 z4 z5 z6 z7 z8 z9 z10 z11 z12 z13 z14 z15 z16, school a0 a1 a2 a3 a4 a5 a6 a7 a8 b0 b1 b2 b3 b4 b5 b6 b7 b8 = [z0, z1, z2, z3, z4, z5, z6, z7, z8, z9, z10, z11, z12, z13, z14, z15, z16] ∧
      Lim W1 [z0, z1, z2, z3, z4, z5, z6, z7, z8, z9, z10, z11, z12, z13, z14, z15, z16] ∧
      repZ [z0, z1, z2, z3, z4, z5, z6, z7, z8, z9, z10, z11, z12, z13, z14, z15, z16] = repZ [a0, a1, a2, a3, a4, a5, a6, a7, a8] * repZ [b0, b1, b2, b3, b4, b5, b6, b7, b8] := by
  refine ⟨_, _, _, _, _, _, _, _, _, _, _, _, _, _, _, _, _, rfl, ?_, ?_⟩
  · simp only [Lim, and_true] at ha hb ⊢
    obtain ⟨ha0, ha1, ha2, ha3, ha4, ha5, ha6, ha7, ha8⟩ := ha
    obtain ⟨hb0, hb1, hb2, hb3, hb4, hb5, hb6, hb7, hb8⟩ := hb
    have := mul_bd ha0 hb0; have := mul_bd ha0 hb1; have := mul_bd ha0 hb2; have := mul_bd ha0 hb3; have := mul_bd ha0 hb4; have := mul_bd ha0 hb5; have := mul_bd ha0 hb6; have := mul_bd ha0 hb7; have := mul_bd ha0 hb8
    have := mul_bd ha1 hb0; have := mul_bd ha1 hb1; have := mul_bd ha1 hb2; have := mul_bd ha1 hb3; have := mul_bd ha1 hb4; have := mul_bd ha1 hb5; have := mul_bd ha1 hb6; have := mul_bd ha1 hb7; have := mul_bd ha1 hb8
    have := mul_bd ha2 hb0; have := mul_bd ha2 hb1; have := mul_bd ha2 hb2; have := mul_bd ha2 hb3; have := mul_bd ha2 hb4; have := mul_bd ha2 hb5; have := mul_bd ha2 hb6; have := mul_bd ha2 hb7; have := mul_bd ha2 hb8
    have := mul_bd ha3 hb0; have := mul_bd ha3 hb1; have := mul_bd ha3 hb2; have := mul_bd ha3 hb3; have := mul_bd ha3 hb4; have := mul_bd ha3 hb5; have := mul_bd ha3 hb6; have := mul_bd ha3 hb7; have := mul_bd ha3 hb8
    have := mul_bd ha4 hb0; have := mul_bd ha4 hb1; have := mul_bd ha4 hb2; have := mul_bd ha4 hb3; have := mul_bd ha4 hb4; have := mul_bd ha4 hb5; have := mul_bd ha4 hb6; have := mul_bd ha4 hb7; have := mul_bd ha4 hb8
    have := mul_bd ha5 hb0; have := mul_bd ha5 hb1; have := mul_bd ha5 hb2; have := mul_bd ha5 hb3; have := mul_bd ha5 hb4; have := mul_bd ha5 hb5; have := mul_bd ha5 hb6; have := mul_bd ha5 hb7; have := mul_bd ha5 hb8
    have := mul_bd ha6 hb0; have := mul_bd ha6 hb1; have := mul_bd ha6 hb2; have := mul_bd ha6 hb3; have := mul_bd ha6 hb4; have := mul_bd ha6 hb5; have := mul_bd ha6 hb6; have := mul_bd ha6 hb7; have := mul_bd ha6 hb8
    have := mul_bd ha7 hb0; have := mul_bd ha7 hb1; have := mul_bd ha7 hb2; have := mul_bd ha7 hb3; have := mul_bd ha7 hb4; have := mul_bd ha7 hb5; have := mul_bd ha7 hb6; have := mul_bd ha7 hb7; have := mul_bd ha7 hb8
    have := mul_bd ha8 hb0; have := mul_bd ha8 hb1; have := mul_bd ha8 hb2; have := mul_bd ha8 hb3; have := mul_bd ha8 hb4; have := mul_bd ha8 hb5; have := mul_bd ha8 hb6; have := mul_bd ha8 hb7; have := mul_bd ha8 hb8
    simp only [W1]
    omega
  · simp only [repZ]; ring

theorem mul_internal_fn_spec (a0 a1 a2 a3 a4 a5 a6 a7 a8 b0 b1 b2 b3 b4 b5 b6 b7 b8 : Int)
    (ha : Lim (2 ^ 29) [a0, a1, a2, a3, a4, a5, a6, a7, a8]) (hb : Lim (2 ^ 29) [b0, b1, b2, b3, b4, b5, b6, b7, b8]) :
    ∃ z0 z1 z2 z3 z4 z5 z6 z7 z8 z9 z10 z11 z12 z13 z14 z15 z16, mul_internal_fn a0 a1 a2 a3 a4 a5 a6 a7 a8 b0 b1 b2 b3 b4 b5 b6 b7 b8 = [z0, z1, z2, z3, z4, z5, z6, z7, z8, z9, z10, z11, z12, z13, z14, z15, z16] ∧
      Lim W1 [z0, z1, z2, z3, z4, z5, z6, z7, z8, z9, z10, z11, z12, z13, z14, z15, z16] ∧
      repZ [z0, z1, z2, z3, z4, z5, z6, z7, z8, z9, z10, z11, z12, z13, z14, z15, z16] = repZ [a0, a1, a2, a3, a4, a5, a6, a7, a8] * repZ [b0, b1, b2, b3, b4, b5, b6, b7, b8] := by
  rw [mul_internal_fn_eq_school _ _ _ _ _ _ _ _ _ _ _ _ _ _ _ _ _ _ ha hb]
  exact school_spec _ _ _ _ _ _ _ _ _ _ _ _ _ _ _ _ _ _ ha hb

/-- `square_internal(a)` computes the schoolbook coefficients of `a·a` (no wrapping terms here) -/
theorem square_internal_fn_eq (a0 a1 a2 a3 a4 a5 a6 a7 a8 : Int) :
    square_internal_fn a0 a1 a2 a3 a4 a5 a6 a7 a8 = school a0 a1 a2 a3 a4 a5 a6 a7 a8 a0 a1 a2 a3 a4 a5 a6 a7 a8 := by
  simp only [square_internal_fn, school]
  ring_nf

end Dalek.Proofs.Scalar29

import Dalek.IR.KProg
import Dalek.IR.AlgSound
import Dalek.Proofs.VecEdwards
import Dalek.Proofs.IfmaField.Defs
/-!
# KLane — a VERIFIED lane scalariser for `KProg`s (kernel-call programs of the vector point formulas)

The translator emits every parallel point formula of `backend/vector/{avx2,ifma}/edwards.rs` twice:
as a `KProg` (calls of the translated limb kernels, `Dalek.Gen.K*Edwards`) and as a lane-scalarised AlgIR program over
field values (`Dalek.Gen.Alg*Edwards`), the second using a table "method ↦ lane meaning" that lives in the translator.
This file replaces the trust in that table by a proof:

* `Term`: symbolic lane expressions (the free term algebra of the AlgIR signature over input-lane variables);
  `symRun A` runs an `AProg` symbolically, `symRun_sound` relates it to `AProg.run zmodOpsV`.
* `KSpec`: an entry of a LANE-SEMANTICS TABLE: a kernel, its bound contract, the sorts of its arguments / result and the
  four result lanes as `Term`s over the argument lanes; `KSpec.Valid` is its meaning (a theorem about the wrapping run
  of the kernel on ALL inputs inside the contract), proved per kernel from the `*_spec` theorems of
  `Props/C01/{Avx2,Ifma}.lean` (`Proofs/KLane/{Avx2,Ifma}Table.lean`).
* `KProg.scal`: the scalariser; it walks the calls of a `KProg`, propagating (1) the verified interval analysis
  `Prog.norm` exactly as `KProg.check` does, (2) the sorts, (3) the symbolic lanes of every value, and checks at every
  call that the argument intervals are inside the contract of the table entry.
* `KProg.scal_sound`: for all inputs inside the pre-intervals the checked and the wrapping run of the `KProg` succeed,
  agree, and the lane values of the outputs are the evaluation of the computed `Term`s at the lane values of the
  inputs.
* `refOk` / `refines_of_refOk`: the per-formula statement "the scalarised `KProg` and the translator's AlgIR item are the
  same lane terms" is a closed Boolean evaluated by the Lean kernel (`decide +kernel`).
-/
namespace Dalek.Proofs.KLane
open Dalek.IR Dalek.Proofs Dalek.Proofs.Avx2Field Dalek.Proofs.IfmaField

/-! ## 1. symbolic lane expressions -/

/-- symbolic lane expression: `var i` = the `i`-th input lane value, `lit n` = the field element `n`,
`app op a b c` = the AlgIR operation `op` applied to (at most three) arguments -/
inductive Term where
  | var (i : Nat)
  | lit (n : Nat)
  | dflt
  | app (op : FOp) (a b c : Term)
deriving DecidableEq, Repr, Inhabited

/-- the symbolic interpretation of the AlgIR signature; constants are looked up in the constant table of the vector
modules (`vecConstTable`) and reduced modulo `p` -/
def termOps : FOps Term where
  add a b := .app .add a b .dflt
  sub a b := .app .sub a b .dflt
  mul a b := .app .mul a b .dflt
  neg a := .app .neg a .dflt .dflt
  square a := .app .square a .dflt .dflt
  square2 a := .app .square2 a .dflt .dflt
  pow2k a k := .app (.pow2k k) a .dflt .dflt
  const i := .lit (vecConstTable.getD i 0 % Dalek.Proofs.Field26.P)
  ctEq a b := .app .ctEq a b .dflt
  isNeg a := .app .isNeg a .dflt .dflt
  isZero a := .app .isZero a .dflt .dflt
  cand a b := .app .cand a b .dflt
  cor a b := .app .cor a b .dflt
  cxor a b := .app .cxor a b .dflt
  cnot a := .app .cnot a .dflt .dflt
  csel c a b := .app .csel c a b
  dflt := .dflt

/-- value of a symbolic lane expression at the input lane values `L` (in the field, interpretation `zmodOpsV`) -/
noncomputable def Term.eval (L : List Fp) : Term → Fp
  | .var i => L.getD i 0
  | .lit n => (n : Fp)
  | .dflt => 0
  | .app op a b c => zmodOpsV.apply op [a.eval L, b.eval L, c.eval L]

def Term.subst (σ : List Term) : Term → Term
  | .var i => σ.getD i .dflt
  | .lit n => .lit n
  | .dflt => .dflt
  | .app op a b c => .app op (a.subst σ) (b.subst σ) (c.subst σ)

theorem getD_map_eval (L : List Fp) (σ : List Term) (i : Nat) :
    (σ.map (Term.eval L)).getD i 0 = (σ.getD i .dflt).eval L := by
  induction σ generalizing i with
  | nil => simp [Term.eval]
  | cons t σ ih =>
    cases i with
    | zero => simp
    | succ n => simpa using ih n

theorem Term.eval_subst (L : List Fp) (σ : List Term) : ∀ t : Term, (t.subst σ).eval L = t.eval (σ.map (Term.eval L))
  | .var i => by simp only [Term.subst, Term.eval, getD_map_eval]
  | .lit n => rfl
  | .dflt => rfl
  | .app op a b c => by
      simp only [Term.subst, Term.eval, Term.eval_subst L σ a, Term.eval_subst L σ b, Term.eval_subst L σ c]

theorem termOps_rel (L : List Fp) : FOps.Rel (fun t v => Term.eval L t = v) termOps zmodOpsV where
  add := by intro a b a' b' ha hb; subst ha hb; rfl
  sub := by intro a b a' b' ha hb; subst ha hb; rfl
  mul := by intro a b a' b' ha hb; subst ha hb; rfl
  neg := by intro a a' ha; subst ha; rfl
  square := by intro a a' ha; subst ha; rfl
  square2 := by intro a a' ha; subst ha; rfl
  pow2k := by intro a a' k ha; subst ha; rfl
  const := by
    intro i
    show ((vecConstTable.getD i 0 % Dalek.Proofs.Field26.P : Nat) : Fp) = ((vecConstTable.getD i 0 : Nat) : Fp)
    exact ZMod.natCast_mod _ _
  ctEq := by intro a b a' b' ha hb; subst ha hb; rfl
  isNeg := by intro a a' ha; subst ha; rfl
  isZero := by intro a a' ha; subst ha; rfl
  cand := by intro a b a' b' ha hb; subst ha hb; rfl
  cor := by intro a b a' b' ha hb; subst ha hb; rfl
  cxor := by intro a b a' b' ha hb; subst ha hb; rfl
  cnot := by intro a a' ha; subst ha; rfl
  csel := by intro c a b c' a' b' hc ha hb; subst hc ha hb; rfl
  dflt := rfl

/-- symbolic run of an AlgIR program on its input variables -/
def symRun (p : AProg) : List Term := p.run termOps ((List.range p.nIn).map Term.var)

theorem ListRel.of_forall {V W : Type} {R : V → W → Prop} : ∀ {xs : List V} {ys : List W}, xs.length = ys.length →
    (∀ i (h1 : i < xs.length) (h2 : i < ys.length), R xs[i] ys[i]) → ListRel R xs ys
  | [], [], _, _ => .nil
  | x :: xs, y :: ys, hl, h => by
      refine .cons (h 0 (by simp) (by simp)) (ListRel.of_forall (by simpa using hl) ?_)
      intro i h1 h2
      exact h (i + 1) (by simpa using h1) (by simpa using h2)
  | [], _ :: _, hl, _ => by simp at hl
  | _ :: _, [], hl, _ => by simp at hl

theorem ListRel.map_eq {V W : Type} {f : V → W} : ∀ {xs : List V} {ys : List W},
    ListRel (fun t v => f t = v) xs ys → xs.map f = ys
  | _, _, .nil => rfl
  | _, _, .cons h t => by simp [h, ListRel.map_eq t]

/-- the symbolic run evaluates to the run in the field -/
theorem symRun_sound (p : AProg) (L : List Fp) (h : L.length = p.nIn) :
    (symRun p).map (Term.eval L) = p.run zmodOpsV L := by
  refine ListRel.map_eq (AProg.run_rel (termOps_rel L) p (ListRel.of_forall (by simp [h]) ?_))
  intro i h1 h2
  simp only [List.getElem_map, List.getElem_range, Term.eval]
  simp [List.getD_eq_getElem?_getD, h2]

/-! ## 2. sorts of values and their lane meaning -/

/-- sort of a `KProg` value: AVX2 vector (40 u32 lanes), IFMA vector (20 u64 lanes), four serial `FieldElement51`
(20 limbs), one serial `FieldElement51` (5 limbs), four `u32` scalars, a `Choice` -/
inductive VSort where
  | v26 | v51 | ser | fe | sc | ch
deriving DecidableEq, Repr, Inhabited

/-- number of machine words -/
def VSort.width : VSort → Nat
  | .v26 => 40 | .v51 => 20 | .ser => 20 | .fe => 5 | .sc => 4 | .ch => 1

/-- number of field values -/
def VSort.arity : VSort → Nat
  | .fe => 1 | .ch => 1 | .v26 => 4 | .v51 => 4 | .ser => 4 | .sc => 4

/-- the lane values of a value as integers (computable; used for literals) -/
def meaningZ : VSort → List Nat → List Int
  | .v26, v => [Dalek.Proofs.Field26.rep26 (vecLimbs .A v), Dalek.Proofs.Field26.rep26 (vecLimbs .B v),
      Dalek.Proofs.Field26.rep26 (vecLimbs .C v), Dalek.Proofs.Field26.rep26 (vecLimbs .D v)]
  | .v51, v => [Dalek.Proofs.Field51.rep51 (vecLimbs51 .A v), Dalek.Proofs.Field51.rep51 (vecLimbs51 .B v),
      Dalek.Proofs.Field51.rep51 (vecLimbs51 .C v), Dalek.Proofs.Field51.rep51 (vecLimbs51 .D v)]
  | .ser, v => [Dalek.Proofs.Field51.rep51 (elem51 .A (toZ v)), Dalek.Proofs.Field51.rep51 (elem51 .B (toZ v)),
      Dalek.Proofs.Field51.rep51 (elem51 .C (toZ v)), Dalek.Proofs.Field51.rep51 (elem51 .D (toZ v))]
  | .fe, v => [Dalek.Proofs.Field51.rep51 (toZ v)]
  | .sc, v => [((v.getD 0 0 : Nat) : Int), ((v.getD 1 0 : Nat) : Int), ((v.getD 2 0 : Nat) : Int), ((v.getD 3 0 : Nat) : Int)]
  | .ch, v => [((v.getD 0 0 : Nat) : Int)]

/-- the lane values of a value in the field: for a vector `[vecVal A v, vecVal B v, vecVal C v, vecVal D v]`
(resp. `vecVal51`), for four serial elements `[elemVal A v, …]`, for one serial element its value, for scalars and a
choice their casts -/
noncomputable def meaning (s : VSort) (v : List Nat) : List Fp := (meaningZ s v).map (fun z => ((z : Int) : Fp))

theorem meaning_v26 (v : List Nat) : meaning .v26 v = [vecVal .A v, vecVal .B v, vecVal .C v, vecVal .D v] := rfl
theorem meaning_v51 (v : List Nat) : meaning .v51 v = [vecVal51 .A v, vecVal51 .B v, vecVal51 .C v, vecVal51 .D v] := rfl
theorem meaning_ser (v : List Nat) : meaning .ser v = [elemVal .A v, elemVal .B v, elemVal .C v, elemVal .D v] := rfl
/-- value of a serial `FieldElement51` (five u64 limbs, radix 2^51) in the field -/
noncomputable def feVal (v : List Nat) : Fp := ((Dalek.Proofs.Field51.rep51 (toZ v) : Int) : Fp)
theorem meaning_fe (v : List Nat) : meaning .fe v = [feVal v] := rfl
theorem meaning_sc (v : List Nat) :
    meaning .sc v = [((v.getD 0 0 : Nat) : Fp), ((v.getD 1 0 : Nat) : Fp), ((v.getD 2 0 : Nat) : Fp), ((v.getD 3 0 : Nat) : Fp)] := by
  simp [meaning, meaningZ]
theorem meaning_ch (v : List Nat) : meaning .ch v = [((v.getD 0 0 : Nat) : Fp)] := by
  simp [meaning, meaningZ]

theorem meaning_length (s : VSort) (v : List Nat) : (meaning s v).length = s.arity := by
  cases s <;> rfl

/-- literal term for the field element `z mod p` -/
def litTerm (z : Int) : Term := .lit (z % (Dalek.Proofs.Field26.P : Int)).toNat

theorem eval_litTerm (L : List Fp) (z : Int) : (litTerm z).eval L = ((z : Int) : Fp) := by
  show (((z % (Dalek.Proofs.Field26.P : Int)).toNat : Nat) : Fp) = _
  have hnn : 0 ≤ z % (Dalek.Proofs.Field26.P : Int) := Int.emod_nonneg _ (by decide)
  have h1 : (((z % (Dalek.Proofs.Field26.P : Int)).toNat : Nat) : Int) = z % (Dalek.Proofs.Field26.P : Int) :=
    Int.toNat_of_nonneg hnn
  have h2 : (((z % (Dalek.Proofs.Field26.P : Int)).toNat : Nat) : Fp)
      = (((((z % (Dalek.Proofs.Field26.P : Int)).toNat : Nat) : Int)) : Fp) := by push_cast; rfl
  rw [h2, h1]
  exact ZMod.intCast_mod z _

/-! ## 3. the lane-semantics table -/

/-- an entry of the lane-semantics table -/
structure KSpec where
  /-- the kernel -/
  k : Prog
  /-- bound contract on the concatenated arguments -/
  pre : List Itv
  argSorts : List VSort
  outSort : VSort
  /-- the lanes of the result as terms over the concatenated lane values of the arguments -/
  sem : List Term

/-- lane values of a list of values of the given sorts, concatenated -/
noncomputable def lanesOf (sorts : List VSort) (args : List (List Nat)) : List Fp :=
  (List.zipWith meaning sorts args).flatten

/-- MEANING of a table entry: for all arguments of the right widths inside the contract, the lane values of the result
of the WRAPPING run of the kernel are `sem` evaluated at the lane values of the arguments -/
def KSpec.Valid (e : KSpec) : Prop :=
  ∀ args : List (List Nat), args.map List.length = e.argSorts.map VSort.width → EnvIn args.flatten e.pre →
    meaning e.outSort (e.k.evalW args.flatten) = e.sem.map (Term.eval (lanesOf e.argSorts args))

/-! ## 4. the scalariser -/

/-- symbolic lanes of one argument of expected sort `s` -/
def argS (senv : List VSort) (aenv : List (List Term)) (s : VSort) : KArg → Option (List Term)
  | .var i => if senv[i]? = some s then aenv[i]? else none
  | .lit xs => if xs.length = s.width then some ((meaningZ s xs).map litTerm) else none

def gatherS (senv : List VSort) (aenv : List (List Term)) : List VSort → List KArg → Option (List Term)
  | [], [] => some []
  | s :: ss, a :: as =>
    match argS senv aenv s a, gatherS senv aenv ss as with
    | some t, some r => some (t ++ r)
    | _, _ => none
  | _, _ => none

/-- walk the calls: interval analysis (as `kcheck`), sorts, symbolic lanes; every call must be in the table, its
arguments of the sorts of the entry and its argument intervals inside the contract of the entry -/
def kscal (T : List KSpec) : List KStmt → List (List Itv) → List VSort → List (List Term) →
    Option (List (List Itv) × List VSort × List (List Term))
  | [], ienv, senv, aenv => some (ienv, senv, aenv)
  | s :: ss, ienv, senv, aenv =>
    match T.find? (fun e => decide (e.k = s.k)) with
    | none => none
    | some e =>
      match gatherI ienv s.args, gatherS senv aenv e.argSorts s.args with
      | some ai, some ta =>
        if itvsLe ai e.pre then
          match s.k.norm ai with
          | some (_, post) =>
            if post.length = e.outSort.width then
              kscal T ss (ienv ++ [post]) (senv ++ [e.outSort]) (aenv ++ [e.sem.map (Term.subst ta)])
            else none
          | none => none
        else none
      | _, _ => none

/-- the input lane variables: value `j` of sort `s` gets `s.arity` consecutive variables -/
def initA : Nat → List VSort → List (List Term)
  | _, [] => []
  | off, s :: ss => ((List.range s.arity).map (fun j => Term.var (off + j))) :: initA (off + s.arity) ss

/-- the scalariser: sorts and symbolic lanes of the outputs of `p` for inputs of the sorts `sorts` inside `pre` -/
def _root_.Dalek.IR.KProg.scal (T : List KSpec) (p : KProg) (pre : List (List Itv)) (sorts : List VSort) :
    Option (List (VSort × List Term)) :=
  if pre.length = p.nIn ∧ pre.map List.length = sorts.map VSort.width then
    match kscal T p.body pre sorts (initA 0 sorts) with
    | some (_, senv, aenv) => kpick (senv.zip aenv) p.outs
    | none => none
  else none

/-! ## 5. soundness -/

/-- every value has the width of its sort and its lane values are the evaluation of its symbolic lanes -/
def StInv (L : List Fp) : List (List Nat) → List VSort → List (List Term) → Prop
  | [], [], [] => True
  | x :: xs, s :: ss, t :: ts => (x.length = s.width ∧ meaning s x = t.map (Term.eval L)) ∧ StInv L xs ss ts
  | _, _, _ => False

theorem StInv_get (L : List Fp) : ∀ {env : List (List Nat)} {senv : List VSort} {aenv : List (List Term)},
    StInv L env senv aenv → ∀ {i : Nat} {s : VSort} {t : List Term}, senv[i]? = some s → aenv[i]? = some t →
    ∃ x, env[i]? = some x ∧ x.length = s.width ∧ meaning s x = t.map (Term.eval L)
  | x :: xs, s' :: ss, t' :: ts, h, 0, s, t, hs, ht => by
      simp only [List.getElem?_cons_zero, Option.some.injEq] at hs ht
      subst hs ht
      exact ⟨x, by simp, h.1.1, h.1.2⟩
  | x :: xs, s' :: ss, t' :: ts, h, i + 1, s, t, hs, ht => by
      simp only [List.getElem?_cons_succ] at hs ht ⊢
      exact StInv_get L h.2 hs ht
  | [], [], [], _, i, s, t, hs, _ => by simp at hs
  | [], [], _ :: _, h, _, _, _, _, _ => by simp [StInv] at h
  | [], _ :: _, _, h, _, _, _, _, _ => by simp [StInv] at h
  | _ :: _, [], _, h, _, _, _, _, _ => by simp [StInv] at h
  | _ :: _, _ :: _, [], h, _, _, _, _, _ => by simp [StInv] at h

theorem StInv_snoc (L : List Fp) : ∀ {env : List (List Nat)} {senv : List VSort} {aenv : List (List Term)}
    {x : List Nat} {s : VSort} {t : List Term}, StInv L env senv aenv → x.length = s.width →
    meaning s x = t.map (Term.eval L) → StInv L (env ++ [x]) (senv ++ [s]) (aenv ++ [t])
  | [], [], [], x, s, t, _, h1, h2 => by simp [StInv, h1, h2]
  | y :: env, s' :: senv, t' :: aenv, x, s, t, h, h1, h2 => by
      simp only [List.cons_append, StInv]
      exact ⟨h.1, StInv_snoc L h.2 h1 h2⟩
  | [], [], _ :: _, _, _, _, h, _, _ => by simp [StInv] at h
  | [], _ :: _, _, _, _, _, h, _, _ => by simp [StInv] at h
  | _ :: _, [], _, _, _, _, h, _, _ => by simp [StInv] at h
  | _ :: _, _ :: _, [], _, _, _, h, _, _ => by simp [StInv] at h

theorem StInv_zip_get (L : List Fp) : ∀ {env : List (List Nat)} {senv : List VSort} {aenv : List (List Term)},
    StInv L env senv aenv → ∀ {i : Nat} {s : VSort} {t : List Term}, (senv.zip aenv)[i]? = some (s, t) →
    ∃ x, env[i]? = some x ∧ meaning s x = t.map (Term.eval L) := by
  intro env senv aenv h i s t hz
  rw [List.getElem?_zip_eq_some] at hz
  obtain ⟨x, hx, _, hm⟩ := StInv_get L h hz.1 hz.2
  exact ⟨x, hx, hm⟩

theorem argS_sound (L : List Fp) {env : List (List Nat)} {senv : List VSort} {aenv : List (List Term)}
    (h : StInv L env senv aenv) (s : VSort) :
    ∀ (a : KArg) (t : List Term), argS senv aenv s a = some t →
      ∃ x, a.val env = some x ∧ x.length = s.width ∧ meaning s x = t.map (Term.eval L)
  | .var i, t, ht => by
      simp only [argS] at ht
      split at ht
      · rename_i hs
        exact StInv_get L h hs ht
      · simp at ht
  | .lit xs, t, ht => by
      simp only [argS] at ht
      split at ht
      · rename_i hl
        simp only [Option.some.injEq] at ht
        subst ht
        refine ⟨xs, rfl, hl, ?_⟩
        simp only [meaning, List.map_map]
        apply List.map_congr_left
        intro z _
        exact (eval_litTerm L z).symm
      · simp at ht

theorem gatherS_sound (L : List Fp) {env : List (List Nat)} {senv : List VSort} {aenv : List (List Term)}
    (h : StInv L env senv aenv) :
    ∀ (sorts : List VSort) (as : List KArg) (ta : List Term), gatherS senv aenv sorts as = some ta →
      ∃ args : List (List Nat), gather env as = some args.flatten ∧ args.map List.length = sorts.map VSort.width ∧
        lanesOf sorts args = ta.map (Term.eval L)
  | [], [], ta, ht => by
      simp only [gatherS, Option.some.injEq] at ht
      subst ht
      exact ⟨[], rfl, rfl, rfl⟩
  | s :: ss, a :: as, ta, ht => by
      unfold gatherS at ht
      split at ht
      · rename_i t r h1 h2
        simp only [Option.some.injEq] at ht
        subst ht
        obtain ⟨x, hx, hxl, hxm⟩ := argS_sound L h s a t h1
        obtain ⟨args, hg, hal, ham⟩ := gatherS_sound L h ss as r h2
        refine ⟨x :: args, ?_, ?_, ?_⟩
        · simp [gather, hx, hg]
        · simp [hxl, hal]
        · simp only [lanesOf] at ham ⊢
          simp [hxm, ham]
      · simp at ht
  | [], _ :: _, _, ht => by simp [gatherS] at ht
  | _ :: _, [], _, ht => by simp [gatherS] at ht

theorem kscal_sound (T : List KSpec) (hT : ∀ e ∈ T, e.Valid) (L : List Fp) :
    ∀ (ss : List KStmt) (ienv : List (List Itv)) (senv : List VSort) (aenv : List (List Term))
      (env : List (List Nat)) (res : List (List Itv) × List VSort × List (List Term)),
      EnvIn2 env ienv → StInv L env senv aenv → kscal T ss ienv senv aenv = some res →
      ∃ env', krunC ss env = some env' ∧ krunW ss env = some env' ∧ EnvIn2 env' res.1 ∧ StInv L env' res.2.1 res.2.2
  | [], ienv, senv, aenv, env, res, h, hs, hc => by
      simp only [kscal, Option.some.injEq] at hc
      subst hc
      exact ⟨env, rfl, rfl, h, hs⟩
  | s :: ss, ienv, senv, aenv, env, res, h, hs, hc => by
      unfold kscal at hc
      split at hc
      · simp at hc
      · rename_i e hfind
        have hmem : e ∈ T := List.mem_of_find?_eq_some hfind
        have hk : e.k = s.k := by simpa using List.find?_some hfind
        split at hc
        · rename_i ai ta hai hta
          split at hc
          · rename_i hle
            split at hc
            · rename_i q post hn
              split at hc
              · rename_i hpl
                obtain ⟨x, hx, hxm⟩ := gather_sound h s.args ai hai
                obtain ⟨args, hg, hal, ham⟩ := gatherS_sound L hs e.argSorts s.args ta hta
                have hxa : x = args.flatten := by
                  rw [hg] at hx
                  exact (Option.some.inj hx).symm
                obtain ⟨o, ho1, ho2, ho3, _⟩ := Prog.norm_sound s.k ai q post hn x hxm
                have hv := hT e hmem args hal (hxa ▸ EnvIn_of_itvsLe hxm hle)
                rw [hk, ← hxa, ho2, ham] at hv
                have hinv : StInv L (env ++ [o]) (senv ++ [e.outSort]) (aenv ++ [e.sem.map (Term.subst ta)]) := by
                  refine StInv_snoc L hs ?_ ?_
                  · rw [EnvIn_length ho3, hpl]
                  · rw [hv, List.map_map]
                    apply List.map_congr_left
                    intro t _
                    exact (Term.eval_subst L ta t).symm
                obtain ⟨env', h1, h2, h3, h4⟩ :=
                  kscal_sound T hT L ss (ienv ++ [post]) (senv ++ [e.outSort]) (aenv ++ [e.sem.map (Term.subst ta)])
                    (env ++ [o]) res (EnvIn2_snoc h ho3) hinv hc
                refine ⟨env', ?_, ?_, h3, h4⟩
                · simp [krunC, hx, ho1, h1]
                · simp [krunW, hx, ho2, h2]
              · simp at hc
            · simp at hc
          · simp at hc
        · simp at hc

theorem getD_append_add {α : Type} (pfx xs rest : List α) (d : α) (j : Nat) (hj : j < xs.length) :
    (pfx ++ (xs ++ rest)).getD (pfx.length + j) d = xs.getD j d := by
  rw [List.getD_eq_getElem?_getD, List.getD_eq_getElem?_getD, List.getElem?_append_right (by omega)]
  simp [List.getElem?_append_left hj]

theorem initA_inv : ∀ (sorts : List VSort) (ins : List (List Nat)) (pre : List (List Itv)) (pfx : List Fp),
    EnvIn2 ins pre → pre.map List.length = sorts.map VSort.width →
    StInv (pfx ++ lanesOf sorts ins) ins sorts (initA pfx.length sorts)
  | [], [], [], _, _, _ => trivial
  | s :: sorts, x :: ins, t :: pre, pfx, h, hl => by
      simp only [List.map_cons, List.cons.injEq] at hl
      refine ⟨⟨by rw [EnvIn_length h.1, hl.1], ?_⟩, ?_⟩
      · apply List.ext_getElem
        · simp [meaning_length]
        · intro j h1 h2
          have hj : j < (meaning s x).length := h1
          simp only [List.getElem_map, List.getElem_range, Term.eval, lanesOf, List.zipWith_cons_cons,
            List.flatten_cons]
          rw [getD_append_add pfx (meaning s x) _ 0 j hj]
          simp [List.getD_eq_getElem?_getD, hj]
      · have := initA_inv sorts ins pre (pfx ++ meaning s x) h.2 hl.2
        simp only [List.length_append, meaning_length, List.append_assoc] at this
        simpa only [lanesOf, List.zipWith_cons_cons, List.flatten_cons] using this
  | [], _ :: _, [], _, h, _ => by simp [EnvIn2] at h
  | [], _, _ :: _, _, _, hl => by simp at hl
  | _ :: _, _, [], _, _, hl => by simp at hl
  | _ :: _, [], _ :: _, _, h, _ => by simp [EnvIn2] at h

/-- outputs: lane values = evaluated symbolic lanes -/
def OutRel (L : List Fp) : List (List Nat) → List (VSort × List Term) → Prop
  | [], [] => True
  | x :: xs, st :: r => meaning st.1 x = st.2.map (Term.eval L) ∧ OutRel L xs r
  | _, _ => False

theorem kpick_out (L : List Fp) {env : List (List Nat)} {senv : List VSort} {aenv : List (List Term)}
    (h : StInv L env senv aenv) :
    ∀ (outs : List Nat) (r : List (VSort × List Term)), kpick (senv.zip aenv) outs = some r →
      ∃ o, kpick env outs = some o ∧ OutRel L o r
  | [], r, hp => by
      simp only [kpick, Option.some.injEq] at hp
      subst hp
      exact ⟨[], rfl, trivial⟩
  | i :: is, r, hp => by
      unfold kpick at hp
      split at hp
      · rename_i st r' hst hr
        simp only [Option.some.injEq] at hp
        subst hp
        obtain ⟨x, hx, hxm⟩ := StInv_zip_get L h (s := st.1) (t := st.2) hst
        obtain ⟨o, ho, hom⟩ := kpick_out L h is r' hr
        exact ⟨x :: o, by simp [kpick, hx, ho], hxm, hom⟩
      · simp at hp

/-- **Soundness of the scalariser.**  If every table entry is valid and `p.scal T pre sorts = some outsT`, then for ALL
inputs inside `pre`: no kernel call overflows or fails an assertion, checked and wrapping runs agree, and the lane
values of the outputs are the terms `outsT` evaluated at the lane values of the inputs. -/
theorem _root_.Dalek.IR.KProg.scal_sound (T : List KSpec) (hT : ∀ e ∈ T, e.Valid) (p : KProg) (pre : List (List Itv))
    (sorts : List VSort) (outsT : List (VSort × List Term)) (h : p.scal T pre sorts = some outsT)
    (ins : List (List Nat)) (hin : EnvIn2 ins pre) :
    ∃ outs, p.evalC ins = some outs ∧ p.evalW ins = some outs ∧ OutRel (lanesOf sorts ins) outs outsT := by
  unfold KProg.scal at h
  split at h
  · rename_i hpre
    split at h
    · rename_i ienv senv aenv hc
      have hinit := initA_inv sorts ins pre [] hin hpre.2
      simp only [List.nil_append, List.length_nil] at hinit
      obtain ⟨env', h1, h2, _, h4⟩ := kscal_sound T hT (lanesOf sorts ins) p.body pre sorts (initA 0 sorts) ins
        (ienv, senv, aenv) hin hinit hc
      obtain ⟨o, ho, hom⟩ := kpick_out _ h4 p.outs outsT h
      have hl : ins.length = p.nIn := by rw [EnvIn2_length hin, hpre.1]
      exact ⟨o, by simp [KProg.evalC, hl, h1, ho], by simp [KProg.evalW, hl, h2, ho], hom⟩
    · simp at h
  · simp at h

/-! ## 6. the per-formula check -/

/-- the closed Boolean statement evaluated by the Lean kernel for every formula: the scalarised `KProg` has one output
of sort `s` whose symbolic lanes are exactly the symbolic outputs of the translator's AlgIR item `A` -/
def refOk (T : List KSpec) (p : KProg) (pre : List (List Itv)) (sorts : List VSort) (s : VSort) (A : AProg) : Bool :=
  decide (p.scal T pre sorts = some [(s, symRun A)]) && decide (A.nIn = (sorts.map VSort.arity).sum)

theorem lanesOf_length : ∀ (sorts : List VSort) (ins : List (List Nat)), ins.length = sorts.length →
    (lanesOf sorts ins).length = (sorts.map VSort.arity).sum
  | [], [], _ => rfl
  | s :: sorts, x :: ins, h => by
      have := lanesOf_length sorts ins (by simpa using h)
      simp only [lanesOf] at this ⊢
      simp [meaning_length, this]
  | [], _ :: _, h => by simp at h
  | _ :: _, [], h => by simp at h

/-- **Refinement.**  `refOk` ⟹ for all inputs inside `pre` the `KProg` runs (checked = wrapping) to ONE output whose
lane values are the run of the AlgIR item `A` in the field on the lane values of the inputs. -/
theorem refines_of_refOk (T : List KSpec) (hT : ∀ e ∈ T, e.Valid) (p : KProg) (pre : List (List Itv))
    (sorts : List VSort) (s : VSort) (A : AProg) (h : refOk T p pre sorts s A = true)
    (ins : List (List Nat)) (hin : EnvIn2 ins pre) :
    ∃ out, p.evalC ins = some [out] ∧ p.evalW ins = some [out] ∧
      meaning s out = A.run zmodOpsV (lanesOf sorts ins) := by
  simp only [refOk, Bool.and_eq_true, decide_eq_true_eq] at h
  obtain ⟨hs, hn⟩ := h
  obtain ⟨outs, h1, h2, h3⟩ := p.scal_sound T hT pre sorts _ hs ins hin
  have hlen : ins.length = sorts.length := by
    have hp : pre.map List.length = sorts.map VSort.width := by
      unfold KProg.scal at hs
      split at hs
      · rename_i hpre; exact hpre.2
      · simp at hs
    have := congrArg List.length hp
    simp only [List.length_map] at this
    rw [EnvIn2_length hin, this]
  match outs, h3 with
  | [out], h3 =>
    refine ⟨out, h1, h2, ?_⟩
    rw [h3.1]
    exact symRun_sound A _ (by rw [lanesOf_length sorts ins hlen, hn])
  | [], h3 => simp [OutRel] at h3
  | _ :: _ :: _, h3 => simp [OutRel] at h3

/-! ## 7. helpers for the validity proofs of the tables -/

theorem forall_len_zero {P : List Nat → Prop} (h : P []) : ∀ X : List Nat, X.length = 0 → P X := by
  intro X hX
  rw [List.eq_nil_of_length_eq_zero hX]
  exact h

theorem forall_len_succ {n : Nat} {P : List Nat → Prop} (h : ∀ x : Nat, ∀ X : List Nat, X.length = n → P (x :: X)) :
    ∀ X : List Nat, X.length = n + 1 → P X := by
  intro X hX
  match X, hX with
  | x :: X, hX => exact h x X (by simpa using hX)

theorem forall_len1 {P : List Nat → Prop}
    (h : ∀ x0 : Nat, P (x0 :: [])) :
    ∀ X : List Nat, X.length = 1 → P X :=
  forall_len_succ fun x0 => forall_len_zero (h x0)

theorem forall_len4 {P : List Nat → Prop}
    (h : ∀ x0 x1 x2 x3 : Nat, P (x0 :: x1 :: x2 :: x3 :: [])) :
    ∀ X : List Nat, X.length = 4 → P X :=
  forall_len_succ fun x0 => forall_len_succ fun x1 => forall_len_succ fun x2 => forall_len_succ fun x3 => forall_len_zero (h x0 x1 x2 x3)

theorem forall_len5 {P : List Nat → Prop}
    (h : ∀ x0 x1 x2 x3 x4 : Nat, P (x0 :: x1 :: x2 :: x3 :: x4 :: [])) :
    ∀ X : List Nat, X.length = 5 → P X :=
  forall_len_succ fun x0 => forall_len_succ fun x1 => forall_len_succ fun x2 => forall_len_succ fun x3 => forall_len_succ fun x4 => forall_len_zero (h x0 x1 x2 x3 x4)

theorem forall_len20 {P : List Nat → Prop}
    (h : ∀ x0 x1 x2 x3 x4 x5 x6 x7 x8 x9 x10 x11 x12 x13 x14 x15 x16 x17 x18 x19 : Nat, P (x0 :: x1 :: x2 :: x3 :: x4 :: x5 :: x6 :: x7 :: x8 :: x9 :: x10 :: x11 :: x12 :: x13 :: x14 :: x15 :: x16 :: x17 :: x18 :: x19 :: [])) :
    ∀ X : List Nat, X.length = 20 → P X :=
  forall_len_succ fun x0 => forall_len_succ fun x1 => forall_len_succ fun x2 => forall_len_succ fun x3 => forall_len_succ fun x4 => forall_len_succ fun x5 => forall_len_succ fun x6 => forall_len_succ fun x7 => forall_len_succ fun x8 => forall_len_succ fun x9 => forall_len_succ fun x10 => forall_len_succ fun x11 => forall_len_succ fun x12 => forall_len_succ fun x13 => forall_len_succ fun x14 => forall_len_succ fun x15 => forall_len_succ fun x16 => forall_len_succ fun x17 => forall_len_succ fun x18 => forall_len_succ fun x19 => forall_len_zero (h x0 x1 x2 x3 x4 x5 x6 x7 x8 x9 x10 x11 x12 x13 x14 x15 x16 x17 x18 x19)

theorem forall_len40 {P : List Nat → Prop}
    (h : ∀ x0 x1 x2 x3 x4 x5 x6 x7 x8 x9 x10 x11 x12 x13 x14 x15 x16 x17 x18 x19 x20 x21 x22 x23 x24 x25 x26 x27 x28 x29 x30 x31 x32 x33 x34 x35 x36 x37 x38 x39 : Nat, P (x0 :: x1 :: x2 :: x3 :: x4 :: x5 :: x6 :: x7 :: x8 :: x9 :: x10 :: x11 :: x12 :: x13 :: x14 :: x15 :: x16 :: x17 :: x18 :: x19 :: x20 :: x21 :: x22 :: x23 :: x24 :: x25 :: x26 :: x27 :: x28 :: x29 :: x30 :: x31 :: x32 :: x33 :: x34 :: x35 :: x36 :: x37 :: x38 :: x39 :: [])) :
    ∀ X : List Nat, X.length = 40 → P X :=
  forall_len_succ fun x0 => forall_len_succ fun x1 => forall_len_succ fun x2 => forall_len_succ fun x3 => forall_len_succ fun x4 => forall_len_succ fun x5 => forall_len_succ fun x6 => forall_len_succ fun x7 => forall_len_succ fun x8 => forall_len_succ fun x9 => forall_len_succ fun x10 => forall_len_succ fun x11 => forall_len_succ fun x12 => forall_len_succ fun x13 => forall_len_succ fun x14 => forall_len_succ fun x15 => forall_len_succ fun x16 => forall_len_succ fun x17 => forall_len_succ fun x18 => forall_len_succ fun x19 => forall_len_succ fun x20 => forall_len_succ fun x21 => forall_len_succ fun x22 => forall_len_succ fun x23 => forall_len_succ fun x24 => forall_len_succ fun x25 => forall_len_succ fun x26 => forall_len_succ fun x27 => forall_len_succ fun x28 => forall_len_succ fun x29 => forall_len_succ fun x30 => forall_len_succ fun x31 => forall_len_succ fun x32 => forall_len_succ fun x33 => forall_len_succ fun x34 => forall_len_succ fun x35 => forall_len_succ fun x36 => forall_len_succ fun x37 => forall_len_succ fun x38 => forall_len_succ fun x39 => forall_len_zero (h x0 x1 x2 x3 x4 x5 x6 x7 x8 x9 x10 x11 x12 x13 x14 x15 x16 x17 x18 x19 x20 x21 x22 x23 x24 x25 x26 x27 x28 x29 x30 x31 x32 x33 x34 x35 x36 x37 x38 x39)


/-- `iterate n intro`: introduce the `n` words of a destructured list -/
macro "intro_words " n:num : tactic => `(tactic| iterate $n intro)

theorem args1 {args : List (List Nat)} {w : Nat} (h : args.map List.length = [w]) :
    ∃ X, args = [X] ∧ X.length = w := by
  match args, h with
  | [X], h => exact ⟨X, rfl, by simpa using h⟩

theorem args2 {args : List (List Nat)} {w1 w2 : Nat} (h : args.map List.length = [w1, w2]) :
    ∃ X Y, args = [X, Y] ∧ X.length = w1 ∧ Y.length = w2 := by
  match args, h with
  | [X, Y], h =>
    simp only [List.map_cons, List.map_nil, List.cons.injEq, and_true] at h
    exact ⟨X, Y, rfl, h.1, h.2⟩

theorem args3 {args : List (List Nat)} {w1 w2 w3 : Nat} (h : args.map List.length = [w1, w2, w3]) :
    ∃ X Y Z, args = [X, Y, Z] ∧ X.length = w1 ∧ Y.length = w2 ∧ Z.length = w3 := by
  match args, h with
  | [X, Y, Z], h =>
    simp only [List.map_cons, List.map_nil, List.cons.injEq, and_true] at h
    exact ⟨X, Y, Z, rfl, h.1, h.2.1, h.2.2⟩

theorem args4 {args : List (List Nat)} {w1 w2 w3 w4 : Nat} (h : args.map List.length = [w1, w2, w3, w4]) :
    ∃ X Y Z W, args = [X, Y, Z, W] ∧ X.length = w1 ∧ Y.length = w2 ∧ Z.length = w3 ∧ W.length = w4 := by
  match args, h with
  | [X, Y, Z, W], h =>
    simp only [List.map_cons, List.map_nil, List.cons.injEq, and_true] at h
    exact ⟨X, Y, Z, W, rfl, h.1, h.2.1, h.2.2.1, h.2.2.2⟩

/-- validity of an entry with one argument -/
theorem valid_un {k : Prog} {pre : List Itv} {sIn sOut : VSort} {sem : List Term}
    (h : ∀ X : List Nat, X.length = sIn.width → EnvIn X pre →
      meaning sOut (k.evalW X) = sem.map (Term.eval (meaning sIn X))) :
    (KSpec.mk k pre [sIn] sOut sem).Valid := by
  intro args hlen hin
  obtain ⟨X, rfl, hX⟩ := args1 hlen
  simp only [List.flatten_cons, List.flatten_nil, List.append_nil, lanesOf, List.zipWith_cons_cons,
    List.zipWith_nil_right] at hin ⊢
  exact h X hX hin

/-- validity of an entry with two arguments -/
theorem valid_bin {k : Prog} {pre : List Itv} {s1 s2 sOut : VSort} {sem : List Term}
    (h : ∀ X : List Nat, X.length = s1.width → ∀ Y : List Nat, Y.length = s2.width → EnvIn (X ++ Y) pre →
      meaning sOut (k.evalW (X ++ Y)) = sem.map (Term.eval (meaning s1 X ++ meaning s2 Y))) :
    (KSpec.mk k pre [s1, s2] sOut sem).Valid := by
  intro args hlen hin
  obtain ⟨X, Y, rfl, hX, hY⟩ := args2 hlen
  simp only [List.flatten_cons, List.flatten_nil, List.append_nil, lanesOf, List.zipWith_cons_cons,
    List.zipWith_nil_right] at hin ⊢
  exact h X hX Y hY hin

/-- validity of an entry with three arguments -/
theorem valid_tern {k : Prog} {pre : List Itv} {s1 s2 s3 sOut : VSort} {sem : List Term}
    (h : ∀ X : List Nat, X.length = s1.width → ∀ Y : List Nat, Y.length = s2.width →
      ∀ Z : List Nat, Z.length = s3.width → EnvIn (X ++ Y ++ Z) pre →
      meaning sOut (k.evalW (X ++ Y ++ Z)) = sem.map (Term.eval (meaning s1 X ++ (meaning s2 Y ++ meaning s3 Z)))) :
    (KSpec.mk k pre [s1, s2, s3] sOut sem).Valid := by
  intro args hlen hin
  obtain ⟨X, Y, Z, rfl, hX, hY, hZ⟩ := args3 hlen
  simp only [List.flatten_cons, List.flatten_nil, List.append_nil, lanesOf, List.zipWith_cons_cons,
    List.zipWith_nil_right, ← List.append_assoc] at hin ⊢
  simp only [List.append_assoc (meaning s1 X)]
  exact h X hX Y hY Z hZ hin

/-- validity of an entry with four arguments -/
theorem valid_quad {k : Prog} {pre : List Itv} {s1 s2 s3 s4 sOut : VSort} {sem : List Term}
    (h : ∀ X : List Nat, X.length = s1.width → ∀ Y : List Nat, Y.length = s2.width →
      ∀ Z : List Nat, Z.length = s3.width → ∀ W : List Nat, W.length = s4.width → EnvIn (X ++ (Y ++ (Z ++ W))) pre →
      meaning sOut (k.evalW (X ++ (Y ++ (Z ++ W)))) =
        sem.map (Term.eval (meaning s1 X ++ (meaning s2 Y ++ (meaning s3 Z ++ meaning s4 W))))) :
    (KSpec.mk k pre [s1, s2, s3, s4] sOut sem).Valid := by
  intro args hlen hin
  obtain ⟨X, Y, Z, W, rfl, hX, hY, hZ, hW⟩ := args4 hlen
  simp only [List.flatten_cons, List.flatten_nil, List.append_nil, lanesOf, List.zipWith_cons_cons,
    List.zipWith_nil_right] at hin ⊢
  exact h X hX Y hY Z hZ W hW hin

/-- short names for the table entries -/
def v (i : Nat) : Term := .var i

end Dalek.Proofs.KLane

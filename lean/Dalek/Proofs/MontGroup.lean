/-
Group-level facts around X25519 public keys: `to_montgomery` in terms of the represented Edwards group element,
the proposition `LadderXOnly` (proved in `MontXOnly.lean`), and what follows from it.
-/
import Dalek.Proofs.MontConv
import Dalek.Proofs.MontBytes

namespace Dalek.Proofs.Mont
open Dalek.IR Dalek.Spec Dalek.Model Dalek.Bridge Dalek.Model.Ladder

/-- Montgomery `u`-coordinate of an Edwards point: `(1+y)/(1−y)` as a canonical natural; the identity
(`y = 1`) maps to `0` (as does the point of order two `(0,−1)`). -/
noncomputable def uOfEd (Q : Ed) : Nat := ((1 + Q.y) / (1 - Q.y)).val

theorem uOfEd_lt (Q : Ed) : uOfEd Q < P := ZMod.val_lt _

theorem cast_uOfEd (Q : Ed) : ((uOfEd Q : Nat) : Fp) = (1 + Q.y) / (1 - Q.y) := ZMod.natCast_zmod_val _

theorem toMontgomery_rep {p : Pt} {Q : Ed} (h : Rep p Q) : Spec.toMontgomery p = uOfEd Q := by
  apply eq_of_cast_eq (fmul_lt _ _) (uOfEd_lt Q)
  rw [cast_uOfEd]
  simp only [cast_fmul, cast_fadd, cast_fsub, cast_finv, Nat.cast_one]
  rw [h.2, div_eq_mul_inv]

/-- `to_montgomery` of any representative of the group element `Q` is the encoding of `u(Q)`. -/
theorem edToMontgomery_rep {e : EPt} {Q : Ed} (h : ERep e Q) : edToMontgomery e = feToBytes (uOfEd Q) := by
  rw [edToMontgomery_eq e h.1, toMontgomery_rep (rep_toAffine h)]

theorem uOfEd_zero : uOfEd (0 : Ed) = 0 := by
  rw [← toMontgomery_rep rep_zero]; decide +kernel

theorem uOfEd_Bpt : uOfEd Bpt = 9 := by
  rw [← toMontgomery_rep rep_B]; decide +kernel

/-- Correctness of the x-only ladder with respect to the group: the RFC 7748 ladder on 255 bits computes the
`u`-coordinate of `[n]Q` from the `u`-coordinate of `Q`, for every point `Q` of the Edwards curve (under the
birational map, with `∞ ↦ 0`) and every `n < 2^255`.  PROVED as `Dalek.Proofs.Mont.ladderXOnly` in
`Dalek/Proofs/MontXOnly.lean`; kept as a named proposition because the consequences below only use it through
this interface. -/
def LadderXOnly : Prop :=
  ∀ (Q : Ed) (n : Nat), n < 2 ^ 255 → ladderBitsBE (uOfEd Q) (bitsBE n 255) = uOfEd (n • Q)

theorem feFromBytes_basepoint : feFromBytes X25519_BASEPOINT = 9 := by decide +kernel

theorem feFromBytes_enc_uOfEd (Q : Ed) : feFromBytes (feToBytes (uOfEd Q)) = uOfEd Q := by
  rw [feFromBytes_feToBytes, Nat.mod_eq_of_lt (uOfEd_lt Q)]

theorem x25519_unfold (k u : List UInt8) :
    Spec.x25519 k u = feToBytes (ladderBitsBE (feFromBytes u) (bitsBE (clampedNat k) 255)) := rfl

/-- X25519 on the encoding of `u(Q)`, under the hypothesis -/
theorem x25519_of_ed (h : LadderXOnly) (k : List UInt8) (hk : k.length = 32) (Q : Ed) :
    Spec.x25519 k (feToBytes (uOfEd Q)) = feToBytes (uOfEd (clampedNat k • Q)) := by
  rw [x25519_unfold, feFromBytes_enc_uOfEd, h Q _ (clampedNat_spec hk).2.2]

theorem publicKey_eq (k : List UInt8) :
    publicKey k = feToBytes (uOfEd (clampedNat k • Bpt)) := by
  unfold publicKey
  exact edToMontgomery_rep (erep_smul erep_basepoint _)

end Dalek.Proofs.Mont

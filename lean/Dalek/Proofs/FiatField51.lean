import Dalek.Proofs.Field51
import Dalek.Gen.Norm.FiatField51
/-! Functional correctness in `ZMod p` of the translated fiat wrapper kernels (`backend/serial/fiat_u64/field.rs`
with the called `fiat_crypto::curve25519_64` functions inlined), for ALL integer inputs. -/
namespace Dalek.Proofs.FiatField51
open Dalek Dalek.Gen.Norm.FiatField51 Dalek.Proofs.Field51

theorem neg_correct (x0 x1 x2 x3 x4 : Int) :
    ((rep51 (neg_fn x0 x1 x2 x3 x4) : Int) : ZMod P) = - ((rep51 [x0, x1, x2, x3, x4] : Int) : ZMod P) := by
  limb_lets neg_fn
  cast_eqs (ZMod P)
  limb_finish

theorem square_correct (x0 x1 x2 x3 x4 : Int) :
    ((rep51 (square_fn x0 x1 x2 x3 x4) : Int) : ZMod P) = ((rep51 [x0, x1, x2, x3, x4] : Int) : ZMod P) ^ 2 := by
  limb_lets square_fn
  cast_eqs (ZMod P)
  limb_finish

theorem square2_correct (x0 x1 x2 x3 x4 : Int) :
    ((rep51 (square2_fn x0 x1 x2 x3 x4) : Int) : ZMod P) = 2 * ((rep51 [x0, x1, x2, x3, x4] : Int) : ZMod P) ^ 2 := by
  limb_lets square2_fn
  cast_eqs (ZMod P)
  limb_finish

theorem pow2k_body_correct (x0 x1 x2 x3 x4 : Int) :
    ((rep51 (pow2k_body_fn x0 x1 x2 x3 x4) : Int) : ZMod P) = ((rep51 [x0, x1, x2, x3, x4] : Int) : ZMod P) ^ 2 := by
  limb_lets pow2k_body_fn
  cast_eqs (ZMod P)
  limb_finish

theorem reduce_correct (x0 x1 x2 x3 x4 : Int) :
    ((rep51 (reduce_fn x0 x1 x2 x3 x4) : Int) : ZMod P) = ((rep51 [x0, x1, x2, x3, x4] : Int) : ZMod P) := by
  limb_lets reduce_fn
  cast_eqs (ZMod P)
  limb_finish

theorem add_correct (x0 x1 x2 x3 x4 y0 y1 y2 y3 y4 : Int) :
    ((rep51 (add_fn x0 x1 x2 x3 x4 y0 y1 y2 y3 y4) : Int) : ZMod P)
      = ((rep51 [x0, x1, x2, x3, x4] : Int) : ZMod P) + ((rep51 [y0, y1, y2, y3, y4] : Int) : ZMod P) := by
  limb_lets add_fn
  cast_eqs (ZMod P)
  limb_finish

theorem add_ref_correct (x0 x1 x2 x3 x4 y0 y1 y2 y3 y4 : Int) :
    ((rep51 (add_ref_fn x0 x1 x2 x3 x4 y0 y1 y2 y3 y4) : Int) : ZMod P)
      = ((rep51 [x0, x1, x2, x3, x4] : Int) : ZMod P) + ((rep51 [y0, y1, y2, y3, y4] : Int) : ZMod P) := by
  limb_lets add_ref_fn
  cast_eqs (ZMod P)
  limb_finish

theorem sub_correct (x0 x1 x2 x3 x4 y0 y1 y2 y3 y4 : Int) :
    ((rep51 (sub_fn x0 x1 x2 x3 x4 y0 y1 y2 y3 y4) : Int) : ZMod P)
      = ((rep51 [x0, x1, x2, x3, x4] : Int) : ZMod P) - ((rep51 [y0, y1, y2, y3, y4] : Int) : ZMod P) := by
  limb_lets sub_fn
  cast_eqs (ZMod P)
  limb_finish

theorem sub_assign_correct (x0 x1 x2 x3 x4 y0 y1 y2 y3 y4 : Int) :
    ((rep51 (sub_assign_fn x0 x1 x2 x3 x4 y0 y1 y2 y3 y4) : Int) : ZMod P)
      = ((rep51 [x0, x1, x2, x3, x4] : Int) : ZMod P) - ((rep51 [y0, y1, y2, y3, y4] : Int) : ZMod P) := by
  limb_lets sub_assign_fn
  cast_eqs (ZMod P)
  limb_finish

theorem mul_correct (x0 x1 x2 x3 x4 y0 y1 y2 y3 y4 : Int) :
    ((rep51 (mul_fn x0 x1 x2 x3 x4 y0 y1 y2 y3 y4) : Int) : ZMod P)
      = ((rep51 [x0, x1, x2, x3, x4] : Int) : ZMod P) * ((rep51 [y0, y1, y2, y3, y4] : Int) : ZMod P) := by
  limb_lets mul_fn
  cast_eqs (ZMod P)
  limb_finish

theorem mul_assign_correct (x0 x1 x2 x3 x4 y0 y1 y2 y3 y4 : Int) :
    ((rep51 (mul_assign_fn x0 x1 x2 x3 x4 y0 y1 y2 y3 y4) : Int) : ZMod P)
      = ((rep51 [x0, x1, x2, x3, x4] : Int) : ZMod P) * ((rep51 [y0, y1, y2, y3, y4] : Int) : ZMod P) := by
  limb_lets mul_assign_fn
  cast_eqs (ZMod P)
  limb_finish

theorem conditional_select_correct (x0 x1 x2 x3 x4 y0 y1 y2 y3 y4 c : Int) :
    conditional_select_fn x0 x1 x2 x3 x4 y0 y1 y2 y3 y4 c = if c = 0 then [x0, x1, x2, x3, x4] else [y0, y1, y2, y3, y4] := by
  unfold conditional_select_fn
  split <;> simp_all

theorem conditional_assign_correct (x0 x1 x2 x3 x4 y0 y1 y2 y3 y4 c : Int) :
    conditional_assign_fn x0 x1 x2 x3 x4 y0 y1 y2 y3 y4 c = if c = 0 then [x0, x1, x2, x3, x4] else [y0, y1, y2, y3, y4] := by
  unfold conditional_assign_fn
  split <;> simp_all

theorem conditional_swap_correct (x0 x1 x2 x3 x4 y0 y1 y2 y3 y4 c : Int) :
    conditional_swap_fn x0 x1 x2 x3 x4 y0 y1 y2 y3 y4 c = if c = 0 then [x0, x1, x2, x3, x4, y0, y1, y2, y3, y4] else [y0, y1, y2, y3, y4, x0, x1, x2, x3, x4] := by
  unfold conditional_swap_fn
  split <;> simp_all

end Dalek.Proofs.FiatField51

import Dalek.Proofs.AlgBoundsInv
/-!
# C11, formula level: kernel evaluations of the abstract interpretation (serial u32 backend, part c)

One `decide +kernel` per translated formula: the abstract run of the formula from the type invariants of its inputs
(every abstract field operation being the verified analysis of the regenerated limb kernel) proves every statement
safe and every output inside the type invariant of its type.  Helper of `Dalek/Props/C11/Formulas.lean`.
-/
namespace Dalek.Props.C11.Formulas
open Dalek.Model.AlgBounds

theorem Curve_AffineNielsPoint_identity_ok26 : (sig_Curve_AffineNielsPoint_identity I26).ok B26 = true := by decide +kernel
theorem Curve_ProjectiveNielsPoint_conditional_assign_ok26 : (sig_Curve_ProjectiveNielsPoint_conditional_assign I26).ok B26 = true := by decide +kernel
theorem Curve_ProjectivePoint_as_extended_ok26 : (sig_Curve_ProjectivePoint_as_extended I26).ok B26 = true := by decide +kernel
theorem Curve_ProjectivePoint_double_ok26 : (sig_Curve_ProjectivePoint_double I26).ok B26 = true := by decide +kernel
theorem Curve_add_AffineNielsPoint_ok26 : (sig_Curve_add_AffineNielsPoint I26).ok B26 = true := by decide +kernel
theorem Curve_AffineNielsPoint_neg_ok26 : (sig_Curve_AffineNielsPoint_neg I26).ok B26 = true := by decide +kernel
theorem Edwards_to_montgomery_ok26 : (sig_Edwards_to_montgomery I26).ok B26 = true := by decide +kernel
theorem Edwards_as_projective_ok26 : (sig_Edwards_as_projective I26).ok B26 = true := by decide +kernel
theorem Edwards_conditional_select_ok26 : (sig_Edwards_conditional_select I26).ok B26 = true := by decide +kernel
theorem Edwards_add_ok26 : (sig_Edwards_add I26).ok B26 = true := by decide +kernel
theorem Montgomery_differential_add_and_double_ok26 : (sig_Montgomery_differential_add_and_double I26).ok B26 = true := by decide +kernel
theorem Montgomery_to_edwards_ok26 : (sig_Montgomery_to_edwards I26).ok B26 = true := by decide +kernel
theorem Montgomery_ct_eq_ok26 : (sig_Montgomery_ct_eq I26).ok B26 = true := by decide +kernel
theorem Ristretto_compress_ok26 : (sig_Ristretto_compress I26).ok B26 = true := by decide +kernel
theorem Field_pow22501_ok26 : (sig_Field_pow22501 I26).ok B26 = true := by decide +kernel
theorem Field_sqrt_ratio_i_ok26 : (sig_Field_sqrt_ratio_i I26).ok B26 = true := by decide +kernel
theorem Ristretto_elligator_ristretto_flavor_ok26 : (sig_Ristretto_elligator_ristretto_flavor I26).ok B26 = true := by decide +kernel

end Dalek.Props.C11.Formulas

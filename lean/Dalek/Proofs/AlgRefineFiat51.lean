import Dalek.Proofs.AlgRefine51
import Dalek.Proofs.AlgBoundsInv
import Dalek.Props.C01.Fiat51
import Dalek.Props.C01.FiatBytes51
import Dalek.Props.C01.FiatHistory51
/-!
# The fiat u64 backend satisfies `BackendSpec` (instantiation of `Dalek.Proofs.AlgRefine` from the C01 fiat theorems)

`BF51` collects the TRANSLATED fiat wrapper kernels (`Dalek.Gen.FiatField51`, fiat-crypto functions inlined); the contract `CF51`
is fiat's tight bound everywhere.  With `specF51` every generic refinement theorem of `AlgRefine` (any translated field-level formula,
run on these kernels, is panic-free, stays inside the type invariants and computes its `ZMod p` meaning) applies to this backend.
-/
namespace Dalek.Proofs.AlgRefine
open Dalek.IR Dalek.Model.AlgBounds Dalek.Proofs.AlgBoundsSound Dalek.Proofs
open Dalek.Model.Contracts (ub rep)
open Dalek.Model.FieldBytes (natToLeN leVal val51N)
open Dalek.Props.C01

/-- fiat's tight bound on five limbs -/
abbrev T51 : List Itv := rep 5 Dalek.Model.Contracts.FiatField51.tight

open Dalek.Gen.Consts in
/-- fiat u64 backend (`fiat_u64::field::FieldElement51`; constants are `backend/serial/u64/constants.rs`, as for serial u64) -/
def BF51 : Backend where
  add := Dalek.Gen.FiatField51.add_ref
  sub := Dalek.Gen.FiatField51.sub
  mul := Dalek.Gen.FiatField51.mul
  neg := Dalek.Gen.FiatField51.neg
  square := [Dalek.Gen.FiatField51.square]
  square2 := [Dalek.Gen.FiatField51.square2]
  powBody := Dalek.Gen.FiatField51.pow2k_body
  asBytes := Dalek.Gen.FiatField51.as_bytes
  consts := B51.consts
  asBytesPre := T51
  powPre := T51

def CF51 : Contract where
  red := T51
  preAddA := T51
  preAddB := T51
  preSubA := T51
  preSubB := T51
  preMulA := T51
  preMulB := T51
  preNeg := T51
  preSq := T51
  preSq2 := T51
  postSq2 := T51
  prePow := T51
  preBytes := T51

/-- every type invariant of the formulas is the tight bound -/
def IF51 : Dalek.Props.C11.Formulas.Invs where
  fe := T51
  sum := T51
  comp := T51
  loose := T51

theorem lenT {a : List Nat} (h : EnvIn a T51) : a.length = 5 := by
  rw [EnvIn_length h]; rfl

theorem iterC_succ (p : Prog) (k : Nat) (a : List Nat) : iterC p (k + 1) a = (p.evalC a).bind (iterC p k) := rfl
theorem iterW_succ (p : Prog) (k : Nat) (a : List Nat) : iterW p (k + 1) a = iterW p k (p.evalW a) := rfl
theorem iterC_zero (p : Prog) (a : List Nat) : iterC p 0 a = some a := rfl
theorem iterW_zero (p : Prog) (a : List Nat) : iterW p 0 a = a := rfl

theorem powF (k : Nat) : ∀ a, EnvIn a T51 →
    iterC Dalek.Gen.FiatField51.pow2k_body (k + 1) a = some (iterW Dalek.Gen.FiatField51.pow2k_body (k + 1) a) ∧
      EnvIn (iterW Dalek.Gen.FiatField51.pow2k_body (k + 1) a) T51 ∧
      v51 (iterW Dalek.Gen.FiatField51.pow2k_body (k + 1) a) = v51 a ^ (2 ^ (k + 1)) := by
  induction k with
  | zero =>
    intro a ha
    obtain ⟨a0, a1, a2, a3, a4, rfl⟩ := list_of_length_5 a (lenT ha)
    obtain ⟨out, hC, hW, hp, hv⟩ := Fiat51.pow2k_body_spec a0 a1 a2 a3 a4 ha
    rw [iterC_succ, iterW_succ, hC, hW, iterW_zero]
    refine ⟨rfl, hp, ?_⟩
    rw [v51_eq, v51_eq, hv]; norm_num
  | succ k ih =>
    intro a ha
    obtain ⟨a0, a1, a2, a3, a4, rfl⟩ := list_of_length_5 a (lenT ha)
    obtain ⟨out, hC, hW, hp, hv⟩ := Fiat51.pow2k_body_spec a0 a1 a2 a3 a4 ha
    obtain ⟨h1, h2, h3⟩ := ih out hp
    rw [iterC_succ, iterW_succ, hC, hW]
    refine ⟨h1, h2, ?_⟩
    rw [h3, v51_eq, v51_eq, hv, ← pow_mul]; congr 1; ring

theorem specF51 : BackendSpec BF51 CF51 v51 where
  add := by
    intro a b ha hb
    obtain ⟨a0, a1, a2, a3, a4, rfl⟩ := list_of_length_5 a (lenT ha)
    obtain ⟨b0, b1, b2, b3, b4, rfl⟩ := list_of_length_5 b (lenT hb)
    obtain ⟨out, hC, hW, _, hv⟩ := Fiat51.add_ref_spec a0 a1 a2 a3 a4 b0 b1 b2 b3 b4 (EnvIn_append _ _ ha hb)
    subst hW
    exact ⟨hC, by rw [v51_eq, v51_eq, v51_eq]; exact hv⟩
  sub := by
    intro a b ha hb
    obtain ⟨a0, a1, a2, a3, a4, rfl⟩ := list_of_length_5 a (lenT ha)
    obtain ⟨b0, b1, b2, b3, b4, rfl⟩ := list_of_length_5 b (lenT hb)
    obtain ⟨out, hC, hW, hp, hv⟩ := Fiat51.sub_spec a0 a1 a2 a3 a4 b0 b1 b2 b3 b4 (EnvIn_append _ _ ha hb)
    subst hW
    exact ⟨hC, hp, by rw [v51_eq, v51_eq, v51_eq]; exact hv⟩
  mul := by
    intro a b ha hb
    obtain ⟨a0, a1, a2, a3, a4, rfl⟩ := list_of_length_5 a (lenT ha)
    obtain ⟨b0, b1, b2, b3, b4, rfl⟩ := list_of_length_5 b (lenT hb)
    obtain ⟨out, hC, hW, hp, hv⟩ := Fiat51.mul_spec a0 a1 a2 a3 a4 b0 b1 b2 b3 b4 (EnvIn_append _ _ ha hb)
    subst hW
    exact ⟨hC, hp, by rw [v51_eq, v51_eq, v51_eq]; exact hv⟩
  neg := by
    intro a ha
    obtain ⟨a0, a1, a2, a3, a4, rfl⟩ := list_of_length_5 a (lenT ha)
    obtain ⟨out, hC, hW, hp, hv⟩ := Fiat51.neg_spec a0 a1 a2 a3 a4 ha
    subst hW
    refine ⟨?_, hp, by rw [v51_eq, v51_eq]; exact hv⟩
    show (Dalek.Gen.FiatField51.neg.evalC _).bind _ = _
    rw [hC]; rfl
  square := by
    intro a ha
    obtain ⟨a0, a1, a2, a3, a4, rfl⟩ := list_of_length_5 a (lenT ha)
    obtain ⟨out, hC, hW, hp, hv⟩ := Fiat51.square_spec a0 a1 a2 a3 a4 ha
    subst hW
    refine ⟨?_, hp, by rw [v51_eq, v51_eq, ← pow_two]; exact hv⟩
    show (Dalek.Gen.FiatField51.square.evalC _).bind _ = _
    rw [hC]; rfl
  square2 := by
    intro a ha
    obtain ⟨a0, a1, a2, a3, a4, rfl⟩ := list_of_length_5 a (lenT ha)
    obtain ⟨out, hC, hW, hp, hv⟩ := Fiat51.square2_spec a0 a1 a2 a3 a4 ha
    subst hW
    refine ⟨?_, hp, by rw [v51_eq, v51_eq, ← pow_two]; exact hv⟩
    show (Dalek.Gen.FiatField51.square2.evalC _).bind _ = _
    rw [hC]; rfl
  pow := fun k a ha => powF k a ha
  const := spec51.const
  bytes := by
    intro a ha
    obtain ⟨h1, h2⟩ := FiatBytes51.as_bytes_canonical a ha
    refine ⟨?_, ?_⟩
    · show Dalek.Gen.FiatField51.as_bytes.evalC a = some (Dalek.Gen.FiatField51.as_bytes.evalW a)
      rw [h1, h2]
    · show Dalek.Gen.FiatField51.as_bytes.evalW a = enc (v51 a)
      rw [h2, v51, enc_natCast]
  choice := spec51.choice

/-- every translated formula passes the contract-composition check on the fiat u64 backend, with ONE type invariant (tight) -/
theorem all_refOkF51 : (Dalek.Props.C11.Formulas.sigs IF51).all (fun s => Sig.refOk BF51 CF51 s) = true := by decide +kernel

end Dalek.Proofs.AlgRefine

/-
C04 layer 2, helper lemmas (part 5): REPRESENTATION INDEPENDENCE of the scalar-multiplication models.

The models of `Dalek.Model.ScalarMul` use the points only through `PointOps`.  If two point implementations
are related by `r : R → G → Prop` and every operation preserves `r` (`OpsRel`; for dalek's coordinate systems
versus the curve group this is C03), then every model maps related inputs to related outputs.  Together with
the theorems over `groupOps` this gives: any implementation satisfying the C03 contracts returns a
representation of `Σ sᵢ • Pᵢ`.
-/
import Dalek.Model.ScalarMul
import Dalek.Proofs.OptRel

namespace Dalek.Proofs.ScalarMul
open Dalek.Model.ScalarMul Dalek.Model.Recode Dalek.Proofs
open List (Forall₂)

variable {R G : Type} {r : R → G → Prop} {oR : PointOps R} {oG : PointOps G}

/-- every point operation preserves the representation relation (the C03 contracts) -/
structure OpsRel (r : R → G → Prop) (oR : PointOps R) (oG : PointOps G) : Prop where
  zero : r oR.zero oG.zero
  add : ∀ {a A b B}, r a A → r b B → r (oR.add a b) (oG.add A B)
  sub : ∀ {a A b B}, r a A → r b B → r (oR.sub a b) (oG.sub A B)
  neg : ∀ {a A}, r a A → r (oR.neg a) (oG.neg A)
  double : ∀ {a A}, r a A → r (oR.double a) (oG.double A)

/-! ### list plumbing -/

theorem foldl_rel {α β γ : Type} {S : β → γ → Prop} (f : β → α → β) (g : γ → α → γ) (l : List α)
    (h : ∀ b c x, S b c → S (f b x) (g c x)) {z : β} {Z : γ} (hz : S z Z) :
    S (l.foldl f z) (l.foldl g Z) := by
  induction l generalizing z Z with
  | nil => exact hz
  | cons a l ih => exact ih (h _ _ a hz)

theorem foldl_rel₂ {α α' β γ : Type} {S : β → γ → Prop} {T : α → α' → Prop} (f : β → α → β)
    (g : γ → α' → γ) {l : List α} {L : List α'} (hl : Forall₂ T l L)
    (h : ∀ b c x X, S b c → T x X → S (f b x) (g c X)) {z : β} {Z : γ} (hz : S z Z) :
    S (l.foldl f z) (L.foldl g Z) := by
  induction hl generalizing z Z with
  | nil => exact hz
  | cons hx _ ih => exact ih (h _ _ _ _ hz hx)

theorem getD_rel {α β : Type} {S : α → β → Prop} {l : List α} {L : List β} (hl : Forall₂ S l L)
    {d : α} {D : β} (hd : S d D) (i : Nat) : S (l.getD i d) (L.getD i D) := by
  induction hl generalizing i with
  | nil => simpa using hd
  | cons hx _ ih =>
    cases i with
    | zero => simpa using hx
    | succ i => simpa using ih i

theorem set_rel {α β : Type} {S : α → β → Prop} {l : List α} {L : List β} (hl : Forall₂ S l L)
    {v : α} {V : β} (hv : S v V) (i : Nat) : Forall₂ S (l.set i v) (L.set i V) := by
  induction hl generalizing i with
  | nil => simp
  | cons hx hrest ih =>
    cases i with
    | zero => simpa using ⟨hv, hrest⟩
    | succ i => simpa using ⟨hx, ih i⟩

theorem replicate_rel {α β : Type} {S : α → β → Prop} {a : α} {A : β} (h : S a A) (n : Nat) :
    Forall₂ S (List.replicate n a) (List.replicate n A) := by
  induction n with
  | zero => simp
  | succ n ih => simpa [List.replicate_succ] using ⟨h, ih⟩

theorem map_rel {α β α' β' : Type} {S : α → β → Prop} {T : α' → β' → Prop} {f : α → α'} {F : β → β'}
    {l : List α} {L : List β} (hl : Forall₂ S l L) (h : ∀ a A, S a A → T (f a) (F A)) :
    Forall₂ T (l.map f) (L.map F) := by
  induction hl with
  | nil => exact .nil
  | cons hx _ ih => rw [List.map_cons, List.map_cons]; exact .cons (h _ _ hx) ih

theorem map_same_rel {α α' β' : Type} {T : α' → β' → Prop} (f : α → α') (F : α → β') (l : List α)
    (h : ∀ a, T (f a) (F a)) : Forall₂ T (l.map f) (l.map F) := by
  induction l with
  | nil => exact .nil
  | cons a l ih => rw [List.map_cons, List.map_cons]; exact .cons (h a) ih

/-- pairs with equal first components and related second components -/
def PairRel {δ α β : Type} (S : α → β → Prop) (x : δ × α) (X : δ × β) : Prop := x.1 = X.1 ∧ S x.2 X.2

theorem zip_rel {δ α β : Type} {S : α → β → Prop} (ds : List δ) {l : List α} {L : List β}
    (hl : Forall₂ S l L) : Forall₂ (PairRel S) (List.zip ds l) (List.zip ds L) := by
  induction hl generalizing ds with
  | nil => simp
  | cons hx _ ih =>
    cases ds with
    | nil => simp
    | cons d ds => simpa using ⟨⟨rfl, hx⟩, ih ds⟩

theorem collectOption_rel {α β : Type} {S : α → β → Prop} {l : List (Option α)} {L : List (Option β)}
    (hl : Forall₂ (OptRel S) l L) : OptRel (Forall₂ S) (collectOption l) (collectOption L) := by
  induction hl with
  | nil => simp [collectOption, OptRel]
  | @cons a A l L hx _ ih =>
    cases a <;> cases A <;> simp only [OptRel] at hx
    · simp [collectOption, OptRel]
    · simp only [collectOption]
      cases hc : collectOption l <;> cases hC : collectOption L <;> rw [hc, hC] at ih <;>
        simp only [OptRel] at ih
      · simp [OptRel]
      · simpa [OptRel] using ⟨hx, ih⟩

/-! ### building blocks -/

section
variable (h : OpsRel r oR oG)
include h

theorem mulByPow2_rel (k : Nat) {p : R} {P : G} (hp : r p P) :
    r (mulByPow2 oR k p) (mulByPow2 oG k P) := by
  induction k generalizing p P with
  | zero => exact hp
  | succ k ih => exact ih (h.double hp)

theorem tableGo_rel {d : R} {D : G} (hd : r d D) (n : Nat) {c : R} {C : G} (hc : r c C) :
    Forall₂ r (tableGo oR d n c) (tableGo oG D n C) := by
  induction n generalizing c C with
  | zero => simp [tableGo]
  | succ n ih => simpa [tableGo] using ⟨hc, ih (h.add hd hc)⟩

theorem lookupTableFrom_rel (n : Nat) {p : R} {P : G} (hp : r p P) :
    Forall₂ r (lookupTableFrom oR n p) (lookupTableFrom oG n P) := tableGo_rel h hp n hp

theorem nafTableFrom_rel (n : Nat) {p : R} {P : G} (hp : r p P) :
    Forall₂ r (nafTableFrom oR n p) (nafTableFrom oG n P) := tableGo_rel h (h.double hp) n hp

theorem selectModel_rel {t : List R} {T : List G} (ht : Forall₂ r t T) (x : Int) :
    r (selectModel oR t x) (selectModel oG T x) := by
  unfold selectModel
  simp only
  rw [ht.length_eq]
  have hf : r ((List.range T.length).foldl (fun t' j0 =>
        if xorMask (x + x >>> 7) (x >>> 7) == Int.ofNat (j0 + 1) then t.getD j0 oR.zero else t') oR.zero)
      ((List.range T.length).foldl (fun t' j0 =>
        if xorMask (x + x >>> 7) (x >>> 7) == Int.ofNat (j0 + 1) then T.getD j0 oG.zero else t') oG.zero) := by
    refine foldl_rel _ _ _ (fun b c j hbc => ?_) h.zero
    split
    · exact getD_rel ht h.zero j
    · exact hbc
  split
  · exact h.neg hf
  · exact hf

theorem nafStep_rel {t : R} {T : G} (ht : r t T) {tb : List R} {TB : List G} (htb : Forall₂ r tb TB)
    (d : Int) : r (nafStep oR t tb d) (nafStep oG T TB d) := by
  unfold nafStep nafSelect
  split
  · exact h.add ht (getD_rel htb h.zero _)
  · split
    · exact h.sub ht (getD_rel htb h.zero _)
    · exact ht

/-! ### the algorithms -/

theorem variableBaseMul_rel (d : List Int) {p : R} {P : G} (hp : r p P) :
    r (variableBaseMul oR d p) (variableBaseMul oG d P) := by
  unfold variableBaseMul
  dsimp only
  have ht := lookupTableFrom_rel h 8 hp
  refine foldl_rel (S := r) _ _ _ (fun b c i hbc => ?_) ?_
  · exact h.add (mulByPow2_rel h 4 hbc) (selectModel_rel h ht _)
  · exact h.add h.zero (selectModel_rel h ht _)

theorem variableBaseMulVec_rel (d : List Int) {p : R} {P : G} (hp : r p P) :
    r (variableBaseMulVec oR d p) (variableBaseMulVec oG d P) := by
  unfold variableBaseMulVec
  dsimp only
  have ht := lookupTableFrom_rel h 8 hp
  refine foldl_rel (S := r) _ _ _ (fun b c i hbc => ?_) h.zero
  exact h.add (mulByPow2_rel h 4 hbc) (selectModel_rel h ht _)

theorem strausCT_rel (ds : List (List Int)) {ps : List R} {Ps : List G} (hp : Forall₂ r ps Ps) :
    r (strausCT oR ds ps) (strausCT oG ds Ps) := by
  unfold strausCT
  have ht : Forall₂ (PairRel (Forall₂ r)) (List.zip ds (ps.map (lookupTableFrom oR 8)))
      (List.zip ds (Ps.map (lookupTableFrom oG 8))) :=
    zip_rel ds (map_rel hp fun a A ha => lookupTableFrom_rel h 8 ha)
  refine foldl_rel _ _ _ (fun b c j hbc => ?_) h.zero
  refine foldl_rel₂ _ _ ht (fun b c x X hbc hx => ?_) (mulByPow2_rel h 4 hbc)
  rw [hx.1]
  exact h.add hbc (selectModel_rel h hx.2 _)

theorem strausVT_rel (ds : List (List Int)) {ps : List (Option R)} {Ps : List (Option G)}
    (hp : Forall₂ (OptRel r) ps Ps) : OptRel r (strausVT oR ds ps) (strausVT oG ds Ps) := by
  unfold strausVT
  have hc := collectOption_rel hp
  cases h1 : collectOption ps <;> cases h2 : collectOption Ps <;> rw [h1, h2] at hc <;>
    simp only [OptRel] at hc ⊢
  rename_i qs Qs
  have ht : Forall₂ (PairRel (Forall₂ r)) (List.zip ds (qs.map (nafTableFrom oR 8)))
      (List.zip ds (Qs.map (nafTableFrom oG 8))) :=
    zip_rel ds (map_rel hc fun a A ha => nafTableFrom_rel h 8 ha)
  refine foldl_rel _ _ _ (fun b c j hbc => ?_) h.zero
  refine foldl_rel₂ _ _ ht (fun b c x X hbc hx => ?_) (h.double hbc)
  rw [hx.1]
  exact nafStep_rel h hbc hx.2 _

theorem pippengerBuckets_rel (n : Nat) {sp : List (List Int × R)} {SP : List (List Int × G)}
    (hsp : Forall₂ (PairRel r) sp SP) (idx : Nat) :
    Forall₂ r (pippengerBuckets oR n sp idx) (pippengerBuckets oG n SP idx) := by
  unfold pippengerBuckets
  refine foldl_rel₂ (S := Forall₂ r) _ _ hsp (fun b c x X hbc hx => ?_) (replicate_rel h.zero n)
  simp only
  rw [hx.1]
  split
  · exact set_rel hbc (h.add (getD_rel hbc h.zero _) hx.2) _
  · split
    · exact set_rel hbc (h.sub (getD_rel hbc h.zero _) hx.2) _
    · exact hbc

theorem pippengerRunningSum_rel (n : Nat) {bk : List R} {BK : List G} (hb : Forall₂ r bk BK) :
    r (pippengerRunningSum oR n bk) (pippengerRunningSum oG n BK) := by
  unfold pippengerRunningSum
  have htop := getD_rel hb h.zero (n - 1)
  exact (foldl_rel (S := fun (x : R × R) (X : G × G) => r x.1 X.1 ∧ r x.2 X.2) _ _ _
    (fun b c i hbc => ⟨h.add hbc.1 (getD_rel hb h.zero i),
      h.add hbc.2 (h.add hbc.1 (getD_rel hb h.zero i))⟩) ⟨htop, htop⟩).2

theorem pippengerColumn_rel (n : Nat) {sp : List (List Int × R)} {SP : List (List Int × G)}
    (hsp : Forall₂ (PairRel r) sp SP) (idx : Nat) :
    r (pippengerColumn oR n sp idx) (pippengerColumn oG n SP idx) :=
  pippengerRunningSum_rel h n (pippengerBuckets_rel h n hsp idx)

theorem pippenger_rel (w : Nat) (ds : List (List Int)) {ps : List (Option R)} {Ps : List (Option G)}
    (hp : Forall₂ (OptRel r) ps Ps) : OptRel r (pippenger oR w ds ps) (pippenger oG w ds Ps) := by
  unfold pippenger
  simp only
  have hz : Forall₂ (OptRel (PairRel r))
      ((List.zip ds ps).map fun sp => sp.2.map fun p => (sp.1, p))
      ((List.zip ds Ps).map fun sp => sp.2.map fun p => (sp.1, p)) := by
    refine map_rel (zip_rel ds hp) fun a A ha => ?_
    obtain ⟨d, o⟩ := a
    obtain ⟨D, O⟩ := A
    obtain ⟨h1, h2⟩ := ha
    simp only at h1 h2 ⊢
    subst h1
    cases o <;> cases O <;> simp only [OptRel, Option.map_none, Option.map_some] at h2 ⊢
    exact ⟨rfl, h2⟩
  have hc := collectOption_rel hz
  generalize collectOption ((List.zip ds ps).map fun sp => sp.2.map fun p => (sp.1, p)) = c at hc
  generalize collectOption ((List.zip ds Ps).map fun sp => sp.2.map fun p => (sp.1, p)) = C at hc
  cases c <;> cases C <;> simp only [OptRel] at hc ⊢
  rename_i sp SP
  cases (List.range (toRadix2wSizeHint w)).reverse with
  | nil => exact h.zero
  | cons i rest =>
    simp only [List.map_cons, List.foldl_map]
    exact foldl_rel _ _ _ (fun b c j hbc => h.add (mulByPow2_rel h w hbc) (pippengerColumn_rel h _ hc j))
      (pippengerColumn_rel h _ hc i)

theorem doubleBaseLoop_rel (aNaf bNaf : List Int) {a : R} {A : G} (ha : r a A) {tb : List R} {TB : List G}
    (htb : Forall₂ r tb TB) :
    r (doubleBaseLoop oR aNaf bNaf a tb) (doubleBaseLoop oG aNaf bNaf A TB) := by
  unfold doubleBaseLoop
  dsimp only
  have hta := nafTableFrom_rel h 8 ha
  refine foldl_rel (S := r) _ _ _ (fun b c i hbc => ?_) h.zero
  exact nafStep_rel h (nafStep_rel h (h.double hbc) hta _) htb _

theorem precomputedNew_rel {ps : List R} {Ps : List G} (hp : Forall₂ r ps Ps) :
    Forall₂ (Forall₂ r) (precomputedNew oR ps) (precomputedNew oG Ps) :=
  map_rel hp fun _ _ ha => nafTableFrom_rel h 64 ha

theorem precomputedMixed_rel {st : List (List R)} {ST : List (List G)} (hst : Forall₂ (Forall₂ r) st ST)
    (sn dn : List (List Int)) {ps : List (Option R)} {Ps : List (Option G)} (hp : Forall₂ (OptRel r) ps Ps) :
    OptRel (OptRel r) (precomputedMixed oR st sn dn ps) (precomputedMixed oG ST sn dn Ps) := by
  unfold precomputedMixed
  have hc := collectOption_rel hp
  cases h1 : collectOption ps <;> cases h2 : collectOption Ps <;> rw [h1, h2] at hc <;>
    simp only [OptRel] at hc ⊢
  rename_i qs Qs
  have hdt : Forall₂ (Forall₂ r) (qs.map (nafTableFrom oR 8)) (Qs.map (nafTableFrom oG 8)) :=
    map_rel hc fun _ _ ha => nafTableFrom_rel h 8 ha
  rw [hst.length_eq, List.length_map, List.length_map, hc.length_eq]
  by_cases c1 : ¬ (ST.length ≥ sn.length)
  · rw [if_pos c1, if_pos c1]; exact trivial
  · rw [if_neg c1, if_neg c1]
    by_cases c2 : Qs.length ≠ dn.length
    · rw [if_pos c2, if_pos c2]; exact trivial
    · rw [if_neg c2, if_neg c2]
      show r _ _
      refine foldl_rel (S := r) _ _ _ (fun b c j hbc => ?_) h.zero
      refine foldl_rel (S := r) _ _ _ (fun b c i hbc => ?_) ?_
      · exact nafStep_rel h hbc (getD_rel hst List.Forall₂.nil i) _
      · refine foldl_rel (S := r) _ _ _ (fun b c i hbc => ?_) (h.double hbc)
        exact nafStep_rel h hbc (getD_rel hdt List.Forall₂.nil i) _

theorem basepointTableCreate_go_rel (w n : Nat) {p : R} {P : G} (hp : r p P) :
    Forall₂ (Forall₂ r) (basepointTableCreate.go oR w n p) (basepointTableCreate.go oG w n P) := by
  induction n generalizing p P with
  | zero => simp [basepointTableCreate.go]
  | succ n ih =>
    simpa [basepointTableCreate.go] using ⟨lookupTableFrom_rel h _ hp, ih (mulByPow2_rel h _ hp)⟩

theorem basepointTableCreate_rel (w : Nat) {p : R} {P : G} (hp : r p P) :
    Forall₂ (Forall₂ r) (basepointTableCreate oR w p) (basepointTableCreate oG w P) :=
  basepointTableCreate_go_rel h w 32 hp

theorem basepointTableMulBase_rel (w : Nat) {t : List (List R)} {T : List (List G)}
    (ht : Forall₂ (Forall₂ r) t T) (a : List Int) :
    r (basepointTableMulBase oR w t a) (basepointTableMulBase oG w T a) := by
  unfold basepointTableMulBase
  have hstep : ∀ (b : R) (c : G) (i : Nat), r b c →
      r (oR.add b (selectModel oR (t.getD (i / 2) []) (a.getD i 0)))
        (oG.add c (selectModel oG (T.getD (i / 2) []) (a.getD i 0))) :=
    fun b c i hbc => h.add hbc (selectModel_rel h (getD_rel ht List.Forall₂.nil _) _)
  exact foldl_rel _ _ _ hstep (mulByPow2_rel h w (foldl_rel _ _ _ hstep h.zero))

/-! ### entry points -/

/-- related constants -/
structure ConstsRel (r : R → G → Prop) (c : BaseConsts R) (C : BaseConsts G) : Prop where
  B : r c.B C.B
  table : Forall₂ (Forall₂ r) c.basepointTable C.basepointTable
  odd : Forall₂ r c.oddMultiples C.oddMultiples

theorem edwardsMul_rel (cfg : Config) {p : R} {P : G} (hp : r p P) (b : List UInt8) :
    r (edwardsMul oR cfg p b) (edwardsMul oG cfg P b) := by
  unfold edwardsMul
  cases cfg.backend
  · exact variableBaseMul_rel h _ hp
  · exact variableBaseMulVec_rel h _ hp

theorem mulBase_rel (cfg : Config) {c : BaseConsts R} {C : BaseConsts G} (hc : ConstsRel r c C)
    (b : List UInt8) : r (mulBase oR cfg c b) (mulBase oG cfg C b) := by
  unfold mulBase basepointTableMul
  split
  · exact basepointTableMulBase_rel h 4 hc.table _
  · exact edwardsMul_rel h cfg hc.B b

theorem doubleBase_rel (cfg : Config) {c : BaseConsts R} {C : BaseConsts G} (hc : ConstsRel r c C)
    (a : List UInt8) {p : R} {P : G} (hp : r p P) (b : List UInt8) :
    r (doubleBase oR cfg c a p b) (doubleBase oG cfg C a P b) := by
  unfold doubleBase
  split
  · exact doubleBaseLoop_rel h _ _ hp hc.odd
  · exact doubleBaseLoop_rel h _ _ hp (nafTableFrom_rel h 8 hc.B)

theorem multiscalarMul_rel (ss : List (List UInt8)) {ps : List R} {Ps : List G} (hp : Forall₂ r ps Ps) :
    OptRel r (multiscalarMul oR ss ps) (multiscalarMul oG ss Ps) := by
  unfold multiscalarMul
  rw [hp.length_eq]
  split
  · trivial
  · exact strausCT_rel h _ hp

theorem optionalMultiscalarMulWith_rel (t190 t500 t800 : Nat) (ss : List (List UInt8))
    {ps : List (Option R)} {Ps : List (Option G)} (hp : Forall₂ (OptRel r) ps Ps) :
    OptRel (OptRel r) (optionalMultiscalarMulWith oR t190 t500 t800 ss ps)
      (optionalMultiscalarMulWith oG t190 t500 t800 ss Ps) := by
  unfold optionalMultiscalarMulWith
  rw [hp.length_eq]
  split
  · trivial
  · simp only
    split
    · exact strausVT_rel h _ hp
    · exact pippenger_rel h _ _ hp

theorem optionalMixedMultiscalarMul_rel {st : List (List R)} {ST : List (List G)}
    (hst : Forall₂ (Forall₂ r) st ST) (ss ds : List (List UInt8)) {ps : List (Option R)}
    {Ps : List (Option G)} (hp : Forall₂ (OptRel r) ps Ps) :
    OptRel (OptRel r) (optionalMixedMultiscalarMul oR st ss ds ps)
      (optionalMixedMultiscalarMul oG ST ss ds Ps) :=
  precomputedMixed_rel h hst _ _ hp

end

end Dalek.Proofs.ScalarMul

/-
The 4-torsion `E[4] = {(0,1), (0,−1), (i,0), (−i,0)}` of the Ed25519 curve, translation by it, and the Ristretto
equality test: `x1 y2 = y1 x2 ∨ x1 x2 = y1 y2` holds exactly when the two curve points differ by an element of `E[4]`.
-/
import Dalek.Proofs.RisAlgebra
import Dalek.Proofs.SpecBridge

namespace Dalek.Proofs.Ris

open Dalek.IR Dalek.Spec Dalek.Proofs
open Dalek.Edwards
open Dalek.Bridge (Ed edParams edParams_d)
open Dalek.FieldFacts (d sqrtM1)

/-! ## The four 4-torsion points -/

/-- `(0, −1)`, the point of order 2 -/
def tors2 : Ed := ⟨0, -1, by unfold Dalek.Edwards.onCurve; ring⟩

/-- `(i, 0)`, a point of order 4 -/
def tors4 : Ed := ⟨sqrtM1, 0, by
  unfold Dalek.Edwards.onCurve; linear_combination (-1 : Fp) * Dalek.FieldFacts.sqrtM1_sq⟩

@[simp] theorem tors2_x : tors2.x = 0 := rfl
@[simp] theorem tors2_y : tors2.y = -1 := rfl
@[simp] theorem tors4_x : tors4.x = sqrtM1 := rfl
@[simp] theorem tors4_y : tors4.y = 0 := rfl

theorem add_tors2 (P : Ed) : (P + tors2).x = -P.x ∧ (P + tors2).y = -P.y := by
  constructor
  · rw [EdPoint.add_x, tors2_x, tors2_y]; simp
  · rw [EdPoint.add_y, tors2_x, tors2_y]; simp

theorem add_tors4 (P : Ed) : (P + tors4).x = sqrtM1 * P.y ∧ (P + tors4).y = sqrtM1 * P.x := by
  constructor
  · rw [EdPoint.add_x, tors4_x, tors4_y]; simp [mul_comm]
  · rw [EdPoint.add_y, tors4_x, tors4_y]; simp [mul_comm]

theorem add_neg_tors4 (P : Ed) : (P + -tors4).x = -(sqrtM1 * P.y) ∧ (P + -tors4).y = -(sqrtM1 * P.x) := by
  constructor
  · rw [EdPoint.add_x, EdPoint.neg_x, EdPoint.neg_y, tors4_x, tors4_y]; simp [mul_comm]
  · rw [EdPoint.add_y, EdPoint.neg_x, EdPoint.neg_y, tors4_x, tors4_y]; simp [mul_comm]

/-- membership in `{0, (0,−1), (i,0), (−i,0)}` -/
def IsE4 (T : Ed) : Prop := T = 0 ∨ T = tors2 ∨ T = tors4 ∨ T = -tors4

theorem two_tors2 : 2 • tors2 = 0 := by
  ext
  · rw [EdPoint.two_nsmul_x]; simp
  · rw [EdPoint.two_nsmul_y]; simp

theorem two_tors4 : 2 • tors4 = tors2 := by
  have hi := Dalek.FieldFacts.sqrtM1_sq
  ext
  · rw [EdPoint.two_nsmul_x]; simp
  · rw [EdPoint.two_nsmul_y]; simp [hi]

/-- points of order dividing 2 -/
theorem two_nsmul_eq_zero_iff (T : Ed) : 2 • T = 0 ↔ T = 0 ∨ T = tors2 := by
  constructor
  · intro h
    have hneg : T = -T := by
      have : T + T = 0 := by rw [← two_nsmul]; exact h
      exact eq_neg_of_add_eq_zero_left this
    have hx : T.x = 0 := by
      have h1 : T.x = -T.x := by
        have := congrArg EdPoint.x hneg; rwa [EdPoint.neg_x] at this
      have h2 : 2 * T.x = 0 := by linear_combination h1
      rcases mul_eq_zero.1 h2 with h' | h'
      · exact absurd h' Dalek.FieldFacts.two_ne_zero_p
      · exact h'
    have hon := T.on
    unfold Dalek.Edwards.onCurve at hon
    rw [hx] at hon
    have hy : (T.y - 1) * (T.y + 1) = 0 := by linear_combination hon
    rcases mul_eq_zero.1 hy with h' | h'
    · left; ext
      · exact hx
      · show T.y = 1; linear_combination h'
    · right; ext
      · exact hx
      · show T.y = -1; linear_combination h'
  · rintro (h | h)
    · rw [h, smul_zero]
    · rw [h, two_tors2]

/-- **`E[4]`**: the points with `4 T = 0` are exactly `(0,1), (0,−1), (i,0), (−i,0)`. -/
theorem isE4_iff (T : Ed) : IsE4 T ↔ 4 • T = 0 := by
  have h4 : ∀ S : Ed, 4 • S = 2 • (2 • S) := fun S => by rw [← mul_nsmul]
  constructor
  · rintro (h | h | h | h)
    · rw [h, smul_zero]
    · rw [h, h4, two_tors2, smul_zero]
    · rw [h, h4, two_tors4, two_tors2]
    · rw [h, smul_neg, h4, two_tors4, two_tors2, neg_zero]
  · intro h
    rw [h4, two_nsmul_eq_zero_iff] at h
    rcases h with h | h
    · rcases (two_nsmul_eq_zero_iff T).1 h with h' | h'
      · exact Or.inl h'
      · exact Or.inr (Or.inl h')
    · -- 2T = (0, −1): x y = 0 and y² + x² = −1
      have hx := congrArg EdPoint.x h
      have hy := congrArg EdPoint.y h
      rw [EdPoint.two_nsmul_x, tors2_x] at hx
      rw [EdPoint.two_nsmul_y, tors2_y] at hy
      have hden := EdPoint.add_den_ne_zero T T
      have hd1 : 1 + edParams.d * T.x ^ 2 * T.y ^ 2 ≠ 0 := by
        have := hden.1; intro h'; apply this; linear_combination h'
      have hd2 : 1 - edParams.d * T.x ^ 2 * T.y ^ 2 ≠ 0 := by
        have := hden.2; intro h'; apply this; linear_combination h'
      rw [div_eq_zero_iff] at hx
      have hxy : T.x * T.y = 0 := by
        rcases hx with hx | hx
        · have : 2 * (T.x * T.y) = 0 := by linear_combination hx
          rcases mul_eq_zero.1 this with h' | h'
          · exact absurd h' Dalek.FieldFacts.two_ne_zero_p
          · exact h'
        · exact absurd hx hd1
      rw [div_eq_iff hd2] at hy
      have hon := T.on
      unfold Dalek.Edwards.onCurve at hon
      rcases mul_eq_zero.1 hxy with h0 | h0
      · -- x = 0: then y² = 1 but y² = −1
        exfalso
        rw [h0] at hy hon
        apply Dalek.FieldFacts.two_ne_zero_p
        linear_combination hy - hon
      · -- y = 0: x² = −1
        have hx2 : (T.x - sqrtM1) * (T.x + sqrtM1) = 0 := by
          rw [h0] at hon
          linear_combination (-1 : Fp) * hon - Dalek.FieldFacts.sqrtM1_sq
        rcases mul_eq_zero.1 hx2 with h' | h'
        · right; right; left; ext
          · show T.x = sqrtM1; linear_combination h'
          · exact h0
        · right; right; right; ext
          · show T.x = -sqrtM1; linear_combination h'
          · exact h0

/-! ## EQUALS -/

/-- the Ristretto equality test on affine coordinates -/
def risEq (P Q : Ed) : Prop := P.x * Q.y = P.y * Q.x ∨ P.x * Q.x = P.y * Q.y

theorem one_sub_d_sq_ne_zero (A : Fp) : 1 - d * A ^ 2 ≠ 0 := by
  intro h
  have hA : A ≠ 0 := by
    rintro rfl
    apply one_ne_zero (α := Fp); linear_combination h
  apply Dalek.FieldFacts.d_not_isSquare
  refine ⟨A⁻¹, ?_⟩
  field_simp
  linear_combination -h

theorem one_add_d_sq_ne_zero (A : Fp) : 1 + d * A ^ 2 ≠ 0 := by
  intro h
  have hA : A ≠ 0 := by
    rintro rfl
    apply one_ne_zero (α := Fp); linear_combination h
  apply neg_d_not_isSquare
  refine ⟨A⁻¹, ?_⟩
  field_simp
  linear_combination -h

theorem sq_eq_cases {a b : Fp} (h : a ^ 2 = b ^ 2) : a = b ∨ a = -b := by
  have : (a - b) * (a + b) = 0 := by linear_combination h
  rcases mul_eq_zero.1 this with h' | h'
  · left; linear_combination h'
  · right; linear_combination h'

theorem mul_eq_zero_of_two {a b : Fp} (h : 2 * (a * b) = 0) : a = 0 ∨ b = 0 := by
  rcases mul_eq_zero.1 h with h' | h'
  · exact absurd h' Dalek.FieldFacts.two_ne_zero_p
  · exact mul_eq_zero.1 h'

theorem eq_add_tors2 {P Q : Ed} (hx : Q.x = -P.x) (hy : Q.y = -P.y) : Q = P + tors2 := by
  obtain ⟨h1, h2⟩ := add_tors2 P
  ext
  · rw [h1, hx]
  · rw [h2, hy]

theorem eq_add_tors4 {P Q : Ed} (hx : Q.x = sqrtM1 * P.y) (hy : Q.y = sqrtM1 * P.x) : Q = P + tors4 := by
  obtain ⟨h1, h2⟩ := add_tors4 P
  ext
  · rw [h1, hx]
  · rw [h2, hy]

theorem eq_add_neg_tors4 {P Q : Ed} (hx : Q.x = -(sqrtM1 * P.y)) (hy : Q.y = -(sqrtM1 * P.x)) :
    Q = P + -tors4 := by
  obtain ⟨h1, h2⟩ := add_neg_tors4 P
  ext
  · rw [h1, hx]
  · rw [h2, hy]

/-- **EQUALS decides equality of cosets of `E[4]`**: for curve points `P`, `Q`,
`x1 y2 = y1 x2 ∨ x1 x2 = y1 y2` iff `Q = P + T` for one of the four `T ∈ E[4]`. -/
theorem risEq_iff (P Q : Ed) : risEq P Q ↔ ∃ T, IsE4 T ∧ Q = P + T := by
  have hi := Dalek.FieldFacts.sqrtM1_sq
  have hi0 : sqrtM1 ≠ 0 := Bridge.sqrtM1_ne_zero
  constructor
  · have h1 := P.on
    have h2 := Q.on
    unfold Dalek.Edwards.onCurve at h1 h2
    rw [edParams_d] at h1 h2
    obtain ⟨a, b, _⟩ := P
    obtain ⟨c, e, _⟩ := Q
    unfold risEq
    dsimp only at h1 h2 ⊢
    rintro (hA | hB)
    · -- x1 y2 = y1 x2: Q = ±P
      have hy : e ^ 2 = b ^ 2 := by
        have hne := one_sub_d_sq_ne_zero (a * e)
        have : (e ^ 2 - b ^ 2) * (1 - d * (a * e) ^ 2) = 0 := by
          linear_combination (-e ^ 2) * h1 + (b ^ 2) * h2 - ((a * e + b * c) * (1 + d * e ^ 2)) * hA
        rcases mul_eq_zero.1 this with h' | h'
        · linear_combination h'
        · exact absurd h' hne
      have hx : c ^ 2 = a ^ 2 := by
        have hne := one_sub_d_sq_ne_zero (a * e)
        have : (c ^ 2 - a ^ 2) * (1 - d * (a * e) ^ 2) = 0 := by
          linear_combination (-c ^ 2) * h1 + (a ^ 2) * h2 + ((a * e + b * c) * (d * a ^ 2 - 1)) * hA
        rcases mul_eq_zero.1 this with h' | h'
        · linear_combination h'
        · exact absurd h' hne
      have hP : ∀ (hx : c = a) (hy : e = b), ∃ T, IsE4 T ∧ (⟨c, e, ‹_›⟩ : Ed) = ⟨a, b, ‹_›⟩ + T :=
        fun hx hy => ⟨0, Or.inl rfl, by rw [add_zero]; ext <;> assumption⟩
      have hN : ∀ (hx : c = -a) (hy : e = -b), ∃ T, IsE4 T ∧ (⟨c, e, ‹_›⟩ : Ed) = ⟨a, b, ‹_›⟩ + T :=
        fun hx hy => ⟨tors2, Or.inr (Or.inl rfl), eq_add_tors2 hx hy⟩
      rcases sq_eq_cases hx with hx | hx <;> rcases sq_eq_cases hy with hy | hy
      · exact hP hx hy
      · have h0 : a = 0 ∨ b = 0 := mul_eq_zero_of_two (by rw [hx, hy] at hA; linear_combination -hA)
        rcases h0 with h0 | h0
        · exact hN (by rw [hx, h0, neg_zero]) hy
        · exact hP hx (by rw [hy, h0, neg_zero])
      · have h0 : a = 0 ∨ b = 0 := mul_eq_zero_of_two (by rw [hx, hy] at hA; linear_combination hA)
        rcases h0 with h0 | h0
        · exact hP (by rw [hx, h0, neg_zero]) hy
        · exact hN hx (by rw [hy, h0, neg_zero])
      · exact hN hx hy
    · -- x1 x2 = y1 y2: Q = P ± (i, 0)
      have hy : e ^ 2 = (sqrtM1 * a) ^ 2 := by
        have hne := one_add_d_sq_ne_zero (a * c)
        have : (a ^ 2 + e ^ 2) * (1 + d * (a * c) ^ 2) = 0 := by
          linear_combination (-e ^ 2) * h1 + (-a ^ 2) * h2 - ((a * c + b * e) * (1 - d * a ^ 2)) * hB
        rcases mul_eq_zero.1 this with h' | h'
        · linear_combination h' - (a ^ 2) * hi
        · exact absurd h' hne
      have hx : c ^ 2 = (sqrtM1 * b) ^ 2 := by
        have hne := one_add_d_sq_ne_zero (a * c)
        have : (c ^ 2 + b ^ 2) * (1 + d * (a * c) ^ 2) = 0 := by
          linear_combination (-c ^ 2) * h1 + (-b ^ 2) * h2 + ((a * c + b * e) * (d * c ^ 2 - 1)) * hB
        rcases mul_eq_zero.1 this with h' | h'
        · linear_combination h' - (b ^ 2) * hi
        · exact absurd h' hne
      have hP : ∀ (hx : c = sqrtM1 * b) (hy : e = sqrtM1 * a),
          ∃ T, IsE4 T ∧ (⟨c, e, ‹_›⟩ : Ed) = ⟨a, b, ‹_›⟩ + T :=
        fun hx hy => ⟨tors4, Or.inr (Or.inr (Or.inl rfl)), eq_add_tors4 hx hy⟩
      have hN : ∀ (hx : c = -(sqrtM1 * b)) (hy : e = -(sqrtM1 * a)),
          ∃ T, IsE4 T ∧ (⟨c, e, ‹_›⟩ : Ed) = ⟨a, b, ‹_›⟩ + T :=
        fun hx hy => ⟨-tors4, Or.inr (Or.inr (Or.inr rfl)), eq_add_neg_tors4 hx hy⟩
      have hab : ∀ (h : 2 * (sqrtM1 * (a * b)) = 0), a = 0 ∨ b = 0 := by
        intro h
        rcases mul_eq_zero.1 h with h' | h'
        · exact absurd h' Dalek.FieldFacts.two_ne_zero_p
        · rcases mul_eq_zero.1 h' with h'' | h''
          · exact absurd h'' hi0
          · exact mul_eq_zero.1 h''
      rcases sq_eq_cases hx with hx | hx <;> rcases sq_eq_cases hy with hy | hy
      · exact hP hx hy
      · rcases hab (by rw [hx, hy] at hB; linear_combination hB) with h0 | h0
        · exact hP hx (by rw [hy, h0, mul_zero, neg_zero])
        · exact hN (by rw [hx, h0, mul_zero, neg_zero]) hy
      · rcases hab (by rw [hx, hy] at hB; linear_combination -hB) with h0 | h0
        · exact hN hx (by rw [hy, h0, mul_zero, neg_zero])
        · exact hP (by rw [hx, h0, mul_zero, neg_zero]) hy
      · exact hN hx hy
  · rintro ⟨T, hT | hT | hT | hT, rfl⟩
    · rw [hT, add_zero]; left; ring
    · rw [hT]; obtain ⟨hx, hy⟩ := add_tors2 P
      left; rw [hx, hy]; ring
    · rw [hT]; obtain ⟨hx, hy⟩ := add_tors4 P
      right; rw [hx, hy]; ring
    · rw [hT]; obtain ⟨hx, hy⟩ := add_neg_tors4 P
      right; rw [hx, hy]; ring

/-- the test may be done on projective / extended coordinates (as `ct_eq` does) -/
theorem risEq_iff_proj {P Q : Ed} {X1 Y1 Z1 T1 X2 Y2 Z2 T2 : Fp} (hP : RepExt P X1 Y1 Z1 T1)
    (hQ : RepExt Q X2 Y2 Z2 T2) : risEq P Q ↔ (X1 * Y2 = Y1 * X2 ∨ X1 * X2 = Y1 * Y2) := by
  obtain ⟨hZ1, hx1, hy1, -⟩ := hP
  obtain ⟨hZ2, hx2, hy2, -⟩ := hQ
  unfold risEq
  rw [hx1, hy1, hx2, hy2]
  have e1 : X1 / Z1 * (Y2 / Z2) = Y1 / Z1 * (X2 / Z2) ↔ X1 * Y2 = Y1 * X2 := by
    rw [div_mul_div_comm, div_mul_div_comm, div_left_inj' (mul_ne_zero hZ1 hZ2)]
  have e2 : X1 / Z1 * (X2 / Z2) = Y1 / Z1 * (Y2 / Z2) ↔ X1 * X2 = Y1 * Y2 := by
    rw [div_mul_div_comm, div_mul_div_comm, div_left_inj' (mul_ne_zero hZ1 hZ2)]
  rw [e1, e2]

/-- `risEq` in terms of `E[4] = {T | 4 T = 0}` -/
theorem risEq_iff' (P Q : Ed) : risEq P Q ↔ ∃ T : Ed, 4 • T = 0 ∧ Q = P + T := by
  rw [risEq_iff]
  constructor
  · rintro ⟨T, hT, h⟩; exact ⟨T, (isE4_iff T).1 hT, h⟩
  · rintro ⟨T, hT, h⟩; exact ⟨T, (isE4_iff T).2 hT, h⟩

/-- multiples of the basepoint lie in the same coset of `E[4]` only if the scalars agree mod `ℓ` -/
theorem risEq_nsmul_Bpt_iff (n m : Nat) :
    risEq (n • Bridge.Bpt) (m • Bridge.Bpt) ↔ n % L = m % L := by
  rw [risEq_iff']
  constructor
  · rintro ⟨T, hT, h⟩
    have h4 : (4 * m) • Bridge.Bpt = (4 * n) • Bridge.Bpt := by
      rw [mul_nsmul', mul_nsmul', h, nsmul_add, hT, add_zero]
    rw [nsmul_eq_nsmul_iff_modEq, Bridge.addOrderOf_Bpt] at h4
    have hc : Nat.gcd L 4 = 1 := by decide +kernel
    exact (Nat.ModEq.cancel_left_of_coprime hc h4).symm
  · intro h
    refine ⟨0, smul_zero _, ?_⟩
    rw [add_zero, eq_comm, nsmul_eq_nsmul_iff_modEq, Bridge.addOrderOf_Bpt]
    exact h

end Dalek.Proofs.Ris

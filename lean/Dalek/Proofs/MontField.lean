/-
Field-level facts about the TRANSLATED Montgomery items (`Dalek.Gen.AlgMontgomery`, `Dalek.Gen.AlgEdwards.to_montgomery`)
under the executable interpretation `natOps`: each item computes the `Spec` formula (over canonical naturals).
Proofs go through the cast to `Fp = ZMod p` and `ring`; the inlined `invert` addition chain is recognised as
`w ^ (2^255 - 21) = w⁻¹` by `ring` as well.  Generated objects are referred to by name only.
-/
import Dalek.Model.Ladder
import Dalek.Gen.AlgMontgomerySh
import Dalek.Gen.AlgEdwardsSh
import Dalek.Proofs.Bridge.Field
import Dalek.Proofs.Bridge.Sqrt

namespace Dalek.Proofs.Mont
open Dalek.IR Dalek.Spec Dalek.Model Dalek.Bridge

/-! ### the constant table -/

/-- the hand-written table of `natOps` lines up with the constant names emitted by the translator -/
theorem constNames_ok : Dalek.Gen.AlgMontgomery.constNames = algConstNames := by decide

theorem const_0 : natOps.const 0 = 0 := by decide +kernel
theorem const_1 : natOps.const 1 = 1 := by decide +kernel
theorem const_2 : natOps.const 2 = P - 1 := by decide +kernel
theorem const_3 : natOps.const 3 = P - 1 := by decide +kernel
theorem const_4 : natOps.const 4 = D := by decide +kernel
theorem const_10 : natOps.const 10 = SQRT_M1 := by decide +kernel
/-- `constants::APLUS2_OVER_FOUR` of the regenerated limb table is `121666 = (486662 + 2)/4` -/
theorem const_11 : natOps.const 11 = 121666 := by decide +kernel
theorem const_12 : natOps.const 12 = MONTGOMERY_A := by decide +kernel
theorem const_13 : natOps.const 13 = P - MONTGOMERY_A := by decide +kernel

/-- index ↔ name for the constants used by the Montgomery items -/
theorem constNames_used :
    Dalek.Gen.AlgMontgomery.constNames.getD 0 "" = "FieldElement::ZERO" ∧
    Dalek.Gen.AlgMontgomery.constNames.getD 1 "" = "FieldElement::ONE" ∧
    Dalek.Gen.AlgMontgomery.constNames.getD 2 "" = "FieldElement::MINUS_ONE" ∧
    Dalek.Gen.AlgMontgomery.constNames.getD 10 "" = "constants::SQRT_M1" ∧
    Dalek.Gen.AlgMontgomery.constNames.getD 11 "" = "constants::APLUS2_OVER_FOUR" ∧
    Dalek.Gen.AlgMontgomery.constNames.getD 12 "" = "constants::MONTGOMERY_A" ∧
    Dalek.Gen.AlgMontgomery.constNames.getD 13 "" = "constants::MONTGOMERY_A_NEG" := by decide

/-! ### repeated squaring -/

theorem iterSq_lt (k x : Nat) (hx : x < P) : iterSq k x < P := by
  induction k generalizing x with
  | zero => simpa [iterSq] using hx
  | succ k ih => simp only [iterSq]; exact ih _ (fsq_lt _)

theorem cast_iterSq (k x : Nat) : ((iterSq k x : Nat) : Fp) = (x : Fp) ^ (2 ^ k) := by
  induction k generalizing x with
  | zero => simp [iterSq]
  | succ k ih => simp only [iterSq]; rw [ih, cast_fsq, ← pow_mul, pow_succ, mul_comm]

/-! ### list helpers -/

theorem list1_eq_of_cast {a b : Nat} (ha : a < P) (hb : b < P) (h : (a : Fp) = (b : Fp)) : [a] = [b] := by
  rw [eq_of_cast_eq ha hb h]

theorem inv_eq_pow (w : Fp) : w⁻¹ = w ^ (2 ^ 255 - 21) := (Dalek.FieldFacts.pow_inv_exponent w).symm

/-! ### the ladder items -/

open Dalek.Gen.AlgMontgomery

/-- The translated `differential_add_and_double` computes exactly the four values of the RFC 7748 step
(`A = x2+z2, B = x2−z2, C = x3+z3, D = x3−z3`): `AA·BB`, `E·(AA + 121665·E)`, `(DA+CB)²`, `x1·(DA−CB)²`
— for ARBITRARY natural-number inputs (the operations reduce). -/
theorem dadd_nat (x2 z2 x3 z3 x1 : Nat) :
    differential_add_and_double.run natOps [x2, z2, x3, z3, x1] =
      [fmul (fsq (fadd x2 z2)) (fsq (fsub x2 z2)),
       fmul (fsub (fsq (fadd x2 z2)) (fsq (fsub x2 z2)))
         (fadd (fsq (fadd x2 z2)) (fmul a24 (fsub (fsq (fadd x2 z2)) (fsq (fsub x2 z2))))),
       fsq (fadd (fmul (fsub x3 z3) (fadd x2 z2)) (fmul (fadd x3 z3) (fsub x2 z2))),
       fmul x1 (fsq (fsub (fmul (fsub x3 z3) (fadd x2 z2)) (fmul (fadd x3 z3) (fsub x2 z2))))] := by
  rw [differential_add_and_double_sh_ok]
  unfold differential_add_and_double_sh
  simp only [List.cons.injEq, and_true]
  refine ⟨?_, ?_, ?_, ?_⟩
  · rfl
  · apply eq_of_cast_eq (fmul_lt _ _) (fmul_lt _ _)
    simp only [show natOps.const 11 = 121666 from const_11]
    simp only [natOps, a24, cast_fmul, cast_fsq, cast_fadd, cast_fsub, Nat.cast_ofNat]
    ring
  · apply eq_of_cast_eq (fsq_lt _) (fsq_lt _)
    simp only [natOps, cast_fmul, cast_fsq, cast_fadd, cast_fsub]
    ring
  · apply eq_of_cast_eq (fmul_lt _ _) (fmul_lt _ _)
    simp only [natOps, cast_fmul, cast_fsq, cast_fadd, cast_fsub]
    ring

theorem identity_nat : ProjectivePoint_identity.run natOps [] = [1, 0] := by
  rw [ProjectivePoint_identity_sh_ok]; decide +kernel

theorem cond_select_nat (aU aW bU bW c : Nat) :
    ProjectivePoint_conditional_select.run natOps [aU, aW, bU, bW, c] =
      [if c = 0 then aU else bU, if c = 0 then aW else bW] := by
  rw [ProjectivePoint_conditional_select_sh_ok]; rfl

/-- The translated `as_affine` (with `invert` inlined) computes `U · W^(p−2)` (`0` for `W = 0`). -/
theorem as_affine_nat (U W : Nat) :
    ProjectivePoint_as_affine.run natOps [U, W] = [fmul U (fpow W (P - 2))] := by
  rw [ProjectivePoint_as_affine_sh_ok]
  unfold ProjectivePoint_as_affine_sh
  apply list1_eq_of_cast (fmul_lt _ _) (fmul_lt _ _)
  simp only [natOps, cast_fmul, cast_fsq, cast_iterSq, cast_mod_P, cast_fpow]
  rw [show P - 2 = 2 ^ 255 - 21 from by norm_num]
  ring

/-! ### conversions -/

/-- The translated `EdwardsPoint::to_montgomery` computes `(Z+Y)/(Z−Y)` (with `0⁻¹ = 0`). -/
theorem to_montgomery_nat (X Y Z T : Nat) :
    Dalek.Gen.AlgEdwards.to_montgomery.run natOps [X, Y, Z, T] = [fmul (fadd Z Y) (finv (fsub Z Y))] := by
  rw [Dalek.Gen.AlgEdwards.to_montgomery_sh_ok]
  unfold Dalek.Gen.AlgEdwards.to_montgomery_sh
  apply list1_eq_of_cast (fmul_lt _ _) (fmul_lt _ _)
  simp only [natOps, cast_fmul, cast_fsq, cast_iterSq, cast_mod_P, cast_finv, inv_eq_pow]
  generalize ((fsub Z Y : Nat) : Fp) = w
  ring

/-- The translated field part of `MontgomeryPoint::to_edwards`: the test `u == −1` and `y = (u−1)/(u+1)`. -/
theorem to_edwards_nat (u : Nat) :
    to_edwards.run natOps [u] = [b2n (u % P == P - 1), fmul (fsub u 1) (finv (fadd u 1))] := by
  rw [to_edwards_sh_ok]
  unfold to_edwards_sh
  simp only [List.cons.injEq, and_true]
  refine ⟨?_, ?_⟩
  · simp only [natOps]
    rw [show algConstTable.getD 2 0 = P - 1 from const_2, Nat.mod_eq_of_lt (show P - 1 < P by norm_num)]
  · apply eq_of_cast_eq (fmul_lt _ _) (fmul_lt _ _)
    simp only [show natOps.const 1 = 1 from const_1]
    simp only [natOps, cast_fmul, cast_fsq, cast_iterSq, cast_mod_P, cast_finv, inv_eq_pow]
    generalize ((fadd u 1 : Nat) : Fp) = w
    ring

theorem ct_eq_nat (a b : Nat) : ct_eq.run natOps [a, b] = [b2n (a % P == b % P)] := by
  rw [ct_eq_sh_ok]; rfl

end Dalek.Proofs.Mont

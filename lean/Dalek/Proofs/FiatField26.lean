import Dalek.Proofs.Field26
import Dalek.Gen.Norm.FiatField26
/-! Functional correctness in `ZMod p` of the translated fiat wrapper kernels (`backend/serial/fiat_u32/field.rs`
with the called `fiat_crypto::curve25519_32` functions inlined), for ALL integer inputs. -/
namespace Dalek.Proofs.FiatField26
open Dalek Dalek.Gen.Norm.FiatField26 Dalek.Proofs.Field26

theorem neg_correct (x0 x1 x2 x3 x4 x5 x6 x7 x8 x9 : Int) :
    ((rep26 (neg_fn x0 x1 x2 x3 x4 x5 x6 x7 x8 x9) : Int) : ZMod P) = - ((rep26 [x0, x1, x2, x3, x4, x5, x6, x7, x8, x9] : Int) : ZMod P) := by
  limb_lets neg_fn
  cast_eqs (ZMod P)
  limb_finish

set_option maxHeartbeats 4000000 in
theorem square_correct (x0 x1 x2 x3 x4 x5 x6 x7 x8 x9 : Int) :
    ((rep26 (square_fn x0 x1 x2 x3 x4 x5 x6 x7 x8 x9) : Int) : ZMod P) = ((rep26 [x0, x1, x2, x3, x4, x5, x6, x7, x8, x9] : Int) : ZMod P) ^ 2 := by
  limb_lets square_fn
  cast_eqs (ZMod P)
  limb_finish

set_option maxHeartbeats 4000000 in
theorem square2_correct (x0 x1 x2 x3 x4 x5 x6 x7 x8 x9 : Int) :
    ((rep26 (square2_fn x0 x1 x2 x3 x4 x5 x6 x7 x8 x9) : Int) : ZMod P) = 2 * ((rep26 [x0, x1, x2, x3, x4, x5, x6, x7, x8, x9] : Int) : ZMod P) ^ 2 := by
  limb_lets square2_fn
  cast_eqs (ZMod P)
  limb_finish

set_option maxHeartbeats 4000000 in
theorem pow2k_body_correct (x0 x1 x2 x3 x4 x5 x6 x7 x8 x9 : Int) :
    ((rep26 (pow2k_body_fn x0 x1 x2 x3 x4 x5 x6 x7 x8 x9) : Int) : ZMod P) = ((rep26 [x0, x1, x2, x3, x4, x5, x6, x7, x8, x9] : Int) : ZMod P) ^ 2 := by
  limb_lets pow2k_body_fn
  cast_eqs (ZMod P)
  limb_finish

theorem add_correct (x0 x1 x2 x3 x4 x5 x6 x7 x8 x9 y0 y1 y2 y3 y4 y5 y6 y7 y8 y9 : Int) :
    ((rep26 (add_fn x0 x1 x2 x3 x4 x5 x6 x7 x8 x9 y0 y1 y2 y3 y4 y5 y6 y7 y8 y9) : Int) : ZMod P)
      = ((rep26 [x0, x1, x2, x3, x4, x5, x6, x7, x8, x9] : Int) : ZMod P) + ((rep26 [y0, y1, y2, y3, y4, y5, y6, y7, y8, y9] : Int) : ZMod P) := by
  limb_lets add_fn
  cast_eqs (ZMod P)
  limb_finish

theorem add_ref_correct (x0 x1 x2 x3 x4 x5 x6 x7 x8 x9 y0 y1 y2 y3 y4 y5 y6 y7 y8 y9 : Int) :
    ((rep26 (add_ref_fn x0 x1 x2 x3 x4 x5 x6 x7 x8 x9 y0 y1 y2 y3 y4 y5 y6 y7 y8 y9) : Int) : ZMod P)
      = ((rep26 [x0, x1, x2, x3, x4, x5, x6, x7, x8, x9] : Int) : ZMod P) + ((rep26 [y0, y1, y2, y3, y4, y5, y6, y7, y8, y9] : Int) : ZMod P) := by
  limb_lets add_ref_fn
  cast_eqs (ZMod P)
  limb_finish

theorem sub_correct (x0 x1 x2 x3 x4 x5 x6 x7 x8 x9 y0 y1 y2 y3 y4 y5 y6 y7 y8 y9 : Int) :
    ((rep26 (sub_fn x0 x1 x2 x3 x4 x5 x6 x7 x8 x9 y0 y1 y2 y3 y4 y5 y6 y7 y8 y9) : Int) : ZMod P)
      = ((rep26 [x0, x1, x2, x3, x4, x5, x6, x7, x8, x9] : Int) : ZMod P) - ((rep26 [y0, y1, y2, y3, y4, y5, y6, y7, y8, y9] : Int) : ZMod P) := by
  limb_lets sub_fn
  cast_eqs (ZMod P)
  limb_finish

theorem sub_assign_correct (x0 x1 x2 x3 x4 x5 x6 x7 x8 x9 y0 y1 y2 y3 y4 y5 y6 y7 y8 y9 : Int) :
    ((rep26 (sub_assign_fn x0 x1 x2 x3 x4 x5 x6 x7 x8 x9 y0 y1 y2 y3 y4 y5 y6 y7 y8 y9) : Int) : ZMod P)
      = ((rep26 [x0, x1, x2, x3, x4, x5, x6, x7, x8, x9] : Int) : ZMod P) - ((rep26 [y0, y1, y2, y3, y4, y5, y6, y7, y8, y9] : Int) : ZMod P) := by
  limb_lets sub_assign_fn
  cast_eqs (ZMod P)
  limb_finish

set_option maxHeartbeats 4000000 in
theorem mul_correct (x0 x1 x2 x3 x4 x5 x6 x7 x8 x9 y0 y1 y2 y3 y4 y5 y6 y7 y8 y9 : Int) :
    ((rep26 (mul_fn x0 x1 x2 x3 x4 x5 x6 x7 x8 x9 y0 y1 y2 y3 y4 y5 y6 y7 y8 y9) : Int) : ZMod P)
      = ((rep26 [x0, x1, x2, x3, x4, x5, x6, x7, x8, x9] : Int) : ZMod P) * ((rep26 [y0, y1, y2, y3, y4, y5, y6, y7, y8, y9] : Int) : ZMod P) := by
  limb_lets mul_fn
  cast_eqs (ZMod P)
  limb_finish

set_option maxHeartbeats 4000000 in
theorem mul_assign_correct (x0 x1 x2 x3 x4 x5 x6 x7 x8 x9 y0 y1 y2 y3 y4 y5 y6 y7 y8 y9 : Int) :
    ((rep26 (mul_assign_fn x0 x1 x2 x3 x4 x5 x6 x7 x8 x9 y0 y1 y2 y3 y4 y5 y6 y7 y8 y9) : Int) : ZMod P)
      = ((rep26 [x0, x1, x2, x3, x4, x5, x6, x7, x8, x9] : Int) : ZMod P) * ((rep26 [y0, y1, y2, y3, y4, y5, y6, y7, y8, y9] : Int) : ZMod P) := by
  limb_lets mul_assign_fn
  cast_eqs (ZMod P)
  limb_finish

theorem conditional_select_correct (x0 x1 x2 x3 x4 x5 x6 x7 x8 x9 y0 y1 y2 y3 y4 y5 y6 y7 y8 y9 c : Int) :
    conditional_select_fn x0 x1 x2 x3 x4 x5 x6 x7 x8 x9 y0 y1 y2 y3 y4 y5 y6 y7 y8 y9 c = if c = 0 then [x0, x1, x2, x3, x4, x5, x6, x7, x8, x9] else [y0, y1, y2, y3, y4, y5, y6, y7, y8, y9] := by
  unfold conditional_select_fn
  split <;> simp_all

theorem conditional_assign_correct (x0 x1 x2 x3 x4 x5 x6 x7 x8 x9 y0 y1 y2 y3 y4 y5 y6 y7 y8 y9 c : Int) :
    conditional_assign_fn x0 x1 x2 x3 x4 x5 x6 x7 x8 x9 y0 y1 y2 y3 y4 y5 y6 y7 y8 y9 c = if c = 0 then [x0, x1, x2, x3, x4, x5, x6, x7, x8, x9] else [y0, y1, y2, y3, y4, y5, y6, y7, y8, y9] := by
  unfold conditional_assign_fn
  split <;> simp_all

theorem conditional_swap_correct (x0 x1 x2 x3 x4 x5 x6 x7 x8 x9 y0 y1 y2 y3 y4 y5 y6 y7 y8 y9 c : Int) :
    conditional_swap_fn x0 x1 x2 x3 x4 x5 x6 x7 x8 x9 y0 y1 y2 y3 y4 y5 y6 y7 y8 y9 c = if c = 0 then [x0, x1, x2, x3, x4, x5, x6, x7, x8, x9, y0, y1, y2, y3, y4, y5, y6, y7, y8, y9] else [y0, y1, y2, y3, y4, y5, y6, y7, y8, y9, x0, x1, x2, x3, x4, x5, x6, x7, x8, x9] := by
  unfold conditional_swap_fn
  split <;> simp_all

end Dalek.Proofs.FiatField26

import Dalek.Proofs.RecodeBase
import Dalek.Proofs.Recode16
import Mathlib.Tactic.IntervalCases
import Mathlib.Tactic.LinearCombination
/-!
# `Scalar::as_radix_2w(w)` (model `asRadix2w`), `w = 5, 6, 7, 8`: loop invariant, final carry
-/
namespace Dalek.Proofs.Recode
open Dalek.Model.Recode Dalek.Spec

theorem window_eq' (X : List Nat) (s pos w : Nat) (single : Bool) (hX : WordsOf X s) (hw : w ≤ 64)
    (hs : single = true → pos % 64 + w ≤ 64 ∨ s < 2 ^ (64 * (pos / 64 + 1))) :
    bitBuf X (pos / 64) (pos % 64) single &&& (2 ^ w - 1) = s / 2 ^ pos % 2 ^ w := by
  rw [← window_eq X s pos w single hX hw hs, Nat.one_shiftLeft]

/-- One iteration of the `for i in 0..digits_count` loop, with the model's `let`s inlined. -/
theorem radix2wLoop_succ (w : Nat) (X : List Nat) (n i carry : Nat) :
    radix2wLoop w X (n + 1) i carry =
      (toI8 (((carry + (bitBuf X (i * w / 64) (i * w % 64) (decide (i * w % 64 < 64 - w) || (i * w / 64 == 3)) &&& (2 ^ w - 1)) : Nat) : Int) -
          (((carry + (bitBuf X (i * w / 64) (i * w % 64) (decide (i * w % 64 < 64 - w) || (i * w / 64 == 3)) &&& (2 ^ w - 1)) + 2 ^ w / 2) / 2 ^ w * 2 ^ w : Nat) : Int)) ::
        (radix2wLoop w X n (i + 1) ((carry + (bitBuf X (i * w / 64) (i * w % 64) (decide (i * w % 64 < 64 - w) || (i * w / 64 == 3)) &&& (2 ^ w - 1)) + 2 ^ w / 2) / 2 ^ w)).1,
       (radix2wLoop w X n (i + 1) ((carry + (bitBuf X (i * w / 64) (i * w % 64) (decide (i * w % 64 < 64 - w) || (i * w / 64 == 3)) &&& (2 ^ w - 1)) + 2 ^ w / 2) / 2 ^ w)).2) := by
  rw [radix2wLoop]
  simp only [Nat.shiftRight_eq_div_pow, Nat.shiftLeft_eq, Nat.one_mul, Int.ofNat_eq_natCast]

/-- The recentring carry `(coef + 2^w/2) >> w` is `0` below half the radix and `1` from there on. -/
theorem carry_cases (W K coef : Nat) (hW : W = 2 * K) (hK : 0 < K) (hc : coef ≤ W) :
    (coef < K ∧ (coef + W / 2) / W = 0) ∨ (K ≤ coef ∧ (coef + W / 2) / W = 1) := by
  have hW2 : W / 2 = K := by omega
  rw [hW2]
  rcases Nat.lt_or_ge coef K with h | h
  · exact Or.inl ⟨h, Nat.div_eq_of_lt (by omega)⟩
  · exact Or.inr ⟨h, Nat.div_eq_of_lt_le (by omega) (by omega)⟩

/-- Loop invariant of `as_radix_2w`, for `n` iterations starting at digit index `i` with incoming
carry `carry`: the produced digits plus the outgoing carry account exactly for
`carry + s / 2^(w·i)`; every digit lies in `[-2^(w-1), 2^(w-1))`; the outgoing carry is `0` when
the last window (plus a carry) stays below half the radix. -/
theorem radix2wLoop_spec (w s : Nat) (X : List Nat) (hX : WordsOf X s) (hw1 : 1 ≤ w) (hw8 : w ≤ 8)
    (hs : s < 2 ^ 256) (n : Nat) : ∀ (i carry : Nat), carry ≤ 1 →
      (radix2wLoop w X n i carry).1.length = n ∧ (radix2wLoop w X n i carry).2 ≤ 1 ∧
      digitSum (2 ^ w) (radix2wLoop w X n i carry).1 +
          (2 ^ w) ^ n * (((radix2wLoop w X n i carry).2 + s / 2 ^ (w * (i + n)) : Nat) : Int) =
        ((carry + s / 2 ^ (w * i) : Nat) : Int) ∧
      (∀ j, j < n → -(2 ^ (w - 1) : Int) ≤ (radix2wLoop w X n i carry).1.getD j 0 ∧
        (radix2wLoop w X n i carry).1.getD j 0 < 2 ^ (w - 1)) ∧
      (1 ≤ n → s / 2 ^ (w * (i + n - 1)) + 1 < 2 ^ (w - 1) →
        (radix2wLoop w X n i carry).2 = 0) := by
  induction n with
  | zero =>
    intro i carry hc
    simp [radix2wLoop, digitSum, hc]
  | succ n ih =>
    intro i carry hc
    rw [radix2wLoop_succ,
      window_eq' X s (i * w) w _ hX (by omega) (by
        intro hsg
        simp only [Bool.or_eq_true, decide_eq_true_eq, beq_iff_eq] at hsg
        rcases hsg with h | h
        · left; omega
        · right; rw [h]; exact hs)]
    have hsplit := div_split s (i * w) w
    have hmlt : s / 2 ^ (i * w) % 2 ^ w < 2 ^ w := Nat.mod_lt _ (Nat.two_pow_pos _)
    have hK : (2 : Nat) ^ w = 2 * 2 ^ (w - 1) := by
      rw [← pow_succ']; congr 1; omega
    have hKpos : (0 : Nat) < 2 ^ (w - 1) := Nat.two_pow_pos _
    have hK128 : (2 : Nat) ^ (w - 1) ≤ 2 ^ 7 := Nat.pow_le_pow_right (by norm_num) (by omega)
    have hKI : ((2 : Int) ^ (w - 1)) = ((2 ^ (w - 1) : Nat) : Int) := by push_cast; rfl
    have hWI : ((2 : Int) ^ w) = ((2 ^ w : Nat) : Int) := by push_cast; rfl
    have e1 : i * w + w = w * (i + 1) := by ring
    have e2 : i * w = w * i := by ring
    have e3 : w * (i + 1 + n) = w * (i + (n + 1)) := by ring
    rw [e1, e2] at hsplit
    rw [e2] at hmlt ⊢
    generalize hm : s / 2 ^ (w * i) % 2 ^ w = m at *
    generalize hq : s / 2 ^ (w * (i + 1)) = q at *
    generalize ht : s / 2 ^ (w * i) = t at *
    have hcoef : carry + m ≤ 2 ^ w := by omega
    rcases carry_cases (2 ^ w) (2 ^ (w - 1)) (carry + m) hK hKpos hcoef with ⟨hlow, hcar⟩ | ⟨hhigh, hcar⟩
    · rw [hcar]
      obtain ⟨h1, h2, h3, h4, h5⟩ := ih (i + 1) 0 (by omega)
      rw [e3, hq] at h3
      dsimp only
      refine ⟨by simp [h1], h2, ?_, ?_, ?_⟩
      · rw [toI8_id (by push_cast; omega) (by push_cast; omega)]
        simp only [digitSum, pow_succ]
        rw [hsplit]
        have h3' := h3
        rw [hWI] at h3' ⊢
        push_cast at h3' ⊢
        linear_combination (2 ^ w : Int) * h3'
      · intro j hj
        cases j with
        | zero =>
          simp only [List.getD_cons_zero]
          rw [toI8_id (by push_cast; omega) (by push_cast; omega), hKI]
          push_cast; omega
        | succ j => simp only [List.getD_cons_succ]; exact h4 j (by omega)
      · intro _ hsmall
        cases n with
        | zero => simp [radix2wLoop]
        | succ n =>
          apply h5 (by omega)
          rw [show i + 1 + (n + 1) - 1 = i + (n + 1 + 1) - 1 by omega]
          exact hsmall
    · rw [hcar]
      obtain ⟨h1, h2, h3, h4, h5⟩ := ih (i + 1) 1 (by omega)
      rw [e3, hq] at h3
      dsimp only
      refine ⟨by simp [h1], h2, ?_, ?_, ?_⟩
      · rw [toI8_id (by push_cast; omega) (by push_cast; omega)]
        simp only [digitSum, pow_succ]
        rw [hsplit]
        have h3' := h3
        rw [hWI] at h3' ⊢
        push_cast at h3' ⊢
        linear_combination (2 ^ w : Int) * h3'
      · intro j hj
        cases j with
        | zero =>
          simp only [List.getD_cons_zero]
          rw [toI8_id (by push_cast; omega) (by push_cast; omega), hKI]
          push_cast; omega
        | succ j => simp only [List.getD_cons_succ]; exact h4 j (by omega)
      · intro _ hsmall
        cases n with
        | zero =>
          exfalso
          simp only [Nat.zero_add, Nat.add_sub_cancel] at hsmall
          rw [ht] at hsmall
          have : m ≤ t := by rw [hsplit]; omega
          omega
        | succ n =>
          apply h5 (by omega)
          rw [show i + 1 + (n + 1) - 1 = i + (n + 1 + 1) - 1 by omega]
          exact hsmall

theorem getD_append_replicate (ds : List Int) (k j : Nat) :
    (ds ++ List.replicate k 0).getD j 0 = ds.getD j 0 := by
  simp only [List.getD_eq_getElem?_getD]
  by_cases hj : j < ds.length
  · rw [List.getElem?_append_left hj]
  · rw [List.getElem?_append_right (by omega), List.getElem?_eq_none (l := ds) (by omega),
      List.getElem?_replicate]
    split <;> rfl

theorem getD_of_length_le (ds : List Int) (j : Nat) (h : ds.length ≤ j) : ds.getD j 0 = 0 := by
  simp only [List.getD_eq_getElem?_getD, List.getElem?_eq_none h]; rfl

/-- The epilogue of `as_radix_2w` (padding to 64 digits and folding in the final carry). -/
theorem radix2w_finish (w s dc : Nat) (ds : List Int) (c : Nat) (hw1 : 1 ≤ w) (hw8 : w ≤ 8)
    (hdc1 : 1 ≤ dc) (hdc : dc < 64) (hlen : ds.length = dc) (hc : c ≤ 1)
    (hval : digitSum (2 ^ w) ds + (2 ^ w) ^ dc * ((c : Nat) : Int) = (s : Int))
    (hrange : ∀ j, j < dc → -(2 ^ (w - 1) : Int) ≤ ds.getD j 0 ∧ ds.getD j 0 < 2 ^ (w - 1))
    (hc0 : w ≠ 8 → c = 0) (out : List Int)
    (hout : out = if (w == 8) = true then
        (ds ++ List.replicate (64 - dc) 0).set dc
          (toI8 ((ds ++ List.replicate (64 - dc) 0).getD dc 0 + toI8 ((c : Nat) : Int)))
      else
        (ds ++ List.replicate (64 - dc) 0).set (dc - 1)
          (toI8 ((ds ++ List.replicate (64 - dc) 0).getD (dc - 1) 0 + toI8 ((c <<< w : Nat) : Int)))) :
    out.length = 64 ∧ digitSum (2 ^ w) out = (s : Int) ∧
    (∀ i, (if w = 8 then dc + 1 else dc) ≤ i → out.getD i 0 = 0) ∧
    (∀ j, j < dc → -(2 ^ (w - 1) : Int) ≤ out.getD j 0 ∧ out.getD j 0 < 2 ^ (w - 1)) ∧
    (w = 8 → out.getD dc 0 = ((c : Nat) : Int)) := by
  have hK128 : (2 : Int) ^ (w - 1) ≤ 2 ^ 7 := pow_le_pow_right₀ (by norm_num) (by omega)
  have hdl : (ds ++ List.replicate (64 - dc) (0 : Int)).length = 64 := by
    rw [List.length_append, List.length_replicate, hlen]; omega
  have hds : digitSum (2 ^ w) (ds ++ List.replicate (64 - dc) (0 : Int)) = digitSum (2 ^ w) ds := by
    rw [digitSum_append, digitSum_replicate_zero]; ring
  by_cases h8 : w = 8
  · subst h8
    simp only [beq_self_eq_true, if_true] at hout
    rw [getD_append_replicate, getD_of_length_le ds dc (by omega),
      toI8_id (x := ((c : Nat) : Int)) (by omega) (by omega), Int.zero_add,
      toI8_id (by omega) (by omega)] at hout
    subst hout
    refine ⟨by rw [List.length_set, hdl], ?_, ?_, ?_, ?_⟩
    · rw [digitSum_set _ _ _ _ (by omega), hds, getD_append_replicate,
        getD_of_length_le ds dc (by omega), ← hval]
      ring
    · intro i hi
      simp only [if_true] at hi
      rw [getD_set _ _ _ _ (by omega), if_neg (by omega), getD_append_replicate]
      exact getD_of_length_le ds i (by omega)
    · intro j hj
      rw [getD_set _ _ _ _ (by omega), if_neg (by omega), getD_append_replicate]
      exact hrange j hj
    · intro _
      rw [getD_set _ _ _ _ (by omega), if_pos rfl]
  · have hne : (w == 8) = false := by simpa using h8
    have hcz := hc0 h8
    subst hcz
    rw [hne] at hout
    simp only [Bool.false_eq_true, if_false, Nat.zero_shiftLeft] at hout
    have hr := hrange (dc - 1) (by omega)
    rw [getD_append_replicate, toI8_id (x := ((0 : Nat) : Int)) (by omega) (by omega),
      Nat.cast_zero, Int.add_zero, toI8_id (by omega) (by omega)] at hout
    subst hout
    refine ⟨by rw [List.length_set, hdl], ?_, ?_, ?_, ?_⟩
    · rw [digitSum_set _ _ _ _ (by omega), hds, getD_append_replicate, ← hval]
      push_cast; ring
    · intro i hi
      rw [if_neg h8] at hi
      rw [getD_set _ _ _ _ (by omega), if_neg (by omega), getD_append_replicate]
      exact getD_of_length_le ds i (by omega)
    · intro j hj
      rw [getD_set _ _ _ _ (by omega), getD_append_replicate]
      split
      · exact hr
      · exact hrange j hj
    · intro h; exact absurd h h8

/-- Result of `as_radix_2w(w)`, `w ∈ {5,6,7,8}`, on any 32-byte string (no bound on the value
needed): `dc = ⌈256/w⌉` digits in `[-2^(w-1), 2^(w-1))`, then (only for `w = 8`) one digit in
`{0,1}` holding the final carry, then zeros. -/
theorem asRadix2w_out (bytes : List UInt8) (w : Nat) (hlen : bytes.length = 32) (hw5 : 5 ≤ w)
    (hw8 : w ≤ 8) :
    (asRadix2w bytes w).length = 64 ∧
    digitSum (2 ^ w) (asRadix2w bytes w) = (leToNat bytes : Int) ∧
    (∀ i, toRadix2wSizeHint w ≤ i → (asRadix2w bytes w).getD i 0 = 0) ∧
    (∀ j, j < (256 + w - 1) / w →
      -(2 ^ (w - 1) : Int) ≤ (asRadix2w bytes w).getD j 0 ∧ (asRadix2w bytes w).getD j 0 < 2 ^ (w - 1)) ∧
    (w = 8 → (asRadix2w bytes w).getD 32 0 = 0 ∨ (asRadix2w bytes w).getD 32 0 = 1) := by
  have hs : leToNat bytes < 2 ^ 256 := by
    have := leToNat_lt bytes; rw [hlen] at this; norm_num at this ⊢; exact this
  have hX := wordsOf_read4 bytes hlen
  obtain ⟨h1, h2, h3, h4, h5⟩ :=
    radix2wLoop_spec w (leToNat bytes) _ hX (by omega) hw8 hs ((256 + w - 1) / w) 0 0 (by omega)
  have hdc : 1 ≤ (256 + w - 1) / w ∧ (256 + w - 1) / w < 64 ∧ 256 ≤ w * (0 + (256 + w - 1) / w) ∧
      (w = 8 → (256 + w - 1) / w = 32) := by
    interval_cases w <;> norm_num
  have hc0 : w ≠ 8 → (radix2wLoop w (readLeU64 4 bytes) ((256 + w - 1) / w) 0 0).2 = 0 := by
    intro h8
    apply h5 hdc.1
    interval_cases w
    · norm_num; omega
    · norm_num; omega
    · norm_num; omega
    · exact absurd rfl h8
  rw [div_pow_eq_zero_of_lt hs hdc.2.2.1] at h3
  simp only [Nat.mul_zero, pow_zero, Nat.div_one, Nat.zero_add, Nat.add_zero] at h3
  have hfin := radix2w_finish w (leToNat bytes) ((256 + w - 1) / w) _ _ (by omega) hw8 hdc.1
    hdc.2.1 h1 h2 h3 h4 hc0 (asRadix2w bytes w) (by
      unfold asRadix2w
      have h4' : (w == 4) = false := by simp; omega
      rw [h4']
      simp only [Bool.false_eq_true, if_false, Int.ofNat_eq_natCast])
  obtain ⟨f1, f2, f3, f4, f5⟩ := hfin
  refine ⟨f1, f2, ?_, f4, ?_⟩
  · intro i hi
    apply f3
    unfold toRadix2wSizeHint at hi
    by_cases h8 : w = 8
    · rw [if_pos h8]; subst h8; simpa using hi
    · rw [if_neg h8]
      have hne : (w == 8) = false := by simpa using h8
      rw [hne] at hi; simpa using hi
  · intro h8
    subst h8
    have h32 := f5 rfl
    have e : (256 + 8 - 1) / 8 = 32 := by norm_num
    rw [e] at h32 h2
    rw [h32]
    omega

end Dalek.Proofs.Recode

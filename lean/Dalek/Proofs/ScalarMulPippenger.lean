/-
C04 layer 2, helper lemmas (part 3): Pippenger's bucket method at DIGIT level, over an arbitrary commutative
group: bucket accumulation (`pippengerBuckets`), the running sums (`pippengerRunningSum`), the column
recombination, and the `zip`/`collect` plumbing.
-/
import Dalek.Proofs.ScalarMulMulti

namespace Dalek.Proofs.ScalarMul
open Dalek.Model.ScalarMul Dalek.Model.Recode

variable {G : Type} [AddCommGroup G]

/-- weighted bucket sum `Σ_{b<n} (b+1) • buckets[b]` -/
def bucketWeight (n : ℕ) (bk : List G) : G := ∑ b ∈ Finset.range n, ((b : ℤ) + 1) • bk.getD b 0

omit [AddCommGroup G] in
theorem getD_set_eq (l : List G) (i j : ℕ) (v d : G) (hi : i < l.length) :
    (l.set i v).getD j d = if j = i then v else l.getD j d := by
  simp only [List.getD_eq_getElem?_getD, List.getElem?_set]
  by_cases h : i = j
  · subst h; simp [hi]
  · rw [if_neg h, if_neg (Ne.symm h)]

theorem bucketWeight_set (n : ℕ) (bk : List G) (b : ℕ) (v : G) (hlen : bk.length = n) (hb : b < n) :
    bucketWeight n (bk.set b v) = bucketWeight n bk + ((b : ℤ) + 1) • (v - bk.getD b 0) := by
  unfold bucketWeight
  have : ∀ j, (bk.set b v).getD j 0 = bk.getD j 0 + (if j = b then v - bk.getD b 0 else 0) := by
    intro j
    rw [getD_set_eq _ _ _ _ _ (by omega)]
    by_cases h : j = b
    · subst h; simp
    · simp [h]
  simp only [this, smul_add, Finset.sum_add_distrib, smul_ite, smul_zero]
  rw [Finset.sum_ite_eq' (Finset.range n) b, if_pos (Finset.mem_range.2 hb)]

theorem bucketWeight_replicate_zero (n : ℕ) : bucketWeight n (List.replicate n (0 : G)) = 0 := by
  unfold bucketWeight
  refine Finset.sum_eq_zero fun b hb => ?_
  rw [Finset.mem_range] at hb
  rw [List.getD_eq_getElem _ _ (by simpa using hb)]
  simp

/-- one step of the bucket accumulation (the body of `for (digits, pt) in scalars_points.iter()`) -/
def bucketStep (idx : ℕ) (bk : List G) (dp : List ℤ × G) : List G :=
  let digit := dp.1.getD idx 0
  if digit > 0 then
    let b := (digit - 1).toNat
    bk.set b ((groupOps : PointOps G).add (bk.getD b (groupOps : PointOps G).zero) dp.2)
  else if digit < 0 then
    let b := (-digit - 1).toNat
    bk.set b ((groupOps : PointOps G).sub (bk.getD b (groupOps : PointOps G).zero) dp.2)
  else bk

theorem pippengerBuckets_eq_fold (n idx : ℕ) (sp : List (List ℤ × G)) :
    pippengerBuckets groupOps n sp idx = sp.foldl (bucketStep idx) (List.replicate n 0) := rfl

theorem bucketStep_spec (n idx : ℕ) (bk : List G) (dp : List ℤ × G) (hlen : bk.length = n)
    (hd : -(n : ℤ) ≤ dp.1.getD idx 0 ∧ dp.1.getD idx 0 ≤ n) :
    (bucketStep idx bk dp).length = n ∧
      bucketWeight n (bucketStep idx bk dp) = bucketWeight n bk + dp.1.getD idx 0 • dp.2 := by
  unfold bucketStep
  simp only [groupOps_add, groupOps_sub, groupOps_zero, gt_iff_lt]
  rcases lt_trichotomy (dp.1.getD idx 0) 0 with hneg | h0 | hpos
  · have hb : (-dp.1.getD idx 0 - 1).toNat < n := by omega
    rw [if_neg (not_lt.2 hneg.le), if_pos hneg]
    refine ⟨by rw [List.length_set]; exact hlen, ?_⟩
    rw [bucketWeight_set n bk _ _ hlen hb]
    have : (((-dp.1.getD idx 0 - 1).toNat : ℕ) : ℤ) + 1 = -dp.1.getD idx 0 := by omega
    rw [this]
    module
  · rw [h0]; simp [hlen]
  · have hb : (dp.1.getD idx 0 - 1).toNat < n := by omega
    rw [if_pos hpos]
    refine ⟨by rw [List.length_set]; exact hlen, ?_⟩
    rw [bucketWeight_set n bk _ _ hlen hb]
    have : (((dp.1.getD idx 0 - 1).toNat : ℕ) : ℤ) + 1 = dp.1.getD idx 0 := by omega
    rw [this]
    module

/-- The bucket accumulation of one column, started from arbitrary buckets. -/
theorem buckets_fold (n : ℕ) (idx : ℕ) (sp : List (List ℤ × G)) (bk0 : List G) (hlen : bk0.length = n)
    (hd : ∀ dp ∈ sp, -(n : ℤ) ≤ dp.1.getD idx 0 ∧ dp.1.getD idx 0 ≤ n) :
    (sp.foldl (bucketStep idx) bk0).length = n ∧
      bucketWeight n (sp.foldl (bucketStep idx) bk0)
        = bucketWeight n bk0 + (sp.map fun dp => dp.1.getD idx 0 • dp.2).sum := by
  induction sp generalizing bk0 with
  | nil => simp [hlen]
  | cons dp sp ih =>
    obtain ⟨s1, s2⟩ := bucketStep_spec n idx bk0 dp hlen (hd dp (by simp))
    obtain ⟨l1, l2⟩ := ih _ s1 (fun x hx => hd x (by simp [hx]))
    rw [List.foldl_cons, List.map_cons, List.sum_cons]
    refine ⟨l1, ?_⟩
    rw [l2, s2]; abel

theorem pippengerBuckets_weight (n idx : ℕ) (sp : List (List ℤ × G))
    (hd : ∀ dp ∈ sp, -(n : ℤ) ≤ dp.1.getD idx 0 ∧ dp.1.getD idx 0 ≤ n) :
    bucketWeight n (pippengerBuckets groupOps n sp idx) = (sp.map fun dp => dp.1.getD idx 0 • dp.2).sum := by
  have := (buckets_fold n idx sp (List.replicate n 0) (by simp) hd).2
  rw [bucketWeight_replicate_zero, zero_add] at this
  rw [pippengerBuckets_eq_fold]
  exact this

/-- the running-sum loop from an arbitrary state -/
theorem running_fold (bk : List G) (k : ℕ) (I S : G) :
    (List.range k).reverse.foldl
      (fun (st : G × G) i => (st.1 + bk.getD i 0, st.2 + (st.1 + bk.getD i 0))) (I, S)
      = (I + ∑ t ∈ Finset.range k, bk.getD t 0,
         S + (k : ℤ) • I + ∑ t ∈ Finset.range k, ((t : ℤ) + 1) • bk.getD t 0) := by
  induction k generalizing I S with
  | zero => simp
  | succ k ih =>
    rw [range_succ_reverse, List.foldl_cons]
    simp only
    rw [ih, Finset.sum_range_succ, Finset.sum_range_succ]
    refine Prod.ext ?_ ?_
    · simp only; abel
    · simp only; push_cast; module

/-- the running sums compute the weighted bucket sum -/
theorem pippengerRunningSum_eq (n : ℕ) (hn : 1 ≤ n) (bk : List G) :
    pippengerRunningSum groupOps n bk = bucketWeight n bk := by
  unfold pippengerRunningSum bucketWeight
  simp only [groupOps_add, groupOps_zero]
  rw [running_fold]
  obtain ⟨m, rfl⟩ : ∃ m, n = m + 1 := ⟨n - 1, by omega⟩
  simp only [Nat.add_sub_cancel]
  rw [Finset.sum_range_succ]
  module

theorem pippengerColumn_eq (n idx : ℕ) (hn : 1 ≤ n) (sp : List (List ℤ × G))
    (hd : ∀ dp ∈ sp, -(n : ℤ) ≤ dp.1.getD idx 0 ∧ dp.1.getD idx 0 ≤ n) :
    pippengerColumn groupOps n sp idx = (sp.map fun dp => dp.1.getD idx 0 • dp.2).sum := by
  rw [pippengerColumn, pippengerRunningSum_eq n hn, pippengerBuckets_weight n idx sp hd]

/-- index safety of the bucket accesses: for a digit in `[-n, n]`, `n = buckets_count`, the index
`|digit| - 1` is in bounds (no panic). -/
theorem pippenger_index_ok {n : ℕ} {d : ℤ} (hlo : -(n : ℤ) ≤ d) (hhi : d ≤ n) :
    (0 < d → (d - 1).toNat < n) ∧ (d < 0 → (-d - 1).toNat < n) := by
  constructor <;> intro _ <;> omega

/-- digit hypotheses for Pippenger: the digits of `as_radix_2w(w)` beyond `to_radix_2w_size_hint(w)` vanish and
all digits lie in `[-2^(w-1), 2^(w-1)]`. -/
structure PipDigits (w : ℕ) (d : List ℤ) : Prop where
  zero : ∀ i, toRadix2wSizeHint w ≤ i → d.getD i 0 = 0
  lo : ∀ i, -(2 ^ (w - 1) : ℤ) ≤ d.getD i 0
  hi : ∀ i, d.getD i 0 ≤ 2 ^ (w - 1)

theorem shl_half (w : ℕ) (hw : 1 ≤ w) : (1 <<< w) / 2 = 2 ^ (w - 1) := by
  obtain ⟨k, rfl⟩ : ∃ k, w = k + 1 := ⟨w - 1, by omega⟩
  rw [Nat.shiftLeft_eq, one_mul, pow_succ]
  simp

/-- the column recombination and the whole algorithm for already collected `(digits, point)` pairs -/
theorem pippenger_columns (w : ℕ) (hw : 1 ≤ w) (h1 : 1 ≤ toRadix2wSizeHint w)
    (h64 : toRadix2wSizeHint w ≤ 64) (sp : List (List ℤ × G)) (hd : ∀ dp ∈ sp, PipDigits w dp.1) :
    (match (List.range (toRadix2wSizeHint w)).reverse.map (pippengerColumn groupOps ((1 <<< w) / 2) sp) with
      | [] => some (groupOps : PointOps G).zero
      | hi :: rest => some (rest.foldl
          (fun total p => (groupOps : PointOps G).add (mulByPow2 groupOps w total) p) hi))
      = some (sp.map fun dp => digVal w 64 dp.1 • dp.2).sum := by
  obtain ⟨m, hm⟩ : ∃ m, toRadix2wSizeHint w = m + 1 := ⟨toRadix2wSizeHint w - 1, by omega⟩
  rw [hm, range_succ_reverse, List.map_cons]
  simp only [List.foldl_map, groupOps_add, mulByPow2_eq, Option.some.injEq]
  have hcol : ∀ idx, pippengerColumn groupOps ((1 <<< w) / 2) sp idx
      = (sp.map fun dp => dp.1.getD idx 0 • dp.2).sum := by
    intro idx
    rw [shl_half w hw]
    refine pippengerColumn_eq _ idx (Nat.one_le_two_pow) sp fun dp hdp => ?_
    have := (hd dp hdp).lo idx
    have := (hd dp hdp).hi idx
    push_cast
    constructor <;> assumption
  simp only [hcol]
  rw [horner_fold]
  have : ((2 : ℤ) ^ (w * m)) • (sp.map fun dp => dp.1.getD m 0 • dp.2).sum +
      ∑ i ∈ Finset.range m, ((2 : ℤ) ^ (w * i)) • (sp.map fun dp => dp.1.getD i 0 • dp.2).sum
      = ∑ i ∈ Finset.range (m + 1), ((2 : ℤ) ^ (w * i)) • (sp.map fun dp => dp.1.getD i 0 • dp.2).sum := by
    rw [Finset.sum_range_succ]; abel
  rw [this, sum_smul_list_sum]
  congr 1
  refine List.map_congr_left fun dp hdp => ?_
  rw [sum_smul_smul]
  congr 1
  unfold digVal
  refine Finset.sum_subset (Finset.range_subset_range.2 (by omega)) fun i _ hi => ?_
  rw [Finset.mem_range, not_lt] at hi
  rw [(hd dp hdp).zero i (by omega), zero_mul]

/-- the `zip`/`map`/`collect` plumbing of Pippenger -/
def zipCollect {α : Type} (ds : List α) (ps : List (Option G)) : Option (List (α × G)) :=
  collectOption ((List.zip ds ps).map fun sp => sp.2.map fun p => (sp.1, p))

omit [AddCommGroup G] in
theorem zipCollect_some {α : Type} (ds : List α) (ps : List G) :
    zipCollect ds (ps.map some) = some (List.zip ds ps) := by
  unfold zipCollect
  induction ds generalizing ps with
  | nil => simp [collectOption]
  | cons d ds ih =>
    cases ps with
    | nil => simp [collectOption]
    | cons p ps => simp [collectOption, ih]

omit [AddCommGroup G] in
theorem zipCollect_eq_none_iff {α : Type} (ds : List α) (ps : List (Option G)) :
    zipCollect ds ps = none ↔ none ∈ ps.take ds.length := by
  unfold zipCollect
  induction ds generalizing ps with
  | nil => simp [collectOption]
  | cons d ds ih =>
    cases ps with
    | nil => simp [collectOption]
    | cons p ps =>
      cases p with
      | none => simp [collectOption]
      | some p => simp [collectOption, ih]

omit [AddCommGroup G] in
theorem zipCollect_mem {α : Type} {ds : List α} {ps : List (Option G)} {sp : List (α × G)}
    (h : zipCollect ds ps = some sp) : ∀ dp ∈ sp, dp.1 ∈ ds := by
  unfold zipCollect at h
  induction ds generalizing ps sp with
  | nil => simp [collectOption] at h; subst h; simp
  | cons d ds ih =>
    cases ps with
    | nil => simp [collectOption] at h; subst h; simp
    | cons p ps =>
      cases p with
      | none => simp [collectOption] at h
      | some p =>
        simp only [List.zip_cons_cons, List.map_cons, Option.map_some, collectOption,
          Option.map_eq_some_iff] at h
        obtain ⟨r, hr, rfl⟩ := h
        intro dp hdp
        rcases List.mem_cons.1 hdp with rfl | hdp
        · simp
        · exact List.mem_cons_of_mem _ (ih hr dp hdp)

/-- `Pippenger::optional_multiscalar_mul`, digit level. -/
theorem pippenger_eq (w : ℕ) (hw : 1 ≤ w) (h1 : 1 ≤ toRadix2wSizeHint w) (h64 : toRadix2wSizeHint w ≤ 64)
    (digits : List (List ℤ)) (points : List (Option G)) (hd : ∀ d ∈ digits, PipDigits w d) :
    pippenger groupOps w digits points
      = (zipCollect digits points).map fun sp => (sp.map fun dp => digVal w 64 dp.1 • dp.2).sum := by
  unfold pippenger
  simp only
  change (match zipCollect digits points with | none => none | some sp => _) = _
  cases hc : zipCollect digits points with
  | none => rfl
  | some sp =>
    simp only [Option.map_some]
    exact pippenger_columns w hw h1 h64 sp fun dp hdp => hd _ (zipCollect_mem hc dp hdp)

end Dalek.Proofs.ScalarMul

import Dalek.Proofs.AlgRefine26
import Dalek.Proofs.AlgBoundsInv
/-!
# Every translated formula passes the contract-composition check (`Sig.refOk`), hence refines its field-level meaning

One cheap `decide +kernel` per formula and backend (only inclusion tests and the analysis of the small `add` kernel),
against the SAME table of type invariants `sigs` as the C11 theorems.  Helper of `Dalek/Props/C05/Refinement.lean`.
-/
namespace Dalek.Proofs.AlgRefine
open Dalek.Model.AlgBounds Dalek.Props.C11.Formulas

theorem Curve_ProjectivePoint_identity_refOk51 : Sig.refOk B51 C51 (sig_Curve_ProjectivePoint_identity I51) = true := by decide +kernel
theorem Curve_ProjectiveNielsPoint_identity_refOk51 : Sig.refOk B51 C51 (sig_Curve_ProjectiveNielsPoint_identity I51) = true := by decide +kernel
theorem Curve_AffineNielsPoint_identity_refOk51 : Sig.refOk B51 C51 (sig_Curve_AffineNielsPoint_identity I51) = true := by decide +kernel
theorem Curve_ProjectivePoint_is_valid_refOk51 : Sig.refOk B51 C51 (sig_Curve_ProjectivePoint_is_valid I51) = true := by decide +kernel
theorem Curve_ProjectiveNielsPoint_conditional_select_refOk51 : Sig.refOk B51 C51 (sig_Curve_ProjectiveNielsPoint_conditional_select I51) = true := by decide +kernel
theorem Curve_ProjectiveNielsPoint_conditional_assign_refOk51 : Sig.refOk B51 C51 (sig_Curve_ProjectiveNielsPoint_conditional_assign I51) = true := by decide +kernel
theorem Curve_AffineNielsPoint_conditional_select_refOk51 : Sig.refOk B51 C51 (sig_Curve_AffineNielsPoint_conditional_select I51) = true := by decide +kernel
theorem Curve_AffineNielsPoint_conditional_assign_refOk51 : Sig.refOk B51 C51 (sig_Curve_AffineNielsPoint_conditional_assign I51) = true := by decide +kernel
theorem Curve_ProjectivePoint_as_extended_refOk51 : Sig.refOk B51 C51 (sig_Curve_ProjectivePoint_as_extended I51) = true := by decide +kernel
theorem Curve_CompletedPoint_as_projective_refOk51 : Sig.refOk B51 C51 (sig_Curve_CompletedPoint_as_projective I51) = true := by decide +kernel
theorem Curve_CompletedPoint_as_extended_refOk51 : Sig.refOk B51 C51 (sig_Curve_CompletedPoint_as_extended I51) = true := by decide +kernel
theorem Curve_ProjectivePoint_double_refOk51 : Sig.refOk B51 C51 (sig_Curve_ProjectivePoint_double I51) = true := by decide +kernel
theorem Curve_add_ProjectiveNielsPoint_refOk51 : Sig.refOk B51 C51 (sig_Curve_add_ProjectiveNielsPoint I51) = true := by decide +kernel
theorem Curve_sub_ProjectiveNielsPoint_refOk51 : Sig.refOk B51 C51 (sig_Curve_sub_ProjectiveNielsPoint I51) = true := by decide +kernel
theorem Curve_add_AffineNielsPoint_refOk51 : Sig.refOk B51 C51 (sig_Curve_add_AffineNielsPoint I51) = true := by decide +kernel
theorem Curve_sub_AffineNielsPoint_refOk51 : Sig.refOk B51 C51 (sig_Curve_sub_AffineNielsPoint I51) = true := by decide +kernel
theorem Curve_ProjectiveNielsPoint_neg_refOk51 : Sig.refOk B51 C51 (sig_Curve_ProjectiveNielsPoint_neg I51) = true := by decide +kernel
theorem Curve_AffineNielsPoint_neg_refOk51 : Sig.refOk B51 C51 (sig_Curve_AffineNielsPoint_neg I51) = true := by decide +kernel
theorem Edwards_decompress_step_1_refOk51 : Sig.refOk B51 C51 (sig_Edwards_decompress_step_1 I51) = true := by decide +kernel
theorem Edwards_decompress_step_2_refOk51 : Sig.refOk B51 C51 (sig_Edwards_decompress_step_2 I51) = true := by decide +kernel
theorem Edwards_compress_refOk51 : Sig.refOk B51 C51 (sig_Edwards_compress I51) = true := by decide +kernel
theorem Edwards_to_montgomery_refOk51 : Sig.refOk B51 C51 (sig_Edwards_to_montgomery I51) = true := by decide +kernel
theorem Edwards_as_projective_niels_refOk51 : Sig.refOk B51 C51 (sig_Edwards_as_projective_niels I51) = true := by decide +kernel
theorem Edwards_as_projective_refOk51 : Sig.refOk B51 C51 (sig_Edwards_as_projective I51) = true := by decide +kernel
theorem Edwards_as_affine_niels_refOk51 : Sig.refOk B51 C51 (sig_Edwards_as_affine_niels I51) = true := by decide +kernel
theorem Edwards_identity_refOk51 : Sig.refOk B51 C51 (sig_Edwards_identity I51) = true := by decide +kernel
theorem Edwards_ct_eq_refOk51 : Sig.refOk B51 C51 (sig_Edwards_ct_eq I51) = true := by decide +kernel
theorem Edwards_conditional_select_refOk51 : Sig.refOk B51 C51 (sig_Edwards_conditional_select I51) = true := by decide +kernel
theorem Edwards_neg_refOk51 : Sig.refOk B51 C51 (sig_Edwards_neg I51) = true := by decide +kernel
theorem Edwards_double_refOk51 : Sig.refOk B51 C51 (sig_Edwards_double I51) = true := by decide +kernel
theorem Edwards_add_refOk51 : Sig.refOk B51 C51 (sig_Edwards_add I51) = true := by decide +kernel
theorem Edwards_sub_refOk51 : Sig.refOk B51 C51 (sig_Edwards_sub I51) = true := by decide +kernel
theorem Edwards_is_valid_refOk51 : Sig.refOk B51 C51 (sig_Edwards_is_valid I51) = true := by decide +kernel
theorem Montgomery_differential_add_and_double_refOk51 : Sig.refOk B51 C51 (sig_Montgomery_differential_add_and_double I51) = true := by decide +kernel
theorem Montgomery_ProjectivePoint_identity_refOk51 : Sig.refOk B51 C51 (sig_Montgomery_ProjectivePoint_identity I51) = true := by decide +kernel
theorem Montgomery_ProjectivePoint_conditional_select_refOk51 : Sig.refOk B51 C51 (sig_Montgomery_ProjectivePoint_conditional_select I51) = true := by decide +kernel
theorem Montgomery_ProjectivePoint_as_affine_refOk51 : Sig.refOk B51 C51 (sig_Montgomery_ProjectivePoint_as_affine I51) = true := by decide +kernel
theorem Montgomery_to_edwards_refOk51 : Sig.refOk B51 C51 (sig_Montgomery_to_edwards I51) = true := by decide +kernel
theorem Montgomery_elligator_encode_refOk51 : Sig.refOk B51 C51 (sig_Montgomery_elligator_encode I51) = true := by decide +kernel
theorem Montgomery_ct_eq_refOk51 : Sig.refOk B51 C51 (sig_Montgomery_ct_eq I51) = true := by decide +kernel
theorem Ristretto_decompress_step_2_refOk51 : Sig.refOk B51 C51 (sig_Ristretto_decompress_step_2 I51) = true := by decide +kernel
theorem Ristretto_compress_refOk51 : Sig.refOk B51 C51 (sig_Ristretto_compress I51) = true := by decide +kernel
theorem Ristretto_elligator_ristretto_flavor_refOk51 : Sig.refOk B51 C51 (sig_Ristretto_elligator_ristretto_flavor I51) = true := by decide +kernel
theorem Ristretto_ct_eq_refOk51 : Sig.refOk B51 C51 (sig_Ristretto_ct_eq I51) = true := by decide +kernel
theorem Ristretto_batch_state_from_refOk51 : Sig.refOk B51 C51 (sig_Ristretto_batch_state_from I51) = true := by decide +kernel
theorem Ristretto_batch_compress_closure_refOk51 : Sig.refOk B51 C51 (sig_Ristretto_batch_compress_closure I51) = true := by decide +kernel
theorem Field_pow22501_refOk51 : Sig.refOk B51 C51 (sig_Field_pow22501 I51) = true := by decide +kernel
theorem Field_pow_p58_refOk51 : Sig.refOk B51 C51 (sig_Field_pow_p58 I51) = true := by decide +kernel
theorem Field_invert_refOk51 : Sig.refOk B51 C51 (sig_Field_invert I51) = true := by decide +kernel
theorem Field_sqrt_ratio_i_refOk51 : Sig.refOk B51 C51 (sig_Field_sqrt_ratio_i I51) = true := by decide +kernel
theorem Field_invsqrt_refOk51 : Sig.refOk B51 C51 (sig_Field_invsqrt I51) = true := by decide +kernel

theorem all_refOk51 : ∀ s ∈ sigs I51, Sig.refOk B51 C51 s = true := by
  intro s hs
  simp only [sigs, List.mem_cons, List.mem_nil_iff, or_false] at hs
  rcases hs with rfl | rfl | rfl | rfl | rfl | rfl | rfl | rfl | rfl | rfl | rfl | rfl | rfl | rfl | rfl | rfl | rfl | rfl | rfl | rfl | rfl | rfl | rfl | rfl | rfl | rfl | rfl | rfl | rfl | rfl | rfl | rfl | rfl | rfl | rfl | rfl | rfl | rfl | rfl | rfl | rfl | rfl | rfl | rfl | rfl | rfl | rfl | rfl | rfl | rfl | rfl
  · exact Curve_ProjectivePoint_identity_refOk51
  · exact Curve_ProjectiveNielsPoint_identity_refOk51
  · exact Curve_AffineNielsPoint_identity_refOk51
  · exact Curve_ProjectivePoint_is_valid_refOk51
  · exact Curve_ProjectiveNielsPoint_conditional_select_refOk51
  · exact Curve_ProjectiveNielsPoint_conditional_assign_refOk51
  · exact Curve_AffineNielsPoint_conditional_select_refOk51
  · exact Curve_AffineNielsPoint_conditional_assign_refOk51
  · exact Curve_ProjectivePoint_as_extended_refOk51
  · exact Curve_CompletedPoint_as_projective_refOk51
  · exact Curve_CompletedPoint_as_extended_refOk51
  · exact Curve_ProjectivePoint_double_refOk51
  · exact Curve_add_ProjectiveNielsPoint_refOk51
  · exact Curve_sub_ProjectiveNielsPoint_refOk51
  · exact Curve_add_AffineNielsPoint_refOk51
  · exact Curve_sub_AffineNielsPoint_refOk51
  · exact Curve_ProjectiveNielsPoint_neg_refOk51
  · exact Curve_AffineNielsPoint_neg_refOk51
  · exact Edwards_decompress_step_1_refOk51
  · exact Edwards_decompress_step_2_refOk51
  · exact Edwards_compress_refOk51
  · exact Edwards_to_montgomery_refOk51
  · exact Edwards_as_projective_niels_refOk51
  · exact Edwards_as_projective_refOk51
  · exact Edwards_as_affine_niels_refOk51
  · exact Edwards_identity_refOk51
  · exact Edwards_ct_eq_refOk51
  · exact Edwards_conditional_select_refOk51
  · exact Edwards_neg_refOk51
  · exact Edwards_double_refOk51
  · exact Edwards_add_refOk51
  · exact Edwards_sub_refOk51
  · exact Edwards_is_valid_refOk51
  · exact Montgomery_differential_add_and_double_refOk51
  · exact Montgomery_ProjectivePoint_identity_refOk51
  · exact Montgomery_ProjectivePoint_conditional_select_refOk51
  · exact Montgomery_ProjectivePoint_as_affine_refOk51
  · exact Montgomery_to_edwards_refOk51
  · exact Montgomery_elligator_encode_refOk51
  · exact Montgomery_ct_eq_refOk51
  · exact Ristretto_decompress_step_2_refOk51
  · exact Ristretto_compress_refOk51
  · exact Ristretto_elligator_ristretto_flavor_refOk51
  · exact Ristretto_ct_eq_refOk51
  · exact Ristretto_batch_state_from_refOk51
  · exact Ristretto_batch_compress_closure_refOk51
  · exact Field_pow22501_refOk51
  · exact Field_pow_p58_refOk51
  · exact Field_invert_refOk51
  · exact Field_sqrt_ratio_i_refOk51
  · exact Field_invsqrt_refOk51

theorem Curve_ProjectivePoint_identity_refOk26 : Sig.refOk B26 C26 (sig_Curve_ProjectivePoint_identity I26) = true := by decide +kernel
theorem Curve_ProjectiveNielsPoint_identity_refOk26 : Sig.refOk B26 C26 (sig_Curve_ProjectiveNielsPoint_identity I26) = true := by decide +kernel
theorem Curve_AffineNielsPoint_identity_refOk26 : Sig.refOk B26 C26 (sig_Curve_AffineNielsPoint_identity I26) = true := by decide +kernel
theorem Curve_ProjectivePoint_is_valid_refOk26 : Sig.refOk B26 C26 (sig_Curve_ProjectivePoint_is_valid I26) = true := by decide +kernel
theorem Curve_ProjectiveNielsPoint_conditional_select_refOk26 : Sig.refOk B26 C26 (sig_Curve_ProjectiveNielsPoint_conditional_select I26) = true := by decide +kernel
theorem Curve_ProjectiveNielsPoint_conditional_assign_refOk26 : Sig.refOk B26 C26 (sig_Curve_ProjectiveNielsPoint_conditional_assign I26) = true := by decide +kernel
theorem Curve_AffineNielsPoint_conditional_select_refOk26 : Sig.refOk B26 C26 (sig_Curve_AffineNielsPoint_conditional_select I26) = true := by decide +kernel
theorem Curve_AffineNielsPoint_conditional_assign_refOk26 : Sig.refOk B26 C26 (sig_Curve_AffineNielsPoint_conditional_assign I26) = true := by decide +kernel
theorem Curve_ProjectivePoint_as_extended_refOk26 : Sig.refOk B26 C26 (sig_Curve_ProjectivePoint_as_extended I26) = true := by decide +kernel
theorem Curve_CompletedPoint_as_projective_refOk26 : Sig.refOk B26 C26 (sig_Curve_CompletedPoint_as_projective I26) = true := by decide +kernel
theorem Curve_CompletedPoint_as_extended_refOk26 : Sig.refOk B26 C26 (sig_Curve_CompletedPoint_as_extended I26) = true := by decide +kernel
theorem Curve_ProjectivePoint_double_refOk26 : Sig.refOk B26 C26 (sig_Curve_ProjectivePoint_double I26) = true := by decide +kernel
theorem Curve_add_ProjectiveNielsPoint_refOk26 : Sig.refOk B26 C26 (sig_Curve_add_ProjectiveNielsPoint I26) = true := by decide +kernel
theorem Curve_sub_ProjectiveNielsPoint_refOk26 : Sig.refOk B26 C26 (sig_Curve_sub_ProjectiveNielsPoint I26) = true := by decide +kernel
theorem Curve_add_AffineNielsPoint_refOk26 : Sig.refOk B26 C26 (sig_Curve_add_AffineNielsPoint I26) = true := by decide +kernel
theorem Curve_sub_AffineNielsPoint_refOk26 : Sig.refOk B26 C26 (sig_Curve_sub_AffineNielsPoint I26) = true := by decide +kernel
theorem Curve_ProjectiveNielsPoint_neg_refOk26 : Sig.refOk B26 C26 (sig_Curve_ProjectiveNielsPoint_neg I26) = true := by decide +kernel
theorem Curve_AffineNielsPoint_neg_refOk26 : Sig.refOk B26 C26 (sig_Curve_AffineNielsPoint_neg I26) = true := by decide +kernel
theorem Edwards_decompress_step_1_refOk26 : Sig.refOk B26 C26 (sig_Edwards_decompress_step_1 I26) = true := by decide +kernel
theorem Edwards_decompress_step_2_refOk26 : Sig.refOk B26 C26 (sig_Edwards_decompress_step_2 I26) = true := by decide +kernel
theorem Edwards_compress_refOk26 : Sig.refOk B26 C26 (sig_Edwards_compress I26) = true := by decide +kernel
theorem Edwards_to_montgomery_refOk26 : Sig.refOk B26 C26 (sig_Edwards_to_montgomery I26) = true := by decide +kernel
theorem Edwards_as_projective_niels_refOk26 : Sig.refOk B26 C26 (sig_Edwards_as_projective_niels I26) = true := by decide +kernel
theorem Edwards_as_projective_refOk26 : Sig.refOk B26 C26 (sig_Edwards_as_projective I26) = true := by decide +kernel
theorem Edwards_as_affine_niels_refOk26 : Sig.refOk B26 C26 (sig_Edwards_as_affine_niels I26) = true := by decide +kernel
theorem Edwards_identity_refOk26 : Sig.refOk B26 C26 (sig_Edwards_identity I26) = true := by decide +kernel
theorem Edwards_ct_eq_refOk26 : Sig.refOk B26 C26 (sig_Edwards_ct_eq I26) = true := by decide +kernel
theorem Edwards_conditional_select_refOk26 : Sig.refOk B26 C26 (sig_Edwards_conditional_select I26) = true := by decide +kernel
theorem Edwards_neg_refOk26 : Sig.refOk B26 C26 (sig_Edwards_neg I26) = true := by decide +kernel
theorem Edwards_double_refOk26 : Sig.refOk B26 C26 (sig_Edwards_double I26) = true := by decide +kernel
theorem Edwards_add_refOk26 : Sig.refOk B26 C26 (sig_Edwards_add I26) = true := by decide +kernel
theorem Edwards_sub_refOk26 : Sig.refOk B26 C26 (sig_Edwards_sub I26) = true := by decide +kernel
theorem Edwards_is_valid_refOk26 : Sig.refOk B26 C26 (sig_Edwards_is_valid I26) = true := by decide +kernel
theorem Montgomery_differential_add_and_double_refOk26 : Sig.refOk B26 C26 (sig_Montgomery_differential_add_and_double I26) = true := by decide +kernel
theorem Montgomery_ProjectivePoint_identity_refOk26 : Sig.refOk B26 C26 (sig_Montgomery_ProjectivePoint_identity I26) = true := by decide +kernel
theorem Montgomery_ProjectivePoint_conditional_select_refOk26 : Sig.refOk B26 C26 (sig_Montgomery_ProjectivePoint_conditional_select I26) = true := by decide +kernel
theorem Montgomery_ProjectivePoint_as_affine_refOk26 : Sig.refOk B26 C26 (sig_Montgomery_ProjectivePoint_as_affine I26) = true := by decide +kernel
theorem Montgomery_to_edwards_refOk26 : Sig.refOk B26 C26 (sig_Montgomery_to_edwards I26) = true := by decide +kernel
theorem Montgomery_elligator_encode_refOk26 : Sig.refOk B26 C26 (sig_Montgomery_elligator_encode I26) = true := by decide +kernel
theorem Montgomery_ct_eq_refOk26 : Sig.refOk B26 C26 (sig_Montgomery_ct_eq I26) = true := by decide +kernel
theorem Ristretto_decompress_step_2_refOk26 : Sig.refOk B26 C26 (sig_Ristretto_decompress_step_2 I26) = true := by decide +kernel
theorem Ristretto_compress_refOk26 : Sig.refOk B26 C26 (sig_Ristretto_compress I26) = true := by decide +kernel
theorem Ristretto_elligator_ristretto_flavor_refOk26 : Sig.refOk B26 C26 (sig_Ristretto_elligator_ristretto_flavor I26) = true := by decide +kernel
theorem Ristretto_ct_eq_refOk26 : Sig.refOk B26 C26 (sig_Ristretto_ct_eq I26) = true := by decide +kernel
theorem Ristretto_batch_state_from_refOk26 : Sig.refOk B26 C26 (sig_Ristretto_batch_state_from I26) = true := by decide +kernel
theorem Ristretto_batch_compress_closure_refOk26 : Sig.refOk B26 C26 (sig_Ristretto_batch_compress_closure I26) = true := by decide +kernel
theorem Field_pow22501_refOk26 : Sig.refOk B26 C26 (sig_Field_pow22501 I26) = true := by decide +kernel
theorem Field_pow_p58_refOk26 : Sig.refOk B26 C26 (sig_Field_pow_p58 I26) = true := by decide +kernel
theorem Field_invert_refOk26 : Sig.refOk B26 C26 (sig_Field_invert I26) = true := by decide +kernel
theorem Field_sqrt_ratio_i_refOk26 : Sig.refOk B26 C26 (sig_Field_sqrt_ratio_i I26) = true := by decide +kernel
theorem Field_invsqrt_refOk26 : Sig.refOk B26 C26 (sig_Field_invsqrt I26) = true := by decide +kernel

theorem all_refOk26 : ∀ s ∈ sigs I26, Sig.refOk B26 C26 s = true := by
  intro s hs
  simp only [sigs, List.mem_cons, List.mem_nil_iff, or_false] at hs
  rcases hs with rfl | rfl | rfl | rfl | rfl | rfl | rfl | rfl | rfl | rfl | rfl | rfl | rfl | rfl | rfl | rfl | rfl | rfl | rfl | rfl | rfl | rfl | rfl | rfl | rfl | rfl | rfl | rfl | rfl | rfl | rfl | rfl | rfl | rfl | rfl | rfl | rfl | rfl | rfl | rfl | rfl | rfl | rfl | rfl | rfl | rfl | rfl | rfl | rfl | rfl | rfl
  · exact Curve_ProjectivePoint_identity_refOk26
  · exact Curve_ProjectiveNielsPoint_identity_refOk26
  · exact Curve_AffineNielsPoint_identity_refOk26
  · exact Curve_ProjectivePoint_is_valid_refOk26
  · exact Curve_ProjectiveNielsPoint_conditional_select_refOk26
  · exact Curve_ProjectiveNielsPoint_conditional_assign_refOk26
  · exact Curve_AffineNielsPoint_conditional_select_refOk26
  · exact Curve_AffineNielsPoint_conditional_assign_refOk26
  · exact Curve_ProjectivePoint_as_extended_refOk26
  · exact Curve_CompletedPoint_as_projective_refOk26
  · exact Curve_CompletedPoint_as_extended_refOk26
  · exact Curve_ProjectivePoint_double_refOk26
  · exact Curve_add_ProjectiveNielsPoint_refOk26
  · exact Curve_sub_ProjectiveNielsPoint_refOk26
  · exact Curve_add_AffineNielsPoint_refOk26
  · exact Curve_sub_AffineNielsPoint_refOk26
  · exact Curve_ProjectiveNielsPoint_neg_refOk26
  · exact Curve_AffineNielsPoint_neg_refOk26
  · exact Edwards_decompress_step_1_refOk26
  · exact Edwards_decompress_step_2_refOk26
  · exact Edwards_compress_refOk26
  · exact Edwards_to_montgomery_refOk26
  · exact Edwards_as_projective_niels_refOk26
  · exact Edwards_as_projective_refOk26
  · exact Edwards_as_affine_niels_refOk26
  · exact Edwards_identity_refOk26
  · exact Edwards_ct_eq_refOk26
  · exact Edwards_conditional_select_refOk26
  · exact Edwards_neg_refOk26
  · exact Edwards_double_refOk26
  · exact Edwards_add_refOk26
  · exact Edwards_sub_refOk26
  · exact Edwards_is_valid_refOk26
  · exact Montgomery_differential_add_and_double_refOk26
  · exact Montgomery_ProjectivePoint_identity_refOk26
  · exact Montgomery_ProjectivePoint_conditional_select_refOk26
  · exact Montgomery_ProjectivePoint_as_affine_refOk26
  · exact Montgomery_to_edwards_refOk26
  · exact Montgomery_elligator_encode_refOk26
  · exact Montgomery_ct_eq_refOk26
  · exact Ristretto_decompress_step_2_refOk26
  · exact Ristretto_compress_refOk26
  · exact Ristretto_elligator_ristretto_flavor_refOk26
  · exact Ristretto_ct_eq_refOk26
  · exact Ristretto_batch_state_from_refOk26
  · exact Ristretto_batch_compress_closure_refOk26
  · exact Field_pow22501_refOk26
  · exact Field_pow_p58_refOk26
  · exact Field_invert_refOk26
  · exact Field_sqrt_ratio_i_refOk26
  · exact Field_invsqrt_refOk26

/-- the two tables list the same programs in the same order -/
theorem sigs_same_programs : (sigs I51).map (·.F) = (sigs I26).map (·.F) := rfl

end Dalek.Proofs.AlgRefine

/-
The group operations used by the model driver (`Dalek.Driver.fastOps`: extended coordinates, `[n]B` through a
table of `2^i B` built by a `for` loop) compute the results of the specification operations `Ops.spec`
(`opsCorrect_fastOps`).  With the `…_ops_independent` theorems of C08/C09/C13 this makes every theorem about
`sign`/`verify`/`verifyBatch` a theorem about the functions executed in the correspondence run (`eds.*`).
-/
import Dalek.Driver.Fast
import Dalek.Proofs.Eds
import Dalek.Proofs.Bridge.FastEdwards
namespace Dalek.Eds
open Dalek.Spec Dalek.Spec.Ed25519 Dalek.Bridge Dalek.Model Dalek.Driver

/-- Invariant rule for a `for` loop over `List.range'` in the `Id` monad (with `break`). -/
theorem forIn_range'_inv {β : Type} (f : Nat → β → Id (ForInStep β)) (Inv : Nat → β → Prop)
    (Post : β → Prop) (n : Nat) :
    ∀ (s : Nat) (init : β), Inv s init →
      (∀ i b, s ≤ i → i < s + n → Inv i b →
        match (f i b).run with
        | .yield b' => Inv (i + 1) b'
        | .done b' => Post b') →
      (∀ b, Inv (s + n) b → Post b) →
      Post (forIn (List.range' s n) init f : Id β).run := by
  induction n with
  | zero =>
    intro s init h0 _ hend
    simpa using hend init (by simpa using h0)
  | succ n ih =>
    intro s init h0 hstep hend
    rw [List.range'_succ, List.forIn_cons]
    have h1 := hstep s init (Nat.le_refl _) (by omega) h0
    simp only [Id.run_bind]
    cases hf : (f s init).run with
    | done b' =>
      rw [hf] at h1
      simpa using h1
    | yield b' =>
      rw [hf] at h1
      simp only
      apply ih (s + 1) b' h1
      · intro i b hi hi2 hinv
        exact hstep i b (by omega) (by omega) hinv
      · intro b hb
        exact hend b (by rwa [show s + (n + 1) = s + 1 + n by omega])

theorem basePowers_spec : ∀ j, j < 256 → ERep (basePowers.getD j EPt.zero) (2 ^ j • Bpt) := by
  unfold basePowers
  simp only [Std.Legacy.Range.forIn_eq_forIn_range', Std.Legacy.Range.size, Id.run_bind, Id.run_pure]
  have e : (256 - 0 + 1 - 1) / 1 = 256 := by norm_num
  rw [e]
  have key := forIn_range'_inv
    (fun (_ : Nat) (__s : EPt × Array EPt) =>
      (pure (ForInStep.yield (__s.1.double, __s.2.push __s.1)) : Id _))
    (fun i st => ERep st.1 (2 ^ i • Bpt) ∧ st.2.size = i ∧
      ∀ j, j < i → ERep (st.2.getD j EPt.zero) (2 ^ j • Bpt))
    (fun st => ∀ j, j < 256 → ERep (st.2.getD j EPt.zero) (2 ^ j • Bpt))
    256 0 (EPt.basepoint, Array.mkEmpty 256)
    ⟨by simpa using erep_basepoint, by simp, fun j hj => absurd hj (Nat.not_lt_zero j)⟩
    (by
      rintro i ⟨acc, out⟩ - hi ⟨h1, h2, h3⟩
      simp only [Id.run_pure]
      refine ⟨?_, by simp [h2], ?_⟩
      · have e2 : 2 ^ (i + 1) • Bpt = 2 • (2 ^ i • Bpt) := by rw [pow_succ, mul_nsmul]
        rw [e2]; exact erep_double' h1
      · intro j hj
        by_cases hji : j < i
        · have := h3 j hji
          simp only at h2 this ⊢
          rw [Array.getD_eq_getD_getElem?, Array.getElem?_push, if_neg (by omega)]
          rw [Array.getD_eq_getD_getElem?] at this
          exact this
        · have hj' : j = i := by omega
          simp only at h2 ⊢
          rw [Array.getD_eq_getD_getElem?, Array.getElem?_push, if_pos (by omega), Option.getD_some, hj']
          exact h1)
    (by rintro ⟨acc, out⟩ ⟨-, -, h3⟩; simpa using h3)
  exact key

theorem mulBaseFast_spec (n : Nat) : ERep (mulBaseFast n) (n • Bpt) := by
  unfold mulBaseFast
  by_cases hn : n ≥ 2 ^ 256
  · simp only [hn, if_true, Id.run_pure]
    exact erep_smul erep_basepoint n
  · simp only [hn, if_false, Std.Legacy.Range.forIn_eq_forIn_range', Std.Legacy.Range.size,
      Id.run_bind, Id.run_pure]
    have e : (256 - 0 + 1 - 1) / 1 = 256 := by norm_num
    rw [e]
    exact forIn_range'_inv
      (fun (i : Nat) (__s : EPt × Nat) =>
        (if (__s.2 == 0) = true then pure (ForInStep.done (__s.1, __s.2))
          else
            if (__s.2 % 2 == 1) = true then
              pure (ForInStep.yield (__s.1.add (basePowers.getD i EPt.zero), __s.2 / 2))
            else pure (ForInStep.yield (__s.1, __s.2 / 2)) : Id _))
      (fun i st => ERep st.1 ((n % 2 ^ i) • Bpt) ∧ st.2 = n / 2 ^ i)
      (fun st => ERep st.1 (n • Bpt))
      256 0 (EPt.zero, n)
      ⟨by simpa [Nat.mod_one] using erep_zero, by simp⟩
      (by
        rintro i ⟨acc, m⟩ - hi ⟨h1, h2⟩
        simp only at h1 h2
        simp only [beq_iff_eq]
        by_cases hm : m = 0
        · simp only [hm, if_true, Id.run_pure]
          have : n / 2 ^ i = 0 := by omega
          have hlt : n < 2 ^ i := by
            rcases Nat.div_eq_zero_iff.1 this with h | h
            · exact absurd h (by positivity)
            · exact h
          rw [Nat.mod_eq_of_lt hlt] at h1
          exact h1
        · simp only [hm, if_false]
          have hdecomp : n % 2 ^ (i + 1) = n % 2 ^ i + 2 ^ i * (n / 2 ^ i % 2) := by
            rw [pow_succ, Nat.mod_mul]
          have hdiv : m / 2 = n / 2 ^ (i + 1) := by
            rw [h2, Nat.div_div_eq_div_mul, pow_succ]
          by_cases hb : m % 2 = 1
          · simp only [hb, if_true, Id.run_pure]
            refine ⟨?_, hdiv⟩
            rw [hdecomp, ← h2, hb, mul_one, add_nsmul]
            exact erep_add h1 (basePowers_spec i (by omega))
          · simp only [hb, if_false, Id.run_pure]
            refine ⟨?_, hdiv⟩
            have : m % 2 = 0 := by omega
            rw [hdecomp, ← h2, this, mul_zero, add_zero]
            exact h1)
      (by
        rintro ⟨acc, m⟩ ⟨h1, -⟩
        simp only [Nat.zero_add] at h1
        rw [Nat.mod_eq_of_lt (by omega)] at h1
        exact h1)

theorem compress_of_erep {e : EPt} {Q : Ed} (h : ERep e Q) : EPt.compress e = encodeEd Q := by
  unfold EPt.compress encodeEd
  rw [toAffine_eq h]

/-- **The model driver's group operations are correct**: `fastOps` (extended coordinates, table of
`2^i B`) computes the specification's results, so every theorem about `Ops.spec` transfers to the functions
the correspondence run executes. -/
theorem opsCorrect_fastOps : OpsCorrect fastOps where
  mulBase n := by
    have e1 : fastOps.mulBase n = EPt.compress (mulBaseFast n) := by simp only [fastOps]
    rw [e1, mulBase_spec]
    exact compress_of_erep (mulBaseFast_spec n)
  dsm k A s hA _ := by
    have e1 : fastOps.dsm k A s =
        EPt.compress (EPt.add (EPt.smul k (EPt.neg (EPt.ofAffine A))) (mulBaseFast s)) := by
      simp only [fastOps]
    rw [e1, dsm_spec k hA s]
    have hAe : ERep (EPt.ofAffine A) (edOf A) := erep_ofAffine (by rw [edOf_eq hA]; exact rep_toEd A hA)
    have := erep_add (erep_smul (erep_neg hAe) k) (mulBaseFast_spec s)
    have e : k • -edOf A + s • Bpt = s • Bpt - k • edOf A := by rw [smul_neg, sub_eq_add_neg, add_comm]
    rw [e] at this
    exact compress_of_erep this
  smallOrder A hA _ := by
    have e1 : fastOps.smallOrder A = EPt.isSmallOrder (EPt.ofAffine A) := by simp only [fastOps]
    have hAe : ERep (EPt.ofAffine A) (edOf A) := erep_ofAffine (by rw [edOf_eq hA]; exact rep_toEd A hA)
    rw [e1, Bool.eq_iff_iff, smallOrder_spec hA]
    exact isSmallOrder_iff_E hAe

end Dalek.Eds

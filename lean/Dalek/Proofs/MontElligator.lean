/-
`montgomery::elligator_encode` (translated item, interpretation `natOps`) is `Spec.elligatorEncode`, and its
output is always the `u`-coordinate of a point of the curve (never of the twist, never `−1`), so
`to_edwards` of it never fails.

The translated item inlines `invert` and `sqrt_ratio_i` (which inlines `pow_p58`); the proof first ties it
(by `rfl`) to the composition of the separately translated callees `Dalek.Gen.AlgField.{invert, sqrt_ratio_i,
pow_p58}` and then uses their specifications.
-/
import Dalek.Proofs.MontConv
import Dalek.Gen.AlgFieldSh

namespace Dalek.Proofs.Mont
open Dalek.IR Dalek.Spec Dalek.Model Dalek.Bridge Dalek.Model.Ladder
open Dalek.Gen.AlgField (pow_p58_sh invert_sh sqrt_ratio_i_sh)

/-! ### the callees -/

theorem pow_p58_nat (x : Nat) : pow_p58_sh natOps x = [fpow x ((P - 5) / 8)] := by
  unfold pow_p58_sh
  apply list1_eq_of_cast (fmul_lt _ _) (fpow_lt _ _)
  simp only [natOps, cast_fmul, cast_fsq, cast_iterSq, cast_mod_P, cast_fpow]
  rw [show (P - 5) / 8 = 2 ^ 252 - 3 from by norm_num]
  ring

theorem invert_nat (x : Nat) : invert_sh natOps x = [finv x] := by
  unfold invert_sh
  apply list1_eq_of_cast (fmul_lt _ _) (finv_lt _)
  simp only [natOps, cast_fmul, cast_fsq, cast_iterSq, cast_mod_P, cast_finv, inv_eq_pow]
  ring

/-- `sqrt_ratio_i` written with its callee `pow_p58` as a call (structure of `field.rs`) -/
def sqrtRatioH {V : Type} (o : FOps V) (u v : V) : List V :=
  let v3 := o.mul (o.square v) v
  let v7 := o.mul (o.square v3) v
  let r := o.mul (o.mul u v3) ((pow_p58_sh o (o.mul u v7)).getD 0 o.dflt)
  let check := o.mul v (o.square r)
  let i := o.const 10
  let correct := o.ctEq check u
  let flipped := o.ctEq check (o.neg u)
  let flippedI := o.ctEq check (o.mul (o.neg u) i)
  let rPrime := o.mul i r
  let r := o.csel (o.cor flipped flippedI) r rPrime
  let r := o.csel (o.isNeg r) r (o.neg r)
  [o.cor correct flipped, r]

/-- the translated `sqrt_ratio_i` IS that composition (definitional unfolding of the inlined callee) -/
theorem sqrt_ratio_i_sh_eq {V : Type} (o : FOps V) (u v : V) : sqrt_ratio_i_sh o u v = sqrtRatioH o u v := rfl

theorem b2n_ne_zero (b : Bool) : (b2n b != 0) = b := by cases b <;> rfl
theorem b2n_eq_zero (b : Bool) : (b2n b = 0) ↔ b = false := by cases b <;> simp [b2n]

/-- **`sqrt_ratio_i`**: the translated item computes `Spec.sqrtRatioM1` (RFC 9496 `SQRT_RATIO_M1`) on canonical
inputs: the flag and the non-negative root. -/
theorem sqrt_ratio_i_nat (u v : Nat) (hu : u < P) (hv : v < P) :
    sqrt_ratio_i_sh natOps u v = [b2n (sqrtRatioM1 u v).1, (sqrtRatioM1 u v).2] := by
  rw [sqrt_ratio_i_sh_eq, sqrtRatioM1_unfold]
  have hc : natOps.const 10 = SQRT_M1 := const_10
  simp only [sqrtRatioH, pow_p58_nat, hc]
  simp only [natOps, List.getD_cons_zero]
  have e1 : cand u v = fmul (fmul u (fmul (fsq v) v)) (fpow (fmul u (fmul (fsq (fmul (fsq v) v)) v)) ((P - 5) / 8)) := by
    unfold cand; rw [Nat.mod_eq_of_lt hu, Nat.mod_eq_of_lt hv]
  have e2 : chk u v = fmul v (fsq (cand u v)) := by unfold chk; rw [Nat.mod_eq_of_lt hv]
  rw [← e1, ← e2, Nat.mod_eq_of_lt hu, Nat.mod_eq_of_lt (chk_lt u v), Nat.mod_eq_of_lt (fneg_lt u),
    Nat.mod_eq_of_lt (fmul_lt _ _)]
  simp only [b2n_ne_zero]
  generalize (chk u v == u) = c1
  generalize (chk u v == fneg u) = c2
  generalize (chk u v == fmul (fneg u) SQRT_M1) = c3
  have hr : (if b2n (c2 || c3) = 0 then cand u v else fmul SQRT_M1 (cand u v)) =
      (if (c2 || c3) = true then fmul SQRT_M1 (cand u v) else cand u v) := by
    cases (c2 || c3) <;> simp [b2n]
  rw [hr]
  have hlt : (if (c2 || c3) = true then fmul SQRT_M1 (cand u v) else cand u v) < P := by
    split; exact fmul_lt _ _; exact fmul_lt _ _
  generalize (if (c2 || c3) = true then fmul SQRT_M1 (cand u v) else cand u v) = r at hlt
  unfold fabs
  rw [Nat.mod_eq_of_lt hlt]
  cases isNeg r <;> simp [b2n]

/-! ### `elligator_encode` -/

/-- `elligator_encode` written with its callees `invert` and `sqrt_ratio_i` as calls (structure of
`montgomery.rs`) -/
def elligatorH {V : Type} (o : FOps V) (r0 : V) : V :=
  let one := o.const 1
  let d1 := o.add one (o.square2 r0)
  let d := o.mul (o.const 13) ((invert_sh o d1).getD 0 o.dflt)
  let dsq := o.square d
  let au := o.mul (o.const 12) d
  let inner := o.add (o.add dsq au) one
  let eps := o.mul d inner
  let isSq := (sqrt_ratio_i_sh o eps one).getD 0 o.dflt
  let zero := o.const 0
  let atemp := o.csel isSq (o.const 12) zero
  let u := o.add d atemp
  o.csel (o.cnot isSq) u (o.neg u)

/-- the translated `elligator_encode` IS that composition (definitional unfolding of the inlined callees) -/
theorem elligator_encode_sh_eq {V : Type} (o : FOps V) (r0 : V) :
    Dalek.Gen.AlgMontgomery.elligator_encode_sh o r0 = [elligatorH o r0] := rfl

theorem fneg_A : fneg MONTGOMERY_A = P - MONTGOMERY_A := by decide +kernel

/-- **The translated `elligator_encode` computes `Spec.elligatorEncode`** (all `r_0`). -/
theorem elligator_nat (r0 : Nat) :
    Dalek.Gen.AlgMontgomery.elligator_encode.run natOps [r0] = [Spec.elligatorEncode r0] := by
  rw [Dalek.Gen.AlgMontgomery.elligator_encode_sh_ok, elligator_encode_sh_eq]
  have h1 : natOps.const 1 = 1 := const_1
  have h0 : natOps.const 0 = 0 := const_0
  have h12 : natOps.const 12 = MONTGOMERY_A := const_12
  have h13 : natOps.const 13 = fneg MONTGOMERY_A := by rw [fneg_A]; exact const_13
  simp only [elligatorH, invert_nat, h0, h1, h12, h13, List.getD_cons_zero]
  simp only [natOps]
  unfold Spec.elligatorEncode
  simp only []
  generalize fmul (fneg MONTGOMERY_A) (finv (fadd 1 (fmul 2 (fsq r0)))) = d
  have hd : fmul d (fadd (fadd (fsq d) (fmul MONTGOMERY_A d)) 1) < P := fmul_lt _ _
  generalize fmul d (fadd (fadd (fsq d) (fmul MONTGOMERY_A d)) 1) = eps at hd
  rw [sqrt_ratio_i_nat eps 1 hd (by norm_num)]
  simp only [List.getD_cons_zero]
  cases (sqrtRatioM1 eps 1).1
  · simp [b2n]
  · sorry

end Dalek.Proofs.Mont

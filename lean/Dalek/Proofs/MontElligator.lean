/-
`montgomery::elligator_encode` (translated item, interpretation `natOps`) is `Spec.elligatorEncode`, and its
output is always the `u`-coordinate of a point of the curve (never of the twist, never `−1`), so
`to_edwards` of it never fails.

The translated item inlines `invert` and `sqrt_ratio_i` (which inlines `pow_p58`); the proof first ties it
(by `rfl`) to the composition of the separately translated callees `Dalek.Gen.AlgField.{invert, sqrt_ratio_i,
pow_p58}` and then uses their specifications.
-/
import Dalek.Proofs.MontConv
import Dalek.Gen.AlgFieldSh

namespace Dalek.Proofs.Mont
open Dalek.IR Dalek.Spec Dalek.Model Dalek.Bridge Dalek.Model.Ladder
open Dalek.Gen.AlgField (pow_p58_sh invert_sh sqrt_ratio_i_sh)

/-! ### the callees -/

theorem pow_p58_nat (x : Nat) : pow_p58_sh natOps x = [fpow x ((P - 5) / 8)] := by
  unfold pow_p58_sh
  apply list1_eq_of_cast (fmul_lt _ _) (fpow_lt _ _)
  simp only [natOps, cast_fmul, cast_fsq, cast_iterSq, cast_mod_P, cast_fpow]
  rw [show (P - 5) / 8 = 2 ^ 252 - 3 from by norm_num]
  ring

theorem invert_nat (x : Nat) : invert_sh natOps x = [finv x] := by
  unfold invert_sh
  apply list1_eq_of_cast (fmul_lt _ _) (finv_lt _)
  simp only [natOps, cast_fmul, cast_fsq, cast_iterSq, cast_mod_P, cast_finv, inv_eq_pow]
  ring

/-- `sqrt_ratio_i` written with its callee `pow_p58` as a call (structure of `field.rs`) -/
def sqrtRatioH {V : Type} (o : FOps V) (u v : V) : List V :=
  let v3 := o.mul (o.square v) v
  let v7 := o.mul (o.square v3) v
  let r := o.mul (o.mul u v3) ((pow_p58_sh o (o.mul u v7)).getD 0 o.dflt)
  let check := o.mul v (o.square r)
  let i := o.const 10
  let correct := o.ctEq check u
  let flipped := o.ctEq check (o.neg u)
  let flippedI := o.ctEq check (o.mul (o.neg u) i)
  let rPrime := o.mul i r
  let r := o.csel (o.cor flipped flippedI) r rPrime
  let r := o.csel (o.isNeg r) r (o.neg r)
  [o.cor correct flipped, r]

/-- the translated `sqrt_ratio_i` IS that composition (definitional unfolding of the inlined callee) -/
theorem sqrt_ratio_i_sh_eq {V : Type} (o : FOps V) (u v : V) : sqrt_ratio_i_sh o u v = sqrtRatioH o u v := rfl

theorem b2n_ne_zero (b : Bool) : (b2n b != 0) = b := by cases b <;> rfl
theorem b2n_eq_zero (b : Bool) : (b2n b = 0) ↔ b = false := by cases b <;> simp [b2n]

/-- **`sqrt_ratio_i`**: the translated item computes `Spec.sqrtRatioM1` (RFC 9496 `SQRT_RATIO_M1`) on canonical
inputs: the flag and the non-negative root. -/
theorem sqrt_ratio_i_nat (u v : Nat) (hu : u < P) (hv : v < P) :
    sqrt_ratio_i_sh natOps u v = [b2n (sqrtRatioM1 u v).1, (sqrtRatioM1 u v).2] := by
  rw [sqrt_ratio_i_sh_eq, sqrtRatioM1_unfold]
  have hc : natOps.const 10 = SQRT_M1 := const_10
  simp only [sqrtRatioH, pow_p58_nat, hc]
  simp only [natOps, List.getD_cons_zero]
  have e1 : cand u v = fmul (fmul u (fmul (fsq v) v)) (fpow (fmul u (fmul (fsq (fmul (fsq v) v)) v)) ((P - 5) / 8)) := by
    unfold cand; rw [Nat.mod_eq_of_lt hu, Nat.mod_eq_of_lt hv]
  have e2 : chk u v = fmul v (fsq (cand u v)) := by unfold chk; rw [Nat.mod_eq_of_lt hv]
  rw [← e1, ← e2, Nat.mod_eq_of_lt hu, Nat.mod_eq_of_lt (chk_lt u v), Nat.mod_eq_of_lt (fneg_lt u),
    Nat.mod_eq_of_lt (fmul_lt _ _)]
  simp only [b2n_ne_zero]
  generalize (chk u v == u) = c1
  generalize (chk u v == fneg u) = c2
  generalize (chk u v == fmul (fneg u) SQRT_M1) = c3
  have hr : (if b2n (c2 || c3) = 0 then cand u v else fmul SQRT_M1 (cand u v)) =
      (if (c2 || c3) = true then fmul SQRT_M1 (cand u v) else cand u v) := by
    cases (c2 || c3) <;> simp [b2n]
  rw [hr]
  have hlt : (if (c2 || c3) = true then fmul SQRT_M1 (cand u v) else cand u v) < P := by
    split; exact fmul_lt _ _; exact fmul_lt _ _
  generalize (if (c2 || c3) = true then fmul SQRT_M1 (cand u v) else cand u v) = r at hlt
  unfold fabs
  rw [Nat.mod_eq_of_lt hlt]
  cases isNeg r <;> simp [b2n]

/-! ### `elligator_encode` -/

/-- `elligator_encode` written with its callees `invert` and `sqrt_ratio_i` as calls (structure of
`montgomery.rs`) -/
def elligatorH {V : Type} (o : FOps V) (r0 : V) : V :=
  let one := o.const 1
  let d1 := o.add one (o.square2 r0)
  let d := o.mul (o.const 13) ((invert_sh o d1).getD 0 o.dflt)
  let dsq := o.square d
  let au := o.mul (o.const 12) d
  let inner := o.add (o.add dsq au) one
  let eps := o.mul d inner
  let isSq := (sqrt_ratio_i_sh o eps one).getD 0 o.dflt
  let zero := o.const 0
  let atemp := o.csel isSq (o.const 12) zero
  let u := o.add d atemp
  o.csel (o.cnot isSq) u (o.neg u)

/-- the translated `elligator_encode` IS that composition (definitional unfolding of the inlined callees) -/
theorem elligator_encode_sh_eq {V : Type} (o : FOps V) (r0 : V) :
    Dalek.Gen.AlgMontgomery.elligator_encode_sh o r0 = [elligatorH o r0] := rfl

theorem fneg_A : fneg MONTGOMERY_A = P - MONTGOMERY_A := by decide +kernel

/-- **The translated `elligator_encode` computes `Spec.elligatorEncode`** (all `r_0`). -/
theorem elligator_nat (r0 : Nat) :
    Dalek.Gen.AlgMontgomery.elligator_encode.run natOps [r0] = [Spec.elligatorEncode r0] := by
  rw [Dalek.Gen.AlgMontgomery.elligator_encode_sh_ok, elligator_encode_sh_eq]
  have h1 : natOps.const 1 = 1 := const_1
  have h0 : natOps.const 0 = 0 := const_0
  have h12 : natOps.const 12 = MONTGOMERY_A := const_12
  have h13 : natOps.const 13 = fneg MONTGOMERY_A := by rw [fneg_A]; exact const_13
  have ea : ∀ a b, natOps.add a b = fadd a b := fun _ _ => rfl
  have em : ∀ a b, natOps.mul a b = fmul a b := fun _ _ => rfl
  have es : ∀ a, natOps.square a = fsq a := fun _ => rfl
  have es2 : ∀ a, natOps.square2 a = fmul 2 (fsq a) := fun _ => rfl
  have en : ∀ a, natOps.neg a = fneg a := fun _ => rfl
  have ec : ∀ c a b, natOps.csel c a b = if c = 0 then a else b := fun _ _ _ => rfl
  have ecn : ∀ a, natOps.cnot a = b2n (a == 0) := fun _ => rfl
  have edf : natOps.dflt = 0 := rfl
  simp only [elligatorH, invert_nat, h0, h1, h12, h13, List.getD_cons_zero, ea, em, es, es2, en, ec, ecn, edf]
  unfold Spec.elligatorEncode
  simp only []
  have hdlt : fmul (fneg MONTGOMERY_A) (finv (fadd 1 (fmul 2 (fsq r0)))) < P := fmul_lt _ _
  generalize fmul (fneg MONTGOMERY_A) (finv (fadd 1 (fmul 2 (fsq r0)))) = d at hdlt
  have hd : fmul d (fadd (fadd (fsq d) (fmul MONTGOMERY_A d)) 1) < P := fmul_lt _ _
  generalize fmul d (fadd (fadd (fsq d) (fmul MONTGOMERY_A d)) 1) = eps at hd
  rw [sqrt_ratio_i_nat eps 1 hd (by norm_num)]
  simp only [List.getD_cons_zero]
  cases (sqrtRatioM1 eps 1).1
  · simp [b2n]
  · have : fadd d 0 = d := Nat.mod_eq_of_lt hdlt
    simp [b2n, this]

/-! ### the output of `elligator_encode` is on the curve -/

/-- in a prime field the product of two non-squares is a square -/
theorem isSquare_mul_of_not {a b : Fp} (ha : ¬ IsSquare a) (hb : ¬ IsSquare b) : IsSquare (a * b) := by
  have ha0 : a ≠ 0 := by rintro rfl; exact ha ⟨0, by simp⟩
  have hb0 : b ≠ 0 := by rintro rfl; exact hb ⟨0, by simp⟩
  rw [ZMod.euler_criterion P ha0] at ha
  rw [ZMod.euler_criterion P hb0] at hb
  rw [ZMod.euler_criterion P (mul_ne_zero ha0 hb0), mul_pow]
  rcases ZMod.pow_div_two_eq_neg_one_or_one P ha0 with h | h
  · exact absurd h ha
  rcases ZMod.pow_div_two_eq_neg_one_or_one P hb0 with h' | h'
  · exact absurd h' hb
  rw [h, h']; ring

/-- `1 + 2r² ≠ 0`: `−1/2` is not a square (`−1` is, `2` is not) -/
theorem one_add_two_sq_ne_zero (r : Fp) : 1 + 2 * r ^ 2 ≠ 0 := by
  intro h
  have hr : r ≠ 0 := by
    rintro rfl
    have : (1 : Fp) = 0 := by linear_combination h
    exact one_ne_zero this
  apply two_not_isSquare
  refine ⟨Dalek.FieldFacts.sqrtM1 * r⁻¹, ?_⟩
  have hi := Dalek.FieldFacts.sqrtM1_mul_self
  have : (2 : Fp) = -(r ^ 2)⁻¹ := by
    field_simp
    linear_combination h
  rw [this]
  field_simp
  linear_combination -hi

theorem cast_A : ((MONTGOMERY_A : Nat) : Fp) = 486662 := by
  simp only [MONTGOMERY_A, Nat.cast_ofNat]

/-- **Elligator2 lands on the curve**: for every `r`, the output `u` of `elligator_encode` satisfies
`u ≠ −1` and `u³ + A u² + u` is a square (i.e. `u` is the `u`-coordinate of a point of Curve25519, not of the
twist). -/
theorem elligator_curve (r0 : Nat) :
    ((Spec.elligatorEncode r0 : Nat) : Fp) ≠ -1 ∧
      IsSquare (((Spec.elligatorEncode r0 : Nat) : Fp) ^ 3 + 486662 * ((Spec.elligatorEncode r0 : Nat) : Fp) ^ 2
        + ((Spec.elligatorEncode r0 : Nat) : Fp)) := by
  have hsq : IsSquare (((Spec.elligatorEncode r0 : Nat) : Fp) ^ 3 +
      486662 * ((Spec.elligatorEncode r0 : Nat) : Fp) ^ 2 + ((Spec.elligatorEncode r0 : Nat) : Fp)) := by
    unfold Spec.elligatorEncode
    simp only []
    have hD1 := one_add_two_sq_ne_zero (r0 : Fp)
    have hdc : ((fmul (fneg MONTGOMERY_A) (finv (fadd 1 (fmul 2 (fsq r0)))) : Nat) : Fp) =
        -486662 * (1 + 2 * (r0 : Fp) ^ 2)⁻¹ := by
      simp only [cast_fmul, cast_fneg, cast_finv, cast_fadd, cast_fsq, cast_A, Nat.cast_one, Nat.cast_ofNat]
    generalize fmul (fneg MONTGOMERY_A) (finv (fadd 1 (fmul 2 (fsq r0)))) = d at hdc
    have hdD : (d : Fp) * (1 + 2 * (r0 : Fp) ^ 2) = -486662 := by
      rw [hdc]; field_simp
    have heps : ((fmul d (fadd (fadd (fsq d) (fmul MONTGOMERY_A d)) 1) : Nat) : Fp) =
        (d : Fp) ^ 3 + 486662 * (d : Fp) ^ 2 + d := by
      simp only [cast_fmul, cast_fadd, cast_fsq, cast_A, Nat.cast_one]; ring
    generalize fmul d (fadd (fadd (fsq d) (fmul MONTGOMERY_A d)) 1) = eps at heps
    cases hf : (sqrtRatioM1 eps 1).1
    · -- eps is not a square: u = -(d + A), and u³ + A u² + u = 2 r² eps
      simp only [Bool.false_eq_true, if_false]
      have hns : ¬ IsSquare ((eps : Nat) : Fp) := by
        intro hs
        have := (sqrtRatioM1_ok_iff eps 1).2 (Or.inr ⟨by simp, by simpa using hs⟩)
        rw [hf] at this; cases this
      obtain ⟨w, hw⟩ := isSquare_mul_of_not two_not_isSquare hns
      refine ⟨(r0 : Fp) * w, ?_⟩
      simp only [cast_fneg, cast_fadd, cast_A]
      rw [heps] at hw
      linear_combination ((r0 : Fp) ^ 2) * hw +
        (-(d : Fp) ^ 2 - 486662 * (d : Fp) - 1) * hdD
    · simp only [if_true]
      rcases (sqrtRatioM1_ok_iff eps 1).1 hf with h0 | ⟨-, hs⟩
      · rw [← heps, h0]; exact ⟨0, by simp⟩
      · rw [← heps]; simpa using hs
  refine ⟨?_, hsq⟩
  intro h
  rw [h] at hsq
  apply A_sub_two_not_isSquare
  have : (486660 : Fp) = (-1) ^ 3 + 486662 * (-1) ^ 2 + -1 := by norm_num
  rw [this]; exact hsq

/-- **`elligator_on_curve`**: `to_edwards` never fails on the output of `elligator_encode`, for either sign. -/
theorem elligator_toEdwards_ne_none (r0 : Nat) (s : Bool) :
    Spec.toEdwards (Spec.elligatorEncode r0) s ≠ none := by
  intro h
  rw [toEdwards_eq_none_iff] at h
  obtain ⟨h1, h2⟩ := elligator_curve r0
  rcases h with h | h
  · exact h1 h
  · exact h h2

end Dalek.Proofs.Mont

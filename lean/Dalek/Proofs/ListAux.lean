/-! Destructuring of lists of known length into explicit elements (used to pass from the property theorems
stated for explicit limbs `a0 … a9` to statements about an arbitrary limb list). -/
namespace Dalek.Proofs

theorem list_of_length_5 {α : Type} (a : List α) (h : a.length = 5) :
    ∃ a0 a1 a2 a3 a4, a = [a0, a1, a2, a3, a4] := by
  match a, h with
  | [a0, a1, a2, a3, a4], _ => exact ⟨_, _, _, _, _, rfl⟩

theorem list_of_length_10 {α : Type} (a : List α) (h : a.length = 10) :
    ∃ a0 a1 a2 a3 a4 a5 a6 a7 a8 a9, a = [a0, a1, a2, a3, a4, a5, a6, a7, a8, a9] := by
  match a, h with
  | [a0, a1, a2, a3, a4, a5, a6, a7, a8, a9], _ => exact ⟨_, _, _, _, _, _, _, _, _, _, rfl⟩

end Dalek.Proofs

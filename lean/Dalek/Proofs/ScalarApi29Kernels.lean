import Dalek.Props.C02.Scalar29Composed
import Dalek.Proofs.ScalarApi29GenInvert
import Dalek.Model.ScalarApi29
/-!
# `Scalar` API glue, serial u32 backend: the kernel theorems restated on limb LISTS; the two instances of `KernelsOk`

* Each theorem of `Dalek/Props/C02/Scalar29.lean` / `Scalar29Composed.lean` (given there for explicit limbs
  `a0 … a8`) is restated for the model's wrappers `Dalek.Model.ScalarApi29.*29` on arbitrary lists inside the limb
  contract (`EnvIn a limbs29`: exactly nine limbs `< 2^29`), as `Dalek/Proofs/ScalarApiKernels.lean` does for the
  u64 backend.  Nothing here depends on the shape of generated code.
* `ok29 : KernelsOk K29` and `ok52 : KernelsOk K52` package the two families of list theorems for the generic
  development (`Dalek/Proofs/ScalarApi29Gen*.lean`).
* `gen52_*`: the hand model `Dalek.Model.ScalarApi` (u64) IS the generic glue `Dalek.Model.ScalarKernels` at `K52`.
-/
set_option exponentiation.threshold 600

namespace Dalek.Proofs.ScalarApi29
open Dalek.IR Dalek.Proofs.Scalar29 Dalek.Model.Contracts Dalek.Gen.Consts Dalek.Model.ScalarApi29
open Dalek.Model.FieldBytes (leVal natToLeN)
open Dalek.Proofs.Bytes51 (list_eq_of_length_32)
open Dalek.Proofs.ScalarApi (EnvIn_append len_rep list_eq_of_length_64)
open Dalek.Props.C02.Scalar29 (limbs29)
open Dalek.Props.C02.Scalar52 (l)

/-- the two developments use the same group order -/
theorem l_eq : Dalek.Props.C02.Scalar29.l = l := rfl

/-- two limb vectors inside the contract, concatenated, are inside the contract of a binary kernel -/
theorem envIn18 {a b : List Nat} (ha : EnvIn a limbs29) (hb : EnvIn b limbs29) :
    EnvIn (a ++ b) (rep 18 Scalar29.lim) :=
  EnvIn_append _ _ ha hb

/-! ## the kernels on lists -/

theorem unpack_ok {b : List Nat} (hb : EnvIn b (bytes 32)) :
    EnvIn (fromBytes29 b) limbs29 ∧ val29 (fromBytes29 b) = leVal b := by
  obtain ⟨x0, x1, x2, x3, x4, x5, x6, x7, x8, x9, x10, x11, x12, x13, x14, x15, x16, x17, x18, x19, x20, x21, x22, x23, x24, x25, x26, x27, x28, x29, x30, x31, rfl⟩ := list_eq_of_length_32 (len_rep hb)
  obtain ⟨out, -, hW, he, hv⟩ := Dalek.Props.C02.Scalar29.from_bytes_spec x0 x1 x2 x3 x4 x5 x6 x7 x8 x9 x10 x11 x12 x13 x14 x15 x16 x17 x18 x19 x20 x21 x22 x23 x24 x25 x26 x27 x28 x29 x30 x31 hb
  subst hW
  exact ⟨EnvIn_of_itvsLe he (by decide +kernel), hv⟩

theorem fromBytesWide_ok {b : List Nat} (hb : EnvIn b (bytes 64)) :
    EnvIn (fromBytesWide29 b) limbs29 ∧ val29 (fromBytesWide29 b) = leVal b % l := by
  obtain ⟨x0, x1, x2, x3, x4, x5, x6, x7, x8, x9, x10, x11, x12, x13, x14, x15, x16, x17, x18, x19, x20, x21, x22, x23, x24, x25, x26, x27, x28, x29, x30, x31, x32, x33, x34, x35, x36, x37, x38, x39, x40, x41, x42, x43, x44, x45, x46, x47, x48, x49, x50, x51, x52, x53, x54, x55, x56, x57, x58, x59, x60, x61, x62, x63, rfl⟩ := list_eq_of_length_64 (len_rep hb)
  obtain ⟨out, -, hW, he, hv⟩ := Dalek.Props.C02.Scalar29.from_bytes_wide_spec x0 x1 x2 x3 x4 x5 x6 x7 x8 x9 x10 x11 x12 x13 x14 x15 x16 x17 x18 x19 x20 x21 x22 x23 x24 x25 x26 x27 x28 x29 x30 x31 x32 x33 x34 x35 x36 x37 x38 x39 x40 x41 x42 x43 x44 x45 x46 x47 x48 x49 x50 x51 x52 x53 x54 x55 x56 x57 x58 x59 x60 x61 x62 x63 hb
  subst hW
  exact ⟨he, hv⟩

theorem pack_ok {a : List Nat} (ha : EnvIn a limbs29) (hv : val29 a < 2 ^ 256) :
    EnvIn (asBytes29 a) (bytes 32) ∧ leVal (asBytes29 a) = val29 a := by
  obtain ⟨a0, a1, a2, a3, a4, a5, a6, a7, a8, rfl⟩ := list9_of_length (len_rep ha)
  obtain ⟨out, -, hW, he, hv⟩ := Dalek.Props.C02.Scalar29.as_bytes_spec a0 a1 a2 a3 a4 a5 a6 a7 a8 ha hv
  subst hW
  exact ⟨he, hv⟩

theorem add29_ok {a b : List Nat} (ha : EnvIn a limbs29) (hb : EnvIn b limbs29)
    (hav : val29 a < l) (hbv : val29 b < l) :
    EnvIn (add29 a b) limbs29 ∧ val29 (add29 a b) = (val29 a + val29 b) % l := by
  obtain ⟨a0, a1, a2, a3, a4, a5, a6, a7, a8, rfl⟩ := list9_of_length (len_rep ha)
  obtain ⟨b0, b1, b2, b3, b4, b5, b6, b7, b8, rfl⟩ := list9_of_length (len_rep hb)
  obtain ⟨out, -, hW, he, hv⟩ := Dalek.Props.C02.Scalar29.add_spec a0 a1 a2 a3 a4 a5 a6 a7 a8 b0 b1 b2 b3 b4 b5 b6 b7 b8 (envIn18 ha hb) hav hbv
  subst hW
  exact ⟨he, hv⟩

theorem sub29_ok {a b : List Nat} (ha : EnvIn a limbs29) (hb : EnvIn b limbs29)
    (hav : val29 a < l) (hbv : val29 b < l) :
    EnvIn (sub29 a b) limbs29 ∧ val29 (sub29 a b) = (val29 a + l - val29 b) % l := by
  obtain ⟨a0, a1, a2, a3, a4, a5, a6, a7, a8, rfl⟩ := list9_of_length (len_rep ha)
  obtain ⟨b0, b1, b2, b3, b4, b5, b6, b7, b8, rfl⟩ := list9_of_length (len_rep hb)
  obtain ⟨out, -, hW, he, -, hv⟩ := Dalek.Props.C02.Scalar29.sub_spec a0 a1 a2 a3 a4 a5 a6 a7 a8 b0 b1 b2 b3 b4 b5 b6 b7 b8 (envIn18 ha hb) hav hbv
  subst hW
  exact ⟨he, hv⟩

theorem mul29_ok {a b : List Nat} (ha : EnvIn a limbs29) (hb : EnvIn b limbs29)
    (hav : val29 a < l) (hbv : val29 b < l) :
    EnvIn (mul29 a b) limbs29 ∧ val29 (mul29 a b) = val29 a * val29 b % l := by
  obtain ⟨a0, a1, a2, a3, a4, a5, a6, a7, a8, rfl⟩ := list9_of_length (len_rep ha)
  obtain ⟨b0, b1, b2, b3, b4, b5, b6, b7, b8, rfl⟩ := list9_of_length (len_rep hb)
  obtain ⟨out, -, hW, he, hv⟩ := Dalek.Props.C02.Scalar29.mul_spec a0 a1 a2 a3 a4 a5 a6 a7 a8 b0 b1 b2 b3 b4 b5 b6 b7 b8 (envIn18 ha hb) hav hbv
  subst hW
  exact ⟨he, hv⟩

theorem mulInternal29_ok {a b : List Nat} (ha : EnvIn a limbs29) (hb : EnvIn b limbs29) :
    EnvIn (mulInternal29 a b) Scalar29.pre_montgomery_reduce ∧
      val29 (mulInternal29 a b) = val29 a * val29 b := by
  obtain ⟨a0, a1, a2, a3, a4, a5, a6, a7, a8, rfl⟩ := list9_of_length (len_rep ha)
  obtain ⟨b0, b1, b2, b3, b4, b5, b6, b7, b8, rfl⟩ := list9_of_length (len_rep hb)
  obtain ⟨out, -, hW, he, hv⟩ := Dalek.Props.C02.Scalar29.mul_internal_spec a0 a1 a2 a3 a4 a5 a6 a7 a8 b0 b1 b2 b3 b4 b5 b6 b7 b8 (envIn18 ha hb)
  subst hW
  exact ⟨he, hv⟩

theorem montgomeryReduce29_ok {z : List Nat} (hz : EnvIn z Scalar29.pre_montgomery_reduce)
    (hN : val29 z < 2 ^ 261 * l) :
    EnvIn (montgomeryReduce29 z) limbs29 ∧ val29 (montgomeryReduce29 z) < l ∧
      val29 (montgomeryReduce29 z) * 2 ^ 261 % l = val29 z % l := by
  obtain ⟨z0, z1, z2, z3, z4, z5, z6, z7, z8, z9, z10, z11, z12, z13, z14, z15, z16, rfl⟩ := list17_of_length (len_rep hz)
  obtain ⟨out, -, hW, he, hlt, hv⟩ := Dalek.Props.C02.Scalar29.montgomery_reduce_spec z0 z1 z2 z3 z4 z5 z6 z7 z8 z9 z10 z11 z12 z13 z14 z15 z16 hz hN
  subst hW
  exact ⟨he, hlt, hv⟩

theorem montgomeryMul29_ok {a b : List Nat} (ha : EnvIn a limbs29) (hb : EnvIn b limbs29)
    (hav : val29 a < l) (hbv : val29 b < l) :
    EnvIn (montgomeryMul29 a b) limbs29 ∧ val29 (montgomeryMul29 a b) < l ∧
      val29 (montgomeryMul29 a b) * 2 ^ 261 % l = val29 a * val29 b % l := by
  obtain ⟨a0, a1, a2, a3, a4, a5, a6, a7, a8, rfl⟩ := list9_of_length (len_rep ha)
  obtain ⟨b0, b1, b2, b3, b4, b5, b6, b7, b8, rfl⟩ := list9_of_length (len_rep hb)
  obtain ⟨out, -, hW, he, hlt, hv⟩ := Dalek.Props.C02.Scalar29.montgomery_mul_spec a0 a1 a2 a3 a4 a5 a6 a7 a8 b0 b1 b2 b3 b4 b5 b6 b7 b8 (envIn18 ha hb)
    (Nat.mul_lt_mul'' (lt_trans hav (by norm_num [l])) hbv)
  subst hW
  exact ⟨he, hlt, hv⟩

theorem montgomerySquare29_ok {a : List Nat} (ha : EnvIn a limbs29) (hav : val29 a < l) :
    EnvIn (montgomerySquare29 a) limbs29 ∧ val29 (montgomerySquare29 a) < l ∧
      val29 (montgomerySquare29 a) * 2 ^ 261 % l = val29 a * val29 a % l := by
  obtain ⟨a0, a1, a2, a3, a4, a5, a6, a7, a8, rfl⟩ := list9_of_length (len_rep ha)
  obtain ⟨out, -, hW, he, hlt, hv⟩ := Dalek.Props.C02.Scalar29.montgomery_square_spec a0 a1 a2 a3 a4 a5 a6 a7 a8 ha
    (Nat.mul_lt_mul'' (lt_trans hav (by norm_num [l])) hav)
  subst hW
  exact ⟨he, hlt, hv⟩

theorem asMontgomery29_ok {a : List Nat} (ha : EnvIn a limbs29) :
    EnvIn (asMontgomery29 a) limbs29 ∧ val29 (asMontgomery29 a) = val29 a * 2 ^ 261 % l := by
  obtain ⟨a0, a1, a2, a3, a4, a5, a6, a7, a8, rfl⟩ := list9_of_length (len_rep ha)
  obtain ⟨out, -, hW, he, hv⟩ := Dalek.Props.C02.Scalar29.as_montgomery_spec a0 a1 a2 a3 a4 a5 a6 a7 a8 ha
  subst hW
  exact ⟨he, hv⟩

theorem fromMontgomery29_ok {a : List Nat} (ha : EnvIn a limbs29) :
    EnvIn (fromMontgomery29 a) limbs29 ∧ val29 (fromMontgomery29 a) < l ∧
      val29 (fromMontgomery29 a) * 2 ^ 261 % l = val29 a % l := by
  obtain ⟨a0, a1, a2, a3, a4, a5, a6, a7, a8, rfl⟩ := list9_of_length (len_rep ha)
  obtain ⟨out, -, hW, he, hlt, hv⟩ := Dalek.Props.C02.Scalar29.from_montgomery_spec a0 a1 a2 a3 a4 a5 a6 a7 a8 ha
  subst hW
  exact ⟨he, hlt, hv⟩

theorem R_limbs : EnvIn U32.R limbs29 := by decide +kernel
theorem R_val : val29 U32.R = 2 ^ 261 % l := Dalek.Props.C02.Scalar29.R_value
theorem ZERO29_limbs : EnvIn ZERO29 limbs29 := by decide +kernel
theorem ZERO29_val : val29 ZERO29 = 0 := by decide +kernel

end Dalek.Proofs.ScalarApi29

namespace Dalek.Proofs.ScalarApiGen
open Dalek.Model Dalek.Gen.Consts

/-- the serial u32 backend satisfies the kernel theorems: nine 29-bit limbs, Montgomery radix `2^261` -/
def ok29 : KernelsOk Dalek.Model.ScalarApi29.K29 where
  val := Dalek.Proofs.Scalar29.val29
  limbs := Dalek.Props.C02.Scalar29.limbs29
  wide := Dalek.Model.Contracts.Scalar29.pre_montgomery_reduce
  rexp := 261
  rexp_ge := by norm_num
  fromBytes_ok := Dalek.Proofs.ScalarApi29.unpack_ok
  fromBytesWide_ok := Dalek.Proofs.ScalarApi29.fromBytesWide_ok
  asBytes_ok := Dalek.Proofs.ScalarApi29.pack_ok
  add_ok := Dalek.Proofs.ScalarApi29.add29_ok
  sub_ok := Dalek.Proofs.ScalarApi29.sub29_ok
  mul_ok := Dalek.Proofs.ScalarApi29.mul29_ok
  mulInternal_ok := Dalek.Proofs.ScalarApi29.mulInternal29_ok
  montgomeryReduce_ok := Dalek.Proofs.ScalarApi29.montgomeryReduce29_ok
  montgomeryMul_ok := Dalek.Proofs.ScalarApi29.montgomeryMul29_ok
  montgomerySquare_ok := Dalek.Proofs.ScalarApi29.montgomerySquare29_ok
  asMontgomery_ok := Dalek.Proofs.ScalarApi29.asMontgomery29_ok
  fromMontgomery_ok := Dalek.Proofs.ScalarApi29.fromMontgomery29_ok
  R_limbs := Dalek.Proofs.ScalarApi29.R_limbs
  R_value := Dalek.Proofs.ScalarApi29.R_val
  ZERO_limbs := Dalek.Proofs.ScalarApi29.ZERO29_limbs
  ZERO_val := Dalek.Proofs.ScalarApi29.ZERO29_val

/-- the serial u64 backend satisfies the kernel theorems: five 52-bit limbs, Montgomery radix `2^260` -/
def ok52 : KernelsOk K52 where
  val := Dalek.Proofs.Scalar52.val52
  limbs := Dalek.Props.C02.Scalar52.limbs52
  wide := Dalek.Model.Contracts.Scalar52.pre_montgomery_reduce
  rexp := 260
  rexp_ge := by norm_num
  fromBytes_ok := Dalek.Proofs.ScalarApi.unpack_ok
  fromBytesWide_ok := Dalek.Proofs.ScalarApi.fromBytesWide_ok
  asBytes_ok := Dalek.Proofs.ScalarApi.pack_ok
  add_ok := Dalek.Proofs.ScalarApi.add52_ok
  sub_ok := Dalek.Proofs.ScalarApi.sub52_ok
  mul_ok := Dalek.Proofs.ScalarApi.mul52_ok
  mulInternal_ok := Dalek.Proofs.ScalarApi.mulInternal52_ok
  montgomeryReduce_ok := Dalek.Proofs.ScalarApi.montgomeryReduce52_ok
  montgomeryMul_ok := Dalek.Proofs.ScalarApi.montgomeryMul52_ok
  montgomerySquare_ok := Dalek.Proofs.ScalarApi.montgomerySquare52_ok
  asMontgomery_ok := Dalek.Proofs.ScalarApi.asMontgomery52_ok
  fromMontgomery_ok := Dalek.Proofs.ScalarApi.fromMontgomery52_ok
  R_limbs := Dalek.Proofs.ScalarApi.R_limbs
  R_value := Dalek.Props.C02.Scalar52.R_value
  ZERO_limbs := Dalek.Proofs.ScalarApi.ZERO52_limbs
  ZERO_val := Dalek.Proofs.ScalarApi.ZERO52_val

/-! ## the u64 hand model is the generic glue at `K52` -/

theorem gen52_unpack : ScalarApi.unpack = K52.unpack := rfl
theorem gen52_pack : ScalarApi.pack = K52.pack := rfl
theorem gen52_reduce : ScalarApi.reduce52 = K52.reduce := rfl
theorem gen52_fromBytesModOrder : ScalarApi.fromBytesModOrder = K52.fromBytesModOrder := rfl
theorem gen52_fromBytesModOrderWide : ScalarApi.fromBytesModOrderWide = K52.fromBytesModOrderWide := rfl
theorem gen52_isCanonical : ScalarApi.isCanonical = K52.isCanonical := rfl
theorem gen52_fromCanonicalBytes : ScalarApi.fromCanonicalBytes = K52.fromCanonicalBytes := rfl
theorem gen52_fromHash : ScalarApi.fromHash = K52.fromHash := rfl
theorem gen52_add : ScalarApi.add = K52.add := rfl
theorem gen52_sub : ScalarApi.sub = K52.sub := rfl
theorem gen52_mul : ScalarApi.mul = K52.mul := rfl
theorem gen52_neg : ScalarApi.neg = K52.neg := rfl
theorem gen52_sum : ScalarApi.sum = K52.sum := rfl
theorem gen52_product : ScalarApi.product = K52.product := rfl
theorem gen52_montgomeryInvert : ScalarApi.montgomeryInvert = K52.montgomeryInvert := rfl
theorem gen52_invertUnpacked : ScalarApi.invertUnpacked = K52.invertUnpacked := rfl
theorem gen52_invert : ScalarApi.invert = K52.invert := rfl

theorem gen52_batchPass1 : ∀ (ps : List (List Nat × List Nat)) (acc : List Nat),
    ScalarApi.batchPass1 ps acc = K52.batchPass1 ps acc
  | [], _ => rfl
  | (i, s) :: ps, acc => by
      simp only [ScalarApi.batchPass1, ScalarKernels.batchPass1, gen52_batchPass1 ps]
      rfl

theorem gen52_batchPass2 : ∀ (ps : List (List Nat × List Nat)) (acc : List Nat),
    ScalarApi.batchPass2 ps acc = K52.batchPass2 ps acc
  | [], _ => rfl
  | (i, s) :: ps, acc => by
      simp only [ScalarApi.batchPass2, ScalarKernels.batchPass2, gen52_batchPass2 ps]
      rfl

theorem gen52_batchInvert (bs : List (List Nat)) : ScalarApi.batchInvert bs = K52.batchInvert bs := by
  simp only [ScalarApi.batchInvert, ScalarKernels.batchInvert, gen52_batchPass1, gen52_batchPass2]
  rfl

theorem gen52_batchInvertAccPacked (bs : List (List Nat)) :
    ScalarApi.batchInvertAccPacked bs = K52.batchInvertAccPacked bs := by
  simp only [ScalarApi.batchInvertAccPacked, ScalarKernels.batchInvertAccPacked, gen52_batchPass1]
  rfl

end Dalek.Proofs.ScalarApiGen

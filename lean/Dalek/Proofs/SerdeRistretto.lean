/-
RFC 9496 round trip used by the `ristretto` serde type (helper for property C16):

  `Ristretto.decode b = some p  →  Ristretto.encode p = b`

i.e. re-encoding the element DECODEd from `b` gives `b` back: the `(x, y)` computed by DECODE has
`t = x y` non-negative and `x` non-negative, so ENCODE does not rotate and does not negate `y`, and its
`s' = |den2 (1 - y)|` satisfies `s'² = (1 - y)/(1 + y) = s²` with both `s`, `s'` non-negative.
-/
import Dalek.Spec.Ristretto
import Dalek.Proofs.SpecBridge

namespace Dalek.Proofs.Serde
open Dalek.Spec Dalek.Bridge

/-! ## DECODE, unfolded -/

def dU1 (s : Nat) : Nat := fsub 1 (fsq s)
def dU2 (s : Nat) : Nat := fadd 1 (fsq s)
def dV (s : Nat) : Nat := fsub (fneg (fmul D (fsq (dU1 s)))) (fsq (dU2 s))
def dR (s : Nat) : Bool × Nat := sqrtRatioM1 1 (fmul (dV s) (fsq (dU2 s)))
def dX (s : Nat) : Nat := fabs (fmul (fmul 2 s) (fmul (dR s).2 (dU2 s)))
def dY (s : Nat) : Nat := fmul (dU1 s) (fmul (fmul (dR s).2 (fmul (dR s).2 (dU2 s))) (dV s))

theorem decode_unfold (b : List UInt8) :
    Ristretto.decode b =
      if (b.length != 32 || decide (leToNat b ≥ P) || isNeg (leToNat b)) = true then none
      else if (!(dR (leToNat b)).1 || isNeg (fmul (dX (leToNat b)) (dY (leToNat b))) ||
          dY (leToNat b) == 0) = true
        then none else some ⟨dX (leToNat b), dY (leToNat b)⟩ := by
  unfold Ristretto.decode dX dY dR dV dU1 dU2
  dsimp only

/-- What a successful DECODE tells us. -/
theorem decode_some {b : List UInt8} {p : Pt} (h : Ristretto.decode b = some p) :
    b.length = 32 ∧ leToNat b < P ∧ isNeg (leToNat b) = false ∧ (dR (leToNat b)).1 = true ∧
      isNeg (fmul (dX (leToNat b)) (dY (leToNat b))) = false ∧ dY (leToNat b) ≠ 0 ∧
      p = ⟨dX (leToNat b), dY (leToNat b)⟩ := by
  rw [decode_unfold] at h
  by_cases h1 : (b.length != 32 || decide (leToNat b ≥ P) || isNeg (leToNat b)) = true
  · rw [if_pos h1] at h; cases h
  · rw [if_neg h1] at h
    by_cases h2 : (!(dR (leToNat b)).1 || isNeg (fmul (dX (leToNat b)) (dY (leToNat b))) ||
        dY (leToNat b) == 0) = true
    · rw [if_pos h2] at h; cases h
    · rw [if_neg h2] at h
      simp only [Bool.or_eq_true, bne_iff_ne, decide_eq_true_eq, not_or, Bool.not_eq_true,
        Decidable.not_not, Bool.not_eq_eq_eq_not, Bool.not_true, beq_iff_eq] at h1 h2
      refine ⟨h1.1.1, by omega, h1.2, ?_, h2.1.2, h2.2, (Option.some.inj h).symm⟩
      simpa using h2.1.1

/-! ## ENCODE, unfolded -/

def eU1 (p : Pt) : Nat := fmul (fadd 1 p.y) (fsub 1 p.y)
def eU2 (p : Pt) : Nat := fmul p.x p.y
def eJ (p : Pt) : Nat := (sqrtRatioM1 1 (fmul (eU1 p) (fsq (eU2 p)))).2
def eZinv (p : Pt) : Nat := fmul (fmul (fmul (eJ p) (eU1 p)) (fmul (eJ p) (eU2 p))) (fmul p.x p.y)

theorem encode_unfold (p : Pt) :
    Ristretto.encode p =
      let rotate := isNeg (fmul (fmul p.x p.y) (eZinv p))
      let x := if rotate then fmul p.y SQRT_M1 else p.x % P
      let y := if rotate then fmul p.x SQRT_M1 else p.y % P
      let denInv := if rotate then fmul (fmul (eJ p) (eU1 p)) Ristretto.INVSQRT_A_MINUS_D
        else fmul (eJ p) (eU2 p)
      let y := if isNeg (fmul x (eZinv p)) then fneg y else y
      feToBytes (fabs (fmul denInv (fsub 1 y))) := by
  unfold Ristretto.encode Ristretto.encodeExt eZinv eJ eU1 eU2
  dsimp only

/-- If ENCODE neither rotates nor negates, its output is `|J·x·y·(1 - y)|`. -/
theorem encode_no_rotate {p : Pt} (hx : p.x < P) (hy : p.y < P)
    (h1 : fmul (fmul p.x p.y) (eZinv p) = fmul p.x p.y) (h2 : isNeg (fmul p.x p.y) = false)
    (h3 : fmul p.x (eZinv p) = p.x) (h4 : isNeg p.x = false) :
    Ristretto.encode p = feToBytes (fabs (fmul (fmul (eJ p) (eU2 p)) (fsub 1 p.y))) := by
  rw [encode_unfold]
  simp only [h1, h2, Bool.false_eq_true, if_false, Nat.mod_eq_of_lt hx, Nat.mod_eq_of_lt hy, h3, h4]

/-! ## The round trip -/

theorem two_ne_zero_Fp : (2 : Fp) ≠ 0 := Dalek.FieldFacts.two_ne_zero_p

/-- **`ENCODE ∘ DECODE = id`** on the accepted byte strings. -/
theorem ristretto_encode_decode {b : List UInt8} {p : Pt} (h : Ristretto.decode b = some p) :
    Ristretto.encode p = b := by
  obtain ⟨hlen, hsP, hsneg, hflag, htneg, hy0, rfl⟩ := decode_some h
  generalize hs : leToNat b = s at hsP hsneg hflag htneg hy0
  -- the target in terms of `s`
  have hb : b = feToBytes s := by
    unfold feToBytes
    rw [Nat.mod_eq_of_lt hsP, ← hs, ← hlen]; exact (natToLe_leToNat b).symm
  rw [hb]
  have hseven : s % 2 = 0 := by
    have := (isNeg_eq_false_iff s).1 hsneg
    rwa [Nat.mod_eq_of_lt hsP] at this
  have hxP : dX s < P := fabs_lt _
  have hyP : dY s < P := fmul_lt _ _
  have hxneg : isNeg (dX s) = false := isNeg_fabs _
  -- field quantities
  have hI := sqrtRatioM1_ok hflag
  unfold dR at hI hflag
  simp only [cast_fmul, cast_fsq, Nat.cast_one] at hI
  have hYc : ((dY s : Nat) : Fp) =
      ((dU1 s : Nat) : Fp) * ((((dR s).2 : Nat) : Fp) * ((((dR s).2 : Nat) : Fp) * ((dU2 s : Nat) : Fp)) *
        ((dV s : Nat) : Fp)) := by
    unfold dY; simp only [cast_fmul]
  have hXc := cast_fabs (fmul (fmul 2 s) (fmul (dR s).2 (dU2 s)))
  have hXsq := cast_fabs_sq (fmul (fmul 2 s) (fmul (dR s).2 (dU2 s)))
  simp only [cast_fmul, Nat.cast_ofNat] at hXc hXsq
  have hU1c : ((dU1 s : Nat) : Fp) = 1 - (s : Fp) ^ 2 := by
    unfold dU1; simp only [cast_fsub, cast_fsq, Nat.cast_one]
  have hU2c : ((dU2 s : Nat) : Fp) = 1 + (s : Fp) ^ 2 := by
    unfold dU2; simp only [cast_fadd, cast_fsq, Nat.cast_one]
  -- abbreviations
  have hRdef : (sqrtRatioM1 1 (fmul (dV s) (fsq (dU2 s)))).2 = (dR s).2 := rfl
  rw [hRdef] at hI
  generalize hSg : ((s : Nat) : Fp) = S at *
  generalize hIg : (((dR s).2 : Nat) : Fp) = I at *
  generalize hVg : ((dV s : Nat) : Fp) = V at *
  generalize hU1g : ((dU1 s : Nat) : Fp) = U1 at *
  generalize hU2g : ((dU2 s : Nat) : Fp) = U2 at *
  generalize hYg : ((dY s : Nat) : Fp) = Y at *
  generalize hXg : ((dX s : Nat) : Fp) = X at *
  have hXc' : X = 2 * S * (I * U2) ∨ X = -(2 * S * (I * U2)) := by
    rw [← hXg]; unfold dX; simpa only [hSg, hIg, hU2g] using hXc
  have hXsq' : X ^ 2 = (2 * S * (I * U2)) ^ 2 := by
    rw [← hXg]; unfold dX; simpa only [hSg, hIg, hU2g] using hXsq
  -- `I² V U2² = 1`
  have hU2ne : U2 ≠ 0 := by
    rintro rfl; simp at hI
  have hIne : I ≠ 0 := by
    rintro rfl; simp at hI
  have hYU2 : Y * U2 = U1 := by rw [hYc]; linear_combination U1 * hI
  have hYne : Y ≠ 0 := by
    rw [← hYg]; exact fun h0 => hy0 ((cast_eq_zero_of_lt hyP).1 h0)
  have h1pY : (1 + Y) * U2 = 2 := by rw [add_mul, hYU2, hU1c, hU2c]; ring
  have h1mY : (1 - Y) * U2 = 2 * S ^ 2 := by rw [sub_mul, hYU2, hU1c, hU2c]; ring
  have h1pYne : 1 + Y ≠ 0 := by
    intro h0; rw [h0, zero_mul] at h1pY; exact two_ne_zero_Fp h1pY.symm
  -- casts of the ENCODE quantities
  have hE1c : ((eU1 ⟨dX s, dY s⟩ : Nat) : Fp) = (1 + Y) * (1 - Y) := by
    unfold eU1; simp only [cast_fmul, cast_fadd, cast_fsub, Nat.cast_one, hYg]
  have hE2c : ((eU2 ⟨dX s, dY s⟩ : Nat) : Fp) = X * Y := by
    unfold eU2; simp only [cast_fmul, hXg, hYg]
  by_cases hS0 : S = 0
  · -- `s = 0`: the identity element
    have hs0 : s = 0 := (cast_eq_zero_of_lt hsP).1 (hSg ▸ hS0)
    have hX0 : X = 0 := by
      rcases hXc' with h | h <;> rw [h, hS0] <;> ring
    have hx0 : dX s = 0 := (cast_eq_zero_of_lt hxP).1 (hXg ▸ hX0)
    have hxy0 : fmul (dX s) (dY s) = 0 := by rw [hx0]; unfold fmul; simp
    have hz : ∀ a, fmul 0 a = 0 := fun a => by unfold fmul; simp
    rw [encode_no_rotate (p := ⟨dX s, dY s⟩) hxP hyP (by simp only [hxy0, hz]) (by simp only [hxy0, isNeg_zero])
      (by simp only [hx0, hz]) hxneg]
    have : eU2 ⟨dX s, dY s⟩ = 0 := by unfold eU2; exact hxy0
    rw [this]
    have hz' : ∀ a, fmul a 0 = 0 := fun a => by unfold fmul; simp
    rw [hz', hz, hs0]
    rfl
  · -- `s ≠ 0`
    have hXne : X ≠ 0 := by
      rcases hXc' with h | h <;> rw [h]
      · exact mul_ne_zero (mul_ne_zero two_ne_zero_Fp hS0) (mul_ne_zero hIne hU2ne)
      · exact neg_ne_zero.2 (mul_ne_zero (mul_ne_zero two_ne_zero_Fp hS0) (mul_ne_zero hIne hU2ne))
    have hE2ne : X * Y ≠ 0 := mul_ne_zero hXne hYne
    -- `W = E1 E2²` is a non-zero square
    have hW : ((1 + Y) * (1 - Y) * (X * Y) ^ 2) * U2 ^ 2 = (2 * S * (X * Y)) ^ 2 := by
      linear_combination ((1 - Y) * U2 * (X * Y) ^ 2) * h1pY + (2 * (X * Y) ^ 2) * h1mY
    have hWne : (1 + Y) * (1 - Y) * (X * Y) ^ 2 ≠ 0 := by
      intro h0
      rw [h0, zero_mul] at hW
      exact pow_ne_zero 2 (mul_ne_zero (mul_ne_zero two_ne_zero_Fp hS0) hE2ne) hW.symm
    have hWsq : IsSquare ((1 : Fp) / ((1 + Y) * (1 - Y) * (X * Y) ^ 2)) := by
      refine ⟨U2 / (2 * S * (X * Y)), ?_⟩
      have h2 : 2 * S * (X * Y) ≠ 0 := mul_ne_zero (mul_ne_zero two_ne_zero_Fp hS0) hE2ne
      rw [div_mul_div_comm, div_eq_div_iff hWne (mul_ne_zero h2 h2)]
      linear_combination -hW
    have hJ' := sqrtRatioM1_square (u := 1)
      (v := fmul (eU1 ⟨dX s, dY s⟩) (fsq (eU2 ⟨dX s, dY s⟩)))
      (by simp only [cast_fmul, cast_fsq, hE1c, hE2c]; exact hWne)
      (by simp only [cast_fmul, cast_fsq, hE1c, hE2c, Nat.cast_one]; exact hWsq)
    have hJ := hJ'.2
    simp only [cast_fmul, cast_fsq, hE1c, hE2c, Nat.cast_one] at hJ
    have hJdef : (sqrtRatioM1 1 (fmul (eU1 ⟨dX s, dY s⟩) (fsq (eU2 ⟨dX s, dY s⟩)))).2 = eJ ⟨dX s, dY s⟩ := rfl
    rw [hJdef] at hJ
    generalize hJg : ((eJ ⟨dX s, dY s⟩ : Nat) : Fp) = J at hJ
    -- `zInv = 1`
    have hZc : ((eZinv ⟨dX s, dY s⟩ : Nat) : Fp) = 1 := by
      unfold eZinv
      simp only [cast_fmul, hE1c, hE2c, hJg, hXg, hYg]
      linear_combination hJ
    have hmul1 : ∀ a, a < P → fmul a (eZinv ⟨dX s, dY s⟩) = a := by
      intro a ha
      apply eq_of_cast_eq (fmul_lt _ _) ha
      rw [cast_fmul, hZc, mul_one]
    rw [encode_no_rotate (p := ⟨dX s, dY s⟩) hxP hyP (hmul1 _ (fmul_lt _ _)) htneg (hmul1 _ hxP) hxneg]
    -- compare the two non-negative canonical numbers through their squares
    refine congrArg feToBytes ?_
    apply eq_of_sq_eq_of_even (fabs_lt _) hsP (fabs_even _) hseven
    rw [cast_fabs_sq]
    simp only [cast_fmul, cast_fsub, Nat.cast_one, hE2c, hJg, hYg, hSg]
    apply mul_right_cancel₀ h1pYne
    have e1 : (J * (X * Y) * (1 - Y)) ^ 2 * (1 + Y) = 1 - Y := by linear_combination (1 - Y) * hJ
    have e2 : S ^ 2 * (1 + Y) = 1 - Y := by
      apply mul_right_cancel₀ hU2ne
      linear_combination S ^ 2 * h1pY - h1mY
    rw [e1, e2]

/-- `ENCODE` always produces 32 bytes. -/
theorem encode_length (p : Pt) : (Ristretto.encode p).length = 32 := by
  rw [encode_unfold]; exact feToBytes_length _

end Dalek.Proofs.Serde

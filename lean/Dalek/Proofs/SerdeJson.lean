/-
Lexer-level facts about the JSON half of `Dalek.Model.Serde` (helpers for property C16):
whitespace skipping, the `u8` number token (`parseU8`), the canonical decimal printer
(`natToDec`), the element reader (`readElems`) and the end-of-sequence test — each in BOTH directions:

* forward ("evaluation"): on a text built from tokens and whitespace by `arrayText` the parser
  computes exactly the stated result (`readElems_restText`, `jsonDe_arrayText`);
* backward ("inversion"): whenever the parser succeeds, the input has that shape (`parseU8_some`,
  `readElems_some`, `jsonDe_ok_inv`).

Only core Lean + `omega`/`decide`; no Mathlib is needed here.
-/
import Dalek.Model.Serde

namespace Dalek.Proofs.Serde
open Dalek.Spec Dalek.Model.Serde

/-! ## Characters -/

theorem isDigit_iff (c : UInt8) : isDigit c = true ↔ 48 ≤ c.toNat ∧ c.toNat ≤ 57 := by
  unfold isDigit
  simp [UInt8.le_iff_toNat_le]

theorem isWs_iff (c : UInt8) :
    isWs c = true ↔ c.toNat = 32 ∨ c.toNat = 10 ∨ c.toNat = 9 ∨ c.toNat = 13 := by
  unfold isWs
  simp [← UInt8.toNat_inj, or_assoc]

/-- Whitespace only (` `, `\n`, `\t`, `\r`). -/
def AllWs (w : List UInt8) : Prop := ∀ c ∈ w, isWs c = true

theorem allWs_nil : AllWs [] := fun _ h => by cases h

theorem allWs_cons {c : UInt8} {w : List UInt8} : AllWs (c :: w) ↔ isWs c = true ∧ AllWs w := by
  unfold AllWs; simp

theorem allWs_append {a b : List UInt8} : AllWs (a ++ b) ↔ AllWs a ∧ AllWs b := by
  unfold AllWs; simp only [List.mem_append]
  constructor
  · intro h; exact ⟨fun c hc => h c (Or.inl hc), fun c hc => h c (Or.inr hc)⟩
  · rintro ⟨h1, h2⟩ c (hc | hc)
    · exact h1 c hc
    · exact h2 c hc

/-- the character test of `parseU8`: the number token is continued by a digit, `.`, `e` or `E` -/
def contB : List UInt8 → Bool
  | c :: _ => isDigit c || c == 0x2e || c == 0x65 || c == 0x45
  | [] => false

/-- `r` does not start with a digit. -/
def NoDigitHead (r : List UInt8) : Prop := ∀ c r', r = c :: r' → isDigit c = false

theorem contB_cons_iff (c : UInt8) (r : List UInt8) :
    contB (c :: r) = true ↔ isDigit c = true ∨ c.toNat = 46 ∨ c.toNat = 101 ∨ c.toNat = 69 := by
  simp [contB, ← UInt8.toNat_inj, or_assoc]

theorem noDigitHead_of_contB {r : List UInt8} (h : contB r = false) : NoDigitHead r := by
  intro c r' hr
  subst hr
  cases hd : isDigit c
  · rfl
  · have : contB (c :: r') = true := (contB_cons_iff c r').2 (Or.inl hd)
    rw [h] at this; cases this

theorem contB_of_isWs {c : UInt8} {r : List UInt8} (h : isWs c = true) : contB (c :: r) = false := by
  cases hc : contB (c :: r)
  · rfl
  · rw [contB_cons_iff, isDigit_iff] at hc
    rw [isWs_iff] at h
    omega

theorem isDigit_not_ws {c : UInt8} (h : isDigit c = true) : isWs c = false := by
  cases hw : isWs c
  · rfl
  · rw [isWs_iff] at hw; rw [isDigit_iff] at h; omega

theorem contB_comma (r : List UInt8) : contB (0x2c :: r) = false := by
  simp [contB]; decide

theorem contB_rbracket (r : List UInt8) : contB (0x5d :: r) = false := by
  simp [contB]; decide

/-! ## `skipWs` -/

theorem skipWs_append_of_allWs {w : List UInt8} (hw : AllWs w) (s : List UInt8) :
    skipWs (w ++ s) = skipWs s := by
  induction w with
  | nil => rfl
  | cons c w ih =>
    rw [allWs_cons] at hw
    simp only [List.cons_append, skipWs, hw.1, if_true]
    exact ih hw.2

theorem skipWs_cons_of_not_ws {c : UInt8} (h : isWs c = false) (s : List UInt8) :
    skipWs (c :: s) = c :: s := by
  simp [skipWs, h]

theorem skipWs_of_allWs {w : List UInt8} (hw : AllWs w) : skipWs w = [] := by
  have := skipWs_append_of_allWs hw []
  simpa [skipWs] using this

/-- `skipWs` removes a whitespace prefix and stops at a non-whitespace character. -/
theorem skipWs_spec (s : List UInt8) :
    ∃ w, AllWs w ∧ s = w ++ skipWs s ∧ ∀ c r, skipWs s = c :: r → isWs c = false := by
  induction s with
  | nil => exact ⟨[], allWs_nil, rfl, fun c r h => by simp [skipWs] at h⟩
  | cons a s ih =>
    by_cases ha : isWs a = true
    · obtain ⟨w, hw, hs, hh⟩ := ih
      refine ⟨a :: w, allWs_cons.2 ⟨ha, hw⟩, ?_, ?_⟩
      · simp only [skipWs, ha, if_true, List.cons_append]; rw [← hs]
      · simpa only [skipWs, ha, if_true] using hh
    · have ha' : isWs a = false := by simpa using ha
      refine ⟨[], allWs_nil, ?_, ?_⟩
      · simp [skipWs, ha']
      · intro c r h
        rw [skipWs_cons_of_not_ws ha'] at h
        cases h; exact ha'

theorem skipWs_isEmpty_iff (s : List UInt8) : (skipWs s).isEmpty = true ↔ AllWs s := by
  constructor
  · intro h
    obtain ⟨w, hw, hs, -⟩ := skipWs_spec s
    have : skipWs s = [] := by simpa using h
    rw [this, List.append_nil] at hs
    rw [hs]; exact hw
  · intro h; rw [skipWs_of_allWs h]; rfl

/-! ## Number tokens -/

/-- value of a digit string -/
def tokVal (t : List UInt8) : Nat := t.foldl (fun a c => a * 10 + (c.toNat - 0x30)) 0

/-- the `u8` denoted by a token -/
def tokByte (t : List UInt8) : UInt8 := UInt8.ofNat (tokVal t)

/-- a non-empty string of ASCII digits -/
def IsDigits (t : List UInt8) : Prop := t ≠ [] ∧ ∀ c ∈ t, isDigit c = true

/-- the digit strings that `u8::deserialize` accepts: no leading zero (except `0` itself), value ≤ 255 -/
def TokOK (t : List UInt8) : Prop := (t = [0x30] ∨ t.head? ≠ some 0x30) ∧ tokVal t ≤ 255

instance (t : List UInt8) : Decidable (TokOK t) := by unfold TokOK; infer_instance

theorem takeDigits_append (t r : List UInt8) (ht : ∀ c ∈ t, isDigit c = true) (hr : NoDigitHead r)
    (acc n : Nat) :
    takeDigits (t ++ r) acc n = (t.foldl (fun a c => a * 10 + (c.toNat - 0x30)) acc, n + t.length, r) := by
  induction t generalizing acc n with
  | nil =>
    cases r with
    | nil => simp [takeDigits]
    | cons c r' => simp [takeDigits, hr c r' rfl]
  | cons c t ih =>
    have hc := ht c (List.mem_cons_self ..)
    simp only [List.cons_append, takeDigits, hc, if_true, List.foldl_cons, List.length_cons]
    rw [ih (fun c hc => ht c (List.mem_cons_of_mem _ hc)),
      show n + 1 + t.length = n + (t.length + 1) by omega]

theorem takeDigits_inv (s : List UInt8) (acc n : Nat) :
    ∃ t, s = t ++ (takeDigits s acc n).2.2 ∧ (∀ c ∈ t, isDigit c = true) ∧
      NoDigitHead (takeDigits s acc n).2.2 ∧
      (takeDigits s acc n).1 = t.foldl (fun a c => a * 10 + (c.toNat - 0x30)) acc := by
  induction s generalizing acc n with
  | nil => exact ⟨[], rfl, fun _ h => (by cases h), fun c r h => (by simp [takeDigits] at h), rfl⟩
  | cons c s ih =>
    by_cases hc : isDigit c = true
    · obtain ⟨t, h1, h2, h3, h4⟩ := ih (acc * 10 + (c.toNat - 0x30)) (n + 1)
      refine ⟨c :: t, ?_, ?_, ?_, ?_⟩
      · simp only [takeDigits, hc, if_true, List.cons_append]; rw [← h1]
      · intro d hd
        rcases List.mem_cons.1 hd with rfl | hd
        · exact hc
        · exact h2 d hd
      · simpa only [takeDigits, hc, if_true] using h3
      · simpa only [takeDigits, hc, if_true, List.foldl_cons] using h4
    · have hc' : isDigit c = false := by simpa using hc
      refine ⟨[], ?_, fun _ h => (by cases h), ?_, ?_⟩
      · simp [takeDigits, hc']
      · intro d r h
        simp only [takeDigits, hc', Bool.false_eq_true, if_false] at h
        cases h; exact hc'
      · simp [takeDigits, hc']

theorem parseU8_nil : parseU8 [] = none := by
  unfold parseU8; simp

theorem parseU8_zero (s : List UInt8) :
    parseU8 (0x30 :: s) = if contB s then none else some (0, s) := by
  cases s <;> simp [parseU8, contB]

theorem parseU8_cons (c : UInt8) (s : List UInt8) (hc : c ≠ 0x30) :
    parseU8 (c :: s) =
      if isDigit c then
        (if contB (takeDigits (c :: s) 0 0).2.2 || decide ((takeDigits (c :: s) 0 0).1 > 255) then none
         else some (UInt8.ofNat (takeDigits (c :: s) 0 0).1, (takeDigits (c :: s) 0 0).2.2))
      else none := by
  unfold parseU8
  split
  · rename_i h; simp at h; exact absurd h.1 hc
  · rename_i h; simp at h
    obtain ⟨rfl, rfl⟩ := h
    by_cases hd : isDigit c = true
    · simp only [hd, if_true]
      generalize (takeDigits (c :: s) 0 0) = q
      obtain ⟨v, n, r⟩ := q
      cases r <;> simp [contB]
    · simp [hd]
  · rename_i h; simp at h

theorem isDigit_zero : isDigit 0x30 = true := by decide

/-- **Evaluation of `parseU8` on a digit string** followed by something that is not a digit. -/
theorem parseU8_tok {t r : List UInt8} (ht : IsDigits t) (hr : NoDigitHead r) :
    parseU8 (t ++ r) = if TokOK t ∧ contB r = false then some (tokByte t, r) else none := by
  obtain ⟨hne, hd⟩ := ht
  cases t with
  | nil => exact absurd rfl hne
  | cons c t' =>
    by_cases hc : c = 0x30
    · subst hc
      rw [List.cons_append, parseU8_zero]
      cases t' with
      | nil =>
        have hok : TokOK [0x30] := ⟨Or.inl rfl, by decide⟩
        cases hcr : contB r
        · simp [hok, tokByte, tokVal, hcr]
        · simp [hcr]
      | cons d t'' =>
        have hdd : isDigit d = true := hd d (by simp)
        have hcont : contB (d :: (t'' ++ r)) = true := by
          rw [contB_cons_iff]; exact Or.inl hdd
        have hnok : ¬ TokOK (0x30 :: d :: t'') := by
          rintro ⟨h | h, -⟩
          · simp at h
          · simp at h
        simp [hcont, hnok]
    · have hcd : isDigit c = true := hd c (by simp)
      rw [List.cons_append, parseU8_cons c _ hc, ← List.cons_append,
        takeDigits_append (c :: t') r hd hr 0 0]
      have hhead : ((c :: t') = [0x30] ∨ (c :: t').head? ≠ some 0x30) := by
        right; simpa using hc
      have hTok : TokOK (c :: t') ↔ tokVal (c :: t') ≤ 255 := by
        unfold TokOK; exact ⟨fun h => h.2, fun h => ⟨hhead, h⟩⟩
      rw [if_pos hcd]
      simp only [hTok, tokByte]
      show (if (contB r || decide (tokVal (c :: t') > 255)) = true then none
        else some (UInt8.ofNat (tokVal (c :: t')), r)) = _
      generalize tokVal (c :: t') = v
      cases hcr : contB r
      · by_cases hv : v ≤ 255
        · have : ¬ v > 255 := by omega
          simp [hv, this]
        · have : v > 255 := by omega
          simp [hv, this]
      · simp

/-- **Inversion of `parseU8`**: it only accepts `TokOK` digit strings not continued by a digit,
`.`, `e`, `E`. -/
theorem parseU8_some {s r : List UInt8} {u : UInt8} (h : parseU8 s = some (u, r)) :
    ∃ t, s = t ++ r ∧ IsDigits t ∧ TokOK t ∧ u = tokByte t ∧ contB r = false := by
  cases s with
  | nil => rw [parseU8_nil] at h; cases h
  | cons c s' =>
    by_cases hc : c = 0x30
    · subst hc
      rw [parseU8_zero] at h
      cases hcr : contB s'
      · rw [hcr] at h
        simp only [Bool.false_eq_true, if_false, Option.some.injEq, Prod.mk.injEq] at h
        obtain ⟨rfl, rfl⟩ := h
        refine ⟨[0x30], rfl, ⟨by simp, ?_⟩, ⟨Or.inl rfl, by decide⟩, by decide, hcr⟩
        intro d hd; simp at hd; subst hd; exact isDigit_zero
      · rw [hcr] at h; simp at h
    · rw [parseU8_cons c s' hc] at h
      by_cases hcd : isDigit c = true
      · simp only [hcd, if_true] at h
        obtain ⟨t, h1, h2, h3, h4⟩ := takeDigits_inv (c :: s') 0 0
        by_cases hbad : (contB (takeDigits (c :: s') 0 0).2.2 ||
            decide ((takeDigits (c :: s') 0 0).1 > 255)) = true
        · rw [if_pos hbad] at h; cases h
        · rw [if_neg hbad] at h
          simp only [Option.some.injEq, Prod.mk.injEq] at h
          obtain ⟨hu, hr⟩ := h
          simp only [Bool.or_eq_true, decide_eq_true_eq, not_or, Bool.not_eq_true] at hbad
          rw [hr] at h1 h3 hbad
          -- `t` is not empty: it starts with `c`
          have htne : t ≠ [] := by
            rintro rfl
            rw [List.nil_append] at h1
            exact absurd (h3 c s' h1.symm) (by simp [hcd])
          obtain ⟨c', t', rfl⟩ := List.exists_cons_of_ne_nil htne
          have hcc : c' = c := by
            rw [List.cons_append] at h1; exact (List.cons.inj h1).1.symm
          subst hcc
          refine ⟨c' :: t', h1, ⟨htne, h2⟩, ⟨Or.inr (by simpa using hc), ?_⟩, ?_, hbad.1⟩
          · unfold tokVal; rw [← h4]; omega
          · unfold tokByte tokVal; rw [← h4, hu]
      · simp [hcd] at h

/-! ## The canonical decimal printer -/

/-- reference printer for numbers below 1000 (structural; `natToDec` goes through `toString`) -/
def refDec (n : Nat) : List UInt8 :=
  if n < 10 then [UInt8.ofNat (48 + n)]
  else if n < 100 then [UInt8.ofNat (48 + n / 10), UInt8.ofNat (48 + n % 10)]
  else [UInt8.ofNat (48 + n / 100), UInt8.ofNat (48 + n / 10 % 10), UInt8.ofNat (48 + n % 10)]

/-- `natToDec` (= `toString` as UTF-8 bytes) prints bytes as 1–3 decimal digits without leading
zeros (kernel evaluation of `toString` on the 256 values). -/
theorem natToDec_eq_refDec : ∀ n, n < 256 → natToDec n = refDec n := by decide +kernel

/-- digit character of a digit value -/
def dc (d : Nat) : UInt8 := UInt8.ofNat (48 + d)

theorem eq_dc_of_isDigit {c : UInt8} (h : isDigit c = true) : c = dc (c.toNat - 48) ∧ c.toNat - 48 < 10 := by
  rw [isDigit_iff] at h
  refine ⟨?_, by omega⟩
  unfold dc
  have : 48 + (c.toNat - 48) = c.toNat := by omega
  rw [this, UInt8.ofNat_toNat]

/-- every accepted token of at most three digits is the canonical print-out of its value
(exhaustive kernel check over all digit triples) -/
theorem tok1_canon : ∀ d1, d1 < 10 → TokOK [dc d1] → [dc d1] = natToDec (tokVal [dc d1]) := by
  decide +kernel
theorem tok2_canon : ∀ d1, d1 < 10 → ∀ d2, d2 < 10 → TokOK [dc d1, dc d2] →
    [dc d1, dc d2] = natToDec (tokVal [dc d1, dc d2]) := by
  decide +kernel
theorem tok3_canon : ∀ d1, d1 < 10 → ∀ d2, d2 < 10 → ∀ d3, d3 < 10 → TokOK [dc d1, dc d2, dc d3] →
    [dc d1, dc d2, dc d3] = natToDec (tokVal [dc d1, dc d2, dc d3]) := by
  decide +kernel

theorem foldl_dec_ge (t : List UInt8) (acc : Nat) :
    acc ≤ t.foldl (fun a c => a * 10 + (c.toNat - 0x30)) acc := by
  induction t generalizing acc with
  | nil => exact Nat.le_refl _
  | cons c t ih =>
    rw [List.foldl_cons]
    exact Nat.le_trans (by omega) (ih _)

/-- **The accepted tokens are exactly the canonical decimal forms**: a `TokOK` digit string is
`natToDec` of its value. -/
theorem tok_canonical {t : List UInt8} (ht : IsDigits t) (hok : TokOK t) : t = natToDec (tokVal t) := by
  obtain ⟨hne, hd⟩ := ht
  match t, hne, hd, hok with
  | [c1], _, hd, hok =>
    obtain ⟨e1, l1⟩ := eq_dc_of_isDigit (hd c1 (by simp))
    rw [e1] at hok ⊢
    exact tok1_canon _ l1 hok
  | [c1, c2], _, hd, hok =>
    obtain ⟨e1, l1⟩ := eq_dc_of_isDigit (hd c1 (by simp))
    obtain ⟨e2, l2⟩ := eq_dc_of_isDigit (hd c2 (by simp))
    rw [e1, e2] at hok ⊢
    exact tok2_canon _ l1 _ l2 hok
  | [c1, c2, c3], _, hd, hok =>
    obtain ⟨e1, l1⟩ := eq_dc_of_isDigit (hd c1 (by simp))
    obtain ⟨e2, l2⟩ := eq_dc_of_isDigit (hd c2 (by simp))
    obtain ⟨e3, l3⟩ := eq_dc_of_isDigit (hd c3 (by simp))
    rw [e1, e2, e3] at hok ⊢
    exact tok3_canon _ l1 _ l2 _ l3 hok
  | c1 :: c2 :: c3 :: c4 :: t', _, hd, hok =>
    exfalso
    obtain ⟨hh, hv⟩ := hok
    have h1 := (isDigit_iff c1).1 (hd c1 (by simp))
    have hc1 : c1 ≠ 0x30 := by
      rcases hh with h | h
      · simp at h
      · simpa using h
    have hc1' : c1.toNat ≠ 48 := fun h => hc1 (UInt8.toNat_inj.1 h)
    unfold tokVal at hv
    simp only [List.foldl_cons] at hv
    have := foldl_dec_ge t'
      ((((0 * 10 + (c1.toNat - 0x30)) * 10 + (c2.toNat - 0x30)) * 10 + (c3.toNat - 0x30)) * 10 +
        (c4.toNat - 0x30))
    omega

/-- the canonical print-out of a byte is an accepted token denoting that byte -/
theorem natToDec_ok : ∀ n, n < 256 →
    (natToDec n ≠ [] ∧ (natToDec n).all isDigit = true) ∧ TokOK (natToDec n) ∧ tokVal (natToDec n) = n := by
  decide +kernel

theorem isDigits_natToDec {n : Nat} (h : n < 256) : IsDigits (natToDec n) := by
  obtain ⟨⟨h1, h2⟩, -⟩ := natToDec_ok n h
  exact ⟨h1, fun c hc => (List.all_eq_true.1 h2) c hc⟩

theorem tokOK_natToDec {n : Nat} (h : n < 256) : TokOK (natToDec n) := (natToDec_ok n h).2.1

theorem tokVal_natToDec {n : Nat} (h : n < 256) : tokVal (natToDec n) = n := (natToDec_ok n h).2.2

theorem tokByte_natToDec (b : UInt8) : tokByte (natToDec b.toNat) = b := by
  unfold tokByte; rw [tokVal_natToDec (UInt8.toNat_lt b), UInt8.ofNat_toNat]

theorem natToDec_tokByte {t : List UInt8} (ht : IsDigits t) (hok : TokOK t) :
    natToDec (tokByte t).toNat = t := by
  unfold tokByte
  rw [UInt8.toNat_ofNat']
  have : tokVal t % 2 ^ 8 = tokVal t := Nat.mod_eq_of_lt (by have := hok.2; omega)
  rw [this]; exact (tok_canonical ht hok).symm

end Dalek.Proofs.Serde

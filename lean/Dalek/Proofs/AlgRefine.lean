import Dalek.Proofs.AlgBoundsSound
import Dalek.Proofs.AlgZModLemmas
import Dalek.Proofs.Bytes51
/-!
# Limb-level execution of the translated formulas REFINES their field-level meaning (generic part)

Links C01 (kernel value theorems), C11 (no overflow) and C03/C06/C07 (algebra over `zmodOps`).

The kernel value theorems of C01 (`mul_spec`, …) hold for inputs inside the DOCUMENTED CONTRACT of each kernel
(their proof goes through the normal form computed by the analyser at the contract vector).  So the abstract
interpretation used here, `specOps B C`, is the "contracts compose" one: every operation checks that its operands
are inside the contract vectors `C` of the kernel and returns the fixed post-condition of the contract
(`add`, which does not reduce, returns the analysed bound of the regenerated `add` kernel at the actual operand
vectors).  It evaluates in milliseconds.

`specOps_rel`: if the kernels of the backend satisfy their value theorems (`BackendSpec`), then `specOps B C` is
operation-wise related to the TRIPLE (debug-build limbs, release-build limbs, element of `ZMod p`): whenever the
contract check of an operation succeeds, the debug build does not panic, equals the release build, the limbs are
inside the bound vector, and their VALUE is the result of the field operation on the values of the operands
(a choice `[c]`, `c < 2`, has the value `c`).

`formula_refines` (by `AProg.run_rel`): for a formula passing `specCheck`, for all limb inputs inside the input
invariants, the release-build limb execution returns limbs whose values are exactly the `zmodOps` run on the
values of the inputs (and nothing panics, and the outputs are inside the output invariants).
-/
namespace Dalek.Proofs.AlgRefine
open Dalek.IR Dalek.Model.AlgBounds Dalek.Proofs.AlgBoundsSound Dalek.Proofs
open Dalek.Model.FieldBytes (natToLeN leVal)

/-! ## contracts and the contract-composition interpretation -/

/-- the documented contract vectors of the kernels of one backend -/
structure Contract where
  /-- post-condition of the reducing kernels (`mul`, `square`, `sub`, `neg`, `pow2k`) -/
  red : List Itv
  preAddA : List Itv
  preAddB : List Itv
  preSubA : List Itv
  preSubB : List Itv
  preMulA : List Itv
  preMulB : List Itv
  preNeg : List Itv
  preSq : List Itv
  preSq2 : List Itv
  postSq2 : List Itv
  prePow : List Itv
  preBytes : List Itv

def guard2 (pa pb : List Itv) (f : List Itv → List Itv → AVal) (a b : AVal) : AVal :=
  match a, b with
  | some x, some y => if itvsLe x pa && itvsLe y pb then f x y else none
  | _, _ => none

def guard1 (pa : List Itv) (r : AVal) (a : AVal) : AVal :=
  match a with
  | some x => if itvsLe x pa then r else none
  | none => none

def specOps (B : Backend) (C : Contract) : FOps AVal where
  add := guard2 C.preAddA C.preAddB (fun x y => absK B.add (x ++ y))
  sub := guard2 C.preSubA C.preSubB (fun _ _ => some C.red)
  mul := guard2 C.preMulA C.preMulB (fun _ _ => some C.red)
  neg := guard1 C.preNeg (some C.red)
  square := guard1 C.preSq (some C.red)
  square2 := guard1 C.preSq2 (some C.postSq2)
  pow2k := fun a k => if k = 0 then none else guard1 C.prePow (some C.red) a
  const := (boundOps B).const
  ctEq := guard2 C.preBytes C.preBytes (fun _ _ => some choiceItv)
  isNeg := guard1 C.preBytes (some choiceItv)
  isZero := guard1 C.preBytes (some choiceItv)
  cand := absCh2
  cor := absCh2
  cxor := absCh2
  cnot := absCh1
  csel := absSel
  dflt := none

/-- every statement of `F` passes the contract checks from the input vectors `pre`, outputs inside `post` -/
def specCheck (B : Backend) (C : Contract) (F : AProg) (pre post : List (List Itv)) : Bool :=
  pre.length == F.nIn && allSome (arunBody (specOps B C) F.body (pre.map some)) &&
    outsLe (F.run (specOps B C) (pre.map some)) post

def Sig.refOk (B : Backend) (C : Contract) (s : Sig) : Bool := specCheck B C s.F s.pre s.post

/-! ## what the kernels of a backend must satisfy (instantiated from the C01 theorems) -/

/-- canonical 32-byte little-endian encoding of a field element -/
def enc (z : Fp) : List Nat := natToLeN z.val 32

structure BackendSpec (B : Backend) (C : Contract) (val : List Nat → Fp) : Prop where
  add : ∀ a b, EnvIn a C.preAddA → EnvIn b C.preAddB →
    B.add.evalC (a ++ b) = some (B.add.evalW (a ++ b)) ∧ val (B.add.evalW (a ++ b)) = val a + val b
  sub : ∀ a b, EnvIn a C.preSubA → EnvIn b C.preSubB →
    B.sub.evalC (a ++ b) = some (B.sub.evalW (a ++ b)) ∧ EnvIn (B.sub.evalW (a ++ b)) C.red ∧
      val (B.sub.evalW (a ++ b)) = val a - val b
  mul : ∀ a b, EnvIn a C.preMulA → EnvIn b C.preMulB →
    B.mul.evalC (a ++ b) = some (B.mul.evalW (a ++ b)) ∧ EnvIn (B.mul.evalW (a ++ b)) C.red ∧
      val (B.mul.evalW (a ++ b)) = val a * val b
  neg : ∀ a, EnvIn a C.preNeg →
    concSeq [B.neg] a = some (wrapSeq [B.neg] a) ∧ EnvIn (wrapSeq [B.neg] a) C.red ∧
      val (wrapSeq [B.neg] a) = - val a
  square : ∀ a, EnvIn a C.preSq →
    concSeq B.square a = some (wrapSeq B.square a) ∧ EnvIn (wrapSeq B.square a) C.red ∧
      val (wrapSeq B.square a) = val a * val a
  square2 : ∀ a, EnvIn a C.preSq2 →
    concSeq B.square2 a = some (wrapSeq B.square2 a) ∧ EnvIn (wrapSeq B.square2 a) C.postSq2 ∧
      val (wrapSeq B.square2 a) = 2 * (val a * val a)
  pow : ∀ k a, EnvIn a C.prePow →
    iterC B.powBody (k + 1) a = some (iterW B.powBody (k + 1) a) ∧ EnvIn (iterW B.powBody (k + 1) a) C.red ∧
      val (iterW B.powBody (k + 1) a) = val a ^ (2 ^ (k + 1))
  const : ∀ i l, B.consts[i]? = some l → val l = zmodOps.const i
  bytes : ∀ a, EnvIn a C.preBytes →
    B.asBytes.evalC a = some (B.asBytes.evalW a) ∧ B.asBytes.evalW a = enc (val a)
  choice : ∀ c : Nat, val [c] = (c : Fp)

/-! ## facts about the canonical encoding -/

theorem leVal_enc (z : Fp) : leVal (enc z) = z.val := by
  unfold enc
  rw [Dalek.Proofs.Bytes51.leVal_natToLeN]
  exact Nat.mod_eq_of_lt (lt_trans (ZMod.val_lt z) (by norm_num))

theorem enc_inj {z w : Fp} (h : enc z = enc w) : z = w := by
  have := congrArg leVal h
  rw [leVal_enc, leVal_enc] at this
  exact ZMod.val_injective _ this

theorem negBit_enc (z : Fp) : negBit (enc z) = z.val % 2 := by
  unfold negBit enc
  show (natToLeN z.val (31 + 1)).getD 0 0 % 2 = _
  simp only [natToLeN, List.getD_cons_zero]
  omega

theorem leVal_eq_zero_of_all : ∀ (bs : List Nat), bs.all (· == 0) = true → leVal bs = 0
  | [], _ => rfl
  | b :: bs, h => by
      simp only [List.all_cons, Bool.and_eq_true, beq_iff_eq] at h
      simp only [leVal, h.1, leVal_eq_zero_of_all bs h.2]

theorem zeroBit_enc (z : Fp) : zeroBit (enc z) = b2n (decide (z = 0)) := by
  unfold zeroBit
  congr 1
  by_cases hz : z = 0
  · subst hz
    simp only [decide_true]
    show (natToLeN (0 : Fp).val 32).all (· == 0) = true
    rw [ZMod.val_zero]
    decide
  · simp only [hz, decide_false]
    cases hall : (enc z).all (· == 0) with
    | false => rfl
    | true =>
      exfalso
      have h0 := leVal_eq_zero_of_all _ hall
      rw [leVal_enc] at h0
      exact hz ((ZMod.val_eq_zero z).1 h0)

/-! ## the three-way relation -/

/-- (debug-build result, release-build result), element of the field -/
abbrev TVal := PVal × Fp

/-- the carrier-level interpretation: limbs in both builds and the field -/
noncomputable def tripleOps (B : Backend) : FOps TVal := prodOps (prodOps (limbOps B) (limbOpsW B)) zmodOps

/-- a successful contract check implies: no panic, both builds agree, the limbs are inside the bound vector, and
their VALUE is the field-level value -/
def R3 (val : List Nat → Fp) (a : AVal) (p : TVal) : Prop :=
  ∀ I, a = some I → p.1.1 = some p.1.2 ∧ EnvIn p.1.2 I ∧ val p.1.2 = p.2

theorem guard2_some {pa pb : List Itv} {f : List Itv → List Itv → AVal} {a b : AVal} {I : List Itv}
    (h : guard2 pa pb f a b = some I) :
    ∃ x y, a = some x ∧ b = some y ∧ itvsLe x pa = true ∧ itvsLe y pb = true ∧ f x y = some I := by
  match a, b, h with
  | some x, some y, h =>
    simp only [guard2] at h
    split at h
    · rename_i hg
      simp only [Bool.and_eq_true] at hg
      exact ⟨x, y, rfl, rfl, hg.1, hg.2, h⟩
    · cases h
  | none, _, h => simp [guard2] at h
  | some _, none, h => simp [guard2] at h

theorem guard1_some {pa : List Itv} {r a : AVal} {I : List Itv} (h : guard1 pa r a = some I) :
    ∃ x, a = some x ∧ itvsLe x pa = true ∧ r = some I := by
  match a, h with
  | some x, h =>
    simp only [guard1] at h
    split at h
    · rename_i hg
      exact ⟨x, rfl, hg, h⟩
    · cases h
  | none, h => simp [guard1] at h

section
variable {B : Backend} {C : Contract} {val : List Nat → Fp} (S : BackendSpec B C val)
include S

theorem choice_facts {c : List Itv} {l : List Nat} {z : Fp} (hc : isChoice c = true) (hl : EnvIn l c)
    (hv : val l = z) : ∃ x, l = [x] ∧ x < 2 ∧ z = (x : Fp) := by
  obtain ⟨x, rfl, hx⟩ := isChoice_sound hc hl
  exact ⟨x, rfl, hx, by rw [← hv, S.choice]⟩

theorem rel3_ch2 (f : Nat → Nat → Nat) (g : Fp → Fp → Fp) (hf : ∀ x y, x < 2 → y < 2 → f x y < 2)
    (hfg : ∀ x y : Nat, x < 2 → y < 2 → ((f x y : Nat) : Fp) = g x y)
    {a b : AVal} {a' b' : TVal} (ha : R3 val a a') (hb : R3 val b b') :
    R3 val (absCh2 a b) ((concCh2 f a'.1.1 b'.1.1, [f (a'.1.2.getD 0 0) (b'.1.2.getD 0 0)]), g a'.2 b'.2) := by
  intro I hI
  match a, b, hI with
  | some x, some y, hI =>
    obtain ⟨ha1, ha2, ha3⟩ := ha x rfl
    obtain ⟨hb1, hb2, hb3⟩ := hb y rfl
    simp only [absCh2] at hI
    split at hI
    · rename_i hc
      simp only [Bool.and_eq_true] at hc
      simp only [Option.some.injEq] at hI
      subst hI
      obtain ⟨u, hu, hu2, hu3⟩ := choice_facts S hc.1 ha2 ha3
      obtain ⟨v, hv, hv2, hv3⟩ := choice_facts S hc.2 hb2 hb3
      refine ⟨?_, ?_, ?_⟩
      · simp only [ha1, hb1, hu, hv, concCh2, hu2, hv2, and_self, if_true, List.getD_cons_zero]
      · simp only [hu, hv, List.getD_cons_zero]
        exact EnvIn_choice (hf u v hu2 hv2)
      · simp only [hu, hv, List.getD_cons_zero, S.choice, hu3, hv3]
        exact hfg u v hu2 hv2
    · cases hI
  | none, _, hI => simp [absCh2] at hI
  | some _, none, hI => simp [absCh2] at hI

end

theorem two_cases {x : Nat} (h : x < 2) : x = 0 ∨ x = 1 := by omega

/-- **Operation-wise refinement**: limbs (both builds) and field values, related through the contract checks. -/
theorem specOps_rel {B : Backend} {C : Contract} {val : List Nat → Fp} (S : BackendSpec B C val) :
    FOps.Rel (R3 val) (specOps B C) (tripleOps B) where
  add := by
    intro a b a' b' ha hb I hI
    obtain ⟨x, y, rfl, rfl, hx, hy, hf⟩ := guard2_some hI
    obtain ⟨ha1, ha2, ha3⟩ := ha x rfl
    obtain ⟨hb1, hb2, hb3⟩ := hb y rfl
    obtain ⟨s1, s2⟩ := S.add _ _ (EnvIn_of_itvsLe ha2 hx) (EnvIn_of_itvsLe hb2 hy)
    obtain ⟨_, k2⟩ := absK_sound hf (EnvIn_append _ _ ha2 hb2)
    refine ⟨?_, k2, ?_⟩
    · show concBin B.add a'.1.1 b'.1.1 = _
      simp only [ha1, hb1, concBin, s1]; rfl
    · show val (B.add.evalW (a'.1.2 ++ b'.1.2)) = a'.2 + b'.2
      rw [s2, ha3, hb3]
  sub := by
    intro a b a' b' ha hb I hI
    obtain ⟨x, y, rfl, rfl, hx, hy, hf⟩ := guard2_some hI
    obtain ⟨ha1, ha2, ha3⟩ := ha x rfl
    obtain ⟨hb1, hb2, hb3⟩ := hb y rfl
    obtain ⟨s1, s2, s3⟩ := S.sub _ _ (EnvIn_of_itvsLe ha2 hx) (EnvIn_of_itvsLe hb2 hy)
    cases hf
    refine ⟨?_, s2, ?_⟩
    · show concBin B.sub a'.1.1 b'.1.1 = _
      simp only [ha1, hb1, concBin, s1]; rfl
    · show val (B.sub.evalW (a'.1.2 ++ b'.1.2)) = a'.2 - b'.2
      rw [s3, ha3, hb3]
  mul := by
    intro a b a' b' ha hb I hI
    obtain ⟨x, y, rfl, rfl, hx, hy, hf⟩ := guard2_some hI
    obtain ⟨ha1, ha2, ha3⟩ := ha x rfl
    obtain ⟨hb1, hb2, hb3⟩ := hb y rfl
    obtain ⟨s1, s2, s3⟩ := S.mul _ _ (EnvIn_of_itvsLe ha2 hx) (EnvIn_of_itvsLe hb2 hy)
    cases hf
    refine ⟨?_, s2, ?_⟩
    · show concBin B.mul a'.1.1 b'.1.1 = _
      simp only [ha1, hb1, concBin, s1]; rfl
    · show val (B.mul.evalW (a'.1.2 ++ b'.1.2)) = a'.2 * b'.2
      rw [s3, ha3, hb3]
  neg := by
    intro a a' ha I hI
    obtain ⟨x, rfl, hx, hf⟩ := guard1_some hI
    obtain ⟨ha1, ha2, ha3⟩ := ha x rfl
    obtain ⟨s1, s2, s3⟩ := S.neg _ (EnvIn_of_itvsLe ha2 hx)
    cases hf
    refine ⟨?_, s2, ?_⟩
    · show concUn [B.neg] a'.1.1 = _
      simp only [ha1, concUn, s1]; rfl
    · show val (wrapSeq [B.neg] a'.1.2) = - a'.2
      rw [s3, ha3]
  square := by
    intro a a' ha I hI
    obtain ⟨x, rfl, hx, hf⟩ := guard1_some hI
    obtain ⟨ha1, ha2, ha3⟩ := ha x rfl
    obtain ⟨s1, s2, s3⟩ := S.square _ (EnvIn_of_itvsLe ha2 hx)
    cases hf
    refine ⟨?_, s2, ?_⟩
    · show concUn B.square a'.1.1 = _
      simp only [ha1, concUn, s1]; rfl
    · show val (wrapSeq B.square a'.1.2) = a'.2 * a'.2
      rw [s3, ha3]
  square2 := by
    intro a a' ha I hI
    obtain ⟨x, rfl, hx, hf⟩ := guard1_some hI
    obtain ⟨ha1, ha2, ha3⟩ := ha x rfl
    obtain ⟨s1, s2, s3⟩ := S.square2 _ (EnvIn_of_itvsLe ha2 hx)
    cases hf
    refine ⟨?_, s2, ?_⟩
    · show concUn B.square2 a'.1.1 = _
      simp only [ha1, concUn, s1]; rfl
    · show val (wrapSeq B.square2 a'.1.2) = 2 * (a'.2 * a'.2)
      rw [s3, ha3]
  pow2k := by
    intro a a' k ha I hI
    simp only [specOps] at hI
    split at hI
    · cases hI
    · rename_i hk
      obtain ⟨x, rfl, hx, hf⟩ := guard1_some hI
      obtain ⟨ha1, ha2, ha3⟩ := ha x rfl
      obtain ⟨k', rfl⟩ : ∃ k', k = k' + 1 := ⟨k - 1, by omega⟩
      obtain ⟨s1, s2, s3⟩ := S.pow k' _ (EnvIn_of_itvsLe ha2 hx)
      cases hf
      refine ⟨?_, s2, ?_⟩
      · show (limbOps B).pow2k a'.1.1 (k' + 1) = some ((limbOpsW B).pow2k a'.1.2 (k' + 1))
        simp only [limbOps, limbOpsW, ha1, hk, if_false, s1]
      · show val (iterW B.powBody (k' + 1) a'.1.2) = a'.2 ^ (2 ^ (k' + 1))
        rw [s3, ha3]
  const := by
    intro i I hI
    have hI' : (B.consts[i]?).map (fun l => l.map (fun n => (⟨n, n, 0⟩ : Itv))) = some I := hI
    simp only [Option.map_eq_some_iff] at hI'
    obtain ⟨l, hl, rfl⟩ := hI'
    have e : (limbOpsW B).const i = l := by
      simp only [limbOpsW, hl, List.getD_eq_getElem?_getD, Option.getD_some]
    refine ⟨?_, ?_, ?_⟩
    · show (limbOps B).const i = some ((limbOpsW B).const i)
      rw [e]; simp only [limbOps, hl]
    · show EnvIn ((limbOpsW B).const i) _
      rw [e]; exact AlgBoundsSound.EnvIn_point l
    · show val ((limbOpsW B).const i) = zmodOps.const i
      rw [e]; exact S.const i l hl
  ctEq := by
    intro a b a' b' ha hb I hI
    obtain ⟨x, y, rfl, rfl, hx, hy, hf⟩ := guard2_some hI
    obtain ⟨ha1, ha2, ha3⟩ := ha x rfl
    obtain ⟨hb1, hb2, hb3⟩ := hb y rfl
    obtain ⟨s1, s2⟩ := S.bytes _ (EnvIn_of_itvsLe ha2 hx)
    obtain ⟨t1, t2⟩ := S.bytes _ (EnvIn_of_itvsLe hb2 hy)
    cases hf
    refine ⟨?_, EnvIn_choice (AlgBoundsSound.b2n_lt _), ?_⟩
    · show concPred2 B.asBytes a'.1.1 b'.1.1 = _
      simp only [ha1, hb1, concPred2, s1, t1]; rfl
    · show val [Dalek.Model.AlgBounds.b2n (B.asBytes.evalW a'.1.2 == B.asBytes.evalW b'.1.2)] = c2f (a'.2 = b'.2)
      rw [S.choice, s2, t2, ha3, hb3]
      by_cases h : a'.2 = b'.2
      · rw [h]; simp [Dalek.Model.AlgBounds.b2n, c2f]
      · have : (enc a'.2 == enc b'.2) = false := by
          rw [beq_eq_false_iff_ne]; exact fun e => h (enc_inj e)
        rw [this]; simp [Dalek.Model.AlgBounds.b2n, c2f, h]
  isNeg := by
    intro a a' ha I hI
    obtain ⟨x, rfl, hx, hf⟩ := guard1_some hI
    obtain ⟨ha1, ha2, ha3⟩ := ha x rfl
    obtain ⟨s1, s2⟩ := S.bytes _ (EnvIn_of_itvsLe ha2 hx)
    cases hf
    refine ⟨?_, EnvIn_choice (Nat.mod_lt _ (by decide)), ?_⟩
    · show concPred1 B.asBytes negBit a'.1.1 = _
      simp only [ha1, concPred1, s1, Option.map_some]; rfl
    · show val [negBit (B.asBytes.evalW a'.1.2)] = c2f (fpIsNeg a'.2)
      rw [S.choice, s2, ha3, negBit_enc]
      unfold c2f fpIsNeg
      have h2 : a'.2.val % 2 = 0 ∨ a'.2.val % 2 = 1 := by omega
      rcases h2 with h | h <;> simp [h]
  isZero := by
    intro a a' ha I hI
    obtain ⟨x, rfl, hx, hf⟩ := guard1_some hI
    obtain ⟨ha1, ha2, ha3⟩ := ha x rfl
    obtain ⟨s1, s2⟩ := S.bytes _ (EnvIn_of_itvsLe ha2 hx)
    cases hf
    refine ⟨?_, EnvIn_choice (AlgBoundsSound.b2n_lt _), ?_⟩
    · show concPred1 B.asBytes zeroBit a'.1.1 = _
      simp only [ha1, concPred1, s1, Option.map_some]; rfl
    · show val [zeroBit (B.asBytes.evalW a'.1.2)] = c2f (a'.2 = 0)
      rw [S.choice, s2, ha3, zeroBit_enc]
      by_cases h : a'.2 = 0 <;> simp [h, Dalek.Model.AlgBounds.b2n, c2f]
  cand := fun ha hb => rel3_ch2 S chAnd (fun a b => c2f (a ≠ 0 ∧ b ≠ 0)) chAnd_lt (by
    intro x y hx hy
    rcases two_cases hx with rfl | rfl <;> rcases two_cases hy with rfl | rfl <;> simp [chAnd, c2f]) ha hb
  cor := fun ha hb => rel3_ch2 S chOr (fun a b => c2f (a ≠ 0 ∨ b ≠ 0)) chOr_lt (by
    intro x y hx hy
    rcases two_cases hx with rfl | rfl <;> rcases two_cases hy with rfl | rfl <;> simp [chOr, c2f]) ha hb
  cxor := fun ha hb => rel3_ch2 S chXor (fun a b => c2f (¬ ((a ≠ 0) ↔ (b ≠ 0)))) chXor_lt (by
    intro x y hx hy
    rcases two_cases hx with rfl | rfl <;> rcases two_cases hy with rfl | rfl <;> simp [chXor, c2f]) ha hb
  cnot := by
    intro a a' ha I hI
    match a, hI with
    | some x, hI =>
      obtain ⟨ha1, ha2, ha3⟩ := ha x rfl
      have hI' : absCh1 (some x) = some I := hI
      simp only [absCh1] at hI'
      split at hI'
      · rename_i hc
        simp only [Option.some.injEq] at hI'
        subst hI'
        obtain ⟨u, hu, hu2, hu3⟩ := choice_facts S hc ha2 ha3
        refine ⟨?_, ?_, ?_⟩
        · show concCh1 chNot a'.1.1 = some [chNot (a'.1.2.getD 0 0)]
          simp only [ha1, hu, concCh1, hu2, if_true, List.getD_cons_zero]
        · show EnvIn [chNot (a'.1.2.getD 0 0)] choiceItv
          exact EnvIn_choice (chNot_lt _ (by simp only [hu, List.getD_cons_zero]; exact hu2))
        · show val [chNot (a'.1.2.getD 0 0)] = c2f (a'.2 = 0)
          rw [S.choice, hu, List.getD_cons_zero, hu3]
          rcases two_cases hu2 with rfl | rfl <;> simp [chNot, c2f]
      · cases hI'
    | none, hI => exact absurd hI (by simp [specOps, absCh1])
  csel := by
    intro c a b c' a' b' hc ha hb I hI
    match c, a, b, hI with
    | some ci, some x, some y, hI =>
      obtain ⟨hc1, hc2, hc3⟩ := hc ci rfl
      obtain ⟨ha1, ha2, ha3⟩ := ha x rfl
      obtain ⟨hb1, hb2, hb3⟩ := hb y rfl
      have hI' : absSel (some ci) (some x) (some y) = some I := hI
      simp only [absSel] at hI'
      split at hI'
      · rename_i hch
        obtain ⟨z, hz, hz2, hz3⟩ := choice_facts S hch hc2 hc3
        obtain ⟨hj1, hj2⟩ := joinV_sound hI'
        rcases two_cases hz2 with rfl | rfl
        · refine ⟨?_, ?_, ?_⟩
          · show concSel c'.1.1 a'.1.1 b'.1.1 = some (if c'.1.2.getD 0 0 = 0 then a'.1.2 else b'.1.2)
            simp [hc1, ha1, hb1, hz, concSel]
          · show EnvIn (if c'.1.2.getD 0 0 = 0 then a'.1.2 else b'.1.2) I
            simp only [hz, List.getD_cons_zero, if_true]
            exact EnvIn_of_itvsLe ha2 hj1
          · show val (if c'.1.2.getD 0 0 = 0 then a'.1.2 else b'.1.2) = if c'.2 = 0 then a'.2 else b'.2
            simp [hz, hz3, ha3]
        · refine ⟨?_, ?_, ?_⟩
          · show concSel c'.1.1 a'.1.1 b'.1.1 = some (if c'.1.2.getD 0 0 = 0 then a'.1.2 else b'.1.2)
            simp [hc1, ha1, hb1, hz, concSel]
          · show EnvIn (if c'.1.2.getD 0 0 = 0 then a'.1.2 else b'.1.2) I
            simp only [hz, List.getD_cons_zero, Nat.one_ne_zero, if_false]
            exact EnvIn_of_itvsLe hb2 hj2
          · show val (if c'.1.2.getD 0 0 = 0 then a'.1.2 else b'.1.2) = if c'.2 = 0 then a'.2 else b'.2
            simp [hz, hz3, hb3]
      · cases hI'
    | none, _, _, hI => exact absurd hI (by simp [specOps, absSel])
    | some _, none, _, hI => exact absurd hI (by simp [specOps, absSel])
    | some _, some _, none, hI => exact absurd hI (by simp [specOps, absSel])
  dflt := by intro I hI; cases hI

/-! ## whole formulas -/

theorem outs3_sound {val : List Nat → Fp} : ∀ {as : List AVal} {ps : List TVal} {post : List (List Itv)},
    ListRel (R3 val) as ps → outsLe as post = true →
      ps.map (·.1.1) = (ps.map (·.1.2)).map some ∧ ListRel EnvIn (ps.map (·.1.2)) post ∧
        (ps.map (·.1.2)).map val = ps.map (·.2)
  | [], [], [], _, _ => ⟨rfl, .nil, rfl⟩
  | some a :: as, p :: ps, t :: ts, h, hle => by
      cases h with
      | cons h1 h2 =>
        simp only [outsLe, Bool.and_eq_true] at hle
        obtain ⟨e1, e2, e3⟩ := h1 a rfl
        obtain ⟨r1, r2, r3⟩ := outs3_sound h2 hle.2
        refine ⟨?_, ?_, ?_⟩
        · simp only [List.map_cons, e1, r1]
        · exact .cons (EnvIn_of_itvsLe e2 hle.1) r2
        · simp only [List.map_cons, e3, r3]
  | [], _ :: _, _, h, _ => by cases h
  | _ :: _, [], _, h, _ => by cases h
  | [], [], _ :: _, _, hle => by simp [outsLe] at hle
  | none :: _, _, _, _, hle => by simp [outsLe] at hle
  | some _ :: _, _, [], _, hle => by simp [outsLe] at hle

theorem allSome3_sound {val : List Nat → Fp} : ∀ {as : List AVal} {ps : List TVal},
    ListRel (R3 val) as ps → allSome as = true → ps.map (·.1.1) = (ps.map (·.1.2)).map some
  | [], [], _, _ => rfl
  | some a :: as, p :: ps, h, hs => by
      cases h with
      | cons h1 h2 =>
        obtain ⟨e1, _⟩ := h1 a rfl
        simp only [List.map_cons, e1, allSome3_sound h2 (by simpa [allSome] using hs)]
  | none :: _, _, _, hs => by simp [allSome] at hs
  | [], _ :: _, h, _ => by cases h
  | some _ :: _, [], h, _ => by cases h

/-- what "the limb-level execution of `F` refines its field-level meaning" says: for ALL limb inputs inside the
input invariants `pre`: no statement panics in the debug build and all intermediate values / the outputs equal the
release build; the outputs are inside `post`; and the VALUES of the output limbs are exactly the outputs of the
field-level run (`zmodOps`) on the values of the input limbs (a choice `[c]` has the value `c`). -/
def Refines (B : Backend) (val : List Nat → Fp) (F : AProg) (pre post : List (List Itv)) : Prop :=
  ∀ ins : List (List Nat), EnvsIn ins pre →
    arunBody (limbOps B) F.body (ins.map some) = (arunBody (limbOpsW B) F.body ins).map some ∧
    F.run (limbOps B) (ins.map some) = (F.run (limbOpsW B) ins).map some ∧
    EnvsIn (F.run (limbOpsW B) ins) post ∧
    (F.run (limbOpsW B) ins).map val = F.run zmodOps (ins.map val)

/-- **Refinement theorem** (generic in the backend): a formula passing the contract-composition check refines its
field-level meaning. -/
theorem formula_refines {B : Backend} {C : Contract} {val : List Nat → Fp} (S : BackendSpec B C val)
    (F : AProg) (pre post : List (List Itv)) (h : specCheck B C F pre post = true) : Refines B val F pre post := by
  intro ins hin
  simp only [specCheck, Bool.and_eq_true] at h
  obtain ⟨⟨hlen, hall⟩, hout⟩ := h
  have hin' := EnvsIn_iff.1 hin
  have hR : ListRel (R3 val) (pre.map some) (ins.map (fun l => (((some l, l), val l) : TVal))) := by
    clear hall hout hin hlen
    induction hin' with
    | nil => exact .nil
    | cons hab _ ih =>
      refine .cons ?_ ih
      intro I hI
      cases hI
      exact ⟨rfl, hab, rfl⟩
  have hP : ListRel (fun (p : TVal) (c : PVal) => p.1 = c) (ins.map (fun l => (((some l, l), val l) : TVal)))
      (ins.map (fun l => ((some l, l) : PVal))) :=
    ListRel.map_map (R := fun (p : TVal) (c : PVal) => p.1 = c) _ _ (fun _ => rfl) ins
  have hZ : ListRel (fun (p : TVal) (c : Fp) => p.2 = c) (ins.map (fun l => (((some l, l), val l) : TVal)))
      (ins.map val) :=
    ListRel.map_map (R := fun (p : TVal) (c : Fp) => p.2 = c) _ _ (fun _ => rfl) ins
  have hfst : ListRel (fun (p : PVal) (c : CVal) => p.1 = c) (ins.map (fun l => ((some l, l) : PVal)))
      (ins.map some) :=
    ListRel.map_map (R := fun (p : PVal) (c : CVal) => p.1 = c) (fun l => (some l, l)) some (fun _ => rfl) ins
  have hsnd : ListRel (fun (p : PVal) (c : List Nat) => p.2 = c) (ins.map (fun l => ((some l, l) : PVal)))
      (ins.map id) :=
    ListRel.map_map (R := fun (p : PVal) (c : List Nat) => p.2 = c) (fun l => (some l, l)) id (fun _ => rfl) ins
  rw [List.map_id] at hsnd
  -- environments
  have e1 := arunBody_rel (specOps_rel S) F.body hR
  have eP := ListRel.eq_map (arunBody_rel (prodOps_fst (prodOps (limbOps B) (limbOpsW B)) zmodOps) F.body hP)
  have e2 := ListRel.eq_map (arunBody_rel (prodOps_fst (limbOps B) (limbOpsW B)) F.body hfst)
  have e3 := ListRel.eq_map (arunBody_rel (prodOps_snd (limbOps B) (limbOpsW B)) F.body hsnd)
  -- outputs
  have h1 := AProg.run_rel (specOps_rel S) F hR
  have hPo := ListRel.eq_map (AProg.run_rel (prodOps_fst (prodOps (limbOps B) (limbOpsW B)) zmodOps) F hP)
  have hZo := ListRel.eq_map (AProg.run_rel (prodOps_snd (prodOps (limbOps B) (limbOpsW B)) zmodOps) F hZ)
  have h2 := ListRel.eq_map (AProg.run_rel (prodOps_fst (limbOps B) (limbOpsW B)) F hfst)
  have h3 := ListRel.eq_map (AProg.run_rel (prodOps_snd (limbOps B) (limbOpsW B)) F hsnd)
  obtain ⟨r1, r2, r3⟩ := outs3_sound h1 hout
  have a1 := allSome3_sound e1 hall
  refine ⟨?_, ?_, ?_, ?_⟩
  · rw [e2, e3, eP]; simp only [List.map_map]; exact a1.trans (List.map_map ..)
  · rw [h2, h3, hPo]; simp only [List.map_map]; exact r1.trans (List.map_map ..)
  · rw [h3, hPo]; refine EnvsIn_iff.2 ?_; simp only [List.map_map]; exact r2
  · rw [h3, hPo, hZo]; simp only [List.map_map]; exact (List.map_map ..).symm.trans r3

theorem Sig.refines_of_ok {B : Backend} {C : Contract} {val : List Nat → Fp} (S : BackendSpec B C val) {s : Sig}
    (h : Sig.refOk B C s = true) : Refines B val s.F s.pre s.post :=
  formula_refines S s.F s.pre s.post h

/-! ## small list helpers for the corollaries -/

theorem map_eq_four {α β : Type} {f : α → β} {l : List α} {a b c d : β} (h : l.map f = [a, b, c, d]) :
    ∃ x y z t, l = [x, y, z, t] ∧ f x = a ∧ f y = b ∧ f z = c ∧ f t = d := by
  match l, h with
  | [x, y, z, t], h =>
    simp only [List.map_cons, List.map_nil, List.cons.injEq, and_true] at h
    exact ⟨x, y, z, t, rfl, h.1, h.2.1, h.2.2.1, h.2.2.2⟩

theorem map_eq_one {α β : Type} {f : α → β} {l : List α} {a : β} (h : l.map f = [a]) :
    ∃ x, l = [x] ∧ f x = a := by
  match l, h with
  | [x], h =>
    simp only [List.map_cons, List.map_nil, List.cons.injEq, and_true] at h
    exact ⟨x, rfl, h⟩

/-- a limb vector inside the choice bound is `[0]` or `[1]`, determined by its value -/
theorem choice_limb {val : List Nat → Fp} (hch : ∀ c : Nat, val [c] = (c : Fp)) {l : List Nat}
    (hl : EnvIn l choiceItv) : (val l = 0 → l = [0]) ∧ (val l = 1 → l = [1]) := by
  obtain ⟨x, rfl, hx⟩ := isChoice_sound (c := choiceItv) (by decide) hl
  rcases two_cases hx with rfl | rfl
  · exact ⟨fun _ => rfl, fun h => by rw [hch] at h; simp at h⟩
  · exact ⟨fun h => by rw [hch] at h; simp at h, fun _ => rfl⟩

end Dalek.Proofs.AlgRefine

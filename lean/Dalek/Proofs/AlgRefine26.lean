import Dalek.Proofs.AlgRefine51
import Dalek.Props.C01.Field26
import Dalek.Props.C01.Bytes26
/-!
# The serial u32 backend satisfies `BackendSpec` (instantiation of `Dalek.Proofs.AlgRefine` from the C01 theorems)

The registered contract of the u32 `add` (`pre_add`: both operands with one spare bit) is narrower than what the
formulas need (`Z2 + Txy2d` has a first operand of excess factor 2.008); `add26_wide_spec` re-proves the value
theorem for two spare bits per operand: the analyser returns the SAME normal form `add_nprog` there, so
`add_fn_ok` / `add_correct` apply unchanged.
-/
namespace Dalek.Proofs.AlgRefine
open Dalek.IR Dalek.Model.AlgBounds Dalek.Proofs.AlgBoundsSound Dalek.Proofs
open Dalek.Model.Contracts (ub rep l2625 l2625f)
open Dalek.Model.FieldBytes (natToLeN leVal val26N)
open Dalek.Props.C01

/-- the value in `ZMod p` of a 10-limb radix-2^25.5 vector -/
noncomputable def v26 (l : List Nat) : Fp := ((val26N l : Nat) : Fp)

theorem v26_eq (l : List Nat) : v26 l = Field26.val26 l := (Bytes26.val26_eq l).symm

/-- the documented contracts of the u32 kernels (`add`: two spare bits per operand, see above) -/
def C26 : Contract where
  red := l2625f 1004 1000
  preAddA := l2625 2
  preAddB := l2625 2
  preSubA := l2625 2
  preSubB := l2625 2
  preMulA := l2625f 565 100
  preMulB := l2625f 336 100
  preNeg := l2625 2
  preSq := l2625f 336 100
  preSq2 := l2625f 336 100
  postSq2 := l2625f 1004 1000
  prePow := l2625f 336 100
  preBytes := l2625 2

theorem len10 {a : List Nat} {I : List Itv} (h : EnvIn a I) (hI : I.length = 10) : a.length = 10 := by
  rw [EnvIn_length h]; exact hI

theorem add26_wide_norm :
    (Prog.norm Dalek.Gen.Field26.add (l2625 2 ++ l2625 2)).map (·.1) = some Dalek.Gen.Norm.Field26.add_nprog := by
  decide +kernel

section
open Dalek.Proofs.Field26 Dalek.Gen.Norm.Field26 Dalek.Props.C01.Field26
variable (a0 a1 a2 a3 a4 a5 a6 a7 a8 a9 b0 b1 b2 b3 b4 b5 b6 b7 b8 b9 : Nat)

theorem add26_wide_spec (hin : EnvIn [a0, a1, a2, a3, a4, a5, a6, a7, a8, a9, b0, b1, b2, b3, b4, b5, b6, b7, b8, b9] (l2625 2 ++ l2625 2)) :
    ∃ out, Dalek.Gen.Field26.add.evalC [a0, a1, a2, a3, a4, a5, a6, a7, a8, a9, b0, b1, b2, b3, b4, b5, b6, b7, b8, b9] = some out ∧
      Dalek.Gen.Field26.add.evalW [a0, a1, a2, a3, a4, a5, a6, a7, a8, a9, b0, b1, b2, b3, b4, b5, b6, b7, b8, b9] = out ∧
      val26 out = val26 [a0, a1, a2, a3, a4, a5, a6, a7, a8, a9] + val26 [b0, b1, b2, b3, b4, b5, b6, b7, b8, b9] := by
  have hn := add26_wide_norm
  cases hq : Prog.norm Dalek.Gen.Field26.add (l2625 2 ++ l2625 2) with
  | none => rw [hq] at hn; cases hn
  | some qp =>
    obtain ⟨q, post⟩ := qp
    rw [hq] at hn
    simp only [Option.map_some, Option.some.injEq] at hn
    subst hn
    obtain ⟨out, hC, hW, _, hZ⟩ := Prog.norm_sound _ _ _ _ hq _ hin
    refine ⟨out, hC, hW, ?_⟩
    have h := add_correct a0 a1 a2 a3 a4 a5 a6 a7 a8 a9 b0 b1 b2 b3 b4 b5 b6 b7 b8 b9
    rw [← add_fn_ok] at h
    simp only [toZ_cons, toZ_nil] at hZ
    rw [hZ] at h
    simpa [val26, toZ_cons, toZ_nil] using h

end

theorem spec26 : BackendSpec B26 C26 v26 where
  add := by
    intro a b ha hb
    obtain ⟨a0, a1, a2, a3, a4, a5, a6, a7, a8, a9, rfl⟩ := list_of_length_10 a (len10 ha rfl)
    obtain ⟨b0, b1, b2, b3, b4, b5, b6, b7, b8, b9, rfl⟩ := list_of_length_10 b (len10 hb rfl)
    obtain ⟨out, hC, hW, hv⟩ := add26_wide_spec a0 a1 a2 a3 a4 a5 a6 a7 a8 a9 b0 b1 b2 b3 b4 b5 b6 b7 b8 b9
      (EnvIn_append _ _ ha hb)
    subst hW
    exact ⟨hC, by rw [v26_eq, v26_eq, v26_eq]; exact hv⟩
  sub := by
    intro a b ha hb
    obtain ⟨a0, a1, a2, a3, a4, a5, a6, a7, a8, a9, rfl⟩ := list_of_length_10 a (len10 ha rfl)
    obtain ⟨b0, b1, b2, b3, b4, b5, b6, b7, b8, b9, rfl⟩ := list_of_length_10 b (len10 hb rfl)
    obtain ⟨out, hC, hW, hp, hv⟩ := Field26.sub_spec a0 a1 a2 a3 a4 a5 a6 a7 a8 a9 b0 b1 b2 b3 b4 b5 b6 b7 b8 b9
      (EnvIn_append _ _ ha hb)
    subst hW
    exact ⟨hC, hp, by rw [v26_eq, v26_eq, v26_eq]; exact hv⟩
  mul := by
    intro a b ha hb
    obtain ⟨a0, a1, a2, a3, a4, a5, a6, a7, a8, a9, rfl⟩ := list_of_length_10 a (len10 ha rfl)
    obtain ⟨b0, b1, b2, b3, b4, b5, b6, b7, b8, b9, rfl⟩ := list_of_length_10 b (len10 hb rfl)
    obtain ⟨out, hC, hW, hp, hv⟩ := Field26.mul_spec a0 a1 a2 a3 a4 a5 a6 a7 a8 a9 b0 b1 b2 b3 b4 b5 b6 b7 b8 b9
      (EnvIn_append _ _ ha hb)
    subst hW
    exact ⟨hC, hp, by rw [v26_eq, v26_eq, v26_eq]; exact hv⟩
  neg := by
    intro a ha
    obtain ⟨a0, a1, a2, a3, a4, a5, a6, a7, a8, a9, rfl⟩ := list_of_length_10 a (len10 ha rfl)
    obtain ⟨out, hC, hW, hp, hv⟩ := Field26.neg_spec a0 a1 a2 a3 a4 a5 a6 a7 a8 a9 ha
    subst hW
    refine ⟨?_, hp, by rw [v26_eq, v26_eq]; exact hv⟩
    show (Dalek.Gen.Field26.neg.evalC _).bind _ = _
    rw [hC]; rfl
  square := by
    intro a ha
    obtain ⟨a0, a1, a2, a3, a4, a5, a6, a7, a8, a9, rfl⟩ := list_of_length_10 a (len10 ha rfl)
    obtain ⟨out, hC, hW, hp, hv⟩ := Field26.square_spec a0 a1 a2 a3 a4 a5 a6 a7 a8 a9 ha
    subst hW
    refine ⟨?_, hp, by rw [v26_eq, v26_eq, ← pow_two]; exact hv⟩
    show (Dalek.Gen.Field26.square.evalC _).bind _ = _
    rw [hC]; rfl
  square2 := by
    intro a ha
    obtain ⟨a0, a1, a2, a3, a4, a5, a6, a7, a8, a9, rfl⟩ := list_of_length_10 a (len10 ha rfl)
    obtain ⟨out, hC, hW, hp, hv⟩ := Field26.square2_spec a0 a1 a2 a3 a4 a5 a6 a7 a8 a9 ha
    subst hW
    refine ⟨?_, hp, by rw [v26_eq, v26_eq, ← pow_two]; exact hv⟩
    show (Dalek.Gen.Field26.square2.evalC _).bind _ = _
    rw [hC]; rfl
  pow := by
    intro k a ha
    obtain ⟨h1, h2, h3⟩ := Pow2k.Field26.pow2k_spec (k + 1) (by omega) a ha
    simp only [Pow2k.Field26.pow2kC, Pow2k.Field26.pow2kW, iterC_eq, iterW_eq] at h1 h2 h3
    exact ⟨h1, h2, by rw [v26_eq, v26_eq]; exact h3⟩
  const := consts_val_of_table (f := val26N) (by decide +kernel)
  bytes := by
    intro a ha
    obtain ⟨h1, h2⟩ := Bytes26.as_bytes_canonical a ha
    refine ⟨?_, ?_⟩
    · show Dalek.Gen.Field26.as_bytes.evalC a = some (Dalek.Gen.Field26.as_bytes.evalW a)
      rw [h1, h2]
    · show Dalek.Gen.Field26.as_bytes.evalW a = enc (v26 a)
      rw [h2, v26, enc_natCast]
  choice := by
    intro c
    simp [v26, val26N]

end Dalek.Proofs.AlgRefine

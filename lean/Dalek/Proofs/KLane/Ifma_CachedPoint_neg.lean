import Dalek.Proofs.KLane.IfmaTable
import Dalek.Gen.AlgIfmaEdwards
/-! KLane — `CachedPoint_neg` of the IFMA backend (one module per formula so that they build in parallel; written by
`tools/gen_klane.py`).  The `KProg` `Dalek.Gen.KIfmaEdwards.CachedPoint_neg` (calls of the translated limb kernels) and the AlgIR program
`Dalek.Gen.AlgIfmaEdwards.CachedPoint_neg` (lane-scalarised by the translator) are both REGENERATED from
`backend/vector/ifma/edwards.rs` on every run. -/
namespace Dalek.Proofs.KLane.Ifma
open Dalek.IR Dalek.Gen Dalek.Model.VecInv Dalek.Proofs Dalek.Proofs.KLane

/-- the verified scalariser (`KProg.scal` with the PROVED lane-semantics table `table`: interval analysis of every
call on the intervals its arguments actually have, contract of the table entry checked at every call) maps the kernel
calls of `CachedPoint_neg` to exactly the lane terms of the translator's AlgIR item: evaluated by the Lean kernel -/
theorem CachedPoint_neg_refOk :
    refOk table KIfmaEdwards.CachedPoint_neg [Ifma.invCached] [.v51] .v51 AlgIfmaEdwards.CachedPoint_neg = true := by
  decide +kernel

/-- `CachedPoint_neg`: for ALL inputs inside the invariants the wrapping (release) run of the kernel calls equals the checked run
and the lane values of its result are the run of the AlgIR item in the field on the lane values of the inputs -/
theorem CachedPoint_neg_refines (ins : List (List Nat)) (hin : EnvIn2 ins [Ifma.invCached]) :
    ∃ out, KIfmaEdwards.CachedPoint_neg.evalC ins = some [out] ∧ KIfmaEdwards.CachedPoint_neg.evalW ins = some [out] ∧
      meaning .v51 out = AProg.run zmodOpsV AlgIfmaEdwards.CachedPoint_neg (lanesOf [.v51] ins) :=
  refines_of_refOk table table_valid _ _ _ _ _ CachedPoint_neg_refOk ins hin

end Dalek.Proofs.KLane.Ifma

import Dalek.Proofs.KLane
import Dalek.Model.VecInv
/-! KLane — glue between the per-formula refinement theorems (`<item>_refines`), the bound theorems (`<item>_safe`,
`Props/C11/VecChain`) and the group-law theorems about the AlgIR items (`Props/C03/Vector.lean`). -/
namespace Dalek.Proofs.KLane
open Dalek.IR Dalek.Proofs Dalek.Proofs.Avx2Field Dalek.Proofs.IfmaField

/-- the single output of a safe formula lies inside its post-interval -/
theorem safe_single {p : KProg} {pre : List (List Itv)} {post : List Itv} (hs : p.Safe pre [post])
    {ins : List (List Nat)} (hin : EnvIn2 ins pre) {out : List Nat} (hW : p.evalW ins = some [out]) :
    EnvIn out post := by
  obtain ⟨outs, _, h2, h3⟩ := hs ins hin
  rw [hW] at h2
  obtain rfl := Option.some.inj h2
  exact h3.1

theorem getD_idx (k : Lane) (a b c d : Fp) : [a, b, c, d].getD k.idx 0 = k.sel a b c d := by
  cases k <;> rfl

/-- AVX2 vector output: bound + lane values -/
theorem bridge_v26 {p : KProg} {pre : List (List Itv)} {post : List Itv} {R : List Fp} {ins : List (List Nat)}
    (hs : p.Safe pre [post]) (hin : EnvIn2 ins pre)
    (hr : ∃ out, p.evalC ins = some [out] ∧ p.evalW ins = some [out] ∧ meaning .v26 out = R) :
    ∃ out, p.evalC ins = some [out] ∧ p.evalW ins = some [out] ∧ EnvIn out post ∧
      ∀ k : Lane, vecVal k out = R.getD k.idx 0 := by
  obtain ⟨out, h1, h2, h3⟩ := hr
  refine ⟨out, h1, h2, safe_single hs hin h2, fun k => ?_⟩
  rw [← h3, meaning_v26, getD_idx]
  cases k <;> rfl

/-- IFMA vector output: bound + lane values -/
theorem bridge_v51 {p : KProg} {pre : List (List Itv)} {post : List Itv} {R : List Fp} {ins : List (List Nat)}
    (hs : p.Safe pre [post]) (hin : EnvIn2 ins pre)
    (hr : ∃ out, p.evalC ins = some [out] ∧ p.evalW ins = some [out] ∧ meaning .v51 out = R) :
    ∃ out, p.evalC ins = some [out] ∧ p.evalW ins = some [out] ∧ EnvIn out post ∧
      ∀ k : Lane, vecVal51 k out = R.getD k.idx 0 := by
  obtain ⟨out, h1, h2, h3⟩ := hr
  refine ⟨out, h1, h2, safe_single hs hin h2, fun k => ?_⟩
  rw [← h3, meaning_v51, getD_idx]
  cases k <;> rfl

/-- serial output (four `FieldElement51` = 20 limbs): bound + values -/
theorem bridge_ser {p : KProg} {pre : List (List Itv)} {post : List Itv} {R : List Fp} {ins : List (List Nat)}
    (hs : p.Safe pre [post]) (hin : EnvIn2 ins pre)
    (hr : ∃ out, p.evalC ins = some [out] ∧ p.evalW ins = some [out] ∧ meaning .ser out = R) :
    ∃ out, p.evalC ins = some [out] ∧ p.evalW ins = some [out] ∧ EnvIn out post ∧
      ∀ k : Lane, elemVal k out = R.getD k.idx 0 := by
  obtain ⟨out, h1, h2, h3⟩ := hr
  refine ⟨out, h1, h2, safe_single hs hin h2, fun k => ?_⟩
  rw [← h3, meaning_ser, getD_idx]
  cases k <;> rfl

/-- transfer of a representation predicate from the outputs of the AlgIR run to the lanes of the machine words -/
theorem rep_of_lanes {Rp : Fp → Fp → Fp → Fp → Prop} {f : Lane → Fp} {run : List Fp}
    (hv : ∀ k : Lane, f k = run.getD k.idx 0) (h : ∃ X Y Z T, run = [X, Y, Z, T] ∧ Rp X Y Z T) :
    Rp (f .A) (f .B) (f .C) (f .D) := by
  obtain ⟨X, Y, Z, T, rfl, hR⟩ := h
  rw [hv .A, hv .B, hv .C, hv .D]
  exact hR

/-- a `Choice` word inside its interval is `0` or `1` -/
theorem choice_cases {c : Nat} (h : EnvIn [c] Dalek.Model.VecInv.choice) : c = 0 ∨ c = 1 := by
  have : c ≤ 1 := h.1.2.1
  omega

/-- the field image of a `Choice` word vanishes iff the word does -/
theorem choice_cast_eq_zero {c : Nat} (h : c = 0 ∨ c = 1) : ((c : Nat) : Fp) = 0 ↔ c = 0 := by
  rcases h with rfl | rfl
  · simp
  · simp

/-- unfold `lanesOf sorts ins` of explicit lists into the explicit list of lane values -/
macro "lanes_simp" " at " h:ident : tactic =>
  `(tactic| simp only [lanesOf, List.zipWith_cons_cons, List.zipWith_nil_left, List.zipWith_nil_right,
      List.flatten_cons, List.flatten_nil, meaning_v26, meaning_v51, meaning_fe, meaning_ch, List.cons_append,
      List.nil_append, List.append_nil, List.getD_cons_zero] at $h:ident)

end Dalek.Proofs.KLane

import Dalek.Proofs.KLane.IfmaTable
import Dalek.Gen.AlgIfmaEdwards
/-! KLane — `ExtendedPoint_mul_by_pow_2_body` of the IFMA backend (one module per formula so that they build in parallel; written by
`tools/gen_klane.py`).  The `KProg` `Dalek.Gen.KIfmaEdwards.ExtendedPoint_mul_by_pow_2_body` (calls of the translated limb kernels) and the AlgIR program
`Dalek.Gen.AlgIfmaEdwards.ExtendedPoint_mul_by_pow_2_body` (lane-scalarised by the translator) are both REGENERATED from
`backend/vector/ifma/edwards.rs` on every run. -/
namespace Dalek.Proofs.KLane.Ifma
open Dalek.IR Dalek.Gen Dalek.Model.VecInv Dalek.Proofs Dalek.Proofs.KLane

/-- the verified scalariser (`KProg.scal` with the PROVED lane-semantics table `table`: interval analysis of every
call on the intervals its arguments actually have, contract of the table entry checked at every call) maps the kernel
calls of `ExtendedPoint_mul_by_pow_2_body` to exactly the lane terms of the translator's AlgIR item: evaluated by the Lean kernel -/
theorem ExtendedPoint_mul_by_pow_2_body_refOk :
    refOk table KIfmaEdwards.ExtendedPoint_mul_by_pow_2_body [Ifma.invExt] [.v51] .v51 AlgIfmaEdwards.ExtendedPoint_mul_by_pow_2_body = true := by
  decide +kernel

/-- `ExtendedPoint_mul_by_pow_2_body`: for ALL inputs inside the invariants the wrapping (release) run of the kernel calls equals the checked run
and the lane values of its result are the run of the AlgIR item in the field on the lane values of the inputs -/
theorem ExtendedPoint_mul_by_pow_2_body_refines (ins : List (List Nat)) (hin : EnvIn2 ins [Ifma.invExt]) :
    ∃ out, KIfmaEdwards.ExtendedPoint_mul_by_pow_2_body.evalC ins = some [out] ∧ KIfmaEdwards.ExtendedPoint_mul_by_pow_2_body.evalW ins = some [out] ∧
      meaning .v51 out = AProg.run zmodOpsV AlgIfmaEdwards.ExtendedPoint_mul_by_pow_2_body (lanesOf [.v51] ins) :=
  refines_of_refOk table table_valid _ _ _ _ _ ExtendedPoint_mul_by_pow_2_body_refOk ins hin

end Dalek.Proofs.KLane.Ifma

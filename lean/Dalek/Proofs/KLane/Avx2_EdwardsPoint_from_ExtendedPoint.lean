import Dalek.Proofs.KLane.Avx2Table
import Dalek.Gen.AlgAvx2Edwards
/-! KLane — `EdwardsPoint_from_ExtendedPoint` of the AVX2 backend (one module per formula so that they build in parallel; written by
`tools/gen_klane.py`).  The `KProg` `Dalek.Gen.KAvx2Edwards.EdwardsPoint_from_ExtendedPoint` (calls of the translated limb kernels) and the AlgIR program
`Dalek.Gen.AlgAvx2Edwards.EdwardsPoint_from_ExtendedPoint` (lane-scalarised by the translator) are both REGENERATED from
`backend/vector/avx2/edwards.rs` on every run. -/
namespace Dalek.Proofs.KLane.Avx2
open Dalek.IR Dalek.Gen Dalek.Model.VecInv Dalek.Proofs Dalek.Proofs.KLane

/-- the verified scalariser (`KProg.scal` with the PROVED lane-semantics table `table`: interval analysis of every
call on the intervals its arguments actually have, contract of the table entry checked at every call) maps the kernel
calls of `EdwardsPoint_from_ExtendedPoint` to exactly the lane terms of the translator's AlgIR item: evaluated by the Lean kernel -/
theorem EdwardsPoint_from_ExtendedPoint_refOk :
    refOk table KAvx2Edwards.EdwardsPoint_from_ExtendedPoint [Avx2.invExt] [.v26] .ser AlgAvx2Edwards.EdwardsPoint_from_ExtendedPoint = true := by
  decide +kernel

/-- `EdwardsPoint_from_ExtendedPoint`: for ALL inputs inside the invariants the wrapping (release) run of the kernel calls equals the checked run
and the lane values of its result are the run of the AlgIR item in the field on the lane values of the inputs -/
theorem EdwardsPoint_from_ExtendedPoint_refines (ins : List (List Nat)) (hin : EnvIn2 ins [Avx2.invExt]) :
    ∃ out, KAvx2Edwards.EdwardsPoint_from_ExtendedPoint.evalC ins = some [out] ∧ KAvx2Edwards.EdwardsPoint_from_ExtendedPoint.evalW ins = some [out] ∧
      meaning .ser out = AProg.run zmodOpsV AlgAvx2Edwards.EdwardsPoint_from_ExtendedPoint (lanesOf [.v26] ins) :=
  refines_of_refOk table table_valid _ _ _ _ _ EdwardsPoint_from_ExtendedPoint_refOk ins hin

end Dalek.Proofs.KLane.Avx2

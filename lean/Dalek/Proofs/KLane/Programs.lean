import Dalek.Props.C11.VecChain.Programs
import Dalek.Proofs.VecEdwards
/-!
# KLane — every well-typed PROGRAM of vector point operations computes the group law on machine words (generic part)

`Props/C11/VecChain/Programs.lean` shows that every well-typed straight-line program over registers holding
`ExtendedPoint`s, `CachedPoint`s and `Choice` bytes (double, ± cached, `CachedPoint::from`, cached negation, conditional
select / assign, identities: what the vector scalar-multiplication code is made of) is overflow-free.  Here the same
programs get a DENOTATION in the curve group (`denRun`) and, given that the nine formulas of a backend compute the group
law on machine words (`GroupLaw`, instantiated in `Props/C01/VecFormulas.lean` from the `<item>_limb_spec` theorems), every
register ever written represents its denotation (`program_group`).
-/
namespace Dalek.Proofs.KLane
open Dalek.IR Dalek.Props.C11.VecChain
open Dalek.Bridge (Ed)

/-- the nine formulas of a backend compute the group law on machine words: `RepE P x` / `RepC Q y` = the words `x` of an
`ExtendedPoint` / `y` of a `CachedPoint` represent the curve points `P` / `Q` -/
structure GroupLaw (B : Backend) (RepE RepC : Ed → List Nat → Prop) : Prop where
  dbl : ∀ {P : Ed} (x : List Nat), EnvIn x B.invE → RepE P x →
    ∃ out, B.dbl.evalC [x] = some [out] ∧ B.dbl.evalW [x] = some [out] ∧ EnvIn out B.invE ∧ RepE (2 • P) out
  add : ∀ {P Q : Ed} (x y : List Nat), EnvIn x B.invE → EnvIn y B.invC → RepE P x → RepC Q y →
    ∃ out, B.add.evalC [x, y] = some [out] ∧ B.add.evalW [x, y] = some [out] ∧ EnvIn out B.invE ∧ RepE (P + Q) out
  sub : ∀ {P Q : Ed} (x y : List Nat), EnvIn x B.invE → EnvIn y B.invC → RepE P x → RepC Q y →
    ∃ out, B.sub.evalC [x, y] = some [out] ∧ B.sub.evalW [x, y] = some [out] ∧ EnvIn out B.invE ∧ RepE (P - Q) out
  toCached : ∀ {P : Ed} (x : List Nat), EnvIn x B.invE → RepE P x →
    ∃ out, B.toCached.evalC [x] = some [out] ∧ B.toCached.evalW [x] = some [out] ∧ EnvIn out B.invC ∧ RepC P out
  negC : ∀ {P : Ed} (x : List Nat), EnvIn x B.invC → RepC P x →
    ∃ out, B.negC.evalC [x] = some [out] ∧ B.negC.evalW [x] = some [out] ∧ EnvIn out B.invC ∧ RepC (-P) out
  selC : ∀ {P Q : Ed} (x y : List Nat) (c : Nat), EnvIn x B.invC → EnvIn y B.invC → EnvIn [c] Dalek.Model.VecInv.choice →
    RepC P x → RepC Q y →
    ∃ out, B.selC.evalC [x, y, [c]] = some [out] ∧ B.selC.evalW [x, y, [c]] = some [out] ∧ EnvIn out B.invC ∧
      RepC (if c = 0 then P else Q) out
  asgC : ∀ {P Q : Ed} (x y : List Nat) (c : Nat), EnvIn x B.invC → EnvIn y B.invC → EnvIn [c] Dalek.Model.VecInv.choice →
    RepC P x → RepC Q y →
    ∃ out, B.asgC.evalC [x, y, [c]] = some [out] ∧ B.asgC.evalW [x, y, [c]] = some [out] ∧ EnvIn out B.invC ∧
      RepC (if c = 0 then P else Q) out
  idE : ∃ out, B.idE.evalC [] = some [out] ∧ B.idE.evalW [] = some [out] ∧ EnvIn out B.invE ∧ RepE 0 out
  idC : ∃ out, B.idC.evalC [] = some [out] ∧ B.idC.evalW [] = some [out] ∧ EnvIn out B.invC ∧ RepC 0 out

/-- the curve point denoted by the register an operation writes; `den` = the points denoted by the registers so far
(arbitrary for `Choice` registers), `cv` = the values of the `Choice` registers (arbitrary for the others) -/
def _root_.Dalek.Props.C11.VecChain.VOp.den (den : List Ed) (cv : List Nat) : VOp → Ed
  | .dbl a => 2 • den.getD a 0
  | .add a q => den.getD a 0 + den.getD q 0
  | .sub a q => den.getD a 0 - den.getD q 0
  | .toCached a => den.getD a 0
  | .negC q => - den.getD q 0
  | .selC q q' c => if cv.getD c 0 = 0 then den.getD q 0 else den.getD q' 0
  | .asgC q q' c => if cv.getD c 0 = 0 then den.getD q 0 else den.getD q' 0
  | .idE => 0
  | .idC => 0

/-- denotations of all registers after a program -/
def denRun : List Ed → List Nat → List VOp → List Ed
  | den, _, [] => den
  | den, cv, op :: ops => denRun (den ++ [op.den den cv]) (cv ++ [0]) ops

/-- types of all registers after a program -/
def tyRun (B : Backend) : List Ty → List VOp → List Ty
  | Γ, [] => Γ
  | Γ, op :: ops => tyRun B (Γ ++ [(op.sig B).2.2]) ops

/-- a register of type `t` holding the words `v` represents the point `P` (types `ext`, `cached`) resp. is the `Choice`
word `c` -/
def RepAt (RepE RepC : Ed → List Nat → Prop) : Ty → Ed → Nat → List Nat → Prop
  | .ext, P, _, v => RepE P v
  | .cached, P, _, v => RepC P v
  | .choice, _, c, v => v = [c]

/-- all registers represent their denotations -/
def Reps (RepE RepC : Ed → List Nat → Prop) (Γ : List Ty) (den : List Ed) (cv : List Nat) (env : List (List Nat)) : Prop :=
  den.length = Γ.length ∧ cv.length = Γ.length ∧
    ∀ i t, Γ[i]? = some t → RepAt RepE RepC t (den.getD i 0) (cv.getD i 0) (env.getD i [])

theorem typed_length {B : Backend} : ∀ {Γ : List Ty} {env : List (List Nat)}, Typed B Γ env → env.length = Γ.length
  | [], [], _ => rfl
  | _ :: Γ, _ :: env, h => by simp [typed_length (Γ := Γ) (env := env) h.2]
  | [], _ :: _, h => by simp [Typed] at h
  | _ :: _, [], h => by simp [Typed] at h

theorem getD_snoc_lt {α : Type} (xs : List α) (x d : α) {i : Nat} (h : i < xs.length) :
    (xs ++ [x]).getD i d = xs.getD i d := by
  simp [List.getD_eq_getElem?_getD, List.getElem?_append_left h]

theorem getD_snoc_eq {α : Type} (xs : List α) (x d : α) : (xs ++ [x]).getD xs.length d = x := by
  simp [List.getD_eq_getElem?_getD]

theorem Reps.snoc {RepE RepC : Ed → List Nat → Prop} {Γ : List Ty} {den : List Ed} {cv : List Nat}
    {env : List (List Nat)} (h : Reps RepE RepC Γ den cv env) (hl : env.length = Γ.length) {t : Ty} {P : Ed} {c : Nat}
    {v : List Nat} (hr : RepAt RepE RepC t P c v) : Reps RepE RepC (Γ ++ [t]) (den ++ [P]) (cv ++ [c]) (env ++ [v]) := by
  obtain ⟨h1, h2, h3⟩ := h
  refine ⟨by simp [h1], by simp [h2], ?_⟩
  intro i t' hi
  by_cases hlt : i < Γ.length
  · rw [List.getElem?_append_left hlt] at hi
    rw [getD_snoc_lt den P 0 (h1 ▸ hlt), getD_snoc_lt cv c 0 (h2 ▸ hlt), getD_snoc_lt env v [] (hl ▸ hlt)]
    exact h3 i t' hi
  · have hge : Γ.length ≤ i := Nat.le_of_not_lt hlt
    rw [List.getElem?_append_right hge] at hi
    have hi0 : i - Γ.length = 0 := by
      by_contra hne
      have : ([t] : List Ty)[i - Γ.length]? = none := by
        rw [List.getElem?_eq_none_iff]; simp; omega
      rw [this] at hi; simp at hi
    have hieq : i = Γ.length := by omega
    subst hieq
    simp only [Nat.sub_self, List.getElem?_cons_zero, Option.some.injEq] at hi
    subst hi
    have e1 : (den ++ [P]).getD Γ.length 0 = P := by rw [← h1]; exact getD_snoc_eq den P 0
    have e2 : (cv ++ [c]).getD Γ.length 0 = c := by rw [← h2]; exact getD_snoc_eq cv c 0
    have e3 : (env ++ [v]).getD Γ.length [] = v := by rw [← hl]; exact getD_snoc_eq env v []
    rw [e1, e2, e3]
    exact hr

/-- an operand register: inside the invariant of its type and representing its denotation -/
theorem operand {B : Backend} {RepE RepC : Ed → List Nat → Prop} {Γ : List Ty} {den : List Ed} {cv : List Nat}
    {env : List (List Nat)} (ht : Typed B Γ env) (hr : Reps RepE RepC Γ den cv env) {i : Nat} {t : Ty}
    (h : (Γ[i]? == some t) = true) :
    ∃ v, env[i]? = some v ∧ EnvIn v (B.inv t) ∧ RepAt RepE RepC t (den.getD i 0) (cv.getD i 0) v := by
  have h' : Γ[i]? = some t := by simpa using h
  obtain ⟨v, hv, hvm⟩ := ht.get h'
  refine ⟨v, hv, hvm, ?_⟩
  have := hr.2.2 i t h'
  rwa [show env.getD i [] = v by simp [List.getD_eq_getElem?_getD, hv]] at this

/-- one operation: runs (checked = release), result inside the invariant of its type and representing its denotation -/
theorem step_group {B : Backend} {RepE RepC : Ed → List Nat → Prop} (gl : GroupLaw B RepE RepC) {Γ : List Ty}
    {den : List Ed} {cv : List Nat} {env : List (List Nat)} (ht : Typed B Γ env) (hr : Reps RepE RepC Γ den cv env)
    (op : VOp) (hw : argsTyped Γ (op.sig B).2.1 = true) :
    ∃ r, stepWith KProg.evalC B env op = some (env ++ [r]) ∧ stepWith KProg.evalW B env op = some (env ++ [r]) ∧
      EnvIn r (B.inv (op.sig B).2.2) ∧ RepAt RepE RepC (op.sig B).2.2 (op.den den cv) 0 r := by
  cases op with
  | dbl a =>
    simp only [VOp.sig, argsTyped, Bool.and_true] at hw
    obtain ⟨x, hx, hxm, hxr⟩ := operand ht hr hw
    obtain ⟨out, h1, h2, h3, h4⟩ := gl.dbl x hxm hxr
    exact ⟨out, by simp [stepWith, VOp.sig, fetch, hx, h1, one], by simp [stepWith, VOp.sig, fetch, hx, h2, one], h3, h4⟩
  | add a q =>
    simp only [VOp.sig, argsTyped, Bool.and_eq_true, Bool.and_true] at hw
    obtain ⟨x, hx, hxm, hxr⟩ := operand ht hr hw.1
    obtain ⟨y, hy, hym, hyr⟩ := operand ht hr hw.2
    obtain ⟨out, h1, h2, h3, h4⟩ := gl.add x y hxm hym hxr hyr
    exact ⟨out, by simp [stepWith, VOp.sig, fetch, hx, hy, h1, one], by simp [stepWith, VOp.sig, fetch, hx, hy, h2, one],
      h3, h4⟩
  | sub a q =>
    simp only [VOp.sig, argsTyped, Bool.and_eq_true, Bool.and_true] at hw
    obtain ⟨x, hx, hxm, hxr⟩ := operand ht hr hw.1
    obtain ⟨y, hy, hym, hyr⟩ := operand ht hr hw.2
    obtain ⟨out, h1, h2, h3, h4⟩ := gl.sub x y hxm hym hxr hyr
    exact ⟨out, by simp [stepWith, VOp.sig, fetch, hx, hy, h1, one], by simp [stepWith, VOp.sig, fetch, hx, hy, h2, one],
      h3, h4⟩
  | toCached a =>
    simp only [VOp.sig, argsTyped, Bool.and_true] at hw
    obtain ⟨x, hx, hxm, hxr⟩ := operand ht hr hw
    obtain ⟨out, h1, h2, h3, h4⟩ := gl.toCached x hxm hxr
    exact ⟨out, by simp [stepWith, VOp.sig, fetch, hx, h1, one], by simp [stepWith, VOp.sig, fetch, hx, h2, one], h3, h4⟩
  | negC q =>
    simp only [VOp.sig, argsTyped, Bool.and_true] at hw
    obtain ⟨x, hx, hxm, hxr⟩ := operand ht hr hw
    obtain ⟨out, h1, h2, h3, h4⟩ := gl.negC x hxm hxr
    exact ⟨out, by simp [stepWith, VOp.sig, fetch, hx, h1, one], by simp [stepWith, VOp.sig, fetch, hx, h2, one], h3, h4⟩
  | selC q q' c =>
    simp only [VOp.sig, argsTyped, Bool.and_eq_true, Bool.and_true] at hw
    obtain ⟨x, hx, hxm, hxr⟩ := operand ht hr hw.1
    obtain ⟨y, hy, hym, hyr⟩ := operand ht hr hw.2.1
    obtain ⟨z, hz, hzm, hzr⟩ := operand ht hr hw.2.2
    have hz' : z = [cv.getD c 0] := hzr
    subst hz'
    obtain ⟨out, h1, h2, h3, h4⟩ := gl.selC x y (cv.getD c 0) hxm hym hzm hxr hyr
    refine ⟨out, ?_, ?_, h3, h4⟩
    · generalize cv.getD c 0 = cval at hz h1
      simp [stepWith, VOp.sig, fetch, hx, hy, hz, h1, one]
    · generalize cv.getD c 0 = cval at hz h2
      simp [stepWith, VOp.sig, fetch, hx, hy, hz, h2, one]
  | asgC q q' c =>
    simp only [VOp.sig, argsTyped, Bool.and_eq_true, Bool.and_true] at hw
    obtain ⟨x, hx, hxm, hxr⟩ := operand ht hr hw.1
    obtain ⟨y, hy, hym, hyr⟩ := operand ht hr hw.2.1
    obtain ⟨z, hz, hzm, hzr⟩ := operand ht hr hw.2.2
    have hz' : z = [cv.getD c 0] := hzr
    subst hz'
    obtain ⟨out, h1, h2, h3, h4⟩ := gl.asgC x y (cv.getD c 0) hxm hym hzm hxr hyr
    refine ⟨out, ?_, ?_, h3, h4⟩
    · generalize cv.getD c 0 = cval at hz h1
      simp [stepWith, VOp.sig, fetch, hx, hy, hz, h1, one]
    · generalize cv.getD c 0 = cval at hz h2
      simp [stepWith, VOp.sig, fetch, hx, hy, hz, h2, one]
  | idE =>
    obtain ⟨out, h1, h2, h3, h4⟩ := gl.idE
    exact ⟨out, by simp [stepWith, VOp.sig, fetch, h1, one], by simp [stepWith, VOp.sig, fetch, h2, one], h3, h4⟩
  | idC =>
    obtain ⟨out, h1, h2, h3, h4⟩ := gl.idC
    exact ⟨out, by simp [stepWith, VOp.sig, fetch, h1, one], by simp [stepWith, VOp.sig, fetch, h2, one], h3, h4⟩

/-- **Every well-typed program of vector point operations computes the group law on machine words**: from registers
inside their invariants that represent the points `den` (and hold the choice words `cv`), the checked run of all kernel
calls of all operations succeeds, equals the release run, all registers are inside the invariants of their types
(`tyRun`) and represent their denotations (`denRun`). -/
theorem program_group {B : Backend} {RepE RepC : Ed → List Nat → Prop} (gl : GroupLaw B RepE RepC) :
    ∀ (ops : List VOp) (Γ : List Ty) (den : List Ed) (cv : List Nat) (env : List (List Nat)),
    Typed B Γ env → Reps RepE RepC Γ den cv env → wellTyped B Γ ops = true →
    ∃ env', runWith KProg.evalC B env ops = some env' ∧ runWith KProg.evalW B env ops = some env' ∧
      Typed B (tyRun B Γ ops) env' ∧
      Reps RepE RepC (tyRun B Γ ops) (denRun den cv ops) (cv ++ List.replicate ops.length 0) env'
  | [], Γ, den, cv, env, ht, hr, _ => ⟨env, rfl, rfl, ht, by simpa [denRun, tyRun] using hr⟩
  | op :: ops, Γ, den, cv, env, ht, hr, hw => by
      simp only [wellTyped, Bool.and_eq_true] at hw
      obtain ⟨r, s1, s2, hrm, hrr⟩ := step_group gl ht hr op hw.1
      obtain ⟨env', e1, e2, e3, e4⟩ := program_group gl ops (Γ ++ [(op.sig B).2.2]) (den ++ [op.den den cv])
        (cv ++ [0]) (env ++ [r]) (ht.snoc hrm) (hr.snoc (typed_length ht) hrr) hw.2
      refine ⟨env', ?_, ?_, e3, ?_⟩
      · simp [runWith, s1, e1]
      · simp [runWith, s2, e2]
      · have : cv ++ List.replicate (op :: ops).length 0 = cv ++ [0] ++ List.replicate ops.length 0 := by
          simp [List.replicate_succ]
        rw [this]
        exact e4

end Dalek.Proofs.KLane

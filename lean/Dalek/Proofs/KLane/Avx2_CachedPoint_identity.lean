import Dalek.Proofs.KLane.Avx2Table
import Dalek.Gen.AlgAvx2Edwards
/-! KLane — `CachedPoint_identity` of the AVX2 backend (one module per formula so that they build in parallel; written by
`tools/gen_klane.py`).  The `KProg` `Dalek.Gen.KAvx2Edwards.CachedPoint_identity` (calls of the translated limb kernels) and the AlgIR program
`Dalek.Gen.AlgAvx2Edwards.CachedPoint_identity` (lane-scalarised by the translator) are both REGENERATED from
`backend/vector/avx2/edwards.rs` on every run. -/
namespace Dalek.Proofs.KLane.Avx2
open Dalek.IR Dalek.Gen Dalek.Model.VecInv Dalek.Proofs Dalek.Proofs.KLane

/-- the verified scalariser (`KProg.scal` with the PROVED lane-semantics table `table`: interval analysis of every
call on the intervals its arguments actually have, contract of the table entry checked at every call) maps the kernel
calls of `CachedPoint_identity` to exactly the lane terms of the translator's AlgIR item: evaluated by the Lean kernel -/
theorem CachedPoint_identity_refOk :
    refOk table KAvx2Edwards.CachedPoint_identity [] [] .v26 AlgAvx2Edwards.CachedPoint_identity = true := by
  decide +kernel

/-- `CachedPoint_identity`: for ALL inputs inside the invariants the wrapping (release) run of the kernel calls equals the checked run
and the lane values of its result are the run of the AlgIR item in the field on the lane values of the inputs -/
theorem CachedPoint_identity_refines (ins : List (List Nat)) (hin : EnvIn2 ins []) :
    ∃ out, KAvx2Edwards.CachedPoint_identity.evalC ins = some [out] ∧ KAvx2Edwards.CachedPoint_identity.evalW ins = some [out] ∧
      meaning .v26 out = AProg.run zmodOpsV AlgAvx2Edwards.CachedPoint_identity (lanesOf [] ins) :=
  refines_of_refOk table table_valid _ _ _ _ _ CachedPoint_identity_refOk ins hin

end Dalek.Proofs.KLane.Avx2

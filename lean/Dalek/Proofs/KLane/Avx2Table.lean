import Dalek.Proofs.KLane
import Dalek.Props.C01.Avx2
import Dalek.Gen.KAvx2Edwards
import Dalek.Model.VecInv
/-!
# The lane-semantics table of the AVX2 vector field kernels, with proofs

One `KSpec` per kernel of `Dalek.Gen.Avx2Field` that the point formulas of `backend/vector/avx2/edwards.rs` call (and
the remaining shuffles / blends): its bound contract (`Dalek.Model.Contracts.Avx2Field.pre_*`), the sorts of its
arguments and the four lanes of its result as terms over the lanes of the arguments.  Each entry is PROVED
(`KSpec.Valid`) from the lane-value theorem of the kernel in `Dalek/Props/C01/Avx2.lean`.  This is the verified
counterpart of the translator's table "method name ↦ lane meaning".
-/
set_option maxRecDepth 100000
namespace Dalek.Proofs.KLane.Avx2
open Dalek.IR Dalek.Proofs Dalek.Proofs.KLane Dalek.Proofs.Avx2Field Dalek.Props.C01.Avx2 Dalek.Model.Contracts
open Dalek.Gen.Norm.Avx2Field Dalek.Proofs.Field26

/-- from a lane-VALUE statement of a kernel to the lane meaning of its result -/
theorem meaning_of_val {K : Prog} {I : List Nat} {post : List Itv} {f : Lane → Fp}
    (h : ∃ out, K.evalC I = some out ∧ K.evalW I = out ∧ EnvIn out post ∧ ∀ k : Lane, vecVal k out = f k) :
    meaning .v26 (K.evalW I) = [f .A, f .B, f .C, f .D] := by
  obtain ⟨out, -, hW, -, hv⟩ := h
  subst hW
  rw [meaning_v26, hv, hv, hv, hv]

/-- from a lane-LIMB statement of a kernel (shuffles, blends) to the lane meaning of its result -/
theorem meaning_of_limbs {K : Prog} {I : List Nat} {g : Lane → List Int}
    (h : ∃ out, K.evalC I = some out ∧ K.evalW I = out ∧ ∀ k : Lane, vecLimbs k out = g k) :
    meaning .v26 (K.evalW I) = [((Dalek.Proofs.Field26.rep26 (g .A) : Int) : Fp), ((Dalek.Proofs.Field26.rep26 (g .B) : Int) : Fp),
      ((Dalek.Proofs.Field26.rep26 (g .C) : Int) : Fp), ((Dalek.Proofs.Field26.rep26 (g .D) : Int) : Fp)] := by
  obtain ⟨out, -, hW, hv⟩ := h
  subst hW
  rw [meaning_v26, vecVal_eq_limbs, vecVal_eq_limbs, vecVal_eq_limbs, vecVal_eq_limbs, hv, hv, hv, hv]

/-- the entry of a kernel whose result lanes are a selection of argument lanes -/
def sel (k : Prog) (pre : List Itv) (n : Nat) (a b c d : Nat) : KSpec :=
  ⟨k, pre, List.replicate n .v26, .v26, [v a, v b, v c, v d]⟩

/-- the entry of a lane-wise unary operation -/
def un (k : Prog) (pre : List Itv) (f : Term → Term) : KSpec :=
  ⟨k, pre, [.v26], .v26, [f (v 0), f (v 1), f (v 2), f (v 3)]⟩

/-- the entry of a lane-wise binary operation -/
def bin (k : Prog) (pre : List Itv) (f : Term → Term → Term) : KSpec :=
  ⟨k, pre, [.v26, .v26], .v26, [f (v 0) (v 4), f (v 1) (v 5), f (v 2) (v 6), f (v 3) (v 7)]⟩

/-! ### conversions -/

/-- `FieldElement2625x4::new(X, Y, Z, T)`: lanes `(A,B,C,D) = (X,Y,Z,T)` -/
def eNew : KSpec := ⟨Dalek.Gen.Avx2Field.new, Avx2Field.pre_new, [.fe, .fe, .fe, .fe], .v26, [v 0, v 1, v 2, v 3]⟩
theorem eNew_valid : eNew.Valid := valid_quad (by
  refine forall_len5 ?_; intro_words 5
  refine forall_len5 ?_; intro_words 5
  refine forall_len5 ?_; intro_words 5
  refine forall_len5 ?_; intro_words 5
  intro hin
  simp only [List.cons_append, List.nil_append] at hin ⊢
  exact (meaning_of_val (new_spec (hin := hin))).trans rfl)

/-- `x.split()`: the four serial elements are the lanes `(A,B,C,D)` -/
def eSplit : KSpec := ⟨Dalek.Gen.Avx2Field.split, Avx2Field.pre_split, [.v26], .ser, [v 0, v 1, v 2, v 3]⟩
theorem eSplit_valid : eSplit.Valid := valid_un (by
  refine forall_len40 ?_; intro_words 40; intro hin
  obtain ⟨out, -, hW, -, hv⟩ := split_spec (hin := hin)
  subst hW
  rw [meaning_ser, hv, hv, hv, hv]
  rfl)

/-- the identity kernel through which literal vectors are returned -/
def eLitCopy : KSpec := sel Dalek.Gen.KAvx2Edwards.litCopy40 Avx2Field.anyU32 1 0 1 2 3
theorem eLitCopy_valid : eLitCopy.Valid := valid_un (by
  refine forall_len40 ?_; intro_words 40; intro _
  rfl)

/-! ### arithmetic -/

/-- The normal form of `negate_lazy` (`2p − x`, lane-wise) is the same on the WIDER domain "every lane `≤` the lane
of `(2p, 2p, 2p, 2p)`" (the invariant of `CachedPoint`, `Dalek.Model.VecInv.Avx2.invCached`) as on the documented
contract `b < 0.999`; evaluated by the Lean kernel. -/
theorem negate_lazy_norm_le2p :
    (Prog.norm Dalek.Gen.Avx2Field.negate_lazy Dalek.Model.VecInv.Avx2.invCached).map (·.1) = some negate_lazy_nprog := by
  decide +kernel

/-- `x.negate_lazy()` on the whole domain on which `2p − x` does not underflow: element-wise negation -/
theorem negate_lazy_spec_le2p (x0 x1 x2 x3 x4 x5 x6 x7 x8 x9 x10 x11 x12 x13 x14 x15 x16 x17 x18 x19 x20 x21 x22 x23 x24 x25 x26 x27 x28 x29 x30 x31 x32 x33 x34 x35 x36 x37 x38 x39 : Nat)
    (hin : EnvIn (x0 :: x1 :: x2 :: x3 :: x4 :: x5 :: x6 :: x7 :: x8 :: x9 :: x10 :: x11 :: x12 :: x13 :: x14 :: x15 :: x16 :: x17 :: x18 :: x19 :: x20 :: x21 :: x22 :: x23 :: x24 :: x25 :: x26 :: x27 :: x28 :: x29 :: x30 :: x31 :: x32 :: x33 :: x34 :: x35 :: x36 :: x37 :: x38 :: x39 :: []) Dalek.Model.VecInv.Avx2.invCached) :
    ∃ out, Dalek.Gen.Avx2Field.negate_lazy.evalC (x0 :: x1 :: x2 :: x3 :: x4 :: x5 :: x6 :: x7 :: x8 :: x9 :: x10 :: x11 :: x12 :: x13 :: x14 :: x15 :: x16 :: x17 :: x18 :: x19 :: x20 :: x21 :: x22 :: x23 :: x24 :: x25 :: x26 :: x27 :: x28 :: x29 :: x30 :: x31 :: x32 :: x33 :: x34 :: x35 :: x36 :: x37 :: x38 :: x39 :: []) = some out ∧
      Dalek.Gen.Avx2Field.negate_lazy.evalW (x0 :: x1 :: x2 :: x3 :: x4 :: x5 :: x6 :: x7 :: x8 :: x9 :: x10 :: x11 :: x12 :: x13 :: x14 :: x15 :: x16 :: x17 :: x18 :: x19 :: x20 :: x21 :: x22 :: x23 :: x24 :: x25 :: x26 :: x27 :: x28 :: x29 :: x30 :: x31 :: x32 :: x33 :: x34 :: x35 :: x36 :: x37 :: x38 :: x39 :: []) = out ∧ EnvIn out Avx2Field.anyU32 ∧
      ∀ k : Lane, vecVal k out = - vecVal k (x0 :: x1 :: x2 :: x3 :: x4 :: x5 :: x6 :: x7 :: x8 :: x9 :: x10 :: x11 :: x12 :: x13 :: x14 :: x15 :: x16 :: x17 :: x18 :: x19 :: x20 :: x21 :: x22 :: x23 :: x24 :: x25 :: x26 :: x27 :: x28 :: x29 :: x30 :: x31 :: x32 :: x33 :: x34 :: x35 :: x36 :: x37 :: x38 :: x39 :: []) := by
  obtain ⟨⟨q, post⟩, hn, hq⟩ := Option.map_eq_some_iff.1 negate_lazy_norm_le2p
  simp only at hq
  subst hq
  obtain ⟨out, hC, hW, hpost, hZ⟩ := Prog.norm_sound _ _ _ _ hn _ hin
  have hpl : itvsLe post Avx2Field.anyU32 = true := by
    have h2 : (Prog.norm Dalek.Gen.Avx2Field.negate_lazy Dalek.Model.VecInv.Avx2.invCached).all
        (fun r => itvsLe r.2 Avx2Field.anyU32) = true := by decide +kernel
    rw [hn] at h2
    exact h2
  refine ⟨out, hC, hW, EnvIn_of_itvsLe hpost hpl, fun k => ?_⟩
  have h := negate_lazy_correct k ↑x0 ↑x1 ↑x2 ↑x3 ↑x4 ↑x5 ↑x6 ↑x7 ↑x8 ↑x9 ↑x10 ↑x11 ↑x12 ↑x13 ↑x14 ↑x15 ↑x16 ↑x17 ↑x18 ↑x19 ↑x20 ↑x21 ↑x22 ↑x23 ↑x24 ↑x25 ↑x26 ↑x27 ↑x28 ↑x29 ↑x30 ↑x31 ↑x32 ↑x33 ↑x34 ↑x35 ↑x36 ↑x37 ↑x38 ↑x39
  have e : negate_lazy_fn ↑x0 ↑x1 ↑x2 ↑x3 ↑x4 ↑x5 ↑x6 ↑x7 ↑x8 ↑x9 ↑x10 ↑x11 ↑x12 ↑x13 ↑x14 ↑x15 ↑x16 ↑x17 ↑x18 ↑x19 ↑x20 ↑x21 ↑x22 ↑x23 ↑x24 ↑x25 ↑x26 ↑x27 ↑x28 ↑x29 ↑x30 ↑x31 ↑x32 ↑x33 ↑x34 ↑x35 ↑x36 ↑x37 ↑x38 ↑x39 = toZ out := (negate_lazy_fn_ok ↑x0 ↑x1 ↑x2 ↑x3 ↑x4 ↑x5 ↑x6 ↑x7 ↑x8 ↑x9 ↑x10 ↑x11 ↑x12 ↑x13 ↑x14 ↑x15 ↑x16 ↑x17 ↑x18 ↑x19 ↑x20 ↑x21 ↑x22 ↑x23 ↑x24 ↑x25 ↑x26 ↑x27 ↑x28 ↑x29 ↑x30 ↑x31 ↑x32 ↑x33 ↑x34 ↑x35 ↑x36 ↑x37 ↑x38 ↑x39).symm.trans hZ
  rw [e] at h
  exact h

/-- `x.negate_lazy()`: lane-wise negation (contract: every lane `≤` the lane of `2p`) -/
def eNegateLazy : KSpec := un Dalek.Gen.Avx2Field.negate_lazy Dalek.Model.VecInv.Avx2.invCached termOps.neg
theorem eNegateLazy_valid : eNegateLazy.Valid := valid_un (by
  refine forall_len40 ?_; intro_words 40; intro hin
  exact (meaning_of_val (negate_lazy_spec_le2p (hin := hin))).trans (by rfl))

/-- `-x`: lane-wise negation -/
def eNeg : KSpec := un Dalek.Gen.Avx2Field.neg Avx2Field.pre_neg termOps.neg
theorem eNeg_valid : eNeg.Valid := valid_un (by
  refine forall_len40 ?_; intro_words 40; intro hin
  exact (meaning_of_val (neg_spec (hin := hin))).trans (by rfl))

/-- `x.reduce()`: the identity on lane values -/
def eReduce : KSpec := un Dalek.Gen.Avx2Field.reduce Avx2Field.pre_reduce id
theorem eReduce_valid : eReduce.Valid := valid_un (by
  refine forall_len40 ?_; intro_words 40; intro hin
  exact (meaning_of_val (reduce_spec (hin := hin))).trans (by rfl))

/-- `x + y`: lane-wise sum -/
def eAdd : KSpec := bin Dalek.Gen.Avx2Field.add Avx2Field.pre_add termOps.add
theorem eAdd_valid : eAdd.Valid := valid_bin (by
  refine forall_len40 ?_; intro_words 40
  refine forall_len40 ?_; intro_words 40; intro hin
  exact (meaning_of_val (add_spec (hin := hin))).trans (by rfl))

/-- `&x * &y`: lane-wise product -/
def eMul : KSpec := bin Dalek.Gen.Avx2Field.mul Avx2Field.pre_mul termOps.mul
theorem eMul_valid : eMul.Valid := valid_bin (by
  refine forall_len40 ?_; intro_words 40
  refine forall_len40 ?_; intro_words 40; intro hin
  exact (meaning_of_val (mul_spec (hin := hin))).trans (by rfl))

/-- `x.square_and_negate_D()`: `(A², B², C², −D²)` -/
def eSquareNegD : KSpec := ⟨Dalek.Gen.Avx2Field.square_and_negate_D, Avx2Field.pre_square_and_negate_D, [.v26], .v26,
  [termOps.square (v 0), termOps.square (v 1), termOps.square (v 2), termOps.neg (termOps.square (v 3))]⟩
theorem eSquareNegD_valid : eSquareNegD.Valid := valid_un (by
  refine forall_len40 ?_; intro_words 40; intro hin
  exact (meaning_of_val (square_and_negate_D_spec (hin := hin))).trans (by simp only [Lane.sel, pow_two]; rfl))

/-- `x.diff_sum()`: `(B − A, A + B, D − C, C + D)` -/
def eDiffSum : KSpec := ⟨Dalek.Gen.Avx2Field.diff_sum, Avx2Field.pre_diff_sum, [.v26], .v26,
  [termOps.sub (v 1) (v 0), termOps.add (v 0) (v 1), termOps.sub (v 3) (v 2), termOps.add (v 2) (v 3)]⟩
theorem eDiffSum_valid : eDiffSum.Valid := valid_un (by
  refine forall_len40 ?_; intro_words 40; intro hin
  exact (meaning_of_val (diff_sum_spec (hin := hin))).trans (by
    simp only [Lane.sel, add_comm (vecVal Lane.B _), add_comm (vecVal Lane.D _)]; rfl))

/-- `x * (s0, s1, s2, s3)`: `(A·s0, B·s1, C·s2, D·s3)` -/
def eMulConsts : KSpec := ⟨Dalek.Gen.Avx2Field.mul_consts, Avx2Field.pre_mul_consts, [.v26, .sc], .v26,
  [termOps.mul (v 0) (v 4), termOps.mul (v 1) (v 5), termOps.mul (v 2) (v 6), termOps.mul (v 3) (v 7)]⟩
theorem eMulConsts_valid : eMulConsts.Valid := valid_bin (by
  refine forall_len40 ?_; intro_words 40
  refine forall_len4 ?_; intro_words 4; intro hin
  exact (meaning_of_val (mul_consts_spec (hin := hin))).trans (by
    simp only [Lane.sel, meaning_sc, meaning_v26, List.getD_cons_zero, List.getD_cons_succ]; rfl))

/-! ### conditional selection -/

theorem choice_le_one {I : List Nat} {pre : List Itv} (hin : EnvIn I pre) (i : Nat) (c : Nat)
    (hp : pre[i]? = some (ub 1)) (hc : I[i]? = some c) : c = 0 ∨ c = 1 := by
  obtain ⟨x, hx, hm⟩ := EnvIn_get hin hp
  rw [hc] at hx
  obtain rfl := Option.some.inj hx
  have : c ≤ 1 := hm.2.1
  omega

theorem meaning_csel (X Y : List Nat) (c : Nat) (hc : c = 0 ∨ c = 1) :
    meaning .v26 (if c = 0 then X else Y) =
      [termOps.csel (v 8) (v 0) (v 4), termOps.csel (v 8) (v 1) (v 5), termOps.csel (v 8) (v 2) (v 6),
        termOps.csel (v 8) (v 3) (v 7)].map (Term.eval (meaning .v26 X ++ (meaning .v26 Y ++ meaning .ch [c]))) := by
  rcases hc with rfl | rfl
  · simp only [meaning_ch, meaning_v26, List.getD_cons_zero, Nat.cast_zero, if_true]
    simp [Term.eval, termOps, v, FOps.apply, zmodOpsV_csel]
  · have h1 : ((1 : Nat) : Fp) ≠ 0 := by
      rw [Nat.cast_one]; exact one_ne_zero
    simp only [meaning_ch, meaning_v26, List.getD_cons_zero, if_neg (show (1 : Nat) ≠ 0 by decide)]
    simp [Term.eval, termOps, v, FOps.apply, zmodOpsV_csel]

/-- `conditional_select(x, y, choice)`: lane-wise `csel` -/
def eCondSelect : KSpec := ⟨Dalek.Gen.Avx2Field.conditional_select, Avx2Field.pre_conditional_select,
  [.v26, .v26, .ch], .v26,
  [termOps.csel (v 8) (v 0) (v 4), termOps.csel (v 8) (v 1) (v 5), termOps.csel (v 8) (v 2) (v 6),
    termOps.csel (v 8) (v 3) (v 7)]⟩
theorem eCondSelect_valid : eCondSelect.Valid := valid_tern (by
  refine forall_len40 ?_; intro_words 40
  refine forall_len40 ?_; intro_words 40
  refine forall_len1 ?_; intro c hin
  obtain ⟨out, -, hW, hv⟩ := conditional_select_spec (hin := hin)
  subst hW
  rw [hv]
  exact meaning_csel _ _ c (choice_le_one hin 80 c (by decide +kernel) (by simp)))

/-- `x.conditional_assign(y, choice)`: lane-wise `csel` -/
def eCondAssign : KSpec := ⟨Dalek.Gen.Avx2Field.conditional_assign, Avx2Field.pre_conditional_assign,
  [.v26, .v26, .ch], .v26,
  [termOps.csel (v 8) (v 0) (v 4), termOps.csel (v 8) (v 1) (v 5), termOps.csel (v 8) (v 2) (v 6),
    termOps.csel (v 8) (v 3) (v 7)]⟩
theorem eCondAssign_valid : eCondAssign.Valid := valid_tern (by
  refine forall_len40 ?_; intro_words 40
  refine forall_len40 ?_; intro_words 40
  refine forall_len1 ?_; intro c hin
  obtain ⟨out, -, hW, hv⟩ := conditional_assign_spec (hin := hin)
  subst hW
  rw [hv]
  exact meaning_csel _ _ c (choice_le_one hin 80 c (by decide +kernel) (by simp)))

/-! ### shuffles and blends: renamings of lanes -/

/-- `x.shuffle(Shuffle::AAAA)`: `(A,B,C,D) ↦ (A,A,A,A)` -/
def eShuffle_AAAA : KSpec := sel Dalek.Gen.Avx2Field.shuffle_AAAA Avx2Field.pre_shuffle_AAAA 1 0 0 0 0
theorem eShuffle_AAAA_valid : eShuffle_AAAA.Valid := valid_un (by
  refine forall_len40 ?_; intro_words 40; intro hin
  exact (meaning_of_limbs (shuffle_AAAA_spec (hin := hin))).trans rfl)

/-- `x.shuffle(Shuffle::BBBB)`: `(A,B,C,D) ↦ (B,B,B,B)` -/
def eShuffle_BBBB : KSpec := sel Dalek.Gen.Avx2Field.shuffle_BBBB Avx2Field.pre_shuffle_BBBB 1 1 1 1 1
theorem eShuffle_BBBB_valid : eShuffle_BBBB.Valid := valid_un (by
  refine forall_len40 ?_; intro_words 40; intro hin
  exact (meaning_of_limbs (shuffle_BBBB_spec (hin := hin))).trans rfl)

/-- `x.shuffle(Shuffle::CACA)`: `(A,B,C,D) ↦ (C,A,C,A)` -/
def eShuffle_CACA : KSpec := sel Dalek.Gen.Avx2Field.shuffle_CACA Avx2Field.pre_shuffle_CACA 1 2 0 2 0
theorem eShuffle_CACA_valid : eShuffle_CACA.Valid := valid_un (by
  refine forall_len40 ?_; intro_words 40; intro hin
  exact (meaning_of_limbs (shuffle_CACA_spec (hin := hin))).trans rfl)

/-- `x.shuffle(Shuffle::DBBD)`: `(A,B,C,D) ↦ (D,B,B,D)` -/
def eShuffle_DBBD : KSpec := sel Dalek.Gen.Avx2Field.shuffle_DBBD Avx2Field.pre_shuffle_DBBD 1 3 1 1 3
theorem eShuffle_DBBD_valid : eShuffle_DBBD.Valid := valid_un (by
  refine forall_len40 ?_; intro_words 40; intro hin
  exact (meaning_of_limbs (shuffle_DBBD_spec (hin := hin))).trans rfl)

/-- `x.shuffle(Shuffle::ADDA)`: `(A,B,C,D) ↦ (A,D,D,A)` -/
def eShuffle_ADDA : KSpec := sel Dalek.Gen.Avx2Field.shuffle_ADDA Avx2Field.pre_shuffle_ADDA 1 0 3 3 0
theorem eShuffle_ADDA_valid : eShuffle_ADDA.Valid := valid_un (by
  refine forall_len40 ?_; intro_words 40; intro hin
  exact (meaning_of_limbs (shuffle_ADDA_spec (hin := hin))).trans rfl)

/-- `x.shuffle(Shuffle::CBCB)`: `(A,B,C,D) ↦ (C,B,C,B)` -/
def eShuffle_CBCB : KSpec := sel Dalek.Gen.Avx2Field.shuffle_CBCB Avx2Field.pre_shuffle_CBCB 1 2 1 2 1
theorem eShuffle_CBCB_valid : eShuffle_CBCB.Valid := valid_un (by
  refine forall_len40 ?_; intro_words 40; intro hin
  exact (meaning_of_limbs (shuffle_CBCB_spec (hin := hin))).trans rfl)

/-- `x.shuffle(Shuffle::ABAB)`: `(A,B,C,D) ↦ (A,B,A,B)` -/
def eShuffle_ABAB : KSpec := sel Dalek.Gen.Avx2Field.shuffle_ABAB Avx2Field.pre_shuffle_ABAB 1 0 1 0 1
theorem eShuffle_ABAB_valid : eShuffle_ABAB.Valid := valid_un (by
  refine forall_len40 ?_; intro_words 40; intro hin
  exact (meaning_of_limbs (shuffle_ABAB_spec (hin := hin))).trans rfl)

/-- `x.shuffle(Shuffle::BADC)`: `(A,B,C,D) ↦ (B,A,D,C)` -/
def eShuffle_BADC : KSpec := sel Dalek.Gen.Avx2Field.shuffle_BADC Avx2Field.pre_shuffle_BADC 1 1 0 3 2
theorem eShuffle_BADC_valid : eShuffle_BADC.Valid := valid_un (by
  refine forall_len40 ?_; intro_words 40; intro hin
  exact (meaning_of_limbs (shuffle_BADC_spec (hin := hin))).trans rfl)

/-- `x.shuffle(Shuffle::BACD)`: `(A,B,C,D) ↦ (B,A,C,D)` -/
def eShuffle_BACD : KSpec := sel Dalek.Gen.Avx2Field.shuffle_BACD Avx2Field.pre_shuffle_BACD 1 1 0 2 3
theorem eShuffle_BACD_valid : eShuffle_BACD.Valid := valid_un (by
  refine forall_len40 ?_; intro_words 40; intro hin
  exact (meaning_of_limbs (shuffle_BACD_spec (hin := hin))).trans rfl)

/-- `x.shuffle(Shuffle::ABDC)`: `(A,B,C,D) ↦ (A,B,D,C)` -/
def eShuffle_ABDC : KSpec := sel Dalek.Gen.Avx2Field.shuffle_ABDC Avx2Field.pre_shuffle_ABDC 1 0 1 3 2
theorem eShuffle_ABDC_valid : eShuffle_ABDC.Valid := valid_un (by
  refine forall_len40 ?_; intro_words 40; intro hin
  exact (meaning_of_limbs (shuffle_ABDC_spec (hin := hin))).trans rfl)

/-- `x.blend(y, Lanes::C)`: lanes C from `y`, the others from `x` -/
def eBlend_C : KSpec := sel Dalek.Gen.Avx2Field.blend_C Avx2Field.pre_blend_C 2 0 1 6 3
theorem eBlend_C_valid : eBlend_C.Valid := valid_bin (by
  refine forall_len40 ?_; intro_words 40
  refine forall_len40 ?_; intro_words 40; intro hin
  exact (meaning_of_limbs (blend_C_spec (hin := hin))).trans rfl)

/-- `x.blend(y, Lanes::D)`: lanes D from `y`, the others from `x` -/
def eBlend_D : KSpec := sel Dalek.Gen.Avx2Field.blend_D Avx2Field.pre_blend_D 2 0 1 2 7
theorem eBlend_D_valid : eBlend_D.Valid := valid_bin (by
  refine forall_len40 ?_; intro_words 40
  refine forall_len40 ?_; intro_words 40; intro hin
  exact (meaning_of_limbs (blend_D_spec (hin := hin))).trans rfl)

/-- `x.blend(y, Lanes::AB)`: lanes A,B from `y`, the others from `x` -/
def eBlend_AB : KSpec := sel Dalek.Gen.Avx2Field.blend_AB Avx2Field.pre_blend_AB 2 4 5 2 3
theorem eBlend_AB_valid : eBlend_AB.Valid := valid_bin (by
  refine forall_len40 ?_; intro_words 40
  refine forall_len40 ?_; intro_words 40; intro hin
  exact (meaning_of_limbs (blend_AB_spec (hin := hin))).trans rfl)

/-- `x.blend(y, Lanes::AC)`: lanes A,C from `y`, the others from `x` -/
def eBlend_AC : KSpec := sel Dalek.Gen.Avx2Field.blend_AC Avx2Field.pre_blend_AC 2 4 1 6 3
theorem eBlend_AC_valid : eBlend_AC.Valid := valid_bin (by
  refine forall_len40 ?_; intro_words 40
  refine forall_len40 ?_; intro_words 40; intro hin
  exact (meaning_of_limbs (blend_AC_spec (hin := hin))).trans rfl)

/-- `x.blend(y, Lanes::CD)`: lanes C,D from `y`, the others from `x` -/
def eBlend_CD : KSpec := sel Dalek.Gen.Avx2Field.blend_CD Avx2Field.pre_blend_CD 2 0 1 6 7
theorem eBlend_CD_valid : eBlend_CD.Valid := valid_bin (by
  refine forall_len40 ?_; intro_words 40
  refine forall_len40 ?_; intro_words 40; intro hin
  exact (meaning_of_limbs (blend_CD_spec (hin := hin))).trans rfl)

/-- `x.blend(y, Lanes::AD)`: lanes A,D from `y`, the others from `x` -/
def eBlend_AD : KSpec := sel Dalek.Gen.Avx2Field.blend_AD Avx2Field.pre_blend_AD 2 4 1 2 7
theorem eBlend_AD_valid : eBlend_AD.Valid := valid_bin (by
  refine forall_len40 ?_; intro_words 40
  refine forall_len40 ?_; intro_words 40; intro hin
  exact (meaning_of_limbs (blend_AD_spec (hin := hin))).trans rfl)

/-- `x.blend(y, Lanes::BC)`: lanes B,C from `y`, the others from `x` -/
def eBlend_BC : KSpec := sel Dalek.Gen.Avx2Field.blend_BC Avx2Field.pre_blend_BC 2 0 5 6 3
theorem eBlend_BC_valid : eBlend_BC.Valid := valid_bin (by
  refine forall_len40 ?_; intro_words 40
  refine forall_len40 ?_; intro_words 40; intro hin
  exact (meaning_of_limbs (blend_BC_spec (hin := hin))).trans rfl)

/-- `x.blend(y, Lanes::ABCD)`: lanes A,B,C,D from `y`, the others from `x` -/
def eBlend_ABCD : KSpec := sel Dalek.Gen.Avx2Field.blend_ABCD Avx2Field.pre_blend_ABCD 2 4 5 6 7
theorem eBlend_ABCD_valid : eBlend_ABCD.Valid := valid_bin (by
  refine forall_len40 ?_; intro_words 40
  refine forall_len40 ?_; intro_words 40; intro hin
  exact (meaning_of_limbs (blend_ABCD_spec (hin := hin))).trans rfl)

/-- **the AVX2 lane-semantics table** -/
def table : List KSpec := [eNew, eSplit, eLitCopy, eNegateLazy, eNeg, eReduce, eAdd, eMul, eSquareNegD, eDiffSum, eMulConsts, eCondSelect, eCondAssign, eShuffle_AAAA, eShuffle_BBBB, eShuffle_CACA, eShuffle_DBBD, eShuffle_ADDA, eShuffle_CBCB, eShuffle_ABAB, eShuffle_BADC, eShuffle_BACD, eShuffle_ABDC, eBlend_C, eBlend_D, eBlend_AB, eBlend_AC, eBlend_CD, eBlend_AD, eBlend_BC, eBlend_ABCD]

/-- every entry of the table is valid -/
theorem table_valid : ∀ e ∈ table, e.Valid := by
  intro e he
  simp only [table, List.mem_cons, List.mem_nil_iff, or_false] at he
  rcases he with rfl | rfl | rfl | rfl | rfl | rfl | rfl | rfl | rfl | rfl | rfl | rfl | rfl | rfl | rfl | rfl | rfl | rfl | rfl | rfl | rfl | rfl | rfl | rfl | rfl | rfl | rfl | rfl | rfl | rfl | rfl
  · exact eNew_valid
  · exact eSplit_valid
  · exact eLitCopy_valid
  · exact eNegateLazy_valid
  · exact eNeg_valid
  · exact eReduce_valid
  · exact eAdd_valid
  · exact eMul_valid
  · exact eSquareNegD_valid
  · exact eDiffSum_valid
  · exact eMulConsts_valid
  · exact eCondSelect_valid
  · exact eCondAssign_valid
  · exact eShuffle_AAAA_valid
  · exact eShuffle_BBBB_valid
  · exact eShuffle_CACA_valid
  · exact eShuffle_DBBD_valid
  · exact eShuffle_ADDA_valid
  · exact eShuffle_CBCB_valid
  · exact eShuffle_ABAB_valid
  · exact eShuffle_BADC_valid
  · exact eShuffle_BACD_valid
  · exact eShuffle_ABDC_valid
  · exact eBlend_C_valid
  · exact eBlend_D_valid
  · exact eBlend_AB_valid
  · exact eBlend_AC_valid
  · exact eBlend_CD_valid
  · exact eBlend_AD_valid
  · exact eBlend_BC_valid
  · exact eBlend_ABCD_valid

end Dalek.Proofs.KLane.Avx2

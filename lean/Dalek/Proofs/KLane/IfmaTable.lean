import Dalek.Proofs.KLane
import Dalek.Props.C01.Ifma
import Dalek.Gen.KIfmaEdwards
import Dalek.Model.VecInv
/-!
# The lane-semantics table of the AVX512-IFMA vector field kernels, with proofs

One `KSpec` per kernel of `Dalek.Gen.IfmaField` that the point formulas of `backend/vector/ifma/edwards.rs` call (and
the remaining shuffles / blends): its bound contract (`Dalek.Model.Contracts.IfmaField.pre_*`), the sorts of its
arguments and the four lanes of its result as terms over the lanes of the arguments.  Each entry is PROVED
(`KSpec.Valid`) from the lane-value theorem of the kernel in `Dalek/Props/C01/Ifma.lean`.  This is the verified
counterpart of the translator's table "method name ↦ lane meaning" (e.g. `F51x4Reduced::from` = identity on values).
-/
set_option maxRecDepth 100000
namespace Dalek.Proofs.KLane.Ifma
open Dalek.IR Dalek.Proofs Dalek.Proofs.KLane Dalek.Proofs.Avx2Field Dalek.Proofs.IfmaField Dalek.Props.C01.Ifma
open Dalek.Model.Contracts

/-- from a lane-VALUE statement of a kernel to the lane meaning of its result -/
theorem meaning_of_val {K : Prog} {I : List Nat} {post : List Itv} {f : Lane → Fp}
    (h : ∃ out, K.evalC I = some out ∧ K.evalW I = out ∧ EnvIn out post ∧ ∀ k : Lane, vecVal51 k out = f k) :
    meaning .v51 (K.evalW I) = [f .A, f .B, f .C, f .D] := by
  obtain ⟨out, -, hW, -, hv⟩ := h
  subst hW
  rw [meaning_v51, hv, hv, hv, hv]

/-- from a lane-LIMB statement of a kernel (shuffles, blends) to the lane meaning of its result -/
theorem meaning_of_limbs {K : Prog} {I : List Nat} {g : Lane → List Int}
    (h : ∃ out, K.evalC I = some out ∧ K.evalW I = out ∧ ∀ k : Lane, vecLimbs51 k out = g k) :
    meaning .v51 (K.evalW I) = [((Dalek.Proofs.Field51.rep51 (g .A) : Int) : Fp), ((Dalek.Proofs.Field51.rep51 (g .B) : Int) : Fp),
      ((Dalek.Proofs.Field51.rep51 (g .C) : Int) : Fp), ((Dalek.Proofs.Field51.rep51 (g .D) : Int) : Fp)] := by
  obtain ⟨out, -, hW, hv⟩ := h
  subst hW
  rw [meaning_v51, vecVal51_eq_limbs, vecVal51_eq_limbs, vecVal51_eq_limbs, vecVal51_eq_limbs, hv, hv, hv, hv]

/-- the entry of a kernel whose result lanes are a selection of argument lanes -/
def sel (k : Prog) (pre : List Itv) (n : Nat) (a b c d : Nat) : KSpec :=
  ⟨k, pre, List.replicate n .v51, .v51, [v a, v b, v c, v d]⟩

/-- the entry of a lane-wise unary operation -/
def un (k : Prog) (pre : List Itv) (f : Term → Term) : KSpec :=
  ⟨k, pre, [.v51], .v51, [f (v 0), f (v 1), f (v 2), f (v 3)]⟩

/-- the entry of a lane-wise binary operation -/
def bin (k : Prog) (pre : List Itv) (f : Term → Term → Term) : KSpec :=
  ⟨k, pre, [.v51, .v51], .v51, [f (v 0) (v 4), f (v 1) (v 5), f (v 2) (v 6), f (v 3) (v 7)]⟩

/-! ### conversions -/

/-- `F51x4Unreduced::new(X, Y, Z, T)`: lanes `(A,B,C,D) = (X,Y,Z,T)` -/
def eNew : KSpec := ⟨Dalek.Gen.IfmaField.new, IfmaField.pre_new, [.fe, .fe, .fe, .fe], .v51, [v 0, v 1, v 2, v 3]⟩
theorem eNew_valid : eNew.Valid := valid_quad (by
  refine forall_len5 ?_; intro_words 5
  refine forall_len5 ?_; intro_words 5
  refine forall_len5 ?_; intro_words 5
  refine forall_len5 ?_; intro_words 5
  intro hin
  simp only [List.cons_append, List.nil_append] at hin ⊢
  obtain ⟨out, -, hW, hv⟩ := new_spec (hin := hin)
  subst hW
  rw [meaning_v51, hv, hv, hv, hv]
  rfl)

/-- `x.split()`: the four serial elements are the lanes `(A,B,C,D)` -/
def eSplit : KSpec := ⟨Dalek.Gen.IfmaField.split, IfmaField.pre_split, [.v51], .ser, [v 0, v 1, v 2, v 3]⟩
theorem eSplit_valid : eSplit.Valid := valid_un (by
  refine forall_len20 ?_; intro_words 20; intro hin
  obtain ⟨out, -, hW, -, hv⟩ := split_spec (hin := hin)
  subst hW
  rw [meaning_ser, hv, hv, hv, hv]
  rfl)

/-- the identity kernel through which literal vectors are returned -/
def eLitCopy : KSpec := sel Dalek.Gen.KIfmaEdwards.litCopy20 IfmaField.anyU64 1 0 1 2 3
theorem eLitCopy_valid : eLitCopy.Valid := valid_un (by
  refine forall_len20 ?_; intro_words 20; intro _
  rfl)

/-! ### arithmetic -/

/-- `x.negate_lazy()` (`32p − x`): lane-wise negation -/
def eNegateLazy : KSpec := un Dalek.Gen.IfmaField.negate_lazy IfmaField.pre_negate_lazy termOps.neg
theorem eNegateLazy_valid : eNegateLazy.Valid := valid_un (by
  refine forall_len20 ?_; intro_words 20; intro hin
  exact (meaning_of_val (negate_lazy_spec (hin := hin))).trans (by rfl))

/-- `-x` on `F51x4Reduced`: lane-wise negation -/
def eNeg : KSpec := un Dalek.Gen.IfmaField.neg IfmaField.pre_neg termOps.neg
theorem eNeg_valid : eNeg.Valid := valid_un (by
  refine forall_len20 ?_; intro_words 20; intro hin
  exact (meaning_of_val (neg_spec (hin := hin))).trans (by rfl))

/-- `F51x4Reduced::from(x)` (weak reduction): the identity on lane values -/
def eReduce : KSpec := un Dalek.Gen.IfmaField.reduce IfmaField.pre_reduce id
theorem eReduce_valid : eReduce.Valid := valid_un (by
  refine forall_len20 ?_; intro_words 20; intro hin
  exact (meaning_of_val (reduce_spec (hin := hin))).trans (by rfl))

/-- `F51x4Unreduced::from(x)`: the identity -/
def eUnreduce : KSpec := un Dalek.Gen.IfmaField.unreduce IfmaField.pre_unreduce id
theorem eUnreduce_valid : eUnreduce.Valid := valid_un (by
  refine forall_len20 ?_; intro_words 20; intro hin
  exact (meaning_of_val (unreduce_spec (hin := hin))).trans (by rfl))

/-- `x.square()`: lane-wise square -/
def eSquare : KSpec := un Dalek.Gen.IfmaField.square IfmaField.pre_square termOps.square
theorem eSquare_valid : eSquare.Valid := valid_un (by
  refine forall_len20 ?_; intro_words 20; intro hin
  exact (meaning_of_val (square_spec (hin := hin))).trans (by simp only [pow_two]; rfl))

/-- `x + y`: lane-wise sum -/
def eAdd : KSpec := bin Dalek.Gen.IfmaField.add IfmaField.pre_add termOps.add
theorem eAdd_valid : eAdd.Valid := valid_bin (by
  refine forall_len20 ?_; intro_words 20
  refine forall_len20 ?_; intro_words 20; intro hin
  exact (meaning_of_val (add_spec (hin := hin))).trans (by rfl))

/-- `&x * &y`: lane-wise product -/
def eMul : KSpec := bin Dalek.Gen.IfmaField.mul IfmaField.pre_mul termOps.mul
theorem eMul_valid : eMul.Valid := valid_bin (by
  refine forall_len20 ?_; intro_words 20
  refine forall_len20 ?_; intro_words 20; intro hin
  exact (meaning_of_val (mul_spec (hin := hin))).trans (by rfl))

/-- `x.diff_sum()`: `(B − A, A + B, D − C, C + D)` -/
def eDiffSum : KSpec := ⟨Dalek.Gen.IfmaField.diff_sum, IfmaField.pre_diff_sum, [.v51], .v51,
  [termOps.sub (v 1) (v 0), termOps.add (v 0) (v 1), termOps.sub (v 3) (v 2), termOps.add (v 2) (v 3)]⟩
theorem eDiffSum_valid : eDiffSum.Valid := valid_un (by
  refine forall_len20 ?_; intro_words 20; intro hin
  exact (meaning_of_val (diff_sum_spec (hin := hin))).trans (by
    simp only [Lane.sel, add_comm (vecVal51 Lane.B _), add_comm (vecVal51 Lane.D _)]; rfl))

/-- `&x * (s0, s1, s2, s3)`: `(A·s0, B·s1, C·s2, D·s3)` -/
def eMulConsts : KSpec := ⟨Dalek.Gen.IfmaField.mul_consts, IfmaField.pre_mul_consts, [.v51, .sc], .v51,
  [termOps.mul (v 0) (v 4), termOps.mul (v 1) (v 5), termOps.mul (v 2) (v 6), termOps.mul (v 3) (v 7)]⟩
theorem eMulConsts_valid : eMulConsts.Valid := valid_bin (by
  refine forall_len20 ?_; intro_words 20
  refine forall_len4 ?_; intro_words 4; intro hin
  exact (meaning_of_val (mul_consts_spec (hin := hin))).trans (by
    simp only [Lane.sel, meaning_sc, meaning_v51, List.getD_cons_zero, List.getD_cons_succ]; rfl))

/-! ### conditional selection -/

theorem choice_le_one {I : List Nat} {pre : List Itv} (hin : EnvIn I pre) (i : Nat) (c : Nat)
    (hp : pre[i]? = some (ub 1)) (hc : I[i]? = some c) : c = 0 ∨ c = 1 := by
  obtain ⟨x, hx, hm⟩ := EnvIn_get hin hp
  rw [hc] at hx
  obtain rfl := Option.some.inj hx
  have : c ≤ 1 := hm.2.1
  omega

theorem meaning_csel (X Y : List Nat) (c : Nat) (hc : c = 0 ∨ c = 1) :
    meaning .v51 (if c = 0 then X else Y) =
      [termOps.csel (v 8) (v 0) (v 4), termOps.csel (v 8) (v 1) (v 5), termOps.csel (v 8) (v 2) (v 6),
        termOps.csel (v 8) (v 3) (v 7)].map (Term.eval (meaning .v51 X ++ (meaning .v51 Y ++ meaning .ch [c]))) := by
  rcases hc with rfl | rfl
  · simp only [meaning_ch, meaning_v51, List.getD_cons_zero, Nat.cast_zero, if_true]
    simp [Term.eval, termOps, v, FOps.apply, zmodOpsV_csel]
  · have h1 : ((1 : Nat) : Fp) ≠ 0 := by
      rw [Nat.cast_one]; exact one_ne_zero
    simp only [meaning_ch, meaning_v51, List.getD_cons_zero, if_neg (show (1 : Nat) ≠ 0 by decide)]
    simp [Term.eval, termOps, v, FOps.apply, zmodOpsV_csel]

/-- `conditional_select(x, y, choice)`: lane-wise `csel` -/
def eCondSelect : KSpec := ⟨Dalek.Gen.IfmaField.conditional_select, IfmaField.pre_conditional_select,
  [.v51, .v51, .ch], .v51,
  [termOps.csel (v 8) (v 0) (v 4), termOps.csel (v 8) (v 1) (v 5), termOps.csel (v 8) (v 2) (v 6),
    termOps.csel (v 8) (v 3) (v 7)]⟩
theorem eCondSelect_valid : eCondSelect.Valid := valid_tern (by
  refine forall_len20 ?_; intro_words 20
  refine forall_len20 ?_; intro_words 20
  refine forall_len1 ?_; intro c hin
  obtain ⟨out, -, hW, hv⟩ := conditional_select_spec (hin := hin)
  subst hW
  rw [hv]
  exact meaning_csel _ _ c (choice_le_one hin 40 c (by decide +kernel) (by simp)))

/-- `x.conditional_assign(y, choice)`: lane-wise `csel` -/
def eCondAssign : KSpec := ⟨Dalek.Gen.IfmaField.conditional_assign, IfmaField.pre_conditional_assign,
  [.v51, .v51, .ch], .v51,
  [termOps.csel (v 8) (v 0) (v 4), termOps.csel (v 8) (v 1) (v 5), termOps.csel (v 8) (v 2) (v 6),
    termOps.csel (v 8) (v 3) (v 7)]⟩
theorem eCondAssign_valid : eCondAssign.Valid := valid_tern (by
  refine forall_len20 ?_; intro_words 20
  refine forall_len20 ?_; intro_words 20
  refine forall_len1 ?_; intro c hin
  obtain ⟨out, -, hW, hv⟩ := conditional_assign_spec (hin := hin)
  subst hW
  rw [hv]
  exact meaning_csel _ _ c (choice_le_one hin 40 c (by decide +kernel) (by simp)))

/-! ### shuffles and blends (on `F51x4Unreduced` and on `F51x4Reduced`): renamings of lanes -/

/-- `x.shuffle(Shuffle::AAAA)`: `(A,B,C,D) ↦ (A,A,A,A)` -/
def eShuffle_AAAA : KSpec := sel Dalek.Gen.IfmaField.shuffle_AAAA IfmaField.pre_shuffle_AAAA 1 0 0 0 0
theorem eShuffle_AAAA_valid : eShuffle_AAAA.Valid := valid_un (by
  refine forall_len20 ?_; intro_words 20; intro hin
  exact (meaning_of_limbs (shuffle_AAAA_spec (hin := hin))).trans rfl)

/-- `x.shuffle(Shuffle::BBBB)`: `(A,B,C,D) ↦ (B,B,B,B)` -/
def eShuffle_BBBB : KSpec := sel Dalek.Gen.IfmaField.shuffle_BBBB IfmaField.pre_shuffle_BBBB 1 1 1 1 1
theorem eShuffle_BBBB_valid : eShuffle_BBBB.Valid := valid_un (by
  refine forall_len20 ?_; intro_words 20; intro hin
  exact (meaning_of_limbs (shuffle_BBBB_spec (hin := hin))).trans rfl)

/-- `x.shuffle(Shuffle::BADC)`: `(A,B,C,D) ↦ (B,A,D,C)` -/
def eShuffle_BADC : KSpec := sel Dalek.Gen.IfmaField.shuffle_BADC IfmaField.pre_shuffle_BADC 1 1 0 3 2
theorem eShuffle_BADC_valid : eShuffle_BADC.Valid := valid_un (by
  refine forall_len20 ?_; intro_words 20; intro hin
  exact (meaning_of_limbs (shuffle_BADC_spec (hin := hin))).trans rfl)

/-- `x.shuffle(Shuffle::BACD)`: `(A,B,C,D) ↦ (B,A,C,D)` -/
def eShuffle_BACD : KSpec := sel Dalek.Gen.IfmaField.shuffle_BACD IfmaField.pre_shuffle_BACD 1 1 0 2 3
theorem eShuffle_BACD_valid : eShuffle_BACD.Valid := valid_un (by
  refine forall_len20 ?_; intro_words 20; intro hin
  exact (meaning_of_limbs (shuffle_BACD_spec (hin := hin))).trans rfl)

/-- `x.shuffle(Shuffle::ADDA)`: `(A,B,C,D) ↦ (A,D,D,A)` -/
def eShuffle_ADDA : KSpec := sel Dalek.Gen.IfmaField.shuffle_ADDA IfmaField.pre_shuffle_ADDA 1 0 3 3 0
theorem eShuffle_ADDA_valid : eShuffle_ADDA.Valid := valid_un (by
  refine forall_len20 ?_; intro_words 20; intro hin
  exact (meaning_of_limbs (shuffle_ADDA_spec (hin := hin))).trans rfl)

/-- `x.shuffle(Shuffle::CBCB)`: `(A,B,C,D) ↦ (C,B,C,B)` -/
def eShuffle_CBCB : KSpec := sel Dalek.Gen.IfmaField.shuffle_CBCB IfmaField.pre_shuffle_CBCB 1 2 1 2 1
theorem eShuffle_CBCB_valid : eShuffle_CBCB.Valid := valid_un (by
  refine forall_len20 ?_; intro_words 20; intro hin
  exact (meaning_of_limbs (shuffle_CBCB_spec (hin := hin))).trans rfl)

/-- `x.shuffle(Shuffle::ABDC)`: `(A,B,C,D) ↦ (A,B,D,C)` -/
def eShuffle_ABDC : KSpec := sel Dalek.Gen.IfmaField.shuffle_ABDC IfmaField.pre_shuffle_ABDC 1 0 1 3 2
theorem eShuffle_ABDC_valid : eShuffle_ABDC.Valid := valid_un (by
  refine forall_len20 ?_; intro_words 20; intro hin
  exact (meaning_of_limbs (shuffle_ABDC_spec (hin := hin))).trans rfl)

/-- `x.shuffle(Shuffle::ABAB)`: `(A,B,C,D) ↦ (A,B,A,B)` -/
def eShuffle_ABAB : KSpec := sel Dalek.Gen.IfmaField.shuffle_ABAB IfmaField.pre_shuffle_ABAB 1 0 1 0 1
theorem eShuffle_ABAB_valid : eShuffle_ABAB.Valid := valid_un (by
  refine forall_len20 ?_; intro_words 20; intro hin
  exact (meaning_of_limbs (shuffle_ABAB_spec (hin := hin))).trans rfl)

/-- `x.shuffle(Shuffle::DBBD)`: `(A,B,C,D) ↦ (D,B,B,D)` -/
def eShuffle_DBBD : KSpec := sel Dalek.Gen.IfmaField.shuffle_DBBD IfmaField.pre_shuffle_DBBD 1 3 1 1 3
theorem eShuffle_DBBD_valid : eShuffle_DBBD.Valid := valid_un (by
  refine forall_len20 ?_; intro_words 20; intro hin
  exact (meaning_of_limbs (shuffle_DBBD_spec (hin := hin))).trans rfl)

/-- `x.shuffle(Shuffle::CACA)`: `(A,B,C,D) ↦ (C,A,C,A)` -/
def eShuffle_CACA : KSpec := sel Dalek.Gen.IfmaField.shuffle_CACA IfmaField.pre_shuffle_CACA 1 2 0 2 0
theorem eShuffle_CACA_valid : eShuffle_CACA.Valid := valid_un (by
  refine forall_len20 ?_; intro_words 20; intro hin
  exact (meaning_of_limbs (shuffle_CACA_spec (hin := hin))).trans rfl)

/-- `x.blend(y, Lanes::D)`: lanes D from `y`, the others from `x` -/
def eBlend_D : KSpec := sel Dalek.Gen.IfmaField.blend_D IfmaField.pre_blend_D 2 0 1 2 7
theorem eBlend_D_valid : eBlend_D.Valid := valid_bin (by
  refine forall_len20 ?_; intro_words 20
  refine forall_len20 ?_; intro_words 20; intro hin
  exact (meaning_of_limbs (blend_D_spec (hin := hin))).trans rfl)

/-- `x.blend(y, Lanes::C)`: lanes C from `y`, the others from `x` -/
def eBlend_C : KSpec := sel Dalek.Gen.IfmaField.blend_C IfmaField.pre_blend_C 2 0 1 6 3
theorem eBlend_C_valid : eBlend_C.Valid := valid_bin (by
  refine forall_len20 ?_; intro_words 20
  refine forall_len20 ?_; intro_words 20; intro hin
  exact (meaning_of_limbs (blend_C_spec (hin := hin))).trans rfl)

/-- `x.blend(y, Lanes::AB)`: lanes A,B from `y`, the others from `x` -/
def eBlend_AB : KSpec := sel Dalek.Gen.IfmaField.blend_AB IfmaField.pre_blend_AB 2 4 5 2 3
theorem eBlend_AB_valid : eBlend_AB.Valid := valid_bin (by
  refine forall_len20 ?_; intro_words 20
  refine forall_len20 ?_; intro_words 20; intro hin
  exact (meaning_of_limbs (blend_AB_spec (hin := hin))).trans rfl)

/-- `x.blend(y, Lanes::AC)`: lanes A,C from `y`, the others from `x` -/
def eBlend_AC : KSpec := sel Dalek.Gen.IfmaField.blend_AC IfmaField.pre_blend_AC 2 4 1 6 3
theorem eBlend_AC_valid : eBlend_AC.Valid := valid_bin (by
  refine forall_len20 ?_; intro_words 20
  refine forall_len20 ?_; intro_words 20; intro hin
  exact (meaning_of_limbs (blend_AC_spec (hin := hin))).trans rfl)

/-- `x.blend(y, Lanes::AD)`: lanes A,D from `y`, the others from `x` -/
def eBlend_AD : KSpec := sel Dalek.Gen.IfmaField.blend_AD IfmaField.pre_blend_AD 2 4 1 2 7
theorem eBlend_AD_valid : eBlend_AD.Valid := valid_bin (by
  refine forall_len20 ?_; intro_words 20
  refine forall_len20 ?_; intro_words 20; intro hin
  exact (meaning_of_limbs (blend_AD_spec (hin := hin))).trans rfl)

/-- `x.blend(y, Lanes::BCD)`: lanes B,C,D from `y`, the others from `x` -/
def eBlend_BCD : KSpec := sel Dalek.Gen.IfmaField.blend_BCD IfmaField.pre_blend_BCD 2 0 5 6 7
theorem eBlend_BCD_valid : eBlend_BCD.Valid := valid_bin (by
  refine forall_len20 ?_; intro_words 20
  refine forall_len20 ?_; intro_words 20; intro hin
  exact (meaning_of_limbs (blend_BCD_spec (hin := hin))).trans rfl)

/-- `x.shuffle(Shuffle::AAAA)`: `(A,B,C,D) ↦ (A,A,A,A)` -/
def eRShuffle_AAAA : KSpec := sel Dalek.Gen.IfmaField.reduced_shuffle_AAAA IfmaField.pre_reduced_shuffle_AAAA 1 0 0 0 0
theorem eRShuffle_AAAA_valid : eRShuffle_AAAA.Valid := valid_un (by
  refine forall_len20 ?_; intro_words 20; intro hin
  exact (meaning_of_limbs (reduced_shuffle_AAAA_spec (hin := hin))).trans rfl)

/-- `x.shuffle(Shuffle::BBBB)`: `(A,B,C,D) ↦ (B,B,B,B)` -/
def eRShuffle_BBBB : KSpec := sel Dalek.Gen.IfmaField.reduced_shuffle_BBBB IfmaField.pre_reduced_shuffle_BBBB 1 1 1 1 1
theorem eRShuffle_BBBB_valid : eRShuffle_BBBB.Valid := valid_un (by
  refine forall_len20 ?_; intro_words 20; intro hin
  exact (meaning_of_limbs (reduced_shuffle_BBBB_spec (hin := hin))).trans rfl)

/-- `x.shuffle(Shuffle::BADC)`: `(A,B,C,D) ↦ (B,A,D,C)` -/
def eRShuffle_BADC : KSpec := sel Dalek.Gen.IfmaField.reduced_shuffle_BADC IfmaField.pre_reduced_shuffle_BADC 1 1 0 3 2
theorem eRShuffle_BADC_valid : eRShuffle_BADC.Valid := valid_un (by
  refine forall_len20 ?_; intro_words 20; intro hin
  exact (meaning_of_limbs (reduced_shuffle_BADC_spec (hin := hin))).trans rfl)

/-- `x.shuffle(Shuffle::BACD)`: `(A,B,C,D) ↦ (B,A,C,D)` -/
def eRShuffle_BACD : KSpec := sel Dalek.Gen.IfmaField.reduced_shuffle_BACD IfmaField.pre_reduced_shuffle_BACD 1 1 0 2 3
theorem eRShuffle_BACD_valid : eRShuffle_BACD.Valid := valid_un (by
  refine forall_len20 ?_; intro_words 20; intro hin
  exact (meaning_of_limbs (reduced_shuffle_BACD_spec (hin := hin))).trans rfl)

/-- `x.shuffle(Shuffle::ADDA)`: `(A,B,C,D) ↦ (A,D,D,A)` -/
def eRShuffle_ADDA : KSpec := sel Dalek.Gen.IfmaField.reduced_shuffle_ADDA IfmaField.pre_reduced_shuffle_ADDA 1 0 3 3 0
theorem eRShuffle_ADDA_valid : eRShuffle_ADDA.Valid := valid_un (by
  refine forall_len20 ?_; intro_words 20; intro hin
  exact (meaning_of_limbs (reduced_shuffle_ADDA_spec (hin := hin))).trans rfl)

/-- `x.shuffle(Shuffle::CBCB)`: `(A,B,C,D) ↦ (C,B,C,B)` -/
def eRShuffle_CBCB : KSpec := sel Dalek.Gen.IfmaField.reduced_shuffle_CBCB IfmaField.pre_reduced_shuffle_CBCB 1 2 1 2 1
theorem eRShuffle_CBCB_valid : eRShuffle_CBCB.Valid := valid_un (by
  refine forall_len20 ?_; intro_words 20; intro hin
  exact (meaning_of_limbs (reduced_shuffle_CBCB_spec (hin := hin))).trans rfl)

/-- `x.shuffle(Shuffle::ABDC)`: `(A,B,C,D) ↦ (A,B,D,C)` -/
def eRShuffle_ABDC : KSpec := sel Dalek.Gen.IfmaField.reduced_shuffle_ABDC IfmaField.pre_reduced_shuffle_ABDC 1 0 1 3 2
theorem eRShuffle_ABDC_valid : eRShuffle_ABDC.Valid := valid_un (by
  refine forall_len20 ?_; intro_words 20; intro hin
  exact (meaning_of_limbs (reduced_shuffle_ABDC_spec (hin := hin))).trans rfl)

/-- `x.shuffle(Shuffle::ABAB)`: `(A,B,C,D) ↦ (A,B,A,B)` -/
def eRShuffle_ABAB : KSpec := sel Dalek.Gen.IfmaField.reduced_shuffle_ABAB IfmaField.pre_reduced_shuffle_ABAB 1 0 1 0 1
theorem eRShuffle_ABAB_valid : eRShuffle_ABAB.Valid := valid_un (by
  refine forall_len20 ?_; intro_words 20; intro hin
  exact (meaning_of_limbs (reduced_shuffle_ABAB_spec (hin := hin))).trans rfl)

/-- `x.shuffle(Shuffle::DBBD)`: `(A,B,C,D) ↦ (D,B,B,D)` -/
def eRShuffle_DBBD : KSpec := sel Dalek.Gen.IfmaField.reduced_shuffle_DBBD IfmaField.pre_reduced_shuffle_DBBD 1 3 1 1 3
theorem eRShuffle_DBBD_valid : eRShuffle_DBBD.Valid := valid_un (by
  refine forall_len20 ?_; intro_words 20; intro hin
  exact (meaning_of_limbs (reduced_shuffle_DBBD_spec (hin := hin))).trans rfl)

/-- `x.shuffle(Shuffle::CACA)`: `(A,B,C,D) ↦ (C,A,C,A)` -/
def eRShuffle_CACA : KSpec := sel Dalek.Gen.IfmaField.reduced_shuffle_CACA IfmaField.pre_reduced_shuffle_CACA 1 2 0 2 0
theorem eRShuffle_CACA_valid : eRShuffle_CACA.Valid := valid_un (by
  refine forall_len20 ?_; intro_words 20; intro hin
  exact (meaning_of_limbs (reduced_shuffle_CACA_spec (hin := hin))).trans rfl)

/-- `x.blend(y, Lanes::D)`: lanes D from `y`, the others from `x` -/
def eRBlend_D : KSpec := sel Dalek.Gen.IfmaField.reduced_blend_D IfmaField.pre_reduced_blend_D 2 0 1 2 7
theorem eRBlend_D_valid : eRBlend_D.Valid := valid_bin (by
  refine forall_len20 ?_; intro_words 20
  refine forall_len20 ?_; intro_words 20; intro hin
  exact (meaning_of_limbs (reduced_blend_D_spec (hin := hin))).trans rfl)

/-- `x.blend(y, Lanes::C)`: lanes C from `y`, the others from `x` -/
def eRBlend_C : KSpec := sel Dalek.Gen.IfmaField.reduced_blend_C IfmaField.pre_reduced_blend_C 2 0 1 6 3
theorem eRBlend_C_valid : eRBlend_C.Valid := valid_bin (by
  refine forall_len20 ?_; intro_words 20
  refine forall_len20 ?_; intro_words 20; intro hin
  exact (meaning_of_limbs (reduced_blend_C_spec (hin := hin))).trans rfl)

/-- `x.blend(y, Lanes::AB)`: lanes A,B from `y`, the others from `x` -/
def eRBlend_AB : KSpec := sel Dalek.Gen.IfmaField.reduced_blend_AB IfmaField.pre_reduced_blend_AB 2 4 5 2 3
theorem eRBlend_AB_valid : eRBlend_AB.Valid := valid_bin (by
  refine forall_len20 ?_; intro_words 20
  refine forall_len20 ?_; intro_words 20; intro hin
  exact (meaning_of_limbs (reduced_blend_AB_spec (hin := hin))).trans rfl)

/-- `x.blend(y, Lanes::AC)`: lanes A,C from `y`, the others from `x` -/
def eRBlend_AC : KSpec := sel Dalek.Gen.IfmaField.reduced_blend_AC IfmaField.pre_reduced_blend_AC 2 4 1 6 3
theorem eRBlend_AC_valid : eRBlend_AC.Valid := valid_bin (by
  refine forall_len20 ?_; intro_words 20
  refine forall_len20 ?_; intro_words 20; intro hin
  exact (meaning_of_limbs (reduced_blend_AC_spec (hin := hin))).trans rfl)

/-- `x.blend(y, Lanes::AD)`: lanes A,D from `y`, the others from `x` -/
def eRBlend_AD : KSpec := sel Dalek.Gen.IfmaField.reduced_blend_AD IfmaField.pre_reduced_blend_AD 2 4 1 2 7
theorem eRBlend_AD_valid : eRBlend_AD.Valid := valid_bin (by
  refine forall_len20 ?_; intro_words 20
  refine forall_len20 ?_; intro_words 20; intro hin
  exact (meaning_of_limbs (reduced_blend_AD_spec (hin := hin))).trans rfl)

/-- `x.blend(y, Lanes::BCD)`: lanes B,C,D from `y`, the others from `x` -/
def eRBlend_BCD : KSpec := sel Dalek.Gen.IfmaField.reduced_blend_BCD IfmaField.pre_reduced_blend_BCD 2 0 5 6 7
theorem eRBlend_BCD_valid : eRBlend_BCD.Valid := valid_bin (by
  refine forall_len20 ?_; intro_words 20
  refine forall_len20 ?_; intro_words 20; intro hin
  exact (meaning_of_limbs (reduced_blend_BCD_spec (hin := hin))).trans rfl)

/-- **the IFMA lane-semantics table** -/
def table : List KSpec := [eNew, eSplit, eLitCopy, eNegateLazy, eNeg, eReduce, eUnreduce, eSquare, eAdd, eMul, eDiffSum, eMulConsts, eCondSelect, eCondAssign, eShuffle_AAAA, eShuffle_BBBB, eShuffle_BADC, eShuffle_BACD, eShuffle_ADDA, eShuffle_CBCB, eShuffle_ABDC, eShuffle_ABAB, eShuffle_DBBD, eShuffle_CACA, eBlend_D, eBlend_C, eBlend_AB, eBlend_AC, eBlend_AD, eBlend_BCD, eRShuffle_AAAA, eRShuffle_BBBB, eRShuffle_BADC, eRShuffle_BACD, eRShuffle_ADDA, eRShuffle_CBCB, eRShuffle_ABDC, eRShuffle_ABAB, eRShuffle_DBBD, eRShuffle_CACA, eRBlend_D, eRBlend_C, eRBlend_AB, eRBlend_AC, eRBlend_AD, eRBlend_BCD]

/-- every entry of the table is valid -/
theorem table_valid : ∀ e ∈ table, e.Valid := by
  intro e he
  simp only [table, List.mem_cons, List.mem_nil_iff, or_false] at he
  rcases he with rfl | rfl | rfl | rfl | rfl | rfl | rfl | rfl | rfl | rfl | rfl | rfl | rfl | rfl | rfl | rfl | rfl | rfl | rfl | rfl | rfl | rfl | rfl | rfl | rfl | rfl | rfl | rfl | rfl | rfl | rfl | rfl | rfl | rfl | rfl | rfl | rfl | rfl | rfl | rfl | rfl | rfl | rfl | rfl | rfl | rfl
  · exact eNew_valid
  · exact eSplit_valid
  · exact eLitCopy_valid
  · exact eNegateLazy_valid
  · exact eNeg_valid
  · exact eReduce_valid
  · exact eUnreduce_valid
  · exact eSquare_valid
  · exact eAdd_valid
  · exact eMul_valid
  · exact eDiffSum_valid
  · exact eMulConsts_valid
  · exact eCondSelect_valid
  · exact eCondAssign_valid
  · exact eShuffle_AAAA_valid
  · exact eShuffle_BBBB_valid
  · exact eShuffle_BADC_valid
  · exact eShuffle_BACD_valid
  · exact eShuffle_ADDA_valid
  · exact eShuffle_CBCB_valid
  · exact eShuffle_ABDC_valid
  · exact eShuffle_ABAB_valid
  · exact eShuffle_DBBD_valid
  · exact eShuffle_CACA_valid
  · exact eBlend_D_valid
  · exact eBlend_C_valid
  · exact eBlend_AB_valid
  · exact eBlend_AC_valid
  · exact eBlend_AD_valid
  · exact eBlend_BCD_valid
  · exact eRShuffle_AAAA_valid
  · exact eRShuffle_BBBB_valid
  · exact eRShuffle_BADC_valid
  · exact eRShuffle_BACD_valid
  · exact eRShuffle_ADDA_valid
  · exact eRShuffle_CBCB_valid
  · exact eRShuffle_ABDC_valid
  · exact eRShuffle_ABAB_valid
  · exact eRShuffle_DBBD_valid
  · exact eRShuffle_CACA_valid
  · exact eRBlend_D_valid
  · exact eRBlend_C_valid
  · exact eRBlend_AB_valid
  · exact eRBlend_AC_valid
  · exact eRBlend_AD_valid
  · exact eRBlend_BCD_valid

end Dalek.Proofs.KLane.Ifma

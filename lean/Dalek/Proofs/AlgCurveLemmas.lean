/-
Representation predicates for dalek's Niels point formats and the small algebraic facts that connect
the translated curve formulas (interpreted in `Fp` by `zmodOps`) to the refinement lemmas of
`Proofs/Edwards/Extended.lean`.  The property theorems are in `Props/C03/Formulas.lean`.
-/
import Dalek.Proofs.AlgZModLemmas
import Mathlib.Tactic.Ring
import Mathlib.Tactic.FieldSimp
import Mathlib.Tactic.LinearCombination

namespace Dalek.Proofs

open Dalek.Edwards
open Dalek.Bridge (Ed edParams edParams_d)
open Dalek.FieldFacts (d)

/-! ## Niels formats -/

/-- dalek `ProjectiveNielsPoint` `(Y+X, Y−X, Z, 2d·T)` of an extended point `(X:Y:Z:T)` representing `Q`. -/
def RepPNiels (Q : Ed) (Yp Ym Z T2d : Fp) : Prop :=
  ∃ X Y T, RepExt Q X Y Z T ∧ Yp = Y + X ∧ Ym = Y - X ∧ T2d = T * (2 * d)

/-- dalek `AffineNielsPoint` `(y+x, y−x, 2d·x·y)` of the affine point `Q`. -/
def RepANiels (Q : Ed) (yp ym xy2d : Fp) : Prop :=
  yp = Q.y + Q.x ∧ ym = Q.y - Q.x ∧ xy2d = Q.x * Q.y * (2 * d)

/-- An affine Niels point is a projective Niels point with `Z = 1` (and conversely). -/
theorem repANiels_iff_repPNiels_one {Q : Ed} {yp ym t : Fp} :
    RepANiels Q yp ym t ↔ RepPNiels Q yp ym 1 t := by
  constructor
  · rintro ⟨h1, h2, h3⟩
    exact ⟨Q.x, Q.y, Q.x * Q.y, repExt_affine Q, h1, h2, h3⟩
  · rintro ⟨X, Y, T, ⟨-, hx, hy, hT⟩, h1, h2, h3⟩
    rw [div_one] at hx hy
    rw [one_mul] at hT
    refine ⟨by rw [h1, hx, hy], by rw [h2, hx, hy], by rw [h3, hx, hy, hT]⟩

theorem _root_.Dalek.Edwards.RepExt.toPNiels {Q : Ed} {X Y Z T : Fp} (h : RepExt Q X Y Z T) :
    RepPNiels Q (Y + X) (Y - X) Z (T * (2 * d)) := ⟨X, Y, T, h, rfl, rfl, rfl⟩

/-- The x, y of the point in terms of an extended representative, with the inverse written as the code
computes it (`Z⁻¹`). -/
theorem _root_.Dalek.Edwards.RepExt.x_eq {Q : Ed} {X Y Z T : Fp} (h : RepExt Q X Y Z T) : X * Z⁻¹ = Q.x := by
  rw [h.2.1, div_eq_mul_inv]

theorem _root_.Dalek.Edwards.RepExt.y_eq {Q : Ed} {X Y Z T : Fp} (h : RepExt Q X Y Z T) : Y * Z⁻¹ = Q.y := by
  rw [h.2.2.1, div_eq_mul_inv]

/-! ## Transport along equal coordinates (used as `h.of_eq (by ring) …`) -/

theorem _root_.Dalek.Edwards.RepExt.of_eq {Q : Ed} {X Y Z T X' Y' Z' T' : Fp} (h : RepExt Q X Y Z T)
    (hX : X' = X) (hY : Y' = Y) (hZ : Z' = Z) (hT : T' = T) : RepExt Q X' Y' Z' T' := by
  subst hX hY hZ hT; exact h

theorem _root_.Dalek.Edwards.RepProj.of_eq {Q : Ed} {X Y Z X' Y' Z' : Fp} (h : RepProj Q X Y Z)
    (hX : X' = X) (hY : Y' = Y) (hZ : Z' = Z) : RepProj Q X' Y' Z' := by
  subst hX hY hZ; exact h

theorem _root_.Dalek.Edwards.RepCompleted.of_eq {Q : Ed} {X Y Z T X' Y' Z' T' : Fp}
    (h : RepCompleted Q X Y Z T) (hX : X' = X) (hY : Y' = Y) (hZ : Z' = Z) (hT : T' = T) :
    RepCompleted Q X' Y' Z' T' := by
  subst hX hY hZ hT; exact h

/-! ## Equality of represented points (`ct_eq`) -/

instance : DecidableEq Ed := fun _ _ => decidable_of_iff _ EdPoint.ext_iff.symm

theorem _root_.Dalek.Edwards.RepProj.eq_iff {P Q : Ed} {X1 Y1 Z1 X2 Y2 Z2 : Fp} (hP : RepProj P X1 Y1 Z1)
    (hQ : RepProj Q X2 Y2 Z2) : P = Q ↔ X1 * Z2 = X2 * Z1 ∧ Y1 * Z2 = Y2 * Z1 := by
  obtain ⟨hZ1, hx1, hy1⟩ := hP
  obtain ⟨hZ2, hx2, hy2⟩ := hQ
  rw [EdPoint.ext_iff, hx1, hy1, hx2, hy2, div_eq_div_iff hZ1 hZ2, div_eq_div_iff hZ1 hZ2]

/-! ## The curve equation in projective form (`is_valid`) -/

theorem onCurve_proj_iff {X Y Z : Fp} (hZ : Z ≠ 0) :
    onCurve d (X / Z) (Y / Z) ↔ (Y * Y - X * X) * (Z * Z) = Z * Z * (Z * Z) + d * (X * X * (Y * Y)) := by
  unfold onCurve
  have hZ4 : Z ^ 4 ≠ 0 := pow_ne_zero 4 hZ
  constructor
  · intro h
    have e : (-(X / Z) ^ 2 + (Y / Z) ^ 2) * Z ^ 4 = (1 + d * (X / Z) ^ 2 * (Y / Z) ^ 2) * Z ^ 4 := by
      rw [h]
    field_simp at e
    linear_combination e
  · intro h
    apply mul_right_cancel₀ hZ4
    field_simp
    linear_combination h

/-- Every projective triple with `Z ≠ 0` satisfying the projective curve equation represents a point. -/
theorem exists_repProj {X Y Z : Fp} (hZ : Z ≠ 0)
    (h : (Y * Y - X * X) * (Z * Z) = Z * Z * (Z * Z) + d * (X * X * (Y * Y))) :
    ∃ P : Ed, RepProj P X Y Z :=
  ⟨⟨X / Z, Y / Z, (onCurve_proj_iff hZ).2 h⟩, hZ, rfl, rfl⟩

theorem _root_.Dalek.Edwards.RepProj.curve_eq {P : Ed} {X Y Z : Fp} (h : RepProj P X Y Z) :
    (Y * Y - X * X) * (Z * Z) = Z * Z * (Z * Z) + d * (X * X * (Y * Y)) := by
  obtain ⟨hZ, hx, hy⟩ := h
  have := P.on
  rw [hx, hy] at this
  exact (onCurve_proj_iff hZ).1 this

/-! ## Montgomery `u` -/

/-- `(Z+Y)/(Z−Y) = (1+y)/(1−y)` for `y = Y/Z` (both sides `0` when `y = 1`, by `0⁻¹ = 0`). -/
theorem montgomery_u_eq {Y Z : Fp} (hZ : Z ≠ 0) : (Z + Y) * (Z - Y)⁻¹ = (1 + Y / Z) / (1 - Y / Z) := by
  by_cases h : Z - Y = 0
  · have : Y / Z = 1 := by rw [div_eq_one_iff_eq hZ]; exact (sub_eq_zero.1 h).symm
    rw [h, this]; simp
  · have h' : 1 - Y / Z ≠ 0 := by
      intro h0; apply h
      have : Y / Z = 1 := by linear_combination -h0
      rw [div_eq_one_iff_eq hZ] at this; rw [this, sub_self]
    rw [← div_eq_mul_inv, div_eq_div_iff h h']
    field_simp

end Dalek.Proofs

import Dalek.Proofs.AlgRefine26
import Dalek.Proofs.AlgRefineFiat51
import Dalek.Proofs.AlgBoundsInv
import Dalek.Props.C01.Fiat26
import Dalek.Props.C01.FiatBytes26
import Dalek.Props.C01.FiatHistory26
/-!
# The fiat u32 backend satisfies `BackendSpec` (instantiation of `Dalek.Proofs.AlgRefine` from the C01 fiat theorems)

`BF26` collects the TRANSLATED fiat wrapper kernels (`Dalek.Gen.FiatField26`, fiat-crypto functions inlined); the contract `CF26`
is fiat's tight bound everywhere.  With `specF26` every generic refinement theorem of `AlgRefine` (any translated field-level formula,
run on these kernels, is panic-free, stays inside the type invariants and computes its `ZMod p` meaning) applies to this backend.
-/
namespace Dalek.Proofs.AlgRefine
open Dalek.IR Dalek.Model.AlgBounds Dalek.Proofs.AlgBoundsSound Dalek.Proofs
open Dalek.Model.Contracts (ub rep)
open Dalek.Model.FieldBytes (natToLeN leVal val26N)
open Dalek.Props.C01

/-- fiat's tight bound on ten limbs -/
abbrev T26 : List Itv := Dalek.Model.Contracts.FiatField26.tight

open Dalek.Gen.Consts in
/-- fiat u32 backend (`fiat_u64::field::FieldElement51`; constants are `backend/serial/u32/constants.rs`, as for serial u32) -/
def BF26 : Backend where
  add := Dalek.Gen.FiatField26.add_ref
  sub := Dalek.Gen.FiatField26.sub
  mul := Dalek.Gen.FiatField26.mul
  neg := Dalek.Gen.FiatField26.neg
  square := [Dalek.Gen.FiatField26.square]
  square2 := [Dalek.Gen.FiatField26.square2]
  powBody := Dalek.Gen.FiatField26.pow2k_body
  asBytes := Dalek.Gen.FiatField26.as_bytes
  consts := B26.consts
  asBytesPre := T26
  powPre := T26

def CF26 : Contract where
  red := T26
  preAddA := T26
  preAddB := T26
  preSubA := T26
  preSubB := T26
  preMulA := T26
  preMulB := T26
  preNeg := T26
  preSq := T26
  preSq2 := T26
  postSq2 := T26
  prePow := T26
  preBytes := T26

/-- every type invariant of the formulas is the tight bound -/
def IF26 : Dalek.Props.C11.Formulas.Invs where
  fe := T26
  sum := T26
  comp := T26
  loose := T26

theorem lenT26 {a : List Nat} (h : EnvIn a T26) : a.length = 10 := by
  rw [EnvIn_length h]; rfl


theorem powF26 (k : Nat) : ∀ a, EnvIn a T26 →
    iterC Dalek.Gen.FiatField26.pow2k_body (k + 1) a = some (iterW Dalek.Gen.FiatField26.pow2k_body (k + 1) a) ∧
      EnvIn (iterW Dalek.Gen.FiatField26.pow2k_body (k + 1) a) T26 ∧
      v26 (iterW Dalek.Gen.FiatField26.pow2k_body (k + 1) a) = v26 a ^ (2 ^ (k + 1)) := by
  induction k with
  | zero =>
    intro a ha
    obtain ⟨a0, a1, a2, a3, a4, a5, a6, a7, a8, a9, rfl⟩ := list_of_length_10 a (lenT26 ha)
    obtain ⟨out, hC, hW, hp, hv⟩ := Fiat26.pow2k_body_spec a0 a1 a2 a3 a4 a5 a6 a7 a8 a9 ha
    rw [iterC_succ, iterW_succ, hC, hW, iterW_zero]
    refine ⟨rfl, hp, ?_⟩
    rw [v26_eq, v26_eq, hv]; norm_num
  | succ k ih =>
    intro a ha
    obtain ⟨a0, a1, a2, a3, a4, a5, a6, a7, a8, a9, rfl⟩ := list_of_length_10 a (lenT26 ha)
    obtain ⟨out, hC, hW, hp, hv⟩ := Fiat26.pow2k_body_spec a0 a1 a2 a3 a4 a5 a6 a7 a8 a9 ha
    obtain ⟨h1, h2, h3⟩ := ih out hp
    rw [iterC_succ, iterW_succ, hC, hW]
    refine ⟨h1, h2, ?_⟩
    rw [h3, v26_eq, v26_eq, hv, ← pow_mul]; congr 1; ring

theorem specF26 : BackendSpec BF26 CF26 v26 where
  add := by
    intro a b ha hb
    obtain ⟨a0, a1, a2, a3, a4, a5, a6, a7, a8, a9, rfl⟩ := list_of_length_10 a (lenT26 ha)
    obtain ⟨b0, b1, b2, b3, b4, b5, b6, b7, b8, b9, rfl⟩ := list_of_length_10 b (lenT26 hb)
    obtain ⟨out, hC, hW, _, hv⟩ := Fiat26.add_ref_spec a0 a1 a2 a3 a4 a5 a6 a7 a8 a9 b0 b1 b2 b3 b4 b5 b6 b7 b8 b9 (EnvIn_append _ _ ha hb)
    subst hW
    exact ⟨hC, by rw [v26_eq, v26_eq, v26_eq]; exact hv⟩
  sub := by
    intro a b ha hb
    obtain ⟨a0, a1, a2, a3, a4, a5, a6, a7, a8, a9, rfl⟩ := list_of_length_10 a (lenT26 ha)
    obtain ⟨b0, b1, b2, b3, b4, b5, b6, b7, b8, b9, rfl⟩ := list_of_length_10 b (lenT26 hb)
    obtain ⟨out, hC, hW, hp, hv⟩ := Fiat26.sub_spec a0 a1 a2 a3 a4 a5 a6 a7 a8 a9 b0 b1 b2 b3 b4 b5 b6 b7 b8 b9 (EnvIn_append _ _ ha hb)
    subst hW
    exact ⟨hC, hp, by rw [v26_eq, v26_eq, v26_eq]; exact hv⟩
  mul := by
    intro a b ha hb
    obtain ⟨a0, a1, a2, a3, a4, a5, a6, a7, a8, a9, rfl⟩ := list_of_length_10 a (lenT26 ha)
    obtain ⟨b0, b1, b2, b3, b4, b5, b6, b7, b8, b9, rfl⟩ := list_of_length_10 b (lenT26 hb)
    obtain ⟨out, hC, hW, hp, hv⟩ := Fiat26.mul_spec a0 a1 a2 a3 a4 a5 a6 a7 a8 a9 b0 b1 b2 b3 b4 b5 b6 b7 b8 b9 (EnvIn_append _ _ ha hb)
    subst hW
    exact ⟨hC, hp, by rw [v26_eq, v26_eq, v26_eq]; exact hv⟩
  neg := by
    intro a ha
    obtain ⟨a0, a1, a2, a3, a4, a5, a6, a7, a8, a9, rfl⟩ := list_of_length_10 a (lenT26 ha)
    obtain ⟨out, hC, hW, hp, hv⟩ := Fiat26.neg_spec a0 a1 a2 a3 a4 a5 a6 a7 a8 a9 ha
    subst hW
    refine ⟨?_, hp, by rw [v26_eq, v26_eq]; exact hv⟩
    show (Dalek.Gen.FiatField26.neg.evalC _).bind _ = _
    rw [hC]; rfl
  square := by
    intro a ha
    obtain ⟨a0, a1, a2, a3, a4, a5, a6, a7, a8, a9, rfl⟩ := list_of_length_10 a (lenT26 ha)
    obtain ⟨out, hC, hW, hp, hv⟩ := Fiat26.square_spec a0 a1 a2 a3 a4 a5 a6 a7 a8 a9 ha
    subst hW
    refine ⟨?_, hp, by rw [v26_eq, v26_eq, ← pow_two]; exact hv⟩
    show (Dalek.Gen.FiatField26.square.evalC _).bind _ = _
    rw [hC]; rfl
  square2 := by
    intro a ha
    obtain ⟨a0, a1, a2, a3, a4, a5, a6, a7, a8, a9, rfl⟩ := list_of_length_10 a (lenT26 ha)
    obtain ⟨out, hC, hW, hp, hv⟩ := Fiat26.square2_spec a0 a1 a2 a3 a4 a5 a6 a7 a8 a9 ha
    subst hW
    refine ⟨?_, hp, by rw [v26_eq, v26_eq, ← pow_two]; exact hv⟩
    show (Dalek.Gen.FiatField26.square2.evalC _).bind _ = _
    rw [hC]; rfl
  pow := fun k a ha => powF26 k a ha
  const := spec26.const
  bytes := by
    intro a ha
    obtain ⟨h1, h2⟩ := FiatBytes26.as_bytes_canonical a ha
    refine ⟨?_, ?_⟩
    · show Dalek.Gen.FiatField26.as_bytes.evalC a = some (Dalek.Gen.FiatField26.as_bytes.evalW a)
      rw [h1, h2]
    · show Dalek.Gen.FiatField26.as_bytes.evalW a = enc (v26 a)
      rw [h2, v26, enc_natCast]
  choice := spec26.choice

/-- every translated formula passes the contract-composition check on the fiat u32 backend, with ONE type invariant (tight) -/
theorem all_refOkF26 : (Dalek.Props.C11.Formulas.sigs IF26).all (fun s => Sig.refOk BF26 CF26 s) = true := by decide +kernel

end Dalek.Proofs.AlgRefine

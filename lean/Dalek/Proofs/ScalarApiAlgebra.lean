import Dalek.Proofs.ScalarApiKernels
import Dalek.Proofs.Primes
import Mathlib.FieldTheory.Finite.Basic
import Mathlib.Tactic.FieldSimp
import Mathlib.Tactic.Ring
/-!
# `Scalar` API glue, part 2: the kernels as operations of the field `ZMod l`

`Canonical b`: `b` is 32 bytes whose little-endian value is `< l` (the invariant of every `Scalar`).
`IsSc b v` / `IsLm a v`: the canonical bytes `b` / the canonical five limbs `a` represent `v : ZMod l`.
With `Rm = 2^260` (the Montgomery radix) the translated kernels act on represented values as
`as_montgomery : v ↦ v·Rm`, `from_montgomery : v ↦ v·Rm⁻¹`, `montgomery_mul : (u, v) ↦ u·v·Rm⁻¹`, `add/sub/mul`
the field operations.  Helper lemmas for `Dalek/Props/C02/Api.lean`.
-/
set_option exponentiation.threshold 600

namespace Dalek.Proofs.ScalarApi
open Dalek.IR Dalek.Proofs.Scalar52 Dalek.Model.Contracts Dalek.Gen.Consts Dalek.Model.ScalarApi
open Dalek.Model.FieldBytes (leVal natToLeN)
open Dalek.Proofs.Bytes51 (AllBytes envIn_bytes leVal_lt natToLeN_leVal eq_natToLeN_of_leVal natToLeN_getD)
open Dalek.Props.C02.Scalar52

/-- the scalar field -/
abbrev F : Type := ZMod l

/-- the Montgomery radix `2^260` in `ZMod l` -/
def Rm : F := 2 ^ 260

/-- 32 bytes whose little-endian value is below the group order -/
def Canonical (b : List Nat) : Prop := EnvIn b (bytes 32) ∧ leVal b < l

/-- canonical bytes representing `v` -/
def IsSc (b : List Nat) (v : F) : Prop := Canonical b ∧ ((leVal b : Nat) : F) = v

/-- canonical limbs representing `v` -/
def IsLm (a : List Nat) (v : F) : Prop := EnvIn a limbs52 ∧ val52 a < l ∧ ((val52 a : Nat) : F) = v

/-! ## arithmetic facts -/

theorem two_ne_zero_l : (2 : F) ≠ 0 := by
  intro h
  have h2 : ((2 : Nat) : F) = 0 := by exact_mod_cast h
  have := Nat.le_of_dvd (by norm_num) ((ZMod.natCast_eq_zero_iff 2 l).1 h2)
  norm_num [l] at this

theorem Rm_ne_zero : Rm ≠ 0 := pow_ne_zero _ two_ne_zero_l

theorem cast_pow260 : ((2 ^ 260 : Nat) : F) = Rm := by rw [Rm, Nat.cast_pow, Nat.cast_ofNat]

theorem cast_R : ((val52 U64.R : Nat) : F) = Rm := by
  rw [R_value, ZMod.natCast_mod, cast_pow260]

/-- `x = n mod l` from equality of casts, for `x < l` -/
theorem eq_mod_of_cast {x n : Nat} (hx : x < l) (h : ((x : Nat) : F) = ((n : Nat) : F)) : x = n % l := by
  have := (ZMod.natCast_eq_natCast_iff' x n l).1 h
  rwa [Nat.mod_eq_of_lt hx] at this

theorem cast_of_mod_eq {x y : Nat} (h : x % l = y % l) : ((x : Nat) : F) = ((y : Nat) : F) :=
  (ZMod.natCast_eq_natCast_iff' x y l).2 h

theorem cast_ne_zero {x : Nat} (h0 : x ≠ 0) (hx : x < l) : ((x : Nat) : F) ≠ 0 := by
  intro h
  have := Nat.le_of_dvd (Nat.pos_of_ne_zero h0) ((ZMod.natCast_eq_zero_iff x l).1 h)
  omega

theorem cast_eq_zero_iff {x : Nat} (hx : x < l) : ((x : Nat) : F) = 0 ↔ x = 0 := by
  constructor
  · intro h
    by_contra h0
    exact cast_ne_zero h0 hx h
  · rintro rfl; simp

/-- Fermat: `u^(l-2) = u⁻¹` (total: `0⁻¹ = 0`) -/
theorem pow_l_sub_two (u : F) : u ^ (l - 2) = u⁻¹ := by
  by_cases hu : u = 0
  · subst hu
    rw [inv_zero]
    exact zero_pow (by norm_num [l])
  · apply eq_inv_of_mul_eq_one_left
    rw [← pow_succ]
    have h : l - 2 + 1 = l - 1 := by norm_num [l]
    rw [h]
    have := ZMod.pow_card_sub_one_eq_one hu
    exact this

/-! ## `Canonical`, `IsSc`, `IsLm` -/

theorem Canonical.isSc {b : List Nat} (h : Canonical b) : IsSc b ((leVal b : Nat) : F) := ⟨h, rfl⟩

theorem IsSc.canonical {b : List Nat} {v : F} (h : IsSc b v) : Canonical b := h.1

theorem IsSc.val_eq {b : List Nat} {n : Nat} (h : IsSc b ((n : Nat) : F)) : leVal b = n % l :=
  eq_mod_of_cast h.1.2 h.2

/-- canonical byte strings are determined by the represented value -/
theorem IsSc.unique {b b' : List Nat} {v : F} (h : IsSc b v) (h' : IsSc b' v) : b = b' := by
  have hv : leVal b = leVal b' := by
    have := eq_mod_of_cast h.1.2 (h.2.trans h'.2.symm)
    rwa [Nat.mod_eq_of_lt h'.1.2] at this
  obtain ⟨hl, hb⟩ := (envIn_bytes 32 b).1 h.1.1
  obtain ⟨hl', hb'⟩ := (envIn_bytes 32 b').1 h'.1.1
  rw [eq_natToLeN_of_leVal hl hb rfl, eq_natToLeN_of_leVal hl' hb' rfl, hv]

/-- bit 255 (indeed bits 253…255) of a canonical scalar is clear -/
theorem Canonical.byte31 {b : List Nat} (h : Canonical b) : b.getD 31 0 < 32 := by
  obtain ⟨hl, hb⟩ := (envIn_bytes 32 b).1 h.1
  have e : b = natToLeN (leVal b) 32 := eq_natToLeN_of_leVal hl hb rfl
  rw [e, natToLeN_getD 32 _ 31 (by norm_num)]
  have := h.2
  have hl : l < 2 ^ 253 := l_lt_pow
  generalize leVal b = v at this ⊢
  omega

theorem byte31_lt_of_leVal_lt {b : List Nat} (hb : EnvIn b (bytes 32)) (h : leVal b < 2 ^ 255) :
    b.getD 31 0 < 128 := by
  obtain ⟨hl, hbb⟩ := (envIn_bytes 32 b).1 hb
  have e : b = natToLeN (leVal b) 32 := eq_natToLeN_of_leVal hl hbb rfl
  rw [e, natToLeN_getD 32 _ 31 (by norm_num)]
  generalize leVal b = v at h ⊢
  omega

theorem leVal_lt_256_32 {b : List Nat} (hb : EnvIn b (bytes 32)) : leVal b < 2 ^ 256 := by
  obtain ⟨hl, hbb⟩ := (envIn_bytes 32 b).1 hb
  have := leVal_lt b hbb
  rw [hl] at this
  norm_num at this ⊢
  exact this

/-- `unpack` of ANY 32 bytes: five limbs whose value is the little-endian value -/
theorem unpack_any {b : List Nat} (hb : EnvIn b (bytes 32)) :
    EnvIn (unpack b) limbs52 ∧ val52 (unpack b) = leVal b ∧ val52 (unpack b) < 2 ^ 256 := by
  obtain ⟨h1, h2⟩ := unpack_ok hb
  exact ⟨h1, h2, by rw [show val52 (unpack b) = leVal b from h2]; exact leVal_lt_256_32 hb⟩

theorem IsSc.toLimbs {b : List Nat} {v : F} (h : IsSc b v) : IsLm (unpack b) v := by
  obtain ⟨h1, h2, -⟩ := unpack_any h.1.1
  exact ⟨h1, by rw [h2]; exact h.1.2, by rw [h2]; exact h.2⟩

theorem IsLm.toBytes {a : List Nat} {v : F} (h : IsLm a v) : IsSc (pack a) v := by
  obtain ⟨h1, h2⟩ := pack_ok h.1 (lt_trans h.2.1 (by norm_num [l]))
  exact ⟨⟨h1, by rw [show leVal (pack a) = val52 a from h2]; exact h.2.1⟩,
    by rw [show leVal (pack a) = val52 a from h2]; exact h.2.2⟩

/-- `as_montgomery` of ANY limbs inside the contract -/
theorem asMontgomery_any {a : List Nat} (ha : EnvIn a limbs52) :
    IsLm (asMontgomery52 a) (((val52 a : Nat) : F) * Rm) := by
  obtain ⟨h1, h2⟩ := asMontgomery52_ok ha
  refine ⟨h1, by rw [h2]; exact Nat.mod_lt _ l_pos, ?_⟩
  rw [h2, ZMod.natCast_mod, Nat.cast_mul, cast_pow260]

theorem IsLm.asMontgomery {a : List Nat} {v : F} (h : IsLm a v) : IsLm (asMontgomery52 a) (v * Rm) := by
  have := asMontgomery_any h.1
  rwa [h.2.2] at this

/-- `from_montgomery` of ANY limbs inside the contract -/
theorem fromMontgomery_any {a : List Nat} (ha : EnvIn a limbs52) :
    IsLm (fromMontgomery52 a) (((val52 a : Nat) : F) * Rm⁻¹) := by
  obtain ⟨h1, h2, h3⟩ := fromMontgomery52_ok ha
  refine ⟨h1, h2, ?_⟩
  have := cast_of_mod_eq h3
  rw [Nat.cast_mul, cast_pow260] at this
  rw [← this, mul_assoc, mul_inv_cancel₀ Rm_ne_zero, mul_one]

theorem IsLm.fromMontgomery {a : List Nat} {v : F} (h : IsLm a v) : IsLm (fromMontgomery52 a) (v * Rm⁻¹) := by
  have := fromMontgomery_any h.1
  rwa [h.2.2] at this

theorem IsLm.montgomeryMul {a b : List Nat} {u v : F} (ha : IsLm a u) (hb : IsLm b v) :
    IsLm (montgomeryMul52 a b) (u * v * Rm⁻¹) := by
  obtain ⟨h1, h2, h3⟩ := montgomeryMul52_ok ha.1 hb.1 ha.2.1 hb.2.1
  refine ⟨h1, h2, ?_⟩
  have := cast_of_mod_eq h3
  rw [Nat.cast_mul, cast_pow260, Nat.cast_mul, ha.2.2, hb.2.2] at this
  rw [← this, mul_assoc, mul_inv_cancel₀ Rm_ne_zero, mul_one]

theorem IsLm.montgomerySquare {a : List Nat} {u : F} (ha : IsLm a u) :
    IsLm (montgomerySquare52 a) (u * u * Rm⁻¹) := by
  obtain ⟨h1, h2, h3⟩ := montgomerySquare52_ok ha.1 ha.2.1
  refine ⟨h1, h2, ?_⟩
  have := cast_of_mod_eq h3
  rw [Nat.cast_mul, cast_pow260, Nat.cast_mul, ha.2.2] at this
  rw [← this, mul_assoc, mul_inv_cancel₀ Rm_ne_zero, mul_one]

theorem IsLm.add {a b : List Nat} {u v : F} (ha : IsLm a u) (hb : IsLm b v) : IsLm (add52 a b) (u + v) := by
  obtain ⟨h1, h2⟩ := add52_ok ha.1 hb.1 ha.2.1 hb.2.1
  refine ⟨h1, by rw [h2]; exact Nat.mod_lt _ l_pos, ?_⟩
  rw [h2, ZMod.natCast_mod, Nat.cast_add, ha.2.2, hb.2.2]

theorem IsLm.sub {a b : List Nat} {u v : F} (ha : IsLm a u) (hb : IsLm b v) : IsLm (sub52 a b) (u - v) := by
  obtain ⟨h1, h2⟩ := sub52_ok ha.1 hb.1 ha.2.1 hb.2.1
  refine ⟨h1, by rw [h2]; exact Nat.mod_lt _ l_pos, ?_⟩
  have e : val52 a + l - val52 b = val52 a + (l - val52 b) := by have := hb.2.1; omega
  rw [h2, ZMod.natCast_mod, e, Nat.cast_add, Nat.cast_sub hb.2.1.le, ZMod.natCast_self, ha.2.2, hb.2.2]
  ring

theorem IsLm.mul {a b : List Nat} {u v : F} (ha : IsLm a u) (hb : IsLm b v) : IsLm (mul52 a b) (u * v) := by
  obtain ⟨h1, h2⟩ := mul52_ok ha.1 hb.1 ha.2.1 hb.2.1
  refine ⟨h1, by rw [h2]; exact Nat.mod_lt _ l_pos, ?_⟩
  rw [h2, ZMod.natCast_mod, Nat.cast_mul, ha.2.2, hb.2.2]

theorem ZERO52_isLm : IsLm ZERO52 0 := ⟨ZERO52_limbs, by rw [ZERO52_val]; exact l_pos, by rw [ZERO52_val]; simp⟩

/-- `montgomery_reduce(mul_internal(x, R))` for ANY limbs `x` with value `< 2^256`: the canonical limbs of `x mod l`
(the body of `reduce` and the first two steps of `Neg`) -/
theorem montReduce_mulR {a : List Nat} (ha : EnvIn a limbs52) (hv : val52 a < 2 ^ 256) :
    IsLm (montgomeryReduce52 (mulInternal52 a U64.R)) ((val52 a : Nat) : F) := by
  obtain ⟨h1, h2⟩ := mulInternal52_ok ha R_limbs
  have hR : val52 U64.R < l := by rw [R_value]; exact Nat.mod_lt _ l_pos
  have hN : val52 (mulInternal52 a U64.R) < 2 ^ 260 * l := by
    rw [h2]
    exact Nat.mul_lt_mul'' (lt_trans hv (by norm_num)) hR
  obtain ⟨h3, h4, h5⟩ := montgomeryReduce52_ok h1 hN
  refine ⟨h3, h4, ?_⟩
  have := cast_of_mod_eq h5
  rw [h2, Nat.cast_mul, Nat.cast_mul, cast_pow260, cast_R] at this
  exact mul_right_cancel₀ Rm_ne_zero this

/-! ## the API functions -/

theorem reduce_isSc {b : List Nat} (hb : EnvIn b (bytes 32)) : IsSc (reduce52 b) ((leVal b : Nat) : F) := by
  obtain ⟨h1, h2, h3⟩ := unpack_any hb
  have := (montReduce_mulR h1 h3).toBytes
  rwa [h2] at this

theorem wide_isSc {b : List Nat} (hb : EnvIn b (bytes 64)) :
    IsSc (fromBytesModOrderWide b) ((leVal b : Nat) : F) := by
  obtain ⟨h1, h2⟩ := fromBytesWide_ok hb
  have : IsLm (fromBytesWide52 b) ((leVal b : Nat) : F) :=
    ⟨h1, by rw [h2]; exact Nat.mod_lt _ l_pos, by rw [h2, ZMod.natCast_mod]⟩
  exact this.toBytes

theorem add_isSc {a b : List Nat} {u v : F} (ha : IsSc a u) (hb : IsSc b v) : IsSc (add a b) (u + v) :=
  (ha.toLimbs.add hb.toLimbs).toBytes

theorem sub_isSc {a b : List Nat} {u v : F} (ha : IsSc a u) (hb : IsSc b v) : IsSc (sub a b) (u - v) :=
  (ha.toLimbs.sub hb.toLimbs).toBytes

theorem mul_isSc {a b : List Nat} {u v : F} (ha : IsSc a u) (hb : IsSc b v) : IsSc (mul a b) (u * v) :=
  (ha.toLimbs.mul hb.toLimbs).toBytes

/-- `Neg` of ANY 32 bytes (it reduces first) -/
theorem neg_any {b : List Nat} (hb : EnvIn b (bytes 32)) : IsSc (neg b) (-((leVal b : Nat) : F)) := by
  obtain ⟨h1, h2, h3⟩ := unpack_any hb
  have h := (ZERO52_isLm.sub (montReduce_mulR h1 h3)).toBytes
  rw [h2, zero_sub] at h
  exact h

theorem neg_isSc {a : List Nat} {u : F} (ha : IsSc a u) : IsSc (neg a) (-u) := by
  have := neg_any ha.1.1
  rwa [ha.2] at this

theorem ZERO_isSc : IsSc ScalarRs.ZERO 0 := by
  refine ⟨⟨by decide +kernel, by decide +kernel⟩, ?_⟩
  rw [show leVal ScalarRs.ZERO = 0 by decide +kernel]; simp

theorem ONE_isSc : IsSc ScalarRs.ONE 1 := by
  refine ⟨⟨by decide +kernel, by decide +kernel⟩, ?_⟩
  rw [show leVal ScalarRs.ONE = 1 by decide +kernel]; simp

theorem sum_isSc : ∀ {bs : List (List Nat)} {xs : List F} {acc : List Nat} {a : F},
    List.Forall₂ IsSc bs xs → IsSc acc a →
    IsSc (bs.foldl (fun acc item => Dalek.Model.ScalarApi.add acc item) acc) (a + xs.sum)
  | _, _, _, _, .nil, ha => by simpa using ha
  | _, _, _, _, .cons hb hbs, ha => by
      simp only [List.foldl_cons, List.sum_cons]
      rw [← add_assoc]
      exact sum_isSc hbs (add_isSc ha hb)

theorem product_isSc : ∀ {bs : List (List Nat)} {xs : List F} {acc : List Nat} {a : F},
    List.Forall₂ IsSc bs xs → IsSc acc a →
    IsSc (bs.foldl (fun acc item => Dalek.Model.ScalarApi.mul acc item) acc) (a * xs.prod)
  | _, _, _, _, .nil, ha => by simpa using ha
  | _, _, _, _, .cons hb hbs, ha => by
      simp only [List.foldl_cons, List.prod_cons]
      rw [← mul_assoc]
      exact product_isSc hbs (mul_isSc ha hb)

/-- a list of canonical scalars represents the list of its values -/
theorem forall2_isSc_of_canonical : ∀ {bs : List (List Nat)}, (∀ b ∈ bs, Canonical b) →
    List.Forall₂ IsSc bs (bs.map (fun b => ((leVal b : Nat) : F)))
  | [], _ => .nil
  | b :: bs, h => .cons (h b (by simp)).isSc (forall2_isSc_of_canonical (fun x hx => h x (by simp [hx])))

/-! ## integer conversions -/

theorem leVal_append_zeros : ∀ (a : List Nat) (m : Nat), leVal (a ++ List.replicate m 0) = leVal a
  | [], 0 => rfl
  | [], m + 1 => by
      have := leVal_append_zeros [] m
      simp only [List.nil_append] at this
      simp [List.replicate_succ, leVal, this]
  | x :: xs, m => by simp [leVal, leVal_append_zeros xs m]

theorem fromUInt_isSc {k x : Nat} (hk : k ≤ 16) (hx : x < 256 ^ k) : IsSc (fromUInt k x) ((x : Nat) : F) := by
  have hv : leVal (fromUInt k x) = x := by
    simp only [fromUInt]
    rw [leVal_append_zeros, Dalek.Proofs.Bytes51.leVal_natToLeN, Nat.mod_eq_of_lt hx]
  have hx' : x < 256 ^ 16 := lt_of_lt_of_le hx (Nat.pow_le_pow_right (by norm_num) hk)
  refine ⟨⟨(envIn_bytes 32 _).2 ⟨?_, ?_⟩, ?_⟩, by rw [hv]⟩
  · simp only [fromUInt, List.length_append, Dalek.Proofs.Bytes51.natToLeN_length, List.length_replicate]
    omega
  · intro b hb
    simp only [fromUInt, List.mem_append, List.mem_replicate] at hb
    rcases hb with hb | ⟨-, rfl⟩
    · exact Dalek.Proofs.Bytes51.natToLeN_allBytes _ _ b hb
    · omega
  · rw [hv]
    exact lt_trans hx' (by norm_num [l])

end Dalek.Proofs.ScalarApi

/-
Byte codecs of the executable specification: `leToNat` / `natToLe` are inverse (mod `256^len`),
`feToBytes` is the canonical 32-byte encoding, `feFromBytes ∘ feToBytes = (· % P)`; bit 255
(`signBit` / `setSignBit`).
-/
import Dalek.Spec.Edwards
import Dalek.Proofs.Bridge.Field

namespace Dalek.Bridge

open Dalek.Spec

/-! ## Little-endian codec -/

@[simp] theorem natToLe_length (n len : Nat) : (natToLe n len).length = len := by
  induction len generalizing n with
  | zero => rfl
  | succ len ih => simp [natToLe, ih]

/-- `leToNat ∘ natToLe` is reduction mod `256^len`. -/
theorem leToNat_natToLe (n len : Nat) : leToNat (natToLe n len) = n % 256 ^ len := by
  induction len generalizing n with
  | zero => simp [natToLe, leToNat, Nat.mod_one]
  | succ len ih =>
    simp only [natToLe, leToNat, ih, UInt8.toNat_ofNat']
    have h8 : (2 : Nat) ^ 8 = 256 := by norm_num
    rw [h8, Nat.mod_mod, Nat.pow_succ, Nat.mul_comm (256 ^ len) 256, Nat.mod_mul]

theorem leToNat_lt (l : List UInt8) : leToNat l < 256 ^ l.length := by
  induction l with
  | nil => simp [leToNat]
  | cons b bs ih =>
    have hb := UInt8.toNat_lt b
    simp only [leToNat, List.length_cons, Nat.pow_succ]
    omega

/-- `natToLe ∘ leToNat` is the identity at the right length. -/
theorem natToLe_leToNat (l : List UInt8) : natToLe (leToNat l) l.length = l := by
  induction l with
  | nil => rfl
  | cons b bs ih =>
    have hb := UInt8.toNat_lt b
    simp only [leToNat, List.length_cons, natToLe]
    have h1 : (b.toNat + 256 * leToNat bs) % 256 = b.toNat := by omega
    have h2 : (b.toNat + 256 * leToNat bs) / 256 = leToNat bs := by omega
    rw [h1, h2, ih]
    congr 1
    apply UInt8.toNat_inj.1
    rw [UInt8.toNat_ofNat']; omega

/-- `leToNat` is injective on lists of equal length. -/
theorem leToNat_inj {l l' : List UInt8} (hlen : l.length = l'.length) (h : leToNat l = leToNat l') :
    l = l' := by
  rw [← natToLe_leToNat l, ← natToLe_leToNat l', h, hlen]

/-- Byte `n` of a little-endian string. -/
theorem getD_toNat (l : List UInt8) (n : Nat) (h : n < l.length) :
    (l.getD n 0).toNat = leToNat l / 256 ^ n % 256 := by
  induction l generalizing n with
  | nil => simp at h
  | cons b bs ih =>
    have hb := UInt8.toNat_lt b
    cases n with
    | zero => simp only [List.getD_cons_zero, leToNat, Nat.pow_zero, Nat.div_one]; omega
    | succ n =>
      simp only [List.length_cons, Nat.add_lt_add_iff_right] at h
      simp only [List.getD_cons_succ, leToNat, Nat.pow_succ]
      rw [ih n h, Nat.mul_comm (256 ^ n) 256, ← Nat.div_div_eq_div_mul]
      congr 2; omega

/-! ## `modifyNth` -/

@[simp] theorem modifyNth_length {α} (f : α → α) (n : Nat) (l : List α) :
    (modifyNth f n l).length = l.length := by
  induction l generalizing n with
  | nil => cases n <;> rfl
  | cons b bs ih => cases n <;> simp [modifyNth, ih]

theorem modifyNth_getD {α} (f : α → α) (n : Nat) (l : List α) (d : α) (h : n < l.length) :
    (modifyNth f n l).getD n d = f (l.getD n d) := by
  induction l generalizing n with
  | nil => simp at h
  | cons b bs ih =>
    cases n with
    | zero => simp [modifyNth]
    | succ n =>
      simp only [List.length_cons, Nat.add_lt_add_iff_right] at h
      simp only [modifyNth, List.getD_cons_succ]; exact ih n h

theorem leToNat_modifyNth (f : UInt8 → UInt8) (n : Nat) (l : List UInt8) (h : n < l.length) :
    leToNat (modifyNth f n l) + 256 ^ n * (l.getD n 0).toNat
      = leToNat l + 256 ^ n * (f (l.getD n 0)).toNat := by
  induction l generalizing n with
  | nil => simp at h
  | cons b bs ih =>
    cases n with
    | zero => simp only [modifyNth, leToNat, List.getD_cons_zero, Nat.pow_zero]; omega
    | succ n =>
      simp only [List.length_cons, Nat.add_lt_add_iff_right] at h
      have := ih n h
      simp only [modifyNth, leToNat, List.getD_cons_succ, Nat.pow_succ]
      have e1 : 256 ^ n * 256 * (bs.getD n 0).toNat = 256 * (256 ^ n * (bs.getD n 0).toNat) := by
        ring
      have e2 : 256 ^ n * 256 * (f (bs.getD n 0)).toNat
          = 256 * (256 ^ n * (f (bs.getD n 0)).toNat) := by ring
      rw [e1, e2]; omega

/-! ## Field element codec -/

theorem P_lt_255 : P < 2 ^ 255 := by norm_num
theorem pow_255_lt : 2 ^ 255 < 256 ^ 32 := by norm_num

@[simp] theorem feToBytes_length (a : Nat) : (feToBytes a).length = 32 := natToLe_length _ _

/-- The encoding is canonical: it decodes (as an integer) to `a % P`. -/
theorem leToNat_feToBytes (a : Nat) : leToNat (feToBytes a) = a % P := by
  unfold feToBytes
  rw [leToNat_natToLe]
  have := Nat.mod_lt a P_pos
  have := P_lt_255
  have := pow_255_lt
  exact Nat.mod_eq_of_lt (by omega)

/-- **Canonicity** of `feToBytes`. -/
theorem leToNat_feToBytes_lt (a : Nat) : leToNat (feToBytes a) < P := by
  rw [leToNat_feToBytes]; exact Nat.mod_lt a P_pos

/-- **Round trip** `feFromBytes ∘ feToBytes`. -/
theorem feFromBytes_feToBytes (a : Nat) : feFromBytes (feToBytes a) = a % P := by
  unfold feFromBytes
  rw [leToNat_feToBytes]
  have := Nat.mod_lt a P_pos
  have := P_lt_255
  rw [Nat.mod_eq_of_lt (by omega : a % P < 2 ^ 255), Nat.mod_mod]

theorem feFromBytes_lt (b : List UInt8) : feFromBytes b < P := Nat.mod_lt _ P_pos

theorem cast_feFromBytes (b : List UInt8) :
    ((feFromBytes b : Nat) : Fp) = ((leToNat b % 2 ^ 255 : Nat) : Fp) := cast_mod_P _

/-- Round trip `feToBytes ∘ feFromBytes` for a canonical 32-byte string (integer value `< P`). -/
theorem feToBytes_feFromBytes {b : List UInt8} (hlen : b.length = 32) (h : leToNat b < P) :
    feToBytes (feFromBytes b) = b := by
  have := P_lt_255
  unfold feToBytes feFromBytes
  rw [Nat.mod_eq_of_lt (by omega : leToNat b < 2 ^ 255), Nat.mod_mod, Nat.mod_eq_of_lt h, ← hlen]
  exact natToLe_leToNat b

/-- `feToBytes` is injective on canonical values. -/
theorem feToBytes_inj {a b : Nat} (ha : a < P) (hb : b < P) (h : feToBytes a = feToBytes b) : a = b := by
  have h1 := congrArg leToNat h
  rwa [leToNat_feToBytes, leToNat_feToBytes, Nat.mod_eq_of_lt ha, Nat.mod_eq_of_lt hb] at h1

/-! ## Bit 255 -/

theorem byte_or_80 : ∀ n, n < 128 → n ||| 128 = n + 128 := by decide +kernel

theorem byte_shift7 (x : UInt8) : (x >>> 7 == 1) = decide (x.toNat / 128 = 1) := by
  rw [beq_eq_decide, decide_eq_decide, ← UInt8.toNat_inj, UInt8.toNat_shiftRight]
  have h7 : (7 : UInt8).toNat % 8 = 7 := by decide
  have h1 : (1 : UInt8).toNat = 1 := by decide
  have h128 : (2 : Nat) ^ 7 = 128 := by norm_num
  rw [h7, h1, Nat.shiftRight_eq_div_pow, h128]

/-- `signBit` is bit 255 of the integer value of a 32-byte string. -/
theorem signBit_eq {b : List UInt8} (hlen : b.length = 32) :
    signBit b = decide (leToNat b / 2 ^ 255 % 2 = 1) := by
  unfold signBit
  rw [byte_shift7, getD_toNat b 31 (by omega)]
  have hlt := leToNat_lt b
  rw [hlen] at hlt
  have e : (2 : Nat) ^ 255 = 256 ^ 31 * 128 := by norm_num
  rw [e, ← Nat.div_div_eq_div_mul]
  congr 1
  apply propext
  omega

theorem signBit_of_lt {b : List UInt8} (hlen : b.length = 32) (h : leToNat b < 2 ^ 255) :
    signBit b = false := by
  rw [signBit_eq hlen, Nat.div_eq_of_lt h]; rfl

@[simp] theorem setSignBit_length (b : List UInt8) (s : Bool) :
    (setSignBit b s).length = b.length := by
  unfold setSignBit; split <;> simp

theorem leToNat_setSignBit {b : List UInt8} (hlen : b.length = 32) (h : leToNat b < 2 ^ 255) (s : Bool) :
    leToNat (setSignBit b s) = leToNat b + (if s then 2 ^ 255 else 0) := by
  cases s with
  | false => simp [setSignBit]
  | true =>
    simp only [setSignBit, if_true]
    have h1 := leToNat_modifyNth (fun x => x ||| 0x80) 31 b (by omega)
    have h2 := getD_toNat b 31 (by omega)
    have e : (2 : Nat) ^ 255 = 256 ^ 31 * 128 := by norm_num
    have h3 : (b.getD 31 0).toNat < 128 := by
      rw [h2]
      have : leToNat b / 256 ^ 31 < 128 := by
        rw [Nat.div_lt_iff_lt_mul (by norm_num)]; rw [e] at h; rw [Nat.mul_comm]; exact h
      omega
    have h4 : ((fun x : UInt8 => x ||| 0x80) (b.getD 31 0)).toNat = (b.getD 31 0).toNat + 128 := by
      simp only [UInt8.toNat_or]
      exact byte_or_80 _ h3
    rw [h4] at h1
    rw [e]
    have : 256 ^ 31 * ((b.getD 31 0).toNat + 128)
        = 256 ^ 31 * (b.getD 31 0).toNat + 256 ^ 31 * 128 := by ring
    omega

theorem signBit_setSignBit {b : List UInt8} (hlen : b.length = 32) (h : leToNat b < 2 ^ 255) (s : Bool) :
    signBit (setSignBit b s) = s := by
  rw [signBit_eq (by simp [hlen]), leToNat_setSignBit hlen h]
  cases s with
  | false => simp only [Bool.false_eq_true, if_false, Nat.add_zero, Nat.div_eq_of_lt h]; rfl
  | true =>
    simp only [if_true]
    rw [Nat.add_div_right _ (by norm_num), Nat.div_eq_of_lt h]; rfl

theorem feFromBytes_setSignBit {b : List UInt8} (hlen : b.length = 32) (h : leToNat b < 2 ^ 255)
    (s : Bool) : feFromBytes (setSignBit b s) = feFromBytes b := by
  unfold feFromBytes
  rw [leToNat_setSignBit hlen h]
  cases s with
  | false => simp
  | true => simp only [if_true, Nat.add_mod_right]

end Dalek.Bridge

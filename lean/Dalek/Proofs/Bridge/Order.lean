/-
The Ed25519 basepoint has prime order `ℓ` in the group `Ed` (kernel evaluation of the executable
specification `[ℓ]B = 0`, `B ≠ 0`, transported by `Bridge/Edwards.lean`).
-/
import Dalek.Proofs.Bridge.Edwards
import Dalek.Proofs.Bridge.Scalar
import Mathlib.GroupTheory.OrderOfElement

namespace Dalek.Bridge

open Dalek.Spec

/-- **`[ℓ]B = 0`** in the group of the curve. -/
theorem L_nsmul_Bpt : L • Bpt = 0 :=
  (isTorsionFree_iff onCurve_B).1 (by decide +kernel)

theorem Bpt_ne_zero : Bpt ≠ 0 := by
  intro h
  have := (isIdentity_iff onCurve_B canon_B).2 h
  revert this
  decide +kernel

/-- **The basepoint has order exactly `ℓ`** (`ℓ` is prime). -/
theorem addOrderOf_Bpt : addOrderOf Bpt = L :=
  addOrderOf_eq_prime L_nsmul_Bpt Bpt_ne_zero

/-- Scalar multiples of the basepoint only depend on the scalar mod `ℓ`. -/
theorem mod_L_nsmul_Bpt (n : Nat) : (n % L) • Bpt = n • Bpt := by
  rw [← addOrderOf_Bpt]; exact mod_addOrderOf_nsmul Bpt n

/-- `[n]B = [m]B` iff `n ≡ m (mod ℓ)`. -/
theorem nsmul_Bpt_eq_iff (n m : Nat) : n • Bpt = m • Bpt ↔ (n : Fl) = (m : Fl) := by
  rw [castL_eq_iff, ← Nat.ModEq, ← addOrderOf_Bpt]
  exact nsmul_eq_nsmul_iff_modEq

end Dalek.Bridge

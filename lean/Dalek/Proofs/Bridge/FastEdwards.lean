/-
The extended-coordinates model `Dalek.Model.EPt` (`Dalek/Model/FastEdwards.lean`, used by the model
executable) computes the same group operations as the affine specification `Dalek.Spec.Pt`, i.e. the
group law of `Ed = EdPoint edParams`.

Main user-facing statements: `ERep` (an `EPt` denotes a curve point), `EPt.Valid`,
`erep_ofAffine/zero/neg/add/sub/double/smul/mulByPow2/msm/sum`, `rep_toAffine`, `eq_iff`,
`toAffine_smul_ofAffine`, `toAffine_msm_ofAffine`, `toAffine_add_ofAffine`, `toAffine_ofAffine`,
`isIdentity_iff_E`, `isSmallOrder_iff_E`, `isTorsionFree_iff_E`.
-/
import Dalek.Model.FastEdwards
import Dalek.Proofs.Bridge.Edwards

namespace Dalek.Bridge

open Dalek.Spec Dalek.Model Dalek.FieldFacts
open Dalek.Edwards (EdParams EdPoint RepExt RepProj RepCompleted)

/-- **The extended point `e` denotes the curve point `Q`**: `Z ≠ 0`, `x = X/Z`, `y = Y/Z`,
`XY = ZT` (all in `Fp`). -/
def ERep (e : EPt) (Q : Ed) : Prop := RepExt Q (e.X : Fp) (e.Y : Fp) (e.Z : Fp) (e.T : Fp)

/-- An extended point is valid if it denotes some point of the curve. -/
def _root_.Dalek.Model.EPt.Valid (e : EPt) : Prop := ∃ Q : Ed, ERep e Q

/-- The curve point denoted by a valid extended point is unique. -/
theorem ERep.unique {e : EPt} {Q R : Ed} (hQ : ERep e Q) (hR : ERep e R) : Q = R :=
  EdPoint.ext (hQ.2.1.trans hR.2.1.symm) (hQ.2.2.1.trans hR.2.2.1.symm)

/-- All four coordinates may be negated (projective scaling by `-1`). -/
theorem repExt_neg_all {Q : Ed} {X Y Z T : Fp} (h : RepExt Q X Y Z T) :
    RepExt Q (-X) (-Y) (-Z) (-T) := by
  obtain ⟨hZ, hx, hy, hT⟩ := h
  refine ⟨neg_ne_zero.2 hZ, ?_, ?_, ?_⟩
  · rw [hx, neg_div_neg_eq]
  · rw [hy, neg_div_neg_eq]
  · linear_combination hT

/-! ## Constructors -/

theorem erep_zero : ERep EPt.zero 0 := by
  have h := Dalek.Edwards.repExt_zero (c := edParams)
  unfold ERep EPt.zero
  simpa using h

theorem erep_ofAffine {p : Pt} {Q : Ed} (hp : Rep p Q) : ERep (EPt.ofAffine p) Q := by
  have h := Dalek.Edwards.repExt_affine Q
  unfold ERep EPt.ofAffine
  simp only [cast_mod_P, cast_fmul, Nat.cast_one, hp.1, hp.2]
  exact h

theorem valid_ofAffine {p : Pt} (hp : onCurve p = true) : (EPt.ofAffine p).Valid :=
  ⟨_, erep_ofAffine (rep_toEd p hp)⟩

/-! ## Conversion to affine -/

theorem canon_toAffine (e : EPt) : Canon e.toAffine := ⟨fmul_lt _ _, fmul_lt _ _⟩

/-- **`toAffine`** returns the canonical affine specification point. -/
theorem rep_toAffine {e : EPt} {Q : Ed} (h : ERep e Q) : Rep e.toAffine Q := by
  obtain ⟨-, hx, hy, -⟩ := h
  constructor
  · show ((fmul _ _ : Nat) : Fp) = Q.x
    rw [cast_fmul, cast_finv, hx, div_eq_mul_inv]
  · show ((fmul _ _ : Nat) : Fp) = Q.y
    rw [cast_fmul, cast_finv, hy, div_eq_mul_inv]

theorem toAffine_eq {e : EPt} {Q : Ed} (h : ERep e Q) : e.toAffine = ofEd Q :=
  Rep.unique (rep_toAffine h) (rep_ofEd Q) (canon_toAffine e) (canon_ofEd Q)

/-- `toAffine ∘ ofAffine` is reduction of the coordinates, for points on the curve. -/
theorem toAffine_ofAffine {p : Pt} (hp : onCurve p = true) :
    (EPt.ofAffine p).toAffine = ⟨p.x % P, p.y % P⟩ := by
  apply Rep.unique (rep_toAffine (erep_ofAffine (rep_toEd p hp))) _ (canon_toAffine _)
    ⟨Nat.mod_lt _ P_pos, Nat.mod_lt _ P_pos⟩
  exact ⟨cast_mod_P _, cast_mod_P _⟩

/-! ## Group operations -/

theorem erep_neg {e : EPt} {Q : Ed} (h : ERep e Q) : ERep e.neg (-Q) := by
  have h' := Dalek.Edwards.RepExt.neg h
  unfold ERep EPt.neg
  simp only [cast_fneg]
  exact h'

theorem cast_D2 : ((EPt.D2 : Nat) : Fp) = 2 * Dalek.FieldFacts.d := by
  unfold EPt.D2
  rw [cast_mod_P, Nat.cast_mul, cast_D, Nat.cast_ofNat]

/-- **Addition** (`add-2008-hwcd-3`) is the group law. -/
theorem erep_add {e f : EPt} {Q R : Ed} (he : ERep e Q) (hf : ERep f R) : ERep (e.add f) (Q + R) := by
  have h := Dalek.Edwards.add_hwcd3 he hf
  unfold ERep EPt.add
  simp only [cast_fmul, cast_fadd, cast_fsub, cast_D2]
  simp only [edParams_d] at h
  convert h using 1 <;> ring

theorem erep_sub {e f : EPt} {Q R : Ed} (he : ERep e Q) (hf : ERep f R) : ERep (e.sub f) (Q - R) := by
  rw [sub_eq_add_neg]; exact erep_add he (erep_neg hf)

/-- **Doubling** (`dbl-2008-hwcd`, all four coordinates negated w.r.t. dalek's
`ProjectivePoint::double` followed by `as_extended`). -/
theorem erep_double {e : EPt} {Q : Ed} (he : ERep e Q) : ERep e.double (Q + Q) := by
  have h := repExt_neg_all (Dalek.Edwards.double_projective he.toProj).as_extended
  unfold ERep EPt.double
  simp only [cast_fmul, cast_fadd, cast_fsub, cast_fsq, cast_fneg, Nat.cast_ofNat]
  convert h using 1 <;> ring

theorem erep_double' {e : EPt} {Q : Ed} (he : ERep e Q) : ERep e.double (2 • Q) := by
  rw [two_nsmul]; exact erep_double he

/-! ## Scalar multiplication -/

theorem erep_smulFuel {e : EPt} {Q : Ed} (he : ERep e Q) :
    ∀ (fuel n : Nat), n < 2 ^ fuel → ERep (EPt.smulFuel fuel n e) (n • Q) := by
  intro fuel
  induction fuel with
  | zero =>
    intro n hn
    have : n = 0 := by simpa using hn
    subst this
    rw [zero_nsmul]; exact erep_zero
  | succ fuel ih =>
    intro n hn
    unfold EPt.smulFuel
    by_cases h0 : n = 0
    · rw [if_pos h0, h0, zero_nsmul]; exact erep_zero
    · rw [if_neg h0]
      have hd := erep_double (ih (n / 2) (by omega))
      dsimp only
      by_cases hodd : n % 2 = 1
      · rw [if_pos hodd]
        have e' : n • Q = (n / 2) • Q + (n / 2) • Q + Q := by
          conv_lhs => rw [show n = n / 2 + n / 2 + 1 by omega]
          rw [succ_nsmul, add_nsmul]
        rw [e']; exact erep_add hd he
      · rw [if_neg hodd]
        have e' : n • Q = (n / 2) • Q + (n / 2) • Q := by
          conv_lhs => rw [show n = n / 2 + n / 2 by omega]
          rw [add_nsmul]
        rw [e']; exact hd

/-- **Scalar multiplication** in extended coordinates is `n • Q`. -/
theorem erep_smul {e : EPt} {Q : Ed} (he : ERep e Q) (n : Nat) : ERep (EPt.smul n e) (n • Q) :=
  erep_smulFuel he _ n Nat.lt_log2_self

theorem erep_mulByPow2 {e : EPt} {Q : Ed} (he : ERep e Q) (k : Nat) :
    ERep (EPt.mulByPow2 k e) (2 ^ k • Q) := by
  induction k generalizing e Q with
  | zero => simpa [EPt.mulByPow2] using he
  | succ k ih =>
    unfold EPt.mulByPow2
    have := ih (erep_double' he)
    rwa [← mul_nsmul, ← pow_succ'] at this

/-- **Multiscalar multiplication.** -/
theorem erep_msm : ∀ (ns : List Nat) (es : List EPt) (Qs : List Ed),
    List.Forall₂ ERep es Qs → ERep (EPt.msm ns es) (msmEd ns Qs)
  | [], _, _, _ => by unfold EPt.msm msmEd; exact erep_zero
  | _ :: _, [], _, h => by cases h; unfold EPt.msm msmEd; exact erep_zero
  | n :: ns, e :: es, _, h => by
    cases h with
    | cons h1 h2 =>
      unfold EPt.msm msmEd
      exact erep_add (erep_smul h1 n) (erep_msm ns es _ h2)

theorem erep_foldl_add : ∀ (es : List EPt) (Qs : List Ed) (a : EPt) (A : Ed), ERep a A →
    List.Forall₂ ERep es Qs → ERep (es.foldl EPt.add a) (A + Qs.sum)
  | [], _, a, A, ha, h => by cases h; simpa using ha
  | e :: es, _, a, A, ha, h => by
    cases h with
    | cons h1 h2 =>
      rw [List.foldl_cons, List.sum_cons, ← add_assoc]
      exact erep_foldl_add es _ _ _ (erep_add ha h1) h2

theorem erep_sum (es : List EPt) (Qs : List Ed) (h : List.Forall₂ ERep es Qs) :
    ERep (EPt.sum es) Qs.sum := by
  have := erep_foldl_add es Qs EPt.zero 0 erep_zero h
  rwa [zero_add] at this

/-! ## Equality and order tests -/

/-- **Projective equality** decides equality of the denoted curve points. -/
theorem eq_iff {e f : EPt} {Q R : Ed} (he : ERep e Q) (hf : ERep f R) :
    EPt.eq e f = true ↔ Q = R := by
  obtain ⟨hZ1, hx1, hy1, -⟩ := he
  obtain ⟨hZ2, hx2, hy2, -⟩ := hf
  unfold EPt.eq
  rw [Bool.and_eq_true, beq_iff_cast (fmul_lt _ _) (fmul_lt _ _),
    beq_iff_cast (fmul_lt _ _) (fmul_lt _ _)]
  simp only [cast_fmul]
  constructor
  · rintro ⟨h1, h2⟩
    apply EdPoint.ext
    · rw [hx1, hx2, div_eq_div_iff hZ1 hZ2]; exact h1
    · rw [hy1, hy2, div_eq_div_iff hZ1 hZ2]; exact h2
  · intro h
    subst h
    constructor
    · rw [← div_eq_div_iff hZ1 hZ2, ← hx1, ← hx2]
    · rw [← div_eq_div_iff hZ1 hZ2, ← hy1, ← hy2]

theorem isIdentity_iff_E {e : EPt} {Q : Ed} (he : ERep e Q) : e.isIdentity = true ↔ Q = 0 :=
  eq_iff he erep_zero

theorem isSmallOrder_iff_E {e : EPt} {Q : Ed} (he : ERep e Q) : e.isSmallOrder = true ↔ 8 • Q = 0 := by
  unfold EPt.isSmallOrder
  have := isIdentity_iff_E (erep_mulByPow2 he 3)
  simpa using this

theorem isTorsionFree_iff_E {e : EPt} {Q : Ed} (he : ERep e Q) :
    e.isTorsionFree = true ↔ L • Q = 0 :=
  isIdentity_iff_E (erep_smul he L)

/-! ## Agreement with the affine specification -/

/-- **The model's scalar multiplication agrees with the specification**:
`(EPt.smul n (ofAffine p)).toAffine = Pt.smul n p` for `p` on the curve. -/
theorem toAffine_smul_ofAffine {p : Pt} (hp : onCurve p = true) (n : Nat) :
    (EPt.smul n (EPt.ofAffine p)).toAffine = Pt.smul n p :=
  Rep.unique (rep_toAffine (erep_smul (erep_ofAffine (rep_toEd p hp)) n))
    (rep_smul (rep_toEd p hp) n) (canon_toAffine _) (canon_smul n p)

/-- Same for an arbitrary valid extended point. -/
theorem toAffine_smul {e : EPt} (he : e.Valid) (n : Nat) :
    (EPt.smul n e).toAffine = Pt.smul n e.toAffine := by
  obtain ⟨Q, hQ⟩ := he
  exact Rep.unique (rep_toAffine (erep_smul hQ n)) (rep_smul (rep_toAffine hQ) n)
    (canon_toAffine _) (canon_smul n _)

theorem toAffine_add {e f : EPt} (he : e.Valid) (hf : f.Valid) :
    (e.add f).toAffine = e.toAffine.add f.toAffine := by
  obtain ⟨Q, hQ⟩ := he
  obtain ⟨R, hR⟩ := hf
  exact Rep.unique (rep_toAffine (erep_add hQ hR)) (rep_add (rep_toAffine hQ) (rep_toAffine hR))
    (canon_toAffine _) (canon_add _ _)

theorem toAffine_add_ofAffine {p q : Pt} (hp : onCurve p = true) (hq : onCurve q = true) :
    ((EPt.ofAffine p).add (EPt.ofAffine q)).toAffine = p.add q :=
  Rep.unique (rep_toAffine (erep_add (erep_ofAffine (rep_toEd p hp)) (erep_ofAffine (rep_toEd q hq))))
    (rep_add (rep_toEd p hp) (rep_toEd q hq)) (canon_toAffine _) (canon_add _ _)

theorem toAffine_double {e : EPt} (he : e.Valid) : e.double.toAffine = e.toAffine.double := by
  obtain ⟨Q, hQ⟩ := he
  exact Rep.unique (rep_toAffine (erep_double' hQ)) (rep_double (rep_toAffine hQ))
    (canon_toAffine _) (canon_double _)

theorem toAffine_neg {e : EPt} (he : e.Valid) : e.neg.toAffine = e.toAffine.neg := by
  obtain ⟨Q, hQ⟩ := he
  exact Rep.unique (rep_toAffine (erep_neg hQ)) (rep_neg (rep_toAffine hQ))
    (canon_toAffine _) (canon_neg _)

theorem toAffine_zero : EPt.zero.toAffine = Pt.zero :=
  Rep.unique (rep_toAffine erep_zero) rep_zero (canon_toAffine _) canon_zero

theorem forall₂_ofAffine : ∀ (ps : List Pt), (∀ p ∈ ps, onCurve p = true) →
    ∃ Qs : List Ed, List.Forall₂ Rep ps Qs ∧ List.Forall₂ ERep (ps.map EPt.ofAffine) Qs
  | [], _ => ⟨[], List.Forall₂.nil, List.Forall₂.nil⟩
  | p :: ps, h => by
    obtain ⟨Qs, h1, h2⟩ := forall₂_ofAffine ps (fun q hq => h q (List.mem_cons_of_mem _ hq))
    have hp := h p List.mem_cons_self
    exact ⟨toEd p hp :: Qs, List.Forall₂.cons (rep_toEd p hp) h1,
      List.Forall₂.cons (erep_ofAffine (rep_toEd p hp)) h2⟩

/-- **The model's multiscalar multiplication agrees with the specification.** -/
theorem toAffine_msm_ofAffine (ns : List Nat) (ps : List Pt) (h : ∀ p ∈ ps, onCurve p = true) :
    (EPt.msm ns (ps.map EPt.ofAffine)).toAffine = Pt.msm ns ps := by
  obtain ⟨Qs, h1, h2⟩ := forall₂_ofAffine ps h
  exact Rep.unique (rep_toAffine (erep_msm ns _ Qs h2)) (rep_msm ns ps Qs h1)
    (canon_toAffine _) (canon_msm ns ps)

/-- The model's `decompress` returns valid points. -/
theorem valid_decompress {b : List UInt8} {e : EPt} (h : EPt.decompress b = some e) : e.Valid := by
  unfold EPt.decompress at h
  cases hd : Dalek.Spec.decompress b with
  | none => rw [hd] at h; cases h
  | some p =>
    rw [hd] at h
    have : e = EPt.ofAffine p := (Option.some.inj h).symm
    rw [this]
    exact valid_ofAffine (decompress_some hd).1

theorem valid_basepoint : EPt.basepoint.Valid := valid_ofAffine onCurve_B

theorem erep_basepoint : ERep EPt.basepoint Bpt := erep_ofAffine rep_B

/-! ## Validity, explicitly -/

/-- A valid extended point denotes `toEd` of its affine image
(`EPt.Valid e → RepExt (toEd e.toAffine _) X Y Z T`). -/
theorem erep_toEd_toAffine {e : EPt} (he : e.Valid) :
    ∃ h : onCurve e.toAffine = true, ERep e (toEd e.toAffine h) := by
  obtain ⟨Q, hQ⟩ := he
  have hr := rep_toAffine hQ
  exact ⟨hr.on, by rw [hr.toEd_eq hr.on]; exact hQ⟩

/-- Executable validity check (kernel-evaluable): `Z ≢ 0`, `XY ≡ ZT`, and the affine image is on
the curve. -/
def _root_.Dalek.Model.EPt.validB (e : EPt) : Bool :=
  (e.Z % P != 0) && (fmul e.X e.Y == fmul e.Z e.T) && onCurve e.toAffine

/-- **`validB` decides `Valid`.** -/
theorem validB_iff (e : EPt) : e.validB = true ↔ e.Valid := by
  unfold EPt.validB
  rw [Bool.and_eq_true, Bool.and_eq_true, bne_iff_ne, beq_iff_cast (fmul_lt _ _) (fmul_lt _ _)]
  simp only [cast_fmul]
  constructor
  · rintro ⟨⟨hZ, hT⟩, hon⟩
    have hZ' : (e.Z : Fp) ≠ 0 := fun h => hZ ((cast_eq_zero_iff _).1 h)
    refine ⟨toEd e.toAffine hon, hZ', ?_, ?_, hT⟩
    · show ((fmul _ _ : Nat) : Fp) = _
      rw [cast_fmul, cast_finv, div_eq_mul_inv]
    · show ((fmul _ _ : Nat) : Fp) = _
      rw [cast_fmul, cast_finv, div_eq_mul_inv]
  · rintro ⟨Q, hQ⟩
    refine ⟨⟨fun h => hQ.1 ((cast_eq_zero_iff _).2 h), hQ.2.2.2⟩, (rep_toAffine hQ).on⟩

example : EPt.basepoint.validB = true := by decide +kernel

end Dalek.Bridge

/-
Bridge between the executable affine Edwards specification (`Dalek/Spec/Edwards.lean`, points `Pt`
with `Nat` coordinates) and the group `EdPoint edParams` over `Fp = ZMod (2^255 - 19)`.

Main user-facing statements (marked **bold** in the doc comments):
`onCurve_iff`, `toEd`, `toEd_zero/neg/add/sub/double/smul/msm/sum`, `onCurve_B`,
`smul_eq_zero_iff`, `decompress_some`, `decompress_none_iff`, `decompress_complete`,
`decompress_compress`, `compress_injective`, `compress_decompress`.
-/
import Dalek.Spec.Edwards
import Dalek.Proofs.Bridge.Sqrt
import Dalek.Proofs.Bridge.Bytes
import Dalek.Proofs.EdwardsGroup

namespace Dalek.Bridge

open Dalek.Spec Dalek.FieldFacts
open Dalek.Edwards (EdParams EdPoint)

/-! ## Curve parameters -/

/-- The specification constant `D` is the literal used in `FieldFacts`. -/
theorem D_eq_dNat : Dalek.Spec.D = Dalek.FieldFacts.dNat := rfl

theorem cast_D : ((D : Nat) : Fp) = Dalek.FieldFacts.d := by
  simp only [D, Dalek.FieldFacts.d, Nat.cast_ofNat]

theorem D_lt : D < P := by decide +kernel

/-- The Ed25519 curve `-x² + y² = 1 + d x² y²` over `GF(2^255-19)`: `d` is a non-square, `-1` is a
square, `2 ≠ 0`; hence `EdPoint edParams` is a commutative group (complete addition law). -/
def edParams : EdParams Fp where
  d := Dalek.FieldFacts.d
  d_nonsquare := d_not_isSquare
  neg_one_square := isSquare_neg_one
  two_ne_zero := two_ne_zero_p

@[simp] theorem edParams_d : edParams.d = Dalek.FieldFacts.d := rfl

/-- The group of points of the Ed25519 curve. -/
abbrev Ed := EdPoint edParams

/-! ## Points -/

/-- **`Spec.onCurve` is the curve equation in the field.** -/
theorem onCurve_iff (p : Pt) :
    onCurve p = true ↔ Dalek.Edwards.onCurve edParams.d (p.x : Fp) (p.y : Fp) := by
  unfold Dalek.Spec.onCurve Dalek.Edwards.onCurve
  dsimp only
  rw [beq_iff_cast (fsub_lt _ _) (fadd_lt _ _)]
  simp only [cast_fsub, cast_fadd, cast_fmul, cast_fsq, cast_D, Nat.cast_one, edParams_d]
  constructor <;> intro h <;> linear_combination h

/-- Both coordinates are canonical representatives. -/
def Canon (p : Pt) : Prop := p.x < P ∧ p.y < P

instance (p : Pt) : Decidable (Canon p) := by unfold Canon; infer_instance

/-- **The mathematical point denoted by a specification point on the curve.** -/
def toEd (p : Pt) (h : onCurve p = true) : Ed := ⟨(p.x : Fp), (p.y : Fp), (onCurve_iff p).1 h⟩

@[simp] theorem toEd_x (p : Pt) (h : onCurve p = true) : (toEd p h).x = (p.x : Fp) := rfl
@[simp] theorem toEd_y (p : Pt) (h : onCurve p = true) : (toEd p h).y = (p.y : Fp) := rfl

/-- `p` denotes the curve point `Q` (non-dependent form of `toEd p _ = Q`). -/
def Rep (p : Pt) (Q : Ed) : Prop := (p.x : Fp) = Q.x ∧ (p.y : Fp) = Q.y

theorem rep_toEd (p : Pt) (h : onCurve p = true) : Rep p (toEd p h) := ⟨rfl, rfl⟩

theorem Rep.on {p : Pt} {Q : Ed} (h : Rep p Q) : onCurve p = true := by
  rw [onCurve_iff, h.1, h.2]; exact Q.on

theorem Rep.toEd_eq {p : Pt} {Q : Ed} (h : Rep p Q) (hp : onCurve p = true) : toEd p hp = Q :=
  EdPoint.ext h.1 h.2

theorem rep_iff {p : Pt} {Q : Ed} : Rep p Q ↔ ∃ h, toEd p h = Q :=
  ⟨fun h => ⟨h.on, h.toEd_eq _⟩, fun ⟨h, e⟩ => e ▸ rep_toEd p h⟩

/-- Canonical specification points denoting the same curve point are equal. -/
theorem Rep.unique {p q : Pt} {Q : Ed} (hp : Rep p Q) (hq : Rep q Q) (cp : Canon p) (cq : Canon q) :
    p = q := by
  obtain ⟨px, py⟩ := p
  obtain ⟨qx, qy⟩ := q
  have hx : px = qx := eq_of_cast_eq cp.1 cq.1 (hp.1.trans hq.1.symm)
  have hy : py = qy := eq_of_cast_eq cp.2 cq.2 (hp.2.trans hq.2.symm)
  subst hx; subst hy; rfl

/-- **`toEd` is injective on canonical points.** -/
theorem toEd_injective {p q : Pt} (hp : onCurve p = true) (hq : onCurve q = true) (cp : Canon p)
    (cq : Canon q) (h : toEd p hp = toEd q hq) : p = q :=
  Rep.unique (rep_toEd p hp) (h ▸ rep_toEd q hq) cp cq

/-- Every curve point is denoted by a (unique) canonical specification point. -/
def ofEd (Q : Ed) : Pt := ⟨Q.x.val, Q.y.val⟩

theorem rep_ofEd (Q : Ed) : Rep (ofEd Q) Q :=
  ⟨ZMod.natCast_zmod_val Q.x, ZMod.natCast_zmod_val Q.y⟩

theorem canon_ofEd (Q : Ed) : Canon (ofEd Q) := ⟨ZMod.val_lt Q.x, ZMod.val_lt Q.y⟩

/-! ## Group operations -/

theorem canon_zero : Canon Pt.zero := by decide +kernel

theorem rep_zero : Rep Pt.zero 0 := by
  constructor
  · show ((0 : Nat) : Fp) = 0; exact Nat.cast_zero
  · show ((1 : Nat) : Fp) = 1; exact Nat.cast_one

theorem onCurve_zero : onCurve Pt.zero = true := rep_zero.on

/-- **Neutral element.** -/
theorem toEd_zero : toEd Pt.zero onCurve_zero = 0 := rep_zero.toEd_eq _

theorem canon_neg (p : Pt) : Canon p.neg := ⟨fneg_lt _, Nat.mod_lt _ P_pos⟩

theorem rep_neg {p : Pt} {Q : Ed} (h : Rep p Q) : Rep p.neg (-Q) := by
  constructor
  · show ((fneg p.x : Nat) : Fp) = (-Q).x
    rw [cast_fneg, h.1, EdPoint.neg_x]
  · show ((p.y % P : Nat) : Fp) = (-Q).y
    rw [cast_mod_P, h.2, EdPoint.neg_y]

theorem onCurve_neg {p : Pt} (h : onCurve p = true) : onCurve p.neg = true :=
  (rep_neg (rep_toEd p h)).on

/-- **Negation.** -/
theorem toEd_neg {p : Pt} (h : onCurve p = true) : toEd p.neg (onCurve_neg h) = -toEd p h :=
  (rep_neg (rep_toEd p h)).toEd_eq _

/-- The result of `Pt.add` is always canonical. -/
theorem canon_add (p q : Pt) : Canon (p.add q) := ⟨fmul_lt _ _, fmul_lt _ _⟩

theorem rep_add {p q : Pt} {Q R : Ed} (hp : Rep p Q) (hq : Rep q R) : Rep (p.add q) (Q + R) := by
  obtain ⟨hpx, hpy⟩ := hp
  obtain ⟨hqx, hqy⟩ := hq
  constructor
  · show ((fmul _ _ : Nat) : Fp) = (Q + R).x
    rw [EdPoint.add_x]
    simp only [cast_fmul, cast_fadd, cast_finv, cast_D, Nat.cast_one, hpx, hpy, hqx, hqy,
      edParams_d]
    rw [div_eq_mul_inv]
    congr 2; ring
  · show ((fmul _ _ : Nat) : Fp) = (Q + R).y
    rw [EdPoint.add_y]
    simp only [cast_fmul, cast_fadd, cast_fsub, cast_finv, cast_D, Nat.cast_one, hpx, hpy, hqx, hqy,
      edParams_d]
    rw [div_eq_mul_inv]
    congr 2; ring

/-- **Closure**: the specification sum of curve points is on the curve. -/
theorem onCurve_add {p q : Pt} (hp : onCurve p = true) (hq : onCurve q = true) :
    onCurve (p.add q) = true :=
  (rep_add (rep_toEd p hp) (rep_toEd q hq)).on

/-- **Addition**: `Pt.add` is the group law. -/
theorem toEd_add {p q : Pt} (hp : onCurve p = true) (hq : onCurve q = true) :
    toEd (p.add q) (onCurve_add hp hq) = toEd p hp + toEd q hq :=
  (rep_add (rep_toEd p hp) (rep_toEd q hq)).toEd_eq _

theorem canon_sub (p q : Pt) : Canon (p.sub q) := canon_add _ _

theorem rep_sub {p q : Pt} {Q R : Ed} (hp : Rep p Q) (hq : Rep q R) : Rep (p.sub q) (Q - R) := by
  rw [sub_eq_add_neg]; exact rep_add hp (rep_neg hq)

theorem onCurve_sub {p q : Pt} (hp : onCurve p = true) (hq : onCurve q = true) :
    onCurve (p.sub q) = true :=
  (rep_sub (rep_toEd p hp) (rep_toEd q hq)).on

/-- **Subtraction.** -/
theorem toEd_sub {p q : Pt} (hp : onCurve p = true) (hq : onCurve q = true) :
    toEd (p.sub q) (onCurve_sub hp hq) = toEd p hp - toEd q hq :=
  (rep_sub (rep_toEd p hp) (rep_toEd q hq)).toEd_eq _

theorem canon_double (p : Pt) : Canon p.double := canon_add _ _

theorem rep_double {p : Pt} {Q : Ed} (hp : Rep p Q) : Rep p.double (2 • Q) := by
  rw [two_nsmul]; exact rep_add hp hp

theorem onCurve_double {p : Pt} (hp : onCurve p = true) : onCurve p.double = true :=
  (rep_double (rep_toEd p hp)).on

/-- **Doubling.** -/
theorem toEd_double {p : Pt} (hp : onCurve p = true) :
    toEd p.double (onCurve_double hp) = 2 • toEd p hp :=
  (rep_double (rep_toEd p hp)).toEd_eq _

/-! ## Scalar multiplication -/

theorem canon_smulFuel (fuel n : Nat) (p : Pt) : Canon (Pt.smulFuel fuel n p) := by
  cases fuel with
  | zero => exact canon_zero
  | succ fuel =>
    unfold Pt.smulFuel
    split
    · exact canon_zero
    · dsimp only; split <;> exact canon_add _ _

theorem rep_smulFuel {p : Pt} {Q : Ed} (hp : Rep p Q) :
    ∀ (fuel n : Nat), n < 2 ^ fuel → Rep (Pt.smulFuel fuel n p) (n • Q) := by
  intro fuel
  induction fuel with
  | zero =>
    intro n hn
    have : n = 0 := by simpa using hn
    subst this
    rw [zero_nsmul]; exact rep_zero
  | succ fuel ih =>
    intro n hn
    unfold Pt.smulFuel
    by_cases h0 : n = 0
    · rw [if_pos h0, h0, zero_nsmul]; exact rep_zero
    · rw [if_neg h0]
      have hh := ih (n / 2) (by omega)
      have hd := rep_add hh hh
      dsimp only
      by_cases hodd : n % 2 = 1
      · rw [if_pos hodd]
        have e : n • Q = (n / 2) • Q + (n / 2) • Q + Q := by
          conv_lhs => rw [show n = n / 2 + n / 2 + 1 by omega]
          rw [succ_nsmul, add_nsmul]
        rw [e]; exact rep_add hd hp
      · rw [if_neg hodd]
        have e : n • Q = (n / 2) • Q + (n / 2) • Q := by
          conv_lhs => rw [show n = n / 2 + n / 2 by omega]
          rw [add_nsmul]
        rw [e]; exact hd

theorem canon_smul (n : Nat) (p : Pt) : Canon (Pt.smul n p) := canon_smulFuel _ _ _

theorem rep_smul {p : Pt} {Q : Ed} (hp : Rep p Q) (n : Nat) : Rep (Pt.smul n p) (n • Q) :=
  rep_smulFuel hp _ n Nat.lt_log2_self

theorem onCurve_smul {p : Pt} (hp : onCurve p = true) (n : Nat) : onCurve (Pt.smul n p) = true :=
  (rep_smul (rep_toEd p hp) n).on

/-- **Scalar multiplication**: `Pt.smul n p` is `n • p` in the group. -/
theorem toEd_smul {p : Pt} (hp : onCurve p = true) (n : Nat) :
    toEd (Pt.smul n p) (onCurve_smul hp n) = n • toEd p hp :=
  (rep_smul (rep_toEd p hp) n).toEd_eq _

/-- **Identity test**: a specification scalar multiple is `Pt.zero` iff it is `0` in the group
(this is what `isSmallOrder` (`n = 8`) and `isTorsionFree` (`n = L`) evaluate). -/
theorem smul_eq_zero_iff {p : Pt} (hp : onCurve p = true) (n : Nat) :
    (Pt.smul n p == Pt.zero) = true ↔ n • toEd p hp = 0 := by
  rw [beq_iff_eq]
  constructor
  · intro h
    rw [← toEd_smul hp n]
    exact (h ▸ rep_zero : Rep (Pt.smul n p) 0).toEd_eq _
  · intro h
    have := rep_smul (rep_toEd p hp) n
    rw [h] at this
    exact Rep.unique this rep_zero (canon_smul n p) canon_zero

theorem isIdentity_iff {p : Pt} (hp : onCurve p = true) (cp : Canon p) :
    isIdentity p = true ↔ toEd p hp = 0 := by
  unfold isIdentity
  rw [beq_iff_eq]
  constructor
  · intro h; exact (h ▸ rep_zero : Rep p 0).toEd_eq _
  · intro h
    exact Rep.unique (h ▸ rep_toEd p hp) rep_zero cp canon_zero

theorem isSmallOrder_iff {p : Pt} (hp : onCurve p = true) :
    isSmallOrder p = true ↔ 8 • toEd p hp = 0 := smul_eq_zero_iff hp 8

theorem isTorsionFree_iff {p : Pt} (hp : onCurve p = true) :
    isTorsionFree p = true ↔ L • toEd p hp = 0 := smul_eq_zero_iff hp L

/-! ## Multiscalar multiplication, sums -/

theorem canon_msm : ∀ (ns : List Nat) (ps : List Pt), Canon (Pt.msm ns ps)
  | [], _ => canon_zero
  | _ :: _, [] => canon_zero
  | _ :: _, _ :: _ => canon_add _ _

/-- `Σ nᵢ • Qᵢ` over the shorter of the two lists. -/
def msmEd : List Nat → List Ed → Ed
  | n :: ns, Q :: Qs => n • Q + msmEd ns Qs
  | _, _ => 0

/-- **Multiscalar multiplication** (pointwise `Rep` on the two point lists). -/
theorem rep_msm : ∀ (ns : List Nat) (ps : List Pt) (Qs : List Ed),
    List.Forall₂ Rep ps Qs → Rep (Pt.msm ns ps) (msmEd ns Qs)
  | [], _, _, _ => by unfold Pt.msm msmEd; exact rep_zero
  | _ :: _, [], _, h => by cases h; unfold Pt.msm msmEd; exact rep_zero
  | n :: ns, p :: ps, _, h => by
    cases h with
    | cons h1 h2 =>
      unfold Pt.msm msmEd
      exact rep_add (rep_smul h1 n) (rep_msm ns ps _ h2)

theorem rep_foldl_add : ∀ (ps : List Pt) (Qs : List Ed) (a : Pt) (A : Ed), Rep a A →
    List.Forall₂ Rep ps Qs → Rep (ps.foldl Pt.add a) (A + Qs.sum)
  | [], _, a, A, ha, h => by cases h; simpa using ha
  | p :: ps, _, a, A, ha, h => by
    cases h with
    | cons h1 h2 =>
      rw [List.foldl_cons, List.sum_cons, ← add_assoc]
      exact rep_foldl_add ps _ _ _ (rep_add ha h1) h2

/-- **Sum of a list of points.** -/
theorem rep_sum (ps : List Pt) (Qs : List Ed) (h : List.Forall₂ Rep ps Qs) :
    Rep (Pt.sum ps) Qs.sum := by
  have := rep_foldl_add ps Qs Pt.zero 0 rep_zero h
  rwa [zero_add] at this

/-! ## The basepoint -/

/-- **The Ed25519 basepoint is on the curve** (kernel evaluation of the specification). -/
theorem onCurve_B : onCurve B = true := by decide +kernel

theorem canon_B : Canon B := by decide +kernel

/-- The basepoint as a group element. -/
def Bpt : Ed := toEd B onCurve_B

theorem rep_B : Rep B Bpt := rep_toEd _ _

/-! ## Decompression -/

/-- The denominator `d y² + 1` never vanishes (`d` is a non-square). -/
theorem dyy_add_one_ne_zero (y : Fp) : Dalek.FieldFacts.d * y ^ 2 + 1 ≠ 0 := by
  intro h
  by_cases hy : y = 0
  · rw [hy] at h
    exact one_ne_zero (α := Fp) (by linear_combination h)
  · apply d_not_isSquare
    refine ⟨sqrtM1 / y, ?_⟩
    have hi := sqrtM1_mul_self
    field_simp
    linear_combination h - hi

/-- The curve equation solved for `x²`. -/
theorem onCurve_iff_ratio (x y : Fp) :
    Dalek.Edwards.onCurve Dalek.FieldFacts.d x y ↔
      x ^ 2 * (Dalek.FieldFacts.d * y ^ 2 + 1) = y ^ 2 - 1 := by
  unfold Dalek.Edwards.onCurve
  constructor <;> intro h <;> linear_combination -h

/-- `u = y² - 1` of `decompress`. -/
def decU (b : List UInt8) : Nat := fsub (fsq (feFromBytes b)) 1
/-- `v = d y² + 1` of `decompress`. -/
def decV (b : List UInt8) : Nat := fadd (fmul D (fsq (feFromBytes b))) 1

theorem decompress_unfold (b : List UInt8) :
    decompress b =
      if (sqrtRatioM1 (decU b) (decV b)).1 = true then
        some ⟨if signBit b = true then fneg (sqrtRatioM1 (decU b) (decV b)).2
              else (sqrtRatioM1 (decU b) (decV b)).2, feFromBytes b⟩
      else none := by
  unfold decompress decU decV
  dsimp only

theorem cast_decU (b : List UInt8) : ((decU b : Nat) : Fp) = ((feFromBytes b : Nat) : Fp) ^ 2 - 1 := by
  simp only [decU, cast_fsub, cast_fsq, Nat.cast_one]

theorem cast_decV (b : List UInt8) :
    ((decV b : Nat) : Fp) = Dalek.FieldFacts.d * ((feFromBytes b : Nat) : Fp) ^ 2 + 1 := by
  simp only [decV, cast_fadd, cast_fmul, cast_fsq, cast_D, Nat.cast_one]

theorem decV_ne_zero (b : List UInt8) : ((decV b : Nat) : Fp) ≠ 0 := by
  rw [cast_decV]; exact dyy_add_one_ne_zero _

theorem fneg_fneg (a : Nat) : fneg (fneg a) = a % P := by
  apply eq_of_cast_eq (fneg_lt _) (Nat.mod_lt _ P_pos)
  rw [cast_fneg, cast_fneg, cast_mod_P, neg_neg]

theorem fneg_zero : fneg 0 = 0 := by decide +kernel

theorem fneg_eq_zero_iff {a : Nat} (ha : a < P) : fneg a = 0 ↔ a = 0 := by
  rw [← cast_eq_zero_of_lt (fneg_lt a), cast_fneg, neg_eq_zero, cast_eq_zero_of_lt ha]

/-- A point with `y = feFromBytes b` is on the curve iff `x² v = u`. -/
theorem onCurve_iff_dec (x : Nat) (b : List UInt8) :
    onCurve ⟨x, feFromBytes b⟩ = true ↔
      (x : Fp) ^ 2 * ((decV b : Nat) : Fp) = ((decU b : Nat) : Fp) := by
  rw [onCurve_iff, edParams_d, onCurve_iff_ratio, cast_decU, cast_decV]

/-- **Soundness of `decompress`**: the result is a canonical point on the curve, its `y` is the
low 255 bits of the input reduced mod `p`, and (unless `x = 0`) the sign of `x` is bit 255. -/
theorem decompress_some {b : List UInt8} {p : Pt} (h : decompress b = some p) :
    onCurve p = true ∧ Canon p ∧ p.y = (leToNat b % 2 ^ 255) % P ∧
      (p.x ≠ 0 → isNeg p.x = signBit b) ∧ (p.x ≠ 0 → (p.x % 2 = 1 ↔ signBit b = true)) := by
  rw [decompress_unfold] at h
  by_cases hok : (sqrtRatioM1 (decU b) (decV b)).1 = true
  · rw [if_pos hok] at h
    have hp := (Option.some.inj h).symm
    have hr := sqrtRatioM1_ok hok
    have hlt := sqrtRatioM1_lt (decU b) (decV b)
    have hev := sqrtRatioM1_even (decU b) (decV b)
    generalize (sqrtRatioM1 (decU b) (decV b)).2 = r at hp hr hlt hev
    have hPodd := P_odd
    -- facts on x
    have hx : p.x = if signBit b = true then fneg r else r := by rw [hp]
    have hy : p.y = feFromBytes b := by rw [hp]
    have hxlt : p.x < P := by rw [hx]; split; exact fneg_lt _; exact hlt
    have hxsq : (p.x : Fp) ^ 2 = (r : Fp) ^ 2 := by
      rw [hx]; split
      · rw [cast_fneg]; ring
      · rfl
    have hpar : p.x ≠ 0 → (p.x % 2 = 1 ↔ signBit b = true) := by
      intro hx0
      rw [hx] at hx0 ⊢
      by_cases hs : signBit b = true
      · rw [if_pos hs] at hx0 ⊢
        have hr0 : r ≠ 0 := fun h0 => hx0 (by rw [h0]; exact fneg_zero)
        have : fneg r = P - r := by
          unfold fneg; rw [Nat.mod_eq_of_lt hlt]; exact Nat.mod_eq_of_lt (by omega)
        rw [this]; constructor
        · intro _; exact hs
        · intro _; omega
      · rw [if_neg hs]; constructor
        · intro h1; omega
        · intro h1; exact absurd h1 hs
    refine ⟨?_, ⟨hxlt, by rw [hy]; exact feFromBytes_lt b⟩, hy, ?_, hpar⟩
    · have : p = ⟨p.x, feFromBytes b⟩ := by rw [← hy]
      rw [this, onCurve_iff_dec, hxsq]; exact hr
    · intro hx0
      have := hpar hx0
      by_cases hs : signBit b = true
      · rw [hs, isNeg_iff, Nat.mod_eq_of_lt hxlt]; exact this.2 hs
      · rw [Bool.not_eq_true] at hs
        rw [hs, isNeg_eq_false_iff, Nat.mod_eq_of_lt hxlt]
        have : ¬ p.x % 2 = 1 := fun h1 => by rw [this.1 h1] at hs; cases hs
        omega
  · rw [if_neg hok] at h; cases h

/-- **Completeness of `decompress`** (1): it fails exactly when no point of the curve has the
`y`-coordinate encoded by the input. -/
theorem decompress_none_iff (b : List UInt8) :
    decompress b = none ↔ ¬ ∃ x : Nat, onCurve ⟨x, feFromBytes b⟩ = true := by
  constructor
  · intro h ⟨x, hx⟩
    rw [decompress_unfold] at h
    by_cases hok : (sqrtRatioM1 (decU b) (decV b)).1 = true
    · rw [if_pos hok] at h; cases h
    · apply hok
      rw [sqrtRatioM1_ok_iff]
      right
      refine ⟨decV_ne_zero b, (x : Fp), ?_⟩
      rw [div_eq_iff (decV_ne_zero b), ← (onCurve_iff_dec x b).1 hx]; ring
  · intro h
    cases hd : decompress b with
    | none => rfl
    | some p =>
      exfalso; apply h
      obtain ⟨h1, -, h2, -⟩ := decompress_some hd
      refine ⟨p.x, ?_⟩
      have : (⟨p.x, feFromBytes b⟩ : Pt) = p := by
        cases p; simp only [feFromBytes] at h2 ⊢; simp only [h2]
      rw [this]; exact h1

/-- **Completeness of `decompress`** (2): every canonical curve point whose `y` is encoded by `b`
and whose sign matches bit 255 (or whose `x` is `0`, whatever bit 255) is returned. -/
theorem decompress_complete {b : List UInt8} {p : Pt} (hp : onCurve p = true) (cp : Canon p)
    (hy : p.y = feFromBytes b) (hs : p.x = 0 ∨ isNeg p.x = signBit b) :
    decompress b = some p := by
  obtain ⟨x, y⟩ := p
  simp only at hy hs
  subst hy
  have hxlt : x < P := cp.1
  have hcurve := (onCurve_iff_dec x b).1 hp
  -- the non-negative root is `fabs x`
  have hroot : sqrtRatioM1 (decU b) (decV b) = (true, fabs x) := by
    apply sqrtRatioM1_unique (decV_ne_zero b) (fabs_lt x) (fabs_even x)
    rw [cast_fabs_sq]; exact hcurve
  rw [decompress_unfold, hroot]
  simp only [if_true]
  congr 2
  rcases hs with h0 | hs
  · subst h0
    have : fabs 0 = 0 := by decide +kernel
    rw [this, fneg_zero]; simp
  · unfold fabs
    rw [← hs]
    cases hn : isNeg x
    · simp [Nat.mod_eq_of_lt hxlt]
    · simp only [if_true]
      rw [fneg_fneg, Nat.mod_eq_of_lt hxlt]

/-! ## Compression -/

@[simp] theorem compress_length (p : Pt) : (compress p).length = 32 := by
  unfold compress; simp

theorem leToNat_feToBytes_lt_255 (a : Nat) : leToNat (feToBytes a) < 2 ^ 255 :=
  Nat.lt_trans (leToNat_feToBytes_lt a) P_lt_255

theorem signBit_compress (p : Pt) : signBit (compress p) = isNeg p.x :=
  signBit_setSignBit (feToBytes_length _) (leToNat_feToBytes_lt_255 _) _

theorem feFromBytes_compress (p : Pt) : feFromBytes (compress p) = p.y % P := by
  unfold compress
  rw [feFromBytes_setSignBit (feToBytes_length _) (leToNat_feToBytes_lt_255 _),
    feFromBytes_feToBytes]

/-- **Round trip**: decompressing the encoding of a canonical curve point returns the point. -/
theorem decompress_compress {p : Pt} (hp : onCurve p = true) (cp : Canon p) :
    decompress (compress p) = some p :=
  decompress_complete hp cp (by rw [feFromBytes_compress, Nat.mod_eq_of_lt cp.2])
    (Or.inr (signBit_compress p).symm)

/-- **`compress` is injective on canonical curve points.** -/
theorem compress_injective {p q : Pt} (hp : onCurve p = true) (cp : Canon p)
    (hq : onCurve q = true) (cq : Canon q) (h : compress p = compress q) : p = q := by
  have h1 := decompress_compress hp cp
  rw [h, decompress_compress hq cq] at h1
  exact (Option.some.inj h1).symm

/-- **Round trip on canonical encodings**: if a 32-byte string whose low 255 bits are `< p`
decompresses to `p`, and it is not the non-canonical "negative zero" (`x = 0` with bit 255 set),
then `compress p` gives the string back. -/
theorem compress_decompress {b : List UInt8} {p : Pt} (hlen : b.length = 32)
    (hcanon : leToNat b % 2 ^ 255 < P) (h : decompress b = some p)
    (hnz : ¬ (p.x = 0 ∧ signBit b = true)) : compress p = b := by
  obtain ⟨-, -, hy, hsign, -⟩ := decompress_some h
  have hs : isNeg p.x = signBit b := by
    by_cases hx0 : p.x = 0
    · rw [hx0, isNeg_zero]
      cases hsb : signBit b
      · rfl
      · exact absurd ⟨hx0, hsb⟩ hnz
    · exact hsign hx0
  have h255 : leToNat b % 2 ^ 255 < 2 ^ 255 := Nat.mod_lt _ (by norm_num)
  apply leToNat_inj (by rw [compress_length, hlen])
  unfold compress
  rw [leToNat_setSignBit (feToBytes_length _) (leToNat_feToBytes_lt_255 _), leToNat_feToBytes, hy,
    Nat.mod_mod, Nat.mod_eq_of_lt hcanon, hs, signBit_eq hlen]
  have hlt := leToNat_lt b
  rw [hlen] at hlt
  have e : (256 : Nat) ^ 32 = 2 ^ 255 * 2 := by norm_num
  rw [e] at hlt
  have hq : leToNat b / 2 ^ 255 < 2 := by
    rw [Nat.div_lt_iff_lt_mul (by norm_num)]; exact hlt
  have hdm := Nat.div_add_mod (leToNat b) (2 ^ 255)
  by_cases hb : leToNat b / 2 ^ 255 % 2 = 1
  · simp only [hb, decide_true, if_true]
    have : leToNat b / 2 ^ 255 = 1 := by omega
    rw [this] at hdm; omega
  · simp only [hb, decide_false, Bool.false_eq_true, if_false]
    have : leToNat b / 2 ^ 255 = 0 := by omega
    rw [this] at hdm; omega

end Dalek.Bridge

/-
`Spec.sqrtRatioM1` (RFC 9496 `SQRT_RATIO_M1`, dalek `FieldElement::sqrt_ratio_i`) meets its
four-case contract, stated in the field `Fp = ZMod (2^255 - 19)`.

Main statements: `sqrtRatioM1_lt`, `sqrtRatioM1_even`, `sqrtRatioM1_zero`, `sqrtRatioM1_v_zero`,
`sqrtRatioM1_square`, `sqrtRatioM1_nonsquare`, `sqrtRatioM1_ok_iff`, `sqrtRatioM1_unique`,
and the combined `sqrtRatioM1_spec`.
-/
import Dalek.Proofs.Bridge.Field
import Mathlib.Tactic.FieldSimp

namespace Dalek.Bridge

open Dalek.Spec Dalek.FieldFacts

/-! ## Field facts: `i = sqrt(-1)`, fourth roots of unity -/

theorem cast_SQRT_M1 : ((SQRT_M1 : Nat) : Fp) = sqrtM1 := by
  simp only [SQRT_M1, sqrtM1, Nat.cast_ofNat]

theorem SQRT_M1_lt : SQRT_M1 < P := by decide +kernel

theorem sqrtM1_ne_zero : sqrtM1 ≠ 0 := by
  intro h
  have h1 := sqrtM1_mul_self
  rw [h, mul_zero] at h1
  exact one_ne_zero (α := Fp) (by linear_combination h1)

theorem one_ne_neg_one : (1 : Fp) ≠ -1 := fun h => neg_one_ne_one_p h.symm

theorem sqrtM1_ne_one : sqrtM1 ≠ 1 := by
  intro h
  have h1 := sqrtM1_mul_self
  rw [h, mul_one] at h1
  exact one_ne_neg_one h1

theorem sqrtM1_ne_neg_one : sqrtM1 ≠ -1 := by
  intro h
  have h1 := sqrtM1_mul_self
  rw [h] at h1
  exact one_ne_neg_one (by linear_combination h1)

theorem sqrtM1_ne_neg_self : sqrtM1 ≠ -sqrtM1 := by
  intro h
  have h2 : (2 : Fp) * sqrtM1 = 0 := by linear_combination h
  rcases mul_eq_zero.1 h2 with h3 | h3
  · exact two_ne_zero_p h3
  · exact sqrtM1_ne_zero h3

/-- The fourth roots of unity are `±1, ±i`. -/
theorem fourth_root_cases {z : Fp} (h : z ^ 4 = 1) :
    z = 1 ∨ z = -1 ∨ z = sqrtM1 ∨ z = -sqrtM1 := by
  have hi := sqrtM1_mul_self
  have h0 : (z - 1) * ((z + 1) * ((z - sqrtM1) * (z + sqrtM1))) = 0 := by
    linear_combination h - (z ^ 2 - 1) * hi
  rcases mul_eq_zero.1 h0 with h1 | h1
  · left; exact sub_eq_zero.1 h1
  rcases mul_eq_zero.1 h1 with h2 | h2
  · right; left; exact eq_neg_of_add_eq_zero_left h2
  rcases mul_eq_zero.1 h2 with h3 | h3
  · right; right; left; exact sub_eq_zero.1 h3
  · right; right; right; exact eq_neg_of_add_eq_zero_left h3

theorem P_quarter : (P - 1) / 4 * 4 = P - 1 := by decide +kernel
theorem P_quarter_eq : (P - 1) / 4 = 2 * ((P - 5) / 8) + 1 := by decide +kernel
theorem P_half_eq : P / 2 = (P - 1) / 4 * 2 := by decide +kernel
theorem P_quarter_odd : Odd ((P - 1) / 4) := by
  rw [Nat.odd_iff]; decide +kernel

theorem pow_quarter_fourth {t : Fp} (ht : t ≠ 0) : (t ^ ((P - 1) / 4)) ^ 4 = 1 := by
  rw [← pow_mul, P_quarter]; exact pow_p_sub_one ht

/-- `i` is not a square (as `p ≡ 5 mod 8`). -/
theorem sqrtM1_not_isSquare : ¬ IsSquare sqrtM1 := by
  rw [ZMod.euler_criterion (2 ^ 255 - 19) sqrtM1_ne_zero]
  have h : sqrtM1 ^ (P / 2) = -1 := by
    rw [P_half_eq, mul_comm, pow_mul, sqrtM1_sq, P_quarter_odd.neg_one_pow]
  intro h'
  exact neg_one_ne_one_p (h.symm.trans h')

/-- The algebraic heart of `sqrt_ratio_i`. -/
theorem check_identity (u v : Fp) (k : Nat) :
    v * (u * v ^ 3 * (u * v ^ 7) ^ k) ^ 2 = u * (u * v ^ 7) ^ (2 * k + 1) := by ring

/-! ## Unfolding the specification -/

/-- The candidate root `u v³ (u v⁷)^((p-5)/8)` as computed by the specification. -/
def cand (u v : Nat) : Nat :=
  fmul (fmul (u % P) (fmul (fsq (v % P)) (v % P)))
    (fpow (fmul (u % P) (fmul (fsq (fmul (fsq (v % P)) (v % P))) (v % P))) ((P - 5) / 8))

/-- `v · r²` for the candidate root. -/
def chk (u v : Nat) : Nat := fmul (v % P) (fsq (cand u v))

theorem sqrtRatioM1_unfold (u v : Nat) :
    sqrtRatioM1 u v =
      ((chk u v == u % P) || (chk u v == fneg (u % P)),
       fabs (if (chk u v == fneg (u % P)) || (chk u v == fmul (fneg (u % P)) SQRT_M1)
             then fmul SQRT_M1 (cand u v) else cand u v)) := rfl

theorem cast_cand (u v : Nat) :
    ((cand u v : Nat) : Fp) = (u : Fp) * (v : Fp) ^ 3 * ((u : Fp) * (v : Fp) ^ 7) ^ ((P - 5) / 8) := by
  simp only [cand, cast_fmul, cast_fsq, cast_fpow, cast_mod_P]; ring

theorem cast_chk (u v : Nat) :
    ((chk u v : Nat) : Fp) = (u : Fp) * ((u : Fp) * (v : Fp) ^ 7) ^ ((P - 1) / 4) := by
  simp only [chk, cast_fmul, cast_fsq, cast_mod_P, cast_cand]
  rw [check_identity, P_quarter_eq]

theorem cast_chk' (u v : Nat) :
    ((chk u v : Nat) : Fp) = (v : Fp) * ((cand u v : Nat) : Fp) ^ 2 := by
  simp only [chk, cast_fmul, cast_fsq, cast_mod_P]

theorem chk_lt (u v : Nat) : chk u v < P := fmul_lt _ _

theorem beq_iff_cast {a b : Nat} (ha : a < P) (hb : b < P) : (a == b) = true ↔ (a : Fp) = (b : Fp) := by
  rw [beq_iff_eq, cast_inj_of_lt ha hb]

theorem beq_false_iff_cast {a b : Nat} (ha : a < P) (hb : b < P) :
    (a == b) = false ↔ (a : Fp) ≠ (b : Fp) := by
  rw [← Bool.not_eq_true, beq_iff_cast ha hb]

/-! ## General facts on the result -/

/-- The returned root is canonical. -/
theorem sqrtRatioM1_lt (u v : Nat) : (sqrtRatioM1 u v).2 < P := by
  rw [sqrtRatioM1_unfold]; dsimp only; exact fabs_lt _

/-- The returned root is non-negative (even). -/
theorem sqrtRatioM1_even (u v : Nat) : (sqrtRatioM1 u v).2 % 2 = 0 := by
  rw [sqrtRatioM1_unfold]; dsimp only; exact fabs_even _

theorem sqrtRatioM1_isNeg (u v : Nat) : isNeg (sqrtRatioM1 u v).2 = false := by
  rw [sqrtRatioM1_unfold]; dsimp only; exact isNeg_fabs _

/-- `sqrtRatioM1` only depends on the residues of its arguments. -/
theorem sqrtRatioM1_mod (u v : Nat) : sqrtRatioM1 (u % P) (v % P) = sqrtRatioM1 u v := by
  unfold sqrtRatioM1; rw [Nat.mod_mod, Nat.mod_mod]

/-! ## The four cases -/

/-- Case `u = 0`: `(true, 0)`. -/
theorem sqrtRatioM1_zero {u : Nat} (v : Nat) (hu : (u : Fp) = 0) : sqrtRatioM1 u v = (true, 0) := by
  have hu0 : u % P = 0 := (cast_eq_zero_iff u).1 hu
  have hc : ((cand u v : Nat) : Fp) = 0 := by rw [cast_cand, hu]; ring
  have hk : chk u v = 0 := by
    apply (cast_eq_zero_of_lt (chk_lt u v)).1; rw [cast_chk', hc]; ring
  rw [sqrtRatioM1_unfold, hk, hu0]
  have h1 : fabs (if ((0 : Nat) == fneg 0) || ((0 : Nat) == fmul (fneg 0) SQRT_M1)
      then fmul SQRT_M1 (cand u v) else cand u v) = 0 := by
    apply fabs_eq_zero
    split
    · rw [cast_fmul, hc, mul_zero]
    · exact hc
  rw [h1]; rfl

/-- Case `v = 0`, `u ≠ 0`: `(false, 0)`. -/
theorem sqrtRatioM1_v_zero {u v : Nat} (hv : (v : Fp) = 0) (hu : (u : Fp) ≠ 0) :
    sqrtRatioM1 u v = (false, 0) := by
  have hc : ((cand u v : Nat) : Fp) = 0 := by rw [cast_cand, hv]; ring
  have hk : ((chk u v : Nat) : Fp) = 0 := by rw [cast_chk', hv]; ring
  have hulp : u % P < P := Nat.mod_lt _ P_pos
  have b1 : (chk u v == u % P) = false := by
    rw [beq_false_iff_cast (chk_lt u v) hulp, hk, cast_mod_P]; exact fun h => hu h.symm
  have b2 : (chk u v == fneg (u % P)) = false := by
    rw [beq_false_iff_cast (chk_lt u v) (fneg_lt _), hk, cast_fneg, cast_mod_P]
    exact fun h => hu (neg_eq_zero.1 h.symm)
  rw [sqrtRatioM1_unfold, b1, b2]
  have h1 : fabs (if (false || (chk u v == fmul (fneg (u % P)) SQRT_M1)) = true
      then fmul SQRT_M1 (cand u v) else cand u v) = 0 := by
    apply fabs_eq_zero
    split
    · rw [cast_fmul, hc, mul_zero]
    · exact hc
  rw [h1]; rfl

/-- Case `u, v ≠ 0`: either `(true, r)` with `r² v = u` or `(false, r)` with `r² v = i u`. -/
theorem sqrtRatioM1_nonzero {u v : Nat} (hu : (u : Fp) ≠ 0) (hv : (v : Fp) ≠ 0) :
    ((sqrtRatioM1 u v).1 = true ∧ (((sqrtRatioM1 u v).2 : Nat) : Fp) ^ 2 * (v : Fp) = (u : Fp)) ∨
    ((sqrtRatioM1 u v).1 = false ∧
      (((sqrtRatioM1 u v).2 : Nat) : Fp) ^ 2 * (v : Fp) = sqrtM1 * (u : Fp)) := by
  have hi := sqrtM1_mul_self
  have ht : (u : Fp) * (v : Fp) ^ 7 ≠ 0 := mul_ne_zero hu (pow_ne_zero 7 hv)
  have hulp : u % P < P := Nat.mod_lt _ P_pos
  have hk := cast_chk u v
  have hk' := cast_chk' u v
  -- the Boolean tests as field propositions
  have e1 : (chk u v == u % P) = true ↔ ((chk u v : Nat) : Fp) = (u : Fp) := by
    rw [beq_iff_cast (chk_lt u v) hulp, cast_mod_P]
  have e2 : (chk u v == fneg (u % P)) = true ↔ ((chk u v : Nat) : Fp) = -(u : Fp) := by
    rw [beq_iff_cast (chk_lt u v) (fneg_lt _), cast_fneg, cast_mod_P]
  have e3 : (chk u v == fmul (fneg (u % P)) SQRT_M1) = true ↔
      ((chk u v : Nat) : Fp) = -(u : Fp) * sqrtM1 := by
    rw [beq_iff_cast (chk_lt u v) (fmul_lt _ _), cast_fmul, cast_fneg, cast_mod_P, cast_SQRT_M1]
  have n1 : ∀ {b : Bool} {p : Prop}, (b = true ↔ p) → ¬ p → b = false := by
    intro b p h hp; cases b
    · rfl
    · exact absurd (h.1 rfl) hp
  have cancel : ∀ {a b : Fp}, (u : Fp) * a = (u : Fp) * b → a = b :=
    fun h => mul_left_cancel₀ hu h
  rw [sqrtRatioM1_unfold]
  rcases fourth_root_cases (pow_quarter_fourth ht) with hz | hz | hz | hz <;> rw [hz] at hk
  · -- ζ = 1 : check = u
    have b1 : (chk u v == u % P) = true := e1.2 (by rw [hk, mul_one])
    have b2 : (chk u v == fneg (u % P)) = false := n1 e2 (by
      rw [hk]; intro h; exact one_ne_neg_one (cancel (by linear_combination h)))
    have b3 : (chk u v == fmul (fneg (u % P)) SQRT_M1) = false := n1 e3 (by
      rw [hk]; intro h
      exact sqrtM1_ne_neg_one (cancel (by linear_combination h)))
    left
    rw [b1, b2, b3]
    refine ⟨rfl, ?_⟩
    simp only [Bool.or_self, Bool.false_eq_true, if_false]
    rw [cast_fabs_sq, mul_comm, ← hk', hk, mul_one]
  · -- ζ = -1 : check = -u
    have b1 : (chk u v == u % P) = false := n1 e1 (by
      rw [hk]; intro h; exact one_ne_neg_one (cancel (by linear_combination -h)))
    have b2 : (chk u v == fneg (u % P)) = true := e2.2 (by rw [hk]; ring)
    left
    rw [b1, b2]
    refine ⟨rfl, ?_⟩
    simp only [Bool.true_or, if_true]
    rw [cast_fabs_sq, cast_fmul, cast_SQRT_M1]
    linear_combination hk' - hk + ((cand u v : Fp) ^ 2 * (v : Fp)) * hi
  · -- ζ = i : check = u i, no test fires
    have b1 : (chk u v == u % P) = false := n1 e1 (by
      rw [hk]; intro h; exact sqrtM1_ne_one (cancel (by linear_combination h)))
    have b2 : (chk u v == fneg (u % P)) = false := n1 e2 (by
      rw [hk]; intro h; exact sqrtM1_ne_neg_one (cancel (by linear_combination h)))
    have b3 : (chk u v == fmul (fneg (u % P)) SQRT_M1) = false := n1 e3 (by
      rw [hk]; intro h
      exact sqrtM1_ne_neg_self (cancel (by linear_combination h)))
    right
    rw [b1, b2, b3]
    refine ⟨rfl, ?_⟩
    simp only [Bool.or_self, Bool.false_eq_true, if_false]
    rw [cast_fabs_sq, mul_comm, ← hk', hk]; ring
  · -- ζ = -i : check = -u i
    have b1 : (chk u v == u % P) = false := n1 e1 (by
      rw [hk]; intro h
      exact sqrtM1_ne_neg_one (cancel (by linear_combination -h)))
    have b2 : (chk u v == fneg (u % P)) = false := n1 e2 (by
      rw [hk]; intro h
      exact sqrtM1_ne_one (cancel (by linear_combination -h)))
    have b3 : (chk u v == fmul (fneg (u % P)) SQRT_M1) = true := e3.2 (by rw [hk]; ring)
    right
    rw [b1, b2, b3]
    refine ⟨rfl, ?_⟩
    simp only [Bool.or_true, if_true]
    rw [cast_fabs_sq, cast_fmul, cast_SQRT_M1]
    linear_combination hk' - hk + ((cand u v : Fp) ^ 2 * (v : Fp)) * hi

/-! ## The contract -/

/-- Case `v ≠ 0`, `u / v` a square: `(true, r)` with `r² v = u`. -/
theorem sqrtRatioM1_square {u v : Nat} (hv : (v : Fp) ≠ 0) (hsq : IsSquare ((u : Fp) / (v : Fp))) :
    (sqrtRatioM1 u v).1 = true ∧ (((sqrtRatioM1 u v).2 : Nat) : Fp) ^ 2 * (v : Fp) = (u : Fp) := by
  by_cases hu : (u : Fp) = 0
  · rw [sqrtRatioM1_zero v hu, hu]; simp
  rcases sqrtRatioM1_nonzero hu hv with h | ⟨-, h⟩
  · exact h
  · exfalso
    -- i = r² v / u = r² / (u/v) would be a square
    obtain ⟨s, hs⟩ := hsq
    have hs0 : s ≠ 0 := by
      intro h0; rw [h0, mul_zero] at hs
      exact hu (by rw [div_eq_iff hv, zero_mul] at hs; exact hs)
    have hus : (u : Fp) = s * s * (v : Fp) := by rw [← hs]; field_simp
    apply sqrtM1_not_isSquare
    refine ⟨(((sqrtRatioM1 u v).2 : Nat) : Fp) / s, ?_⟩
    rw [hus] at h
    field_simp
    have hv' := hv
    apply mul_right_cancel₀ hv
    linear_combination -h

/-- Case `v ≠ 0`, `u / v` not a square: `(false, r)` with `r² v = i u`. -/
theorem sqrtRatioM1_nonsquare {u v : Nat} (hv : (v : Fp) ≠ 0) (hsq : ¬ IsSquare ((u : Fp) / (v : Fp))) :
    (sqrtRatioM1 u v).1 = false ∧
      (((sqrtRatioM1 u v).2 : Nat) : Fp) ^ 2 * (v : Fp) = sqrtM1 * (u : Fp) := by
  have hu : (u : Fp) ≠ 0 := by
    intro h; apply hsq; rw [h, zero_div]; exact ⟨0, by ring⟩
  rcases sqrtRatioM1_nonzero hu hv with ⟨-, h⟩ | h
  · exfalso; apply hsq
    refine ⟨(((sqrtRatioM1 u v).2 : Nat) : Fp), ?_⟩
    rw [div_eq_iff hv, ← h]; ring
  · exact h

/-- The success flag is set exactly when `u = 0`, or `v ≠ 0` and `u / v` is a square. -/
theorem sqrtRatioM1_ok_iff (u v : Nat) :
    (sqrtRatioM1 u v).1 = true ↔
      ((u : Fp) = 0 ∨ ((v : Fp) ≠ 0 ∧ IsSquare ((u : Fp) / (v : Fp)))) := by
  constructor
  · intro h
    by_cases hu : (u : Fp) = 0
    · left; exact hu
    right
    by_cases hv : (v : Fp) = 0
    · rw [sqrtRatioM1_v_zero hv hu] at h; cases h
    refine ⟨hv, ?_⟩
    by_contra hsq
    rw [(sqrtRatioM1_nonsquare hv hsq).1] at h; cases h
  · rintro (hu | ⟨hv, hsq⟩)
    · rw [sqrtRatioM1_zero v hu]
    · exact (sqrtRatioM1_square hv hsq).1

/-- When the flag is set, the root satisfies `r² v = u` (also in the case `u = 0`). -/
theorem sqrtRatioM1_ok {u v : Nat} (h : (sqrtRatioM1 u v).1 = true) :
    (((sqrtRatioM1 u v).2 : Nat) : Fp) ^ 2 * (v : Fp) = (u : Fp) := by
  rcases (sqrtRatioM1_ok_iff u v).1 h with hu | ⟨hv, hsq⟩
  · rw [sqrtRatioM1_zero v hu, hu]; simp
  · exact (sqrtRatioM1_square hv hsq).2

/-- Uniqueness: the result is THE canonical non-negative root.  If `x` is canonical, even and
`x² v = u` with `v ≠ 0`, then `sqrtRatioM1 u v = (true, x)`. -/
theorem sqrtRatioM1_unique {u v x : Nat} (hv : (v : Fp) ≠ 0) (hx : x < P) (hxe : x % 2 = 0)
    (h : (x : Fp) ^ 2 * (v : Fp) = (u : Fp)) : sqrtRatioM1 u v = (true, x) := by
  have hsq : IsSquare ((u : Fp) / (v : Fp)) := ⟨(x : Fp), by rw [div_eq_iff hv, ← h]; ring⟩
  obtain ⟨h1, h2⟩ := sqrtRatioM1_square hv hsq
  have h3 : (sqrtRatioM1 u v).2 = x := by
    apply eq_of_sq_eq_of_even (sqrtRatioM1_lt u v) hx (sqrtRatioM1_even u v) hxe
    apply mul_right_cancel₀ hv
    rw [h2, h]
  rw [← h1, ← h3]

/-- **Contract of `SQRT_RATIO_M1`** (RFC 9496 §4.2), all four cases, in the field. -/
theorem sqrtRatioM1_spec (u v : Nat) :
    (sqrtRatioM1 u v).2 < P ∧ (sqrtRatioM1 u v).2 % 2 = 0 ∧
    ((u : Fp) = 0 → sqrtRatioM1 u v = (true, 0)) ∧
    ((v : Fp) = 0 → (u : Fp) ≠ 0 → sqrtRatioM1 u v = (false, 0)) ∧
    ((v : Fp) ≠ 0 → IsSquare ((u : Fp) / (v : Fp)) →
      (sqrtRatioM1 u v).1 = true ∧ (((sqrtRatioM1 u v).2 : Nat) : Fp) ^ 2 * (v : Fp) = (u : Fp)) ∧
    ((v : Fp) ≠ 0 → ¬ IsSquare ((u : Fp) / (v : Fp)) →
      (sqrtRatioM1 u v).1 = false ∧
        (((sqrtRatioM1 u v).2 : Nat) : Fp) ^ 2 * (v : Fp) = sqrtM1 * (u : Fp)) :=
  ⟨sqrtRatioM1_lt u v, sqrtRatioM1_even u v, sqrtRatioM1_zero v, sqrtRatioM1_v_zero,
    sqrtRatioM1_square, sqrtRatioM1_nonsquare⟩

/-- The hypotheses of the four cases are satisfiable (and the function can be run in the kernel). -/
example : sqrtRatioM1 4 1 = (true, 2) := by decide +kernel
example : sqrtRatioM1 0 7 = (true, 0) := by decide +kernel
example : sqrtRatioM1 3 0 = (false, 0) := by decide +kernel
example : (sqrtRatioM1 2 1).1 = false := by decide +kernel

end Dalek.Bridge

/-
Bridge between the executable field specification over `Nat` (`Dalek/Spec/Field.lean`) and the
mathematical field `ZMod (2^255 - 19)`.

* `powMod_eq`                         `Spec.powMod m a e = a ^ e % m`
* `cast_fadd`, `cast_fsub`, …         every `Spec` field operation is the `ZMod` operation after casting
* `*_lt`                              every `Spec` field operation returns a canonical value `< P`
* `cast_inj_of_lt`                    canonical naturals are equal iff their casts are equal
* `isNeg`, `fabs`                     parity of the canonical representative
-/
import Dalek.Spec.Field
import Dalek.Proofs.FieldFacts
import Mathlib.Tactic.Ring
import Mathlib.Tactic.LinearCombination
import Mathlib.Data.ZMod.Basic

namespace Dalek.Bridge

open Dalek.Spec

/-- The field `GF(2^255 - 19)` as a Mathlib object. -/
abbrev Fp := ZMod Dalek.Spec.P

/-! ## `powMod` -/

theorem powModAux_mod (m : Nat) :
    ∀ (fuel b e acc : Nat), e < 2 ^ fuel → powModAux m fuel b e acc % m = acc * b ^ e % m := by
  intro fuel
  induction fuel with
  | zero =>
    intro b e acc h
    have : e = 0 := by simpa using h
    subst this
    simp [powModAux]
  | succ fuel ih =>
    intro b e acc h
    unfold powModAux
    by_cases he : e = 0
    · subst he; simp
    · rw [if_neg he, ih _ _ _ (by omega)]
      have hsq : (b * b % m) ^ (e / 2) % m = (b * b) ^ (e / 2) % m :=
        (Nat.pow_mod _ _ _).symm
      have hbb : (b * b) ^ (e / 2) = b ^ (2 * (e / 2)) := by
        rw [pow_mul, pow_two]
      by_cases hodd : e % 2 = 1
      · rw [if_pos hodd]
        have he2 : e = 2 * (e / 2) + 1 := by omega
        conv_rhs => rw [he2, pow_succ, ← hbb]
        rw [Nat.mul_mod, Nat.mod_mod, hsq, ← Nat.mul_mod]
        ring_nf
      · rw [if_neg hodd]
        have he2 : e = 2 * (e / 2) := by omega
        conv_rhs => rw [he2, ← hbb]
        rw [Nat.mul_mod, hsq, ← Nat.mul_mod]

/-- If the accumulator is reduced, so is the result. -/
theorem powModAux_canon (m : Nat) :
    ∀ (fuel b e acc : Nat), acc % m = acc → powModAux m fuel b e acc % m = powModAux m fuel b e acc := by
  intro fuel
  induction fuel with
  | zero => intro b e acc h; simpa [powModAux] using h
  | succ fuel ih =>
    intro b e acc h
    unfold powModAux
    by_cases he : e = 0
    · rw [if_pos he]; exact h
    · rw [if_neg he]
      apply ih
      by_cases hodd : e % 2 = 1
      · rw [if_pos hodd, Nat.mod_mod]
      · rw [if_neg hodd]; exact h

/-- **Correctness of `Spec.powMod`** (any modulus, including `0` and `1`). -/
theorem powMod_eq (m a e : Nat) : powMod m a e = a ^ e % m := by
  unfold powMod
  rw [← powModAux_canon m _ _ _ _ (Nat.mod_mod _ _), powModAux_mod m _ _ _ _ Nat.lt_log2_self,
    Nat.mul_mod, Nat.mod_mod, ← Nat.pow_mod, ← Nat.mul_mod, one_mul]

theorem powMod_cast (m a e : Nat) : ((powMod m a e : Nat) : ZMod m) = (a : ZMod m) ^ e := by
  rw [powMod_eq, ZMod.natCast_mod, Nat.cast_pow]

/-! ## Canonical representatives -/

theorem P_pos : 0 < P := by norm_num

theorem P_odd : P % 2 = 1 := by norm_num

theorem P_gt_two : 2 < P := by norm_num

theorem cast_P : ((P : Nat) : Fp) = 0 := ZMod.natCast_self P

theorem cast_mod_P (a : Nat) : ((a % P : Nat) : Fp) = (a : Fp) := ZMod.natCast_mod a P

/-- Casts of naturals agree iff the canonical representatives agree. -/
theorem cast_eq_iff (a b : Nat) : (a : Fp) = (b : Fp) ↔ a % P = b % P :=
  ZMod.natCast_eq_natCast_iff' a b P

/-- Canonical naturals are determined by their image in the field. -/
theorem cast_inj_of_lt {a b : Nat} (ha : a < P) (hb : b < P) : (a : Fp) = (b : Fp) ↔ a = b := by
  rw [cast_eq_iff, Nat.mod_eq_of_lt ha, Nat.mod_eq_of_lt hb]

theorem cast_eq_zero_iff (a : Nat) : (a : Fp) = 0 ↔ a % P = 0 := by
  have := cast_eq_iff a 0
  simpa using this

theorem cast_eq_zero_of_lt {a : Nat} (ha : a < P) : (a : Fp) = 0 ↔ a = 0 := by
  rw [cast_eq_zero_iff, Nat.mod_eq_of_lt ha]

/-- `ZMod.val` of a cast is the canonical representative. -/
theorem val_cast (a : Nat) : ((a : Fp)).val = a % P := ZMod.val_natCast P a

/-! ## Field operations -/

theorem fadd_lt (a b : Nat) : fadd a b < P := Nat.mod_lt _ P_pos
theorem fneg_lt (a : Nat) : fneg a < P := Nat.mod_lt _ P_pos
theorem fsub_lt (a b : Nat) : fsub a b < P := Nat.mod_lt _ P_pos
theorem fmul_lt (a b : Nat) : fmul a b < P := Nat.mod_lt _ P_pos
theorem fsq_lt (a : Nat) : fsq a < P := Nat.mod_lt _ P_pos
theorem fpow_lt (a e : Nat) : fpow a e < P := by
  unfold fpow; rw [powMod_eq]; exact Nat.mod_lt _ P_pos
theorem finv_lt (a : Nat) : finv a < P := fpow_lt _ _

theorem cast_fadd (a b : Nat) : ((fadd a b : Nat) : Fp) = (a : Fp) + (b : Fp) := by
  unfold fadd; rw [cast_mod_P, Nat.cast_add]

theorem cast_fmul (a b : Nat) : ((fmul a b : Nat) : Fp) = (a : Fp) * (b : Fp) := by
  unfold fmul; rw [cast_mod_P, Nat.cast_mul]

theorem cast_fsq (a : Nat) : ((fsq a : Nat) : Fp) = (a : Fp) ^ 2 := by
  unfold fsq; rw [cast_mod_P, Nat.cast_mul, pow_two]

theorem cast_P_sub_mod (a : Nat) : ((P - a % P : Nat) : Fp) = -(a : Fp) := by
  rw [Nat.cast_sub (Nat.le_of_lt (Nat.mod_lt _ P_pos)), cast_P, cast_mod_P, zero_sub]

theorem cast_fneg (a : Nat) : ((fneg a : Nat) : Fp) = -(a : Fp) := by
  unfold fneg; rw [cast_mod_P, cast_P_sub_mod]

theorem cast_fsub (a b : Nat) : ((fsub a b : Nat) : Fp) = (a : Fp) - (b : Fp) := by
  unfold fsub; rw [cast_mod_P, Nat.cast_add, cast_P_sub_mod, sub_eq_add_neg]

theorem cast_fpow (a e : Nat) : ((fpow a e : Nat) : Fp) = (a : Fp) ^ e := by
  unfold fpow; exact powMod_cast P a e

/-- `Spec.fpow` as a natural number. -/
theorem fpow_eq (a e : Nat) : fpow a e = a ^ e % P := powMod_eq P a e

/-- **Fermat inversion**: `Spec.finv` is the field inverse (with `0 ↦ 0`). -/
theorem cast_finv (a : Nat) : ((finv a : Nat) : Fp) = (a : Fp)⁻¹ := by
  unfold finv; rw [cast_fpow]; exact Dalek.FieldFacts.pow_p_sub_two' (a : Fp)

theorem finv_zero : finv 0 = 0 := by
  have h : ((finv 0 : Nat) : Fp) = 0 := by rw [cast_finv]; simp
  exact (cast_eq_zero_of_lt (finv_lt 0)).1 h

/-- `a * finv a = 1` for `a ≢ 0`. -/
theorem fmul_finv {a : Nat} (ha : a % P ≠ 0) : fmul a (finv a) = 1 := by
  have h0 : (a : Fp) ≠ 0 := fun h => ha ((cast_eq_zero_iff a).1 h)
  have h : ((fmul a (finv a) : Nat) : Fp) = ((1 : Nat) : Fp) := by
    rw [cast_fmul, cast_finv, mul_inv_cancel₀ h0, Nat.cast_one]
  exact (cast_inj_of_lt (fmul_lt _ _) (by norm_num)).1 h

/-! ### The operations only depend on the residue class and return the canonical representative -/

/-- A canonical natural number is characterised by its cast: the work-horse for transporting field
identities back to `Nat`. -/
theorem eq_of_cast_eq {a b : Nat} (ha : a < P) (hb : b < P) (h : (a : Fp) = (b : Fp)) : a = b :=
  (cast_inj_of_lt ha hb).1 h

theorem fadd_eq_val (a b : Nat) : fadd a b = ((a : Fp) + (b : Fp)).val := by
  rw [← Nat.cast_add, val_cast]; rfl

theorem fmul_eq_val (a b : Nat) : fmul a b = ((a : Fp) * (b : Fp)).val := by
  rw [← Nat.cast_mul, val_cast]; rfl

theorem fsub_eq_val (a b : Nat) : fsub a b = ((a : Fp) - (b : Fp)).val := by
  rw [← cast_fsub, val_cast, Nat.mod_eq_of_lt (fsub_lt a b)]

theorem fneg_eq_val (a : Nat) : fneg a = (-(a : Fp)).val := by
  rw [← cast_fneg, val_cast, Nat.mod_eq_of_lt (fneg_lt a)]

theorem finv_eq_val (a : Nat) : finv a = ((a : Fp)⁻¹).val := by
  rw [← cast_finv, val_cast, Nat.mod_eq_of_lt (finv_lt a)]

/-! ## Sign (`isNeg`) and absolute value -/

theorem isNeg_iff (a : Nat) : isNeg a = true ↔ (a % P) % 2 = 1 := by
  unfold isNeg; exact beq_iff_eq

theorem isNeg_eq_false_iff (a : Nat) : isNeg a = false ↔ (a % P) % 2 = 0 := by
  rw [← Bool.not_eq_true, isNeg_iff]; omega

/-- `isNeg` in terms of the field element: parity of `ZMod.val`. -/
theorem isNeg_iff_val (a : Nat) : isNeg a = true ↔ ((a : Fp)).val % 2 = 1 := by
  rw [isNeg_iff, val_cast]

theorem isNeg_zero : isNeg 0 = false := by decide

/-- For `a ≢ 0` exactly one of `a`, `-a` is negative (`p` is odd). -/
theorem isNeg_fneg {a : Nat} (ha : a % P ≠ 0) : isNeg (fneg a) = !isNeg a := by
  have hP := P_odd
  have hlt := Nat.mod_lt a P_pos
  have h1 : fneg a = P - a % P := by
    unfold fneg; exact Nat.mod_eq_of_lt (by omega)
  have h2 : fneg a % P = P - a % P := by rw [h1]; exact Nat.mod_eq_of_lt (by omega)
  cases h : isNeg a
  · rw [isNeg_eq_false_iff] at h
    rw [Bool.not_false, isNeg_iff, h2]; omega
  · rw [isNeg_iff] at h
    rw [Bool.not_true, isNeg_eq_false_iff, h2]; omega

theorem fabs_lt (a : Nat) : fabs a < P := by
  unfold fabs; split
  · exact fneg_lt a
  · exact Nat.mod_lt _ P_pos

/-- `fabs a` is non-negative (even canonical representative). -/
theorem fabs_even (a : Nat) : fabs a % 2 = 0 := by
  have hP := P_odd
  have hlt := Nat.mod_lt a P_pos
  unfold fabs
  cases h : isNeg a
  · rw [isNeg_eq_false_iff] at h; simpa using h
  · rw [isNeg_iff] at h
    have h1 : fneg a = P - a % P := by
      unfold fneg; exact Nat.mod_eq_of_lt (by omega)
    simp only [if_true, h1]; omega

theorem isNeg_fabs (a : Nat) : isNeg (fabs a) = false := by
  rw [isNeg_eq_false_iff, Nat.mod_eq_of_lt (fabs_lt a)]; exact fabs_even a

/-- `fabs a` is `a` or `-a` in the field. -/
theorem cast_fabs (a : Nat) : ((fabs a : Nat) : Fp) = (a : Fp) ∨ ((fabs a : Nat) : Fp) = -(a : Fp) := by
  unfold fabs; split
  · right; exact cast_fneg a
  · left; exact cast_mod_P a

theorem cast_fabs_sq (a : Nat) : ((fabs a : Nat) : Fp) ^ 2 = (a : Fp) ^ 2 := by
  rcases cast_fabs a with h | h <;> rw [h]; ring

theorem fabs_eq_zero {a : Nat} (h : (a : Fp) = 0) : fabs a = 0 := by
  apply (cast_eq_zero_of_lt (fabs_lt a)).1
  rcases cast_fabs a with h' | h' <;> rw [h', h]; simp

/-- Two canonical non-negative naturals with the same square in the field are equal. -/
theorem eq_of_sq_eq_of_even {a b : Nat} (ha : a < P) (hb : b < P) (hae : a % 2 = 0) (hbe : b % 2 = 0)
    (h : (a : Fp) ^ 2 = (b : Fp) ^ 2) : a = b := by
  have h' : ((a : Fp) - b) * ((a : Fp) + b) = 0 := by linear_combination h
  rcases mul_eq_zero.1 h' with h1 | h1
  · exact eq_of_cast_eq ha hb (sub_eq_zero.1 h1)
  · -- a = -b, so a + b ≡ 0 (mod p), so a + b ∈ {0, p}; p is odd, a + b even
    have h2 : ((a + b : Nat) : Fp) = 0 := by rw [Nat.cast_add]; exact h1
    rw [cast_eq_zero_iff] at h2
    have hP := P_odd
    have hdvd : P ∣ a + b := Nat.dvd_of_mod_eq_zero h2
    obtain ⟨k, hk⟩ := hdvd
    have hk2 : k < 2 := by
      by_contra hk2
      have : 2 ≤ k := by omega
      have : P * 2 ≤ P * k := Nat.mul_le_mul_left _ this
      omega
    have : k = 0 ∨ k = 1 := by omega
    rcases this with rfl | rfl
    · omega
    · omega

end Dalek.Bridge

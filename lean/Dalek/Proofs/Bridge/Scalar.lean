/-
Bridge between the executable scalar specification (`Dalek/Spec/Scalar.lean`, integers mod the
group order `ℓ` as `Nat`) and the field `Fl = ZMod ℓ`.
-/
import Dalek.Spec.Scalar
import Dalek.Proofs.Bridge.Field
import Dalek.Proofs.Bridge.Bytes

namespace Dalek.Bridge

open Dalek.Spec

/-- The scalar field `ℤ/ℓ` as a Mathlib object. -/
abbrev Fl := ZMod Dalek.Spec.L

theorem L_pos : 0 < L := by norm_num
theorem L_lt_253 : L < 2 ^ 253 := by norm_num
theorem L_lt_P : L < P := by norm_num

theorem cast_L : ((L : Nat) : Fl) = 0 := ZMod.natCast_self L

theorem cast_mod_L (a : Nat) : ((a % L : Nat) : Fl) = (a : Fl) := ZMod.natCast_mod a L

theorem castL_eq_iff (a b : Nat) : (a : Fl) = (b : Fl) ↔ a % L = b % L :=
  ZMod.natCast_eq_natCast_iff' a b L

theorem castL_inj_of_lt {a b : Nat} (ha : a < L) (hb : b < L) : (a : Fl) = (b : Fl) ↔ a = b := by
  rw [castL_eq_iff, Nat.mod_eq_of_lt ha, Nat.mod_eq_of_lt hb]

theorem castL_eq_zero_iff (a : Nat) : (a : Fl) = 0 ↔ a % L = 0 := by
  have := castL_eq_iff a 0
  simpa using this

theorem sadd_lt (a b : Nat) : sadd a b < L := Nat.mod_lt _ L_pos
theorem sneg_lt (a : Nat) : sneg a < L := Nat.mod_lt _ L_pos
theorem ssub_lt (a b : Nat) : ssub a b < L := Nat.mod_lt _ L_pos
theorem smul_lt (a b : Nat) : Dalek.Spec.smul a b < L := Nat.mod_lt _ L_pos
theorem spow_lt (a e : Nat) : spow a e < L := by
  unfold spow; rw [powMod_eq]; exact Nat.mod_lt _ L_pos
theorem sinv_lt (a : Nat) : sinv a < L := spow_lt _ _

theorem cast_sadd (a b : Nat) : ((sadd a b : Nat) : Fl) = (a : Fl) + (b : Fl) := by
  unfold sadd; rw [cast_mod_L, Nat.cast_add]

theorem cast_smul (a b : Nat) : ((Dalek.Spec.smul a b : Nat) : Fl) = (a : Fl) * (b : Fl) := by
  unfold Dalek.Spec.smul; rw [cast_mod_L, Nat.cast_mul]

theorem cast_L_sub_mod (a : Nat) : ((L - a % L : Nat) : Fl) = -(a : Fl) := by
  rw [Nat.cast_sub (Nat.le_of_lt (Nat.mod_lt _ L_pos)), cast_L, cast_mod_L, zero_sub]

theorem cast_sneg (a : Nat) : ((sneg a : Nat) : Fl) = -(a : Fl) := by
  unfold sneg; rw [cast_mod_L, cast_L_sub_mod]

theorem cast_ssub (a b : Nat) : ((ssub a b : Nat) : Fl) = (a : Fl) - (b : Fl) := by
  unfold ssub; rw [cast_mod_L, Nat.cast_add, cast_L_sub_mod, sub_eq_add_neg]

theorem cast_spow (a e : Nat) : ((spow a e : Nat) : Fl) = (a : Fl) ^ e := by
  unfold spow; exact powMod_cast L a e

theorem spow_eq (a e : Nat) : spow a e = a ^ e % L := powMod_eq L a e

/-- Fermat inversion in `ℤ/ℓ` (total: `0⁻¹ = 0`). -/
theorem pow_l_sub_two (a : Fl) : a ^ (L - 2) = a⁻¹ := by
  by_cases ha : a = 0
  · subst ha; rw [zero_pow (by norm_num), inv_zero]
  · apply eq_inv_of_mul_eq_one_left
    rw [← pow_succ]
    exact ZMod.pow_card_sub_one_eq_one ha

/-- **`sinv` is the inverse in `ℤ/ℓ`** (with `0 ↦ 0`). -/
theorem cast_sinv (a : Nat) : ((sinv a : Nat) : Fl) = (a : Fl)⁻¹ := by
  unfold sinv; rw [cast_spow]; exact pow_l_sub_two _

/-- **`a · sinv a = 1`** for `a ≢ 0 (mod ℓ)`. -/
theorem smul_sinv {a : Nat} (ha : a % L ≠ 0) : Dalek.Spec.smul a (sinv a) = 1 := by
  have h0 : (a : Fl) ≠ 0 := fun h => ha ((castL_eq_zero_iff a).1 h)
  have h : ((Dalek.Spec.smul a (sinv a) : Nat) : Fl) = ((1 : Nat) : Fl) := by
    rw [cast_smul, cast_sinv, mul_inv_cancel₀ h0, Nat.cast_one]
  exact (castL_inj_of_lt (smul_lt _ _) (by norm_num)).1 h

theorem sinv_zero : sinv 0 = 0 := by
  have h : ((sinv 0 : Nat) : Fl) = ((0 : Nat) : Fl) := by rw [cast_sinv]; simp
  exact (castL_inj_of_lt (sinv_lt 0) L_pos).1 h

/-! ## Sums and products -/

theorem cast_foldl_sadd (xs : List Nat) (a : Nat) :
    ((xs.foldl sadd a : Nat) : Fl) = (a : Fl) + (xs.map (Nat.cast : Nat → Fl)).sum := by
  induction xs generalizing a with
  | nil => simp
  | cons x xs ih => rw [List.foldl_cons, ih, cast_sadd, List.map_cons, List.sum_cons, add_assoc]

theorem cast_ssum (xs : List Nat) : ((ssum xs : Nat) : Fl) = (xs.map (Nat.cast : Nat → Fl)).sum := by
  unfold ssum; rw [cast_foldl_sadd, Nat.cast_zero, zero_add]

theorem cast_foldl_smul (xs : List Nat) (a : Nat) :
    ((xs.foldl Dalek.Spec.smul a : Nat) : Fl) = (a : Fl) * (xs.map (Nat.cast : Nat → Fl)).prod := by
  induction xs generalizing a with
  | nil => simp
  | cons x xs ih => rw [List.foldl_cons, ih, cast_smul, List.map_cons, List.prod_cons, mul_assoc]

theorem cast_sprod (xs : List Nat) : ((sprod xs : Nat) : Fl) = (xs.map (Nat.cast : Nat → Fl)).prod := by
  unfold sprod; rw [cast_foldl_smul, Nat.cast_one, one_mul]

/-! ## Byte codecs -/

@[simp] theorem scToBytes_length (a : Nat) : (scToBytes a).length = 32 := natToLe_length _ _

theorem leToNat_scToBytes (a : Nat) : leToNat (scToBytes a) = a % L := by
  unfold scToBytes
  rw [leToNat_natToLe]
  have := Nat.mod_lt a L_pos
  have := L_lt_253
  have : (2 : Nat) ^ 253 < 256 ^ 32 := by norm_num
  exact Nat.mod_eq_of_lt (by omega)

/-- Round trip `scFromBytesModOrder ∘ scToBytes`. -/
theorem scFromBytesModOrder_scToBytes (a : Nat) : scFromBytesModOrder (scToBytes a) = a % L := by
  unfold scFromBytesModOrder; rw [leToNat_scToBytes, Nat.mod_mod]

theorem scFromBytesModOrder_lt (b : List UInt8) : scFromBytesModOrder b < L := Nat.mod_lt _ L_pos

theorem cast_scFromBytesModOrder (b : List UInt8) :
    ((scFromBytesModOrder b : Nat) : Fl) = ((leToNat b : Nat) : Fl) := cast_mod_L _

/-- `scToBytes` always produces a canonical scalar encoding. -/
theorem isCanonicalScalar_scToBytes (a : Nat) : isCanonicalScalar (scToBytes a) = true := by
  unfold isCanonicalScalar
  rw [scToBytes_length, leToNat_scToBytes]
  simp [Nat.mod_lt a L_pos]

theorem isCanonicalScalar_iff (b : List UInt8) :
    isCanonicalScalar b = true ↔ b.length = 32 ∧ leToNat b < L := by
  unfold isCanonicalScalar; simp

/-- On canonical encodings `scToBytes ∘ scFromBytesModOrder` is the identity. -/
theorem scToBytes_scFromBytesModOrder {b : List UInt8} (h : isCanonicalScalar b = true) :
    scToBytes (scFromBytesModOrder b) = b := by
  obtain ⟨hlen, hlt⟩ := (isCanonicalScalar_iff b).1 h
  unfold scToBytes scFromBytesModOrder
  rw [Nat.mod_mod, Nat.mod_eq_of_lt hlt, ← hlen]
  exact natToLe_leToNat b

/-! ## Clamping -/

theorem modifyNth_getD_ne {α} (f : α → α) (n m : Nat) (l : List α) (d : α) (h : n ≠ m) :
    (modifyNth f n l).getD m d = l.getD m d := by
  induction l generalizing n m with
  | nil => cases n <;> rfl
  | cons b bs ih =>
    cases n with
    | zero =>
      cases m with
      | zero => exact absurd rfl h
      | succ m => simp [modifyNth]
    | succ n =>
      cases m with
      | zero => simp [modifyNth]
      | succ m =>
        simp only [modifyNth, List.getD_cons_succ]
        exact ih n m (fun h' => h (by rw [h']))

theorem byte_and_f8 : ∀ n, n < 256 → (n &&& 248) % 8 = 0 := by decide +kernel
theorem byte_clamp_hi : ∀ n, n < 256 → 64 ≤ ((n &&& 127) ||| 64) ∧ ((n &&& 127) ||| 64) < 128 := by
  decide +kernel

@[simp] theorem clampInteger_length (b : List UInt8) : (clampInteger b).length = b.length := by
  unfold clampInteger; simp

/-- **Clamping** (`clamp_integer`, RFC 7748 `decodeScalar25519`): for a 32-byte input the clamped
integer is a multiple of the cofactor `8` in `[2^254, 2^255)`. -/
theorem clampedNat_spec {b : List UInt8} (hlen : b.length = 32) :
    clampedNat b % 8 = 0 ∧ 2 ^ 254 ≤ clampedNat b ∧ clampedNat b < 2 ^ 255 := by
  unfold clampedNat
  have hl : (clampInteger b).length = 32 := by rw [clampInteger_length, hlen]
  have h0 := getD_toNat (clampInteger b) 0 (by omega)
  have h31 := getD_toNat (clampInteger b) 31 (by omega)
  have hlt := leToNat_lt (clampInteger b)
  rw [hl] at hlt
  -- byte 0
  have b0 : (clampInteger b).getD 0 0 = (b.getD 0 0) &&& 0xf8 := by
    unfold clampInteger
    rw [modifyNth_getD_ne _ 31 0 _ _ (by decide), modifyNth_getD _ 0 _ _ (by omega)]
  -- byte 31
  have b31 : (clampInteger b).getD 31 0 = ((b.getD 31 0) &&& 0x7f) ||| 0x40 := by
    unfold clampInteger
    rw [modifyNth_getD _ 31 _ _ (by simp; omega), modifyNth_getD_ne _ 0 31 _ _ (by decide)]
  have c0 : ((clampInteger b).getD 0 0).toNat % 8 = 0 := by
    rw [b0, UInt8.toNat_and]; exact byte_and_f8 _ (UInt8.toNat_lt _)
  have c31 := byte_clamp_hi _ (UInt8.toNat_lt (b.getD 31 0))
  have c31' : 64 ≤ ((clampInteger b).getD 31 0).toNat ∧ ((clampInteger b).getD 31 0).toNat < 128 := by
    rw [b31, UInt8.toNat_or, UInt8.toNat_and]; exact c31
  rw [h0] at c0
  rw [h31] at c31'
  have e32 : (256 : Nat) ^ 32 = 256 ^ 31 * 256 := by norm_num
  have hq : leToNat (clampInteger b) / 256 ^ 31 < 256 := by
    rw [Nat.div_lt_iff_lt_mul (by norm_num), Nat.mul_comm, ← e32]; exact hlt
  rw [Nat.mod_eq_of_lt hq] at c31'
  have e254 : (2 : Nat) ^ 254 = 64 * 256 ^ 31 := by norm_num
  have e255 : (2 : Nat) ^ 255 = 128 * 256 ^ 31 := by norm_num
  refine ⟨by simp only [Nat.pow_zero, Nat.div_one] at c0; omega, ?_, ?_⟩
  · rw [e254]; exact (Nat.le_div_iff_mul_le (by norm_num)).1 c31'.1
  · rw [e255]; exact (Nat.div_lt_iff_lt_mul (by norm_num)).1 c31'.2

end Dalek.Bridge

/-
The hand model of `double_and_compress_batch` (`Dalek.Model.RistrettoDalek.doubleAndCompressBatch`):
`batch_invert` (Montgomery's trick with zero skipping) is element-wise inversion, and the whole function returns
the encodings of the doubled points.
-/
import Dalek.Proofs.RisBatch
import Dalek.Proofs.RisUniform

namespace Dalek.Proofs.Ris

open Dalek.IR Dalek.Spec Dalek.Gen Dalek.Proofs Dalek.Model
open Dalek.Edwards
open Dalek.Bridge (Ed ERep Rep Canon)
open Dalek.FieldFacts (d sqrtM1)

/-! ## `FieldElement::batch_invert` -/

theorem batchFwd_snoc (xs : List Nat) (x acc : Nat) :
    RistrettoDalek.batchFwd (xs ++ [x]) acc =
      ((RistrettoDalek.batchFwd xs acc).1 ++ [(RistrettoDalek.batchFwd xs acc).2],
        if x % P == 0 then (RistrettoDalek.batchFwd xs acc).2
        else fmul (RistrettoDalek.batchFwd xs acc).2 x) := by
  induction xs generalizing acc with
  | nil => simp [RistrettoDalek.batchFwd]
  | cons y ys ih => simp [RistrettoDalek.batchFwd, ih]

theorem batchFwd_length (xs : List Nat) (acc : Nat) : (RistrettoDalek.batchFwd xs acc).1.length = xs.length := by
  induction xs generalizing acc with
  | nil => rfl
  | cons y ys ih => simp [RistrettoDalek.batchFwd, ih]

/-- the accumulator stays nonzero (zeros are skipped) -/
theorem batchFwd_ne_zero (xs : List Nat) (acc : Nat) (h : ((acc : Nat) : Fp) ≠ 0) :
    (((RistrettoDalek.batchFwd xs acc).2 : Nat) : Fp) ≠ 0 := by
  induction xs generalizing acc with
  | nil => exact h
  | cons y ys ih =>
    simp only [RistrettoDalek.batchFwd]
    apply ih
    by_cases hy : y % P = 0
    · rw [if_pos (by rw [beq_iff_eq]; exact hy)]; exact h
    · rw [if_neg (by rw [beq_iff_eq]; exact hy), Bridge.cast_fmul]
      exact mul_ne_zero h (fun h0 => hy ((Bridge.cast_eq_zero_iff y).1 h0))

/-- the second pass, given the inverse of the final accumulator -/
theorem batchBwd_spec (xs : List Nat) (hxs : ∀ x ∈ xs, x < P) (acc0 : Nat) (h0 : ((acc0 : Nat) : Fp) ≠ 0)
    (acc' : Nat) (hacc : acc' < P)
    (h : ((acc' : Nat) : Fp) = (((RistrettoDalek.batchFwd xs acc0).2 : Nat) : Fp)⁻¹) :
    RistrettoDalek.batchBwd xs.reverse (RistrettoDalek.batchFwd xs acc0).1.reverse acc' =
      (xs.map finv).reverse := by
  induction xs using List.reverseRecOn generalizing acc' with
  | nil => simp [RistrettoDalek.batchFwd, RistrettoDalek.batchBwd]
  | append_singleton xs x ih =>
    have hx : x < P := hxs x (by simp)
    have hxs' : ∀ y ∈ xs, y < P := fun y hy => hxs y (by simp [hy])
    rw [batchFwd_snoc] at h ⊢
    simp only [List.reverse_append, List.reverse_cons, List.reverse_nil, List.nil_append,
      List.singleton_append, List.map_append, List.map_cons, List.map_nil, RistrettoDalek.batchBwd]
    have hfin := batchFwd_ne_zero xs acc0 h0
    generalize RistrettoDalek.batchFwd xs acc0 = r at h hfin ih ⊢
    by_cases hx0 : x % P = 0
    · have hb : (x % P == 0) = true := by rw [beq_iff_eq]; exact hx0
      have hxz : x = 0 := by rwa [Nat.mod_eq_of_lt hx] at hx0
      simp only [hb, Bool.not_true, Bool.false_eq_true, if_false] at h ⊢
      simp only [if_true] at h
      rw [ih hxs' acc' hacc h, hxz, Bridge.finv_zero]
    · have hb : (x % P == 0) = false := by rw [beq_eq_false_iff_ne]; exact hx0
      have hxF : ((x : Nat) : Fp) ≠ 0 := fun h0 => hx0 ((Bridge.cast_eq_zero_iff x).1 h0)
      simp only [hb, Bool.not_false, if_true, Bool.false_eq_true, if_false] at h ⊢
      rw [Bridge.cast_fmul] at h
      have hnext : ((fmul acc' x : Nat) : Fp) = ((r.2 : Nat) : Fp)⁻¹ := by
        rw [Bridge.cast_fmul, h]; field_simp
      have hout : fmul acc' r.2 = finv x := by
        apply Bridge.eq_of_cast_eq (Bridge.fmul_lt _ _) (Bridge.finv_lt _)
        rw [Bridge.cast_fmul, Bridge.cast_finv, h]; field_simp
      rw [ih hxs' (fmul acc' x) (Bridge.fmul_lt _ _) hnext, hout]

/-- **`batch_invert` inverts every element** (`0 ↦ 0`), on canonical inputs. -/
theorem batchInvert_eq (xs : List Nat) (hxs : ∀ x ∈ xs, x < P) :
    RistrettoDalek.batchInvert xs = xs.map finv := by
  unfold RistrettoDalek.batchInvert
  dsimp only
  rw [batchBwd_spec xs hxs 1 (by rw [Nat.cast_one]; exact one_ne_zero) _ (Bridge.finv_lt _)
    (Bridge.cast_finv _), List.reverse_reverse]

/-! ## The whole function -/

/-- all four coordinates are canonical field elements -/
def CanonR (p : RistrettoDalek.RPt) : Prop := p.1 < P ∧ p.2.1 < P ∧ p.2.2.1 < P ∧ p.2.2.2 < P

theorem mem4 {a b c e : Nat} (ha : a < P) (hb : b < P) (hc : c < P) (he : e < P) :
    ∀ n ∈ [a, b, c, e], n < P := by
  intro n hn
  simp only [List.mem_cons, List.not_mem_nil, or_false] at hn
  rcases hn with h | h | h | h <;> rw [h] <;> assumption

/-- `BatchCompressState::from(P)` run by the model -/
theorem batchState_eq {p : RistrettoDalek.RPt} (hp : CanonR p) :
    RistrettoDalek.batchState p =
      (AlgRistretto.batch_state_from_sh zmodOps (p.1 : Fp) (p.2.1 : Fp) (p.2.2.1 : Fp) (p.2.2.2 : Fp)).map
        ZMod.val := by
  unfold RistrettoDalek.batchState
  rw [run_nat_eq _ _ (mem4 hp.1 hp.2.1 hp.2.2.1 hp.2.2.2)]
  simp only [List.map_cons, List.map_nil]
  rw [AlgRistretto.batch_state_from_sh_ok]

/-- the `s` the model's closure computes for the point `p` (with the inverse supplied by `batch_invert`) -/
noncomputable def batchSFp (X Y Z T : Fp) : Fp :=
  batS (X * (Y + Y)) (Z ^ 2 + T ^ 2 * d) (Y ^ 2 + X ^ 2) (Z ^ 2 - T ^ 2 * d)
    (X * (Y + Y) * (Y ^ 2 + X ^ 2)) ((Z ^ 2 + T ^ 2 * d) * (Z ^ 2 - T ^ 2 * d))
    ((X * (Y + Y) * (Y ^ 2 + X ^ 2) * ((Z ^ 2 + T ^ 2 * d) * (Z ^ 2 - T ^ 2 * d)))⁻¹)

theorem mem7 {a b c e f g h : Nat} (ha : a < P) (hb : b < P) (hc : c < P) (he : e < P) (hf : f < P)
    (hg : g < P) (hh : h < P) : ∀ n ∈ [a, b, c, e, f, g, h], n < P := by
  intro n hn
  simp only [List.mem_cons, List.not_mem_nil, or_false] at hn
  rcases hn with h | h | h | h | h | h | h <;> rw [h] <;> assumption

/-- the closure run by the model on the values of a state and a canonical `inv` -/
theorem closure_run (e f g h eg fh : Fp) (inv : Nat) (hinv : inv < P) :
    AlgRistretto.batch_compress_closure.run natOps [e.val, f.val, g.val, h.val, eg.val, fh.val, inv] =
      [(batS e f g h eg fh (inv : Fp)).val] := by
  rw [run_nat_eq _ _ (mem7 (ZMod.val_lt e) (ZMod.val_lt f) (ZMod.val_lt g) (ZMod.val_lt h) (ZMod.val_lt eg)
    (ZMod.val_lt fh) hinv)]
  simp only [List.map_cons, List.map_nil, ZMod.natCast_zmod_val]
  rw [AlgRistretto.batch_compress_closure_sh_ok, batch_compress_closure_sh_eq]
  simp only [List.map_cons, List.map_nil]

theorem batchClosure_eq {p : RistrettoDalek.RPt} (hp : CanonR p) :
    RistrettoDalek.batchClosure (RistrettoDalek.batchState p)
        (finv (fmul ((RistrettoDalek.batchState p).getD 4 0) ((RistrettoDalek.batchState p).getD 5 0))) =
      feToBytes (batchSFp (p.1 : Fp) (p.2.1 : Fp) (p.2.2.1 : Fp) (p.2.2.2 : Fp)).val := by
  rw [batchState_eq hp, batch_state_from_sh_eq]
  unfold RistrettoDalek.batchClosure batchSFp
  simp only [List.map_cons, List.map_nil, List.getD_cons_zero, List.getD_cons_succ, List.cons_append,
    List.nil_append]
  rw [closure_run _ _ _ _ _ _ _ (Bridge.finv_lt _)]
  simp only [List.getD_cons_zero, Bridge.cast_finv, Bridge.cast_fmul, ZMod.natCast_zmod_val]

theorem zip_closure (ps : List RistrettoDalek.RPt) :
    List.zipWith RistrettoDalek.batchClosure (ps.map RistrettoDalek.batchState)
        (((ps.map RistrettoDalek.batchState).map
          (fun st : List Nat => fmul (st.getD 4 0) (st.getD 5 0))).map finv) =
      ps.map (fun p => RistrettoDalek.batchClosure (RistrettoDalek.batchState p)
        (finv (fmul ((RistrettoDalek.batchState p).getD 4 0) ((RistrettoDalek.batchState p).getD 5 0)))) := by
  induction ps with
  | nil => rfl
  | cons p ps ih =>
    rw [List.map_cons, List.map_cons, List.map_cons, List.map_cons, List.zipWith_cons_cons, ih]

/-- the model of `double_and_compress_batch`, point by point -/
theorem doubleAndCompressBatch_eq (ps : List RistrettoDalek.RPt) (hps : ∀ p ∈ ps, CanonR p) :
    RistrettoDalek.doubleAndCompressBatch ps =
      ps.map (fun p => feToBytes (batchSFp (p.1 : Fp) (p.2.1 : Fp) (p.2.2.1 : Fp) (p.2.2.2 : Fp)).val) := by
  have hlt : ∀ x ∈ List.map (fun st : List Nat => fmul (st.getD 4 0) (st.getD 5 0))
      (List.map RistrettoDalek.batchState ps), x < P := by
    intro x hx
    obtain ⟨st, -, hst⟩ := List.mem_map.1 hx
    rw [← hst]; exact Bridge.fmul_lt _ _
  have h1 : RistrettoDalek.doubleAndCompressBatch ps =
      List.zipWith RistrettoDalek.batchClosure (ps.map RistrettoDalek.batchState)
        (RistrettoDalek.batchInvert ((ps.map RistrettoDalek.batchState).map
          (fun st : List Nat => fmul (st.getD 4 0) (st.getD 5 0)))) := rfl
  rw [h1, batchInvert_eq _ hlt, zip_closure]
  exact List.map_congr_left (fun p hp => batchClosure_eq (hps p hp))

/-- for a valid point, the closure's `s` is the `s` of `Spec.Ristretto.encode` of the doubled affine point -/
theorem batchSFp_eq {p : RistrettoDalek.RPt} {R : Ed} (hR : ERep (toEPt p) R) :
    feToBytes (batchSFp (p.1 : Fp) (p.2.1 : Fp) (p.2.2.1 : Fp) (p.2.2.2 : Fp)).val =
      Ristretto.encode (Pt.double (toEPt p).toAffine) := by
  have hq : Rep (Pt.double (toEPt p).toAffine) (2 • R) := Bridge.rep_double (Bridge.rep_toAffine hR)
  generalize Pt.double (toEPt p).toAffine = q at hq
  have hrep : RepExt (2 • R) (q.x : Fp) (q.y : Fp) 1 ((q.x : Fp) * (q.y : Fp)) := by
    have := repExt_affine (2 • R)
    rwa [← hq.1, ← hq.2] at this
  have key := batS_eq_encS_double (show RepExt R _ _ _ _ from hR) hrep
  unfold Ristretto.encode
  rw [encodeExt_unfold]
  congr 1
  apply val_eq_of_cast (sEncS_lt ..)
  rw [cast_sEncS, Bridge.cast_fmul, Nat.cast_one]
  exact key.symm

/-! ## Coset invariance of `Spec.Ristretto.encodeExt` on naturals -/

/-- ENCODE on (arbitrary natural) extended coordinates denoting `Q` (with `(1−y²)x²y²` a square) and `Q + T4`,
`T4 ∈ E[4]` -/
theorem encodeExt_coset_sq {x y z t x' y' z' t' : Nat} {Q T4 : Ed}
    (h : RepExt Q (x : Fp) (y : Fp) (z : Fp) (t : Fp))
    (h' : RepExt (Q + T4) (x' : Fp) (y' : Fp) (z' : Fp) (t' : Fp))
    (hT : 4 • T4 = 0) (hsq : IsSquare (encW Q.x Q.y)) :
    Ristretto.encodeExt x' y' z' t' = Ristretto.encodeExt x y z t := by
  rw [encodeExt_unfold, encodeExt_unfold]
  have : sEncS x' y' z' t' = sEncS x y z t := by
    apply Bridge.eq_of_cast_eq (sEncS_lt ..) (sEncS_lt ..)
    rw [cast_sEncS, cast_sEncS]
    exact encS_coset ((isE4_iff T4).2 hT) rfl hsq h h'
  rw [this]

/-- the same for `Q` in the even subgroup -/
theorem encodeExt_coset {x y z t x' y' z' t' : Nat} {Q T4 : Ed}
    (h : RepExt Q (x : Fp) (y : Fp) (z : Fp) (t : Fp))
    (h' : RepExt (Q + T4) (x' : Fp) (y' : Fp) (z' : Fp) (t' : Fp))
    (hT : 4 • T4 = 0) (heven : ∃ R : Ed, Q = 2 • R) :
    Ristretto.encodeExt x' y' z' t' = Ristretto.encodeExt x y z t := by
  obtain ⟨R, rfl⟩ := heven
  exact encodeExt_coset_sq h h' hT (isSquare_encW_even R)

theorem repExt_of_rep {p : Pt} {Q : Ed} (h : Rep p Q) :
    RepExt Q (p.x : Fp) (p.y : Fp) ((1 : Nat) : Fp) ((fmul p.x p.y : Nat) : Fp) := by
  have := repExt_affine Q
  rwa [← h.1, ← h.2, ← Bridge.cast_fmul, ← Nat.cast_one] at this

theorem encode_def (p : Pt) : Ristretto.encode p = Ristretto.encodeExt p.x p.y 1 (fmul p.x p.y) := rfl

end Dalek.Proofs.Ris

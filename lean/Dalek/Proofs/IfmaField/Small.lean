import Dalek.Proofs.IfmaField.Defs
import Dalek.Gen.Norm.IfmaField
/-! `new`, `split`, `unreduce`, `negate_lazy`, `diff_sum`, `add`, `reduce`, `neg`, `mul_consts` of the IFMA backend. -/
set_option maxRecDepth 100000
set_option maxHeartbeats 4000000
set_option linter.unusedSimpArgs false
namespace Dalek.Proofs.IfmaField
open Dalek Dalek.Gen.Norm.IfmaField Dalek.Proofs.Field26 Dalek.Proofs.Avx2Field

/-- `new(a, b, c, d)` packs four `FieldElement51`: lane `k` holds the `k`-th argument -/
theorem new_correct (k : Lane) (a0 a1 a2 a3 a4 b0 b1 b2 b3 b4 c0 c1 c2 c3 c4 d0 d1 d2 d3 d4 : Int) :
    laneVal51 k (new_fn a0 a1 a2 a3 a4 b0 b1 b2 b3 b4 c0 c1 c2 c3 c4 d0 d1 d2 d3 d4) = val51 k (a0 :: a1 :: a2 :: a3 :: a4 :: b0 :: b1 :: b2 :: b3 :: b4 :: c0 :: c1 :: c2 :: c3 :: c4 :: d0 :: d1 :: d2 :: d3 :: d4 :: []) := by
  cases k <;> rfl

/-- `split` is the inverse of `new` -/
theorem split_correct (k : Lane) (x0 x1 x2 x3 x4 x5 x6 x7 x8 x9 x10 x11 x12 x13 x14 x15 x16 x17 x18 x19 : Int) :
    val51 k (split_fn x0 x1 x2 x3 x4 x5 x6 x7 x8 x9 x10 x11 x12 x13 x14 x15 x16 x17 x18 x19) = laneVal51 k (x0 :: x1 :: x2 :: x3 :: x4 :: x5 :: x6 :: x7 :: x8 :: x9 :: x10 :: x11 :: x12 :: x13 :: x14 :: x15 :: x16 :: x17 :: x18 :: x19 :: []) := by
  cases k <;> rfl

/-- `F51x4Unreduced::from(F51x4Reduced)` is the identity on the lanes -/
theorem unreduce_correct (k : Lane) (x0 x1 x2 x3 x4 x5 x6 x7 x8 x9 x10 x11 x12 x13 x14 x15 x16 x17 x18 x19 : Int) :
    laneVal51 k (unreduce_fn x0 x1 x2 x3 x4 x5 x6 x7 x8 x9 x10 x11 x12 x13 x14 x15 x16 x17 x18 x19) = laneVal51 k (x0 :: x1 :: x2 :: x3 :: x4 :: x5 :: x6 :: x7 :: x8 :: x9 :: x10 :: x11 :: x12 :: x13 :: x14 :: x15 :: x16 :: x17 :: x18 :: x19 :: []) := by
  cases k <;> rfl

/-- `negate_lazy`: `32p − x` lane-wise (`16p − x` before /repo commit f67a738) -/
theorem negate_lazy_correct (k : Lane) (x0 x1 x2 x3 x4 x5 x6 x7 x8 x9 x10 x11 x12 x13 x14 x15 x16 x17 x18 x19 : Int) :
    laneVal51 k (negate_lazy_fn x0 x1 x2 x3 x4 x5 x6 x7 x8 x9 x10 x11 x12 x13 x14 x15 x16 x17 x18 x19) = - laneVal51 k (x0 :: x1 :: x2 :: x3 :: x4 :: x5 :: x6 :: x7 :: x8 :: x9 :: x10 :: x11 :: x12 :: x13 :: x14 :: x15 :: x16 :: x17 :: x18 :: x19 :: []) := by
  ifma_lets negate_lazy_fn
  cases k <;> ifma_finish

/-- `diff_sum`: `(A,B,C,D) ↦ (B − A, B + A, D − C, D + C)` -/
theorem diff_sum_correct (k : Lane) (x0 x1 x2 x3 x4 x5 x6 x7 x8 x9 x10 x11 x12 x13 x14 x15 x16 x17 x18 x19 : Int) :
    laneVal51 k (diff_sum_fn x0 x1 x2 x3 x4 x5 x6 x7 x8 x9 x10 x11 x12 x13 x14 x15 x16 x17 x18 x19) = k.sel (laneVal51 .B (x0 :: x1 :: x2 :: x3 :: x4 :: x5 :: x6 :: x7 :: x8 :: x9 :: x10 :: x11 :: x12 :: x13 :: x14 :: x15 :: x16 :: x17 :: x18 :: x19 :: []) - laneVal51 .A (x0 :: x1 :: x2 :: x3 :: x4 :: x5 :: x6 :: x7 :: x8 :: x9 :: x10 :: x11 :: x12 :: x13 :: x14 :: x15 :: x16 :: x17 :: x18 :: x19 :: [])) (laneVal51 .B (x0 :: x1 :: x2 :: x3 :: x4 :: x5 :: x6 :: x7 :: x8 :: x9 :: x10 :: x11 :: x12 :: x13 :: x14 :: x15 :: x16 :: x17 :: x18 :: x19 :: []) + laneVal51 .A (x0 :: x1 :: x2 :: x3 :: x4 :: x5 :: x6 :: x7 :: x8 :: x9 :: x10 :: x11 :: x12 :: x13 :: x14 :: x15 :: x16 :: x17 :: x18 :: x19 :: [])) (laneVal51 .D (x0 :: x1 :: x2 :: x3 :: x4 :: x5 :: x6 :: x7 :: x8 :: x9 :: x10 :: x11 :: x12 :: x13 :: x14 :: x15 :: x16 :: x17 :: x18 :: x19 :: []) - laneVal51 .C (x0 :: x1 :: x2 :: x3 :: x4 :: x5 :: x6 :: x7 :: x8 :: x9 :: x10 :: x11 :: x12 :: x13 :: x14 :: x15 :: x16 :: x17 :: x18 :: x19 :: [])) (laneVal51 .D (x0 :: x1 :: x2 :: x3 :: x4 :: x5 :: x6 :: x7 :: x8 :: x9 :: x10 :: x11 :: x12 :: x13 :: x14 :: x15 :: x16 :: x17 :: x18 :: x19 :: []) + laneVal51 .C (x0 :: x1 :: x2 :: x3 :: x4 :: x5 :: x6 :: x7 :: x8 :: x9 :: x10 :: x11 :: x12 :: x13 :: x14 :: x15 :: x16 :: x17 :: x18 :: x19 :: [])) := by
  ifma_lets diff_sum_fn
  cases k <;> ifma_finish

/-- `x + y` lane-wise -/
theorem add_correct (k : Lane) (x0 x1 x2 x3 x4 x5 x6 x7 x8 x9 x10 x11 x12 x13 x14 x15 x16 x17 x18 x19 y0 y1 y2 y3 y4 y5 y6 y7 y8 y9 y10 y11 y12 y13 y14 y15 y16 y17 y18 y19 : Int) :
    laneVal51 k (add_fn x0 x1 x2 x3 x4 x5 x6 x7 x8 x9 x10 x11 x12 x13 x14 x15 x16 x17 x18 x19 y0 y1 y2 y3 y4 y5 y6 y7 y8 y9 y10 y11 y12 y13 y14 y15 y16 y17 y18 y19) = laneVal51 k (x0 :: x1 :: x2 :: x3 :: x4 :: x5 :: x6 :: x7 :: x8 :: x9 :: x10 :: x11 :: x12 :: x13 :: x14 :: x15 :: x16 :: x17 :: x18 :: x19 :: []) + laneVal51 k (y0 :: y1 :: y2 :: y3 :: y4 :: y5 :: y6 :: y7 :: y8 :: y9 :: y10 :: y11 :: y12 :: y13 :: y14 :: y15 :: y16 :: y17 :: y18 :: y19 :: []) := by
  ifma_lets add_fn
  cases k <;> ifma_finish

/-- `F51x4Reduced::from(F51x4Unreduced)` (the weak reduction) preserves the four values -/
theorem reduce_correct (k : Lane) (x0 x1 x2 x3 x4 x5 x6 x7 x8 x9 x10 x11 x12 x13 x14 x15 x16 x17 x18 x19 : Int) :
    laneVal51 k (reduce_fn x0 x1 x2 x3 x4 x5 x6 x7 x8 x9 x10 x11 x12 x13 x14 x15 x16 x17 x18 x19) = laneVal51 k (x0 :: x1 :: x2 :: x3 :: x4 :: x5 :: x6 :: x7 :: x8 :: x9 :: x10 :: x11 :: x12 :: x13 :: x14 :: x15 :: x16 :: x17 :: x18 :: x19 :: []) := by
  ifma_lets reduce_fn
  cases k <;> ifma_finish

/-- `-x` on `F51x4Reduced`: `unreduce`, `negate_lazy`, `reduce` -/
theorem neg_correct (k : Lane) (x0 x1 x2 x3 x4 x5 x6 x7 x8 x9 x10 x11 x12 x13 x14 x15 x16 x17 x18 x19 : Int) :
    laneVal51 k (neg_fn x0 x1 x2 x3 x4 x5 x6 x7 x8 x9 x10 x11 x12 x13 x14 x15 x16 x17 x18 x19) = - laneVal51 k (x0 :: x1 :: x2 :: x3 :: x4 :: x5 :: x6 :: x7 :: x8 :: x9 :: x10 :: x11 :: x12 :: x13 :: x14 :: x15 :: x16 :: x17 :: x18 :: x19 :: []) := by
  ifma_lets neg_fn
  cases k <;> ifma_finish

/-- `(A,B,C,D) * (s0,s1,s2,s3) = (s0 A, s1 B, s2 C, s3 D)` -/
theorem mul_consts_correct (k : Lane) (x0 x1 x2 x3 x4 x5 x6 x7 x8 x9 x10 x11 x12 x13 x14 x15 x16 x17 x18 x19 s0 s1 s2 s3 : Int) :
    laneVal51 k (mul_consts_fn x0 x1 x2 x3 x4 x5 x6 x7 x8 x9 x10 x11 x12 x13 x14 x15 x16 x17 x18 x19 s0 s1 s2 s3) = laneVal51 k (x0 :: x1 :: x2 :: x3 :: x4 :: x5 :: x6 :: x7 :: x8 :: x9 :: x10 :: x11 :: x12 :: x13 :: x14 :: x15 :: x16 :: x17 :: x18 :: x19 :: []) * ((k.sel s0 s1 s2 s3 : Int) : ZMod P) := by
  ifma_lets mul_consts_fn
  cases k <;> ifma_finish


end Dalek.Proofs.IfmaField

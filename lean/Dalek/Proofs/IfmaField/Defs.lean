import Dalek.Proofs.Avx2Field.Defs
/-! Lane-level value semantics of the AVX512-IFMA vector field backend (`backend/vector/ifma/field.rs`).

An `F51x4Unreduced` / `F51x4Reduced = [u64x4; 5]` is modelled as a list of 20 u64 lanes; lane `4 i + j` is lane `j` of
vector `i` and holds limb `i` (radix 2^51) of element `j` of `(A, B, C, D)` (read off the translated `new` / `split`).
`Lane`, `Lane.idx`, `Lane.sel`, `elem51`, `val51` and the proof tactics are shared with the AVX2 development. -/
namespace Dalek.Proofs.IfmaField
open Dalek Dalek.Proofs.Field26 Dalek.Proofs.Avx2Field

/-- the five limbs of element `k` inside the 20 lanes `v` -/
def lane51 (k : Lane) (v : List Int) : List Int :=
  [v.getD k.idx 0, v.getD (k.idx + 4) 0, v.getD (k.idx + 8) 0, v.getD (k.idx + 12) 0, v.getD (k.idx + 16) 0]

/-- value in `ZMod (2^255-19)` of element `k` of the vector `v` (20 lanes) -/
def laneVal51 (k : Lane) (v : List Int) : ZMod P := ((Dalek.Proofs.Field51.rep51 (lane51 k v) : Int) : ZMod P)

/-- the five limbs / the value of element `k` of a vector of 20 u64 lanes (naturals) -/
def vecLimbs51 (k : Lane) (v : List Nat) : List Int := lane51 k (Dalek.IR.toZ v)
def vecVal51 (k : Lane) (v : List Nat) : ZMod P := laneVal51 k (Dalek.IR.toZ v)

theorem vecVal51_eq_limbs (k : Lane) (v : List Nat) :
    vecVal51 k v = ((Dalek.Proofs.Field51.rep51 (vecLimbs51 k v) : Int) : ZMod P) := rfl

/-- `limbs < 2^52` : the invariant of `F51x4Reduced` (`docs/ifma-notes.md`) -/
def reduced52 : List Dalek.IR.Itv := Dalek.Model.Contracts.IfmaField.reduced

/-- `ifma_lets f`: unfold the shallow kernel `f`, turn its SSA lets into equations, cast them to `ZMod P` -/
macro "ifma_lets " f:ident : tactic =>
  `(tactic| (limb_lets $f; subst_list_eqs; cast_eqs (ZMod P)))

/-- finish a lane-value identity (normalising; the 52-bit quotients of the IFMA products stay opaque atoms) -/
macro "ifma_finish" : tactic =>
  `(tactic| (simp only [laneVal51, lane51, val51, elem51, Lane.idx, Lane.sel,
               Nat.reduceAdd, Nat.reduceMul, Dalek.Proofs.Field51.rep51,
               List.getD_cons_zero, List.getD_cons_succ,
               emod_emod_pow _ (show 51 ≤ 52 by norm_num), emod_emod_pow _ (show 51 ≤ 64 by norm_num),
               emod_emod_pow _ (show 52 ≤ 64 by norm_num)] at *
             limb_push
             simp only [*]
             ring_nf
             try reduce_mod_char))

end Dalek.Proofs.IfmaField

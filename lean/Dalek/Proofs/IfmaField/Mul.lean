import Dalek.Proofs.IfmaField.Defs
import Dalek.Gen.Norm.IfmaField
/-! `&x * &y` of the IFMA backend: lane-wise product in `ZMod (2^255-19)`, for ALL integer lane values of the normal form. -/
set_option maxRecDepth 100000
set_option maxHeartbeats 4000000
set_option linter.unusedSimpArgs false
namespace Dalek.Proofs.IfmaField
open Dalek Dalek.Gen.Norm.IfmaField Dalek.Proofs.Field26 Dalek.Proofs.Avx2Field

/-- `(A,B,C,D) * (A',B',C',D') = (A A', B B', C C', D D')` -/
theorem mul_correct (k : Lane) (x0 x1 x2 x3 x4 x5 x6 x7 x8 x9 x10 x11 x12 x13 x14 x15 x16 x17 x18 x19 y0 y1 y2 y3 y4 y5 y6 y7 y8 y9 y10 y11 y12 y13 y14 y15 y16 y17 y18 y19 : Int) :
    laneVal51 k (mul_fn x0 x1 x2 x3 x4 x5 x6 x7 x8 x9 x10 x11 x12 x13 x14 x15 x16 x17 x18 x19 y0 y1 y2 y3 y4 y5 y6 y7 y8 y9 y10 y11 y12 y13 y14 y15 y16 y17 y18 y19) = laneVal51 k (x0 :: x1 :: x2 :: x3 :: x4 :: x5 :: x6 :: x7 :: x8 :: x9 :: x10 :: x11 :: x12 :: x13 :: x14 :: x15 :: x16 :: x17 :: x18 :: x19 :: []) * laneVal51 k (y0 :: y1 :: y2 :: y3 :: y4 :: y5 :: y6 :: y7 :: y8 :: y9 :: y10 :: y11 :: y12 :: y13 :: y14 :: y15 :: y16 :: y17 :: y18 :: y19 :: []) := by
  ifma_lets mul_fn
  cases k <;> ifma_finish


end Dalek.Proofs.IfmaField

import Dalek.Proofs.IfmaField.Defs
import Dalek.Gen.Norm.IfmaField
/-! `square` of the IFMA backend. -/
set_option maxRecDepth 100000
set_option maxHeartbeats 4000000
set_option linter.unusedSimpArgs false
namespace Dalek.Proofs.IfmaField
open Dalek Dalek.Gen.Norm.IfmaField Dalek.Proofs.Field26 Dalek.Proofs.Avx2Field

/-- `(A,B,C,D) ↦ (A², B², C², D²)` -/
theorem square_correct (k : Lane) (x0 x1 x2 x3 x4 x5 x6 x7 x8 x9 x10 x11 x12 x13 x14 x15 x16 x17 x18 x19 : Int) :
    laneVal51 k (square_fn x0 x1 x2 x3 x4 x5 x6 x7 x8 x9 x10 x11 x12 x13 x14 x15 x16 x17 x18 x19) = laneVal51 k (x0 :: x1 :: x2 :: x3 :: x4 :: x5 :: x6 :: x7 :: x8 :: x9 :: x10 :: x11 :: x12 :: x13 :: x14 :: x15 :: x16 :: x17 :: x18 :: x19 :: []) ^ 2 := by
  ifma_lets square_fn
  cases k <;> ifma_finish


end Dalek.Proofs.IfmaField

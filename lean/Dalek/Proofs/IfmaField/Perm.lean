import Dalek.Proofs.IfmaField.Defs
import Dalek.Gen.Norm.IfmaField
/-! Selects, shuffles and blends of the IFMA backend are pure lane renamings. -/
set_option maxRecDepth 100000
set_option maxHeartbeats 4000000
set_option linter.unusedSimpArgs false
namespace Dalek.Proofs.IfmaField
open Dalek Dalek.Gen.Norm.IfmaField Dalek.Proofs.Field26 Dalek.Proofs.Avx2Field

/-- `conditional_select(a, b, choice)`: all 20 lanes of `a` if `choice = 0`, else all 20 lanes of `b` -/
theorem conditional_select_correct (x0 x1 x2 x3 x4 x5 x6 x7 x8 x9 x10 x11 x12 x13 x14 x15 x16 x17 x18 x19 y0 y1 y2 y3 y4 y5 y6 y7 y8 y9 y10 y11 y12 y13 y14 y15 y16 y17 y18 y19 c : Int) :
    conditional_select_fn x0 x1 x2 x3 x4 x5 x6 x7 x8 x9 x10 x11 x12 x13 x14 x15 x16 x17 x18 x19 y0 y1 y2 y3 y4 y5 y6 y7 y8 y9 y10 y11 y12 y13 y14 y15 y16 y17 y18 y19 c = if c = 0 then (x0 :: x1 :: x2 :: x3 :: x4 :: x5 :: x6 :: x7 :: x8 :: x9 :: x10 :: x11 :: x12 :: x13 :: x14 :: x15 :: x16 :: x17 :: x18 :: x19 :: []) else (y0 :: y1 :: y2 :: y3 :: y4 :: y5 :: y6 :: y7 :: y8 :: y9 :: y10 :: y11 :: y12 :: y13 :: y14 :: y15 :: y16 :: y17 :: y18 :: y19 :: []) := by
  by_cases h : c = 0 <;> simp only [conditional_select_fn, h, ↓reduceIte]

/-- `conditional_assign(a, b, choice)`: all 20 lanes of `a` if `choice = 0`, else all 20 lanes of `b` -/
theorem conditional_assign_correct (x0 x1 x2 x3 x4 x5 x6 x7 x8 x9 x10 x11 x12 x13 x14 x15 x16 x17 x18 x19 y0 y1 y2 y3 y4 y5 y6 y7 y8 y9 y10 y11 y12 y13 y14 y15 y16 y17 y18 y19 c : Int) :
    conditional_assign_fn x0 x1 x2 x3 x4 x5 x6 x7 x8 x9 x10 x11 x12 x13 x14 x15 x16 x17 x18 x19 y0 y1 y2 y3 y4 y5 y6 y7 y8 y9 y10 y11 y12 y13 y14 y15 y16 y17 y18 y19 c = if c = 0 then (x0 :: x1 :: x2 :: x3 :: x4 :: x5 :: x6 :: x7 :: x8 :: x9 :: x10 :: x11 :: x12 :: x13 :: x14 :: x15 :: x16 :: x17 :: x18 :: x19 :: []) else (y0 :: y1 :: y2 :: y3 :: y4 :: y5 :: y6 :: y7 :: y8 :: y9 :: y10 :: y11 :: y12 :: y13 :: y14 :: y15 :: y16 :: y17 :: y18 :: y19 :: []) := by
  by_cases h : c = 0 <;> simp only [conditional_assign_fn, h, ↓reduceIte]

/-- `F51x4Unreduced::shuffle(Shuffle::AAAA)`: `(A,B,C,D) ↦ (A,A,A,A)` -/
theorem shuffle_AAAA_correct (k : Lane) (x0 x1 x2 x3 x4 x5 x6 x7 x8 x9 x10 x11 x12 x13 x14 x15 x16 x17 x18 x19 : Int) :
    lane51 k (shuffle_AAAA_fn x0 x1 x2 x3 x4 x5 x6 x7 x8 x9 x10 x11 x12 x13 x14 x15 x16 x17 x18 x19) = lane51 (k.sel .A .A .A .A) (x0 :: x1 :: x2 :: x3 :: x4 :: x5 :: x6 :: x7 :: x8 :: x9 :: x10 :: x11 :: x12 :: x13 :: x14 :: x15 :: x16 :: x17 :: x18 :: x19 :: []) := by
  cases k <;> rfl

/-- `F51x4Unreduced::shuffle(Shuffle::BBBB)`: `(A,B,C,D) ↦ (B,B,B,B)` -/
theorem shuffle_BBBB_correct (k : Lane) (x0 x1 x2 x3 x4 x5 x6 x7 x8 x9 x10 x11 x12 x13 x14 x15 x16 x17 x18 x19 : Int) :
    lane51 k (shuffle_BBBB_fn x0 x1 x2 x3 x4 x5 x6 x7 x8 x9 x10 x11 x12 x13 x14 x15 x16 x17 x18 x19) = lane51 (k.sel .B .B .B .B) (x0 :: x1 :: x2 :: x3 :: x4 :: x5 :: x6 :: x7 :: x8 :: x9 :: x10 :: x11 :: x12 :: x13 :: x14 :: x15 :: x16 :: x17 :: x18 :: x19 :: []) := by
  cases k <;> rfl

/-- `F51x4Unreduced::shuffle(Shuffle::BADC)`: `(A,B,C,D) ↦ (B,A,D,C)` -/
theorem shuffle_BADC_correct (k : Lane) (x0 x1 x2 x3 x4 x5 x6 x7 x8 x9 x10 x11 x12 x13 x14 x15 x16 x17 x18 x19 : Int) :
    lane51 k (shuffle_BADC_fn x0 x1 x2 x3 x4 x5 x6 x7 x8 x9 x10 x11 x12 x13 x14 x15 x16 x17 x18 x19) = lane51 (k.sel .B .A .D .C) (x0 :: x1 :: x2 :: x3 :: x4 :: x5 :: x6 :: x7 :: x8 :: x9 :: x10 :: x11 :: x12 :: x13 :: x14 :: x15 :: x16 :: x17 :: x18 :: x19 :: []) := by
  cases k <;> rfl

/-- `F51x4Unreduced::shuffle(Shuffle::BACD)`: `(A,B,C,D) ↦ (B,A,C,D)` -/
theorem shuffle_BACD_correct (k : Lane) (x0 x1 x2 x3 x4 x5 x6 x7 x8 x9 x10 x11 x12 x13 x14 x15 x16 x17 x18 x19 : Int) :
    lane51 k (shuffle_BACD_fn x0 x1 x2 x3 x4 x5 x6 x7 x8 x9 x10 x11 x12 x13 x14 x15 x16 x17 x18 x19) = lane51 (k.sel .B .A .C .D) (x0 :: x1 :: x2 :: x3 :: x4 :: x5 :: x6 :: x7 :: x8 :: x9 :: x10 :: x11 :: x12 :: x13 :: x14 :: x15 :: x16 :: x17 :: x18 :: x19 :: []) := by
  cases k <;> rfl

/-- `F51x4Unreduced::shuffle(Shuffle::ADDA)`: `(A,B,C,D) ↦ (A,D,D,A)` -/
theorem shuffle_ADDA_correct (k : Lane) (x0 x1 x2 x3 x4 x5 x6 x7 x8 x9 x10 x11 x12 x13 x14 x15 x16 x17 x18 x19 : Int) :
    lane51 k (shuffle_ADDA_fn x0 x1 x2 x3 x4 x5 x6 x7 x8 x9 x10 x11 x12 x13 x14 x15 x16 x17 x18 x19) = lane51 (k.sel .A .D .D .A) (x0 :: x1 :: x2 :: x3 :: x4 :: x5 :: x6 :: x7 :: x8 :: x9 :: x10 :: x11 :: x12 :: x13 :: x14 :: x15 :: x16 :: x17 :: x18 :: x19 :: []) := by
  cases k <;> rfl

/-- `F51x4Unreduced::shuffle(Shuffle::CBCB)`: `(A,B,C,D) ↦ (C,B,C,B)` -/
theorem shuffle_CBCB_correct (k : Lane) (x0 x1 x2 x3 x4 x5 x6 x7 x8 x9 x10 x11 x12 x13 x14 x15 x16 x17 x18 x19 : Int) :
    lane51 k (shuffle_CBCB_fn x0 x1 x2 x3 x4 x5 x6 x7 x8 x9 x10 x11 x12 x13 x14 x15 x16 x17 x18 x19) = lane51 (k.sel .C .B .C .B) (x0 :: x1 :: x2 :: x3 :: x4 :: x5 :: x6 :: x7 :: x8 :: x9 :: x10 :: x11 :: x12 :: x13 :: x14 :: x15 :: x16 :: x17 :: x18 :: x19 :: []) := by
  cases k <;> rfl

/-- `F51x4Unreduced::shuffle(Shuffle::ABDC)`: `(A,B,C,D) ↦ (A,B,D,C)` -/
theorem shuffle_ABDC_correct (k : Lane) (x0 x1 x2 x3 x4 x5 x6 x7 x8 x9 x10 x11 x12 x13 x14 x15 x16 x17 x18 x19 : Int) :
    lane51 k (shuffle_ABDC_fn x0 x1 x2 x3 x4 x5 x6 x7 x8 x9 x10 x11 x12 x13 x14 x15 x16 x17 x18 x19) = lane51 (k.sel .A .B .D .C) (x0 :: x1 :: x2 :: x3 :: x4 :: x5 :: x6 :: x7 :: x8 :: x9 :: x10 :: x11 :: x12 :: x13 :: x14 :: x15 :: x16 :: x17 :: x18 :: x19 :: []) := by
  cases k <;> rfl

/-- `F51x4Unreduced::shuffle(Shuffle::ABAB)`: `(A,B,C,D) ↦ (A,B,A,B)` -/
theorem shuffle_ABAB_correct (k : Lane) (x0 x1 x2 x3 x4 x5 x6 x7 x8 x9 x10 x11 x12 x13 x14 x15 x16 x17 x18 x19 : Int) :
    lane51 k (shuffle_ABAB_fn x0 x1 x2 x3 x4 x5 x6 x7 x8 x9 x10 x11 x12 x13 x14 x15 x16 x17 x18 x19) = lane51 (k.sel .A .B .A .B) (x0 :: x1 :: x2 :: x3 :: x4 :: x5 :: x6 :: x7 :: x8 :: x9 :: x10 :: x11 :: x12 :: x13 :: x14 :: x15 :: x16 :: x17 :: x18 :: x19 :: []) := by
  cases k <;> rfl

/-- `F51x4Unreduced::shuffle(Shuffle::DBBD)`: `(A,B,C,D) ↦ (D,B,B,D)` -/
theorem shuffle_DBBD_correct (k : Lane) (x0 x1 x2 x3 x4 x5 x6 x7 x8 x9 x10 x11 x12 x13 x14 x15 x16 x17 x18 x19 : Int) :
    lane51 k (shuffle_DBBD_fn x0 x1 x2 x3 x4 x5 x6 x7 x8 x9 x10 x11 x12 x13 x14 x15 x16 x17 x18 x19) = lane51 (k.sel .D .B .B .D) (x0 :: x1 :: x2 :: x3 :: x4 :: x5 :: x6 :: x7 :: x8 :: x9 :: x10 :: x11 :: x12 :: x13 :: x14 :: x15 :: x16 :: x17 :: x18 :: x19 :: []) := by
  cases k <;> rfl

/-- `F51x4Unreduced::shuffle(Shuffle::CACA)`: `(A,B,C,D) ↦ (C,A,C,A)` -/
theorem shuffle_CACA_correct (k : Lane) (x0 x1 x2 x3 x4 x5 x6 x7 x8 x9 x10 x11 x12 x13 x14 x15 x16 x17 x18 x19 : Int) :
    lane51 k (shuffle_CACA_fn x0 x1 x2 x3 x4 x5 x6 x7 x8 x9 x10 x11 x12 x13 x14 x15 x16 x17 x18 x19) = lane51 (k.sel .C .A .C .A) (x0 :: x1 :: x2 :: x3 :: x4 :: x5 :: x6 :: x7 :: x8 :: x9 :: x10 :: x11 :: x12 :: x13 :: x14 :: x15 :: x16 :: x17 :: x18 :: x19 :: []) := by
  cases k <;> rfl

/-- `F51x4Unreduced::blend(y, Lanes::D)`: elements D from `y`, the others from `x` -/
theorem blend_D_correct (k : Lane) (x0 x1 x2 x3 x4 x5 x6 x7 x8 x9 x10 x11 x12 x13 x14 x15 x16 x17 x18 x19 y0 y1 y2 y3 y4 y5 y6 y7 y8 y9 y10 y11 y12 y13 y14 y15 y16 y17 y18 y19 : Int) :
    lane51 k (blend_D_fn x0 x1 x2 x3 x4 x5 x6 x7 x8 x9 x10 x11 x12 x13 x14 x15 x16 x17 x18 x19 y0 y1 y2 y3 y4 y5 y6 y7 y8 y9 y10 y11 y12 y13 y14 y15 y16 y17 y18 y19) = k.sel (lane51 .A (x0 :: x1 :: x2 :: x3 :: x4 :: x5 :: x6 :: x7 :: x8 :: x9 :: x10 :: x11 :: x12 :: x13 :: x14 :: x15 :: x16 :: x17 :: x18 :: x19 :: [])) (lane51 .B (x0 :: x1 :: x2 :: x3 :: x4 :: x5 :: x6 :: x7 :: x8 :: x9 :: x10 :: x11 :: x12 :: x13 :: x14 :: x15 :: x16 :: x17 :: x18 :: x19 :: [])) (lane51 .C (x0 :: x1 :: x2 :: x3 :: x4 :: x5 :: x6 :: x7 :: x8 :: x9 :: x10 :: x11 :: x12 :: x13 :: x14 :: x15 :: x16 :: x17 :: x18 :: x19 :: [])) (lane51 .D (y0 :: y1 :: y2 :: y3 :: y4 :: y5 :: y6 :: y7 :: y8 :: y9 :: y10 :: y11 :: y12 :: y13 :: y14 :: y15 :: y16 :: y17 :: y18 :: y19 :: [])) := by
  cases k <;> rfl

/-- `F51x4Unreduced::blend(y, Lanes::C)`: elements C from `y`, the others from `x` -/
theorem blend_C_correct (k : Lane) (x0 x1 x2 x3 x4 x5 x6 x7 x8 x9 x10 x11 x12 x13 x14 x15 x16 x17 x18 x19 y0 y1 y2 y3 y4 y5 y6 y7 y8 y9 y10 y11 y12 y13 y14 y15 y16 y17 y18 y19 : Int) :
    lane51 k (blend_C_fn x0 x1 x2 x3 x4 x5 x6 x7 x8 x9 x10 x11 x12 x13 x14 x15 x16 x17 x18 x19 y0 y1 y2 y3 y4 y5 y6 y7 y8 y9 y10 y11 y12 y13 y14 y15 y16 y17 y18 y19) = k.sel (lane51 .A (x0 :: x1 :: x2 :: x3 :: x4 :: x5 :: x6 :: x7 :: x8 :: x9 :: x10 :: x11 :: x12 :: x13 :: x14 :: x15 :: x16 :: x17 :: x18 :: x19 :: [])) (lane51 .B (x0 :: x1 :: x2 :: x3 :: x4 :: x5 :: x6 :: x7 :: x8 :: x9 :: x10 :: x11 :: x12 :: x13 :: x14 :: x15 :: x16 :: x17 :: x18 :: x19 :: [])) (lane51 .C (y0 :: y1 :: y2 :: y3 :: y4 :: y5 :: y6 :: y7 :: y8 :: y9 :: y10 :: y11 :: y12 :: y13 :: y14 :: y15 :: y16 :: y17 :: y18 :: y19 :: [])) (lane51 .D (x0 :: x1 :: x2 :: x3 :: x4 :: x5 :: x6 :: x7 :: x8 :: x9 :: x10 :: x11 :: x12 :: x13 :: x14 :: x15 :: x16 :: x17 :: x18 :: x19 :: [])) := by
  cases k <;> rfl

/-- `F51x4Unreduced::blend(y, Lanes::AB)`: elements A,B from `y`, the others from `x` -/
theorem blend_AB_correct (k : Lane) (x0 x1 x2 x3 x4 x5 x6 x7 x8 x9 x10 x11 x12 x13 x14 x15 x16 x17 x18 x19 y0 y1 y2 y3 y4 y5 y6 y7 y8 y9 y10 y11 y12 y13 y14 y15 y16 y17 y18 y19 : Int) :
    lane51 k (blend_AB_fn x0 x1 x2 x3 x4 x5 x6 x7 x8 x9 x10 x11 x12 x13 x14 x15 x16 x17 x18 x19 y0 y1 y2 y3 y4 y5 y6 y7 y8 y9 y10 y11 y12 y13 y14 y15 y16 y17 y18 y19) = k.sel (lane51 .A (y0 :: y1 :: y2 :: y3 :: y4 :: y5 :: y6 :: y7 :: y8 :: y9 :: y10 :: y11 :: y12 :: y13 :: y14 :: y15 :: y16 :: y17 :: y18 :: y19 :: [])) (lane51 .B (y0 :: y1 :: y2 :: y3 :: y4 :: y5 :: y6 :: y7 :: y8 :: y9 :: y10 :: y11 :: y12 :: y13 :: y14 :: y15 :: y16 :: y17 :: y18 :: y19 :: [])) (lane51 .C (x0 :: x1 :: x2 :: x3 :: x4 :: x5 :: x6 :: x7 :: x8 :: x9 :: x10 :: x11 :: x12 :: x13 :: x14 :: x15 :: x16 :: x17 :: x18 :: x19 :: [])) (lane51 .D (x0 :: x1 :: x2 :: x3 :: x4 :: x5 :: x6 :: x7 :: x8 :: x9 :: x10 :: x11 :: x12 :: x13 :: x14 :: x15 :: x16 :: x17 :: x18 :: x19 :: [])) := by
  cases k <;> rfl

/-- `F51x4Unreduced::blend(y, Lanes::AC)`: elements A,C from `y`, the others from `x` -/
theorem blend_AC_correct (k : Lane) (x0 x1 x2 x3 x4 x5 x6 x7 x8 x9 x10 x11 x12 x13 x14 x15 x16 x17 x18 x19 y0 y1 y2 y3 y4 y5 y6 y7 y8 y9 y10 y11 y12 y13 y14 y15 y16 y17 y18 y19 : Int) :
    lane51 k (blend_AC_fn x0 x1 x2 x3 x4 x5 x6 x7 x8 x9 x10 x11 x12 x13 x14 x15 x16 x17 x18 x19 y0 y1 y2 y3 y4 y5 y6 y7 y8 y9 y10 y11 y12 y13 y14 y15 y16 y17 y18 y19) = k.sel (lane51 .A (y0 :: y1 :: y2 :: y3 :: y4 :: y5 :: y6 :: y7 :: y8 :: y9 :: y10 :: y11 :: y12 :: y13 :: y14 :: y15 :: y16 :: y17 :: y18 :: y19 :: [])) (lane51 .B (x0 :: x1 :: x2 :: x3 :: x4 :: x5 :: x6 :: x7 :: x8 :: x9 :: x10 :: x11 :: x12 :: x13 :: x14 :: x15 :: x16 :: x17 :: x18 :: x19 :: [])) (lane51 .C (y0 :: y1 :: y2 :: y3 :: y4 :: y5 :: y6 :: y7 :: y8 :: y9 :: y10 :: y11 :: y12 :: y13 :: y14 :: y15 :: y16 :: y17 :: y18 :: y19 :: [])) (lane51 .D (x0 :: x1 :: x2 :: x3 :: x4 :: x5 :: x6 :: x7 :: x8 :: x9 :: x10 :: x11 :: x12 :: x13 :: x14 :: x15 :: x16 :: x17 :: x18 :: x19 :: [])) := by
  cases k <;> rfl

/-- `F51x4Unreduced::blend(y, Lanes::AD)`: elements A,D from `y`, the others from `x` -/
theorem blend_AD_correct (k : Lane) (x0 x1 x2 x3 x4 x5 x6 x7 x8 x9 x10 x11 x12 x13 x14 x15 x16 x17 x18 x19 y0 y1 y2 y3 y4 y5 y6 y7 y8 y9 y10 y11 y12 y13 y14 y15 y16 y17 y18 y19 : Int) :
    lane51 k (blend_AD_fn x0 x1 x2 x3 x4 x5 x6 x7 x8 x9 x10 x11 x12 x13 x14 x15 x16 x17 x18 x19 y0 y1 y2 y3 y4 y5 y6 y7 y8 y9 y10 y11 y12 y13 y14 y15 y16 y17 y18 y19) = k.sel (lane51 .A (y0 :: y1 :: y2 :: y3 :: y4 :: y5 :: y6 :: y7 :: y8 :: y9 :: y10 :: y11 :: y12 :: y13 :: y14 :: y15 :: y16 :: y17 :: y18 :: y19 :: [])) (lane51 .B (x0 :: x1 :: x2 :: x3 :: x4 :: x5 :: x6 :: x7 :: x8 :: x9 :: x10 :: x11 :: x12 :: x13 :: x14 :: x15 :: x16 :: x17 :: x18 :: x19 :: [])) (lane51 .C (x0 :: x1 :: x2 :: x3 :: x4 :: x5 :: x6 :: x7 :: x8 :: x9 :: x10 :: x11 :: x12 :: x13 :: x14 :: x15 :: x16 :: x17 :: x18 :: x19 :: [])) (lane51 .D (y0 :: y1 :: y2 :: y3 :: y4 :: y5 :: y6 :: y7 :: y8 :: y9 :: y10 :: y11 :: y12 :: y13 :: y14 :: y15 :: y16 :: y17 :: y18 :: y19 :: [])) := by
  cases k <;> rfl

/-- `F51x4Unreduced::blend(y, Lanes::BCD)`: elements B,C,D from `y`, the others from `x` -/
theorem blend_BCD_correct (k : Lane) (x0 x1 x2 x3 x4 x5 x6 x7 x8 x9 x10 x11 x12 x13 x14 x15 x16 x17 x18 x19 y0 y1 y2 y3 y4 y5 y6 y7 y8 y9 y10 y11 y12 y13 y14 y15 y16 y17 y18 y19 : Int) :
    lane51 k (blend_BCD_fn x0 x1 x2 x3 x4 x5 x6 x7 x8 x9 x10 x11 x12 x13 x14 x15 x16 x17 x18 x19 y0 y1 y2 y3 y4 y5 y6 y7 y8 y9 y10 y11 y12 y13 y14 y15 y16 y17 y18 y19) = k.sel (lane51 .A (x0 :: x1 :: x2 :: x3 :: x4 :: x5 :: x6 :: x7 :: x8 :: x9 :: x10 :: x11 :: x12 :: x13 :: x14 :: x15 :: x16 :: x17 :: x18 :: x19 :: [])) (lane51 .B (y0 :: y1 :: y2 :: y3 :: y4 :: y5 :: y6 :: y7 :: y8 :: y9 :: y10 :: y11 :: y12 :: y13 :: y14 :: y15 :: y16 :: y17 :: y18 :: y19 :: [])) (lane51 .C (y0 :: y1 :: y2 :: y3 :: y4 :: y5 :: y6 :: y7 :: y8 :: y9 :: y10 :: y11 :: y12 :: y13 :: y14 :: y15 :: y16 :: y17 :: y18 :: y19 :: [])) (lane51 .D (y0 :: y1 :: y2 :: y3 :: y4 :: y5 :: y6 :: y7 :: y8 :: y9 :: y10 :: y11 :: y12 :: y13 :: y14 :: y15 :: y16 :: y17 :: y18 :: y19 :: [])) := by
  cases k <;> rfl

/-- `F51x4Reduced::shuffle(Shuffle::AAAA)`: `(A,B,C,D) ↦ (A,A,A,A)` -/
theorem reduced_shuffle_AAAA_correct (k : Lane) (x0 x1 x2 x3 x4 x5 x6 x7 x8 x9 x10 x11 x12 x13 x14 x15 x16 x17 x18 x19 : Int) :
    lane51 k (reduced_shuffle_AAAA_fn x0 x1 x2 x3 x4 x5 x6 x7 x8 x9 x10 x11 x12 x13 x14 x15 x16 x17 x18 x19) = lane51 (k.sel .A .A .A .A) (x0 :: x1 :: x2 :: x3 :: x4 :: x5 :: x6 :: x7 :: x8 :: x9 :: x10 :: x11 :: x12 :: x13 :: x14 :: x15 :: x16 :: x17 :: x18 :: x19 :: []) := by
  cases k <;> rfl

/-- `F51x4Reduced::shuffle(Shuffle::BBBB)`: `(A,B,C,D) ↦ (B,B,B,B)` -/
theorem reduced_shuffle_BBBB_correct (k : Lane) (x0 x1 x2 x3 x4 x5 x6 x7 x8 x9 x10 x11 x12 x13 x14 x15 x16 x17 x18 x19 : Int) :
    lane51 k (reduced_shuffle_BBBB_fn x0 x1 x2 x3 x4 x5 x6 x7 x8 x9 x10 x11 x12 x13 x14 x15 x16 x17 x18 x19) = lane51 (k.sel .B .B .B .B) (x0 :: x1 :: x2 :: x3 :: x4 :: x5 :: x6 :: x7 :: x8 :: x9 :: x10 :: x11 :: x12 :: x13 :: x14 :: x15 :: x16 :: x17 :: x18 :: x19 :: []) := by
  cases k <;> rfl

/-- `F51x4Reduced::shuffle(Shuffle::BADC)`: `(A,B,C,D) ↦ (B,A,D,C)` -/
theorem reduced_shuffle_BADC_correct (k : Lane) (x0 x1 x2 x3 x4 x5 x6 x7 x8 x9 x10 x11 x12 x13 x14 x15 x16 x17 x18 x19 : Int) :
    lane51 k (reduced_shuffle_BADC_fn x0 x1 x2 x3 x4 x5 x6 x7 x8 x9 x10 x11 x12 x13 x14 x15 x16 x17 x18 x19) = lane51 (k.sel .B .A .D .C) (x0 :: x1 :: x2 :: x3 :: x4 :: x5 :: x6 :: x7 :: x8 :: x9 :: x10 :: x11 :: x12 :: x13 :: x14 :: x15 :: x16 :: x17 :: x18 :: x19 :: []) := by
  cases k <;> rfl

/-- `F51x4Reduced::shuffle(Shuffle::BACD)`: `(A,B,C,D) ↦ (B,A,C,D)` -/
theorem reduced_shuffle_BACD_correct (k : Lane) (x0 x1 x2 x3 x4 x5 x6 x7 x8 x9 x10 x11 x12 x13 x14 x15 x16 x17 x18 x19 : Int) :
    lane51 k (reduced_shuffle_BACD_fn x0 x1 x2 x3 x4 x5 x6 x7 x8 x9 x10 x11 x12 x13 x14 x15 x16 x17 x18 x19) = lane51 (k.sel .B .A .C .D) (x0 :: x1 :: x2 :: x3 :: x4 :: x5 :: x6 :: x7 :: x8 :: x9 :: x10 :: x11 :: x12 :: x13 :: x14 :: x15 :: x16 :: x17 :: x18 :: x19 :: []) := by
  cases k <;> rfl

/-- `F51x4Reduced::shuffle(Shuffle::ADDA)`: `(A,B,C,D) ↦ (A,D,D,A)` -/
theorem reduced_shuffle_ADDA_correct (k : Lane) (x0 x1 x2 x3 x4 x5 x6 x7 x8 x9 x10 x11 x12 x13 x14 x15 x16 x17 x18 x19 : Int) :
    lane51 k (reduced_shuffle_ADDA_fn x0 x1 x2 x3 x4 x5 x6 x7 x8 x9 x10 x11 x12 x13 x14 x15 x16 x17 x18 x19) = lane51 (k.sel .A .D .D .A) (x0 :: x1 :: x2 :: x3 :: x4 :: x5 :: x6 :: x7 :: x8 :: x9 :: x10 :: x11 :: x12 :: x13 :: x14 :: x15 :: x16 :: x17 :: x18 :: x19 :: []) := by
  cases k <;> rfl

/-- `F51x4Reduced::shuffle(Shuffle::CBCB)`: `(A,B,C,D) ↦ (C,B,C,B)` -/
theorem reduced_shuffle_CBCB_correct (k : Lane) (x0 x1 x2 x3 x4 x5 x6 x7 x8 x9 x10 x11 x12 x13 x14 x15 x16 x17 x18 x19 : Int) :
    lane51 k (reduced_shuffle_CBCB_fn x0 x1 x2 x3 x4 x5 x6 x7 x8 x9 x10 x11 x12 x13 x14 x15 x16 x17 x18 x19) = lane51 (k.sel .C .B .C .B) (x0 :: x1 :: x2 :: x3 :: x4 :: x5 :: x6 :: x7 :: x8 :: x9 :: x10 :: x11 :: x12 :: x13 :: x14 :: x15 :: x16 :: x17 :: x18 :: x19 :: []) := by
  cases k <;> rfl

/-- `F51x4Reduced::shuffle(Shuffle::ABDC)`: `(A,B,C,D) ↦ (A,B,D,C)` -/
theorem reduced_shuffle_ABDC_correct (k : Lane) (x0 x1 x2 x3 x4 x5 x6 x7 x8 x9 x10 x11 x12 x13 x14 x15 x16 x17 x18 x19 : Int) :
    lane51 k (reduced_shuffle_ABDC_fn x0 x1 x2 x3 x4 x5 x6 x7 x8 x9 x10 x11 x12 x13 x14 x15 x16 x17 x18 x19) = lane51 (k.sel .A .B .D .C) (x0 :: x1 :: x2 :: x3 :: x4 :: x5 :: x6 :: x7 :: x8 :: x9 :: x10 :: x11 :: x12 :: x13 :: x14 :: x15 :: x16 :: x17 :: x18 :: x19 :: []) := by
  cases k <;> rfl

/-- `F51x4Reduced::shuffle(Shuffle::ABAB)`: `(A,B,C,D) ↦ (A,B,A,B)` -/
theorem reduced_shuffle_ABAB_correct (k : Lane) (x0 x1 x2 x3 x4 x5 x6 x7 x8 x9 x10 x11 x12 x13 x14 x15 x16 x17 x18 x19 : Int) :
    lane51 k (reduced_shuffle_ABAB_fn x0 x1 x2 x3 x4 x5 x6 x7 x8 x9 x10 x11 x12 x13 x14 x15 x16 x17 x18 x19) = lane51 (k.sel .A .B .A .B) (x0 :: x1 :: x2 :: x3 :: x4 :: x5 :: x6 :: x7 :: x8 :: x9 :: x10 :: x11 :: x12 :: x13 :: x14 :: x15 :: x16 :: x17 :: x18 :: x19 :: []) := by
  cases k <;> rfl

/-- `F51x4Reduced::shuffle(Shuffle::DBBD)`: `(A,B,C,D) ↦ (D,B,B,D)` -/
theorem reduced_shuffle_DBBD_correct (k : Lane) (x0 x1 x2 x3 x4 x5 x6 x7 x8 x9 x10 x11 x12 x13 x14 x15 x16 x17 x18 x19 : Int) :
    lane51 k (reduced_shuffle_DBBD_fn x0 x1 x2 x3 x4 x5 x6 x7 x8 x9 x10 x11 x12 x13 x14 x15 x16 x17 x18 x19) = lane51 (k.sel .D .B .B .D) (x0 :: x1 :: x2 :: x3 :: x4 :: x5 :: x6 :: x7 :: x8 :: x9 :: x10 :: x11 :: x12 :: x13 :: x14 :: x15 :: x16 :: x17 :: x18 :: x19 :: []) := by
  cases k <;> rfl

/-- `F51x4Reduced::shuffle(Shuffle::CACA)`: `(A,B,C,D) ↦ (C,A,C,A)` -/
theorem reduced_shuffle_CACA_correct (k : Lane) (x0 x1 x2 x3 x4 x5 x6 x7 x8 x9 x10 x11 x12 x13 x14 x15 x16 x17 x18 x19 : Int) :
    lane51 k (reduced_shuffle_CACA_fn x0 x1 x2 x3 x4 x5 x6 x7 x8 x9 x10 x11 x12 x13 x14 x15 x16 x17 x18 x19) = lane51 (k.sel .C .A .C .A) (x0 :: x1 :: x2 :: x3 :: x4 :: x5 :: x6 :: x7 :: x8 :: x9 :: x10 :: x11 :: x12 :: x13 :: x14 :: x15 :: x16 :: x17 :: x18 :: x19 :: []) := by
  cases k <;> rfl

/-- `F51x4Reduced::blend(y, Lanes::D)`: elements D from `y`, the others from `x` -/
theorem reduced_blend_D_correct (k : Lane) (x0 x1 x2 x3 x4 x5 x6 x7 x8 x9 x10 x11 x12 x13 x14 x15 x16 x17 x18 x19 y0 y1 y2 y3 y4 y5 y6 y7 y8 y9 y10 y11 y12 y13 y14 y15 y16 y17 y18 y19 : Int) :
    lane51 k (reduced_blend_D_fn x0 x1 x2 x3 x4 x5 x6 x7 x8 x9 x10 x11 x12 x13 x14 x15 x16 x17 x18 x19 y0 y1 y2 y3 y4 y5 y6 y7 y8 y9 y10 y11 y12 y13 y14 y15 y16 y17 y18 y19) = k.sel (lane51 .A (x0 :: x1 :: x2 :: x3 :: x4 :: x5 :: x6 :: x7 :: x8 :: x9 :: x10 :: x11 :: x12 :: x13 :: x14 :: x15 :: x16 :: x17 :: x18 :: x19 :: [])) (lane51 .B (x0 :: x1 :: x2 :: x3 :: x4 :: x5 :: x6 :: x7 :: x8 :: x9 :: x10 :: x11 :: x12 :: x13 :: x14 :: x15 :: x16 :: x17 :: x18 :: x19 :: [])) (lane51 .C (x0 :: x1 :: x2 :: x3 :: x4 :: x5 :: x6 :: x7 :: x8 :: x9 :: x10 :: x11 :: x12 :: x13 :: x14 :: x15 :: x16 :: x17 :: x18 :: x19 :: [])) (lane51 .D (y0 :: y1 :: y2 :: y3 :: y4 :: y5 :: y6 :: y7 :: y8 :: y9 :: y10 :: y11 :: y12 :: y13 :: y14 :: y15 :: y16 :: y17 :: y18 :: y19 :: [])) := by
  cases k <;> rfl

/-- `F51x4Reduced::blend(y, Lanes::C)`: elements C from `y`, the others from `x` -/
theorem reduced_blend_C_correct (k : Lane) (x0 x1 x2 x3 x4 x5 x6 x7 x8 x9 x10 x11 x12 x13 x14 x15 x16 x17 x18 x19 y0 y1 y2 y3 y4 y5 y6 y7 y8 y9 y10 y11 y12 y13 y14 y15 y16 y17 y18 y19 : Int) :
    lane51 k (reduced_blend_C_fn x0 x1 x2 x3 x4 x5 x6 x7 x8 x9 x10 x11 x12 x13 x14 x15 x16 x17 x18 x19 y0 y1 y2 y3 y4 y5 y6 y7 y8 y9 y10 y11 y12 y13 y14 y15 y16 y17 y18 y19) = k.sel (lane51 .A (x0 :: x1 :: x2 :: x3 :: x4 :: x5 :: x6 :: x7 :: x8 :: x9 :: x10 :: x11 :: x12 :: x13 :: x14 :: x15 :: x16 :: x17 :: x18 :: x19 :: [])) (lane51 .B (x0 :: x1 :: x2 :: x3 :: x4 :: x5 :: x6 :: x7 :: x8 :: x9 :: x10 :: x11 :: x12 :: x13 :: x14 :: x15 :: x16 :: x17 :: x18 :: x19 :: [])) (lane51 .C (y0 :: y1 :: y2 :: y3 :: y4 :: y5 :: y6 :: y7 :: y8 :: y9 :: y10 :: y11 :: y12 :: y13 :: y14 :: y15 :: y16 :: y17 :: y18 :: y19 :: [])) (lane51 .D (x0 :: x1 :: x2 :: x3 :: x4 :: x5 :: x6 :: x7 :: x8 :: x9 :: x10 :: x11 :: x12 :: x13 :: x14 :: x15 :: x16 :: x17 :: x18 :: x19 :: [])) := by
  cases k <;> rfl

/-- `F51x4Reduced::blend(y, Lanes::AB)`: elements A,B from `y`, the others from `x` -/
theorem reduced_blend_AB_correct (k : Lane) (x0 x1 x2 x3 x4 x5 x6 x7 x8 x9 x10 x11 x12 x13 x14 x15 x16 x17 x18 x19 y0 y1 y2 y3 y4 y5 y6 y7 y8 y9 y10 y11 y12 y13 y14 y15 y16 y17 y18 y19 : Int) :
    lane51 k (reduced_blend_AB_fn x0 x1 x2 x3 x4 x5 x6 x7 x8 x9 x10 x11 x12 x13 x14 x15 x16 x17 x18 x19 y0 y1 y2 y3 y4 y5 y6 y7 y8 y9 y10 y11 y12 y13 y14 y15 y16 y17 y18 y19) = k.sel (lane51 .A (y0 :: y1 :: y2 :: y3 :: y4 :: y5 :: y6 :: y7 :: y8 :: y9 :: y10 :: y11 :: y12 :: y13 :: y14 :: y15 :: y16 :: y17 :: y18 :: y19 :: [])) (lane51 .B (y0 :: y1 :: y2 :: y3 :: y4 :: y5 :: y6 :: y7 :: y8 :: y9 :: y10 :: y11 :: y12 :: y13 :: y14 :: y15 :: y16 :: y17 :: y18 :: y19 :: [])) (lane51 .C (x0 :: x1 :: x2 :: x3 :: x4 :: x5 :: x6 :: x7 :: x8 :: x9 :: x10 :: x11 :: x12 :: x13 :: x14 :: x15 :: x16 :: x17 :: x18 :: x19 :: [])) (lane51 .D (x0 :: x1 :: x2 :: x3 :: x4 :: x5 :: x6 :: x7 :: x8 :: x9 :: x10 :: x11 :: x12 :: x13 :: x14 :: x15 :: x16 :: x17 :: x18 :: x19 :: [])) := by
  cases k <;> rfl

/-- `F51x4Reduced::blend(y, Lanes::AC)`: elements A,C from `y`, the others from `x` -/
theorem reduced_blend_AC_correct (k : Lane) (x0 x1 x2 x3 x4 x5 x6 x7 x8 x9 x10 x11 x12 x13 x14 x15 x16 x17 x18 x19 y0 y1 y2 y3 y4 y5 y6 y7 y8 y9 y10 y11 y12 y13 y14 y15 y16 y17 y18 y19 : Int) :
    lane51 k (reduced_blend_AC_fn x0 x1 x2 x3 x4 x5 x6 x7 x8 x9 x10 x11 x12 x13 x14 x15 x16 x17 x18 x19 y0 y1 y2 y3 y4 y5 y6 y7 y8 y9 y10 y11 y12 y13 y14 y15 y16 y17 y18 y19) = k.sel (lane51 .A (y0 :: y1 :: y2 :: y3 :: y4 :: y5 :: y6 :: y7 :: y8 :: y9 :: y10 :: y11 :: y12 :: y13 :: y14 :: y15 :: y16 :: y17 :: y18 :: y19 :: [])) (lane51 .B (x0 :: x1 :: x2 :: x3 :: x4 :: x5 :: x6 :: x7 :: x8 :: x9 :: x10 :: x11 :: x12 :: x13 :: x14 :: x15 :: x16 :: x17 :: x18 :: x19 :: [])) (lane51 .C (y0 :: y1 :: y2 :: y3 :: y4 :: y5 :: y6 :: y7 :: y8 :: y9 :: y10 :: y11 :: y12 :: y13 :: y14 :: y15 :: y16 :: y17 :: y18 :: y19 :: [])) (lane51 .D (x0 :: x1 :: x2 :: x3 :: x4 :: x5 :: x6 :: x7 :: x8 :: x9 :: x10 :: x11 :: x12 :: x13 :: x14 :: x15 :: x16 :: x17 :: x18 :: x19 :: [])) := by
  cases k <;> rfl

/-- `F51x4Reduced::blend(y, Lanes::AD)`: elements A,D from `y`, the others from `x` -/
theorem reduced_blend_AD_correct (k : Lane) (x0 x1 x2 x3 x4 x5 x6 x7 x8 x9 x10 x11 x12 x13 x14 x15 x16 x17 x18 x19 y0 y1 y2 y3 y4 y5 y6 y7 y8 y9 y10 y11 y12 y13 y14 y15 y16 y17 y18 y19 : Int) :
    lane51 k (reduced_blend_AD_fn x0 x1 x2 x3 x4 x5 x6 x7 x8 x9 x10 x11 x12 x13 x14 x15 x16 x17 x18 x19 y0 y1 y2 y3 y4 y5 y6 y7 y8 y9 y10 y11 y12 y13 y14 y15 y16 y17 y18 y19) = k.sel (lane51 .A (y0 :: y1 :: y2 :: y3 :: y4 :: y5 :: y6 :: y7 :: y8 :: y9 :: y10 :: y11 :: y12 :: y13 :: y14 :: y15 :: y16 :: y17 :: y18 :: y19 :: [])) (lane51 .B (x0 :: x1 :: x2 :: x3 :: x4 :: x5 :: x6 :: x7 :: x8 :: x9 :: x10 :: x11 :: x12 :: x13 :: x14 :: x15 :: x16 :: x17 :: x18 :: x19 :: [])) (lane51 .C (x0 :: x1 :: x2 :: x3 :: x4 :: x5 :: x6 :: x7 :: x8 :: x9 :: x10 :: x11 :: x12 :: x13 :: x14 :: x15 :: x16 :: x17 :: x18 :: x19 :: [])) (lane51 .D (y0 :: y1 :: y2 :: y3 :: y4 :: y5 :: y6 :: y7 :: y8 :: y9 :: y10 :: y11 :: y12 :: y13 :: y14 :: y15 :: y16 :: y17 :: y18 :: y19 :: [])) := by
  cases k <;> rfl

/-- `F51x4Reduced::blend(y, Lanes::BCD)`: elements B,C,D from `y`, the others from `x` -/
theorem reduced_blend_BCD_correct (k : Lane) (x0 x1 x2 x3 x4 x5 x6 x7 x8 x9 x10 x11 x12 x13 x14 x15 x16 x17 x18 x19 y0 y1 y2 y3 y4 y5 y6 y7 y8 y9 y10 y11 y12 y13 y14 y15 y16 y17 y18 y19 : Int) :
    lane51 k (reduced_blend_BCD_fn x0 x1 x2 x3 x4 x5 x6 x7 x8 x9 x10 x11 x12 x13 x14 x15 x16 x17 x18 x19 y0 y1 y2 y3 y4 y5 y6 y7 y8 y9 y10 y11 y12 y13 y14 y15 y16 y17 y18 y19) = k.sel (lane51 .A (x0 :: x1 :: x2 :: x3 :: x4 :: x5 :: x6 :: x7 :: x8 :: x9 :: x10 :: x11 :: x12 :: x13 :: x14 :: x15 :: x16 :: x17 :: x18 :: x19 :: [])) (lane51 .B (y0 :: y1 :: y2 :: y3 :: y4 :: y5 :: y6 :: y7 :: y8 :: y9 :: y10 :: y11 :: y12 :: y13 :: y14 :: y15 :: y16 :: y17 :: y18 :: y19 :: [])) (lane51 .C (y0 :: y1 :: y2 :: y3 :: y4 :: y5 :: y6 :: y7 :: y8 :: y9 :: y10 :: y11 :: y12 :: y13 :: y14 :: y15 :: y16 :: y17 :: y18 :: y19 :: [])) (lane51 .D (y0 :: y1 :: y2 :: y3 :: y4 :: y5 :: y6 :: y7 :: y8 :: y9 :: y10 :: y11 :: y12 :: y13 :: y14 :: y15 :: y16 :: y17 :: y18 :: y19 :: [])) := by
  cases k <;> rfl


end Dalek.Proofs.IfmaField

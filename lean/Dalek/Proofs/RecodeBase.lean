import Dalek.Model.Recode
import Dalek.Spec.Field
import Mathlib.Tactic.Ring
import Mathlib.Tactic.Linarith
import Mathlib.Tactic.NormNum
import Mathlib.Algebra.BigOperators.Group.Finset.Basic
import Mathlib.Algebra.BigOperators.Ring.Finset
/-!
# Helpers for the recoding proofs (C04, layer 1)

* `digitSum B ds` — Horner value of a little-endian digit list, its `Finset.sum` form and its
  behaviour under `List.set`;
* `leToNat` facts: bytes, nibbles and `u64` words of a little-endian byte string as div/mod of its value;
* the window lemma `window_eq`: the `u64` double-word window read of `non_adjacent_form` /
  `as_radix_2w`, masked to `w` bits, is `(s / 2^pos) % 2^w`.
-/
namespace Dalek.Proofs.Recode
open Dalek.Model.Recode Dalek.Spec

/-! ### digit sums -/

/-- Horner value `d₀ + B·(d₁ + B·(…))` of a little-endian digit list. -/
def digitSum (B : Int) : List Int → Int
  | [] => 0
  | d :: ds => d + B * digitSum B ds

theorem digitSum_eq_sum (B : Int) (ds : List Int) :
    digitSum B ds = ∑ i ∈ Finset.range ds.length, ds.getD i 0 * B ^ i := by
  induction ds with
  | nil => simp [digitSum]
  | cons d ds ih =>
    rw [List.length_cons, Finset.sum_range_succ', digitSum, ih, Finset.mul_sum]
    simp only [List.getD_cons_succ, List.getD_cons_zero, pow_zero, mul_one, pow_succ]
    rw [add_comm]
    congr 1
    apply Finset.sum_congr rfl
    intro i _
    ring

theorem digitSum_append (B : Int) (l r : List Int) :
    digitSum B (l ++ r) = digitSum B l + B ^ l.length * digitSum B r := by
  induction l with
  | nil => simp [digitSum]
  | cons d ds ih =>
    simp only [List.cons_append, digitSum, ih, List.length_cons, pow_succ]
    ring

theorem digitSum_replicate_zero (B : Int) (n : Nat) : digitSum B (List.replicate n 0) = 0 := by
  induction n with
  | zero => rfl
  | succ n ih => simp [List.replicate_succ, digitSum, ih]

theorem digitSum_set (B : Int) (l : List Int) (i : Nat) (d : Int) (hi : i < l.length) :
    digitSum B (l.set i d) = digitSum B l + (d - l.getD i 0) * B ^ i := by
  induction l generalizing i with
  | nil => simp at hi
  | cons x xs ih =>
    cases i with
    | zero => simp [digitSum]; ring
    | succ i =>
      simp only [List.length_cons, Nat.add_lt_add_iff_right] at hi
      simp only [List.set_cons_succ, digitSum, ih i hi, List.getD_cons_succ, pow_succ]
      ring

theorem getD_set (l : List Int) (i j : Nat) (d : Int) (hi : i < l.length) :
    (l.set i d).getD j 0 = if j = i then d else l.getD j 0 := by
  simp only [List.getD_eq_getElem?_getD, List.getElem?_set]
  by_cases h : i = j
  · subst h; simp [hi]
  · simp [h, Ne.symm h]

/-! ### `toI8` -/

theorem toI8_id {x : Int} (h1 : -128 ≤ x) (h2 : x < 128) : toI8 x = x := by
  unfold toI8; omega

/-! ### little-endian byte strings -/

theorem leToNat_lt (bs : List UInt8) : leToNat bs < 256 ^ bs.length := by
  induction bs with
  | nil => simp [leToNat]
  | cons b bs ih =>
    have hb : b.toNat < 256 := b.toNat_lt
    simp only [leToNat, List.length_cons, pow_succ]
    omega

theorem leWord_eq (bs : List UInt8) : leWord bs = leToNat bs := by
  induction bs with
  | nil => rfl
  | cons b bs ih => simp [leWord, leToNat, ih]

theorem leToNat_take (bs : List UInt8) (k : Nat) : leToNat (bs.take k) = leToNat bs % 256 ^ k := by
  induction bs generalizing k with
  | nil => simp [leToNat]
  | cons b bs ih =>
    cases k with
    | zero => simp [leToNat, Nat.mod_one]
    | succ k =>
      have hb : b.toNat < 256 := b.toNat_lt
      simp only [List.take_succ_cons, leToNat, ih k]
      rw [pow_succ, Nat.mul_comm (256 ^ k) 256, Nat.mod_mul]
      have h1 : (b.toNat + 256 * leToNat bs) % 256 = b.toNat := by omega
      have h2 : (b.toNat + 256 * leToNat bs) / 256 = leToNat bs := by omega
      rw [h1, h2]

theorem leToNat_drop (bs : List UInt8) (k : Nat) : leToNat (bs.drop k) = leToNat bs / 256 ^ k := by
  induction bs generalizing k with
  | nil => simp [leToNat]
  | cons b bs ih =>
    cases k with
    | zero => simp
    | succ k =>
      have hb : b.toNat < 256 := b.toNat_lt
      simp only [List.drop_succ_cons, leToNat, ih k]
      rw [pow_succ, Nat.mul_comm (256 ^ k) 256, ← Nat.div_div_eq_div_mul]
      have h2 : (b.toNat + 256 * leToNat bs) / 256 = leToNat bs := by omega
      rw [h2]

theorem byte_getD (bs : List UInt8) (i : Nat) :
    (bs.getD i 0).toNat = leToNat bs / 256 ^ i % 256 := by
  induction bs generalizing i with
  | nil => simp [leToNat]
  | cons b bs ih =>
    have hb : b.toNat < 256 := b.toNat_lt
    cases i with
    | zero => simp [leToNat]
    | succ i =>
      simp only [List.getD_cons_succ, ih i, leToNat]
      rw [pow_succ, Nat.mul_comm (256 ^ i) 256, ← Nat.div_div_eq_div_mul]
      have h2 : (b.toNat + 256 * leToNat bs) / 256 = leToNat bs := by omega
      rw [h2]

/-- `read_le_u64_into`: word `k` of the first `n` words is `s / 2^(64k) % 2^64`. -/
theorem readLeU64_getD (n : Nat) (bs : List UInt8) (k : Nat) :
    (readLeU64 n bs).getD k 0 = if k < n then leToNat bs / 2 ^ (64 * k) % 2 ^ 64 else 0 := by
  induction n generalizing bs k with
  | zero => simp [readLeU64]
  | succ n ih =>
    cases k with
    | zero =>
      simp only [readLeU64, List.getD_cons_zero, leWord_eq, leToNat_take]
      norm_num
    | succ k =>
      simp only [readLeU64, List.getD_cons_succ, ih, leToNat_drop, Nat.add_lt_add_iff_right]
      split
      · rw [Nat.div_div_eq_div_mul]
        have : 256 ^ 8 * 2 ^ (64 * k) = 2 ^ (64 * (k + 1)) := by
          rw [show (256 : Nat) ^ 8 = 2 ^ 64 by norm_num, ← pow_add]; congr 1; ring
        rw [this]
      · rfl

/-- The word list `X` holds the 64-bit words of `s` (at every index; beyond the list: zeros). -/
def WordsOf (X : List Nat) (s : Nat) : Prop := ∀ k, X.getD k 0 = s / 2 ^ (64 * k) % 2 ^ 64

theorem div_pow_eq_zero_of_lt {s a b : Nat} (hs : s < 2 ^ a) (hab : a ≤ b) : s / 2 ^ b = 0 :=
  Nat.div_eq_of_lt (lt_of_lt_of_le hs (Nat.pow_le_pow_right (by norm_num) hab))

theorem wordsOf_read4 (bs : List UInt8) (h : bs.length = 32) :
    WordsOf (readLeU64 4 bs) (leToNat bs) := by
  intro k
  rw [readLeU64_getD]
  split
  · rfl
  · have hs : leToNat bs < 2 ^ 256 := by
      have := leToNat_lt bs; rw [h] at this; norm_num at this ⊢; exact this
    rw [div_pow_eq_zero_of_lt hs (by omega)]; rfl

theorem wordsOf_read4_zero (bs : List UInt8) (h : bs.length = 32) :
    WordsOf (readLeU64 4 bs ++ [0]) (leToNat bs) := by
  intro k
  have h4 : (readLeU64 4 bs).length = 4 := by simp [readLeU64]
  have := wordsOf_read4 bs h k
  rw [← this]
  simp only [List.getD_eq_getElem?_getD]
  by_cases hk : k < 4
  · rw [List.getElem?_append_left (by omega)]
  · rw [List.getElem?_append_right (by omega), List.getElem?_eq_none (l := readLeU64 4 bs) (by omega)]
    rw [h4]
    rcases Nat.lt_or_ge (k - 4) 1 with h1 | h1
    · have : k - 4 = 0 := by omega
      simp [this]
    · rw [List.getElem?_eq_none (by simpa using h1)]

/-! ### the window lemma -/

theorem testBit_word (s k j : Nat) :
    (s / 2 ^ (64 * k) % 2 ^ 64).testBit j = (decide (j < 64) && s.testBit (64 * k + j)) := by
  rw [Nat.testBit_mod_two_pow, Nat.testBit_div_two_pow, Nat.add_comm]

/-- The (single- or double-word) window read at bit position `pos`, masked to `w` bits, is
`(s / 2^pos) % 2^w`.  A single-word read is exact when the window does not cross the word, or when
there is nothing above the word. -/
theorem window_eq (X : List Nat) (s pos w : Nat) (single : Bool) (hX : WordsOf X s) (hw : w ≤ 64)
    (hs : single = true → pos % 64 + w ≤ 64 ∨ s < 2 ^ (64 * (pos / 64 + 1))) :
    bitBuf X (pos / 64) (pos % 64) single &&& (1 <<< w - 1) = s / 2 ^ pos % 2 ^ w := by
  have hpos : 64 * (pos / 64) + pos % 64 = pos := Nat.div_add_mod pos 64
  have hlt : pos % 64 < 64 := Nat.mod_lt _ (by norm_num)
  apply Nat.eq_of_testBit_eq
  intro j
  rw [Nat.one_shiftLeft, Nat.testBit_and, Nat.testBit_two_pow_sub_one, Nat.testBit_mod_two_pow,
    Nat.testBit_div_two_pow, Bool.and_comm]
  by_cases hj : j < w
  swap
  · simp [hj]
  simp only [hj, decide_true, Bool.true_and]
  unfold bitBuf
  cases single with
  | true =>
    simp only [if_true]
    rw [Nat.testBit_shiftRight, hX, testBit_word]
    rcases hs rfl with h | h
    · have : pos % 64 + j < 64 := by omega
      simp only [this, decide_true, Bool.true_and]
      congr 1; omega
    · by_cases h64 : pos % 64 + j < 64
      · simp only [h64, decide_true, Bool.true_and]
        congr 1; omega
      · simp only [h64, decide_false, Bool.false_and]
        symm
        apply Nat.testBit_lt_two_pow
        exact lt_of_lt_of_le h (Nat.pow_le_pow_right (by norm_num) (by omega))
  | false =>
    simp only [Bool.false_eq_true, if_false]
    rw [Nat.testBit_or, Nat.testBit_shiftRight, hX, testBit_word, U64, Nat.testBit_mod_two_pow,
      Nat.testBit_shiftLeft, hX, testBit_word]
    by_cases h64 : pos % 64 + j < 64
    · have h2 : ¬ (j ≥ 64 - pos % 64) := by omega
      simp only [h64, decide_true, Bool.true_and, h2, decide_false, Bool.false_and, Bool.and_false,
        Bool.or_false]
      congr 1; omega
    · have h2 : j ≥ 64 - pos % 64 := by omega
      have h3 : j < 64 := by omega
      have h4 : j - (64 - pos % 64) < 64 := by omega
      simp only [h64, decide_false, Bool.false_and, Bool.false_or, h2, h3, h4, decide_true,
        Bool.true_and]
      congr 1; omega

/-- window decomposition: `s / 2^pos = (s / 2^pos) % 2^w + 2^w * (s / 2^(pos+w))` -/
theorem div_split (s pos w : Nat) :
    s / 2 ^ pos = s / 2 ^ pos % 2 ^ w + 2 ^ w * (s / 2 ^ (pos + w)) := by
  rw [pow_add, ← Nat.div_div_eq_div_mul, Nat.add_comm]
  exact (Nat.div_add_mod _ _).symm

end Dalek.Proofs.Recode

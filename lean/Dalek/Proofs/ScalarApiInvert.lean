import Dalek.Proofs.ScalarApiAlgebra
/-!
# `Scalar` API glue, part 3: the addition chain of `montgomery_invert`, `invert`, `batch_invert`

* `invertChain_rel`: the chain (written once, generically, in `Dalek.Model.ScalarApi.invertChain`) preserves any
  relation preserved by its two operations — an abstract interpretation proved once;
* `invertChain_exponent`: run on exponents (`square ↦ 2·e`, `mul ↦ e₁+e₂`, start `1`) the chain yields `l - 2`
  (kernel evaluation);
* hence on limbs in Montgomery form it maps a representative of `u·Rm` to one of `u^(l-2)·Rm = u⁻¹·Rm`;
* the two passes of `batch_invert` by induction on the list.
-/
set_option exponentiation.threshold 600

namespace Dalek.Proofs.ScalarApi
open Dalek.IR Dalek.Proofs.Scalar52 Dalek.Model.Contracts Dalek.Gen.Consts Dalek.Model.ScalarApi
open Dalek.Model.FieldBytes (leVal natToLeN)
open Dalek.Props.C02.Scalar52

/-! ## the chain -/

section rel
variable {α β : Type} (Rel : α → β → Prop) {sq : α → α} {mm : α → α → α} {sq' : β → β} {mm' : β → β → β}

theorem repeat_rel (hsq : ∀ a b, Rel a b → Rel (sq a) (sq' b)) :
    ∀ (n : Nat) (a : α) (b : β), Rel a b → Rel (Nat.repeat sq n a) (Nat.repeat sq' n b)
  | 0, _, _, h => h
  | n + 1, a, b, h => hsq _ _ (repeat_rel hsq n a b h)

theorem squareMultiply_rel (hsq : ∀ a b, Rel a b → Rel (sq a) (sq' b))
    (hmm : ∀ a b c d, Rel a b → Rel c d → Rel (mm a c) (mm' b d))
    (y : α) (y' : β) (n : Nat) (x : α) (x' : β) (hy : Rel y y') (hx : Rel x x') :
    Rel (squareMultiply sq mm y n x) (squareMultiply sq' mm' y' n x') :=
  hmm _ _ _ _ (repeat_rel Rel hsq n y y' hy) hx

/-- abstract interpretation of the addition chain: any relation preserved by `montgomery_square` and
`montgomery_mul` is preserved by the whole chain -/
theorem invertChain_rel (hsq : ∀ a b, Rel a b → Rel (sq a) (sq' b))
    (hmm : ∀ a b c d, Rel a b → Rel c d → Rel (mm a c) (mm' b d))
    (x : α) (x' : β) (h : Rel x x') : Rel (invertChain sq mm x) (invertChain sq' mm' x') := by
  have hsm := squareMultiply_rel Rel hsq hmm
  simp only [invertChain]
  repeat (first | exact h | apply hsm | apply hsq | apply hmm)

end rel

/-- the exponent computed by the chain is `l - 2` -/
theorem invertChain_exponent : invertChain (fun e : Nat => 2 * e) (fun a b : Nat => a + b) 1 = l - 2 := by
  decide +kernel

/-- `montgomery_invert` on a Montgomery representative of `u`: a Montgomery representative of `u^(l-2) = u⁻¹` -/
theorem montgomeryInvert_isLm {a : List Nat} {u : F} (ha : IsLm a (u * Rm)) :
    IsLm (montgomeryInvert a) (u⁻¹ * Rm) := by
  have key := invertChain_rel (fun (a : List Nat) (e : Nat) => IsLm a (u ^ e * Rm))
    (sq := montgomerySquare52) (mm := montgomeryMul52) (sq' := fun e => 2 * e) (mm' := fun a b => a + b)
    (by
      intro a e h
      have := h.montgomerySquare
      have e2 : u ^ e * Rm * (u ^ e * Rm) * Rm⁻¹ = u ^ (2 * e) * Rm := by
        have := Rm_ne_zero
        rw [two_mul, pow_add]; field_simp
      rwa [e2] at this)
    (by
      intro a e c f h1 h2
      have := h1.montgomeryMul h2
      have e2 : u ^ e * Rm * (u ^ f * Rm) * Rm⁻¹ = u ^ (e + f) * Rm := by
        have := Rm_ne_zero
        rw [pow_add]; field_simp
      rwa [e2] at this)
    a 1 (by simpa using ha)
  rw [invertChain_exponent, pow_l_sub_two] at key
  exact key

/-- `Scalar::invert` is the field inverse (total: `invert 0 = 0`) -/
theorem invert_isSc {b : List Nat} {u : F} (hb : IsSc b u) : IsSc (invert b) u⁻¹ := by
  have h := (montgomeryInvert_isLm hb.toLimbs.asMontgomery).fromMontgomery
  rw [mul_assoc, mul_inv_cancel₀ Rm_ne_zero, mul_one] at h
  exact h.toBytes

/-! ## `batch_invert` -/

/-- post-condition of the first pass on the list of `(input, scratch)` pairs: with `q` the product of the inputs
before the current position, `input` holds the Montgomery form of `x` and `scratch` the Montgomery form of `q` -/
def Pass1Post : List (List Nat × List Nat) → List F → F → Prop
  | [], [], _ => True
  | (i, s) :: ps, x :: xs, q => IsSc i (x * Rm) ∧ IsLm s (q * Rm) ∧ Pass1Post ps xs (q * x)
  | _, _, _ => False

theorem pass1_spec : ∀ {ps : List (List Nat × List Nat)} {xs : List F} (acc : List Nat) (q : F),
    List.Forall₂ (fun p x => IsSc p.1 x) ps xs → IsLm acc (q * Rm) →
    Pass1Post (batchPass1 ps acc).1 xs q ∧ IsLm (batchPass1 ps acc).2 (q * xs.prod * Rm)
  | _, _, acc, q, .nil, ha => by
      simp only [batchPass1, Pass1Post, List.prod_nil, mul_one, true_and]; exact ha
  | (i, s) :: ps, x :: xs, acc, q, .cons hi hps, ha => by
      have htmp := hi.toLimbs.asMontgomery
      have hacc : IsLm (montgomeryMul52 acc (asMontgomery52 (unpack i))) (q * x * Rm) := by
        have := ha.montgomeryMul htmp
        have e : q * Rm * (x * Rm) * Rm⁻¹ = q * x * Rm := by
          have := Rm_ne_zero
          field_simp
        rwa [e] at this
      obtain ⟨h1, h2⟩ := pass1_spec (montgomeryMul52 acc (asMontgomery52 (unpack i))) (q * x) hps hacc
      simp only [batchPass1, Pass1Post, List.prod_cons]
      refine ⟨⟨htmp.toBytes, ha, h1⟩, ?_⟩
      rw [← mul_assoc]
      exact h2

theorem pass2_spec : ∀ {ps : List (List Nat × List Nat)} {xs : List F} (acc : List Nat) (q : F),
    Pass1Post ps xs q → q ≠ 0 → (∀ x ∈ xs, x ≠ 0) → IsLm acc (q * xs.prod)⁻¹ →
    List.Forall₂ (fun o x => IsSc o x⁻¹) (batchPass2 ps acc).1 xs ∧ IsLm (batchPass2 ps acc).2 q⁻¹
  | [], [], acc, q, _, _, _, ha => by
      simp only [batchPass2, List.prod_nil, mul_one] at ha ⊢
      exact ⟨.nil, ha⟩
  | [], _ :: _, _, _, h, _, _, _ => by simp [Pass1Post] at h
  | _ :: _, [], _, _, h, _, _, _ => by simp [Pass1Post] at h
  | (i, s) :: ps, x :: xs, acc, q, h, hq, hx, ha => by
      simp only [Pass1Post] at h
      obtain ⟨hi, hs, hps⟩ := h
      have hx0 : x ≠ 0 := hx x (by simp)
      have ha' : IsLm acc (q * x * xs.prod)⁻¹ := by
        rw [List.prod_cons, ← mul_assoc] at ha; exact ha
      obtain ⟨h1, h2⟩ := pass2_spec acc (q * x) hps (mul_ne_zero hq hx0)
        (fun y hy => hx y (by simp [hy])) ha'
      simp only [batchPass2]
      refine ⟨.cons ?_ h1, ?_⟩
      · have := (h2.montgomeryMul hs).toBytes
        have e : (q * x)⁻¹ * (q * Rm) * Rm⁻¹ = x⁻¹ := by
          have := Rm_ne_zero
          field_simp
        rwa [e] at this
      · have := h2.montgomeryMul hi.toLimbs
        have e : (q * x)⁻¹ * (x * Rm) * Rm⁻¹ = q⁻¹ := by
          have := Rm_ne_zero
          field_simp
        rwa [e] at this

theorem forall2_zip_replicate {c : List Nat} : ∀ {bs : List (List Nat)} {xs : List F},
    List.Forall₂ IsSc bs xs →
    List.Forall₂ (fun (p : List Nat × List Nat) x => IsSc p.1 x) (bs.zip (List.replicate bs.length c)) xs
  | _, _, .nil => .nil
  | _, _, .cons h hs => by
      simp only [List.length_cons, List.replicate_succ, List.zip_cons_cons]
      exact .cons h (forall2_zip_replicate hs)

/-- the Montgomery form of one, the initial `acc` -/
theorem one_mont_isLm : IsLm (asMontgomery52 (unpack ScalarRs.ONE)) (1 * Rm) := ONE_isSc.toLimbs.asMontgomery

/-- the value tested by `debug_assert!(acc.pack() != Scalar::ZERO)` represents the Montgomery form of the product -/
theorem batchInvert_acc {bs : List (List Nat)} {xs : List F} (h : List.Forall₂ IsSc bs xs) :
    IsSc (batchInvertAccPacked bs) (xs.prod * Rm) := by
  have := (pass1_spec _ 1 (forall2_zip_replicate (c := asMontgomery52 (unpack ScalarRs.ONE)) h)
    one_mont_isLm).2.toBytes
  rw [one_mul] at this
  exact this

/-- `batch_invert`: every input is replaced by its inverse; the inverse of the product is returned -/
theorem batchInvert_isSc {bs : List (List Nat)} {xs : List F} (h : List.Forall₂ IsSc bs xs)
    (hx : ∀ x ∈ xs, x ≠ 0) :
    List.Forall₂ (fun o x => IsSc o x⁻¹) (batchInvert bs).1 xs ∧ IsSc (batchInvert bs).2 xs.prod⁻¹ := by
  obtain ⟨h1, h2⟩ := pass1_spec _ 1 (forall2_zip_replicate (c := asMontgomery52 (unpack ScalarRs.ONE)) h)
    one_mont_isLm
  have hacc := (montgomeryInvert_isLm h2).fromMontgomery
  rw [mul_assoc, mul_inv_cancel₀ Rm_ne_zero, mul_one] at hacc
  obtain ⟨h3, -⟩ := pass2_spec _ 1 h1 one_ne_zero hx hacc
  refine ⟨h3, ?_⟩
  have := hacc.toBytes
  rw [one_mul] at this
  exact this

/-- without the non-zero hypothesis the second pass still produces canonical scalars -/
theorem pass2_canonical : ∀ {ps : List (List Nat × List Nat)} {xs : List F} (acc : List Nat) (q : F),
    Pass1Post ps xs q → (∃ v, IsLm acc v) →
    (∀ o ∈ (batchPass2 ps acc).1, Canonical o) ∧ ∃ v, IsLm (batchPass2 ps acc).2 v
  | [], [], acc, q, _, ha => by
      simp only [batchPass2]
      exact ⟨by simp, ha⟩
  | [], _ :: _, _, _, h, _ => by simp [Pass1Post] at h
  | _ :: _, [], _, _, h, _ => by simp [Pass1Post] at h
  | (i, s) :: ps, x :: xs, acc, q, h, ha => by
      simp only [Pass1Post] at h
      obtain ⟨hi, hs, hps⟩ := h
      obtain ⟨h1, v, h2⟩ := pass2_canonical acc (q * x) hps ha
      simp only [batchPass2]
      refine ⟨?_, _, h2.montgomeryMul hi.toLimbs⟩
      intro o ho
      rcases List.mem_cons.1 ho with rfl | ho
      · exact (h2.montgomeryMul hs).toBytes.canonical
      · exact h1 o ho

/-- `batch_invert` returns canonical scalars for ALL canonical inputs (zero included) -/
theorem batchInvert_canonical {bs : List (List Nat)} {xs : List F} (h : List.Forall₂ IsSc bs xs) :
    (∀ o ∈ (batchInvert bs).1, Canonical o) ∧ Canonical (batchInvert bs).2 := by
  obtain ⟨h1, h2⟩ := pass1_spec _ 1 (forall2_zip_replicate (c := asMontgomery52 (unpack ScalarRs.ONE)) h)
    one_mont_isLm
  have hacc := (montgomeryInvert_isLm h2).fromMontgomery
  exact ⟨(pass2_canonical _ 1 h1 ⟨_, hacc⟩).1, hacc.toBytes.canonical⟩

end Dalek.Proofs.ScalarApi

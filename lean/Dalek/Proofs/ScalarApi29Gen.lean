import Dalek.Proofs.ScalarApiInvert
import Dalek.Model.ScalarKernels
/-!
# `Scalar` API glue over an abstract backend, part 1: the kernels as operations of the field `ZMod l`

`KernelsOk K`: the list-level value theorems of a backend `K : ScalarKernels` (limb contract `limbs`, value
function `val`, Montgomery radix `2^rexp`), i.e. exactly the statements of `Dalek/Proofs/ScalarApiKernels.lean`
with the backend abstracted.  Everything in `Dalek/Proofs/ScalarApiAlgebra.lean` that mentions a kernel is redone
here for any `K` with `KernelsOk K`; `Canonical`, `IsSc`, `F` and the backend-independent facts are REUSED from
`Dalek.Proofs.ScalarApi`.  Instances: `Dalek/Proofs/ScalarApi29Kernels.lean` (`ok29`, `ok52`).
Helper lemmas for `Dalek/Props/C02/Api29.lean`.
-/
set_option exponentiation.threshold 600

namespace Dalek.Proofs.ScalarApiGen
open Dalek.IR Dalek.Model.Contracts Dalek.Gen.Consts
open Dalek.Model (ScalarKernels)
open Dalek.Model.FieldBytes (leVal natToLeN)
open Dalek.Props.C02.Scalar52 (l)
open Dalek.Proofs.ScalarApi (F Canonical IsSc l_pos l_lt_pow two_ne_zero_l eq_mod_of_cast cast_of_mod_eq
  leVal_lt_256_32 ZERO_isSc ONE_isSc)

/-- the value theorems of a backend, on limb LISTS (`val`: radix value of a limb list; `limbs`: the limb contract;
`wide`: the contract of the `montgomery_reduce` input; `2^rexp`: the Montgomery radix) -/
structure KernelsOk (K : ScalarKernels) where
  val : List Nat → Nat
  limbs : List Itv
  wide : List Itv
  rexp : Nat
  rexp_ge : 256 ≤ rexp
  fromBytes_ok : ∀ {b : List Nat}, EnvIn b (bytes 32) →
    EnvIn (K.fromBytes b) limbs ∧ val (K.fromBytes b) = leVal b
  fromBytesWide_ok : ∀ {b : List Nat}, EnvIn b (bytes 64) →
    EnvIn (K.fromBytesWide b) limbs ∧ val (K.fromBytesWide b) = leVal b % l
  asBytes_ok : ∀ {a : List Nat}, EnvIn a limbs → val a < 2 ^ 256 →
    EnvIn (K.asBytes a) (bytes 32) ∧ leVal (K.asBytes a) = val a
  add_ok : ∀ {a b : List Nat}, EnvIn a limbs → EnvIn b limbs → val a < l → val b < l →
    EnvIn (K.addU a b) limbs ∧ val (K.addU a b) = (val a + val b) % l
  sub_ok : ∀ {a b : List Nat}, EnvIn a limbs → EnvIn b limbs → val a < l → val b < l →
    EnvIn (K.subU a b) limbs ∧ val (K.subU a b) = (val a + l - val b) % l
  mul_ok : ∀ {a b : List Nat}, EnvIn a limbs → EnvIn b limbs → val a < l → val b < l →
    EnvIn (K.mulU a b) limbs ∧ val (K.mulU a b) = val a * val b % l
  mulInternal_ok : ∀ {a b : List Nat}, EnvIn a limbs → EnvIn b limbs →
    EnvIn (K.mulInternal a b) wide ∧ val (K.mulInternal a b) = val a * val b
  montgomeryReduce_ok : ∀ {z : List Nat}, EnvIn z wide → val z < 2 ^ rexp * l →
    EnvIn (K.montgomeryReduce z) limbs ∧ val (K.montgomeryReduce z) < l ∧
      val (K.montgomeryReduce z) * 2 ^ rexp % l = val z % l
  montgomeryMul_ok : ∀ {a b : List Nat}, EnvIn a limbs → EnvIn b limbs → val a < l → val b < l →
    EnvIn (K.montgomeryMul a b) limbs ∧ val (K.montgomeryMul a b) < l ∧
      val (K.montgomeryMul a b) * 2 ^ rexp % l = val a * val b % l
  montgomerySquare_ok : ∀ {a : List Nat}, EnvIn a limbs → val a < l →
    EnvIn (K.montgomerySquare a) limbs ∧ val (K.montgomerySquare a) < l ∧
      val (K.montgomerySquare a) * 2 ^ rexp % l = val a * val a % l
  asMontgomery_ok : ∀ {a : List Nat}, EnvIn a limbs →
    EnvIn (K.asMontgomery a) limbs ∧ val (K.asMontgomery a) = val a * 2 ^ rexp % l
  fromMontgomery_ok : ∀ {a : List Nat}, EnvIn a limbs →
    EnvIn (K.fromMontgomery a) limbs ∧ val (K.fromMontgomery a) < l ∧
      val (K.fromMontgomery a) * 2 ^ rexp % l = val a % l
  R_limbs : EnvIn K.R limbs
  R_value : val K.R = 2 ^ rexp % l
  ZERO_limbs : EnvIn K.ZERO limbs
  ZERO_val : val K.ZERO = 0

variable {K : ScalarKernels}

/-- the Montgomery radix in `ZMod l` -/
def Rm (ok : KernelsOk K) : F := 2 ^ ok.rexp

/-- canonical limbs representing `v` -/
def IsLm (ok : KernelsOk K) (a : List Nat) (v : F) : Prop :=
  EnvIn a ok.limbs ∧ ok.val a < l ∧ ((ok.val a : Nat) : F) = v

theorem Rm_ne_zero (ok : KernelsOk K) : Rm ok ≠ 0 := pow_ne_zero _ two_ne_zero_l

theorem cast_powR (ok : KernelsOk K) : ((2 ^ ok.rexp : Nat) : F) = Rm ok := by
  rw [Rm, Nat.cast_pow, Nat.cast_ofNat]

theorem cast_R (ok : KernelsOk K) : ((ok.val K.R : Nat) : F) = Rm ok := by
  rw [ok.R_value, ZMod.natCast_mod, cast_powR]

/-- cancel the Montgomery radix -/
theorem mul_Rm_cancel (ok : KernelsOk K) (x : F) : x * Rm ok * (Rm ok)⁻¹ = x := by
  rw [mul_assoc, mul_inv_cancel₀ (Rm_ne_zero ok), mul_one]

/-! ## `unpack`, `pack`, the kernels -/

/-- `unpack` of ANY 32 bytes: limbs whose value is the little-endian value -/
theorem unpack_any (ok : KernelsOk K) {b : List Nat} (hb : EnvIn b (bytes 32)) :
    EnvIn (K.unpack b) ok.limbs ∧ ok.val (K.unpack b) = leVal b ∧ ok.val (K.unpack b) < 2 ^ 256 := by
  obtain ⟨h1, h2⟩ := ok.fromBytes_ok hb
  exact ⟨h1, h2, by rw [show ok.val (K.unpack b) = leVal b from h2]; exact leVal_lt_256_32 hb⟩

/-- `pack` of limbs with value `< 2^256` -/
theorem pack_ok (ok : KernelsOk K) {a : List Nat} (ha : EnvIn a ok.limbs) (hv : ok.val a < 2 ^ 256) :
    EnvIn (K.pack a) (bytes 32) ∧ leVal (K.pack a) = ok.val a := ok.asBytes_ok ha hv

theorem toLimbs (ok : KernelsOk K) {b : List Nat} {v : F} (h : IsSc b v) : IsLm ok (K.unpack b) v := by
  obtain ⟨h1, h2, -⟩ := unpack_any ok h.1.1
  exact ⟨h1, by rw [h2]; exact h.1.2, by rw [h2]; exact h.2⟩

theorem IsLm.toBytes {ok : KernelsOk K} {a : List Nat} {v : F} (h : IsLm ok a v) : IsSc (K.pack a) v := by
  obtain ⟨h1, h2⟩ := pack_ok ok h.1 (lt_trans h.2.1 (by norm_num [l]))
  exact ⟨⟨h1, by rw [show leVal (K.pack a) = ok.val a from h2]; exact h.2.1⟩,
    by rw [show leVal (K.pack a) = ok.val a from h2]; exact h.2.2⟩

/-- `as_montgomery` of ANY limbs inside the contract -/
theorem asMontgomery_any (ok : KernelsOk K) {a : List Nat} (ha : EnvIn a ok.limbs) :
    IsLm ok (K.asMontgomery a) (((ok.val a : Nat) : F) * Rm ok) := by
  obtain ⟨h1, h2⟩ := ok.asMontgomery_ok ha
  refine ⟨h1, by rw [h2]; exact Nat.mod_lt _ l_pos, ?_⟩
  rw [h2, ZMod.natCast_mod, Nat.cast_mul, cast_powR]

theorem IsLm.asMontgomery {ok : KernelsOk K} {a : List Nat} {v : F} (h : IsLm ok a v) :
    IsLm ok (K.asMontgomery a) (v * Rm ok) := by
  have := asMontgomery_any ok h.1
  rwa [h.2.2] at this

/-- `from_montgomery` of ANY limbs inside the contract -/
theorem fromMontgomery_any (ok : KernelsOk K) {a : List Nat} (ha : EnvIn a ok.limbs) :
    IsLm ok (K.fromMontgomery a) (((ok.val a : Nat) : F) * (Rm ok)⁻¹) := by
  obtain ⟨h1, h2, h3⟩ := ok.fromMontgomery_ok ha
  refine ⟨h1, h2, ?_⟩
  have := cast_of_mod_eq h3
  rw [Nat.cast_mul, cast_powR] at this
  rw [← this, mul_Rm_cancel]

theorem IsLm.fromMontgomery {ok : KernelsOk K} {a : List Nat} {v : F} (h : IsLm ok a v) :
    IsLm ok (K.fromMontgomery a) (v * (Rm ok)⁻¹) := by
  have := fromMontgomery_any ok h.1
  rwa [h.2.2] at this

theorem IsLm.montgomeryMul {ok : KernelsOk K} {a b : List Nat} {u v : F} (ha : IsLm ok a u) (hb : IsLm ok b v) :
    IsLm ok (K.montgomeryMul a b) (u * v * (Rm ok)⁻¹) := by
  obtain ⟨h1, h2, h3⟩ := ok.montgomeryMul_ok ha.1 hb.1 ha.2.1 hb.2.1
  refine ⟨h1, h2, ?_⟩
  have := cast_of_mod_eq h3
  rw [Nat.cast_mul, cast_powR, Nat.cast_mul, ha.2.2, hb.2.2] at this
  rw [← this, mul_Rm_cancel]

theorem IsLm.montgomerySquare {ok : KernelsOk K} {a : List Nat} {u : F} (ha : IsLm ok a u) :
    IsLm ok (K.montgomerySquare a) (u * u * (Rm ok)⁻¹) := by
  obtain ⟨h1, h2, h3⟩ := ok.montgomerySquare_ok ha.1 ha.2.1
  refine ⟨h1, h2, ?_⟩
  have := cast_of_mod_eq h3
  rw [Nat.cast_mul, cast_powR, Nat.cast_mul, ha.2.2] at this
  rw [← this, mul_Rm_cancel]

theorem IsLm.add {ok : KernelsOk K} {a b : List Nat} {u v : F} (ha : IsLm ok a u) (hb : IsLm ok b v) :
    IsLm ok (K.addU a b) (u + v) := by
  obtain ⟨h1, h2⟩ := ok.add_ok ha.1 hb.1 ha.2.1 hb.2.1
  refine ⟨h1, by rw [h2]; exact Nat.mod_lt _ l_pos, ?_⟩
  rw [h2, ZMod.natCast_mod, Nat.cast_add, ha.2.2, hb.2.2]

theorem IsLm.sub {ok : KernelsOk K} {a b : List Nat} {u v : F} (ha : IsLm ok a u) (hb : IsLm ok b v) :
    IsLm ok (K.subU a b) (u - v) := by
  obtain ⟨h1, h2⟩ := ok.sub_ok ha.1 hb.1 ha.2.1 hb.2.1
  refine ⟨h1, by rw [h2]; exact Nat.mod_lt _ l_pos, ?_⟩
  have e : ok.val a + l - ok.val b = ok.val a + (l - ok.val b) := by have := hb.2.1; omega
  rw [h2, ZMod.natCast_mod, e, Nat.cast_add, Nat.cast_sub hb.2.1.le, ZMod.natCast_self, ha.2.2, hb.2.2]
  ring

theorem IsLm.mul {ok : KernelsOk K} {a b : List Nat} {u v : F} (ha : IsLm ok a u) (hb : IsLm ok b v) :
    IsLm ok (K.mulU a b) (u * v) := by
  obtain ⟨h1, h2⟩ := ok.mul_ok ha.1 hb.1 ha.2.1 hb.2.1
  refine ⟨h1, by rw [h2]; exact Nat.mod_lt _ l_pos, ?_⟩
  rw [h2, ZMod.natCast_mod, Nat.cast_mul, ha.2.2, hb.2.2]

theorem ZERO_isLm (ok : KernelsOk K) : IsLm ok K.ZERO 0 :=
  ⟨ok.ZERO_limbs, by rw [ok.ZERO_val]; exact l_pos, by rw [ok.ZERO_val]; simp⟩

/-- `montgomery_reduce(mul_internal(x, R))` for ANY limbs `x` with value `< 2^256`: the canonical limbs of `x mod l`
(the body of `reduce` and the first two steps of `Neg`) -/
theorem montReduce_mulR (ok : KernelsOk K) {a : List Nat} (ha : EnvIn a ok.limbs) (hv : ok.val a < 2 ^ 256) :
    IsLm ok (K.montgomeryReduce (K.mulInternal a K.R)) ((ok.val a : Nat) : F) := by
  obtain ⟨h1, h2⟩ := ok.mulInternal_ok ha ok.R_limbs
  have hR : ok.val K.R < l := by rw [ok.R_value]; exact Nat.mod_lt _ l_pos
  have hN : ok.val (K.mulInternal a K.R) < 2 ^ ok.rexp * l := by
    rw [h2]
    exact Nat.mul_lt_mul'' (lt_of_lt_of_le hv (Nat.pow_le_pow_right (by norm_num) ok.rexp_ge)) hR
  obtain ⟨h3, h4, h5⟩ := ok.montgomeryReduce_ok h1 hN
  refine ⟨h3, h4, ?_⟩
  have := cast_of_mod_eq h5
  rw [h2, Nat.cast_mul, Nat.cast_mul, cast_powR, cast_R] at this
  exact mul_right_cancel₀ (Rm_ne_zero ok) this

/-! ## the API functions -/

theorem reduce_isSc (ok : KernelsOk K) {b : List Nat} (hb : EnvIn b (bytes 32)) :
    IsSc (K.reduce b) ((leVal b : Nat) : F) := by
  obtain ⟨h1, h2, h3⟩ := unpack_any ok hb
  have := (montReduce_mulR ok h1 h3).toBytes
  rwa [h2] at this

theorem wide_isSc (ok : KernelsOk K) {b : List Nat} (hb : EnvIn b (bytes 64)) :
    IsSc (K.fromBytesModOrderWide b) ((leVal b : Nat) : F) := by
  obtain ⟨h1, h2⟩ := ok.fromBytesWide_ok hb
  have : IsLm ok (K.fromBytesWide b) ((leVal b : Nat) : F) :=
    ⟨h1, by rw [h2]; exact Nat.mod_lt _ l_pos, by rw [h2, ZMod.natCast_mod]⟩
  exact this.toBytes

theorem add_isSc (ok : KernelsOk K) {a b : List Nat} {u v : F} (ha : IsSc a u) (hb : IsSc b v) :
    IsSc (K.add a b) (u + v) :=
  ((toLimbs ok ha).add (toLimbs ok hb)).toBytes

theorem sub_isSc (ok : KernelsOk K) {a b : List Nat} {u v : F} (ha : IsSc a u) (hb : IsSc b v) :
    IsSc (K.sub a b) (u - v) :=
  ((toLimbs ok ha).sub (toLimbs ok hb)).toBytes

theorem mul_isSc (ok : KernelsOk K) {a b : List Nat} {u v : F} (ha : IsSc a u) (hb : IsSc b v) :
    IsSc (K.mul a b) (u * v) :=
  ((toLimbs ok ha).mul (toLimbs ok hb)).toBytes

/-- `Neg` of ANY 32 bytes (it reduces first) -/
theorem neg_any (ok : KernelsOk K) {b : List Nat} (hb : EnvIn b (bytes 32)) :
    IsSc (K.neg b) (-((leVal b : Nat) : F)) := by
  obtain ⟨h1, h2, h3⟩ := unpack_any ok hb
  have h := ((ZERO_isLm ok).sub (montReduce_mulR ok h1 h3)).toBytes
  rw [h2, zero_sub] at h
  exact h

theorem neg_isSc (ok : KernelsOk K) {a : List Nat} {u : F} (ha : IsSc a u) : IsSc (K.neg a) (-u) := by
  have := neg_any ok ha.1.1
  rwa [ha.2] at this

theorem sum_isSc (ok : KernelsOk K) : ∀ {bs : List (List Nat)} {xs : List F} {acc : List Nat} {a : F},
    List.Forall₂ IsSc bs xs → IsSc acc a →
    IsSc (bs.foldl (fun acc item => K.add acc item) acc) (a + xs.sum)
  | _, _, _, _, .nil, ha => by simpa using ha
  | _, _, _, _, .cons hb hbs, ha => by
      simp only [List.foldl_cons, List.sum_cons]
      rw [← add_assoc]
      exact sum_isSc ok hbs (add_isSc ok ha hb)

theorem product_isSc (ok : KernelsOk K) : ∀ {bs : List (List Nat)} {xs : List F} {acc : List Nat} {a : F},
    List.Forall₂ IsSc bs xs → IsSc acc a →
    IsSc (bs.foldl (fun acc item => K.mul acc item) acc) (a * xs.prod)
  | _, _, _, _, .nil, ha => by simpa using ha
  | _, _, _, _, .cons hb hbs, ha => by
      simp only [List.foldl_cons, List.prod_cons]
      rw [← mul_assoc]
      exact product_isSc ok hbs (mul_isSc ok ha hb)

end Dalek.Proofs.ScalarApiGen

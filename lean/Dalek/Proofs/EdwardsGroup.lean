/-
Twisted Edwards curve with `a = -1` over an arbitrary field `K` (char ≠ 2, `-1` a square,
`d` a non-square): the affine points form a commutative group under the complete addition law.

* `Edwards/Basic.lean`      definitions (`EdParams`, `onCurve`, `EdPoint`), completeness, closure
* `Edwards/Frac.lean`       numerator/denominator form of the addition law on fractions
* `Edwards/AssocCertX.lean`, `Edwards/AssocCertY.lean`
                            generated polynomial certificates for associativity (checked by `ring`)
* `Edwards/Group.lean`      `instance : AddCommGroup (EdPoint c)`
* `Edwards/Extended.lean`   projective/extended/completed coordinates; the dalek addition and
                            doubling formulas refine the affine group law
-/
import Dalek.Proofs.Edwards.Basic
import Dalek.Proofs.Edwards.Frac
import Dalek.Proofs.Edwards.AssocCertX
import Dalek.Proofs.Edwards.AssocCertY
import Dalek.Proofs.Edwards.Group
import Dalek.Proofs.Edwards.Extended

namespace Dalek.Edwards

/-- info: 'Dalek.Edwards.EdPoint.instAddCommGroup' depends on axioms: [propext, Classical.choice, Quot.sound] -/
#guard_msgs in
#print axioms EdPoint.instAddCommGroup

/-- info: 'Dalek.Edwards.EdPoint.add_assoc'' depends on axioms: [propext, Classical.choice, Quot.sound] -/
#guard_msgs in
#print axioms EdPoint.add_assoc'

/-- info: 'Dalek.Edwards.complete' depends on axioms: [propext, Classical.choice, Quot.sound] -/
#guard_msgs in
#print axioms complete

/-- info: 'Dalek.Edwards.add_hwcd3' depends on axioms: [propext, Classical.choice, Quot.sound] -/
#guard_msgs in
#print axioms add_hwcd3

/-- info: 'Dalek.Edwards.double_projective' depends on axioms: [propext, Classical.choice, Quot.sound] -/
#guard_msgs in
#print axioms double_projective

end Dalek.Edwards

import Dalek.Proofs.IfmaField.Defs
import Dalek.Proofs.IfmaField.Small
import Dalek.Proofs.IfmaField.Perm
import Dalek.Proofs.IfmaField.Square
import Dalek.Proofs.IfmaField.Mul
/-! Lane-level functional correctness of the translated AVX512-IFMA vector field kernels (`Dalek.Gen.IfmaField`,
regenerated from `curve25519-dalek/src/backend/vector/ifma/field.rs`) in `ZMod (2^255-19)`, for ALL integer inputs of
the shallow functions `*_fn` produced by the analyser/normaliser.

* `Defs`   : `lane51`, `laneVal51`, the proof macros (`Lane` etc. are shared with `Dalek.Proofs.Avx2Field.Defs`)
* `Small`  : `new`, `split`, `unreduce`, `negate_lazy`, `diff_sum`, `add`, `reduce`, `neg`, `mul_consts`
* `Perm`   : `conditional_select/assign`, the shuffles and blends (of both `F51x4Unreduced` and `F51x4Reduced`)
* `Square` : `square`
* `Mul`    : `mul` -/

import Dalek.Proofs.Scalar52.Basic
import Dalek.Proofs.Scalar52.Mul
import Dalek.Proofs.Scalar52.Montgomery
import Dalek.Proofs.Scalar52.Compose
import Dalek.Proofs.Scalar52.Bytes
import Dalek.Proofs.Scalar52.Glue

import Dalek.Proofs.AlgRefine
import Dalek.Props.C01.Field51
import Dalek.Props.C01.Bytes51
import Dalek.Props.C01.Pow2k
/-!
# The serial u64 backend satisfies `BackendSpec` (instantiation of `Dalek.Proofs.AlgRefine` from the C01 theorems)
-/
namespace Dalek.Proofs.AlgRefine
open Dalek.IR Dalek.Model.AlgBounds Dalek.Proofs.AlgBoundsSound Dalek.Proofs
open Dalek.Model.Contracts (ub rep l2625 l2625f)
open Dalek.Model.FieldBytes (natToLeN leVal val51N)
open Dalek.Props.C01

/-- the value in `ZMod p` of a 5 × 51-bit limb vector -/
noncomputable def v51 (l : List Nat) : Fp := ((val51N l : Nat) : Fp)

theorem v51_eq (l : List Nat) : v51 l = Field51.val51 l := (Bytes51.val51_eq l).symm

/-- the documented contracts of the u64 kernels -/
def C51 : Contract where
  red := rep 5 (ub (2 ^ 52 - 1))
  preAddA := rep 5 (ub (2 ^ 53 - 1))
  preAddB := rep 5 (ub (2 ^ 53 - 1))
  preSubA := rep 5 (ub (2 ^ 54 - 1))
  preSubB := rep 5 (ub (2 ^ 54 - 1))
  preMulA := rep 5 (ub (2 ^ 54 - 1))
  preMulB := rep 5 (ub (2 ^ 54 - 1))
  preNeg := rep 5 (ub (2 ^ 54 - 1))
  preSq := rep 5 (ub (2 ^ 54 - 1))
  preSq2 := rep 5 (ub (2 ^ 54 - 1))
  postSq2 := rep 5 (ub (2 ^ 53 - 1))
  prePow := rep 5 (ub (2 ^ 54 - 1))
  preBytes := rep 5 (ub (2 ^ 54 - 1))

theorem len5 {a : List Nat} {x : Itv} (h : EnvIn a (rep 5 x)) : a.length = 5 := by
  rw [EnvIn_length h]; rfl

theorem iterC_eq (p : Prog) : ∀ (k : Nat) (a : List Nat), Pow2k.iterC p k a = iterC p k a
  | 0, _ => rfl
  | k + 1, a => by
      show (p.evalC a).bind (Pow2k.iterC p k) = (p.evalC a).bind (iterC p k)
      congr 1; funext x; exact iterC_eq p k x

theorem iterW_eq (p : Prog) : ∀ (k : Nat) (a : List Nat), Pow2k.iterW p k a = iterW p k a
  | 0, _ => rfl
  | k + 1, _ => iterW_eq p k _

theorem consts_val_of_table {consts : List (List Nat)} {f : List Nat → Nat}
    (h : consts.map (fun l => f l % Dalek.Spec.P) = Dalek.Model.algConstTable.map (· % Dalek.Spec.P))
    (i : Nat) (l : List Nat) (hl : consts[i]? = some l) :
    ((f l : Nat) : Fp) = zmodOps.const i := by
  have h1 := congrArg (fun t => t[i]?) h
  simp only [List.getElem?_map, hl, Option.map_some] at h1
  cases ht : Dalek.Model.algConstTable[i]? with
  | none => rw [ht] at h1; cases h1
  | some t =>
    rw [ht] at h1
    simp only [Option.map_some, Option.some.injEq] at h1
    rw [zmodOps_const]
    have : Dalek.Model.algConstTable.getD i 0 = t := by simp [List.getD_eq_getElem?_getD, ht]
    rw [this]
    exact natCast_eq_of_mod h1

theorem enc_natCast (n : Nat) : enc ((n : Nat) : Fp) = natToLeN (n % (2 ^ 255 - 19)) 32 := by
  unfold enc; rw [ZMod.val_natCast]

theorem spec51 : BackendSpec B51 C51 v51 where
  add := by
    intro a b ha hb
    obtain ⟨a0, a1, a2, a3, a4, rfl⟩ := list_of_length_5 a (len5 ha)
    obtain ⟨b0, b1, b2, b3, b4, rfl⟩ := list_of_length_5 b (len5 hb)
    obtain ⟨out, hC, hW, _, hv⟩ := Field51.add_spec a0 a1 a2 a3 a4 b0 b1 b2 b3 b4 (EnvIn_append _ _ ha hb)
    subst hW
    exact ⟨hC, by rw [v51_eq, v51_eq, v51_eq]; exact hv⟩
  sub := by
    intro a b ha hb
    obtain ⟨a0, a1, a2, a3, a4, rfl⟩ := list_of_length_5 a (len5 ha)
    obtain ⟨b0, b1, b2, b3, b4, rfl⟩ := list_of_length_5 b (len5 hb)
    obtain ⟨out, hC, hW, hp, hv⟩ := Field51.sub_spec a0 a1 a2 a3 a4 b0 b1 b2 b3 b4 (EnvIn_append _ _ ha hb)
    subst hW
    exact ⟨hC, hp, by rw [v51_eq, v51_eq, v51_eq]; exact hv⟩
  mul := by
    intro a b ha hb
    obtain ⟨a0, a1, a2, a3, a4, rfl⟩ := list_of_length_5 a (len5 ha)
    obtain ⟨b0, b1, b2, b3, b4, rfl⟩ := list_of_length_5 b (len5 hb)
    obtain ⟨out, hC, hW, hp, hv⟩ := Field51.mul_spec a0 a1 a2 a3 a4 b0 b1 b2 b3 b4 (EnvIn_append _ _ ha hb)
    subst hW
    exact ⟨hC, hp, by rw [v51_eq, v51_eq, v51_eq]; exact hv⟩
  neg := by
    intro a ha
    obtain ⟨a0, a1, a2, a3, a4, rfl⟩ := list_of_length_5 a (len5 ha)
    obtain ⟨out, hC, hW, hp, hv⟩ := Field51.neg_spec a0 a1 a2 a3 a4 ha
    subst hW
    refine ⟨?_, hp, by rw [v51_eq, v51_eq]; exact hv⟩
    show (Dalek.Gen.Field51.neg.evalC _).bind _ = _
    rw [hC]; rfl
  square := by
    intro a ha
    obtain ⟨a0, a1, a2, a3, a4, rfl⟩ := list_of_length_5 a (len5 ha)
    obtain ⟨out, hC, hW, hp, hv⟩ := Field51.pow2k_body_spec a0 a1 a2 a3 a4 ha
    subst hW
    refine ⟨?_, hp, by rw [v51_eq, v51_eq, ← pow_two]; exact hv⟩
    show (Dalek.Gen.Field51.pow2k_body.evalC _).bind _ = _
    rw [hC]; rfl
  square2 := by
    intro a ha
    obtain ⟨a0, a1, a2, a3, a4, rfl⟩ := list_of_length_5 a (len5 ha)
    obtain ⟨out, hC, hW, hp, hv⟩ := Field51.pow2k_body_spec a0 a1 a2 a3 a4 ha
    obtain ⟨c0, c1, c2, c3, c4, rfl⟩ := list_of_length_5 out (len5 hp)
    obtain ⟨out2, hC2, hW2, hp2, hv2⟩ := Field51.square2_tail_spec c0 c1 c2 c3 c4 hp
    have e : wrapSeq B51.square2 [a0, a1, a2, a3, a4] = out2 := by
      show Dalek.Gen.Field51.square2_tail.evalW (Dalek.Gen.Field51.pow2k_body.evalW _) = _
      rw [hW, hW2]
    rw [e]
    refine ⟨?_, hp2, by rw [v51_eq, v51_eq, hv2, hv, pow_two]⟩
    show (Dalek.Gen.Field51.pow2k_body.evalC _).bind
      (fun l => (Dalek.Gen.Field51.square2_tail.evalC l).bind (fun l => some l)) = _
    rw [hC]; simp only [Option.bind_some, hC2]
  pow := by
    intro k a ha
    obtain ⟨h1, h2, h3⟩ := Pow2k.Field51.pow2k_spec (k + 1) (by omega) a ha
    simp only [Pow2k.Field51.pow2kC, Pow2k.Field51.pow2kW, iterC_eq, iterW_eq] at h1 h2 h3
    exact ⟨h1, h2, by rw [v51_eq, v51_eq]; exact h3⟩
  const := consts_val_of_table (f := val51N) (by decide +kernel)
  bytes := by
    intro a ha
    obtain ⟨h1, h2⟩ := Bytes51.as_bytes_canonical a ha
    refine ⟨?_, ?_⟩
    · show Dalek.Gen.Field51.as_bytes.evalC a = some (Dalek.Gen.Field51.as_bytes.evalW a)
      rw [h1, h2]
    · show Dalek.Gen.Field51.as_bytes.evalW a = enc (v51 a)
      rw [h2, v51, enc_natCast]
  choice := by
    intro c
    simp [v51, val51N]

end Dalek.Proofs.AlgRefine

import Dalek.Model.AlgBounds
import Dalek.Model.Contracts
import Dalek.Gen.AlgField
import Dalek.Gen.AlgCurve
import Dalek.Gen.AlgEdwards
import Dalek.Gen.AlgMontgomery
import Dalek.Gen.AlgRistretto
/-!
# C11, formula level: the type invariants and the table of typed formulas (definitions only)

Helper of `Dalek/Props/C11/Formulas.lean` (which documents them); separate so that the kernel evaluations
`Dalek/Proofs/AlgBoundsOk*.lean` can be compiled in parallel.  Mathlib-free (the driver prints `report`).
-/
namespace Dalek.Props.C11.Formulas
open Dalek.IR Dalek.Gen Dalek.Model.AlgBounds
open Dalek.Model.Contracts (ub rep l2625 l2625f bytes)

/-! ## type invariants -/

/-- the bound vectors from which all type invariants of one backend are built -/
structure Invs where
  /-- a reduced field element: the output range of `mul`, `square`, `sub`, `neg`, `reduce`, `from_bytes`, constants -/
  fe : List Itv
  /-- an unreduced sum of two reduced field elements (`Y+X` of the Niels forms) -/
  sum : List Itv
  /-- a coordinate of a `CompletedPoint` (sums / differences of up to three reduced elements) -/
  comp : List Itv
  /-- the weakest input the field-level functions (`invert`, `sqrt_ratio_i`, …) are proved safe for:
  the documented headroom of the kernels -/
  loose : List Itv

/-- serial u64: reduced = limbs `< 2^52` (`reduced51` of C01); sums `< 2^53`; completed coordinates and the
field-level functions: the full documented headroom `< 2^54` of `mul`/`square`/`sub`/`neg`/`as_bytes` -/
def I51 : Invs where
  fe := rep 5 (ub (2 ^ 52 - 1))
  sum := rep 5 (ub (2 ^ 53 - 2))
  comp := rep 5 (ub (2 ^ 54 - 1))
  loose := rep 5 (ub (2 ^ 54 - 1))

/-- serial u32: reduced = excess factor `< 1.004` (`b < 0.007`, `reduced26` of C01); sums `< 2.008`; completed
coordinates and the field-level functions: the documented headroom `b < 1.75` (factor `3.36`) of the SECOND operand
of `mul` and of `square` -/
def I26 : Invs where
  fe := l2625f 1004 1000
  sum := l2625f 2008 1000
  comp := l2625f 336 100
  loose := l2625f 336 100

/-- a `subtle::Choice` / `bool` -/
def inv_choice : List Itv := choiceItv

/-- `EdwardsPoint` / `RistrettoPoint` `(X, Y, Z, T)`: all coordinates reduced -/
def EdwardsPoint (I : Invs) : List (List Itv) := [I.fe, I.fe, I.fe, I.fe]
/-- `curve_models::ProjectivePoint` `(X, Y, Z)` -/
def ProjectivePoint (I : Invs) : List (List Itv) := [I.fe, I.fe, I.fe]
/-- `curve_models::CompletedPoint` `(X, Y, Z, T)`: unreduced sums and differences -/
def CompletedPoint (I : Invs) : List (List Itv) := [I.comp, I.comp, I.comp, I.comp]
/-- `ProjectiveNielsPoint` `(Y_plus_X, Y_minus_X, Z, T2d)`; `Y_plus_X` is an unreduced sum, and negation SWAPS the
first two fields, so both carry the bound of the sum -/
def ProjectiveNiels (I : Invs) : List (List Itv) := [I.sum, I.sum, I.fe, I.fe]
/-- `AffineNielsPoint` `(y_plus_x, y_minus_x, xy2d)` (the entries of the precomputed tables) -/
def AffineNiels (I : Invs) : List (List Itv) := [I.sum, I.sum, I.fe]
/-- `montgomery::ProjectivePoint` `(U, W)` -/
def MontgomeryProjective (I : Invs) : List (List Itv) := [I.fe, I.fe]
/-- state of one Montgomery ladder step: `(x0.U, x0.W, x1.U, x1.W)` and the affine `u` of the difference -/
def LadderStep (I : Invs) : List (List Itv) := [I.fe, I.fe, I.fe, I.fe, I.fe]
/-- `BatchCompressState` `(e, f, g, h, eg, fh)` of `double_and_compress_batch`: `f`, `g` are unreduced -/
def BatchState (I : Invs) : List (List Itv) := [I.fe, I.sum, I.sum, I.fe, I.fe, I.fe]


/-! ## the typed formulas (one `Sig` per translated item) -/

def sig_Curve_ProjectivePoint_identity (I : Invs) : Sig := ⟨"Curve.ProjectivePoint_identity", AlgCurve.ProjectivePoint_identity, [], ProjectivePoint I⟩
def sig_Curve_ProjectiveNielsPoint_identity (I : Invs) : Sig := ⟨"Curve.ProjectiveNielsPoint_identity", AlgCurve.ProjectiveNielsPoint_identity, [], ProjectiveNiels I⟩
def sig_Curve_AffineNielsPoint_identity (I : Invs) : Sig := ⟨"Curve.AffineNielsPoint_identity", AlgCurve.AffineNielsPoint_identity, [], AffineNiels I⟩
def sig_Curve_ProjectivePoint_is_valid (I : Invs) : Sig := ⟨"Curve.ProjectivePoint_is_valid", AlgCurve.ProjectivePoint_is_valid, ProjectivePoint I, [inv_choice]⟩
def sig_Curve_ProjectiveNielsPoint_conditional_select (I : Invs) : Sig := ⟨"Curve.ProjectiveNielsPoint_conditional_select", AlgCurve.ProjectiveNielsPoint_conditional_select, ProjectiveNiels I ++ ProjectiveNiels I ++ [inv_choice], ProjectiveNiels I⟩
def sig_Curve_ProjectiveNielsPoint_conditional_assign (I : Invs) : Sig := ⟨"Curve.ProjectiveNielsPoint_conditional_assign", AlgCurve.ProjectiveNielsPoint_conditional_assign, ProjectiveNiels I ++ ProjectiveNiels I ++ [inv_choice], ProjectiveNiels I⟩
def sig_Curve_AffineNielsPoint_conditional_select (I : Invs) : Sig := ⟨"Curve.AffineNielsPoint_conditional_select", AlgCurve.AffineNielsPoint_conditional_select, AffineNiels I ++ AffineNiels I ++ [inv_choice], AffineNiels I⟩
def sig_Curve_AffineNielsPoint_conditional_assign (I : Invs) : Sig := ⟨"Curve.AffineNielsPoint_conditional_assign", AlgCurve.AffineNielsPoint_conditional_assign, AffineNiels I ++ AffineNiels I ++ [inv_choice], AffineNiels I⟩
def sig_Curve_ProjectivePoint_as_extended (I : Invs) : Sig := ⟨"Curve.ProjectivePoint_as_extended", AlgCurve.ProjectivePoint_as_extended, ProjectivePoint I, EdwardsPoint I⟩
def sig_Curve_CompletedPoint_as_projective (I : Invs) : Sig := ⟨"Curve.CompletedPoint_as_projective", AlgCurve.CompletedPoint_as_projective, CompletedPoint I, ProjectivePoint I⟩
def sig_Curve_CompletedPoint_as_extended (I : Invs) : Sig := ⟨"Curve.CompletedPoint_as_extended", AlgCurve.CompletedPoint_as_extended, CompletedPoint I, EdwardsPoint I⟩
def sig_Curve_ProjectivePoint_double (I : Invs) : Sig := ⟨"Curve.ProjectivePoint_double", AlgCurve.ProjectivePoint_double, ProjectivePoint I, CompletedPoint I⟩
def sig_Curve_add_ProjectiveNielsPoint (I : Invs) : Sig := ⟨"Curve.add_ProjectiveNielsPoint", AlgCurve.add_ProjectiveNielsPoint, EdwardsPoint I ++ ProjectiveNiels I, CompletedPoint I⟩
def sig_Curve_sub_ProjectiveNielsPoint (I : Invs) : Sig := ⟨"Curve.sub_ProjectiveNielsPoint", AlgCurve.sub_ProjectiveNielsPoint, EdwardsPoint I ++ ProjectiveNiels I, CompletedPoint I⟩
def sig_Curve_add_AffineNielsPoint (I : Invs) : Sig := ⟨"Curve.add_AffineNielsPoint", AlgCurve.add_AffineNielsPoint, EdwardsPoint I ++ AffineNiels I, CompletedPoint I⟩
def sig_Curve_sub_AffineNielsPoint (I : Invs) : Sig := ⟨"Curve.sub_AffineNielsPoint", AlgCurve.sub_AffineNielsPoint, EdwardsPoint I ++ AffineNiels I, CompletedPoint I⟩
def sig_Curve_ProjectiveNielsPoint_neg (I : Invs) : Sig := ⟨"Curve.ProjectiveNielsPoint_neg", AlgCurve.ProjectiveNielsPoint_neg, ProjectiveNiels I, ProjectiveNiels I⟩
def sig_Curve_AffineNielsPoint_neg (I : Invs) : Sig := ⟨"Curve.AffineNielsPoint_neg", AlgCurve.AffineNielsPoint_neg, AffineNiels I, AffineNiels I⟩
def sig_Edwards_decompress_step_1 (I : Invs) : Sig := ⟨"Edwards.decompress_step_1", AlgEdwards.decompress_step_1, [I.fe], [inv_choice, I.fe, I.fe, I.fe]⟩
def sig_Edwards_decompress_step_2 (I : Invs) : Sig := ⟨"Edwards.decompress_step_2", AlgEdwards.decompress_step_2, [I.fe, I.fe, I.fe, inv_choice], EdwardsPoint I⟩
def sig_Edwards_compress (I : Invs) : Sig := ⟨"Edwards.compress", AlgEdwards.compress, EdwardsPoint I, [I.fe, inv_choice]⟩
def sig_Edwards_to_montgomery (I : Invs) : Sig := ⟨"Edwards.to_montgomery", AlgEdwards.to_montgomery, EdwardsPoint I, [I.fe]⟩
def sig_Edwards_as_projective_niels (I : Invs) : Sig := ⟨"Edwards.as_projective_niels", AlgEdwards.as_projective_niels, EdwardsPoint I, ProjectiveNiels I⟩
def sig_Edwards_as_projective (I : Invs) : Sig := ⟨"Edwards.as_projective", AlgEdwards.as_projective, EdwardsPoint I, ProjectivePoint I⟩
def sig_Edwards_as_affine_niels (I : Invs) : Sig := ⟨"Edwards.as_affine_niels", AlgEdwards.as_affine_niels, EdwardsPoint I, AffineNiels I⟩
def sig_Edwards_identity (I : Invs) : Sig := ⟨"Edwards.identity", AlgEdwards.identity, [], EdwardsPoint I⟩
def sig_Edwards_ct_eq (I : Invs) : Sig := ⟨"Edwards.ct_eq", AlgEdwards.ct_eq, EdwardsPoint I ++ EdwardsPoint I, [inv_choice]⟩
def sig_Edwards_conditional_select (I : Invs) : Sig := ⟨"Edwards.conditional_select", AlgEdwards.conditional_select, EdwardsPoint I ++ EdwardsPoint I ++ [inv_choice], EdwardsPoint I⟩
def sig_Edwards_neg (I : Invs) : Sig := ⟨"Edwards.neg", AlgEdwards.neg, EdwardsPoint I, EdwardsPoint I⟩
def sig_Edwards_double (I : Invs) : Sig := ⟨"Edwards.double", AlgEdwards.double, EdwardsPoint I, EdwardsPoint I⟩
def sig_Edwards_add (I : Invs) : Sig := ⟨"Edwards.add", AlgEdwards.add, EdwardsPoint I ++ EdwardsPoint I, EdwardsPoint I⟩
def sig_Edwards_sub (I : Invs) : Sig := ⟨"Edwards.sub", AlgEdwards.sub, EdwardsPoint I ++ EdwardsPoint I, EdwardsPoint I⟩
def sig_Edwards_is_valid (I : Invs) : Sig := ⟨"Edwards.is_valid", AlgEdwards.is_valid, EdwardsPoint I, [inv_choice]⟩
def sig_Montgomery_differential_add_and_double (I : Invs) : Sig := ⟨"Montgomery.differential_add_and_double", AlgMontgomery.differential_add_and_double, LadderStep I, [I.fe, I.fe, I.fe, I.fe]⟩
def sig_Montgomery_ProjectivePoint_identity (I : Invs) : Sig := ⟨"Montgomery.ProjectivePoint_identity", AlgMontgomery.ProjectivePoint_identity, [], MontgomeryProjective I⟩
def sig_Montgomery_ProjectivePoint_conditional_select (I : Invs) : Sig := ⟨"Montgomery.ProjectivePoint_conditional_select", AlgMontgomery.ProjectivePoint_conditional_select, MontgomeryProjective I ++ MontgomeryProjective I ++ [inv_choice], MontgomeryProjective I⟩
def sig_Montgomery_ProjectivePoint_as_affine (I : Invs) : Sig := ⟨"Montgomery.ProjectivePoint_as_affine", AlgMontgomery.ProjectivePoint_as_affine, MontgomeryProjective I, [I.fe]⟩
def sig_Montgomery_to_edwards (I : Invs) : Sig := ⟨"Montgomery.to_edwards", AlgMontgomery.to_edwards, [I.fe], [inv_choice, I.fe]⟩
def sig_Montgomery_elligator_encode (I : Invs) : Sig := ⟨"Montgomery.elligator_encode", AlgMontgomery.elligator_encode, [I.fe], [I.sum]⟩
def sig_Montgomery_ct_eq (I : Invs) : Sig := ⟨"Montgomery.ct_eq", AlgMontgomery.ct_eq, [I.fe, I.fe], [inv_choice]⟩
def sig_Ristretto_decompress_step_2 (I : Invs) : Sig := ⟨"Ristretto.decompress_step_2", AlgRistretto.decompress_step_2, [I.fe], [inv_choice, inv_choice, inv_choice] ++ EdwardsPoint I⟩
def sig_Ristretto_compress (I : Invs) : Sig := ⟨"Ristretto.compress", AlgRistretto.compress, EdwardsPoint I, [I.fe]⟩
def sig_Ristretto_elligator_ristretto_flavor (I : Invs) : Sig := ⟨"Ristretto.elligator_ristretto_flavor", AlgRistretto.elligator_ristretto_flavor, [I.fe], EdwardsPoint I⟩
def sig_Ristretto_ct_eq (I : Invs) : Sig := ⟨"Ristretto.ct_eq", AlgRistretto.ct_eq, EdwardsPoint I ++ EdwardsPoint I, [inv_choice]⟩
def sig_Ristretto_batch_state_from (I : Invs) : Sig := ⟨"Ristretto.batch_state_from", AlgRistretto.batch_state_from, EdwardsPoint I, BatchState I⟩
def sig_Ristretto_batch_compress_closure (I : Invs) : Sig := ⟨"Ristretto.batch_compress_closure", AlgRistretto.batch_compress_closure, BatchState I ++ [I.fe], [I.fe]⟩
def sig_Field_pow22501 (I : Invs) : Sig := ⟨"Field.pow22501", AlgField.pow22501, [I.loose], [I.fe, I.fe]⟩
def sig_Field_pow_p58 (I : Invs) : Sig := ⟨"Field.pow_p58", AlgField.pow_p58, [I.loose], [I.fe]⟩
def sig_Field_invert (I : Invs) : Sig := ⟨"Field.invert", AlgField.invert, [I.loose], [I.fe]⟩
def sig_Field_sqrt_ratio_i (I : Invs) : Sig := ⟨"Field.sqrt_ratio_i", AlgField.sqrt_ratio_i, [I.loose, I.loose], [inv_choice, I.fe]⟩
def sig_Field_invsqrt (I : Invs) : Sig := ⟨"Field.invsqrt", AlgField.invsqrt, [I.loose], [inv_choice, I.fe]⟩

/-- all translated formulas with their type invariants -/
def sigs (I : Invs) : List Sig := [
  sig_Curve_ProjectivePoint_identity I,
  sig_Curve_ProjectiveNielsPoint_identity I,
  sig_Curve_AffineNielsPoint_identity I,
  sig_Curve_ProjectivePoint_is_valid I,
  sig_Curve_ProjectiveNielsPoint_conditional_select I,
  sig_Curve_ProjectiveNielsPoint_conditional_assign I,
  sig_Curve_AffineNielsPoint_conditional_select I,
  sig_Curve_AffineNielsPoint_conditional_assign I,
  sig_Curve_ProjectivePoint_as_extended I,
  sig_Curve_CompletedPoint_as_projective I,
  sig_Curve_CompletedPoint_as_extended I,
  sig_Curve_ProjectivePoint_double I,
  sig_Curve_add_ProjectiveNielsPoint I,
  sig_Curve_sub_ProjectiveNielsPoint I,
  sig_Curve_add_AffineNielsPoint I,
  sig_Curve_sub_AffineNielsPoint I,
  sig_Curve_ProjectiveNielsPoint_neg I,
  sig_Curve_AffineNielsPoint_neg I,
  sig_Edwards_decompress_step_1 I,
  sig_Edwards_decompress_step_2 I,
  sig_Edwards_compress I,
  sig_Edwards_to_montgomery I,
  sig_Edwards_as_projective_niels I,
  sig_Edwards_as_projective I,
  sig_Edwards_as_affine_niels I,
  sig_Edwards_identity I,
  sig_Edwards_ct_eq I,
  sig_Edwards_conditional_select I,
  sig_Edwards_neg I,
  sig_Edwards_double I,
  sig_Edwards_add I,
  sig_Edwards_sub I,
  sig_Edwards_is_valid I,
  sig_Montgomery_differential_add_and_double I,
  sig_Montgomery_ProjectivePoint_identity I,
  sig_Montgomery_ProjectivePoint_conditional_select I,
  sig_Montgomery_ProjectivePoint_as_affine I,
  sig_Montgomery_to_edwards I,
  sig_Montgomery_elligator_encode I,
  sig_Montgomery_ct_eq I,
  sig_Ristretto_decompress_step_2 I,
  sig_Ristretto_compress I,
  sig_Ristretto_elligator_ristretto_flavor I,
  sig_Ristretto_ct_eq I,
  sig_Ristretto_batch_state_from I,
  sig_Ristretto_batch_compress_closure I,
  sig_Field_pow22501 I,
  sig_Field_pow_p58 I,
  sig_Field_invert I,
  sig_Field_sqrt_ratio_i I,
  sig_Field_invsqrt I]

/-- what the driver prints (serial u64): `(formula, check passed)` -/
def report51 : List (String × Bool) := reportOf B51 (sigs I51)
/-- what the driver prints (serial u32) -/
def report26 : List (String × Bool) := reportOf B26 (sigs I26)
/-- both backends, names prefixed -/
def report : List (String × Bool) :=
  report51.map (fun nb => ("u64." ++ nb.1, nb.2)) ++ report26.map (fun nb => ("u32." ++ nb.1, nb.2))


/-- the generated items of the five AlgIR modules, with module-prefixed names -/
def generatedItems : List (String × AProg) :=
  AlgCurve.items.map (fun nf => ("Curve." ++ nf.1, nf.2)) ++
  AlgEdwards.items.map (fun nf => ("Edwards." ++ nf.1, nf.2)) ++
  AlgMontgomery.items.map (fun nf => ("Montgomery." ++ nf.1, nf.2)) ++
  AlgRistretto.items.map (fun nf => ("Ristretto." ++ nf.1, nf.2)) ++
  AlgField.items.map (fun nf => ("Field." ++ nf.1, nf.2))


end Dalek.Props.C11.Formulas

/-
Primality of the curve25519 field prime `p = 2^255 - 19` and the group order
`l = 2^252 + 27742317777372353535851937790883648493`, by Pratt certificates checked in the
kernel (`decide +kernel`) through a checker that is proved sound once (`checkAll_sound`,
on top of Mathlib's `lucas_primality`).

Also the reusable `powMod` bridge: a structurally recursive modular exponentiation on `Nat`
(kernel-evaluable with GMP speed) with `powMod a e m = a ^ e % m` and its cast to `ZMod m`.
-/
import Mathlib.NumberTheory.LucasPrimality
import Mathlib.Data.List.Prime
import Dalek.Proofs.PrattCerts

namespace Dalek.Primes

/-! ## Structural modular exponentiation -/

/-- Square-and-multiply with explicit fuel (structural recursion on `fuel`, so the kernel can
evaluate it).  Invariant: result `≡ acc * b ^ e (mod m)` as soon as `e < 2 ^ fuel`. -/
def powModAux (m : Nat) : Nat → Nat → Nat → Nat → Nat
  | 0, _, _, acc => acc
  | fuel + 1, b, e, acc =>
    if e = 0 then acc
    else powModAux m fuel (b * b % m) (e / 2) (if e % 2 = 1 then acc * b % m else acc)

/-- `powMod a e m = a ^ e % m`, computed by binary exponentiation, reducing mod `m` at each step. -/
def powMod (a e m : Nat) : Nat :=
  powModAux m (Nat.log2 e + 1) a e 1 % m

theorem powModAux_spec (m : Nat) :
    ∀ (fuel b e acc : Nat), e < 2 ^ fuel → powModAux m fuel b e acc % m = acc * b ^ e % m := by
  intro fuel
  induction fuel with
  | zero =>
    intro b e acc h
    have : e = 0 := by simpa using h
    subst this
    simp [powModAux]
  | succ fuel ih =>
    intro b e acc h
    unfold powModAux
    by_cases he : e = 0
    · subst he; simp
    · rw [if_neg he, ih _ _ _ (by omega)]
      have hsq : (b * b % m) ^ (e / 2) % m = (b * b) ^ (e / 2) % m := 
        (Nat.pow_mod _ _ _).symm
      have hbb : (b * b) ^ (e / 2) = b ^ (2 * (e / 2)) := by
        rw [pow_mul, pow_two]
      by_cases hodd : e % 2 = 1
      · rw [if_pos hodd]
        have he2 : e = 2 * (e / 2) + 1 := by omega
        conv_rhs => rw [he2, pow_succ, ← hbb]
        rw [Nat.mul_mod, Nat.mod_mod, hsq, ← Nat.mul_mod]
        ring_nf
      · rw [if_neg hodd]
        have he2 : e = 2 * (e / 2) := by omega
        conv_rhs => rw [he2, ← hbb]
        rw [Nat.mul_mod, hsq, ← Nat.mul_mod]

theorem powMod_eq (a e m : Nat) : powMod a e m = a ^ e % m := by
  unfold powMod
  rw [powModAux_spec m _ a e 1 Nat.lt_log2_self, one_mul]

/-- The bridge to `ZMod`: a `powMod` value computed on naturals is the `ZMod` power. -/
theorem powMod_cast (a e m : Nat) : ((powMod a e m : Nat) : ZMod m) = (a : ZMod m) ^ e := by
  rw [powMod_eq, ZMod.natCast_mod, Nat.cast_pow]

/-- To prove `a ^ e = c` in `ZMod m` (for numerals `a`, `c`) it is enough to evaluate `powMod`
on naturals (e.g. by `decide +kernel`). -/
theorem zmod_pow_eq_of_powMod {a e m c : Nat} (h : powMod a e m = c % m) :
    (a : ZMod m) ^ e = (c : ZMod m) := by
  rw [← powMod_cast, h, ZMod.natCast_mod]

theorem zmod_pow_ne_of_powMod {a e m c : Nat} (h : powMod a e m ≠ c % m) :
    (a : ZMod m) ^ e ≠ (c : ZMod m) := by
  intro hc
  apply h
  have : ((a ^ e : Nat) : ZMod m) = (c : ZMod m) := by rw [Nat.cast_pow]; exact hc
  rw [powMod_eq]
  exact (ZMod.natCast_eq_natCast_iff' _ _ _).1 this

/-! ## Pratt certificate checker -/

/-- Check one entry `(n, a, fs)` against a list `known` of already certified primes:
`2 ≤ n`, `∏ fs = n - 1`, `a ^ (n-1) ≡ 1 (mod n)`, and for each `q ∈ fs`: `q` is known prime and
`a ^ ((n-1)/q) ≢ 1 (mod n)`. -/
def checkEntry (known : List Nat) (e : Nat × Nat × List Nat) : Bool :=
  let n := e.1
  let a := e.2.1
  let fs := e.2.2
  Nat.ble 2 n && (fs.prod == n - 1) && (powMod a (n - 1) n == 1) &&
    fs.all (fun q => known.contains q && (powMod a ((n - 1) / q) n != 1))

/-- Check a whole chain, each certified `n` becoming known for the later entries. -/
def checkAll : List Nat → List (Nat × Nat × List Nat) → Bool
  | _, [] => true
  | known, e :: es => checkEntry known e && checkAll (e.1 :: known) es

theorem checkEntry_sound {known : List Nat} (hk : ∀ q ∈ known, Nat.Prime q)
    {e : Nat × Nat × List Nat} (h : checkEntry known e = true) : Nat.Prime e.1 := by
  obtain ⟨n, a, fs⟩ := e
  simp only [checkEntry, Bool.and_eq_true, beq_iff_eq, List.all_eq_true, bne_iff_ne, ne_eq,
    List.contains_iff_mem] at h
  obtain ⟨⟨⟨hn, hprod⟩, hone⟩, hfs⟩ := h
  have hn2 : 2 ≤ n := Nat.le_of_ble_eq_true hn
  have h1 : (1 : Nat) % n = 1 := Nat.mod_eq_of_lt hn2
  show Nat.Prime n
  refine lucas_primality n (a : ZMod n) ?_ ?_
  · have := zmod_pow_eq_of_powMod (a := a) (e := n - 1) (m := n) (c := 1) (by rw [hone, h1])
    simpa using this
  · intro q hq hdvd
    rw [← hprod] at hdvd
    obtain ⟨r, hr, hqr⟩ := (Prime.dvd_prod_iff hq.prime).1 hdvd
    obtain ⟨hrk, hrne⟩ := hfs r hr
    have hrp : Nat.Prime r := hk r hrk
    have hqr' : q = r := (Nat.prime_dvd_prime_iff_eq hq hrp).1 hqr
    subst hqr'
    have := zmod_pow_ne_of_powMod (a := a) (e := (n - 1) / q) (m := n) (c := 1)
      (by rw [h1]; exact hrne)
    simpa using this

theorem checkAll_sound : ∀ (es : List (Nat × Nat × List Nat)) (known : List Nat),
    (∀ q ∈ known, Nat.Prime q) → checkAll known es = true → ∀ e ∈ es, Nat.Prime e.1
  | [], _, _, _ => by simp
  | e :: es, known, hk, h => by
    simp only [checkAll, Bool.and_eq_true] at h
    have he : Nat.Prime e.1 := checkEntry_sound hk h.1
    have hk' : ∀ q ∈ e.1 :: known, Nat.Prime q := by
      intro q hq
      rcases List.mem_cons.1 hq with rfl | hq
      · exact he
      · exact hk q hq
    intro x hx
    rcases List.mem_cons.1 hx with rfl | hx
    · exact he
    · exact checkAll_sound es _ hk' h.2 x hx

/-- Entry point: a chain that checks starting from `known = [2]` certifies every `n` occurring
as (the first component of) one of its entries. -/
theorem prime_of_cert (cert : List (Nat × Nat × List Nat)) (n : Nat)
    (h : (checkAll [2] cert && ((cert.map Prod.fst).contains n)) = true) : Nat.Prime n := by
  simp only [Bool.and_eq_true, List.contains_iff_mem, List.mem_map] at h
  obtain ⟨hc, e, he, rfl⟩ := h
  exact checkAll_sound cert [2] (by simp [Nat.prime_two]) hc e he

/-! ## The two primes -/

/-- The field prime `p = 2^255 - 19` (local name; `Dalek.P` of `Spec/Field.lean` is the same numeral). -/
abbrev P' : Nat := 2 ^ 255 - 19

/-- The prime group order `l = 2^252 + 27742317777372353535851937790883648493`. -/
abbrev L' : Nat := 2 ^ 252 + 27742317777372353535851937790883648493

theorem P'_eq : (2 ^ 255 - 19 : Nat) =
    57896044618658097711785492504343953926634992332820282019728792003956564819949 := by
  norm_num

theorem L'_eq : (2 ^ 252 + 27742317777372353535851937790883648493 : Nat) =
    7237005577332262213973186563042994240857116359379907606001950938285454250989 := by
  norm_num

theorem certP_ok :
    (checkAll [2] certP && ((certP.map Prod.fst).contains
      57896044618658097711785492504343953926634992332820282019728792003956564819949)) = true := by
  decide +kernel

theorem certL_ok :
    (checkAll [2] certL && ((certL.map Prod.fst).contains
      7237005577332262213973186563042994240857116359379907606001950938285454250989)) = true := by
  decide +kernel

theorem prime_p : Nat.Prime (2 ^ 255 - 19) :=
  P'_eq ▸ prime_of_cert certP _ certP_ok

theorem prime_l : Nat.Prime (2 ^ 252 + 27742317777372353535851937790883648493) :=
  L'_eq ▸ prime_of_cert certL _ certL_ok

theorem prime_P' : Nat.Prime P' := prime_p
theorem prime_L' : Nat.Prime L' := prime_l

instance fact_prime_p : Fact (Nat.Prime (2 ^ 255 - 19)) := ⟨prime_p⟩
instance fact_prime_l : Fact (Nat.Prime (2 ^ 252 + 27742317777372353535851937790883648493)) :=
  ⟨prime_l⟩

end Dalek.Primes

/-
ENCODE on valid points: which representative of the coset `P + E[4]` it selects, and the equation
`s² (1 + y*) = 1 − y*` that (together with `s ≥ 0`) determines the encoding.  Consequences: the encoding does not
depend on the projective representation, nor on the representative of the coset (`encode_torsion_invariant`).
-/
import Dalek.Proofs.RisCoset

namespace Dalek.Proofs.Ris

open Dalek.IR Dalek.Spec Dalek.Proofs
open Dalek.Edwards
open Dalek.Bridge (Ed edParams edParams_d)
open Dalek.FieldFacts (d sqrtM1)

/-! ## The selected representative -/

/-- `x` of the coset representative after the `rotate` step: `(x, y)` if `x y ≥ 0`, else `(i y, i x)` -/
noncomputable def selX1 (x y : Fp) : Fp := if fpIsNeg (x * y) then sqrtM1 * y else x
noncomputable def selY1 (x y : Fp) : Fp := if fpIsNeg (x * y) then sqrtM1 * x else y
/-- `y*`: the `y` of the selected representative (after the conditional negation making `x* ≥ 0`) -/
noncomputable def selY (x y : Fp) : Fp := if fpIsNeg (selX1 x y) then -selY1 x y else selY1 x y

/-- `w = (1 − y²) x² y²`: ENCODE takes `1/sqrt(Z⁶ w)` -/
noncomputable def encW (x y : Fp) : Fp := (1 - y ^ 2) * x ^ 2 * y ^ 2

theorem fpAbs_eq_fpAbs_of_sq_eq {z z' : Fp} (h : z ^ 2 = z' ^ 2) : fpAbs z = fpAbs z' :=
  fpAbs_eq_of_sq_eq (by rw [h, fpAbs_sq]) (not_fpIsNeg_fpAbs z')

/-- on the curve, `(1 − y²)(1 + x²) = (a − d) x² y²` -/
theorem curve_rot {x y : Fp} (hc : onCurve d x y) : (1 - y ^ 2) * (1 + x ^ 2) = (-1 - d) * x ^ 2 * y ^ 2 := by
  unfold Dalek.Edwards.onCurve at hc; linear_combination -hc

theorem magic_sq : invSqrtAmD ^ 2 * (-1 - d) = 1 := const_INVSQRT_A_MINUS_D_sq

/-- **The equation determining the encoding.**  For a point `(x, y)` of the curve with `w = (1−y²)x²y²` a nonzero
square (every point of the even subgroup outside `E[4]`), in any projective representation `(xZ, yZ, Z, xyZ)`:
`s² (1 + y*) = 1 − y*`. -/
theorem encS_sq {x y Z : Fp} (hZ : Z ≠ 0) (hc : onCurve d x y) (hw0 : encW x y ≠ 0) (hwsq : IsSquare (encW x y)) :
    encS (x * Z) (y * Z) Z (x * y * Z) ^ 2 * (1 + selY x y) = 1 - selY x y := by
  have hi := Dalek.FieldFacts.sqrtM1_sq
  have hm := magic_sq
  have hrot := curve_rot hc
  have harg : (Z + y * Z) * (Z - y * Z) * (x * Z * (y * Z)) ^ 2 = Z ^ 6 * encW x y := by
    unfold encW; ring
  have harg0 : Z ^ 6 * encW x y ≠ 0 := mul_ne_zero (pow_ne_zero _ hZ) hw0
  have hsq : IsSquare (1 / (Z ^ 6 * encW x y)) := by
    rw [one_div, isSquare_inv]
    obtain ⟨r, hr⟩ := hwsq
    exact ⟨Z ^ 3 * r, by rw [hr]; ring⟩
  have hJ : encI (x * Z) (y * Z) Z ^ 2 * (Z ^ 6 * encW x y) = 1 := by
    unfold encI; rw [harg]
    exact ((sqrtRatioFp_spec 1 _).2.2.1 harg0 hsq).2
  have hw : encW x y = (1 - y ^ 2) * x ^ 2 * y ^ 2 := rfl
  have hz : encZinv (x * Z) (y * Z) Z (x * y * Z) * Z = 1 := by
    unfold encZinv; rw [hw] at hJ; linear_combination hJ
  have hzT : x * y * Z * encZinv (x * Z) (y * Z) Z (x * y * Z) = x * y := by
    linear_combination (x * y) * hz
  have hrotiff : encRot (x * Z) (y * Z) Z (x * y * Z) ↔ fpIsNeg (x * y) := by
    show fpIsNeg (x * y * Z * encZinv (x * Z) (y * Z) Z (x * y * Z)) ↔ _
    rw [hzT]
  rw [hw] at hJ
  generalize hJdef : encI (x * Z) (y * Z) Z = J at hJ
  by_cases hr : fpIsNeg (x * y)
  · -- rotated
    have hr' : encRot (x * Z) (y * Z) Z (x * y * Z) := hrotiff.2 hr
    have hX : encX (x * Z) (y * Z) Z (x * y * Z) = y * Z * sqrtM1 := by unfold encX; rw [if_pos hr']
    have hY0 : encY0 (x * Z) (y * Z) Z (x * y * Z) = x * Z * sqrtM1 := by unfold encY0; rw [if_pos hr']
    have hDen : encDen (x * Z) (y * Z) Z (x * y * Z) = J * ((Z + y * Z) * (Z - y * Z)) * invSqrtAmD := by
      unfold encDen; rw [if_pos hr', hJdef]
    have hXz : encX (x * Z) (y * Z) Z (x * y * Z) * encZinv (x * Z) (y * Z) Z (x * y * Z) = sqrtM1 * y := by
      rw [hX]; linear_combination (sqrtM1 * y) * hz
    have hx1 : selX1 x y = sqrtM1 * y := by unfold selX1; rw [if_pos hr]
    have hy1 : selY1 x y = sqrtM1 * x := by unfold selY1; rw [if_pos hr]
    unfold encS encY selY
    rw [hXz, hx1, hy1, hY0, hDen, fpAbs_sq]
    by_cases hn : fpIsNeg (sqrtM1 * y)
    · rw [if_pos hn, if_pos hn]
      linear_combination (1 + sqrtM1 * x) * hJ
        + (J ^ 2 * Z ^ 6 * (1 - y ^ 2) * x ^ 2 * y ^ 2 * (1 + sqrtM1 * x)) * hm
        + (J ^ 2 * Z ^ 6 * invSqrtAmD ^ 2 * (1 - y ^ 2) * (1 + sqrtM1 * x)) * hrot
        - (J ^ 2 * Z ^ 6 * invSqrtAmD ^ 2 * (1 - y ^ 2) ^ 2 * (1 + sqrtM1 * x) * x ^ 2) * hi
    · rw [if_neg hn, if_neg hn]
      linear_combination (1 - sqrtM1 * x) * hJ
        + (J ^ 2 * Z ^ 6 * (1 - y ^ 2) * x ^ 2 * y ^ 2 * (1 - sqrtM1 * x)) * hm
        + (J ^ 2 * Z ^ 6 * invSqrtAmD ^ 2 * (1 - y ^ 2) * (1 - sqrtM1 * x)) * hrot
        - (J ^ 2 * Z ^ 6 * invSqrtAmD ^ 2 * (1 - y ^ 2) ^ 2 * (1 - sqrtM1 * x) * x ^ 2) * hi
  · -- not rotated
    have hr' : ¬ encRot (x * Z) (y * Z) Z (x * y * Z) := fun h => hr (hrotiff.1 h)
    have hX : encX (x * Z) (y * Z) Z (x * y * Z) = x * Z := by unfold encX; rw [if_neg hr']
    have hY0 : encY0 (x * Z) (y * Z) Z (x * y * Z) = y * Z := by unfold encY0; rw [if_neg hr']
    have hDen : encDen (x * Z) (y * Z) Z (x * y * Z) = J * (x * Z * (y * Z)) := by
      unfold encDen; rw [if_neg hr', hJdef]
    have hXz : encX (x * Z) (y * Z) Z (x * y * Z) * encZinv (x * Z) (y * Z) Z (x * y * Z) = x := by
      rw [hX]; linear_combination x * hz
    have hx1 : selX1 x y = x := by unfold selX1; rw [if_neg hr]
    have hy1 : selY1 x y = y := by unfold selY1; rw [if_neg hr]
    unfold encS encY selY
    rw [hXz, hx1, hy1, hY0, hDen, fpAbs_sq]
    by_cases hn : fpIsNeg x
    · rw [if_pos hn, if_pos hn]
      linear_combination (1 + y) * hJ
    · rw [if_neg hn, if_neg hn]
      linear_combination (1 - y) * hJ

/-- `s ≥ 0` always -/
theorem not_fpIsNeg_encS (X Y Z T : Fp) : ¬ fpIsNeg (encS X Y Z T) := not_fpIsNeg_fpAbs _

/-- the points with `x y = 0` (the coset `E[4]`) encode to `0` -/
theorem encS_of_mul_eq_zero {X Y : Fp} (Z T : Fp) (h : X * Y = 0) : encS X Y Z T = 0 := by
  have hJ : encI X Y Z = 0 := by
    unfold encI
    have h0 : (Z + Y) * (Z - Y) * (X * Y) ^ 2 = 0 := by rw [h]; ring
    rw [h0, ((sqrtRatioFp_spec 1 0).2.1 rfl one_ne_zero)]
  unfold encS encDen
  rw [hJ]
  simp only [zero_mul, ite_self]
  exact fpAbs_zero

/-! ## The selection is constant on cosets of `E[4]` -/

theorem sel_neg_pair {X1 : Fp} (Y1 : Fp) (h : X1 ≠ 0) :
    (if fpIsNeg (-X1) then -(-Y1) else -Y1) = if fpIsNeg X1 then -Y1 else Y1 := by
  by_cases hn : fpIsNeg X1
  · rw [if_pos hn, if_neg ((fpIsNeg_neg h).not.2 (not_not.2 hn))]
  · rw [if_neg hn, if_pos ((fpIsNeg_neg h).2 hn), neg_neg]

theorem selX1_ne_zero {x y : Fp} (h : x * y ≠ 0) : selX1 x y ≠ 0 := by
  unfold selX1; split
  · exact mul_ne_zero Bridge.sqrtM1_ne_zero (right_ne_zero_of_mul h)
  · exact left_ne_zero_of_mul h

/-- translation by `(0, −1)` -/
theorem selY_neg {x y : Fp} (h : x * y ≠ 0) : selY (-x) (-y) = selY x y := by
  have hx1 : selX1 (-x) (-y) = -selX1 x y := by
    unfold selX1; rw [neg_mul_neg]; split <;> ring
  have hy1 : selY1 (-x) (-y) = -selY1 x y := by
    unfold selY1; rw [neg_mul_neg]; split <;> ring
  unfold selY
  rw [hx1, hy1]
  exact sel_neg_pair _ (selX1_ne_zero h)

/-- translation by `(i, 0)` -/
theorem selY_rot {x y : Fp} (h : x * y ≠ 0) : selY (sqrtM1 * y) (sqrtM1 * x) = selY x y := by
  have hi := Dalek.FieldFacts.sqrtM1_sq
  have hprod : sqrtM1 * y * (sqrtM1 * x) = -(x * y) := by linear_combination (x * y) * hi
  by_cases hn : fpIsNeg (x * y)
  · have hn' : ¬ fpIsNeg (-(x * y)) := (fpIsNeg_neg h).not.2 (not_not.2 hn)
    have hx1 : selX1 (sqrtM1 * y) (sqrtM1 * x) = selX1 x y := by
      unfold selX1; rw [hprod, if_neg hn', if_pos hn]
    have hy1 : selY1 (sqrtM1 * y) (sqrtM1 * x) = selY1 x y := by
      unfold selY1; rw [hprod, if_neg hn', if_pos hn]
    unfold selY; rw [hx1, hy1]
  · have hn' : fpIsNeg (-(x * y)) := (fpIsNeg_neg h).2 hn
    have hx1 : selX1 (sqrtM1 * y) (sqrtM1 * x) = -selX1 x y := by
      unfold selX1; rw [hprod, if_pos hn', if_neg hn]; linear_combination x * hi
    have hy1 : selY1 (sqrtM1 * y) (sqrtM1 * x) = -selY1 x y := by
      unfold selY1; rw [hprod, if_pos hn', if_neg hn]; linear_combination y * hi
    unfold selY; rw [hx1, hy1]
    exact sel_neg_pair _ (selX1_ne_zero h)

theorem encW_neg (x y : Fp) : encW (-x) (-y) = encW x y := by unfold encW; ring

theorem encW_ne_zero_iff {x y : Fp} (hc : onCurve d x y) : encW x y ≠ 0 ↔ x * y ≠ 0 := by
  unfold encW
  constructor
  · intro h h0
    apply h
    have : x ^ 2 * y ^ 2 = 0 := by rw [← mul_pow, h0]; ring
    rw [mul_assoc, this, mul_zero]
  · intro h
    have hx := left_ne_zero_of_mul h
    have hy := right_ne_zero_of_mul h
    refine mul_ne_zero (mul_ne_zero ?_ (pow_ne_zero _ hx)) (pow_ne_zero _ hy)
    intro h1
    -- y² = 1 forces x = 0
    unfold Dalek.Edwards.onCurve at hc
    have : x ^ 2 * (1 + d) = 0 := by linear_combination (d * x ^ 2 - 1) * h1 - hc
    rcases mul_eq_zero.1 this with h' | h'
    · exact hx ((pow_eq_zero_iff two_ne_zero).1 h')
    · exact d_ne_neg_one (by linear_combination h')

/-- `w` of the rotated representative: `w w' = (a − d) (x y)⁶` -/
theorem encW_rot {x y : Fp} (hc : onCurve d x y) :
    encW x y * encW (sqrtM1 * y) (sqrtM1 * x) = (-1 - d) * (x * y) ^ 6 := by
  have hi := Dalek.FieldFacts.sqrtM1_sq
  have hrot := curve_rot hc
  unfold encW
  linear_combination (x ^ 4 * y ^ 4) * hrot
    + ((1 - y ^ 2) * x ^ 4 * y ^ 4 * ((sqrtM1 ^ 2 - 1) - x ^ 2 * (sqrtM1 ^ 4 - sqrtM1 ^ 2 + 1))) * hi

theorem isSquare_encW_rot {x y : Fp} (hc : onCurve d x y) (hxy : x * y ≠ 0) (h : IsSquare (encW x y)) :
    IsSquare (encW (sqrtM1 * y) (sqrtM1 * x)) := by
  have hw0 := (encW_ne_zero_iff hc).2 hxy
  have hrot := encW_rot hc
  have hm := magic_sq
  obtain ⟨r, hr⟩ := h
  have hr0 : r ≠ 0 := by rintro rfl; exact hw0 (by rw [hr, mul_zero])
  have hm0 : invSqrtAmD ≠ 0 := by
    rintro h0; rw [h0] at hm; simp at hm
  refine ⟨(x * y) ^ 3 / (invSqrtAmD * r), ?_⟩
  rw [hr] at hrot
  have key : encW (sqrtM1 * y) (sqrtM1 * x) * (invSqrtAmD * r) ^ 2 = ((x * y) ^ 3) ^ 2 := by
    linear_combination (invSqrtAmD ^ 2) * hrot + ((x * y) ^ 6) * hm
  rw [div_mul_div_comm, ← sq, ← sq, eq_div_iff (pow_ne_zero _ (mul_ne_zero hm0 hr0))]
  exact key

theorem selY_sq (x y : Fp) :
    (1 + selY x y) * (1 - selY x y) = if fpIsNeg (x * y) then 1 + x ^ 2 else 1 - y ^ 2 := by
  have hi := Dalek.FieldFacts.sqrtM1_sq
  unfold selY selY1
  by_cases hr : fpIsNeg (x * y)
  · rw [if_pos hr, if_pos hr]; split <;> linear_combination (-x ^ 2) * hi
  · rw [if_neg hr, if_neg hr]; split <;> ring

theorem one_add_selY_ne_zero {x y : Fp} (hc : onCurve d x y) (hxy : x * y ≠ 0) : 1 + selY x y ≠ 0 := by
  have hw0 := (encW_ne_zero_iff hc).2 hxy
  have hrot := curve_rot hc
  intro h
  have hs := selY_sq x y
  rw [h, zero_mul] at hs
  have hy2 : 1 - y ^ 2 ≠ 0 := by
    intro h'; apply hw0; unfold encW; rw [h']; ring
  split at hs
  · have : (1 - y ^ 2) * (1 + x ^ 2) = 0 := by rw [← hs, mul_zero]
    rw [hrot] at this
    have h3 : (-1 - d) * (x * y) ^ 2 = 0 := by linear_combination this
    rcases mul_eq_zero.1 h3 with h' | h'
    · exact d_ne_neg_one (by linear_combination -h')
    · exact hxy ((pow_eq_zero_iff two_ne_zero).1 h')
  · exact hy2 hs.symm

theorem repExt_coords {P : Ed} {X Y Z T : Fp} (h : RepExt P X Y Z T) :
    X = P.x * Z ∧ Y = P.y * Z ∧ T = P.x * P.y * Z := by
  obtain ⟨hZ, hx, hy, hT⟩ := h
  have h1 : X = P.x * Z := by rw [hx]; field_simp
  have h2 : Y = P.y * Z := by rw [hy]; field_simp
  refine ⟨h1, h2, ?_⟩
  apply mul_left_cancel₀ hZ
  rw [← hT, h1, h2]; ring

/-- what translation by a 4-torsion point preserves -/
theorem coset_data {P Q T4 : Ed} (hT : IsE4 T4) (hQ : Q = P + T4) (hxy : P.x * P.y ≠ 0)
    (hsq : IsSquare (encW P.x P.y)) :
    Q.x * Q.y ≠ 0 ∧ IsSquare (encW Q.x Q.y) ∧ selY Q.x Q.y = selY P.x P.y := by
  have hi := Dalek.FieldFacts.sqrtM1_sq
  have hc : onCurve d P.x P.y := P.on
  have hrxy : sqrtM1 * P.y * (sqrtM1 * P.x) ≠ 0 := by
    have : sqrtM1 * P.y * (sqrtM1 * P.x) = -(P.x * P.y) := by linear_combination (P.x * P.y) * hi
    rw [this]; exact neg_ne_zero.2 hxy
  rcases hT with h | h | h | h
  · rw [h, add_zero] at hQ; rw [hQ]; exact ⟨hxy, hsq, rfl⟩
  · rw [h] at hQ
    obtain ⟨hx, hy⟩ := add_tors2 P
    rw [hQ, hx, hy]
    refine ⟨by rw [neg_mul_neg]; exact hxy, by rw [encW_neg]; exact hsq, selY_neg hxy⟩
  · rw [h] at hQ
    obtain ⟨hx, hy⟩ := add_tors4 P
    rw [hQ, hx, hy]
    exact ⟨hrxy, isSquare_encW_rot hc hxy hsq, selY_rot hxy⟩
  · rw [h] at hQ
    obtain ⟨hx, hy⟩ := add_neg_tors4 P
    rw [hQ, hx, hy]
    refine ⟨by rw [neg_mul_neg]; exact hrxy, by rw [encW_neg]; exact isSquare_encW_rot hc hxy hsq, ?_⟩
    rw [selY_neg hrxy]; exact selY_rot hxy

/-- **ENCODE is constant on cosets of `E[4]`** and does not depend on the projective representation: if the extended
points `(X:Y:Z:T)`, `(X':Y':Z':T')` denote `P` and `P + T4` with `T4 ∈ E[4]`, and `(1−y²)x²y²` is a square for `P`
(every point of the even subgroup: `isSquare_encW_even`), then `compress` computes the same `s` for both. -/
theorem encS_coset {P Q T4 : Ed} (hT : IsE4 T4) (hQ : Q = P + T4) (hsq : IsSquare (encW P.x P.y))
    {X Y Z T X' Y' Z' T' : Fp} (hP : RepExt P X Y Z T) (hQ' : RepExt Q X' Y' Z' T') :
    encS X' Y' Z' T' = encS X Y Z T := by
  obtain ⟨hX, hY, hTT⟩ := repExt_coords hP
  obtain ⟨hX', hY', hTT'⟩ := repExt_coords hQ'
  by_cases hxy : P.x * P.y = 0
  · -- the coset `E[4]` itself: everything encodes to `0`
    have hxy' : Q.x * Q.y = 0 := by
      have hi := Dalek.FieldFacts.sqrtM1_sq
      rcases hT with h | h | h | h
      · rw [h, add_zero] at hQ; rw [hQ]; exact hxy
      · rw [h] at hQ; obtain ⟨hx, hy⟩ := add_tors2 P
        rw [hQ, hx, hy, neg_mul_neg]; exact hxy
      · rw [h] at hQ; obtain ⟨hx, hy⟩ := add_tors4 P
        rw [hQ, hx, hy]; linear_combination (sqrtM1 ^ 2) * hxy
      · rw [h] at hQ; obtain ⟨hx, hy⟩ := add_neg_tors4 P
        rw [hQ, hx, hy]; linear_combination (sqrtM1 ^ 2) * hxy
    rw [encS_of_mul_eq_zero Z T (by rw [hX, hY]; linear_combination (Z ^ 2) * hxy),
      encS_of_mul_eq_zero Z' T' (by rw [hX', hY']; linear_combination (Z' ^ 2) * hxy')]
  · obtain ⟨hxy', hsq', hsel⟩ := coset_data hT hQ hxy hsq
    have hc : onCurve d P.x P.y := P.on
    have hc' : onCurve d Q.x Q.y := Q.on
    have e1 := encS_sq hP.1 hc ((encW_ne_zero_iff hc).2 hxy) hsq
    have e2 := encS_sq hQ'.1 hc' ((encW_ne_zero_iff hc').2 hxy') hsq'
    rw [← hX, ← hY, ← hTT] at e1
    rw [← hX', ← hY', ← hTT', hsel] at e2
    have hne := one_add_selY_ne_zero hc hxy
    have hsqeq : encS X' Y' Z' T' ^ 2 = encS X Y Z T ^ 2 := by
      apply mul_right_cancel₀ hne
      rw [e1, e2]
    have := fpAbs_eq_of_sq_eq hsqeq (not_fpIsNeg_encS X Y Z T)
    rwa [fpAbs_of_not_neg (not_fpIsNeg_encS X' Y' Z' T')] at this

end Dalek.Proofs.Ris

/-
  Dalek.Spec.Field — executable specification of GF(2^255 - 19).

  Field elements are plain `Nat`s; every operation returns the canonical representative `< P`
  (for arbitrary `Nat` inputs).  Only Lean core is imported.
-/

namespace Dalek.Spec

/-- The field characteristic `p = 2^255 - 19`. -/
abbrev P : Nat := 2^255 - 19

/-! ### Modular exponentiation (square and multiply, LSB first, explicit fuel) -/

/-- `powModAux m fuel a e acc = acc * a^e mod m` provided `e < 2^fuel`. -/
def powModAux (m : Nat) : Nat → Nat → Nat → Nat → Nat
  | 0, _, _, acc => acc
  | fuel + 1, a, e, acc =>
    if e = 0 then acc
    else powModAux m fuel (a * a % m) (e / 2) (if e % 2 = 1 then acc * a % m else acc)

/-- `a^e mod m` (for `m > 1`). -/
def powMod (m a e : Nat) : Nat := powModAux m (e.log2 + 1) (a % m) e (1 % m)

/-! ### Field operations -/

def fadd (a b : Nat) : Nat := (a + b) % P
def fneg (a : Nat) : Nat := (P - a % P) % P
def fsub (a b : Nat) : Nat := (a + (P - b % P)) % P
def fmul (a b : Nat) : Nat := (a * b) % P
def fsq (a : Nat) : Nat := (a * a) % P
def fpow (a e : Nat) : Nat := powMod P a e
/-- Inverse by Fermat; `finv 0 = 0`. -/
def finv (a : Nat) : Nat := fpow a (P - 2)

/-- `sqrt(-1)`: `2^((p-1)/4) mod p`, the non-negative (even) root. -/
def SQRT_M1 : Nat :=
  19681161376707505956807079304988542015446066515923890162744021073123829784752

/-- "Negative" in the sense of RFC 8032 / RFC 9496: the canonical representative is odd. -/
def isNeg (a : Nat) : Bool := (a % P) % 2 == 1
/-- Absolute value: the non-negative one of `a`, `-a`. -/
def fabs (a : Nat) : Nat := if isNeg a then fneg a else a % P

/-- `SQRT_RATIO_M1(u, v)` of RFC 9496 §4.2 (= dalek `FieldElement::sqrt_ratio_i`).

  * `(true,  +sqrt(u/v))`   if `v ≠ 0` and `u/v` is square;
  * `(true,  0)`            if `u = 0`;
  * `(false, 0)`            if `v = 0` and `u ≠ 0`;
  * `(false, +sqrt(i*u/v))` otherwise.  The root returned is always non-negative (even). -/
def sqrtRatioM1 (u v : Nat) : Bool × Nat :=
  let u := u % P
  let v := v % P
  let v3 := fmul (fsq v) v
  let v7 := fmul (fsq v3) v
  let r := fmul (fmul u v3) (fpow (fmul u v7) ((P - 5) / 8))
  let check := fmul v (fsq r)
  let correctSignSqrt := check == u
  let flippedSignSqrt := check == fneg u
  let flippedSignSqrtI := check == fmul (fneg u) SQRT_M1
  let rPrime := fmul SQRT_M1 r
  let r := if flippedSignSqrt || flippedSignSqrtI then rPrime else r
  let r := fabs r
  (correctSignSqrt || flippedSignSqrt, r)

/-! ### Byte codecs (little endian) -/

def leToNat : List UInt8 → Nat
  | [] => 0
  | b :: bs => b.toNat + 256 * leToNat bs

def natToLe (n : Nat) : Nat → List UInt8
  | 0 => []
  | len + 1 => UInt8.ofNat (n % 256) :: natToLe (n / 256) len

/-- dalek `FieldElement::from_bytes`: bit 255 is ignored, the 255-bit value is reduced mod p. -/
def feFromBytes (b : List UInt8) : Nat := (leToNat b % 2^255) % P
/-- dalek `FieldElement::as_bytes`: canonical 32-byte little-endian encoding. -/
def feToBytes (a : Nat) : List UInt8 := natToLe (a % P) 32

end Dalek.Spec

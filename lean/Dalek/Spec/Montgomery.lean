/-
  Dalek.Spec.Montgomery — RFC 7748 X25519 (transcribed from the RFC pseudo-code), the generic
  Montgomery ladder on an MSB-first bit list (dalek `MontgomeryPoint::mul_bits_be`), the
  birational maps to/from the Edwards curve and dalek's Elligator2 `elligator_encode`.
-/
import Dalek.Spec.Edwards

namespace Dalek.Spec

/-- `(A - 2)/4` for `A = 486662`. -/
def a24 : Nat := 121665

def MONTGOMERY_A : Nat := 486662

/-- State of the RFC 7748 ladder. -/
structure Ladder where
  x2 : Nat
  z2 : Nat
  x3 : Nat
  z3 : Nat
  swap : Bool
  deriving Repr, DecidableEq

def cswap (swap : Bool) (a b : Nat) : Nat × Nat := if swap then (b, a) else (a, b)

/-- One iteration of the RFC 7748 §5 loop body for key bit `kt`; `x1` is the base `u`. -/
def ladderStep (x1 : Nat) (s : Ladder) (kt : Bool) : Ladder :=
  let swap := s.swap != kt
  let (x2, x3) := cswap swap s.x2 s.x3
  let (z2, z3) := cswap swap s.z2 s.z3
  let A := fadd x2 z2
  let AA := fsq A
  let B := fsub x2 z2
  let BB := fsq B
  let E := fsub AA BB
  let C := fadd x3 z3
  let D := fsub x3 z3
  let DA := fmul D A
  let CB := fmul C B
  { x3 := fsq (fadd DA CB)
    z3 := fmul x1 (fsq (fsub DA CB))
    x2 := fmul AA BB
    z2 := fmul E (fadd AA (fmul a24 E))
    swap := kt }

/-- The ladder on an arbitrary MSB-first bit list (no clamping); the result is the affine
  `u`-coordinate `x2 / z2` (`0` when `z2 = 0`).  This is dalek's `mul_bits_be` and, for the
  255 bits of a clamped scalar, the body of RFC 7748 `X25519`. -/
def ladderBitsBE (u : Nat) (bits : List Bool) : Nat :=
  let x1 := u % P
  let s := bits.foldl (ladderStep x1) { x2 := 1, z2 := 0, x3 := x1, z3 := 1, swap := false }
  let (x2, _) := cswap s.swap s.x2 s.x3
  let (z2, _) := cswap s.swap s.z2 s.z3
  fmul x2 (fpow z2 (P - 2))

/-- Bits `n-1, …, 0` of `k`, most significant first. -/
def bitsBE (k : Nat) : Nat → List Bool
  | 0 => []
  | t + 1 => ((k >>> t) % 2 == 1) :: bitsBE k t

/-- RFC 7748 `decodeScalar25519`. -/
def decodeScalar25519 (k : List UInt8) : Nat := clampedNat k

/-- RFC 7748 `decodeUCoordinate` (bit 255 masked) followed by reduction mod p. -/
def decodeUCoordinate (u : List UInt8) : Nat := feFromBytes u

def encodeUCoordinate (u : Nat) : List UInt8 := feToBytes u

/-- RFC 7748 §5 `X25519(k, u)`. -/
def x25519 (k u : List UInt8) : List UInt8 :=
  encodeUCoordinate (ladderBitsBE (decodeUCoordinate u) (bitsBE (decodeScalar25519 k) 255))

/-- The X25519 base point `u = 9`. -/
def X25519_BASEPOINT : List UInt8 := natToLe 9 32

/-- dalek `MontgomeryPoint * Scalar`: the ladder over bits 254…0 of the scalar's 32 bytes
  (bit 255 is skipped; scalars are `< 2^255` by invariant). -/
def montMul (u : List UInt8) (scalarBytes : List UInt8) : List UInt8 :=
  feToBytes (ladderBitsBE (feFromBytes u) (bitsBE (leToNat scalarBytes) 255))

/-- dalek `EdwardsPoint::to_montgomery`: `u = (1+y)/(1-y)`; the identity (`y = 1`) maps to `0`. -/
def toMontgomery (p : Pt) : Nat := fmul (fadd 1 p.y) (finv (fsub 1 p.y))

/-- dalek `MontgomeryPoint::to_edwards(sign)`: `None` for `u = -1`, else decompress
  `y = (u-1)/(u+1)` with the given sign bit. -/
def toEdwards (u : Nat) (sign : Bool) : Option Pt :=
  let u := u % P
  if u = P - 1 then none
  else
    let y := fmul (fsub u 1) (finv (fadd u 1))
    decompress (setSignBit (feToBytes y) sign)

/-- dalek `montgomery::elligator_encode` (Elligator2 to the Montgomery curve). -/
def elligatorEncode (r0 : Nat) : Nat :=
  let d1 := fadd 1 (fmul 2 (fsq r0))              -- 1 + 2r²
  let d := fmul (fneg MONTGOMERY_A) (finv d1)     -- -A/(1+2r²)
  let dsq := fsq d
  let au := fmul MONTGOMERY_A d
  let inner := fadd (fadd dsq au) 1
  let eps := fmul d inner                          -- d³ + Ad² + d
  let (epsIsSq, _) := sqrtRatioM1 eps 1
  if epsIsSq then d else fneg (fadd d MONTGOMERY_A)

end Dalek.Spec

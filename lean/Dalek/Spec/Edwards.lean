/-
  Dalek.Spec.Edwards — the twisted Edwards curve -x² + y² = 1 + d x² y² over GF(2^255-19),
  affine points, complete addition law, scalar multiplication, (de)compression as in
  RFC 8032 §5.1.2/5.1.3 with dalek's acceptance rules.
-/
import Dalek.Spec.Scalar

namespace Dalek.Spec

/-- `d = -121665/121666 mod p`. -/
def D : Nat :=
  37095705934669439343138083508754565189542113879843219016388785533085940283555

/-- Affine point (coordinates are canonical field elements). -/
structure Pt where
  x : Nat
  y : Nat
  deriving DecidableEq, Repr, Inhabited

/-- `-x² + y² = 1 + d x² y²`. -/
def onCurve (p : Pt) : Bool :=
  let xx := fsq p.x
  let yy := fsq p.y
  fsub yy xx == fadd 1 (fmul D (fmul xx yy))

namespace Pt

def zero : Pt := ⟨0, 1⟩

def neg (p : Pt) : Pt := ⟨fneg p.x, p.y % P⟩

/-- Complete twisted Edwards addition law (a = -1). -/
def add (p q : Pt) : Pt :=
  let x1y2 := fmul p.x q.y
  let y1x2 := fmul p.y q.x
  let y1y2 := fmul p.y q.y
  let x1x2 := fmul p.x q.x
  let dxxyy := fmul D (fmul x1x2 y1y2)
  ⟨fmul (fadd x1y2 y1x2) (finv (fadd 1 dxxyy)),
   fmul (fadd y1y2 x1x2) (finv (fsub 1 dxxyy))⟩

def sub (p q : Pt) : Pt := add p (neg q)

def double (p : Pt) : Pt := add p p

/-- MSB-first double-and-add with explicit fuel (`n < 2^fuel`). -/
def smulFuel : Nat → Nat → Pt → Pt
  | 0, _, _ => zero
  | fuel + 1, n, p =>
    if n = 0 then zero
    else
      let h := smulFuel fuel (n / 2) p
      let d := add h h
      if n % 2 = 1 then add d p else d

/-- `[n]p`. -/
def smul (n : Nat) (p : Pt) : Pt := smulFuel (n.log2 + 1) n p

/-- `Σ nᵢ·pᵢ` (over the shorter of the two lists). -/
def msm : List Nat → List Pt → Pt
  | n :: ns, p :: ps => add (smul n p) (msm ns ps)
  | _, _ => zero

def sum (ps : List Pt) : Pt := ps.foldl add zero

end Pt

/-- The Ed25519 basepoint: `y = 4/5`, `x` even. -/
def B : Pt :=
  ⟨15112221349535400772501151409588531511454012693041857206046113283949847762202,
   46316835694926478169428394003475163141307993866256225615783033603165251855960⟩

/-- Bit 255 of a 32-byte string. -/
def signBit (b : List UInt8) : Bool := (b.getD 31 0) >>> 7 == 1

/-- dalek `CompressedEdwardsY::decompress`.  `y` is the low 255 bits reduced mod p (non-canonical
  encodings are accepted), `x = +sqrt((y²-1)/(dy²+1))` negated if the sign bit is set.  Note that
  `x = 0` with sign bit 1 is accepted (and gives `x = 0`). -/
def decompress (b : List UInt8) : Option Pt :=
  let y := feFromBytes b
  let yy := fsq y
  let u := fsub yy 1
  let v := fadd (fmul D yy) 1
  let (ok, x) := sqrtRatioM1 u v
  if ok then some ⟨if signBit b then fneg x else x, y⟩ else none

/-- Set bit 255 of a 32-byte string. -/
def setSignBit (b : List UInt8) (s : Bool) : List UInt8 :=
  if s then modifyNth (fun x => x ||| 0x80) 31 b else b

/-- dalek `EdwardsPoint::compress` (RFC 8032 encoding). -/
def compress (p : Pt) : List UInt8 := setSignBit (feToBytes p.y) (isNeg p.x)

/-- dalek `constants::EIGHT_TORSION`, in the same index order (`T[i] = [i]T[1]`). -/
def eightTorsion : List Pt :=
  [ ⟨0, 1⟩,
    ⟨14399317868200118260347934320527232580618823971194345261214217575416788799818,
     55188659117513257062467267217118295137698188065244968500265048394206261417927⟩,
    ⟨38214883241950591754978413199355411911188925816896391856984770930832735035197, 0⟩,
    ⟨14399317868200118260347934320527232580618823971194345261214217575416788799818,
     2707385501144840649318225287225658788936804267575313519463743609750303402022⟩,
    ⟨0, 57896044618658097711785492504343953926634992332820282019728792003956564819948⟩,
    ⟨43496726750457979451437558183816721346016168361625936758514574428539776020131,
     2707385501144840649318225287225658788936804267575313519463743609750303402022⟩,
    ⟨19681161376707505956807079304988542015446066515923890162744021073123829784752, 0⟩,
    ⟨43496726750457979451437558183816721346016168361625936758514574428539776020131,
     55188659117513257062467267217118295137698188065244968500265048394206261417927⟩ ]

def isSmallOrder (p : Pt) : Bool := Pt.smul 8 p == Pt.zero
def isTorsionFree (p : Pt) : Bool := Pt.smul L p == Pt.zero
def isIdentity (p : Pt) : Bool := p == Pt.zero

end Dalek.Spec

/-
  Dalek.Spec.Ristretto — ristretto255 as in RFC 9496 §4: DECODE, ENCODE, EQUALS, MAP and the
  64-byte element-derivation function.  The internal representative of an element is a point of
  the Edwards curve (`Pt`, affine; the RFC's extended coordinates are `(x, y, 1, x*y)`).
-/
import Dalek.Spec.Edwards

namespace Dalek.Spec.Ristretto
open Dalek.Spec

def INVSQRT_A_MINUS_D : Nat :=
  54469307008909316920995813868745141605393597292927456921205312896311721017578
def SQRT_AD_MINUS_ONE : Nat :=
  25063068953384623474111414158702152701244531502492656460079210482610430750235
def ONE_MINUS_D_SQ : Nat :=
  1159843021668779879193775521855586647937357759715417654439879720876111806838
def D_MINUS_ONE_SQ : Nat :=
  40440834346308536858101042469323190826248399146238708352240133220865137265952

/-- RFC 9496 §4.3.1 DECODE. -/
def decode (b : List UInt8) : Option Pt :=
  let s := leToNat b
  if b.length != 32 || s ≥ P || isNeg s then none
  else
    let ss := fsq s
    let u1 := fsub 1 ss
    let u2 := fadd 1 ss
    let u2sqr := fsq u2
    let v := fsub (fneg (fmul D (fsq u1))) u2sqr
    let (wasSquare, invsqrt) := sqrtRatioM1 1 (fmul v u2sqr)
    let denX := fmul invsqrt u2
    let denY := fmul (fmul invsqrt denX) v
    let x := fabs (fmul (fmul 2 s) denX)
    let y := fmul u1 denY
    let t := fmul x y
    if !wasSquare || isNeg t || y == 0 then none else some ⟨x, y⟩

/-- RFC 9496 §4.3.2 ENCODE on extended coordinates `(x0 : y0 : z0 : t0)`. -/
def encodeExt (x0 y0 z0 t0 : Nat) : List UInt8 :=
  let u1 := fmul (fadd z0 y0) (fsub z0 y0)
  let u2 := fmul x0 y0
  let (_, invsqrt) := sqrtRatioM1 1 (fmul u1 (fsq u2))
  let den1 := fmul invsqrt u1
  let den2 := fmul invsqrt u2
  let zInv := fmul (fmul den1 den2) t0
  let ix0 := fmul x0 SQRT_M1
  let iy0 := fmul y0 SQRT_M1
  let enchantedDenominator := fmul den1 INVSQRT_A_MINUS_D
  let rotate := isNeg (fmul t0 zInv)
  let x := if rotate then iy0 else x0 % P
  let y := if rotate then ix0 else y0 % P
  let z := z0
  let denInv := if rotate then enchantedDenominator else den2
  let y := if isNeg (fmul x zInv) then fneg y else y
  let s := fabs (fmul denInv (fsub z y))
  feToBytes s

/-- ENCODE of the element represented by the affine point `p`. -/
def encode (p : Pt) : List UInt8 := encodeExt p.x p.y 1 (fmul p.x p.y)

/-- RFC 9496 §4.3.3 EQUALS. -/
def equals (p q : Pt) : Bool :=
  fmul p.x q.y == fmul p.y q.x || fmul p.y q.y == fmul p.x q.x

/-- RFC 9496 §4.3.4 MAP, returning extended coordinates `(X, Y, Z, T)`
  (dalek `elligator_ristretto_flavor`). -/
def mapExt (t : Nat) : Nat × Nat × Nat × Nat :=
  let r := fmul SQRT_M1 (fsq t)
  let u := fmul (fadd r 1) ONE_MINUS_D_SQ
  let v := fmul (fsub (fneg 1) (fmul r D)) (fadd r D)
  let (wasSquare, s) := sqrtRatioM1 u v
  let sPrime := fneg (fabs (fmul s t))
  let s := if wasSquare then s else sPrime
  let c := if wasSquare then fneg 1 else r
  let N := fsub (fmul (fmul c (fsub r 1)) D_MINUS_ONE_SQ) v
  let w0 := fmul (fmul 2 s) v
  let w1 := fmul N SQRT_AD_MINUS_ONE
  let w2 := fsub 1 (fsq s)
  let w3 := fadd 1 (fsq s)
  (fmul w0 w3, fmul w2 w1, fmul w1 w3, fmul w0 w2)

/-- MAP as an affine point. -/
def map (t : Nat) : Pt :=
  let (X, Y, Z, _) := mapExt t
  let zi := finv Z
  ⟨fmul X zi, fmul Y zi⟩

/-- RFC 9496 §4.3.4 element derivation from 64 uniform bytes: `MAP(lo) + MAP(hi)` where each
  half is interpreted little endian with bit 255 masked and reduced mod p. -/
def fromUniformBytes (b : List UInt8) : Pt :=
  Pt.add (map (feFromBytes (b.take 32))) (map (feFromBytes (b.drop 32)))

end Dalek.Spec.Ristretto

/-
  Dalek.Spec.Sha512 — SHA-512 as in FIPS 180-4 (§4.1.3, §4.2.3, §5.1.2, §5.3.5, §6.4).
  Words are `UInt64` (arithmetic mod 2^64); the message is a `List UInt8`.
-/

namespace Dalek.Spec.Sha512

def K : Array UInt64 := #[
  0x428a2f98d728ae22, 0x7137449123ef65cd, 0xb5c0fbcfec4d3b2f, 0xe9b5dba58189dbbc,
  0x3956c25bf348b538, 0x59f111f1b605d019, 0x923f82a4af194f9b, 0xab1c5ed5da6d8118,
  0xd807aa98a3030242, 0x12835b0145706fbe, 0x243185be4ee4b28c, 0x550c7dc3d5ffb4e2,
  0x72be5d74f27b896f, 0x80deb1fe3b1696b1, 0x9bdc06a725c71235, 0xc19bf174cf692694,
  0xe49b69c19ef14ad2, 0xefbe4786384f25e3, 0x0fc19dc68b8cd5b5, 0x240ca1cc77ac9c65,
  0x2de92c6f592b0275, 0x4a7484aa6ea6e483, 0x5cb0a9dcbd41fbd4, 0x76f988da831153b5,
  0x983e5152ee66dfab, 0xa831c66d2db43210, 0xb00327c898fb213f, 0xbf597fc7beef0ee4,
  0xc6e00bf33da88fc2, 0xd5a79147930aa725, 0x06ca6351e003826f, 0x142929670a0e6e70,
  0x27b70a8546d22ffc, 0x2e1b21385c26c926, 0x4d2c6dfc5ac42aed, 0x53380d139d95b3df,
  0x650a73548baf63de, 0x766a0abb3c77b2a8, 0x81c2c92e47edaee6, 0x92722c851482353b,
  0xa2bfe8a14cf10364, 0xa81a664bbc423001, 0xc24b8b70d0f89791, 0xc76c51a30654be30,
  0xd192e819d6ef5218, 0xd69906245565a910, 0xf40e35855771202a, 0x106aa07032bbd1b8,
  0x19a4c116b8d2d0c8, 0x1e376c085141ab53, 0x2748774cdf8eeb99, 0x34b0bcb5e19b48a8,
  0x391c0cb3c5c95a63, 0x4ed8aa4ae3418acb, 0x5b9cca4f7763e373, 0x682e6ff3d6b2b8a3,
  0x748f82ee5defb2fc, 0x78a5636f43172f60, 0x84c87814a1f0ab72, 0x8cc702081a6439ec,
  0x90befffa23631e28, 0xa4506cebde82bde9, 0xbef9a3f7b2c67915, 0xc67178f2e372532b,
  0xca273eceea26619c, 0xd186b8c721c0c207, 0xeada7dd6cde0eb1e, 0xf57d4f7fee6ed178,
  0x06f067aa72176fba, 0x0a637dc5a2c898a6, 0x113f9804bef90dae, 0x1b710b35131c471b,
  0x28db77f523047d84, 0x32caab7b40c72493, 0x3c9ebe0a15c9bebc, 0x431d67c49c100d4c,
  0x4cc5d4becb3e42b6, 0x597f299cfc657e2a, 0x5fcb6fab3ad6faec, 0x6c44198c4a475817]

/-- Hash state `H₀ … H₇` / working variables `a … h`. -/
structure State where
  a : UInt64
  b : UInt64
  c : UInt64
  d : UInt64
  e : UInt64
  f : UInt64
  g : UInt64
  h : UInt64
  deriving Repr, DecidableEq

/-- FIPS 180-4 §5.3.5. -/
def H0 : State :=
  { a := 0x6a09e667f3bcc908, b := 0xbb67ae8584caa73b, c := 0x3c6ef372fe94f82b,
    d := 0xa54ff53a5f1d36f1, e := 0x510e527fade682d1, f := 0x9b05688c2b3e6c1f,
    g := 0x1f83d9abfb41bd6b, h := 0x5be0cd19137e2179 }

def rotr (x : UInt64) (n : UInt64) : UInt64 := (x >>> n) ||| (x <<< (64 - n))

def ch (x y z : UInt64) : UInt64 := (x &&& y) ^^^ (~~~x &&& z)
def maj (x y z : UInt64) : UInt64 := (x &&& y) ^^^ (x &&& z) ^^^ (y &&& z)
def bigSigma0 (x : UInt64) : UInt64 := rotr x 28 ^^^ rotr x 34 ^^^ rotr x 39
def bigSigma1 (x : UInt64) : UInt64 := rotr x 14 ^^^ rotr x 18 ^^^ rotr x 41
def smallSigma0 (x : UInt64) : UInt64 := rotr x 1 ^^^ rotr x 8 ^^^ (x >>> 7)
def smallSigma1 (x : UInt64) : UInt64 := rotr x 19 ^^^ rotr x 61 ^^^ (x >>> 6)

/-- Message schedule `W₀ … W₇₉` from the 16 words of a block (§6.4.2 step 1). -/
def schedule (block : Array UInt64) : Array UInt64 :=
  (List.range 64).foldl
    (fun w i =>
      let t := i + 16
      w.push (smallSigma1 (w.getD (t - 2) 0) + w.getD (t - 7) 0
              + smallSigma0 (w.getD (t - 15) 0) + w.getD (t - 16) 0))
    block

/-- One round (§6.4.2 step 3). -/
def round (w : Array UInt64) (s : State) (t : Nat) : State :=
  let t1 := s.h + bigSigma1 s.e + ch s.e s.f s.g + K.getD t 0 + w.getD t 0
  let t2 := bigSigma0 s.a + maj s.a s.b s.c
  { a := t1 + t2, b := s.a, c := s.b, d := s.c, e := s.d + t1, f := s.e, g := s.f, h := s.g }

/-- Process one 1024-bit block (§6.4.2). -/
def compress (hs : State) (block : Array UInt64) : State :=
  let w := schedule block
  let s := (List.range 80).foldl (round w) hs
  { a := hs.a + s.a, b := hs.b + s.b, c := hs.c + s.c, d := hs.d + s.d,
    e := hs.e + s.e, f := hs.f + s.f, g := hs.g + s.g, h := hs.h + s.h }

/-- Big-endian bytes of a natural number, `len` bytes. -/
def natToBe (n : Nat) : Nat → List UInt8
  | 0 => []
  | len + 1 => UInt8.ofNat ((n >>> (8 * len)) % 256) :: natToBe n len

/-- Padding (§5.1.2): `0x80`, zeros up to 112 mod 128, then the bit length as 128-bit big endian. -/
def pad (msg : List UInt8) : List UInt8 :=
  let l := msg.length
  msg ++ (0x80 : UInt8) :: (List.replicate ((239 - l % 128) % 128) (0 : UInt8) ++ natToBe (8 * l) 16)

def be64 (b0 b1 b2 b3 b4 b5 b6 b7 : UInt8) : UInt64 :=
  (b0.toUInt64 <<< 56) ||| (b1.toUInt64 <<< 48) ||| (b2.toUInt64 <<< 40) ||| (b3.toUInt64 <<< 32) |||
  (b4.toUInt64 <<< 24) ||| (b5.toUInt64 <<< 16) ||| (b6.toUInt64 <<< 8) ||| b7.toUInt64

/-- Big-endian 64-bit words of a byte string (trailing `< 8` bytes are dropped). -/
def toWords : List UInt8 → List UInt64
  | b0 :: b1 :: b2 :: b3 :: b4 :: b5 :: b6 :: b7 :: rest => be64 b0 b1 b2 b3 b4 b5 b6 b7 :: toWords rest
  | _ => []

/-- Fold `compress` over the 16-word blocks of a word list (`fuel` ≥ number of blocks). -/
def hashBlocks : Nat → State → List UInt64 → State
  | 0, hs, _ => hs
  | fuel + 1, hs, ws =>
    if ws.length < 16 then hs
    else hashBlocks fuel (compress hs (ws.take 16).toArray) (ws.drop 16)

def wordToBytes (w : UInt64) : List UInt8 :=
  [ (w >>> 56).toUInt8, (w >>> 48).toUInt8, (w >>> 40).toUInt8, (w >>> 32).toUInt8,
    (w >>> 24).toUInt8, (w >>> 16).toUInt8, (w >>> 8).toUInt8, w.toUInt8 ]

def stateToBytes (s : State) : List UInt8 :=
  wordToBytes s.a ++ wordToBytes s.b ++ wordToBytes s.c ++ wordToBytes s.d ++
  wordToBytes s.e ++ wordToBytes s.f ++ wordToBytes s.g ++ wordToBytes s.h

end Dalek.Spec.Sha512

namespace Dalek.Spec

/-- SHA-512 of a byte string (64 bytes). -/
def sha512 (msg : List UInt8) : List UInt8 :=
  let ws := Sha512.toWords (Sha512.pad msg)
  Sha512.stateToBytes (Sha512.hashBlocks (ws.length / 16) Sha512.H0 ws)

end Dalek.Spec

/-
  Dalek.Spec.Scalar — integers modulo the basepoint order ℓ, clamping.
-/
import Dalek.Spec.Field

namespace Dalek.Spec

/-- The order of the Ed25519 basepoint / the Ristretto group. -/
abbrev L : Nat := 2^252 + 27742317777372353535851937790883648493

def sadd (a b : Nat) : Nat := (a + b) % L
def sneg (a : Nat) : Nat := (L - a % L) % L
def ssub (a b : Nat) : Nat := (a + (L - b % L)) % L
def smul (a b : Nat) : Nat := (a * b) % L
def spow (a e : Nat) : Nat := powMod L a e
/-- Inverse by Fermat; `sinv 0 = 0`. -/
def sinv (a : Nat) : Nat := spow a (L - 2)

def ssum (xs : List Nat) : Nat := xs.foldl sadd 0
def sprod (xs : List Nat) : Nat := xs.foldl smul 1

/-- 32-byte little-endian encoding of `a mod ℓ`. -/
def scToBytes (a : Nat) : List UInt8 := natToLe (a % L) 32
/-- `Scalar::from_bytes_mod_order` / `from_bytes_mod_order_wide` (any length). -/
def scFromBytesModOrder (b : List UInt8) : Nat := leToNat b % L

/-- `Scalar::from_canonical_bytes` succeeds. -/
def isCanonicalScalar (b : List UInt8) : Bool := b.length == 32 && leToNat b < L

/-- Modify one element of a list. -/
def modifyNth {α} (f : α → α) : Nat → List α → List α
  | _, [] => []
  | 0, x :: xs => f x :: xs
  | n + 1, x :: xs => x :: modifyNth f n xs

/-- `clamp_integer`: clear the low three bits of byte 0, clear bit 255, set bit 254. -/
def clampInteger (b : List UInt8) : List UInt8 :=
  modifyNth (fun x => (x &&& 0x7f) ||| 0x40) 31 (modifyNth (fun x => x &&& 0xf8) 0 b)

/-- RFC 7748 `decodeScalar25519`, also the Ed25519 secret scalar: the clamped integer. -/
def clampedNat (b : List UInt8) : Nat := leToNat (clampInteger b)

end Dalek.Spec

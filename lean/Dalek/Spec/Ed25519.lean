/-
  Dalek.Spec.Ed25519 — Ed25519 / Ed25519ph as in RFC 8032 §5.1, with the acceptance rules of
  ed25519-dalek 2.1.1 (`verify`, `verify_strict`, `verify_prehashed[_strict]`, `verify_batch`).

  The group computations enter through a small record `Ops` so that the same text can be run with
  the affine specification (`Ops.spec`) or with a faster implementation proved equal to it.
-/
import Dalek.Spec.Edwards
import Dalek.Spec.Sha512

namespace Dalek.Spec.Ed25519
open Dalek.Spec

/-- The three group computations used by Ed25519. -/
structure Ops where
  /-- `compress([n]B)` -/
  mulBase : Nat → List UInt8
  /-- `compress([s]B - [k]A)` (arguments `k A s`, as dalek's `vartime_double_scalar_mul_basepoint`) -/
  dsm : Nat → Pt → Nat → List UInt8
  /-- `[8]P = O` -/
  smallOrder : Pt → Bool

/-- The specification instance. -/
def Ops.spec : Ops where
  mulBase n := compress (Pt.smul n B)
  dsm k A s := compress (Pt.add (Pt.smul k (Pt.neg A)) (Pt.smul s B))
  smallOrder := isSmallOrder

/-- `"SigEd25519 no Ed25519 collisions"` -/
def dom2Prefix : List UInt8 := "SigEd25519 no Ed25519 collisions".toUTF8.toList

/-- RFC 8032 `dom2(f, c)`, defined for `len(c) ≤ 255`; all callers reject longer contexts
  beforehand (the length octet here would be `len(c) mod 256`). -/
def dom2 (f : UInt8) (c : List UInt8) : List UInt8 :=
  dom2Prefix ++ [f, UInt8.ofNat c.length] ++ c

/-- Hash to a scalar: SHA-512 interpreted little endian, reduced mod ℓ. -/
def hashToScalar (m : List UInt8) : Nat := leToNat (sha512 m) % L

/-- RFC 8032 §5.1.5: `(a, prefix)` where `a` is the clamped integer from the low half of
  `SHA-512(seed)` and `prefix` the high half. -/
def expandSeed (seed : List UInt8) : Nat × List UInt8 :=
  let h := sha512 seed
  (clampedNat (h.take 32), h.drop 32)

/-- dalek `ExpandedSecretKey::from_bytes`: `(clamp(lo) mod ℓ, hi)`. -/
def expandedFromBytes (esk : List UInt8) : Nat × List UInt8 :=
  (clampedNat (esk.take 32) % L, esk.drop 32)

/-- The public key `compress([a]B)`. -/
def publicKeyWith (ops : Ops) (seed : List UInt8) : List UInt8 := ops.mulBase (expandSeed seed).1

/-- RFC 8032 §5.1.6 with an explicit domain-separation prefix `dom` (empty for pure Ed25519),
  secret scalar `a`, hash prefix and the public-key bytes that go into the challenge. -/
def rawSignWith (ops : Ops) (dom : List UInt8) (a : Nat) (pre : List UInt8) (msg vk : List UInt8) :
    List UInt8 :=
  let r := hashToScalar (dom ++ pre ++ msg)
  let R := ops.mulBase r
  let k := hashToScalar (dom ++ R ++ vk ++ msg)
  let S := (r + k * a) % L
  R ++ natToLe S 32

/-- Ed25519 signature of `msg` under `seed`. -/
def signWith (ops : Ops) (seed msg : List UInt8) : List UInt8 :=
  let (a, pre) := expandSeed seed
  rawSignWith ops [] a pre msg (ops.mulBase a)

/-- Ed25519ph: `PH = SHA-512`, flag 1, optional context (default empty).  `none` when the context
  is longer than 255 octets. -/
def signPhWith (ops : Ops) (seed msg : List UInt8) (ctx : Option (List UInt8)) : Option (List UInt8) :=
  let c := ctx.getD []
  if c.length > 255 then none
  else
    let (a, pre) := expandSeed seed
    some (rawSignWith ops (dom2 1 c) a pre (sha512 msg) (ops.mulBase a))

/-- ed25519-dalek `check_scalar`.  Default build: `S` must be canonical (`< ℓ`).  With the
  `legacy_compatibility` feature: only the top three bits of the last byte must be clear. -/
def checkScalar (legacy : Bool) (sBytes : List UInt8) : Option Nat :=
  if legacy then
    if (sBytes.getD 31 0) &&& 224 != 0 then none else some (leToNat sBytes)
  else
    if leToNat sBytes < L then some (leToNat sBytes) else none

/-- Common verification core.  `vk` and `sig` are 32 and 64 bytes; `m` is the message that enters
  the challenge hash (the prehash for Ed25519ph).
  1. `A = decompress(vk)` must succeed (`VerifyingKey::from_bytes`);
  2. `S` must pass `checkScalar`;
  3. strict only: `R` must decompress, and neither `R` nor `A` may have small order;
  4. `k = H(dom ‖ R ‖ vk ‖ m) mod ℓ`; accept iff `compress([S]B - [k]A) = R` as byte strings. -/
def verifyCoreWith (ops : Ops) (legacy strict : Bool) (dom vk m sig : List UInt8) : Bool :=
  match decompress vk with
  | none => false
  | some A =>
    let Rb := sig.take 32
    match checkScalar legacy (sig.drop 32) with
    | none => false
    | some s =>
      let strictOk :=
        if strict then
          match decompress Rb with
          | none => false
          | some R => !(ops.smallOrder R || ops.smallOrder A)
        else true
      if !strictOk then false
      else
        let k := hashToScalar (dom ++ Rb ++ vk ++ m)
        ops.dsm k A s == Rb

def verifyWith (ops : Ops) (legacy strict : Bool) (vk msg sig : List UInt8) : Bool :=
  verifyCoreWith ops legacy strict [] vk msg sig

/-- `verify_prehashed[_strict]`: a context longer than 255 octets is rejected (as in signing and
  in RFC 8032, where `dom2` is only defined for `len(c) ≤ 255`). -/
def verifyPhWith (ops : Ops) (legacy strict : Bool) (vk msg : List UInt8) (ctx : Option (List UInt8))
    (sig : List UInt8) : Bool :=
  let c := ctx.getD []
  if c.length > 255 then false
  else verifyCoreWith ops legacy strict (dom2 1 c) vk (sha512 msg) sig

/-- One term of the batch equation: `[S]B - R - [k]A = O` (as points, so a non-canonical
  encoding of `R` is compared after decompression). `none` = malformed input. -/
def batchItemWith (ops : Ops) (legacy : Bool) (msg sig vk : List UInt8) : Option Bool :=
  match decompress vk, checkScalar legacy (sig.drop 32), decompress (sig.take 32) with
  | some A, some s, some R =>
    let k := hashToScalar (sig.take 32 ++ vk ++ msg)
    some (ops.dsm k A s == compress R)
  | _, _, _ => none

/-- Model of `verify_batch`: error if the lengths differ, if some key does not decode, if some `S`
  fails `checkScalar` or some `R` does not decompress; otherwise accept iff every individual
  equation holds.  (The real code checks one random linear combination with 128-bit
  coefficients; the two agree except with negligible probability when all points are
  torsion-free, which is what the generators send.) -/
def verifyBatchWith (ops : Ops) (legacy : Bool) (msgs sigs vks : List (List UInt8)) : Bool :=
  if msgs.length != sigs.length || sigs.length != vks.length then false
  else
    let items := (msgs.zip (sigs.zip vks)).map fun (m, s, v) => batchItemWith ops legacy m s v
    items.all fun r => r == some true

/-- The sequence of merlin transcript operations `(label, message)` performed by `verify_batch`
  (batch.rs), in call order:
  * nothing at all if the three lengths differ (the error is returned before the transcript exists);
  * `Transcript::new(b"ed25519 batch verification")`, recorded as `("new", label)`, immediately
    followed by the operation it is defined as in merlin, `append_message(b"dom-sep", label)`;
  * `append_message(b"hram", SHA-512(R_i ‖ A_i ‖ M_i))` for every `i`;
  * `append_message(b"sig.s", S_i)` for every `i`;
  * `build_rng().finalize(&mut ZeroRng)` with no `rekey_with_witness_bytes` in between, recorded as
    `("finalize", "")`.
  All of this happens BEFORE the signatures are converted to `InternalSignature`, so it does not
  depend on whether `S_i` is canonical or `R_i` decompresses. -/
def batchTranscript (msgs sigs vks : List (List UInt8)) : List (List UInt8 × List UInt8) :=
  if msgs.length != sigs.length || sigs.length != vks.length then []
  else
    let hrams := (msgs.zip (sigs.zip vks)).map fun (m, s, v) => sha512 (s.take 32 ++ v ++ m)
    [("new".toUTF8.toList, "ed25519 batch verification".toUTF8.toList),
     ("dom-sep".toUTF8.toList, "ed25519 batch verification".toUTF8.toList)]
      ++ hrams.map (fun hr => ("hram".toUTF8.toList, hr))
      ++ sigs.map (fun s => ("sig.s".toUTF8.toList, s.drop 32))
      ++ [("finalize".toUTF8.toList, [])]

/-! Instances with the specification group operations. -/
abbrev publicKey := publicKeyWith Ops.spec
abbrev sign := signWith Ops.spec
abbrev signPh := signPhWith Ops.spec
abbrev verify := verifyWith Ops.spec
abbrev verifyPh := verifyPhWith Ops.spec
abbrev verifyBatch := verifyBatchWith Ops.spec

end Dalek.Spec.Ed25519

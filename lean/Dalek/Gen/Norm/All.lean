import Dalek.Gen.Norm.Field51
import Dalek.Gen.Norm.Field26
import Dalek.Gen.Norm.Scalar52
import Dalek.Gen.Norm.Scalar29
import Dalek.Gen.Norm.Clamp
import Dalek.Gen.Norm.Avx2Field
import Dalek.Gen.Norm.IfmaField

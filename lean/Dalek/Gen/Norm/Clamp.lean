import Dalek.Gen.Norm.Clamp.clamp_integer

-- Root of the `Dalek` library: model (Mathlib-free), proofs and property theorems.
import Dalek.Driver.All
import Dalek.IR.LimbSound
import Dalek.IR.AlgSound
import Dalek.Gen.Norm.All
import Dalek.Proofs.EdwardsGroup
import Dalek.Proofs.FieldFacts
import Dalek.Props.All
import Dalek.Proofs.CurveOrder
import Dalek.Proofs.CurveOrder.Structure

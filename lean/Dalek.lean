-- Root of the `Dalek` library: model (Mathlib-free) and proofs.
import Dalek.Driver.All

/-
  dalek-model — the Lean model driver of PROTOCOL.md: one request per stdin line, one response per
  stdout line.  `--legacy` selects the `legacy_compatibility` rule for the signature scalar `S`.
-/
import Dalek.Driver.All

open Dalek.Driver

/-- Strip a trailing `\n` / `\r\n`. -/
def chomp (s : String) : String :=
  let cs := s.toList.reverse
  let cs := match cs with
    | '\n' :: '\r' :: r => r
    | '\n' :: r => r
    | r => r
  String.ofList cs.reverse

partial def loop (legacy : Bool) (stdin stdout : IO.FS.Stream) : IO Unit := do
  let line ← stdin.getLine
  if line.isEmpty then
    stdout.flush
  else
    stdout.putStrLn (handleLine legacy (chomp line))
    loop legacy stdin stdout

def main (args : List String) : IO UInt32 := do
  let legacy := args.contains "--legacy"
  let stdin ← IO.getStdin
  let stdout ← IO.getStdout
  loop legacy stdin stdout
  return 0

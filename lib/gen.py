"""Class-directed request generators.  Every function returns a list of (class_label, request_line).
All randomness derives from one SplitMix64 state (VERIF_SEED)."""
from pyref import *

M255 = (1 << 255) - 1


def H(n, k=32):
    return tole(n % (1 << (8 * k)), k).hex()


def lst(items):
    items = list(items)
    return ",".join(items) if items else "-"


# ------------------------------------------------------------------ value pools

def fe_pool(r, n_rand):
    """(label, 32-byte int) field-element encodings incl. non-canonical ones"""
    fixed = [("zero", 0), ("one", 1), ("two", 2), ("p-1", P - 1), ("p", P), ("p+1", P + 1), ("2^255-1", M255),
             ("2^255-18", M255 - 17), ("2^255", 1 << 255), ("2^256-1", (1 << 256) - 1), ("sqrtm1", SQRT_M1),
             ("-sqrtm1", P - SQRT_M1), ("d", D), ("2^51", 1 << 51), ("2^51-1", (1 << 51) - 1), ("2^204", 1 << 204),
             ("19", 19), ("p-19", P - 19), ("half", (P + 1) // 2), ("2^254", 1 << 254), ("2^26", 1 << 26), ("2^25", 1 << 25),
             ("allmax51", sum(((1 << 51) - 1) << (51 * i) for i in range(5)) % (1 << 255)),
             ("alt", int("aa" * 32, 16) & M255), ("alt2", int("55" * 32, 16))]
    out = list(fixed)
    for i in range(n_rand):
        k = r.below(5)
        if k == 0:
            out.append(("rand", r.below(1 << 256)))
        elif k == 1:
            out.append(("rand<p", r.below(P)))
        elif k == 2:
            out.append(("near_p", (P - 20 + r.below(60)) % (1 << 256)))
        elif k == 3:
            # sparse: few bits set, straddling limb boundaries
            v = 0
            for _ in range(1 + r.below(4)):
                v |= 1 << r.choice([0, 25, 26, 50, 51, 52, 76, 77, 101, 102, 103, 127, 128, 152, 153, 178, 203, 204, 205, 229, 230, 254, 255])
            out.append(("sparse", v))
        else:
            # all limbs near max
            v = sum((((1 << 51) - 1 - r.below(4)) << (51 * i)) for i in range(5))
            out.append(("limbmax", v % (1 << 256)))
    # values sharing a byte prefix (from the top) with the modulus / with 2^255: the region where a word- or limb-wise
    # comparison with p can go wrong while byte-wise random values never get near it
    for c in (P, 1 << 255):
        for j in range(1, 32, 3):
            out.append(("prefix_p" if c == P else "prefix_2^255", ((c >> (8 * j)) << (8 * j)) | r.below(1 << (8 * j))))
    for i in range(max(6, n_rand // 3)):
        l5 = ripple(r, [51] * 5)
        out.append(("ripple51", sum(x << (51 * i) for i, x in enumerate(l5))))
        l10 = ripple(r, [26 if i % 2 == 0 else 25 for i in range(10)])
        out.append(("ripple26", sum(x << ((51 * i + 1) // 2) for i, x in enumerate(l10))))
    return out


def sc_pool(r, n_rand):
    fixed = [("0", 0), ("1", 1), ("2", 2), ("l-1", L - 1), ("l", L), ("l+1", L + 1), ("2l-1", 2 * L - 1), ("2l", 2 * L), ("2l+1", 2 * L + 1),
             ("2^252", 1 << 252), ("2^252-1", (1 << 252) - 1), ("2^253-1", (1 << 253) - 1), ("2^253", 1 << 253), ("2^255-1", M255), ("2^255", 1 << 255),
             ("2^256-1", (1 << 256) - 1), ("8l", (8 * L) % (1 << 256)), ("15l", 15 * L), ("16l-1", (16 * L - 1) % (1 << 256)),
             ("88..", int("88" * 32, 16)), ("77..", int("77" * 32, 16)), ("0f..", int("0f" * 32, 16)), ("f0..", int("f0" * 32, 16)),
             ("80..", int("80" * 32, 16)), ("7f..", int("7f" * 32, 16)), ("R", (1 << 260) % L), ("R-1", (1 << 260) % L - 1), ("(l-1)/2", (L - 1) // 2),
             ("2^64", 1 << 64), ("2^64-1", (1 << 64) - 1), ("2^128", 1 << 128), ("2^192-1", (1 << 192) - 1), ("2^52", 1 << 52), ("2^29", 1 << 29)]
    out = list(fixed)
    # values sharing a byte prefix (from the top) with l, 2l, 2^252: where a word- or limb-wise comparison with l can go
    # wrong (the top words equal those of l, the lower ones random / extreme)
    for c, cl in ((L, "prefix_l"), (2 * L, "prefix_2l"), (1 << 252, "prefix_2^252")):
        for j in (1, 2, 4, 7, 8, 9, 12, 15, 16, 17, 20, 23, 24, 25, 28, 31):
            base = (c >> (8 * j)) << (8 * j)
            out.append((cl, base | r.below(1 << (8 * j))))
            out.append((cl + "_hi", base | ((1 << (8 * j)) - 1 - r.below(min(1 << 16, 1 << (8 * j))))))
            out.append((cl + "_top", base | (1 << (8 * j - 1)) | r.below(min(1 << 16, 1 << (8 * j - 1)))))
    # limb-boundary patterns of BOTH scalar limb widths (52 and 29 bits): a limb that is all ones (with a borrow / carry arriving from
    # the limb below), a lone bit at a limb boundary, all-ones runs across boundaries - where a carry/borrow chain can lose a bit
    for w in (52, 29):
        nl = 5 if w == 52 else 9
        for i in range(1, nl):
            lo, hi = w * i, min(w * (i + 1), 252)
            if lo >= 252:
                break
            out.append(("limb%d_ones" % w, ((1 << hi) - (1 << lo)) + 1))            # limb i all ones, limb 0 = 1
            out.append(("limb%d_ones" % w, (1 << hi) - 1))                           # limbs 0..i all ones
            out.append(("limb%d_bit" % w, 1 << lo))                                  # lone bit at the boundary
            out.append(("limb%d_ones" % w, ((1 << hi) - (1 << lo)) + r.below(1 << min(lo, 40))))
    for i in range(n_rand):
        k = r.below(6)
        if k == 0:
            out.append(("rand256", r.below(1 << 256)))
        elif k == 1:
            out.append(("rand<l", r.below(L)))
        elif k == 2:
            out.append(("near_l", L - 40 + r.below(80)))
        elif k == 3:
            out.append(("near_kl", (r.below(16) * L + r.below(9) - 4) % (1 << 256)))
        elif k == 4:
            # nibble patterns that stress recoding carries
            nib = [r.choice([0, 7, 8, 9, 15, 15, 8]) for _ in range(64)]
            out.append(("nibbles", sum(n << (4 * i) for i, n in enumerate(nib))))
        else:
            v = 0
            for _ in range(1 + r.below(3)):
                v |= r.below(256) << (8 * r.below(32))
            out.append(("sparse", v))
    return out


def raw255(v):
    return v & M255


def point_pool(r, n_rand):
    """(label, compressed bytes) valid Edwards points incl. torsion, mixed order, non-canonical encodings"""
    out = [("identity", compress(ZERO)), ("B", compress(B)), ("-B", compress(neg(B))), ("2B", compress(add(B, B)))]
    for i, t in enumerate(T8):
        out.append(("T%d" % i, compress(t)))
    for i, t in enumerate(T8[1:], 1):
        out.append(("B+T%d" % i, compress(add(B, t))))
    # non-canonical encodings: y >= p (only y in [p, 2^255) i.e. y-p < 19) and x=0 with sign bit
    out.append(("noncanon_y=p+1(=1)", tole((P + 1))))  # y = 1 -> identity, encoded as p+1
    out.append(("noncanon_id_signbit", tole(1 | (1 << 255))))
    out.append(("noncanon_y=-1_signbit", tole((P - 1) | (1 << 255))))
    for yy in range(P, 1 << 255):
        y = yy - P
        if x_from_y(y, 0) is not None:
            out.append(("noncanon_y>=p", tole(yy)))
            out.append(("noncanon_y>=p_sign", tole(yy | (1 << 255))))
    for i in range(n_rand):
        k = r.below(4)
        s = r.below(L)
        p = smul(s, B)
        if k == 0:
            out.append(("kB", compress(p)))
        elif k == 1:
            out.append(("kB+T", compress(add(p, r.choice(T8[1:])))))
        elif k == 2:
            out.append(("smallkB", compress(smul(1 + r.below(20), B))))
        else:
            # random point from random y
            while True:
                y = r.below(P)
                x = x_from_y(y, r.below(2))
                if x is not None:
                    out.append(("randpt", compress((x, y))))
                    break
    return out


def bad_point_encodings(r, n):
    out = []
    while len(out) < n:
        y = r.below(1 << 255)
        if x_from_y(y % P, 0) is None:
            out.append(("offcurve", tole(y | (r.below(2) << 255))))
    return out


def cross(r, pool, n, k=2):
    """n k-tuples: all pairs among the first few fixed items + random tuples"""
    res = []
    m = min(len(pool), 7)
    if k == 2:
        for i in range(m):
            for j in range(m):
                res.append((pool[i], pool[j]))
    while len(res) < n:
        res.append(tuple(r.choice(pool) for _ in range(k)))
    return res[:max(n, 0)] if len(res) > n and n > m * m else res


# ------------------------------------------------------------------ limb-level pools (C01/C11 translation validation)

def limbs51(r, bound_bits, kind):
    top = (1 << bound_bits) - 1
    if kind == "max":
        return [top] * 5
    if kind == "zero":
        return [0] * 5
    if kind == "rand":
        return [r.below(top + 1) for _ in range(5)]
    if kind == "edge":
        return [r.choice([0, 1, (1 << 51) - 1, 1 << 51, (1 << 51) + 1, top, top - 1, (1 << 51) - 19, (1 << 52) - 1, r.below(top + 1)]) & top for _ in range(5)]
    if kind == "p":
        # a representation of a value near p with all limbs 2^51-1 (p + 18)
        return [(1 << 51) - 19 + r.below(40), (1 << 51) - 1, (1 << 51) - 1, (1 << 51) - 1, (1 << 51) - 1]
    if kind == "ripple":
        return ripple(r, [51] * 5, top)
    raise ValueError(kind)


def ripple(r, widths, top=None):
    """carry-chain corner: the +19 carry out of limb 0 ripples through j limbs of all-ones, then meets a limb that is
    not all-ones; the limbs above are independently all-ones or random (solved for, not sampled)"""
    n = len(widths)
    j = r.below(n + 1)
    out = []
    for i, w in enumerate(widths):
        m = (1 << w) - 1
        if i == 0:
            v = m - 18 + r.below(19) if j > 0 else r.below(m - 18)
        elif i < j:
            v = m
        elif i == j:
            v = r.choice([0, 1, m - 1, m - 2, r.below(m)])
        else:
            v = m if r.below(2) else r.choice([r.below(m + 1), m - 1, 0])
        # optionally an unreduced representation: add a multiple of 2^w that a weak reduce would carry
        if top is not None and r.below(6) == 0 and v + (1 << w) <= top:
            v += (1 << w)
        out.append(v)
    return out


def limbs26(r, excess, kind):
    """10 limbs, even ones 26 bit, odd ones 25 bit, times (1+excess)"""
    tops = [int(((1 << (26 if i % 2 == 0 else 25))) * excess) - 1 for i in range(10)]
    if kind == "max":
        return tops
    if kind == "zero":
        return [0] * 10
    if kind == "rand":
        return [r.below(t + 1) for t in tops]
    if kind == "edge":
        return [min(t, r.choice([0, 1, (1 << (26 if i % 2 == 0 else 25)) - 1, 1 << (26 if i % 2 == 0 else 25), t, t - 1, r.below(t + 1)])) for i, t in enumerate(tops)]
    if kind == "p":
        return [(1 << 26) - 19 + r.below(40)] + [((1 << (26 if i % 2 == 0 else 25)) - 1) for i in range(1, 10)]
    if kind == "ripple":
        return [min(v, t) for v, t in zip(ripple(r, [26 if i % 2 == 0 else 25 for i in range(10)], None), tops)] if excess < 2 else ripple(r, [26 if i % 2 == 0 else 25 for i in range(10)], min(tops))
    raise ValueError(kind)


def ilst(xs):
    return ",".join(str(x) for x in xs) if xs else "-"

"""setup: build everything from files on disk (offline): translator output, Lean library + model exe, all drivers."""
import os, sys, time
sys.path.insert(0, os.path.dirname(os.path.abspath(__file__)))
from common import *

def main():
    t0 = time.time()
    os.makedirs(CACHE, exist_ok=True)
    import shutil
    shutil.copyfile(os.path.join(REPO, "Cargo.lock"), os.path.join(VERIF, "harness", "Cargo.lock.repo"))
    regen()
    ok, out, dt = lake_build(["Dalek", "dalek-model"], timeout=7200)
    print("lake build:", "ok" if ok else "FAILED", round(dt), "s")
    if not ok:
        print(out[-5000:])
    cfgs = ALL_BACKENDS + [c + "-notables" for c in ALL_BACKENDS] + ["simd-legacy"]
    okd, bad = build_drivers(cfgs, "release")
    okc, badc = build_drivers(ALL_BACKENDS, "checked")
    for c, e in list(bad.items()) + list(badc.items()):
        print("driver build failed:", c, e[-1500:])
    print("setup done in", round(time.time() - t0), "s")
    return 0 if ok and not bad and not badc else 1

if __name__ == "__main__":
    sys.exit(main())

"""Shared machinery of ./check: builds (translator, lake, cargo drivers), protocol runs, comparison,
evidence and violation reporting."""
import fcntl, hashlib, json, os, subprocess, sys, time, re, shutil
from concurrent.futures import ThreadPoolExecutor

VERIF = os.path.dirname(os.path.dirname(os.path.abspath(__file__)))
REPO = os.environ.get("VERIF_REPO", "/repo")
CACHE = os.path.join(VERIF, ".cache")
LEAN = os.path.join(VERIF, "lean")
MODEL_BIN = os.path.join(LEAN, ".lake", "build", "bin", "dalek-model")
JOBS = int(os.environ.get("VERIF_JOBS", "16"))
ENV = dict(os.environ, CARGO_NET_OFFLINE="true", GOPROXY="off", PIP_NO_INDEX="1")

ALL_BACKENDS = ["serial64", "serial32", "fiat64", "fiat32", "simd", "avx512"]
STD_AXIOMS = {"propext", "Classical.choice", "Quot.sound"}


def log(*a):
    print(*a, file=sys.stderr, flush=True)


class Lock:
    def __init__(self, name):
        os.makedirs(CACHE, exist_ok=True)
        self.path = os.path.join(CACHE, "lock." + name)

    def __enter__(self):
        self.f = open(self.path, "w")
        fcntl.flock(self.f, fcntl.LOCK_EX)
        return self

    def __exit__(self, *a):
        fcntl.flock(self.f, fcntl.LOCK_UN)
        self.f.close()


def run(cmd, cwd=None, timeout=None, inp=None, env=None):
    t0 = time.time()
    p = subprocess.run(cmd, cwd=cwd, input=inp, capture_output=True, text=True, timeout=timeout,
                       env=env or ENV)
    return p.returncode, p.stdout, p.stderr, time.time() - t0


# ------------------------------------------------------------------ translator + lean

def regen():
    """rs2lean: /repo -> lean/Dalek/Gen (only rewrites changed files). Returns the manifest dict."""
    with Lock("lean"):
        tool = os.path.join(VERIF, "tools", "rs2lean", "rs2lean.py")
        rc, out, err, dt = run([sys.executable, tool, "--repo", REPO, "--out", os.path.join(LEAN, "Dalek", "Gen")])
        if rc != 0:
            raise RuntimeError("rs2lean crashed: " + err[-2000:])
        norm = os.path.join(VERIF, "tools", "gen_norm.sh")
        if os.path.exists(norm):
            rc, out2, err2, dt2 = run(["bash", norm], cwd=LEAN)
            if rc != 0:
                log("gen_norm failed:", err2[-3000:])
        with open(os.path.join(LEAN, "Dalek", "Gen", "gen_manifest.json")) as f:
            return json.load(f)


def lake_build(targets, timeout=3600):
    """returns (ok, combined output)"""
    with Lock("lean"):
        rc, out, err, dt = run(["lake", "build"] + list(targets), cwd=LEAN, timeout=timeout)
        if rc != 0 and "undefined symbol" in (out + err):
            # a truncated object file left behind by an interrupted/concurrent native compile: drop tiny objects and retry once
            ir = os.path.join(LEAN, ".lake", "build", "ir")
            for dp, dn, fn in os.walk(ir):
                for f in fn:
                    if f.endswith(".c.o.export") and os.path.getsize(os.path.join(dp, f)) < 2048:
                        for suf in ("", ".hash", ".trace"):
                            try:
                                os.remove(os.path.join(dp, f + suf))
                            except OSError:
                                pass
            rc, out, err, dt2 = run(["lake", "build"] + list(targets), cwd=LEAN, timeout=timeout)
            dt += dt2
        return rc == 0, out + err, dt


def lean_run(file, args=(), timeout=1800, inp=None):
    return run(["lake", "env", "lean", "--run", file] + list(args), cwd=LEAN, timeout=timeout, inp=inp)


def audit_module(mod):
    """axioms used by every theorem declared in module `mod`; returns dict name -> [axioms]"""
    rc, out, err, dt = run(["lake", "env", "lean", "--run", os.path.join(VERIF, "tools", "Audit.lean"), mod],
                           cwd=LEAN, timeout=1800)
    if rc != 0:
        raise RuntimeError("audit failed for %s: %s" % (mod, (out + err)[-2000:]))
    res = {}
    for line in out.splitlines():
        if line.startswith("THM "):
            _, name, axs = (line.split(" ", 2) + [""])[:3]
            res[name] = [a for a in axs.split(",") if a]
    return res


FORBIDDEN = re.compile(r"\b(sorry|admit|native_decide|implemented_by|bv_decide)\b|^\s*axiom\s|\bunsafe\s|maxHeartbeats\s+0\b")


def import_closure(mods):
    """files of the Dalek.* modules transitively imported by `mods` (what the theorems actually depend on)"""
    seen, todo, files = set(), list(mods), []
    while todo:
        m = todo.pop()
        if m in seen or not m.startswith("Dalek"):
            continue
        seen.add(m)
        path = os.path.join(LEAN, *m.split(".")) + ".lean"
        if not os.path.exists(path):
            continue
        files.append(path)
        for line in open(path, encoding="utf-8", errors="replace"):
            mm = re.match(r"\s*(?:public\s+)?import\s+([A-Za-z0-9_.]+)", line)
            if mm:
                todo.append(mm.group(1))
    return files


def grep_forbidden(paths):
    hits = []
    filelist = []
    for root in paths:
        if os.path.isfile(root):
            filelist.append(root)
            continue
        for dp, dn, fn in os.walk(root):
            if ".lake" in dp:
                continue
            for f in fn:
                if f.endswith(".lean"):
                    filelist.append(os.path.join(dp, f))
    if True:
        if True:
            for p in filelist:
                incomment = 0
                f = os.path.basename(p)
                for i, line in enumerate(open(p, encoding="utf-8", errors="replace")):
                    s = line
                    # crude comment stripping: block comments and line comments
                    if incomment:
                        if "-/" in s:
                            incomment = 0
                            s = s.split("-/", 1)[1]
                        else:
                            continue
                    if "/-" in s:
                        head, rest = s.split("/-", 1)
                        if "-/" in rest:
                            s = head + rest.split("-/", 1)[1]
                        else:
                            incomment = 1
                            s = head
                    s = s.split("--", 1)[0]
                    if FORBIDDEN.search(s):
                        hits.append("%s:%d: %s" % (p, i + 1, line.strip()))
    return hits


# ------------------------------------------------------------------ drivers

def build_driver(cfg, profile="release"):
    sh = os.path.join(VERIF, "harness", "build.sh")
    rc, out, err, dt = run(["bash", sh, cfg, profile], timeout=3600)
    if rc != 0:
        return None, (out + err)[-6000:]
    path = out.strip().splitlines()[-1].strip()
    return path, ""


def build_drivers(cfgs, profile="release"):
    """build in parallel; returns ({cfg: path}, {cfg: error})"""
    ok, bad = {}, {}
    with ThreadPoolExecutor(max_workers=max(1, min(6, len(cfgs)))) as ex:
        for cfg, (path, err) in zip(cfgs, ex.map(lambda c: build_driver(c, profile), cfgs)):
            if path:
                ok[cfg] = path
            else:
                bad[cfg] = err
    return ok, bad


def run_lines(binary, lines, args=(), timeout=3600):
    inp = "\n".join(lines) + "\n"
    p = subprocess.run([binary] + list(args), input=inp, capture_output=True, text=True, timeout=timeout, env=ENV)
    out = p.stdout.splitlines()
    if p.returncode != 0 or len(out) != len(lines):
        raise RuntimeError("%s: rc=%s, %d responses for %d requests; stderr: %s" %
                           (binary, p.returncode, len(out), len(lines), p.stderr[-1500:]))
    return out


def run_model(lines, legacy=False):
    return run_lines(MODEL_BIN, lines, args=(["--legacy"] if legacy else []))


# ------------------------------------------------------------------ evidence / reporting

def write_evidence(pid, tier, seed, t0, coverage, assumptions, violations, level="proof"):
    ev = {
        "property_id": pid, "tier": tier, "seed": seed, "level": level,
        "coverage": coverage, "assumptions": assumptions,
        "wall_s": round(time.time() - t0, 2), "violations": violations,
    }
    os.makedirs(os.path.join(VERIF, "evidence"), exist_ok=True)
    with open(os.path.join(VERIF, "evidence", pid + ".json"), "w") as f:
        json.dump(ev, f, indent=1, sort_keys=True)
    return ev


def write_replay(pid, content):
    os.makedirs(os.path.join(VERIF, "replays"), exist_ok=True)
    h = hashlib.sha256(json.dumps(content, sort_keys=True).encode()).hexdigest()[:12]
    path = os.path.join(VERIF, "replays", "%s-%s.json" % (pid, h))
    with open(path, "w") as f:
        json.dump(content, f, indent=1, sort_keys=True)
    return path


def load_known():
    p = os.path.join(VERIF, "known_findings.json")
    if not os.path.exists(p):
        return []
    return json.load(open(p)).get("findings", [])

"""Pure-python reference arithmetic used ONLY by request generators (to craft inputs of a given
class) and by the `ed.coords` comparator.  It is not an oracle for any property: expected outputs
come from the Lean model."""
P = 2**255 - 19
L = 2**252 + 27742317777372353535851937790883648493
D = (-121665 * pow(121666, P - 2, P)) % P
SQRT_M1 = pow(2, (P - 1) // 4, P)
if SQRT_M1 & 1:
    SQRT_M1 = P - SQRT_M1


def inv(x):
    return pow(x % P, P - 2, P)


def le(b):
    return int.from_bytes(b, "little")


def tole(n, k=32):
    return int(n).to_bytes(k, "little")


def hx(b):
    return b.hex() if len(b) else "-"


def is_square(a):
    a %= P
    return a == 0 or pow(a, (P - 1) // 2, P) == 1


def sqrt(a):
    """some square root of a mod P or None"""
    a %= P
    r = pow(a, (P + 3) // 8, P)
    if r * r % P == a:
        return r
    r = r * SQRT_M1 % P
    if r * r % P == a:
        return r
    return None


def on_curve(x, y):
    return (-x * x + y * y - 1 - D * x * x * y * y) % P == 0


def add(p, q):
    (x1, y1), (x2, y2) = p, q
    t = D * x1 * x2 * y1 * y2 % P
    return ((x1 * y2 + y1 * x2) * inv(1 + t) % P, (y1 * y2 + x1 * x2) * inv(1 - t) % P)


def neg(p):
    return ((-p[0]) % P, p[1])


ZERO = (0, 1)


def _eadd(p, q):
    (X1, Y1, Z1, T1), (X2, Y2, Z2, T2) = p, q
    A = (Y1 - X1) * (Y2 - X2) % P
    Bq = (Y1 + X1) * (Y2 + X2) % P
    C = T1 * 2 * D % P * T2 % P
    Dd = 2 * Z1 * Z2 % P
    E, F, G, Hh = Bq - A, Dd - C, Dd + C, Bq + A
    return (E * F % P, G * Hh % P, F * G % P, E * Hh % P)


def smul(n, p):
    """n*p via extended coordinates (complete formulas), result affine"""
    q = (p[0], p[1], 1, p[0] * p[1] % P)
    r = (0, 1, 1, 0)
    while n > 0:
        if n & 1:
            r = _eadd(r, q)
        q = _eadd(q, q)
        n >>= 1
    zi = inv(r[2])
    return (r[0] * zi % P, r[1] * zi % P)


def x_from_y(y, sign):
    u = (y * y - 1) % P
    v = (D * y * y + 1) % P
    x = sqrt(u * inv(v))
    if x is None:
        return None
    if (x & 1) != sign:
        x = (P - x) % P
    return x


BY = 4 * inv(5) % P
BX = x_from_y(BY, 0)
B = (BX, BY)


def compress(p, noncanon_y=False):
    x, y = p
    return tole(y | ((x & 1) << 255))


def decompress(b):
    n = le(b)
    sign = n >> 255
    y = (n & ((1 << 255) - 1)) % P
    x = x_from_y(y, 0)
    if x is None:
        return None
    if sign:
        x = (P - x) % P
    return (x, y)


def torsion8():
    """the eight torsion points as multiples of a generator of E[8]"""
    # find a point of order 8: take random y until 'l * P' has order 8
    y = 2
    while True:
        x = x_from_y(y, 0)
        if x is not None:
            t = smul(L, (x, y))
            if smul(4, t) != ZERO:
                return [smul(i, t) for i in range(8)]
        y += 1


T8 = torsion8()


def to_mont(p):
    x, y = p
    return (1 + y) * inv(1 - y) % P


class SplitMix64:
    def __init__(self, seed):
        self.s = seed & 0xFFFFFFFFFFFFFFFF

    def next(self):
        self.s = (self.s + 0x9E3779B97F4A7C15) & 0xFFFFFFFFFFFFFFFF
        z = self.s
        z = ((z ^ (z >> 30)) * 0xBF58476D1CE4E5B9) & 0xFFFFFFFFFFFFFFFF
        z = ((z ^ (z >> 27)) * 0x94D049BB133111EB) & 0xFFFFFFFFFFFFFFFF
        return z ^ (z >> 31)

    def below(self, n):
        if n <= 0:
            return 0
        k = (n.bit_length() + 63) // 64 + 1
        v = 0
        for _ in range(k):
            v = (v << 64) | self.next()
        return v % n

    def bytes(self, n):
        out = b""
        while len(out) < n:
            out += self.next().to_bytes(8, "little")
        return out[:n]

    def choice(self, xs):
        return xs[self.below(len(xs))]

    def fork(self, tag):
        h = 1469598103934665603
        for c in tag.encode():
            h = ((h ^ c) * 1099511628211) & 0xFFFFFFFFFFFFFFFF
        return SplitMix64(self.s ^ h)


# ------------------------------------------------------------------ ristretto255 (RFC 9496), generator side only
def _is_neg(x):
    return (x % P) & 1


def _abs(x):
    x %= P
    return P - x if x & 1 else x


def sqrt_ratio_m1(u, v):
    u %= P; v %= P
    v3 = v * v % P * v % P
    v7 = v3 * v3 % P * v % P
    r = u * v3 % P * pow(u * v7 % P, (P - 5) // 8, P) % P
    check = v * r % P * r % P
    correct = check == u
    flipped = check == (-u) % P
    flipped_i = check == (-u * SQRT_M1) % P
    if flipped or flipped_i:
        r = r * SQRT_M1 % P
    return (correct or flipped), _abs(r)


INVSQRT_A_MINUS_D = sqrt_ratio_m1(1, (-1 - D) % P)[1]


def ris_encode(pt):
    """encode the Edwards point (affine) as ristretto255"""
    x0, y0 = pt
    z0, t0 = 1, x0 * y0 % P
    u1 = (z0 + y0) * (z0 - y0) % P
    u2 = x0 * y0 % P
    _, invsqrt = sqrt_ratio_m1(1, u1 * u2 % P * u2 % P)
    den1 = invsqrt * u1 % P
    den2 = invsqrt * u2 % P
    z_inv = den1 * den2 % P * t0 % P
    ix0 = x0 * SQRT_M1 % P
    iy0 = y0 * SQRT_M1 % P
    enchanted = den1 * INVSQRT_A_MINUS_D % P
    rotate = _is_neg(t0 * z_inv)
    if rotate:
        x, y, den_inv = iy0, ix0, enchanted
    else:
        x, y, den_inv = x0, y0, den2
    if _is_neg(x * z_inv):
        y = (-y) % P
    s = _abs(den_inv * ((z0 - y) % P))
    return tole(s)


def ris_decode(b):
    s = le(b)
    if s >= P or s & 1:
        return None
    ss = s * s % P
    u1 = (1 - ss) % P
    u2 = (1 + ss) % P
    u2s = u2 * u2 % P
    v = (-(D * u1 % P * u1) - u2s) % P
    ok, invsqrt = sqrt_ratio_m1(1, v * u2s % P)
    dx = invsqrt * u2 % P
    dy = invsqrt * dx % P * v % P
    x = _abs(2 * s * dx)
    y = u1 * dy % P
    t = x * y % P
    if not ok or _is_neg(t) or y == 0:
        return None
    return (x, y)


# ------------------------------------------------------------------ Ed25519 (generator side: honest signatures to corrupt)
import hashlib


def sha512(b):
    return hashlib.sha512(b).digest()


def ed_expand(seed):
    h = sha512(seed)
    a = le(h[:32])
    a &= (1 << 254) - 8
    a |= 1 << 254
    return a, h[32:]


def ed_pub(seed):
    a, _ = ed_expand(seed)
    return compress(smul(a % L, B))


def dom2(f, ctx):
    return b"SigEd25519 no Ed25519 collisions" + bytes([f, len(ctx)]) + ctx


def ed_sign(seed, msg, ph_ctx=None):
    a, prefix = ed_expand(seed)
    A = ed_pub(seed)
    dom = b""
    if ph_ctx is not None:
        dom = dom2(1, ph_ctx)
        msg = sha512(msg)
    r = le(sha512(dom + prefix + msg)) % L
    R = compress(smul(r, B))
    k = le(sha512(dom + R + A + msg)) % L
    S = (r + k * a) % L
    return R + tole(S)


def ed_challenge(R, A, msg, ph_ctx=None):
    dom = b""
    if ph_ctx is not None:
        dom = dom2(1, ph_ctx)
        msg = sha512(msg)
    return le(sha512(dom + R + A + msg)) % L

"""Pure-python reference arithmetic used ONLY by request generators (to craft inputs of a given
class) and by the `ed.coords` comparator.  It is not an oracle for any property: expected outputs
come from the Lean model."""
P = 2**255 - 19
L = 2**252 + 27742317777372353535851937790883648493
D = (-121665 * pow(121666, P - 2, P)) % P
SQRT_M1 = pow(2, (P - 1) // 4, P)
if SQRT_M1 & 1:
    SQRT_M1 = P - SQRT_M1


def inv(x):
    return pow(x % P, P - 2, P)


def le(b):
    return int.from_bytes(b, "little")


def tole(n, k=32):
    return int(n).to_bytes(k, "little")


def hx(b):
    return b.hex() if len(b) else "-"


def is_square(a):
    a %= P
    return a == 0 or pow(a, (P - 1) // 2, P) == 1


def sqrt(a):
    """some square root of a mod P or None"""
    a %= P
    r = pow(a, (P + 3) // 8, P)
    if r * r % P == a:
        return r
    r = r * SQRT_M1 % P
    if r * r % P == a:
        return r
    return None


def on_curve(x, y):
    return (-x * x + y * y - 1 - D * x * x * y * y) % P == 0


def add(p, q):
    (x1, y1), (x2, y2) = p, q
    t = D * x1 * x2 * y1 * y2 % P
    return ((x1 * y2 + y1 * x2) * inv(1 + t) % P, (y1 * y2 + x1 * x2) * inv(1 - t) % P)


def neg(p):
    return ((-p[0]) % P, p[1])


ZERO = (0, 1)


def smul(n, p):
    r = ZERO
    q = p
    while n > 0:
        if n & 1:
            r = add(r, q)
        q = add(q, q)
        n >>= 1
    return r


def x_from_y(y, sign):
    u = (y * y - 1) % P
    v = (D * y * y + 1) % P
    x = sqrt(u * inv(v))
    if x is None:
        return None
    if (x & 1) != sign:
        x = (P - x) % P
    return x


BY = 4 * inv(5) % P
BX = x_from_y(BY, 0)
B = (BX, BY)


def compress(p, noncanon_y=False):
    x, y = p
    return tole(y | ((x & 1) << 255))


def decompress(b):
    n = le(b)
    sign = n >> 255
    y = (n & ((1 << 255) - 1)) % P
    x = x_from_y(y, 0)
    if x is None:
        return None
    if sign:
        x = (P - x) % P
    return (x, y)


def torsion8():
    """the eight torsion points as multiples of a generator of E[8]"""
    # find a point of order 8: take random y until 'l * P' has order 8
    y = 2
    while True:
        x = x_from_y(y, 0)
        if x is not None:
            t = smul(L, (x, y))
            if smul(4, t) != ZERO:
                return [smul(i, t) for i in range(8)]
        y += 1


T8 = torsion8()


def to_mont(p):
    x, y = p
    return (1 + y) * inv(1 - y) % P


class SplitMix64:
    def __init__(self, seed):
        self.s = seed & 0xFFFFFFFFFFFFFFFF

    def next(self):
        self.s = (self.s + 0x9E3779B97F4A7C15) & 0xFFFFFFFFFFFFFFFF
        z = self.s
        z = ((z ^ (z >> 30)) * 0xBF58476D1CE4E5B9) & 0xFFFFFFFFFFFFFFFF
        z = ((z ^ (z >> 27)) * 0x94D049BB133111EB) & 0xFFFFFFFFFFFFFFFF
        return z ^ (z >> 31)

    def below(self, n):
        if n <= 0:
            return 0
        k = (n.bit_length() + 63) // 64 + 1
        v = 0
        for _ in range(k):
            v = (v << 64) | self.next()
        return v % n

    def bytes(self, n):
        out = b""
        while len(out) < n:
            out += self.next().to_bytes(8, "little")
        return out[:n]

    def choice(self, xs):
        return xs[self.below(len(xs))]

    def fork(self, tag):
        h = 1469598103934665603
        for c in tag.encode():
            h = ((h ^ c) * 1099511628211) & 0xFFFFFFFFFFFFFFFF
        return SplitMix64(self.s ^ h)

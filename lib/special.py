"""Runtime halves of C10 (instruction/address traces of the release binary for pairs of secrets) and
C14 (post-drop byte inspection, freed-heap-block inspection)."""
import os, subprocess, hashlib, json, re
from concurrent.futures import ThreadPoolExecutor
from common import *
import pyref
from pyref import P, L, SplitMix64, tole

VG_BASE = 0x108000  # valgrind maps a PIE main executable here


def marker_addrs(binary):
    out = subprocess.run(["nm", binary], capture_output=True, text=True).stdout
    a = {}
    for line in out.splitlines():
        f = line.split()
        if len(f) == 3 and f[2] in ("verif_marker_begin", "verif_marker_end"):
            a[f[2]] = int(f[0], 16)
    return a["verif_marker_begin"] + VG_BASE, a["verif_marker_end"] + VG_BASE


AWK = r'''
BEGIN { f = 0; n = 0 }
$1 == "I" && $2 ~ BEG { f = 1 }
f { print; n++ }
$1 == "I" && $2 ~ END_ { f = 0 }
'''


def trace(binary, opline, keep=None):
    """run `driver --ct opline` under lackey; returns (sha256 of the marker window, number of events, driver stdout)"""
    b, e = marker_addrs(binary)
    begpat = "^%08x," % b
    endpat = "^%08x," % e
    cmd = ["valgrind", "--tool=lackey", "--trace-mem=yes", "--log-fd=2", binary, "--ct"] + opline.split(" ")
    env = dict(ENV)
    env = {"PATH": ENV.get("PATH", "/usr/bin:/bin"), "HOME": "/root", "LANG": "C"}  # fixed environment => fixed stack layout
    p1 = subprocess.Popen(cmd, stdout=subprocess.PIPE, stderr=subprocess.PIPE, env=env)
    awk = subprocess.Popen(["awk", "-v", "BEG=" + begpat, "-v", "END_=" + endpat, AWK], stdin=p1.stderr, stdout=subprocess.PIPE)
    h = hashlib.sha256()
    n = 0
    kf = open(keep, "wb") if keep else None
    while True:
        chunk = awk.stdout.read(1 << 20)
        if not chunk:
            break
        h.update(chunk)
        n += chunk.count(b"\n")
        if kf:
            kf.write(chunk)
    if kf:
        kf.close()
    out = p1.stdout.read().decode()
    p1.wait(); awk.wait()
    return h.hexdigest(), n, out.strip()


def H(n, k=32):
    return tole(n % (1 << (8 * k)), k).hex()


def ct_cases(r, tier):
    """(label, op template with {0},{1} for the secret fields, list of secret tuples)"""
    rnd = lambda: r.below(1 << 256)
    sc = [0, 1, L - 1, (1 << 252), int("88" * 32, 16) & ((1 << 255) - 1), int("77" * 32, 16), (1 << 255) - 1, r.below(L), r.below(L)]
    pt = [pyref.compress(pyref.ZERO), pyref.compress(pyref.B), pyref.compress(pyref.smul(r.below(L), pyref.B)),
          pyref.compress(pyref.add(pyref.smul(r.below(L), pyref.B), pyref.T8[1])), pyref.compress(pyref.T8[4])]
    npair = 3 if tier == "quick" else 12

    def pairs(pool, k=1):
        res = []
        for i in range(npair):
            res.append(tuple(r.choice(pool) for _ in range(k)))
        return res
    B = pyref.compress(pyref.B).hex()
    cases = []
    cases.append(("sc.add", "sc.add {0} {1}", [(H(a), H(b)) for a, b in [(0, 0), (L - 1, L - 1), (L - 1, 1), (1, L - 1)] + [(r.below(L), r.below(L)) for _ in range(npair)]]))
    cases.append(("sc.sub", "sc.sub {0} {1}", [(H(a), H(b)) for a, b in [(0, 0), (0, 1), (1, 0), (L - 1, 0), (0, L - 1)] + [(r.below(L), r.below(L)) for _ in range(npair)]]))
    cases.append(("sc.mul", "sc.mul {0} {1}", [(H(a), H(b)) for a, b in [(0, 0), (L - 1, L - 1)] + [(r.below(L), r.below(L)) for _ in range(npair)]]))
    cases.append(("sc.invert", "sc.invert {0}", [(H(a),) for a in (1, L - 1, r.below(L), r.below(L))]))
    cases.append(("sc.reduce_wide", "sc.reduce_wide {0}", [(H(a, 64),) for a in (0, (1 << 512) - 1, r.below(1 << 512), L * L)]))
    cases.append(("fe.mul", "fe.mul {0} {1}", [(H(a), H(b)) for a, b in [(0, 0), (P - 1, P - 1), (r.below(P), r.below(P)), ((1 << 255) - 1, 1)]]))
    cases.append(("fe.invert", "fe.invert {0}", [(H(a),) for a in (0, 1, P - 1, r.below(P))]))
    sq = r.below(P); sq = sq * sq % P
    cases.append(("fe.sqrt_ratio_i", "fe.sqrt_ratio_i {0} {1}", [(H(a), H(b)) for a, b in [(0, 0), (1, 0), (0, 1), (sq, 1), (sq * pyref.SQRT_M1 % P, 1), (2, 1), (r.below(P), r.below(P))]]))
    cases.append(("ed.mul_raw", "ed.mul_raw %s {0}" % B, [(H(a),) for a in (0, 1, (1 << 255) - 1, int("88" * 32, 16) & ((1 << 255) - 1), int("77" * 32, 16), r.below(L), r.below(1 << 255))]))
    cases.append(("ed.mul_raw:secret_point", "ed.mul_raw {0} %s" % H(r.below(L)), [(p.hex(),) for p in pt]))
    cases.append(("ed.mul_base", "ed.mul_base {0}", [(H(a),) for a in (0, 1, L - 1, r.below(L), r.below(L))]))
    cases.append(("ed.mul_base_clamped", "ed.mul_base_clamped {0}", [(H(a),) for a in (0, (1 << 256) - 1, rnd(), rnd())]))
    ps = [pyref.compress(pyref.smul(3 + i, pyref.B)).hex() for i in range(3)]
    cases.append(("ed.msm_ct", "ed.msm_ct {0} %s" % ",".join(ps), [(",".join(H(r.choice(sc)) for _ in range(3)),) for _ in range(npair + 1)]))
    cases.append(("ed.compress", "ed.compress {0}", [(p.hex(),) for p in pt]))
    cases.append(("mont.mul", "mont.mul %s {0}" % H(9), [(H(a),) for a in (0, 1, L - 1, r.below(L), r.below(L))]))
    # fixed-base Montgomery multiplication: the secret 0 (mod l) makes the Edwards result the identity, the exceptional input of the
    # birational map (Z - Y = 0, handled by invert(0) = 0, not by a branch)
    cases.append(("mont.mul_base", "mont.mul_base {0}", [(H(a),) for a in (0, 1, L - 1, r.below(L))]))
    cases.append(("x.x25519", "x.x25519 {0} %s" % H(9), [(H(a),) for a in (0, (1 << 256) - 1, rnd(), rnd())]))
    cases.append(("x.x25519:secret_u", "x.x25519 %s {0}" % H(rnd()), [(H(a),) for a in (0, 1, 9, P - 1, rnd())]))
    cases.append(("ris.from_uniform", "ris.from_uniform {0}", [(H(a, 64),) for a in (0, (1 << 512) - 1, r.below(1 << 512), r.below(1 << 512))]))
    cases.append(("ris.compress", "ris.compress {0}", [(pyref.ris_encode(pyref.smul(k, pyref.B)).hex(),) for k in (0, 1, 2, r.below(L), r.below(L))]))
    # batch operations: a secret element that is zero / the identity / in the torsion coset must not change the trace
    risid = pyref.ris_encode(pyref.ZERO).hex()
    rpts = [pyref.ris_encode(pyref.smul(k, pyref.B)).hex() for k in (1, 2, 5, r.below(L))]
    cases.append(("ris.double_compress_batch", "ris.double_compress_batch %s,%s,{0},%s" % (rpts[0], rpts[1], rpts[2]),
                  [(risid,), (rpts[3],), (rpts[0],)]))
    fes = [H(r.below(P)) for _ in range(3)]
    cases.append(("fe.batch_invert", "fe.batch_invert %s,{0},%s" % (fes[0], fes[1]), [(H(0),), (fes[2],), (H(1),), (H(P - 1),)]))
    cases.append(("sc.batch_invert", "sc.batch_invert %s,{0}" % H(r.below(L - 1) + 1), [(H(1),), (H(L - 1),), (H(r.below(L - 1) + 1),)]))
    cases.append(("ed.eq", "ed.eq {0} {1}", [(pt[1].hex(), pt[1].hex()), (pt[1].hex(), pt[2].hex()), (pt[0].hex(), pt[4].hex()), (pt[3].hex(), pt[2].hex())]))
    cases.append(("ed.add", "ed.add {0} {1}", [(pt[1].hex(), pt[1].hex()), (pt[0].hex(), pt[0].hex()), (pt[2].hex(), pt[3].hex()), (pt[4].hex(), pt[4].hex())]))
    cases.append(("ed.select", "ed.select %s {0}" % B, [(str(x),) for x in (-8, -1, 0, 1, 7, 8)]))
    cases.append(("ed.basepoint_table", "ed.basepoint_table {0}", [(H(a),) for a in (0, 1, L - 1, r.below(L))]))
    # every basepoint-table radix, reduced scalars and CLAMPED unreduced secrets (extreme top bits: the recoding's carry digit)
    # (table creation runs under the tracer too, outside the window: ~30 s per case for the big radices, so the quick tier keeps the
    # two extreme radices and the clamped secrets; the thorough tier runs all five radices with reduced and clamped secrets)
    for radix in ((16, 256) if tier == "quick" else (16, 32, 64, 128, 256)):
        if tier != "quick":
            cases.append(("ed.table:r%d" % radix, "ed.table %d %s {0}" % (radix, B), [(H(a),) for a in (0, L - 1, r.below(L))]))
        cases.append(("ed.table_clamped:r%d" % radix, "ed.table_clamped %d %s {0}" % (radix, B),
                      [(H(a),) for a in ((0, (1 << 256) - 1, int("42" * 32, 16)) if tier == "quick" else (0, (1 << 256) - 1, int("42" * 32, 16), rnd()))]))
    cases.append(("ris.mul", "ris.mul %s {0}" % rpts[0], [(H(a),) for a in (0, 1, L - 1, r.below(L))]))
    cases.append(("ris.eq", "ris.eq {0} {1}", [(rpts[0], rpts[0]), (rpts[0], rpts[1]), (risid, risid), (risid, rpts[2])]))
    cases.append(("ris.elligator", "ris.elligator {0}", [(H(a),) for a in (0, 1, P - 1, pyref.SQRT_M1, rnd())]))
    cases.append(("mont.elligator", "mont.elligator {0}", [(H(a),) for a in (0, 1, P - 1, rnd())]))
    cases.append(("eds.sign_ph", "eds.sign_ph {0} 616263 6374", [(H(a),) for a in (0, (1 << 256) - 1, rnd())]))
    cases.append(("eds.expand", "eds.expand {0}", [(H(a),) for a in (0, (1 << 256) - 1, rnd())]))
    cases.append(("x.static", "x.static {0} %s" % H(9), [(H(a),) for a in (0, (1 << 256) - 1, rnd())]))
    cases.append(("eds.keygen", "eds.keygen {0}", [(H(a),) for a in (0, (1 << 256) - 1, rnd(), rnd())]))
    cases.append(("eds.sign", "eds.sign {0} 616263", [(H(a),) for a in (0, (1 << 256) - 1, rnd(), rnd())]))
    return cases


def extra_C10(ctx):
    """2-safety on traces: for each op, all secret tuples must give the same instruction+address trace."""
    cfgs = ["serial64", "simd"] if ctx.tier == "quick" else ["serial64", "serial32", "fiat64", "fiat32", "simd"]
    drivers, bad = build_drivers(cfgs, "release")
    violations = [{"kind": "infrastructure", "detail": "driver %s: %s" % (c, e[-500:])} for c, e in bad.items()]
    r = SplitMix64(ctx.seed).fork("C10")
    cases = ct_cases(r, ctx.tier)
    jobs = []
    for cfg, binary in drivers.items():
        for lab, tmpl, secrets in cases:
            if ctx.tier == "quick":
                secrets = secrets[:3]
            for s in secrets:
                jobs.append((cfg, binary, lab, tmpl.format(*s)))
    with ThreadPoolExecutor(max_workers=JOBS) as ex:
        res = list(ex.map(lambda j: trace(j[1], j[3]), jobs))
    groups = {}
    for (cfg, binary, lab, line), (h, n, out) in zip(jobs, res):
        groups.setdefault((cfg, lab), []).append((line, h, n, out))
    ntr = 0
    samples = []
    for (cfg, lab), items in sorted(groups.items()):
        ntr += len(items)
        hs = {h for _, h, _, _ in items}
        if all(it[3] == "skip" for it in items):
            continue
        bado = [it for it in items if not it[3].startswith("ok") and not it[3].startswith("none")]
        if any(n == 0 for _, _, n, _ in items) or bado:
            violations.append({"kind": "infrastructure", "detail": "empty trace window or failed op for %s on %s: %r" % (lab, cfg, [(i[0][:60], i[2], i[3][:40]) for i in items][:3])})
        if len(hs) > 1:
            a = items[0]
            b = next(it for it in items if it[1] != a[1])
            # find the first differing trace entry
            fa = os.path.join(CACHE, "ct_a.trace"); fb = os.path.join(CACHE, "ct_b.trace")
            trace(drivers[cfg], a[0], keep=fa); trace(drivers[cfg], b[0], keep=fb)
            first = None
            with open(fa) as A, open(fb) as B_:
                for i, (x, y) in enumerate(zip(A, B_)):
                    if x != y:
                        first = (i, x.strip(), y.strip())
                        break
            violations.append({"kind": "trace-difference", "cfg": cfg, "class": lab, "request": a[0], "request_b": b[0],
                               "events": [a[2], b[2]], "first_difference": first})
        if len(samples) < 6:
            samples.append({"cfg": cfg, "op": lab, "secrets": len(items), "events_in_window": items[0][2], "trace_sha256": items[0][1][:16]})
    ctx.cov["traces_compared"] = ntr
    ctx.cov["trace_groups"] = len(groups)
    ctx.cov["trace_samples"] = samples
    ctx.cov["evaluations"] = ctx.cov.get("evaluations", 0) + ntr
    ctx.assumptions.append("C10 runtime half: valgrind-3.19 lackey instruction+data-address traces of the release driver between two marker calls; "
                           "AVX-512 IFMA code cannot run under valgrind 3.19 and is not traced; micro-architectural effects are out of scope")
    return violations


# ------------------------------------------------------------------ C14

def run_zero(binary, lines):
    return run_lines(binary, lines, args=["--zero"])


def contains_window(hay, needle, w=8):
    for i in range(0, len(needle) - w + 1):
        if needle[i:i + w] != bytes(w) and needle[i:i + w] in hay:
            return True
    return False


def extra_C14(ctx):
    cfgs = ["serial64", "simd", "avx512"] if ctx.tier == "quick" else ALL_BACKENDS
    drivers, bad = build_drivers(cfgs, "release")
    violations = [{"kind": "infrastructure", "detail": "driver %s: %s" % (c, e[-500:])} for c, e in bad.items()]
    r = SplitMix64(ctx.seed).fork("C14")
    nsec = 4 if ctx.tier == "quick" else 24
    evals = 0
    samples = []
    for cfg, binary in drivers.items():
        lines, meta = [], []
        for i in range(nsec):
            s = r.bytes(32)
            for ty in ("signingkey", "expanded", "xstatic", "xreusable", "xephemeral", "xshared"):
                lines.append("zero.drop.%s %s" % (ty, s.hex())); meta.append(("drop", ty, s))
            e64 = r.bytes(64)
            lines.append("zero.drop.expanded " + e64.hex()); meta.append(("drop", "expanded64", e64))
            lines.append("zero.explicit.scalar " + s.hex()); meta.append(("explicit", "scalar", s))
            pt = pyref.compress(pyref.smul(r.below(L), pyref.B))
            for ty in ("edwards", "cedwards"):
                lines.append("zero.explicit.%s %s" % (ty, pt.hex())); meta.append(("explicit", ty, pt))
            rp = pyref.ris_encode(pyref.smul(r.below(L), pyref.B))
            for ty in ("ristretto", "cristretto"):
                lines.append("zero.explicit.%s %s" % (ty, rp.hex())); meta.append(("explicit", ty, rp))
            lines.append("zero.explicit.montgomery " + s.hex()); meta.append(("explicit", "montgomery", s))
        # raw image after an explicit zeroize() of a COMPUTED value: one constant per type, whatever the value was - in particular for
        # algebraically exceptional values in non-canonical internal representations (identity reached as small-order point times a
        # clamped scalar, as [l]P, as P - P', as 0 * P; torsion points; zero scalar products)
        T8 = [pyref.compress(t) for t in pyref.T8]
        Bc = pyref.compress(pyref.B)
        Bt = pyref.compress(pyref.add(pyref.B, pyref.T8[3]))
        risB = pyref.ris_encode(pyref.B)
        for i in range(nsec + 1):
            k = bytearray(r.bytes(32)); k[0] &= 248; k[31] &= 127; k[31] |= 64
            ks = bytes(k).hex()
            rs = r.bytes(32).hex()
            for pt in [Bc, Bt] + T8:
                lines.append("zero.rawexplicit.edwards_clamped %s %s" % (pt.hex(), ks)); meta.append(("rawexplicit", "edwards", None))
                lines.append("zero.rawexplicit.edwards_mul %s %s" % (pt.hex(), rs)); meta.append(("rawexplicit", "edwards", None))
            for sc in (H(0), H(L - 1), H(8), rs):
                lines.append("zero.rawexplicit.edwards_mul %s %s" % (Bc.hex(), sc)); meta.append(("rawexplicit", "edwards", None))
                lines.append("zero.rawexplicit.edwards_sub %s %s" % (Bt.hex(), sc)); meta.append(("rawexplicit", "edwards", None))
                lines.append("zero.rawexplicit.ristretto_mul %s %s" % (risB.hex(), sc)); meta.append(("rawexplicit", "ristretto", None))
                lines.append("zero.rawexplicit.scalar_mul %s %s" % (rs, sc)); meta.append(("rawexplicit", "scalar", None))
        # heap: same public points, different secret scalars => identical freed contents
        for n in ([0, 1, 2, 3, 8] if ctx.tier == "quick" else [0, 1, 2, 3, 8, 64, 200]):
            pts = ",".join(pyref.compress(pyref.smul(5 + j, pyref.B)).hex() for j in range(n)) or "-"
            for rep in range(2):
                scs = ",".join(H(r.below(L)) for _ in range(n)) or "-"
                lines.append("zero.heap.straus_ct %s %s" % (scs, pts)); meta.append(("heap", "straus_ct", n))
            for rep in range(2):
                scs = ",".join(H(1 + r.below(L - 1)) for _ in range(n)) or "-"
                lines.append("zero.heap.batch_invert %s -" % scs); meta.append(("heap", "batch_invert", n))
            # ... and with one input equal to ZERO (outside the documented precondition, but the release build returns normally:
            # whatever path it takes must still wipe the scratch buffer holding the running products of the other secrets)
            if n >= 2:
                for pos in sorted({n - 1, n // 2}):
                    for rep in range(2):
                        xs = [H(1 + r.below(L - 1)) for _ in range(n)]
                        xs[pos] = H(0)
                        lines.append("zero.heap.batch_invert %s -" % ",".join(xs)); meta.append(("heap", "batch_invert_zero_at_%d" % pos, n))
            # the PUBLIC multiscalar API (owned and borrowed iterators, Edwards and Ristretto): same points, different scalars
            for rep in range(2):
                scs = ",".join(H(r.below(L)) for _ in range(n)) or "-"
                lines.append("zero.heap.msm_public %s %s" % (scs, pts)); meta.append(("heap", "msm_public", n))
        Pb = pyref.compress(pyref.smul(7, pyref.B)).hex()
        for rep in range(2):
            lines.append("zero.heap.mul_public %s %s" % (Pb, H(r.below(L)))); meta.append(("heap", "mul_public", 1))
        for rep in range(2):
            lines.append("zero.heap.sign %s 616263" % r.bytes(32).hex()); meta.append(("heap", "sign", 1))
        outs = run_zero(binary, lines)
        evals += len(lines)
        expected_explicit = {"scalar": "00" * 32, "edwards": "01" + "00" * 31, "cedwards": "01" + "00" * 31, "ristretto": "00" * 32,
                             "cristretto": "00" * 32, "montgomery": "00" * 32}
        heap_prev = {}
        raw_image = {}
        for line, (kind, ty, s), o in zip(lines, meta, outs):
            if not o.startswith("ok"):
                violations.append({"kind": "zeroize", "cfg": cfg, "request": line, "driver": o, "detail": "op failed"})
                continue
            f = o.split(" ")
            if kind == "drop":
                raw = bytes.fromhex(f[1]) if f[1] != "-" else b""
                secrets = [s]
                if ty in ("signingkey", "expanded"):
                    h = pyref.sha512(s[:32]) if len(s) == 32 else s
                    a, pref = pyref.ed_expand(s[:32]) if len(s) == 32 else (int.from_bytes(s[:32], "little"), s[32:])
                    secrets += [h[:32], h[32:], tole(a % L), pref]
                if ty == "xshared":
                    k = bytearray(s); k[0] &= 248; k[31] &= 127; k[31] |= 64
                    secrets.append(tole(pyref.to_mont(pyref.smul(int.from_bytes(k, "little"), pyref.B)) if True else 0))
                leaked = [x.hex() for x in secrets if contains_window(raw, x)]
                allzero = raw == bytes(len(raw))
                if leaked or (ty != "signingkey" and not allzero):
                    violations.append({"kind": "zeroize", "cfg": cfg, "request": line, "driver": o[:300],
                                       "detail": "secret bytes survive drop: %s" % leaked if leaked else "object not all-zero after drop"})
                if len(samples) < 4:
                    samples.append({"cfg": cfg, "request": line[:60], "after_drop": o[:80]})
            elif kind == "rawexplicit":
                if ty in raw_image and raw_image[ty][0] != f[1]:
                    violations.append({"kind": "zeroize", "cfg": cfg, "request": line, "request_b": raw_image[ty][1], "driver": o[:400],
                                       "detail": "storage after zeroize() depends on the value that was held (two different raw images for type %s)" % ty})
                raw_image.setdefault(ty, (f[1], line))
            elif kind == "explicit":
                if f[1] != expected_explicit[ty]:
                    violations.append({"kind": "zeroize", "cfg": cfg, "request": line, "driver": o, "detail": "explicit zeroize did not reset to zero/identity"})
            else:
                # ok <copy> LIST DIGEST ...
                key = (ty, s)
                body = f[1:]
                # every freed block that is secret-dependent must be all-zero: compare the whole response between the two scalar sets
                if key in heap_prev and heap_prev[key][0] != body:
                    violations.append({"kind": "zeroize", "cfg": cfg, "request": line, "request_b": heap_prev[key][1], "driver": o[:400],
                                       "detail": "freed heap contents depend on the secret scalars (different digests for two scalar sets, same public input)"})
                heap_prev[key] = (body, line)
                if len(samples) < 8 and s == 3:
                    samples.append({"cfg": cfg, "request": line[:50] + "…", "freed_blocks": o[:160]})
    ctx.cov["evaluations"] = ctx.cov.get("evaluations", 0) + evals
    ctx.cov["zero_samples"] = samples
    ctx.assumptions.append("C14 runtime half: bytes of the object read back after drop_in_place; freed heap blocks snapshotted by an instrumenting global allocator; "
                           "copies left in registers / on the stack by moves, and dead-store elimination in other builds, are not observable this way")
    return violations

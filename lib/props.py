import os, re
"""Per-property request streams (correspondence side of each check)."""
from gen import *

QUICK = "quick"


def sz(tier, q, t):
    return q if tier == QUICK else t


# ------------------------------------------------------------------ C01 field

def req_C01(r, tier):
    out = []
    pool = fe_pool(r, sz(tier, 40, 400))
    pairs = cross(r, pool, sz(tier, 250, 4000))
    for (la, a), (lb, b) in pairs:
        ha, hb = H(a), H(b)
        out.append(("fe.mul:%s*%s" % (la, lb), "fe.mul %s %s" % (ha, hb)))
        out.append(("fe.add", "fe.add %s %s" % (ha, hb)))
        out.append(("fe.sub:%s-%s" % (la, lb), "fe.sub %s %s" % (ha, hb)))
        out.append(("fe.ct_eq", "fe.ct_eq %s %s" % (ha, hb)))
    for la, a in pool:
        ha = H(a)
        for op in ("roundtrip", "neg", "square", "square2", "is_negative", "is_zero"):
            out.append(("fe.%s:%s" % (op, la), "fe.%s %s" % (op, ha)))
    for la, a in pool[:sz(tier, 30, 200)]:
        ha = H(a)
        out.append(("fe.invert:" + la, "fe.invert " + ha))
        out.append(("fe.pow_p58", "fe.pow_p58 " + ha))
        out.append(("fe.pow22501", "fe.pow22501 " + ha))
        out.append(("fe.invsqrt:" + la, "fe.invsqrt " + ha))
        for k in (1, 2, 5, 10, 50, 100):
            out.append(("fe.pow2k", "fe.pow2k %s %d" % (ha, k)))
    # sqrt_ratio_i: all four documented cases
    for i in range(sz(tier, 60, 1000)):
        u = r.choice(pool)[1] % P if i % 3 else r.below(P)
        v = r.below(P)
        cls = r.below(6)
        if cls == 0:
            u = 0
        elif cls == 1:
            v = 0
        elif cls == 2:  # square ratio
            t = r.below(P)
            u = t * t % P * v % P
        elif cls == 3:  # i * square
            t = r.below(P)
            u = t * t % P * v % P * SQRT_M1 % P
        out.append(("fe.sqrt_ratio_i:cls%d" % cls, "fe.sqrt_ratio_i %s %s" % (H(u), H(v))))
    out.append(("fe.sqrt_ratio_i:0/0", "fe.sqrt_ratio_i %s %s" % (H(0), H(0))))
    # batch invert with zeros inside
    for n in (0, 1, 2, 3, 8, 33):
        xs = [r.choice(pool)[1] for _ in range(n)]
        if n >= 3:
            xs[1] = 0
        out.append(("fe.batch_invert:n=%d" % n, "fe.batch_invert " + lst(H(x) for x in xs)))
    for i in range(sz(tier, 20, 200)):
        a, b = r.choice(pool)[1], r.choice(pool)[1]
        c = r.below(2)
        out.append(("fe.cselect", "fe.cselect %s %s %d" % (H(a), H(b), c)))
        out.append(("fe.cswap", "fe.cswap %s %s %d" % (H(a), H(b), c)))
        out.append(("fe.cassign", "fe.cassign %s %s %d" % (H(a), H(b), c)))
        out.append(("fe.cnegate", "fe.cnegate %s %d" % (H(a), c)))
    # raw limb level (translation validation + unreduced representations)
    kinds = ["max", "zero", "rand", "edge", "p", "rand", "edge", "ripple", "ripple", "ripple"]
    # fel*  : serial backends, limbs up to the documented headroom (2^54 / b<1.75..2.5), compared limb-exactly with the
    #         translated kernels AND at value level against the python specification (checks.raw_value_ok)
    # felv* : value level on serial AND fiat; inputs inside fiat's tight (add/sub/neg) resp. loose (mul/square) bounds
    for i in range(sz(tier, 150, 5000)):
        ka, kb = r.choice(kinds), r.choice(kinds)
        a, b = limbs51(r, 54, ka), limbs51(r, 54, kb)
        for op in ("mul", "sub"):
            out.append(("fel51.%s:%s,%s" % (op, ka, kb), "fel51.%s %s %s" % (op, ilst(a), ilst(b))))
        a2, b2 = limbs51(r, 53, ka), limbs51(r, 53, kb)
        out.append(("fel51.add", "fel51.add %s %s" % (ilst(a2), ilst(b2))))
        for op in ("neg", "square", "square2", "as_bytes"):
            out.append(("fel51.%s:%s" % (op, ka), "fel51.%s %s" % (op, ilst(a))))
        out.append(("fel51.pow2k", "fel51.pow2k %s %d" % (ilst(a), 1 + r.below(4))))
        tl = [min(x, (1 << 51) + (1 << 47)) for x in limbs51(r, 52, ka)]
        tb = [min(x, (1 << 51) + (1 << 47)) for x in limbs51(r, 52, kb)]
        for op in ("add", "sub"):
            out.append(("felv51.%s:%s" % (op, ka), "felv51.%s %s %s" % (op, ilst(tl), ilst(tb))))
        out.append(("felv51.neg", "felv51.neg %s" % ilst(tl)))
        out.append(("felv51.as_bytes", "felv51.as_bytes %s" % ilst(tl)))
        la_, lb_ = limbs51(r, 52, ka), limbs51(r, 52, kb)
        out.append(("felv51.mul:%s,%s" % (ka, kb), "felv51.mul %s %s" % (ilst(la_), ilst(lb_))))
        out.append(("felv51.square", "felv51.square %s" % ilst(la_)))
        out.append(("felv51.square2", "felv51.square2 %s" % ilst(la_)))
        out.append(("felv51.pow2k", "felv51.pow2k %s %d" % (ilst(la_), 1 + r.below(4))))
        # felF* : limb-exact on the fiat wrapper backends against the TRANSLATED wrappers (Gen/FiatField51|26, the called
        #         fiat-crypto functions inlined); inputs inside fiat's tight bounds (inclusive 2^51 / 2^26 / 2^25): the
        #         contract under which Props/C01/Fiat51|26 are proved, with `max` = every limb exactly at the bound
        T51 = 1 << 51
        fa = [min(x, T51) for x in (limbs51(r, 52, ka) if ka != "max" else [T51] * 5)]
        fb = [min(x, T51) for x in (limbs51(r, 52, kb) if kb != "max" else [T51] * 5)]
        for op in ("add", "sub", "mul"):
            out.append(("felF51.%s:%s,%s" % (op, ka, kb), "felF51.%s %s %s" % (op, ilst(fa), ilst(fb))))
        for op in ("neg", "square", "square2", "as_bytes"):
            out.append(("felF51.%s:%s" % (op, ka), "felF51.%s %s" % (op, ilst(fa))))
        out.append(("felF51.pow2k", "felF51.pow2k %s %d" % (ilst(fb), 1 + r.below(4))))
        T26 = [(1 << (26 if j % 2 == 0 else 25)) for j in range(10)]
        ga = [min(x, t) for x, t in zip(limbs26(r, 2.0, ka) if ka != "max" else T26, T26)]
        gb = [min(x, t) for x, t in zip(limbs26(r, 2.0, kb) if kb != "max" else T26, T26)]
        for op in ("add", "sub", "mul"):
            out.append(("felF26.%s:%s,%s" % (op, ka, kb), "felF26.%s %s %s" % (op, ilst(ga), ilst(gb))))
        for op in ("neg", "square", "square2", "as_bytes"):
            out.append(("felF26.%s:%s" % (op, ka), "felF26.%s %s" % (op, ilst(ga))))
        out.append(("felF26.pow2k", "felF26.pow2k %s %d" % (ilst(gb), 1 + r.below(4))))
        a, b = limbs26(r, 5.65, ka), limbs26(r, 3.36, kb)
        out.append(("fel26.mul:%s,%s" % (ka, kb), "fel26.mul %s %s" % (ilst(a), ilst(b))))
        for op in ("square", "square2"):
            out.append(("fel26.%s:%s" % (op, kb), "fel26.%s %s" % (op, ilst(b))))
        out.append(("fel26.pow2k", "fel26.pow2k %s %d" % (ilst(b), 1 + r.below(4))))
        a, b = limbs26(r, 4.0, ka), limbs26(r, 4.0, kb)
        out.append(("fel26.sub:%s,%s" % (ka, kb), "fel26.sub %s %s" % (ilst(a), ilst(b))))
        for op in ("neg", "as_bytes"):
            out.append(("fel26.%s:%s" % (op, ka), "fel26.%s %s" % (op, ilst(a))))
        a, b = limbs26(r, 2.0, ka), limbs26(r, 2.0, kb)
        out.append(("fel26.add", "fel26.add %s %s" % (ilst(a), ilst(b))))
        tl, tb = limbs26(r, 1.05, ka), limbs26(r, 1.05, kb)
        for op in ("add", "sub"):
            out.append(("felv26.%s" % op, "felv26.%s %s %s" % (op, ilst(tl), ilst(tb))))
        out.append(("felv26.neg", "felv26.neg %s" % ilst(tl)))
        out.append(("felv26.as_bytes", "felv26.as_bytes %s" % ilst(tl)))
        la_, lb_ = limbs26(r, 2.0, ka), limbs26(r, 2.0, kb)
        out.append(("felv26.mul", "felv26.mul %s %s" % (ilst(la_), ilst(lb_))))
        out.append(("felv26.square", "felv26.square %s" % ilst(la_)))
        out.append(("felv26.square2", "felv26.square2 %s" % ilst(la_)))
    # vector field with UNREDUCED lane limbs (every admissible representation entering the vector backend)
    for A in ("avx2", "ifma"):
        for i in range(sz(tier, 60, 2000)):
            ks = [r.choice(kinds) for _ in range(8)]
            bits = r.choice([52, 52, 53, 54])
            L8 = [ilst(limbs51(r, bits, k)) for k in ks]
            L8r = [ilst(limbs51(r, 52, k)) for k in ks]
            out.append(("vfel.%s.roundtrip:%s" % (A, ks[0]), "vfel.%s.roundtrip %s" % (A, " ".join(L8[:4]))))
            out.append(("vfel.%s.reduce" % A, "vfel.%s.reduce %s" % (A, " ".join(L8[:4]))))
            out.append(("vfel.%s.mul:%s" % (A, ks[0]), "vfel.%s.mul %s" % (A, " ".join(L8r))))
            out.append(("vfel.%s.square" % A, "vfel.%s.square %s" % (A, " ".join(L8r[:4]))))
            out.append(("vfel.%s.neg" % A, "vfel.%s.neg %s" % (A, " ".join(L8r[:4]))))
            out.append(("vfel.%s.diff_sum" % A, "vfel.%s.diff_sum %s" % (A, " ".join(L8r[:4]))))
            out.append(("vfel.%s.add" % A, "vfel.%s.add %s" % (A, " ".join(L8r))))
            out.append(("vfel.%s.mul_negate_lazy" % A, "vfel.%s.mul_negate_lazy %s" % (A, " ".join(L8r))))
            out.append(("vfel.%s.mul_diff_sum" % A, "vfel.%s.mul_diff_sum %s" % (A, " ".join(L8r))))
        # worst-case product feeding negate_lazy / diff_sum: every 52-bit low half of the six partial products of the top
        # limb within a few units of 2^52 and the high halves at their maximum (the margin of `16p - x` in the IFMA
        # backend); stored witnesses first, then fresh near-misses of the same shape
        # (IFMA only: the raw pre-images use limbs up to 2^64, outside the `< 2^58` domain of the AVX2 `new`)
        for (wx, wy) in (margin_corpus() if A == "ifma" else []):
            # the witness in lanes (A, C) or (B, D); the other two lanes random or ZERO (a wrapped `16p - x` that is then added to
            # another lane is only visible when that lane's top limb is tiny, otherwise the addition wraps back)
            for lanesel in range(4):
                other = (lambda: limbs51(r, 51, "rand")) if lanesel < 2 else (lambda: [0] * 5)
                X = [ilst(unreduce_preimage(wx if (j + lanesel) % 2 == 0 else other())) for j in range(4)]
                Y = [ilst(unreduce_preimage(wy if (j + lanesel) % 2 == 0 else other())) for j in range(4)]
                for op in ("mul_negate_lazy", "mul_diff_sum", "mul"):
                    out.append(("vfel.%s.%s:margin_corpus" % (A, op), "vfel.%s.%s %s %s" % (A, op, " ".join(X), " ".join(Y))))
        for i in range(sz(tier, 40, 2000) if A == "ifma" else 0):
            X, Y = [], []
            for j in range(4):
                wx, wy = margin_shape(r)
                X.append(ilst(unreduce_preimage(wx))); Y.append(ilst(unreduce_preimage(wy)))
            for op in ("mul_negate_lazy", "mul_diff_sum"):
                out.append(("vfel.%s.%s:margin_shape" % (A, op), "vfel.%s.%s %s %s" % (A, op, " ".join(X), " ".join(Y))))
    for i in range(sz(tier, 30, 600)):
        # unreduced coordinates of a valid point entering scalar multiplication (run-time selected backend and direct copies)
        k = 1 + r.below(L - 1)
        x, y = smul(k, B)
        z = 1 + r.below(P - 1)
        co = [x * z % P, y * z % P, z, x * y % P * z % P]
        def unred(v):
            v = v + r.below(3) * P if r.below(2) else v
            l5 = [(v >> (51 * j)) & ((1 << 51) - 1) for j in range(4)] + [v >> 204]
            # move weight between adjacent limbs without changing the value: limb j += 2^51*t, limb j+1 -= t
            if r.below(2):
                j = r.below(4)
                t = min(l5[j + 1], 1 + r.below(3))
                l5[j] += t << 51; l5[j + 1] -= t
            return ilst(l5)
        s_ = r.choice([1, 2, 3, 8, r.below(L), r.below(1 << 255)])
        args = " ".join(unred(c) for c in co) + " " + H(s_)
        out.append(("ed.mul_raw_limbs", "ed.mul_raw_limbs " + args))
        for c in ("serial", "avx2", "ifma"):
            out.append(("ed.direct.%s.mul_limbs" % c, "ed.direct.%s.mul_limbs %s" % (c, args)))
    for la, a in pool:
        out.append(("fel51.from_bytes:" + la, "fel51.from_bytes " + H(a)))
        out.append(("fel26.from_bytes:" + la, "fel26.from_bytes " + H(a)))
        out.append(("felF51.from_bytes:" + la, "felF51.from_bytes " + H(a)))
        out.append(("felF26.from_bytes:" + la, "felF26.from_bytes " + H(a)))
    # vector lanes
    for A in ("avx2", "ifma"):
        for i in range(sz(tier, 40, 1500)):
            xs = [H(r.choice(pool)[1]) for _ in range(8)]
            out.append(("vfe.%s.mul" % A, "vfe.%s.mul %s" % (A, " ".join(xs))))
            out.append(("vfe.%s.add" % A, "vfe.%s.add %s" % (A, " ".join(xs))))
            out.append(("vfe.%s.sub" % A, "vfe.%s.sub %s" % (A, " ".join(xs))))
            for op in ("roundtrip", "square", "neg", "reduce", "diff_sum"):
                out.append(("vfe.%s.%s" % (A, op), "vfe.%s.%s %s" % (A, op, " ".join(xs[:4]))))
            out.append(("vfe.%s.shuffle" % A, "vfe.%s.shuffle %s %d" % (A, " ".join(xs[:4]), r.below(9))))
            out.append(("vfe.%s.blend" % A, "vfe.%s.blend %s %d" % (A, " ".join(xs), r.below(8))))
            ks = [r.choice([0, 1, 121666, 121665, (1 << 32) - 1, r.below(1 << 32)]) for _ in range(4)]
            out.append(("vfe.%s.mul_consts" % A, "vfe.%s.mul_consts %s %s" % (A, " ".join(xs[:4]), " ".join(map(str, ks)))))
            out.append(("vfe.%s.cselect" % A, "vfe.%s.cselect %s %d" % (A, " ".join(xs), r.below(2))))
    return out


# ------------------------------------------------------------------ C02 scalars

def req_C02(r, tier):
    out = []
    pool = sc_pool(r, sz(tier, 40, 400))
    for ls, s in pool:
        out.append(("sc.reduce:" + ls, "sc.reduce " + H(s)))
        out.append(("sc.canonical:" + ls, "sc.canonical " + H(s)))
        out.append(("sc.neg", "sc.neg " + H(s)))
        if s % L != 0:
            out.append(("sc.invert", "sc.invert " + H(s)))
        out.append(("scl52.from_bytes", "scl52.from_bytes " + H(s)))
        out.append(("scl29.from_bytes", "scl29.from_bytes " + H(s)))
    for (la, a), (lb, b) in cross(r, pool, sz(tier, 200, 3000)):
        for op in ("add", "sub", "mul"):
            out.append(("sc.%s:%s,%s" % (op, la, lb), "sc.%s %s %s" % (op, H(a), H(b))))
    wides = [0, 1, L, L - 1, (1 << 512) - 1, (1 << 256), (1 << 256) - 1, L << 256, (L << 256) - 1, L * L, L * L - 1, (1 << 260) % L, 1 << 260, 1 << 511, ((1 << 512) - 1) // L * L]
    for w in wides:
        out.append(("sc.reduce_wide:fixed", "sc.reduce_wide " + H(w, 64)))
        out.append(("scl52.from_bytes_wide", "scl52.from_bytes_wide " + H(w, 64)))
        out.append(("scl29.from_bytes_wide", "scl29.from_bytes_wide " + H(w, 64)))
    for i in range(sz(tier, 60, 2000)):
        w = r.below(1 << 512) if i % 2 else (r.choice(pool)[1] << 256) | r.choice(pool)[1]
        out.append(("sc.reduce_wide:rand", "sc.reduce_wide " + H(w, 64)))
        out.append(("scl52.from_bytes_wide", "scl52.from_bytes_wide " + H(w, 64)))
    for n in (0, 1, 2, 3, 5, 17, sz(tier, 40, 300)):
        xs = [(r.choice(pool)[1] % L) or 1 for _ in range(n)]
        out.append(("sc.batch_invert:n=%d" % n, "sc.batch_invert " + lst(H(x) for x in xs)))
        xs = [r.choice(pool)[1] for _ in range(n)]
        out.append(("sc.sum:n=%d" % n, "sc.sum " + lst(H(x) for x in xs)))
        out.append(("sc.product:n=%d" % n, "sc.product " + lst(H(x) for x in xs)))
    for bits in (8, 16, 32, 64, 128):
        for v in (0, 1, (1 << bits) - 1, 1 << (bits - 1), r.below(1 << bits)):
            out.append(("sc.from_u%d" % bits, "sc.from_u %d %d" % (bits, v)))
    for i in range(sz(tier, 10, 200)):
        m = r.bytes(r.below(200))
        out.append(("sc.from_hash", "sc.from_hash " + hx(m)))
    out.append(("sc.from_hash:empty", "sc.from_hash -"))
    # raw unpacked ops on reduced inputs
    def l52(x):
        return ilst([(x >> (52 * i)) & ((1 << 52) - 1) for i in range(5)])

    def l29(x):
        return ilst([(x >> (29 * i)) & ((1 << 29) - 1) for i in range(9)])
    for i in range(sz(tier, 120, 4000)):
        a, b = r.choice(pool)[1] % L, r.choice(pool)[1] % L
        if i % 7 == 0:
            a, b = L - 1, L - 1
        if i % 11 == 0:
            a, b = 0, L - 1
        for W, f in (("52", l52), ("29", l29)):
            for op in ("add", "sub", "mul", "mul_internal", "montgomery_mul"):
                out.append(("scl%s.%s" % (W, op), "scl%s.%s %s %s" % (W, op, f(a), f(b))))
            for op in ("square", "square_internal", "montgomery_square", "as_montgomery", "from_montgomery", "as_bytes"):
                out.append(("scl%s.%s" % (W, op), "scl%s.%s %s" % (W, op, f(a))))
            if a != 0 and i % 10 == 0:
                out.append(("scl%s.invert" % W, "scl%s.invert %s" % (W, f(a))))
                out.append(("scl%s.montgomery_invert" % W, "scl%s.montgomery_invert %s" % (W, f(a))))
    return out


# ------------------------------------------------------------------ C03 Edwards points

def seq_prog(r, pts, n_ops):
    """random register program over decompressed points; returns PROGRAM string"""
    ins = []
    k = 1 + r.below(min(4, len(pts)))
    for i in range(k):
        lab, b = r.choice(pts)
        c = r.below(12)
        if c == 0:
            ins.append("I")
        elif c == 1:
            ins.append("G")
        elif c == 2:
            ins.append("T%d" % r.below(8))
        else:
            ins.append("D" + b.hex())
    npts = list(range(len(ins)))  # indices of point registers
    for _ in range(n_ops):
        c = r.below(18)
        i, j = r.choice(npts), r.choice(npts)
        if c >= 14:
            # conditional select / assign / swap (both halves) / negate; whatever follows consumes the result
            ins.append(r.choice(["K%d,%d,%d", "J%d,%d,%d", "W%d,%d,%d", "Y%d,%d,%d"]) % (i, j, r.below(2)) if c < 17 else "L%d,%d" % (i, r.below(2)))
        elif c <= 2:
            ins.append("A%d,%d" % (i, j))
        elif c <= 4:
            ins.append("S%d,%d" % (i, j))
        elif c == 5:
            ins.append("N%d" % i)
        elif c == 6:
            ins.append("B%d" % i)
        elif c == 7:
            ins.append("M%d,%s" % (i, H(r.choice([0, 1, 2, 8, L, L - 1, r.below(L), r.below(1 << 256)]))))
        elif c == 8:
            ins.append("C%d" % i)
        elif c == 9:
            ins.append("P%d,%d" % (i, 1 + r.below(6)))
        elif c == 10:
            ins.append("U" + ",".join(str(r.choice(npts)) for _ in range(r.below(5))))
        elif c == 11:
            ins.append("R%d,%s" % (i, H(r.below(1 << 255))))
        elif c == 12:
            ins.append("S%d,%d" % (i, i))
        else:
            ins.append("A%d,%d" % (i, i))
        npts.append(len(ins) - 1)
    # predicates on the last few registers
    last = npts[-1]
    for q in (last, r.choice(npts)):
        ins.append("Z%d" % q)
        ins.append("O%d" % q)
        ins.append("F%d" % q)
        ins.append("V%d" % q)
        ins.append("E%d,%d" % (q, r.choice(npts)))
    return ";".join(ins)


def req_C03(r, tier):
    out = []
    pts = point_pool(r, sz(tier, 30, 300))
    for lab, b in pts:
        out.append(("ed.decompress:" + lab, "ed.decompress " + b.hex()))
    for lab, b in bad_point_encodings(r, sz(tier, 30, 300)):
        out.append(("ed.decompress:" + lab, "ed.decompress " + b.hex()))
    for i in range(sz(tier, 200, 3000)):
        y = r.below(1 << 256)
        out.append(("ed.decompress:rand", "ed.decompress " + H(y)))
    # every y in [p-3, p+20) x sign
    for y in list(range(P - 3, P + 20)) + [0, 1, 2, M255]:
        for s in (0, 1):
            out.append(("ed.decompress:edge_y", "ed.decompress " + H((y & M255) | (s << 255))))
    for i in range(sz(tier, 80, 1500)):
        n = r.choice([1, 2, 3, 8, 20, sz(tier, 40, 200)])
        out.append(("ed.seq:len%d" % n, "ed.seq " + seq_prog(r, pts, n)))
    for i in range(sz(tier, 40, 600)):
        n = r.choice([1, 2, 5, 12])
        prog = seq_prog(r, pts, n)
        # strip predicate instructions for coords (all point registers)
        prog = ";".join(x for x in prog.split(";") if x[0] not in "ZOFVE")
        out.append(("ed.coords", "ed.coords " + prog))
    # exceptional pairs: P + (-P), P + T, P + P, T + T'
    for lab, b in pts[:sz(tier, 20, 60)]:
        for t in range(8):
            out.append(("ed.seq:P+T", "ed.seq D%s;T%d;A0,1;S0,1;A2,1;E2,0;O2;F2;F0;O0" % (b.hex(), t)))
        out.append(("ed.seq:P-P", "ed.seq D%s;N0;A0,1;Z2;S0,0;Z4;B0;A0,0;E6,7;C0;P0,3;E9,10" % b.hex()))
    # the point formulas of each backend copy called DIRECTLY (serial, AVX2 and IFMA parallel formulas): doubling of every
    # pool point, and add / sub on exceptional pairs (P±P, P±(-P), identity, every torsion point, P+T) and random pairs
    valid = [(lab, b) for lab, b in pts if decompress(b) is not None]
    special = [b for lab, b in valid if lab in ("identity", "B", "-B", "2B") or lab.startswith("T") or lab.startswith("B+T")]
    for c in ("serial", "avx2", "ifma"):
        for lab, b in valid:
            out.append(("ed.direct.%s.double:%s" % (c, lab.split("(")[0][:12]), "ed.direct.%s.double %s" % (c, b.hex())))
        pairs = [(a, b) for a in special for b in special]
        for lab, b in valid[:sz(tier, 25, 80)]:
            nb = compress(neg(decompress(b)))
            pairs += [(b, b), (b, nb), (nb, b), (b, special[0]), (special[0], b)] + [(b, t) for t in special[4:12]]
        for i in range(sz(tier, 40, 600)):
            pairs.append((r.choice(valid)[1], r.choice(valid)[1]))
        step = 1 if tier != QUICK else 3
        for a, b in pairs[::step]:
            for alg in ("add", "sub"):
                out.append(("ed.direct.%s.%s" % (c, alg), "ed.direct.%s.%s %s %s" % (c, alg, a.hex(), b.hex())))
    # conditional select / assign / swap / negate followed by operations that consume EVERY coordinate (add, sub, scalar mul,
    # validity): a stale coordinate after an in-place conditional operation shows only then
    for lab, b in valid[:sz(tier, 12, 60)]:
        lab2, b2 = r.choice(valid)
        for opc in ("K", "J", "W", "Y"):
            for c in (0, 1):
                out.append(("ed.seq:cond_%s%d" % (opc, c), "ed.seq D%s;D%s;G;%s0,1,%d;V3;A3,2;S3,1;S3,0;M3,%s;Z5;Z6;E4,2" % (b.hex(), b2.hex(), opc, c, H(r.below(L)))))
                out.append(("ed.coords:cond_%s%d" % (opc, c), "ed.coords D%s;D%s;%s0,1,%d;A2,0" % (b.hex(), b2.hex(), opc, c)))
        for c in (0, 1):
            out.append(("ed.seq:cond_L%d" % c, "ed.seq D%s;G;L0,%d;V2;A2,0;A2,1;S2,0;Z3;Z5;M2,%s" % (b.hex(), c, H(r.below(L)))))
            out.append(("ed.coords:cond_L%d" % c, "ed.coords D%s;L0,%d;A1,0" % (b.hex(), c)))
    for lab, b in pts:
        out.append(("ed.to_montgomery:" + lab, "ed.to_montgomery " + b.hex()))
    for n in range(0, 70, 1 if tier != QUICK else 7):
        out.append(("ed.from_slice:len%d" % n, "ed.from_slice " + hx(r.bytes(n))))
    out.append(("ed.from_slice:len32", "ed.from_slice " + hx(r.bytes(32))))
    return out


# ------------------------------------------------------------------ C04 scalar multiplication

def single_digit_scalars():
    """radix-16 scalars with exactly one non-zero digit, all positions and values (one per table entry)"""
    res = []
    for i in range(64):
        for d in range(1, 16):
            v = d << (4 * i)
            if v < (1 << 255):
                res.append(v)
    return res


def req_C04(r, tier):
    out = []
    spool = sc_pool(r, sz(tier, 30, 300))
    pts = point_pool(r, sz(tier, 12, 100))
    goodpts = [p for p in pts if not p[0].startswith("noncanon")]
    # recodings on raw (<2^255) scalars
    for ls, s in spool:
        s = raw255(s)
        out.append(("sc.radix16_raw:" + ls, "sc.radix16_raw " + H(s)))
        for w in (4, 5, 6, 7, 8):
            out.append(("sc.radix2w_raw:w%d" % w, "sc.radix2w_raw %s %d" % (H(s), w)))
        for w in (2, 5, 6, 7, 8):
            out.append(("sc.naf_raw:w%d" % w, "sc.naf_raw %s %d" % (H(s), w)))
        out.append(("sc.bits_le_raw", "sc.bits_le_raw " + H(s)))
    # NAF windows straddling u64 words
    for i in range(sz(tier, 40, 800)):
        pos = r.choice([59, 60, 61, 62, 63, 64, 123, 124, 125, 126, 127, 128, 187, 188, 190, 191, 192, 247, 250, 251, 252, 253, 254])
        v = (r.below(1 << 12) | 1) << pos
        v |= r.below(1 << 255) if r.below(2) else 0
        v &= M255
        for w in (5, 8):
            out.append(("sc.naf_raw:straddle", "sc.naf_raw %s %d" % (H(v), w)))
        for w in (5, 6, 7, 8):
            out.append(("sc.radix2w_raw:straddle", "sc.radix2w_raw %s %d" % (H(v), w)))
        out.append(("sc.radix16_raw:straddle", "sc.radix16_raw " + H(v)))
    sd = single_digit_scalars()
    step = 1 if tier != QUICK else 9
    for v in sd[::step]:
        out.append(("ed.mul_base_raw:single_digit", "ed.mul_base_raw " + H(v)))
        if v < L:
            out.append(("ed.basepoint_table:single_digit", "ed.basepoint_table " + H(v)))
    # odd multiples for NAF tables: scalar d at position 0, d odd < 128 ; and combos a*A + b*B
    for d in range(1, 256, 2 if tier != QUICK else 14):
        for sign in (1, -1):
            b = (sign * d) % L
            out.append(("ed.double_base:oddB", "ed.double_base %s %s %s" % (H(0), compress(B).hex(), H(b))))
            out.append(("ed.double_base:oddA", "ed.double_base %s %s %s" % (H(b), r.choice(goodpts)[1].hex(), H(0))))
            for c in ("serial", "avx2", "ifma"):
                out.append(("ed.direct.%s.double_base" % c, "ed.direct.%s.double_base %s %s %s" % (c, H(b), r.choice(goodpts)[1].hex(), H(b))))
    for x in range(-8, 9):
        for lab, b in goodpts[:6]:
            out.append(("ed.select:%d" % x, "ed.select %s %d" % (b.hex(), x)))
            out.append(("ed.select_affine", "ed.select_affine %s %d" % (b.hex(), x)))
    for i in range(sz(tier, 60, 1500)):
        ls, s = r.choice(spool)
        lp, p = r.choice(goodpts)
        out.append(("ed.mul_raw:%s" % ls, "ed.mul_raw %s %s" % (p.hex(), H(raw255(s)))))
        out.append(("ed.mul_base:%s" % ls, "ed.mul_base " + H(s)))
        out.append(("ed.mul_base_raw", "ed.mul_base_raw " + H(raw255(s))))
        out.append(("ed.basepoint_table", "ed.basepoint_table " + H(s)))
        out.append(("ed.mul_base_clamped", "ed.mul_base_clamped " + H(s)))
        out.append(("ed.mul_clamped", "ed.mul_clamped %s %s" % (p.hex(), H(s))))
        out.append(("mont.mul_raw", "mont.mul_raw %s %s" % (H(to_mont(decompress(p))), H(raw255(s)))))
        out.append(("mont.mul_base", "mont.mul_base " + H(s)))
        out.append(("ris.mul_base", "ris.mul_base " + H(s)))
        out.append(("ris.table", "ris.table " + H(s)))
        a, b2 = r.choice(spool)[1], r.choice(spool)[1]
        out.append(("ed.double_base", "ed.double_base %s %s %s" % (H(a), p.hex(), H(b2))))
        out.append(("ed.double_base_raw", "ed.double_base_raw %s %s %s" % (H(raw255(a)), p.hex(), H(raw255(b2)))))
        for c in ("serial", "avx2", "ifma"):
            out.append(("ed.direct.%s.mul" % c, "ed.direct.%s.mul %s %s" % (c, p.hex(), H(raw255(s)))))
    for radix in (16, 32, 64, 128, 256):
        for i in range(sz(tier, 6, 80)):
            ls, s = r.choice(spool)
            lp, p = r.choice(goodpts)
            s2 = s % L
            out.append(("ed.table:r%d" % radix, "ed.table %d %s %s" % (radix, p.hex(), H(s2))))
        out.append(("ed.table:r%d:l-1" % radix, "ed.table %d %s %s" % (radix, compress(B).hex(), H(L - 1))))
        out.append(("ed.table:r%d:0" % radix, "ed.table %d %s %s" % (radix, compress(B).hex(), H(0))))
    for i in range(sz(tier, 6, 60)):
        out.append(("ed.table_raw:16", "ed.table_raw 16 %s %s" % (r.choice(goodpts)[1].hex(), H(raw255(r.choice(spool)[1])))))
    # multiscalar: all size regimes
    sizes = [0, 1, 2, 3, 7, 8, 9, 33] + (sz(tier, [189, 190, 191], [94, 95, 96, 189, 190, 191, 499, 500, 501, 799, 800, 801]))
    cache = {}

    def rand_pt():
        k = r.below(400)
        if k not in cache:
            q = smul(k + 1, B)
            if k % 5 == 0:
                q = add(q, T8[1 + k % 7])
            cache[k] = compress(q).hex()
        return cache[k]
    for n in sizes:
        reps = 1 if n > 100 else sz(tier, 3, 10)
        for _ in range(reps):
            ss = [H(r.choice(spool)[1] if r.below(3) else r.below(L)) for _ in range(n)]
            ps = [rand_pt() for _ in range(n)]
            out.append(("ed.msm_vt:n=%d" % n, "ed.msm_vt %s %s" % (lst(ss), lst(ps))))
            if n <= 200:
                out.append(("ed.msm_ct:n=%d" % n, "ed.msm_ct %s %s" % (lst(ss), lst(ps))))
                out.append(("ris.msm_ct", "ris.msm_ct %s %s" % (lst(ss), lst(compress_ris_safe(p) for p in ps))))
            out.append(("ed.msm_opt:n=%d" % n, "ed.msm_opt %s %s" % (lst(ss), lst(ps))))
            if n > 0:
                ps2 = list(ps)
                kn = r.below(n)
                ps2[kn] = "~"
                out.append(("ed.msm_opt:none", "ed.msm_opt %s %s" % (lst(ss), lst(ps2))))
                # a None point paired with an exceptional scalar (0, 1, l-1): "None exactly when some input point is None"
                for ex in (0, 1, L - 1):
                    ss2 = list(ss)
                    ss2[kn] = H(ex)
                    out.append(("ed.msm_opt:none_x_scalar%s:n=%d" % ("0" if ex == 0 else ("1" if ex == 1 else "l-1"), n), "ed.msm_opt %s %s" % (lst(ss2), lst(ps2))))
                    for c in ("serial", "avx2", "ifma"):
                        out.append(("ed.direct.%s.straus_vt:none_x_scalar" % c, "ed.direct.%s.straus_vt %s %s" % (c, lst(ss2), lst(ps2))))
                        out.append(("ed.direct.%s.pippenger:none_x_scalar" % c, "ed.direct.%s.pippenger %s %s" % (c, lst(ss2), lst(ps2))))
                    out.append(("ris.msm_opt:none_x_scalar", "ris.msm_opt %s %s" % (lst(ss2), lst(("~" if q == "~" else RIS_B) for q in ps2))))
            for c in ("serial", "avx2", "ifma"):
                if n <= 200:
                    out.append(("ed.direct.%s.straus_ct:n=%d" % (c, n), "ed.direct.%s.straus_ct %s %s" % (c, lst(ss), lst(ps))))
                    out.append(("ed.direct.%s.straus_vt:n=%d" % (c, n), "ed.direct.%s.straus_vt %s %s" % (c, lst(ss), lst(ps))))
                out.append(("ed.direct.%s.pippenger:n=%d" % (c, n), "ed.direct.%s.pippenger %s %s" % (c, lst(ss), lst(ps))))
            # precomputed: split into static / dynamic
            k = r.below(n + 1)
            st_s = ss[:k][: r.below(k + 1)] if r.below(2) else ss[:k]
            out.append(("ed.msm_pre:n=%d" % n, "ed.msm_pre %s %s %s %s" % (lst(st_s), lst(ps[:k]), lst(ss[k:]), lst(ps[k:]))))
            for c in ("serial", "avx2", "ifma"):
                out.append(("ed.direct.%s.pre" % c, "ed.direct.%s.pre %s %s %s %s" % (c, lst(st_s), lst(ps[:k]), lst(ss[k:]), lst(ps[k:]))))
    # structured digit patterns: scalar tuples that SHARE all-zero digit columns (low, high or interior) in every radix -
    # bucket / window algorithms that special-case empty columns or digits see them only on such tuples, never on random ones
    def patterns(n):
        pats = []
        for k in (4, 6, 8, 16, 64, 128):
            pats.append(("low%d" % k, [((1 + r.below(L >> k)) << k) % L for _ in range(n)]))
        pats.append(("pow2", [1 << r.choice([6, 7, 8, 64, 200]) for _ in range(n)]))
        pats.append(("all64", [64] * n))
        pats.append(("high", [r.below(1 << 60) for _ in range(n)]))
        pats.append(("gap", [(x & ~(((1 << 40) - 1) << 100)) % L for x in (r.below(L) for _ in range(n))]))
        pats.append(("lowgap", [(((1 + r.below(1 << 60)) << 16) | ((1 + r.below(1 << 30)) << 200)) % L for _ in range(n)]))
        return pats
    for n in sizes:
        if n == 0:
            continue
        pats = patterns(n)
        if n > 100:
            pats = [pats[3], pats[7], pats[r.below(len(pats))], pats[10]]
        for name, vals in pats:
            ss = [H(v) for v in vals]
            ps = [rand_pt() for _ in range(n)]
            out.append(("ed.msm_vt:digits_%s:n=%d" % (name, n), "ed.msm_vt %s %s" % (lst(ss), lst(ps))))
            out.append(("ed.msm_opt:digits_%s:n=%d" % (name, n), "ed.msm_opt %s %s" % (lst(ss), lst(ps))))
            if n <= 200:
                out.append(("ed.msm_ct:digits_%s" % name, "ed.msm_ct %s %s" % (lst(ss), lst(ps))))
            for c in ("serial", "avx2", "ifma"):
                out.append(("ed.direct.%s.pippenger:digits_%s" % (c, name), "ed.direct.%s.pippenger %s %s" % (c, lst(ss), lst(ps))))
                if n <= 200:
                    out.append(("ed.direct.%s.straus_vt:digits_%s" % (c, name), "ed.direct.%s.straus_vt %s %s" % (c, lst(ss), lst(ps))))
                    out.append(("ed.direct.%s.straus_ct:digits_%s" % (c, name), "ed.direct.%s.straus_ct %s %s" % (c, lst(ss), lst(ps))))
            k = n // 2
            out.append(("ed.msm_pre:digits_%s" % name, "ed.msm_pre %s %s %s %s" % (lst(ss[:k]), lst(ps[:k]), lst(ss[k:]), lst(ps[k:]))))
            if n <= 9 or n >= 190:
                out.append(("ris.msm_vt:digits_%s" % name, "ris.msm_vt %s %s" % (lst(ss), lst([RIS_B] * n))))
    # exceptional POINTS inside multiscalar inputs of every size regime: the identity, small-order points and points with a torsion
    # component, at the first / last / a random position and everywhere ("the identity contributes nothing" shortcuts)
    IDp, T2p, T8p, BTp = compress(ZERO).hex(), compress(T8[4]).hex(), compress(T8[1]).hex(), compress(add(B, T8[3])).hex()
    for n in sizes:
        if n == 0:
            continue
        ss = [H(r.below(L)) for _ in range(n)]
        base = [rand_pt() for _ in range(n)]
        variants = []
        for name, ex in (("id", IDp), ("t2", T2p), ("t8", T8p), ("Bt", BTp)):
            for where in ("first", "last", "rand"):
                ps = list(base)
                ps[{"first": 0, "last": n - 1, "rand": r.below(n)}[where]] = ex
                variants.append(("%s_%s" % (name, where), ps))
            variants.append(("%s_all" % name, [ex] * n))
        if n > 100:
            variants = [v for v in variants if v[0] in ("id_first", "id_rand", "id_all", "t8_last", "Bt_rand")]
        for name, ps in variants:
            out.append(("ed.msm_vt:pt_%s:n=%d" % (name, n), "ed.msm_vt %s %s" % (lst(ss), lst(ps))))
            out.append(("ed.msm_opt:pt_%s:n=%d" % (name, n), "ed.msm_opt %s %s" % (lst(ss), lst(ps))))
            if n <= 200:
                out.append(("ed.msm_ct:pt_%s" % name, "ed.msm_ct %s %s" % (lst(ss), lst(ps))))
            for c in ("serial", "avx2", "ifma"):
                out.append(("ed.direct.%s.pippenger:pt_%s" % (c, name), "ed.direct.%s.pippenger %s %s" % (c, lst(ss), lst(ps))))
                if n <= 200:
                    out.append(("ed.direct.%s.straus_vt:pt_%s" % (c, name), "ed.direct.%s.straus_vt %s %s" % (c, lst(ss), lst(ps))))
                    out.append(("ed.direct.%s.straus_ct:pt_%s" % (c, name), "ed.direct.%s.straus_ct %s %s" % (c, lst(ss), lst(ps))))
            k = n // 2
            out.append(("ed.msm_pre:pt_%s" % name, "ed.msm_pre %s %s %s %s" % (lst(ss[:k]), lst(ps[:k]), lst(ss[k:]), lst(ps[k:]))))
        if n <= 9 or n >= 190:
            rid = ris_encode(ZERO).hex()
            rps = [RIS_B] * n
            rps[r.below(n)] = rid
            out.append(("ris.msm_vt:pt_id", "ris.msm_vt %s %s" % (lst(ss), lst(rps))))
            if n <= 200:
                out.append(("ris.msm_ct:pt_id", "ris.msm_ct %s %s" % (lst(ss), lst(rps))))
    out += exceptional_scalar_mul(r)
    # ladder on arbitrary bit strings
    for i in range(sz(tier, 30, 400)):
        nb = r.choice([0, 1, 2, 7, 64, 255, 256, 300])
        bits = bytes(r.below(2) for _ in range(nb))
        u = r.choice([0, 1, 9, P - 1, r.below(P), r.below(1 << 256)])
        out.append(("mont.mul_bits_be:n=%d" % nb, "mont.mul_bits_be %s %s" % (H(u), hx(bits))))
    return out


def exceptional_scalar_mul(r):
    """every multi-scalar entry point on algebraically exceptional scalar tuples: ALL combinations of {0, 1, l-1, 8} (so also
    all-zero tuples, whose recodings have no non-zero digit at all), with ordinary, identity and torsion points"""
    out = []
    ex = [0, 1, L - 1, 8]
    pts = [compress(B).hex(), compress(ZERO).hex(), compress(T8[1]).hex(), compress(add(B, T8[4])).hex()]
    for a in ex:
        for b in ex:
            for p in pts[:3] if (a, b) != (0, 0) else pts:
                out.append(("ed.double_base:exc", "ed.double_base %s %s %s" % (H(a), p, H(b))))
                out.append(("ed.double_base_raw:exc", "ed.double_base_raw %s %s %s" % (H(a), p, H(b))))
                for c in ("serial", "avx2", "ifma"):
                    out.append(("ed.direct.%s.double_base:exc" % c, "ed.direct.%s.double_base %s %s %s" % (c, H(a), p, H(b))))
            out.append(("ris.double_base:exc", "ris.double_base %s %s %s" % (H(a), RIS_B, H(b))))
    for n in (1, 2, 3, 4, 8, 9):
        for v in ex:
            ss = [H(v)] * n
            ps = [pts[i % len(pts)] for i in range(n)]
            for op in ("ed.msm_vt", "ed.msm_ct", "ed.msm_opt"):
                out.append(("%s:exc" % op, "%s %s %s" % (op, lst(ss), lst(ps))))
            for c in ("serial", "avx2", "ifma"):
                for alg in ("straus_ct", "straus_vt", "pippenger"):
                    out.append(("ed.direct.%s.%s:exc" % (c, alg), "ed.direct.%s.%s %s %s" % (c, alg, lst(ss), lst(ps))))
            k = n // 2
            out.append(("ed.msm_pre:exc", "ed.msm_pre %s %s %s %s" % (lst(ss[:k]), lst(ps[:k]), lst(ss[k:]), lst(ps[k:]))))
    for v in ex:
        for p in pts:
            out.append(("ed.mul_raw:exc", "ed.mul_raw %s %s" % (p, H(v))))
            out.append(("ed.mul_clamped:exc", "ed.mul_clamped %s %s" % (p, H(v))))
        out.append(("ed.mul_base:exc", "ed.mul_base " + H(v)))
        out.append(("ris.mul_base:exc", "ris.mul_base " + H(v)))
        out.append(("mont.mul_base:exc", "mont.mul_base " + H(v)))
    return out


def compress_ris_safe(phex):
    # ris.* take CompressedRistretto; reuse even Edwards multiples of B: caller replaces. Placeholder: basepoint
    return RIS_B


RIS_B = "e2f2ae0a6abc4e71a884a961c500515f58e30b6aa582dd8db6a65945e08d2d76"


# ------------------------------------------------------------------ C06 Ristretto

def ris_pool(r, n):
    out = [("id", ris_encode(ZERO)), ("B", ris_encode(B))]
    for i in range(n):
        k = r.below(L) if i % 2 else 1 + r.below(16)
        out.append(("kB", ris_encode(smul(k, B))))
    return out


def ris_seq_prog(r, pool, n_ops):
    ins = []
    k = 1 + r.below(3)
    for i in range(k):
        c = r.below(8)
        if c == 0:
            ins.append("I")
        elif c == 1:
            ins.append("G")
        elif c == 2:
            ins.append("H" + r.bytes(64).hex())
        else:
            ins.append("D" + r.choice(pool)[1].hex())
    pts = list(range(len(ins)))
    for _ in range(n_ops):
        c = r.below(10)
        i, j = r.choice(pts), r.choice(pts)
        if c <= 2:
            ins.append("A%d,%d" % (i, j))
        elif c <= 3:
            ins.append("S%d,%d" % (i, j))
        elif c == 4:
            ins.append("N%d" % i)
        elif c == 5:
            ins.append("M%d,%s" % (i, H(r.choice([0, 1, 2, L - 1, r.below(L)]))))
        elif c == 6:
            ins.append("U" + ",".join(str(r.choice(pts)) for _ in range(r.below(4))))
        else:
            ins.append("Q%d,%d" % (i, r.below(4)))
        pts.append(len(ins) - 1)
    last = pts[-1]
    ins.append("E%d,%d" % (last, r.choice(pts)))
    ins.append("Z%d" % last)
    # torsion invariance: P vs P+T4 compare equal
    ins.append("Q%d,%d" % (last, 1 + r.below(3)))
    ins.append("E%d,%d" % (last, len(ins) - 1))
    return ";".join(ins)


def ris_bad_encodings(r, n):
    """one generator per rejection class"""
    out = []
    # non-canonical field element (s >= p)
    for s in (P, P + 2, M255 - 1 if False else P + 18):
        out.append(("ris.bad:noncanon", tole(s & M255)))
    out.append(("ris.bad:bit255", tole((1 << 255) | 2)))
    out.append(("ris.bad:bit255_B", bytes(a | (0x80 if i == 31 else 0) for i, a in enumerate(ris_encode(B)))))
    # negative s
    for _ in range(n):
        s = r.below(P) | 1
        out.append(("ris.bad:negative_s", tole(s)))
    # non-square / negative t / y = 0: rejection sampling over even s
    cnt = {"nonsq": 0, "other": 0}
    tries = 0
    while (cnt["nonsq"] < n or cnt["other"] < n) and tries < 40 * n + 200:
        tries += 1
        s = r.below(P) & ~1
        if ris_decode(tole(s)) is None:
            ss = s * s % P
            u1 = (1 - ss) % P; u2 = (1 + ss) % P; u2s = u2 * u2 % P
            v = (-(D * u1 % P * u1) - u2s) % P
            ok, _ = sqrt_ratio_m1(1, v * u2s % P)
            key = "nonsq" if not ok else "other"
            if cnt[key] < n:
                cnt[key] += 1
                out.append(("ris.bad:" + ("nonsquare" if not ok else "neg_t_or_y0"), tole(s)))
    out.append(("ris.bad:s=1(y=0)", tole(1)))
    out.append(("ris.bad:s=p-1", tole(P - 1)))
    return out


def req_C06(r, tier):
    out = []
    pool = ris_pool(r, sz(tier, 20, 200))
    for lab, b in pool:
        out.append(("ris.decompress:" + lab, "ris.decompress " + b.hex()))
    for lab, b in ris_bad_encodings(r, sz(tier, 12, 150)):
        out.append((lab, "ris.decompress " + b.hex()))
    for i in range(sz(tier, 150, 3000)):
        out.append(("ris.decompress:rand", "ris.decompress " + r.bytes(32).hex()))
        s = r.below(P) & ~1
        out.append(("ris.decompress:rand_even", "ris.decompress " + tole(s).hex()))
    for i in range(sz(tier, 60, 1500)):
        out.append(("ris.from_uniform", "ris.from_uniform " + r.bytes(64).hex()))
        out.append(("ris.elligator", "ris.elligator " + H(r.choice(fe_pool(r, 0))[1] if i % 4 == 0 else r.below(1 << 256))))
        m = r.bytes(r.below(100))
        out.append(("ris.from_hash", "ris.from_hash " + hx(m)))
    for v in (0, 1, P - 1, P, SQRT_M1, (1 << 255) - 1, (1 << 256) - 1):
        out.append(("ris.elligator:edge", "ris.elligator " + H(v)))
        out.append(("ris.from_uniform:edge", "ris.from_uniform " + H(v) + H(v)))
    for i in range(sz(tier, 60, 1000)):
        n = r.choice([1, 2, 4, 10, sz(tier, 20, 100)])
        out.append(("ris.seq:len%d" % n, "ris.seq " + ris_seq_prog(r, pool, n)))
    for n in (0, 1, 2, 3, 8, 17, sz(tier, 33, 64)):
        ps = [r.choice(pool)[1].hex() for _ in range(n)]
        out.append(("ris.double_compress_batch:n=%d" % n, "ris.double_compress_batch " + lst(ps)))
        ss = [H(r.below(L)) for _ in range(n)]
        out.append(("ris.msm_ct:n=%d" % n, "ris.msm_ct %s %s" % (lst(ss), lst(ps))))
        out.append(("ris.msm_vt:n=%d" % n, "ris.msm_vt %s %s" % (lst(ss), lst(ps))))
        out.append(("ris.msm_opt:n=%d" % n, "ris.msm_opt %s %s" % (lst(ss), lst(ps))))
    # every coset REPRESENTATIVE (P + T, T in E[4]) of ordinary elements and of the identity, at every position of the batch: the
    # identity held as (0,1), (0,-1), (i,0), (-i,0) - "batched double-and-compress equals compressing 2P" for all representatives
    rid_, rbs_ = ris_encode(ZERO).hex(), [ris_encode(smul(k, B)).hex() for k in (1, 2, 7)]
    for n in (1, 2, 3, 5):
        for pos in range(n):
            for j in range(4):
                items = ["%s:%d" % (rbs_[i % 3], r.below(4)) for i in range(n)]
                items[pos] = "%s:%d" % (rid_, j)
                out.append(("ris.double_compress_batch_rep:id_rep%d_at_%d_of_%d" % (j, pos, n), "ris.double_compress_batch_rep " + lst(items)))
    for j in range(4):
        out.append(("ris.double_compress_batch_rep:all_id_rep%d" % j, "ris.double_compress_batch_rep " + lst(["%s:%d" % (rid_, j)] * 3)))
    for i in range(sz(tier, 6, 60)):
        n = 1 + r.below(6)
        out.append(("ris.double_compress_batch_rep:rand", "ris.double_compress_batch_rep " + lst("%s:%d" % (r.choice(pool)[1].hex(), r.below(4)) for _ in range(n))))
    # the group / cofactor trait methods on every coset representative (prime order: every representative of every element is torsion-free,
    # is admitted by into_subgroup, and is the identity exactly when the element is)
    for lab, b in [("identity", bytes(32))] + ris_pool(r, 6):
        for j in range(4):
            out.append(("grp.ris_group:%s:rep%d" % (lab.split("(")[0][:10], j), "grp.ris_group %s %d" % (b.hex(), j)))
    # identity in batch (documented: batch double-and-compress of identity)
    out.append(("ris.double_compress_batch:id", "ris.double_compress_batch " + lst([ris_encode(ZERO).hex(), ris_encode(B).hex(), ris_encode(ZERO).hex()])))
    for i in range(sz(tier, 20, 300)):
        s = r.choice(sc_pool(r, 0))[1]
        out.append(("ris.mul_base", "ris.mul_base " + H(s)))
        out.append(("ris.table", "ris.table " + H(s)))
        out.append(("ris.double_base", "ris.double_base %s %s %s" % (H(r.below(L)), r.choice(pool)[1].hex(), H(s))))
    for n in range(0, 70, 1 if tier != QUICK else 7):
        out.append(("ris.from_slice:len%d" % n, "ris.from_slice " + hx(r.bytes(n))))
    out.append(("ris.from_slice:len32", "ris.from_slice " + hx(r.bytes(32))))
    return out


# ------------------------------------------------------------------ C07 X25519 / Montgomery

def low_order_u():
    return [0, 1, 325606250916557431795983626356110631294008115727848805560023387167927233504,
            39382357235489614581723060781553021112529911719440698176882885853963445705823,
            P - 1, P, P + 1]


def req_C07(r, tier):
    out = []
    us = [("lo%d" % i, u) for i, u in enumerate(low_order_u())] + [("9", 9), ("2^255-1", M255), ("2^256-1", (1 << 256) - 1), ("2^255+9", (1 << 255) + 9),
                                                               ("p+9", P + 9), ("2", 2), ("twist2", 2)]
    us += [(l_ + "|b255", u | (1 << 255)) for l_, u in list(us) if u < (1 << 255)]
    # NEIGHBOURS of the special u values: the special value with ONE other byte changed (a fast path / comparison that inspects only part
    # of the 32 bytes - prefix, suffix, a single byte - mistakes these for the special value)
    for l_, u in [("9", 9), ("0", 0), ("1", 1), ("p-1", P - 1)]:
        ub = bytearray(tole(u))
        for pos, vals in ((31, (0x01, 0x40, 0x7f, 0x81, 0xff)), (30, (0x01, 0xff)), (16, (0x01,)), (1, (0x01, 0xff))):
            for v_ in vals:
                nb = bytearray(ub); nb[pos] ^= v_
                us.append(("near_%s:byte%d" % (l_, pos), int.from_bytes(bytes(nb), "little")))
    for i in range(sz(tier, 30, 500)):
        us.append(("rand", r.below(1 << 256)))
    ks = [("0", 0), ("1", 1), ("8", 8), ("ff", (1 << 256) - 1), ("l", L), ("8l", 8 * L % (1 << 256)), ("clamped_l_mult", 0),
          ("l-1", L - 1), ("l-2", L - 2), ("l-9", L - 9), ("2^252", 1 << 252), ("2^252+1", (1 << 252) + 1), ("2^252-1", (1 << 252) - 1),
          ("2^253-1", (1 << 253) - 1), ("2^254", 1 << 254), ("2^255-1", M255)]
    for i in range(sz(tier, 20, 300)):
        ks.append(("rand", r.below(1 << 256)))
    # RFC 7748 vectors
    out.append(("x.x25519:rfc1", "x.x25519 a546e36bf0527c9d3b16154b82465edd62144c0ac1fc5a18506a2244ba449ac4 e6db6867583030db3594c1a424b15f7c726624ec26b3353b10a903a6d0ab1c4c"))
    out.append(("x.x25519:rfc2", "x.x25519 4b66e9d4d1b4673c5ad22691957d6af5c11b6421e0ea01d42ca4169e7918ba0d e5210f12786811d3f4b7959d0538ae2c31dbe7106fc03c3efc4cd549c715a493"))
    for (lk, k), (lu, u) in cross(r, ks, 0) if False else [(r.choice(ks), r.choice(us)) for _ in range(sz(tier, 150, 3000))]:
        out.append(("x.x25519:%s,%s" % (lk, lu), "x.x25519 %s %s" % (H(k), H(u))))
    for lu, u in us:
        k = r.below(1 << 256)
        out.append(("x.x25519:u=" + lu, "x.x25519 %s %s" % (H(k), H(u))))
        out.append(("x.static:u=" + lu, "x.static %s %s" % (H(k), H(u))))
        out.append(("x.reusable", "x.reusable %s %s" % (H(k), H(u))))
        out.append(("x.ephemeral", "x.ephemeral %s %s" % (H(k), H(u))))
        out.append(("mont.mul_clamped", "mont.mul_clamped %s %s" % (H(u), H(k))))
        out.append(("mont.mul", "mont.mul %s %s" % (H(u), H(k))))
        out.append(("mont.mul_raw", "mont.mul_raw %s %s" % (H(u), H(k & M255))))
        out.append(("mont.to_edwards:" + lu, "mont.to_edwards %s %d" % (H(u), r.below(2))))
        out.append(("mont.to_edwards:" + lu, "mont.to_edwards %s %d" % (H(u), 1)))
        out.append(("mont.eq", "mont.eq %s %s" % (H(u), H((u + P) % (1 << 256)))))
        out.append(("mont.eq", "mont.eq %s %s" % (H(u), H(r.choice(us)[1]))))
        out.append(("mont.hash", "mont.hash " + H(u)))
        out.append(("x.pubkey_bytes", "x.pubkey_bytes " + H(u)))
    for lk, k in ks:
        out.append(("mont.mul_base_clamped", "mont.mul_base_clamped " + H(k)))
        out.append(("mont.mul_base", "mont.mul_base " + H(k)))
        out.append(("ed.mul_base_clamped", "ed.mul_base_clamped " + H(k)))
        out.append(("sc.clamp", "sc.clamp " + H(k)))
        out.append(("eds.to_scalar_bytes", "eds.to_scalar_bytes " + H(k)))
        out.append(("eds.to_scalar", "eds.to_scalar " + H(k)))
        out.append(("eds.keygen", "eds.keygen " + H(k)))
        # Ed25519 -> X25519 conversion: vk.to_montgomery
        out.append(("eds.vk_to_montgomery", "eds.vk_to_montgomery " + ed_pub(tole(k)).hex()))
    pts = point_pool(r, sz(tier, 20, 200))
    for lab, b in pts:
        out.append(("ed.to_montgomery:" + lab, "ed.to_montgomery " + b.hex()))
        q = decompress(b)
        if q is not None and q[1] != 1:
            u = to_mont(q)
            for s in (0, 1):
                out.append(("mont.to_edwards:from_point", "mont.to_edwards %s %d" % (H(u), s)))
    for i in range(sz(tier, 30, 500)):
        out.append(("mont.elligator", "mont.elligator " + H(r.below(1 << 256))))
        out.append(("ed.nonspec_map", "ed.nonspec_map " + hx(r.bytes(r.below(64)))))
    for v in (0, 1, P - 1, SQRT_M1, (P - 1) // 2, pow(2, (P - 1) // 2 - 1, P)):
        out.append(("mont.elligator:edge", "mont.elligator " + H(v)))
    for i in range(sz(tier, 30, 400)):
        nb = r.choice([0, 1, 2, 7, 64, 255, 256, 300])
        bits = bytes(r.below(2) for _ in range(nb))
        out.append(("mont.mul_bits_be:n=%d" % nb, "mont.mul_bits_be %s %s" % (H(r.choice(us)[1]), hx(bits))))
    return out


# ------------------------------------------------------------------ C08 / C09 Ed25519

def msgs(r, n):
    out = [b"", b"a", b"abc", bytes(64), bytes(range(256)) * 2]
    for _ in range(n):
        out.append(r.bytes(r.below(300)))
    return out


def ctxs(r):
    return [None, b"", b"a", b"ctx", bytes(255), r.bytes(255), bytes(256), r.bytes(300)]


def ctxs_str(c):
    return "~" if c is None else hx(c)


def req_C08(r, tier):
    out = []
    seeds = [bytes(32), bytes([255]) * 32, bytes(range(32))] + [r.bytes(32) for _ in range(sz(tier, 10, 150))]
    for sd in seeds:
        out.append(("eds.keygen", "eds.keygen " + sd.hex()))
        out.append(("eds.expand", "eds.expand " + sd.hex()))
        out.append(("eds.to_scalar_bytes", "eds.to_scalar_bytes " + sd.hex()))
        pk = ed_pub(sd)
        out.append(("eds.from_keypair:ok", "eds.from_keypair " + (sd + pk).hex()))
        bad = bytearray(pk); bad[r.below(32)] ^= 1 << r.below(8)
        out.append(("eds.from_keypair:flipped", "eds.from_keypair " + (sd + bytes(bad)).hex()))
        out.append(("eds.from_keypair:other", "eds.from_keypair " + (sd + ed_pub(r.bytes(32))).hex()))
        out.append(("eds.from_keypair:undecodable", "eds.from_keypair " + (sd + bad_point_encodings(r, 1)[0][1]).hex()))
        # EVERY small-order encoding (canonical or not; T6 = 32 zero bytes, the "empty" public half some exporters write) and the
        # constant fillers
        for lt, tb in torsion_encodings():
            out.append(("eds.from_keypair:torsion_" + lt, "eds.from_keypair " + (sd + tb).hex()))
        for lt, tb in (("ff", bytes([255]) * 32), ("seed_again", sd)):
            out.append(("eds.from_keypair:filler_" + lt, "eds.from_keypair " + (sd + tb).hex()))
        nc = bytearray(pk); nc[31] ^= 0x80
        out.append(("eds.from_keypair:signflip", "eds.from_keypair " + (sd + bytes(nc)).hex()))
        for m in msgs(r, sz(tier, 2, 8)):
            out.append(("eds.sign:len%d" % len(m), "eds.sign %s %s" % (sd.hex(), hx(m))))
            sig = ed_sign(sd, m)
            out.append(("eds.verify:honest", "eds.verify %s %s %s" % (pk.hex(), hx(m), sig.hex())))
            out.append(("eds.verify_strict:honest", "eds.verify_strict %s %s %s" % (pk.hex(), hx(m), sig.hex())))
            out.append(("eds.verify:wrongmsg", "eds.verify %s %s %s" % (pk.hex(), hx(m + b"x"), sig.hex())))
            out.append(("eds.verify:wrongkey", "eds.verify %s %s %s" % (ed_pub(r.bytes(32)).hex(), hx(m), sig.hex())))
            out.append(("eds.batch:honest1", "eds.batch %s %s %s" % (hx(m) if m else "-", sig.hex(), pk.hex())) if m else ("eds.keygen", "eds.keygen " + sd.hex()))
            for c in ctxs(r)[: sz(tier, 8, 8)]:
                out.append(("eds.sign_ph:ctx%s" % ("none" if c is None else len(c)), "eds.sign_ph %s %s %s" % (sd.hex(), hx(m), ctxs_str(c))))
                if c is not None:
                    out.append(("eds.sign_ctx:ctx%d" % len(c), "eds.sign_ctx %s %s %s" % (sd.hex(), hx(m), ctxs_str(c))))
                if c is None or len(c) <= 255:
                    sg = ed_sign(sd, m, c if c is not None else b"")
                    out.append(("eds.verify_ph:honest", "eds.verify_ph %s %s %s %s" % (pk.hex(), hx(m), ctxs_str(c), sg.hex())))
                    out.append(("eds.verify_ph_strict:honest", "eds.verify_ph_strict %s %s %s %s" % (pk.hex(), hx(m), ctxs_str(c), sg.hex())))
                    out.append(("eds.verify_ph:wrongctx", "eds.verify_ph %s %s %s %s" % (pk.hex(), hx(m), hx(b"other"), sg.hex())))
                    out.append(("eds.verify:ph_sig_as_pure", "eds.verify %s %s %s" % (pk.hex(), hx(m), sg.hex())))
    # hazmat raw_sign with mismatching vk etc.
    for i in range(sz(tier, 10, 100)):
        sd = r.bytes(32)
        esk = sha512(sd)
        m = r.bytes(r.below(50))
        out.append(("eds.raw_sign", "eds.raw_sign %s %s %s" % (esk.hex(), hx(m), ed_pub(sd).hex())))
        out.append(("eds.raw_sign:othervk", "eds.raw_sign %s %s %s" % (r.bytes(64).hex(), hx(m), ed_pub(sd).hex())))
        # the hazmat generic functions with a context digest other than SHA-512 (TaggedSha512): sign, and verify the result, pure and
        # prehashed; plus the cross cases (a SHA-512 signature offered to the tagged verifier must be rejected)
        vk_ = ed_pub(sd)
        a_, pre_ = ed_expand(sd)
        def alt_sign(dom, mm):
            from pyref import sha512 as _h, le as _le
            rr = _le(_h(b"alt" + dom + pre_ + mm)) % L
            Rb = compress(smul(rr, B))
            kk = _le(_h(b"alt" + dom + Rb + vk_ + mm)) % L
            return Rb + tole((rr + kk * a_) % L)
        out.append(("eds.raw_sign_alt", "eds.raw_sign_alt %s %s %s" % (esk.hex(), hx(m), vk_.hex())))
        out.append(("eds.raw_verify_alt:own", "eds.raw_verify_alt %s %s %s" % (vk_.hex(), hx(m), alt_sign(b"", m).hex())))
        out.append(("eds.raw_verify_alt:sha512sig", "eds.raw_verify_alt %s %s %s" % (vk_.hex(), hx(m), ed_sign(sd, m).hex())))
        for cx in (None, b"", b"ctx"):
            cs = "~" if cx is None else (hx(cx) if cx else "-")
            from pyref import sha512 as _h2, dom2 as _dom2
            dm = _dom2(1, cx or b"")
            out.append(("eds.raw_sign_ph_alt", "eds.raw_sign_ph_alt %s %s %s %s" % (esk.hex(), hx(m), vk_.hex(), cs)))
            out.append(("eds.raw_verify_ph_alt:own", "eds.raw_verify_ph_alt %s %s %s %s" % (vk_.hex(), hx(m), cs, alt_sign(dm, _h2(m)).hex())))
            out.append(("eds.raw_verify_ph_alt:sha512sig", "eds.raw_verify_ph_alt %s %s %s %s" % (vk_.hex(), hx(m), cs, ed_sign(sd, m, cx or b"").hex())))
    return out


def torsion_encodings():
    """all eight torsion points in canonical and non-canonical encodings"""
    out = []
    for i, t in enumerate(T8):
        out.append(("T%d" % i, compress(t)))
        x, y = t
        if y < 19:
            out.append(("T%d:y+p" % i, tole((y + P) | ((x & 1) << 255))))
        if x == 0:
            out.append(("T%d:x0sign" % i, tole(y | (1 << 255))))
            if y < 19:
                out.append(("T%d:y+p,x0sign" % i, tole((y + P) | (1 << 255))))
    return out


def req_C09(r, tier):
    out = []
    tor = torsion_encodings()
    seeds = [r.bytes(32) for _ in range(sz(tier, 6, 60))]
    for sd in seeds:
      for mode in ("pure", "ph"):
        ctx = None if mode == "pure" else r.choice([b"", b"ctx", bytes(255)])
        a, _ = ed_expand(sd)
        A = smul(a % L, B)
        pk = compress(A)
        m = r.bytes(r.below(80))
        sig = ed_sign(sd, m, ctx)
        Rb, S = sig[:32], le(sig[32:])
        if mode == "pure":
            # every class through BOTH import paths of key and signature (from_bytes, and TryFrom<&[u8]> / from_slice)
            V = lambda lab, pkb, mb, sg: [("eds.verify:" + lab, "eds.verify %s %s %s" % (pkb.hex(), hx(mb), sg.hex())),
                                          ("eds.verify_strict:" + lab, "eds.verify_strict %s %s %s" % (pkb.hex(), hx(mb), sg.hex())),
                                          ("eds.verify_slice:" + lab, "eds.verify_slice %s %s %s" % (pkb.hex(), hx(mb), sg.hex())),
                                          ("eds.verify_strict_slice:" + lab, "eds.verify_strict_slice %s %s %s" % (pkb.hex(), hx(mb), sg.hex()))]
        else:
            V = lambda lab, pkb, mb, sg: [("eds.verify_ph:" + lab, "eds.verify_ph %s %s %s %s" % (pkb.hex(), hx(mb), hx(ctx), sg.hex())),
                                          ("eds.verify_ph_strict:" + lab, "eds.verify_ph_strict %s %s %s %s" % (pkb.hex(), hx(mb), hx(ctx), sg.hex()))]
        out += V("honest", pk, m, sig)
        # S variants
        for lab, S2 in (("S+l", S + L), ("S+2l", S + 2 * L), ("S+8l", S + 8 * L), ("S=l-1", L - 1), ("S=l", L), ("S=0", 0), ("S|bit255", S | (1 << 255)),
                        ("S|bit253", S | (1 << 253)), ("S=2^253-1", (1 << 253) - 1), ("S+15l", S + 15 * L)):
            if S2 < (1 << 256):
                out += V(lab, pk, m, Rb + tole(S2))
        # canonical-S enforcement with the group equation HOLDING (so that only the S < l rule decides):
        # (a) key = identity: (R = [S mod l]B, S) satisfies the equation for EVERY S and message; sweep S over the boundary region
        idk = compress(ZERO)
        sweep = [L - 1, L, L + 1, L + (1 << 100), (1 << 252) + (1 << 247), (1 << 252) + (1 << 248) - 1, (1 << 252) + (1 << 248), 2 * L - 1, 2 * L,
                 (1 << 253) - 1, (1 << 253), 8 * L, 15 * L, (1 << 255) - 1, (1 << 255) + 5, (1 << 256) - 1, 0, 1, r.below(L)]
        sweep += [v for lab_, v in sc_pool(r, 0) if lab_.startswith("prefix_")][:: (1 if tier != QUICK else 4)]
        for S2 in sweep:
            if S2 < (1 << 256):
                lab = "idkey_S<l" if S2 < L else ("idkey_S>=l_top%02x" % (S2 >> 248))
                out += V(lab, idk, m, compress(smul(S2 % L, B)) + tole(S2))
        # (b) full-order key: our own nonce r0 (verification cannot tell), ground until s is small, then s + l has the top byte of l
        for tries in range(64):
            r0 = r.below(L)
            Rg = compress(smul(r0, B))
            sg = (r0 + ed_challenge(Rg, pk, m, ctx) * a) % L
            if sg < (1 << 248) - (1 << 126):
                out += V("forged_small_s", pk, m, Rg + tole(sg))
                out += V("forged_small_s+l", pk, m, Rg + tole(sg + L))
                break
        # corrupt each field
        for lab, pos in (("flipR", r.below(32)), ("flipS", 32 + r.below(32))):
            b = bytearray(sig); b[pos] ^= 1 << r.below(8)
            out += V(lab, pk, m, bytes(b))
        Rp = decompress(Rb)
        for lt, tb in tor:
            T = decompress(tb)
            out += V("R+T:" + lt, pk, m, compress(add(Rp, T)) + sig[32:])
            Ap = compress(add(A, T))
            out += V("A+T:" + lt, Ap, m, sig)
            k = ed_challenge(tb, tb, m, ctx)
            out += V("allsmall:" + lt, tb, m, tb + tole(0))
            Rs = compress(neg(smul(k, T)))
            out += V("smallA_fitR:" + lt, tb, m, Rs + tole(0))
            k2 = ed_challenge(Rs, tb, m, ctx)
            Rs2 = compress(neg(smul(k2, T)))
            out += V("smallA_fitR2:" + lt, tb, m, Rs2 + tole(0))
            # full-order key, small-order R, S = k*a : the group equation holds, only the strict rule on R rejects
            k3 = ed_challenge(tb, pk, m, ctx)
            out += V("R=small,S=ka:" + lt, pk, m, tb + tole(k3 * a % L))
            # mixed-order key A' = A + T with R = -k T' + ... : search a message for which [S]B - [k]A' = R small
            for tries in range(12):
                m2 = m + bytes([tries])
                Ap_pt = add(A, T)
                Apb = compress(Ap_pt)
                for lr, rb in tor[:8:2]:
                    Rt = decompress(rb)
                    kk = ed_challenge(rb, Apb, m2, ctx)
                    Sx = kk * a % L
                    # [Sx]B - [kk](A+T) = -[kk]T ; accept iff equals Rt
                    if neg(smul(kk, T)) == Rt:
                        out += V("mixedA_smallR_valid:" + lt, Apb, m2, rb + tole(Sx))
        if mode == "ph":
            out.append(("eds.verify_ph:none_vs_empty", "eds.verify_ph %s %s ~ %s" % (pk.hex(), hx(m), sig.hex())))
            out.append(("eds.verify_ph:wrongctx", "eds.verify_ph %s %s %s %s" % (pk.hex(), hx(m), hx(b"zz"), sig.hex())))
            out.append(("eds.verify:ph_sig_as_pure", "eds.verify %s %s %s" % (pk.hex(), hx(m), sig.hex())))
    # vk decoding
    for lt, tb in tor:
        out.append(("eds.vk:" + lt, "eds.vk " + tb.hex()))
        out.append(("eds.vk_slice:" + lt, "eds.vk_slice " + tb.hex()))
    # non-canonical key encodings (y >= p, x = 0 with the sign bit): the key bytes must be kept AS GIVEN by every import path
    for lab, b in point_pool(r, 0):
        if lab.startswith("noncanon"):
            out.append(("eds.vk:" + lab[:14], "eds.vk " + b.hex()))
            out.append(("eds.vk_slice:" + lab[:14], "eds.vk_slice " + b.hex()))
            msg = r.bytes(5)
            # with a SMALL-ORDER key (order n | 8) a valid signature can be forged knowing nothing: pick S, try R_j = [S]B - [j]A and
            # keep the j with k(R_j, A_bytes, m) = j mod n.  It is valid for the key bytes AS GIVEN (k hashes them) and, in general,
            # not for their canonical re-encoding
            Apt = decompress(b)
            mult, n = Apt, 1
            while mult != ZERO and n <= 8:
                mult = add(mult, Apt); n += 1
            if n <= 8:
                made = 0
                for tries in range(40):
                    S = r.below(L)
                    SB = smul(S, B)
                    m2 = msg + bytes([tries])
                    for jj in range(n):
                        Rj = compress(add(SB, neg(smul(jj, Apt))))
                        if ed_challenge(Rj, b, m2, None) % n == jj:
                            sg = Rj + tole(S)
                            for op in ("eds.verify", "eds.verify_slice"):
                                out.append(("%s:noncanon_key_valid" % op, "%s %s %s %s" % (op, b.hex(), hx(m2), sg.hex())))
                            made += 1
                            break
                    if made >= 3:
                        break
            sgr = r.bytes(32) + tole(r.below(L))
            for op in ("eds.verify", "eds.verify_slice", "eds.verify_strict", "eds.verify_strict_slice"):
                out.append(("%s:noncanon_key_random" % op, "%s %s %s %s" % (op, b.hex(), hx(msg), sgr.hex())))
    for lab, b in bad_point_encodings(r, sz(tier, 10, 100)):
        out.append(("eds.vk:offcurve", "eds.vk " + b.hex()))
        out.append(("eds.verify:badkey", "eds.verify %s %s %s" % (b.hex(), "00", r.bytes(64).hex())))
    for n in list(range(0, 70, 1 if tier != QUICK else 9)) + [64, 63, 65]:
        out.append(("eds.sig:len%d" % n, "eds.sig " + hx(r.bytes(n))))
    for i in range(sz(tier, 30, 500)):
        out.append(("eds.verify:random", "eds.verify %s %s %s" % (ed_pub(r.bytes(32)).hex(), hx(r.bytes(10)), r.bytes(64).hex())))
    # verification through the hazmat generic functions with a context digest other than SHA-512 (classes built in req_C08)
    out += [x for x in req_C08(r, "quick") if "_alt" in x[0]]
    return out


# ------------------------------------------------------------------ C13 batch verification

def honest_triples(r, n, msglen=20):
    out = []
    for _ in range(n):
        sd = r.bytes(32)
        m = r.bytes(1 + r.below(msglen))
        out.append((sd, m, ed_sign(sd, m), ed_pub(sd)))
    return out


def batch_line(tr):
    return "eds.batch %s %s %s" % (lst(hx(t[1]) for t in tr), lst(t[2].hex() for t in tr), lst(t[3].hex() for t in tr))


def req_C13(r, tier):
    out = []
    base = honest_triples(r, sz(tier, 12, 40))
    sizes = [0, 1, 2, 3, 7] + sz(tier, [64, 94, 95], [64, 94, 95, 96, 127, 128, 200])
    for n in sizes:
        tr = [r.choice(base) for _ in range(n)] if n > len(base) else list(base[:n])
        out.append(("eds.batch:allvalid:n=%d" % n, batch_line(tr)))
        if n >= 2:
            # permutation, duplication, repetition
            perm = list(tr); perm.reverse()
            out.append(("eds.batch:permuted:n=%d" % n, batch_line(perm)))
            out.append(("eds.batch:duplicated:n=%d" % n, batch_line(tr + [tr[0], tr[0]])))
            out.append(("eds.batch:repeat:n=%d" % n, batch_line(tr)))
        if n >= 1:
            # a VALID entry with an exceptional R: zero nonce, R = the neutral element (canonical encoding of a prime-order-subgroup
            # element), S = H(R, A, M) * a: accepted by single verification, so the batch must accept it as well, at every position
            for pos in sorted({0, n - 1, r.below(n)}):
                tr2 = [list(t) for t in tr]
                sd, m, sig, pk = tr2[pos]
                a_, _pref = ed_expand(sd)
                idb = compress(ZERO)
                k_ = ed_challenge(idb, pk, m, None)
                tr2[pos][2] = idb + tole(k_ * a_ % L)
                out.append(("eds.batch:valid_R_identity_at_%s:n=%d" % ("first" if pos == 0 else ("last" if pos == n - 1 else "mid"), n), batch_line(tr2)))
            for what in ("msg", "R", "S", "key", "S+l", "Snoncanon", "Rundecodable", "swapkeys"):
                tr2 = [list(t) for t in tr]
                j = r.below(n)
                sd, m, sig, pk = tr2[j]
                if what == "msg":
                    tr2[j][1] = m + b"!"
                elif what == "R":
                    other = r.choice(base)
                    tr2[j][2] = other[2][:32] + sig[32:]
                elif what == "S":
                    tr2[j][2] = sig[:32] + tole((le(sig[32:]) + 1) % L)
                elif what == "key":
                    tr2[j][3] = ed_pub(r.bytes(32))
                elif what == "S+l":
                    tr2[j][2] = sig[:32] + tole(le(sig[32:]) + L)
                elif what == "Snoncanon":
                    tr2[j][2] = sig[:32] + tole(le(sig[32:]) | (1 << 255))
                elif what == "Rundecodable":
                    tr2[j][2] = bad_point_encodings(r, 1)[0][1] + sig[32:]
                elif what == "swapkeys":
                    if n < 2:
                        continue
                    k = (j + 1) % n
                    tr2[j][3], tr2[k][3] = tr2[k][3], tr2[j][3]
                    if tr2[j][3] == tr2[k][3]:
                        continue
                out.append(("eds.batch:corrupt_%s:n=%d" % (what, n), batch_line(tr2)))
            # correlated faults: errors that cancel under EQUAL coefficients (swap the S halves of two entries; s_a + d, s_b - d)
            if n >= 2:
                for (ja, jb) in ((0, 1), (0, n - 1)):
                    if ja == jb or tr[ja][2] == tr[jb][2]:
                        continue
                    tr2 = [list(t) for t in tr]
                    sa, sb = tr2[ja][2], tr2[jb][2]
                    tr2[ja][2] = sa[:32] + sb[32:]
                    tr2[jb][2] = sb[:32] + sa[32:]
                    out.append(("eds.batch:swapS:n=%d" % n, batch_line(tr2)))
                    d_ = 1 + r.below(L - 1)
                    tr3 = [list(t) for t in tr]
                    tr3[ja][2] = sa[:32] + tole((le(sa[32:]) + d_) % L)
                    tr3[jb][2] = sb[:32] + tole((le(sb[32:]) - d_) % L)
                    out.append(("eds.batch:shiftS_pair:n=%d" % n, batch_line(tr3)))
            # two independent faults
            if n >= 3:
                tr2 = [list(t) for t in tr]
                tr2[0][1] = tr2[0][1] + b"?"
                tr2[2][2] = tr2[2][2][:32] + tole((le(tr2[2][2][32:]) + 5) % L)
                out.append(("eds.batch:two_faults:n=%d" % n, batch_line(tr2)))
    # mismatched lengths
    tr = base[:3]
    out.append(("eds.batch:len_mismatch_msgs", "eds.batch %s %s %s" % (lst(hx(t[1]) for t in tr[:2]), lst(t[2].hex() for t in tr), lst(t[3].hex() for t in tr))))
    out.append(("eds.batch:len_mismatch_sigs", "eds.batch %s %s %s" % (lst(hx(t[1]) for t in tr), lst(t[2].hex() for t in tr[:2]), lst(t[3].hex() for t in tr))))
    out.append(("eds.batch:len_mismatch_keys", "eds.batch %s %s %s" % (lst(hx(t[1]) for t in tr), lst(t[2].hex() for t in tr), lst(t[3].hex() for t in tr[:1]))))
    out.append(("eds.batch:len_mismatch_all_differ", "eds.batch %s %s %s" % (lst(hx(t[1]) for t in tr[:1]), lst(t[2].hex() for t in tr[:2]), lst(t[3].hex() for t in tr))))
    # every length triple (messages, signatures, keys) in {0..3}^3, mismatched or not (incl. an EMPTY list next to non-empty ones)
    for a in range(4):
        for b in range(4):
            for c in range(4):
                if not (a == b == c and a > 0):
                    out.append(("eds.batch:lens_%d_%d_%d" % (a, b, c), "eds.batch %s %s %s" % (lst(hx(t[1]) for t in tr[:a]), lst(t[2].hex() for t in tr[:b]), lst(t[3].hex() for t in tr[:c]))))
    # transcript history: the sequence of (label, message) operations on the merlin transcript must be the specified one
    for n in (0, 1, 2, 3, 5):
        tr = list(base[:n])
        out.append(("eds.batch_transcript:valid:n=%d" % n, batch_line(tr).replace("eds.batch ", "eds.batch_transcript ", 1)))
        if n >= 1:
            tr2 = [list(t) for t in tr]
            tr2[0][2] = tr2[0][2][:32] + tole((le(tr2[0][2][32:]) + 3) % L)
            out.append(("eds.batch_transcript:badS:n=%d" % n, batch_line(tr2).replace("eds.batch ", "eds.batch_transcript ", 1)))
            tr3 = [list(t) for t in tr]
            tr3[-1][2] = tr3[-1][2][:32] + tole(le(tr3[-1][2][32:]) + L)
            out.append(("eds.batch_transcript:noncanonS:n=%d" % n, batch_line(tr3).replace("eds.batch ", "eds.batch_transcript ", 1)))
    # single verification of the same triples (agreement with individual verification)
    for sd, m, sig, pk in base:
        out.append(("eds.verify:single", "eds.verify %s %s %s" % (pk.hex(), hx(m), sig.hex())))
    return out


# ------------------------------------------------------------------ C16 serde

def json_arr(bs):
    return ("[" + ",".join(str(b) for b in bs) + "]").encode()


def req_C16(r, tier):
    out = []
    n = sz(tier, 8, 80)
    vals = {}
    vals["scalar"] = [tole(0), tole(1), tole(L - 1)] + [tole(r.below(L)) for _ in range(n)]
    pts = [b for _, b in point_pool(r, n) if True]
    vals["edwards"] = [b for l_, b in point_pool(r, n) if not l_.startswith("noncanon")]
    vals["cedwards"] = [r.bytes(32) for _ in range(n)] + vals["edwards"][:4]
    vals["ristretto"] = [b for _, b in ris_pool(r, n)]
    vals["cristretto"] = [r.bytes(32) for _ in range(n)] + vals["ristretto"][:4]
    vals["montgomery"] = [r.bytes(32) for _ in range(n)]
    noncanon = [b for l_, b in torsion_encodings() if ":" in l_] + [b for l_, b in point_pool(r, 0) if l_.startswith("noncanon")]
    vals["vk"] = [ed_pub(r.bytes(32)) for _ in range(n)] + noncanon + [b for _, b in torsion_encodings()[:8]]
    vals["cedwards"] = vals["cedwards"] + noncanon
    vals["sk"] = [r.bytes(32) for _ in range(n)]
    vals["sig"] = [ed_sign(r.bytes(32), b"m") for _ in range(n)] + [r.bytes(64) for _ in range(n)]
    vals["xpub"] = [r.bytes(32) for _ in range(n)]
    vals["xstatic"] = [r.bytes(32) for _ in range(n)] + [bytes([255]) * 32, bytes(32)]
    invalid = {
        "scalar": [tole(L), tole(L + 1), tole((1 << 256) - 1), tole(1 << 255), tole(2 * L - 1)],
        "edwards": [b for _, b in bad_point_encodings(r, 6)],
        "ristretto": [b for _, b in ris_bad_encodings(r, 3)],
        "vk": [b for _, b in bad_point_encodings(r, 6)],
    }
    for fmt in ("bincode", "json"):
        for ty, vs in vals.items():
            for v in vs:
                out.append(("serde.%s.ser.%s" % (fmt, ty), "serde.%s.ser.%s %s" % (fmt, ty, v.hex())))
                # the canonical serialisation, deserialised
                if fmt == "json":
                    enc = json_arr(v)
                    out.append(("serde.json.de.%s:valid" % ty, "serde.json.de.%s %s" % (ty, enc.hex())))
                    # structural mutations
                    out.append(("serde.json.de.%s:short" % ty, "serde.json.de.%s %s" % (ty, json_arr(v[:-1]).hex())))
                    out.append(("serde.json.de.%s:long" % ty, "serde.json.de.%s %s" % (ty, json_arr(v + b"\x00").hex())))
                    out.append(("serde.json.de.%s:long300" % ty, "serde.json.de.%s %s" % (ty, (json_arr(v)[:-1] + b",300]").hex())))
                    out.append(("serde.json.de.%s:elem256" % ty, "serde.json.de.%s %s" % (ty, (b"[256," + json_arr(v[1:])[1:]).hex())))
                    out.append(("serde.json.de.%s:neg" % ty, "serde.json.de.%s %s" % (ty, (b"[-1," + json_arr(v[1:])[1:]).hex())))
                    out.append(("serde.json.de.%s:ws" % ty, "serde.json.de.%s %s" % (ty, (b" [ " + b" , ".join(str(b).encode() for b in v) + b" ] ").hex())))
                    out.append(("serde.json.de.%s:str" % ty, "serde.json.de.%s %s" % (ty, (b'"' + v.hex().encode() + b'"').hex())))
                    out.append(("serde.json.de.%s:trailing_comma" % ty, "serde.json.de.%s %s" % (ty, (json_arr(v)[:-1] + b",]").hex())))
                    out.append(("serde.json.de.%s:garbage_after" % ty, "serde.json.de.%s %s" % (ty, (json_arr(v) + b"x").hex())))
                else:
                    # bincode: tuple types = raw bytes; bytes types = u64 length prefix
                    raw = v
                    pref = (len(v)).to_bytes(8, "little") + v
                    for lab, enc in (("raw", raw), ("prefixed", pref), ("raw_short", raw[:-1]), ("raw_long", raw + b"\x00"), ("prefixed_short", pref[:-1]),
                                     ("prefixed_long", pref + b"\x07"), ("prefix31", (31).to_bytes(8, "little") + v[:31]), ("prefix33", (33).to_bytes(8, "little") + v + b"\x01"),
                                     ("prefix2n", (2 * len(v)).to_bytes(8, "little") + v + v), ("prefix0", (0).to_bytes(8, "little")),
                                     ("hugeprefix", (1 << 62).to_bytes(8, "little") + v), ("empty", b"")):
                        out.append(("serde.bincode.de.%s:%s" % (ty, lab), "serde.bincode.de.%s %s" % (ty, hx(enc))))
        for ty, vs in invalid.items():
            for v in vs:
                if fmt == "json":
                    out.append(("serde.json.de.%s:invalid_value" % ty, "serde.json.de.%s %s" % (ty, json_arr(v).hex())))
                else:
                    out.append(("serde.bincode.de.%s:invalid_value_raw" % ty, "serde.bincode.de.%s %s" % (ty, v.hex())))
                    out.append(("serde.bincode.de.%s:invalid_value_prefixed" % ty, "serde.bincode.de.%s %s" % (ty, ((32).to_bytes(8, "little") + v).hex())))
    return out


# ------------------------------------------------------------------ C17 ff / group

def req_C17(r, tier):
    out = [("grp.consts", "grp.consts")]
    pool = sc_pool(r, sz(tier, 30, 300))
    for ls, s in pool:
        out.append(("grp.from_repr:" + ls, "grp.from_repr " + H(s)))
        out.append(("grp.from_repr_vt:" + ls, "grp.from_repr_vt " + H(s)))
        out.append(("grp.invert:" + ls, "grp.invert " + H(s % L)))
        out.append(("grp.sqrt:" + ls, "grp.sqrt " + H(s % L)))
        sq = (s % L) * (s % L) % L
        out.append(("grp.sqrt:square", "grp.sqrt " + H(sq)))
        out.append(("grp.sqrt_ratio", "grp.sqrt_ratio %s %s" % (H(sq), H(r.choice(pool)[1] % L))))
        out.append(("grp.sqrt_ratio:nonsq?", "grp.sqrt_ratio %s %s" % (H(s % L), H(r.choice(pool)[1] % L))))
    out.append(("grp.sqrt_ratio:0/0", "grp.sqrt_ratio %s %s" % (H(0), H(0))))
    out.append(("grp.sqrt_ratio:x/0", "grp.sqrt_ratio %s %s" % (H(5), H(0))))
    for i in range(sz(tier, 20, 300)):
        out.append(("grp.from_uniform", "grp.from_uniform " + r.bytes(64).hex()))
    pts = point_pool(r, sz(tier, 20, 200))
    for lab, b in pts + bad_point_encodings(r, sz(tier, 10, 100)):
        out.append(("grp.ed_from_bytes:" + lab, "grp.ed_from_bytes " + b.hex()))
        out.append(("grp.ed_from_bytes_unchecked", "grp.ed_from_bytes_unchecked " + b.hex()))
        out.append(("grp.sub_from_bytes:" + lab, "grp.sub_from_bytes " + b.hex()))
        out.append(("grp.ris_from_bytes", "grp.ris_from_bytes " + b.hex()))
    for lab, b in pts:
        if decompress(b) is None:
            continue
        out.append(("grp.into_subgroup:" + lab, "grp.into_subgroup " + b.hex()))
        out.append(("grp.clear_cofactor:" + lab, "grp.clear_cofactor " + b.hex()))
        out.append(("grp.is_torsion_free:" + lab, "grp.is_torsion_free " + b.hex()))
        # the group::Group methods themselves (is_identity, double, identity(), generator()) for EdwardsPoint / SubgroupPoint
        out.append(("grp.ed_group:" + lab, "grp.ed_group " + b.hex()))
        out.append(("grp.sub_group:" + lab, "grp.sub_group " + b.hex()))
    for lab, b in ris_pool(r, 6) + ris_bad_encodings(r, 3):
        out.append(("grp.ris_from_bytes:" + lab, "grp.ris_from_bytes " + b.hex()))
    # group::Group for RistrettoPoint, on EVERY coset representative of the element (P + T, T in E[4]); incl. the identity element
    for lab, b in [("identity", bytes(32))] + ris_pool(r, 8):
        for j in range(4):
            out.append(("grp.ris_group:%s:rep%d" % (lab.split("(")[0][:10], j), "grp.ris_group %s %d" % (b.hex(), j)))
    return out


# ------------------------------------------------------------------ C15 untrusted input (run on the `checked` profile: a panic shows as `panic`)

def req_C15(r, tier):
    out = []
    # every decoder on every length
    for n in range(0, 97):
        b = r.bytes(n)
        for op in ("ed.from_slice", "ris.from_slice", "eds.sig"):
            out.append(("%s:len%d" % (op, n), "%s %s" % (op, hx(b))))
    # 32-byte decoders on class-directed strings
    specials = [0, 1, 2, P - 1, P, P + 1, M255, 1 << 255, (1 << 256) - 1, SQRT_M1, P - SQRT_M1, L, L - 1, (1 << 255) | 1, (P - 1) | (1 << 255), 19, (1 << 255) - 20]
    strs = [tole(v) for v in specials] + [r.bytes(32) for _ in range(sz(tier, 60, 1500))]
    for b in strs:
        h = b.hex()
        for op in ("ed.decompress", "ris.decompress", "sc.canonical", "sc.reduce", "eds.vk", "eds.vk_to_montgomery", "x.pubkey_bytes", "grp.ed_from_bytes", "grp.sub_from_bytes",
                   "grp.ris_from_bytes", "grp.from_repr", "eds.keygen", "sc.clamp", "mont.elligator", "ris.elligator", "fe.roundtrip", "fe.invert", "fe.invsqrt"):
            out.append((op, "%s %s" % (op, h)))
        out.append(("mont.to_edwards", "mont.to_edwards %s 0" % h))
        out.append(("mont.to_edwards", "mont.to_edwards %s 1" % h))
        out.append(("x.x25519", "x.x25519 %s %s" % (r.bytes(32).hex(), h)))
        out.append(("x.x25519:k", "x.x25519 %s %s" % (h, r.bytes(32).hex())))
        out.append(("x.static", "x.static %s %s" % (r.bytes(32).hex(), h)))
        out.append(("mont.mul", "mont.mul %s %s" % (h, r.bytes(32).hex())))
        out.append(("eds.verify", "eds.verify %s %s %s" % (h, hx(r.bytes(r.below(40))), r.bytes(64).hex())))
        out.append(("eds.verify_strict", "eds.verify_strict %s %s %s" % (h, hx(r.bytes(r.below(40))), r.bytes(64).hex())))
        out.append(("eds.verify:badsig", "eds.verify %s %s %s" % (ed_pub(bytes(32)).hex(), "-", (b + r.bytes(32)).hex())))
        out.append(("eds.verify_strict:badsig", "eds.verify_strict %s %s %s" % (ed_pub(bytes(32)).hex(), "-", (r.bytes(32) + b).hex())))
        for c in (b"", bytes(255)):
            out.append(("eds.verify_ph", "eds.verify_ph %s %s %s %s" % (h, "00", hx(c), r.bytes(64).hex())))
            out.append(("eds.verify_ph_strict", "eds.verify_ph_strict %s %s %s %s" % (ed_pub(bytes(32)).hex(), "00", hx(c), (b + r.bytes(32)).hex())))
    for v in specials:
        out.append(("fe.sqrt_ratio_i", "fe.sqrt_ratio_i %s %s" % (H(v), H(r.choice(specials)))))
    for i in range(sz(tier, 40, 600)):
        out.append(("ris.from_uniform", "ris.from_uniform " + r.bytes(64).hex()))
        out.append(("sc.reduce_wide", "sc.reduce_wide " + r.bytes(64).hex()))
        out.append(("ed.nonspec_map", "ed.nonspec_map " + hx(r.bytes(r.below(80)))))
        out.append(("sc.from_hash", "sc.from_hash " + hx(r.bytes(r.below(80)))))
        out.append(("ris.from_hash", "ris.from_hash " + hx(r.bytes(r.below(80)))))
        out.append(("eds.from_keypair", "eds.from_keypair " + r.bytes(64).hex()))
    # elligator special r: 1 + 2r^2 = 0 has no solution; r with d*r^2 = ... ; r = 0, ±1, sqrt(-1/2)?  (non-residue) ...
    for v in (0, 1, P - 1, SQRT_M1, inv(2), (P - 1) // 2, sqrt(inv(2) % P) or 3):
        out.append(("mont.elligator:special", "mont.elligator " + H(v)))
        out.append(("ris.elligator:special", "ris.elligator " + H(v)))
    # hash-to-group with a pass-through digest: reaches the algebraically exceptional Elligator inputs directly
    exc = [0, 1, P - 1, P, P + 1, SQRT_M1, P - SQRT_M1, inv(2), (P - 1) // 2, M255, 2, 3, 4, 5, 7]
    for v in exc:
        for top in (0, 1):
            d = tole((v & M255) | (top << 255)) + r.bytes(32)
            out.append(("ed.nonspec_map_raw:exceptional", "ed.nonspec_map_raw " + d.hex()))
    for i in range(sz(tier, 40, 600)):
        out.append(("ed.nonspec_map_raw:rand", "ed.nonspec_map_raw " + r.bytes(64).hex()))
    # malformed batches
    tr = honest_triples(r, 4)
    out.append(("eds.batch:len_mismatch", "eds.batch %s %s %s" % (lst(hx(t[1]) for t in tr[:2]), lst(t[2].hex() for t in tr), lst(t[3].hex() for t in tr[:3]))))
    out.append(("eds.batch:empty", "eds.batch - - -"))
    # every length triple (messages, signatures, keys) in {0..3}^3: an index into a shorter / EMPTY slice panics
    for a in range(4):
        for b in range(4):
            for c in range(4):
                out.append(("eds.batch:lens_%d_%d_%d" % (a, b, c), "eds.batch %s %s %s" % (lst(hx(t[1]) for t in tr[:a]), lst(t[2].hex() for t in tr[:b]), lst(t[3].hex() for t in tr[:c]))))
    out.append(("eds.batch:garbage", "eds.batch %s %s %s" % (lst(hx(t[1]) for t in tr), lst(r.bytes(64).hex() for t in tr), lst(t[3].hex() for t in tr))))
    out.append(("eds.batch:Snoncanon", "eds.batch %s %s %s" % (lst(hx(t[1]) for t in tr), lst((t[2][:32] + tole((1 << 256) - 1)).hex() for t in tr), lst(t[3].hex() for t in tr))))
    # batch operations with the exceptional element (zero / identity coset) at EVERY position, incl. first, last, all
    rid, rb = ris_encode(ZERO).hex(), [ris_encode(smul(k, B)).hex() for k in (1, 2, 3)]
    for n in range(1, 5):
        for pos in range(n):
            ps = [rb[i % 3] for i in range(n)]
            ps[pos] = rid
            out.append(("ris.double_compress_batch:id_at_%d_of_%d" % (pos, n), "ris.double_compress_batch " + lst(ps)))
            xs = [H(3 + i) for i in range(n)]
            xs[pos] = H(0)
            out.append(("fe.batch_invert:zero_at_%d_of_%d" % (pos, n), "fe.batch_invert " + lst(xs)))
        out.append(("ris.double_compress_batch:all_id:n=%d" % n, "ris.double_compress_batch " + lst([rid] * n)))
        out.append(("fe.batch_invert:all_zero:n=%d" % n, "fe.batch_invert " + lst([H(0)] * n)))
    out.append(("ris.double_compress_batch:empty", "ris.double_compress_batch -"))
    for j in range(4):
        for pos in range(2):
            items = ["%s:0" % rb[0], "%s:1" % rb[1]]
            items[pos] = "%s:%d" % (rid, j)
            out.append(("ris.double_compress_batch_rep:id_rep%d_at_%d" % (j, pos), "ris.double_compress_batch_rep " + lst(items)))
    out.append(("fe.batch_invert:empty", "fe.batch_invert -"))
    # scalar multiplications on algebraically exceptional scalar tuples (all-zero recodings etc.)
    out += exceptional_scalar_mul(r)
    # over-long prehash contexts on the VERIFY side (signing refuses them)
    sd = r.bytes(32)
    for n in (256, 300):
        sg = ed_sign(sd, b"m", b"")
        out.append(("eds.verify_ph:ctx%d" % n, "eds.verify_ph %s %s %s %s" % (ed_pub(sd).hex(), "6d", hx(bytes(n)), sg.hex())))
        out.append(("eds.verify_ph_strict:ctx%d" % n, "eds.verify_ph_strict %s %s %s %s" % (ed_pub(sd).hex(), "6d", hx(bytes(n)), sg.hex())))
        out.append(("eds.sign_ph:ctx%d" % n, "eds.sign_ph %s %s %s" % (sd.hex(), "6d", hx(bytes(n)))))
    return out


# ------------------------------------------------------------------ C11: the union stream, run on the `checked` profile (overflow checks +
# debug assertions) and on the release profile; both must agree with the model and never print `panic`


# ------------------------------------------------------------------ IFMA mul -> negate_lazy margin (C01/C11)
def margin_corpus():
    """stored witnesses (reduced limbs x, y of one lane) on which the top limb of the IFMA product exceeds the limb of 16p"""
    path = os.path.join(os.path.dirname(os.path.dirname(os.path.abspath(__file__))), "corpus", "ifma_mul_margin.txt")
    res = []
    if os.path.exists(path):
        for line in open(path):
            m = re.match(r"x=([0-9,]+) y=([0-9,]+)", line.strip())
            if m:
                res.append(([int(v) for v in m.group(1).split(",")], [int(v) for v in m.group(2).split(",")]))
    return res


def unreduce_preimage(red):
    """raw u64 limbs whose parallel-carry reduction (`F51x4Reduced::from`, and the weak reduce of the other backends) gives
    exactly the limbs `red` (limb 0 < 2^51 + 19*2^13, limbs 1..4 < 2^51 + 2^13)"""
    T = 1 << 51
    low, carry_in = [0] * 5, [0] * 5          # carry_in[i] = carry that must arrive at limb i
    if red[0] >= T:
        c4 = (red[0] - T) // 19 + 1
        low[0], carry_in[0] = red[0] - 19 * c4, c4
    else:
        low[0] = red[0]
    for i in range(1, 5):
        if red[i] >= T:
            carry_in[i] = red[i] - (T - 1)
            low[i] = T - 1
        else:
            low[i] = red[i]
    # carry out of limb i feeds limb i+1 (limb 4 feeds limb 0 times 19)
    raw = [low[i] | (carry_in[(i + 1) % 5] << 51) for i in range(5)]
    assert all(v < (1 << 64) for v in raw)
    return raw


def margin_shape(r):
    """fresh inputs of the witness shape: x_i = 2^51 + a_i, y_j = 2^51 + b_j with a_i b_j small and negative for i + j = 4
    (1 <= i, j <= 3), x0, y0 at the top of their range, x4 = -d1 / y0 and y4 = -d2 / x0 mod 2^52"""
    T, M52 = 1 << 51, (1 << 52) - 1
    while True:
        ex = r.choice([19 * 8191, 19 * 8191, 19 * 33, 19 * 97, 19 * 1024])   # 2^51 - 1 + 19 * 8191 is the largest limb 0 a reduce can return
        x0 = T + ex - 1 - 2 * r.below(200)
        y0 = T + ex - 1 - 2 * r.below(200)
        x0 -= 1 - (x0 & 1)
        y0 -= 1 - (y0 & 1)
        d1, d2 = 1 + r.below(40), 1 + r.below(40)
        x4 = (-d1 * pow(y0, -1, 1 << 52)) & M52
        y4 = (-d2 * pow(x0, -1, 1 << 52)) & M52
        if x4 >= T or y4 >= T:
            continue
        s = r.choice([1, -1])
        a = [T + s * (1 + r.below(3)) for _ in range(3)]
        b = [T - s * 1 for _ in range(3)]
        return [x0] + a + [x4], [y0] + b + [y4]


def req_C11(r, tier):
    out = []
    out += req_C01(r, tier)
    out += req_C02(r, tier)
    small = "quick"
    out += req_C03(r, small)
    c4 = req_C04(r, small)
    out += per_class([x for x in c4 if "n=5" not in x[0] and "n=79" not in x[0] and "n=8" not in x[0][-5:]], sz(tier, 1500, 100000))
    out += req_C06(r, small)
    out += req_C07(r, small)
    out += per_class(req_C08(r, small), sz(tier, 400, 5000))
    out += per_class(req_C09(r, small), sz(tier, 300, 5000))
    # bulk random scalar arithmetic: overflow conditions that are RELATIONAL in the limbs (e.g. the Karatsuba recombination of the
    # 29-bit backend, whose wrapped intermediate differences cancel) have probabilities around 1e-3 .. 1e-6 per operation and no
    # boundary class of their own; cheap operations, so the checked builds simply run many of them
    for i in range(sz(tier, 4000, 60000)):
        out.append(("sc.reduce_wide:bulk", "sc.reduce_wide " + r.bytes(64).hex()))
    for i in range(sz(tier, 1500, 30000)):
        out.append(("sc.reduce:bulk", "sc.reduce " + r.bytes(32).hex()))
        out.append(("sc.mul:bulk", "sc.mul %s %s" % (H(r.below(L)), H(r.below(L)))))
    return out


def per_class(reqs, cap):
    """at most `cap` requests, taken round-robin over the class labels so that EVERY class stays represented (a plain prefix
    of the list silently dropped whole classes, e.g. the unreduced-scalar double-base requests)"""
    if len(reqs) <= cap:
        return reqs
    by = {}
    for x in reqs:
        by.setdefault(x[0], []).append(x)
    out, depth = [], 0
    while len(out) < cap:
        added = False
        for lab in by:
            if depth < len(by[lab]) and len(out) < max(cap, len(by)):
                out.append(by[lab][depth])
                added = True
        if not added:
            break
        depth += 1
    return out


def req_C05(r, tier):
    """every public operation family, replayed on all 12 configurations"""
    out = req_C11(r, tier)
    out += req_C13(r, "quick")[:40]
    out += req_C16(r, "quick")[: sz(tier, 600, 3000)]
    out += req_C17(r, "quick")[: sz(tier, 400, 2000)]
    return out


def req_C12(r, tier):
    """public-API requests that select individual table entries / constants"""
    out = []
    step = 1 if tier != QUICK else 3
    # one request per radix-16 table entry (all 32 x 8 entries, both signs via recentring), never subsampled
    for v in single_digit_scalars():
        out.append(("ed.mul_base_raw:single_digit", "ed.mul_base_raw " + H(v)))
    for v in single_digit_scalars()[::step]:
        if v < L:
            out.append(("ed.basepoint_table:single_digit", "ed.basepoint_table " + H(v)))
            out.append(("ris.table:single_digit", "ris.table " + H(v)))
    Bc = compress(B).hex()
    # the identity constants of every backend as they are USED: accumulators and buckets initialised with the identity and added to before
    # any doubling (Pippenger, n >= 190), next to the doubling-first algorithms (Straus, variable base)
    for n in (2, 190):
        ss_, ps_ = [H(1 + (i % 5)) for i in range(n)], [Bc] * n
        out.append(("ed.msm_vt:identity_const:n=%d" % n, "ed.msm_vt %s %s" % (lst(ss_), lst(ps_))))
        out.append(("ed.msm_ct:identity_const:n=%d" % n, "ed.msm_ct %s %s" % (lst(ss_), lst(ps_))))
        for c in ("serial", "avx2", "ifma"):
            out.append(("ed.direct.%s.pippenger:identity_const" % c, "ed.direct.%s.pippenger %s %s" % (c, lst(ss_), lst(ps_))))
            out.append(("ed.direct.%s.straus_vt:identity_const" % c, "ed.direct.%s.straus_vt %s %s" % (c, lst(ss_), lst(ps_))))
    for d in range(1, 256, 2):
        for sign in (1, -1):
            b = (sign * d) % L
            out.append(("ed.double_base:oddB", "ed.double_base %s %s %s" % (H(0), Bc, H(b))))
            for c in ("serial", "avx2", "ifma"):
                out.append(("ed.direct.%s.double_base:oddB" % c, "ed.direct.%s.double_base %s %s %s" % (c, H(0), Bc, H(b))))
    # NAF digit positions other than 0 for the odd-multiples tables
    for i in range(sz(tier, 60, 600)):
        d = 2 * r.below(64) + 1
        pos = r.below(240)
        b = (d << pos) % L
        out.append(("ed.double_base:oddB_shifted", "ed.double_base %s %s %s" % (H(0), Bc, H(b))))
    for i in range(8):
        out.append(("ed.seq:torsion", "ed.seq T%d;T1;M1,%s;E0,2;O0;C0;Z5" % (i, H(i))))
        # every torsion constant as an operand of T-consuming formulas (add, sub, scalar mul), both operand orders
        out.append(("ed.seq:torsion_add", "ed.seq T%d;G;A0,1;A1,0;S1,0;S0,1;M0,%s;M0,%s;A0,0;B0;N0;A10,0;Z11;V0;V2" % (i, H(3), H(L - 1))))
        for j in range(8):
            out.append(("ed.seq:torsion_pair", "ed.seq T%d;T%d;A0,1;S0,1;E0,1;T%d;E2,5" % (i, j, (i + j) % 8)))
        out.append(("ed.coords:torsion", "ed.coords T%d" % i))
        out.append(("ed.coords:torsion_add", "ed.coords T%d;G;A0,1" % i))
    out.append(("grp.consts", "grp.consts"))
    for u in (9,):
        out.append(("mont.mul_base", "mont.mul_base " + H(1)))
        out.append(("ed.to_montgomery:B", "ed.to_montgomery " + Bc))
    out.append(("ed.mul_base:l", "ed.mul_base_raw " + H(L)))
    out.append(("ed.mul_base:l-1", "ed.mul_base " + H(L - 1)))
    out.append(("ris.mul_base:1", "ris.mul_base " + H(1)))
    # field-level uses of the curve/map constants
    for i in range(sz(tier, 40, 400)):
        out.append(("ris.from_uniform", "ris.from_uniform " + r.bytes(64).hex()))
        out.append(("mont.elligator", "mont.elligator " + H(r.below(P))))
        out.append(("ed.decompress:rand", "ed.decompress " + H(r.below(1 << 256))))
        s = r.below(L)
        out.append(("sc.mul", "sc.mul %s %s" % (H(s), H(r.below(L)))))
        out.append(("sc.reduce_wide", "sc.reduce_wide " + r.bytes(64).hex()))
        out.append(("x.x25519", "x.x25519 %s %s" % (r.bytes(32).hex(), r.bytes(32).hex())))
    pool = ris_pool(r, 6)
    for lab, b in pool:
        out.append(("ris.decompress", "ris.decompress " + b.hex()))
    return out


def req_C10(r, tier):
    """value-level sanity stream for the constant-time entry points (the trace comparison is in special.extra_C10)"""
    return req_C02(r, "quick")[:300] + req_C07(r, "quick")[:200]


def req_C14(r, tier):
    """functional stream for the code paths that wipe heap buffers (results must be unaffected by the wiping)"""
    out = []
    for n in (0, 1, 2, 3, 8, 17):
        ss = [H(r.below(L)) for _ in range(n)]
        ps = [compress(smul(3 + i, B)).hex() for i in range(n)]
        out.append(("ed.msm_ct:n=%d" % n, "ed.msm_ct %s %s" % (lst(ss), lst(ps))))
        for c in ("serial", "avx2", "ifma"):
            out.append(("ed.direct.%s.straus_ct" % c, "ed.direct.%s.straus_ct %s %s" % (c, lst(ss), lst(ps))))
        xs = [(r.below(L - 1) + 1) for _ in range(n)]
        out.append(("sc.batch_invert:n=%d" % n, "sc.batch_invert " + lst(H(x) for x in xs)))
    return out
